"""Shared machinery of /verif/check: build steps, stream execution, verdict parsing, evidence."""
import hashlib
import json
import os
import re
import shutil
import subprocess, threading
import sys
import tempfile
import time
from concurrent.futures import ThreadPoolExecutor

VERIF = os.path.dirname(os.path.abspath(__file__))
REPO = os.environ.get("VERIF_REPO", "/repo")
LEAN = os.path.join(VERIF, "lean")
BUILD = os.path.join(VERIF, "build")
REPLAYS = os.path.join(VERIF, "replays")
EVIDENCE = os.path.join(VERIF, "evidence")
GOENV = dict(os.environ, GOFLAGS="-mod=mod", GOPROXY="off", GOSUMDB="off", GOTOOLCHAIN="local",
             CGO_ENABLED="1")
STREAM_TIMEOUT = int(os.environ.get("VERIF_STREAM_TIMEOUT", "1500"))
ALLOWED_AXIOMS = {"propext", "Classical.choice", "Quot.sound"}
FORBIDDEN = re.compile(r"\b(sorry|admit|native_decide|bv_decide|implemented_by)\b|^\s*axiom\s|\bunsafe\s|maxHeartbeats\s+0")


def sh(cmd, cwd=None, env=None, timeout=None, inp=None):
    p = subprocess.run(cmd, cwd=cwd, env=env, timeout=timeout, input=inp,
                       stdout=subprocess.PIPE, stderr=subprocess.STDOUT, text=True)
    return p.returncode, p.stdout


# ----------------------------------------------------------------------------- builds

def build_extract():
    exe = os.path.join(BUILD, "extract")
    os.makedirs(BUILD, exist_ok=True)
    src = os.path.join(VERIF, "tools", "extract")
    newest = max(os.path.getmtime(os.path.join(src, f)) for f in os.listdir(src))
    if not os.path.exists(exe) or os.path.getmtime(exe) < newest:
        rc, out = sh(["go", "build", "-o", exe, "."], cwd=src, env=GOENV)
        if rc != 0:
            raise RuntimeError("cannot build the fact extractor:\n" + out)
    return exe


def run_extract():
    """Regenerate lean/RedkaModel/Generated from /repo; return the list of facts that differ
    from the committed expectation (Tie/expected.json)."""
    exe = build_extract()
    gj = os.path.join(BUILD, "generated.json")
    rc, out = sh([exe, "-repo", REPO, "-lean", LEAN, "-json", gj])
    if rc != 0:
        return ["extractor failed: " + out[-400:]]
    # command grammars and dispatch table (tools/extract_wire)
    wexe = os.path.join(BUILD, "extract_wire")
    wsrc = os.path.join(VERIF, "tools", "extract_wire")
    if not os.path.exists(wexe) or os.path.getmtime(wexe) < max(os.path.getmtime(os.path.join(wsrc, f)) for f in os.listdir(wsrc)):
        rc2, out2 = sh(["go", "build", "-o", wexe, "."], cwd=wsrc, env=GOENV)
        if rc2 != 0:
            return ["grammar extractor does not build: " + out2[-400:]]
    rc2, out2 = sh([wexe, "-repo", REPO, "-ns", "Generated", "-out", os.path.join(LEAN, "RedkaModel", "Generated", "Grammar.lean"),
                      "-cmds", os.path.join(LEAN, "RedkaModel", "Generated", "Cmds.lean")])
    if rc2 != 0:
        return ["grammar extractor failed: " + out2[-400:]]
    with open(gj) as f:
        gen = json.load(f)
    with open(os.path.join(LEAN, "RedkaModel", "Tie", "expected.json")) as f:
        exp = json.load(f)
    return sorted(diff_json(exp, gen))


def diff_json(a, b, path=""):
    out = []
    if isinstance(a, dict) and isinstance(b, dict):
        for k in sorted(set(a) | set(b)):
            p = f"{path}.{k}" if path else k
            if k not in a:
                out.append(p + " (added)")
            elif k not in b:
                out.append(p + " (removed)")
            else:
                out += diff_json(a[k], b[k], p)
    elif a != b:
        out.append(path)
    return out


def build_harness(need_wire=False):
    """Compile the harness inside the /repo module from its current working tree (overlay).
    The API-level harness does not need the wire mode; when the full overlay does not compile and
    the property does not need it, a stub replaces the wire files."""
    os.makedirs(BUILD, exist_ok=True)
    exe = os.path.join(BUILD, "verifharness")
    hdir = os.path.join(VERIF, "tools", "harness")
    with open(os.path.join(hdir, "overlay.json")) as f:
        full = json.load(f)["Replace"]
    # harness sources are taken from THIS copy of /verif (a snapshot run must not see later edits)
    full = {k: (VERIF + v[len("/verif"):] if v.startswith("/verif/") else v) for k, v in full.items()}
    full = {(REPO + k[len("/repo"):] if k.startswith("/repo/") else k): v for k, v in full.items() if os.path.exists(v)}
    base = {k: v for k, v in full.items() if not os.path.basename(k).startswith("wire")}
    base[REPO + "/cmd/verifharness/wire.go"] = os.path.join(hdir, "stub", "wire.go")
    attempts = [full] if need_wire else [full, base]
    out = ""
    for i, repl in enumerate(attempts):
        ov = os.path.join(BUILD, f"overlay_{os.getpid()}_{i}.json")
        with open(ov, "w") as f:
            json.dump({"Replace": repl}, f)
        rc, out = sh(["go", "build", "-tags", "verif", "-overlay", ov, "-o", exe, "./cmd/verifharness"],
                     cwd=REPO, env=GOENV)
        os.unlink(ov)
        if rc == 0:
            return exe, out
    return None, out


_server_lock = threading.Lock()
_server_built = None


def build_server():
    """Build the real server binary (cmd/redka) from the tree, once per run, for the socket-level streams."""
    global _server_built
    with _server_lock:
        if _server_built is None:
            exe = os.path.join(BUILD, "redka-server")
            if os.path.exists(exe):
                os.unlink(exe)
            rc, out = sh(["go", "build", "-o", exe, "./cmd/redka"], cwd=REPO, env=GOENV)
            _server_built = ((exe if rc == 0 else None), out)
        return _server_built


def lake_build(targets):
    """Build the given lake targets; return (ok, failing module names, raw output)."""
    rc, out = sh(["lake", "build"] + targets, cwd=LEAN)
    failed = sorted(set(re.findall(r"^- (\S+)", out, re.M)) | set(re.findall(r"✖ \[\d+/\d+\] Building (\S+)", out)))
    return rc == 0, failed, out


def forbidden_tokens():
    hits = []
    for root, _, files in os.walk(LEAN):
        if ".lake" in root:
            continue
        for fn in files:
            if not fn.endswith(".lean"):
                continue
            path = os.path.join(root, fn)
            in_block = 0
            for n, line in enumerate(open(path, encoding="utf-8"), 1):
                code = line
                # strip comments (approximate: block comments tracked by depth, line comments cut)
                res = ""
                i = 0
                while i < len(code):
                    if code.startswith("/-", i):
                        in_block += 1
                        i += 2
                    elif code.startswith("-/", i) and in_block:
                        in_block -= 1
                        i += 2
                    elif in_block:
                        i += 1
                    elif code.startswith("--", i):
                        break
                    else:
                        res += code[i]
                        i += 1
                # string literals may legitimately contain the words
                res = re.sub(r'"(\\.|[^"\\])*"', '""', res)
                if FORBIDDEN.search(res):
                    hits.append(f"{os.path.relpath(path, LEAN)}:{n}: {line.strip()}")
    return hits


def audit(module):
    """Run `#print axioms` for every theorem of a property (Audit/<id>.lean); returns
    (theorem -> axiom list, offending theorem list, raw output)."""
    path = os.path.join("RedkaModel", "Audit", module + ".lean")
    rc, out = sh(["lake", "env", "lean", path], cwd=LEAN)
    thms = {}
    for m in re.finditer(r"'([^']+)' depends on axioms: \[([^\]]*)\]", out):
        thms[m.group(1)] = [a.strip() for a in m.group(2).split(",") if a.strip()]
    for m in re.finditer(r"'([^']+)' does not depend on any axioms", out):
        thms[m.group(1)] = []
    bad = [t for t, ax in thms.items() if not set(ax) <= ALLOWED_AXIOMS]
    if rc != 0:
        bad.append(f"<audit module {module} does not compile>")
    return thms, bad, out


# ----------------------------------------------------------------------------- streams

def _ends_with_hang(path):
    try:
        with open(path, "rb") as f:
            f.seek(0, 2)
            f.seek(max(0, f.tell() - (4 << 20)))
            tail = f.read().decode("latin1").rstrip("\n").rsplit("\n", 1)[-1]
    except OSError:
        return False
    return "HANG" in tail


def run_stream(spec, workdir, idx, harness, driver="driver"):
    """spec: dict(kind='api'|'script'|'wire', args=[...] | script=str). Returns paths."""
    lines = os.path.join(workdir, f"lines_{idx}.txt")
    verd = os.path.join(workdir, f"verd_{idx}.txt")
    if spec["kind"] in ("script", "wirescript"):
        sp = os.path.join(workdir, f"script_{idx}.txt")
        with open(sp, "w") as f:
            f.write(spec["script"])
        cmd = [harness, "script", sp] if spec["kind"] == "script" else [harness, "wire", "-script", sp]
    elif spec["kind"] in ("sock", "srvconc"):
        server, sout = build_server()
        if server is None:
            return dict(spec=spec, lines=lines, verd=None, error="server binary does not build: " + sout[-1500:])
        cmd = [harness, spec["kind"], "-bin", server] + [str(a) for a in spec["args"]]
    else:
        cmd = [harness, spec["kind"]] + [str(a) for a in spec["args"]]
    hang_retried = False
    for attempt in (0, 1):
        try:
            with open(lines, "w") as lf:
                p = subprocess.run(cmd, stdout=lf, stderr=subprocess.PIPE, text=True, timeout=STREAM_TIMEOUT)
        except subprocess.TimeoutExpired:
            # a stream that does not end is itself a finding (something hangs); no input can be named
            return dict(spec=spec, lines=lines, verd=None,
                        error=f"the stream did not finish within {STREAM_TIMEOUT} s (the implementation hangs): " + " ".join(map(str, cmd[1:])))
        if p.returncode != 0:
            return dict(spec=spec, lines=lines, verd=None, error=p.stderr[-2000:] or f"the harness exited with status {p.returncode}")
        # A request that did not return within 20 s ends the stream with a HANG line. The streams are a
        # deterministic function of their seed, so a real deadlock hangs again at the same request; a stall of
        # the machine (an fsync behind a saturated disk, say) does not. A HANG is therefore reported only when
        # an identical second run of the stream hangs too.
        if attempt == 0 and _ends_with_hang(lines):
            hang_retried = True
            continue
        break
    drv = os.path.join(LEAN, ".lake", "build", "bin", spec.get("driver", driver))
    with open(lines) as lf, open(verd, "w") as vf:
        p2 = subprocess.run([drv], stdin=lf, stdout=vf, stderr=subprocess.PIPE, text=True)
    if p2.returncode != 0:
        return dict(spec=spec, lines=lines, verd=None, error="driver: " + (p2.stderr[-2000:] or f"exit status {p2.returncode}"))
    return dict(spec=spec, lines=lines, verd=verd, error=None, stderr=p.stderr[-4000:], hang_retried=hang_retried)


def run_streams(specs, harness, workdir, jobs=16):
    with ThreadPoolExecutor(max_workers=jobs) as ex:
        futs = [ex.submit(run_stream, s, workdir, i, harness) for i, s in enumerate(specs)]
        return [f.result() for f in futs]


VERD_RE = re.compile(r"(\w+)=(\S*)")


def parse_verdict(vline):
    parts = vline.split(" model= ", 1)
    head = parts[0]
    seq = head.split(" ", 1)[0]
    d = dict(VERD_RE.findall(head))
    d["seq"] = seq
    d["model"] = parts[1] if len(parts) > 1 else None
    d["ERR"] = " ERR " in (" " + head)
    d["panic"] = head.rstrip().endswith(" panic")
    d["K"] = [k for k in d.get("K", "").split(",") if k]
    d["D"] = [k for k in d.get("D", "").split(",") if k]
    return d


def iter_steps(result):
    """Yield (line_text, op_name, verdict dict) for a finished stream."""
    with open(result["lines"]) as lf, open(result["verd"]) as vf:
        for line, vline in zip(lf, vf):
            line = line.rstrip("\n")
            vline = vline.rstrip("\n")
            fields = line.split(" | ")
            op = fields[2].split(" ", 1)[0] if len(fields) > 2 else "?"
            yield line, op, parse_verdict(vline), vline


def step_key(line):
    """Identity of a step for counting distinct cases: operation + pre-state without timestamps."""
    f = line.split(" | ")
    if len(f) < 5:
        return line
    if line.startswith("SCAN "):
        return hashlib.md5((f[2] + "|" + f[1][f[1].find(" S "):]).encode()).hexdigest()
    if line.startswith(("FAULT ", "CONC ", "CONS ", "CRASH ", "SOCK ")):
        return hashlib.md5(re.sub(r"\b1[0-9]{12}\b|\b[0-9]{5,9}\b", "T", " | ".join(f[1:3])).encode()).hexdigest()
    pre = f[1]
    i = pre.find(" S ")
    krows = pre[:i].split(" ")
    # K n then 7 tokens per row; drop version(3) and mtime(5)? keep id,key,type,etime-presence,len
    keep = []
    rows = krows[2:]
    for j in range(0, len(rows) - 6, 7):
        r = rows[j:j + 7]
        keep.append((r[0], r[1], r[2], "-" if r[4] == "-" else "e", r[6]))
    return hashlib.md5((f[2] + "|" + repr(keep) + pre[i:]).encode()).hexdigest()


def nontrivial(line):
    f = line.split(" | ")
    if line.startswith(("FAULT ", "CONS ", "SOCK ")):
        return True
    if line.startswith("CONC "):
        return len(f) >= 4 and f[2].count(" ;; ") >= 1
    if line.startswith("CRASH "):
        return len(f) >= 4 and f[1].split()[1] != "0"
    if line.startswith("SCAN "):
        return len(f) >= 5 and not f[3].startswith("L 0")
    if len(f) < 5:
        return False
    res = f[3]
    if res.startswith("err") or res in ("ok nil", "ok L 0", "ok i:0", "ok F"):
        return f[1].split(" S ", 1)[-1] != f[4].split(" S ", 1)[-1]
    return True


# ----------------------------------------------------------------------------- findings, replays

def load_findings():
    with open(os.path.join(VERIF, "known_findings.json")) as f:
        return json.load(f)["findings"]


def write_replay(prop, seed, n, payload):
    os.makedirs(REPLAYS, exist_ok=True)
    path = os.path.join(REPLAYS, f"{prop}-{seed}-{n}.json")
    with open(path, "w") as f:
        json.dump(payload, f, indent=1)
    return path


def write_evidence(prop, tier, seed, level, coverage, assumptions, wall, violations):
    global EVIDENCE
    if os.path.realpath(REPO) != "/repo":
        # a run against a scratch worktree (a seeded change): its record must never replace the evidence of /repo
        EVIDENCE = os.path.join(VERIF, "replays", "evidence_scratch")
    os.makedirs(EVIDENCE, exist_ok=True)
    ev = dict(property_id=prop, tier=tier, seed=seed, level=level, coverage=coverage,
              assumptions=assumptions, wall_s=round(wall, 2), violations=violations)
    with open(os.path.join(EVIDENCE, prop + ".json"), "w") as f:
        json.dump(ev, f, indent=1)
    return ev
