// Command extract reads the redka working tree and regenerates the Lean data
// files (and a JSON twin) that the RedkaModel tie theorems compare against
// the committed expectations. See README.md for the list of facts.
package main

import (
	"encoding/json"
	"flag"
	"fmt"
	"os"
	"path/filepath"
	"sort"
	"strings"
)

// Facts is everything the extractor knows about one working tree.
type Facts struct {
	Sql             map[string]Stmt      `json:"sql"`      // "pkg.sqlName"
	Aliases         [][3]string          `json:"aliases"`  // pkg, name, target
	Replaces        [][5]string          `json:"replaces"` // pkg, func, old, new, n
	Facts           map[string]TxFact    `json:"facts"`    // "pkg.Recv.method" / "pkg.func"
	Wrappers        map[string]Wrap      `json:"wrappers"` // "pkg.Method" / "pkg.Cmd.Run"
	Consts          map[string]string    `json:"consts"`
	Schema          map[string]SchemaObj `json:"schema"` // "kind_object"
	SchemaOrder     []string             `json:"schemaOrder"`
	Dispatch        [][2]string          `json:"dispatch"` // command, parse expression
	DispatchDefault string               `json:"dispatchDefault"`
	Server          map[string]string    `json:"server"`
	Funcs           map[string]string    `json:"funcs"` // "pkg.Recv.method" / "pkg.func" / "pkg.type.T" / "pkg.decl.x"
}

// guarded runs one extraction group; a panic becomes an "unknown:" fact.
func guarded(out *Facts, name string, f func()) {
	defer func() {
		if r := recover(); r != nil {
			out.Consts["panic_"+name] = fmt.Sprintf("unknown:panic: %v", r)
		}
	}()
	f()
}

func extractAll(repo string) *Facts {
	out := &Facts{Sql: map[string]Stmt{}, Facts: map[string]TxFact{}, Wrappers: map[string]Wrap{},
		Consts: map[string]string{}, Schema: map[string]SchemaObj{}, Server: map[string]string{}, Funcs: map[string]string{},
		Aliases: [][3]string{}, Replaces: [][5]string{}, Dispatch: [][2]string{}, SchemaOrder: []string{}}
	guarded(out, "consts", func() { extractConsts(out, repo) })
	for _, p := range repoPkgs {
		guarded(out, p, func() { extractPkg(out, filepath.Join(repo, "internal", p)) })
	}
	guarded(out, "funcs", func() { extractFuncs(out, repo) })
	guarded(out, "schema", func() { extractSchema(out, filepath.Join(repo, "internal/sqlx/schema.sql")) })
	sort.Slice(out.Aliases, func(i, j int) bool {
		return strings.Join(out.Aliases[i][:], ".") < strings.Join(out.Aliases[j][:], ".")
	})
	out.Consts["parseErrors"] = "none"
	if len(parseErrors) > 0 {
		out.Consts["parseErrors"] = "unknown:" + strings.Join(sortedKeys(parseErrors), ",")
	}
	return out
}

func must(err error) {
	if err != nil {
		fmt.Fprintln(os.Stderr, "extract:", err)
		os.Exit(1)
	}
}

func writeFile(path, content string) {
	must(os.MkdirAll(filepath.Dir(path), 0o755))
	must(os.WriteFile(path, []byte(content), 0o644))
}

// removeGenerated deletes the *.lean files of dir that carry the generator header.
func removeGenerated(dir string) {
	old, _ := filepath.Glob(filepath.Join(dir, "*.lean"))
	for _, f := range old {
		if data, err := os.ReadFile(f); err == nil && strings.HasPrefix(string(data), leanHeader("")[:40]) {
			must(os.Remove(f))
		}
	}
}

func main() {
	repo := flag.String("repo", "/repo", "redka working tree")
	lean := flag.String("lean", "/verif/lean", "Lean project root")
	jsonPath := flag.String("json", "/verif/build/generated.json", "JSON output")
	snapshot := flag.Bool("snapshot", false, "also rewrite Tie/Expected.lean, Tie/expected.json and the tie modules")
	flag.Parse()

	facts := extractAll(*repo)
	js, err := json.MarshalIndent(facts, "", " ")
	must(err)
	writeFile(*jsonPath, string(js)+"\n")

	sections, ties := render(facts)
	gen := filepath.Join(*lean, "RedkaModel", "Generated")
	removeGenerated(gen)
	all := ""
	for _, s := range sections {
		writeFile(filepath.Join(gen, s.file+".lean"), leanHeader("regenerated on every check")+
			"namespace Redka.Generated\n\n"+s.text+"\nend Redka.Generated\n")
		all += "import RedkaModel.Generated." + s.file + "\n"
	}
	writeFile(filepath.Join(gen, "All.lean"), leanHeader("regenerated on every check")+all)
	fmt.Printf("extract: %d statements, %d function facts, %d wrappers, %d consts, %d schema objects, %d commands\n",
		len(facts.Sql), len(facts.Facts), len(facts.Wrappers), len(facts.Consts), len(facts.Schema), len(facts.Dispatch))
	if !*snapshot {
		return
	}

	tie := filepath.Join(*lean, "RedkaModel", "Tie")
	removeGenerated(tie)
	writeFile(filepath.Join(tie, "expected.json"), string(js)+"\n")
	exp := leanHeader("committed expectation; rewrite only with `extract -snapshot` on a reviewed tree") + "namespace Redka.Expected\n\n"
	for _, s := range sections {
		exp += "-- " + s.file + "\n" + s.text + "\n"
	}
	writeFile(filepath.Join(tie, "Expected.lean"), exp+"end Redka.Expected\n")
	all = ""
	for _, m := range ties.order {
		txt := leanHeader("tie theorems; every one is closed by rfl") +
			"import RedkaModel.Generated.All\nimport RedkaModel.Tie.Expected\n\nnamespace Redka.Tie\n\n"
		for _, th := range ties.thms[m] {
			txt += fmt.Sprintf("theorem %s : Generated.%s = Expected.%s := rfl\n", th[0], th[1], th[1])
		}
		writeFile(filepath.Join(tie, m+".lean"), txt+"\nend Redka.Tie\n")
		all += "import RedkaModel.Tie." + m + "\n"
		fmt.Printf("extract: Tie/%s.lean: %d theorems\n", m, len(ties.thms[m]))
	}
	writeFile(filepath.Join(tie, "All.lean"), leanHeader("umbrella of all tie modules")+all)
}
