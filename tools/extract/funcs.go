package main

// Every function, method and package-level declaration of the modelled packages as printed
// source with locals alpha-renamed (parameters, receivers, `:=`/var/range bindings become v0, v1,
// … in order of first appearance): renaming a local, re-indenting, commenting or moving a
// function to another file of its package is invisible; any change of an expression, a
// comparison, a call, a literal, a type or the order of statements is visible. The Lean side ties
// each text to the snapshot the model was transcribed from (Tie/Funcs_<pkg>), so that no function
// of a modelled package can change without an obligation breaking.

import (
	"fmt"
	"go/ast"
	"go/parser"
	"go/token"
	"os"
	"path/filepath"
	"sort"
	"strings"
)

// funcPkgs: directory (relative to the repository) -> package label
var funcPkgs = [][2]string{
	{"internal/rstring", "rstring"}, {"internal/rlist", "rlist"}, {"internal/rset", "rset"},
	{"internal/rhash", "rhash"}, {"internal/rzset", "rzset"}, {"internal/rkey", "rkey"},
	{"internal/core", "core"}, {"internal/sqlx", "sqlx"}, {"internal/redis", "redis"},
	{"internal/server", "server"}, {"internal/parser", "parser"}, {"internal/command", "command"},
	{".", "redka"}, {"cmd/redka", "main"},
}

func alphaFunc(fd *ast.FuncDecl) string {
	names := map[*ast.Object]string{}
	lo, hi := fd.Pos(), fd.End()
	ast.Inspect(fd, func(n ast.Node) bool {
		id, ok := n.(*ast.Ident)
		if !ok || id.Obj == nil || id.Obj.Kind != ast.Var || id.Name == "_" {
			return true
		}
		d, ok := id.Obj.Decl.(ast.Node)
		if !ok || d.Pos() < lo || d.End() > hi {
			return true
		}
		if _, seen := names[id.Obj]; !seen {
			names[id.Obj] = fmt.Sprintf("v%d", len(names))
		}
		return true
	})
	ast.Inspect(fd, func(n ast.Node) bool {
		if id, ok := n.(*ast.Ident); ok && id.Obj != nil {
			if nn, ok := names[id.Obj]; ok {
				id.Name = nn
			}
		}
		return true
	})
	return src(fd)
}

// extractFuncs parses each package afresh (alpha renaming mutates the tree).
func extractFuncs(out *Facts, repo string) {
	for _, pd := range funcPkgs {
		dir, pkg := filepath.Join(repo, pd[0]), pd[1]
		ents, err := os.ReadDir(dir)
		if err != nil {
			out.Funcs[pkg+".<package>"] = "unknown:cannot read " + pd[0]
			continue
		}
		var files []string
		for _, e := range ents {
			n := e.Name()
			if e.IsDir() || !strings.HasSuffix(n, ".go") || strings.HasSuffix(n, "_test.go") {
				continue
			}
			files = append(files, n)
		}
		sort.Strings(files)
		for _, n := range files {
			f, err := parser.ParseFile(fset, filepath.Join(dir, n), nil, 0)
			if err != nil {
				out.Funcs[pkg+".<"+n+">"] = "unknown:parse error"
				continue
			}
			for _, d := range f.Decls {
				switch v := d.(type) {
				case *ast.FuncDecl:
					key := pkg + "."
					if rt := recvType(v); rt != "" {
						key += rt + "."
					}
					key += v.Name.Name
					if _, dup := out.Funcs[key]; dup {
						key += "'" // build-tagged twins (same name in two files)
					}
					out.Funcs[key] = alphaFunc(v)
				case *ast.GenDecl:
					if v.Tok == token.IMPORT {
						continue
					}
					for _, sp := range v.Specs {
						switch s := sp.(type) {
						case *ast.TypeSpec:
							out.Funcs[pkg+".type."+s.Name.Name] = src(s)
						case *ast.ValueSpec:
							for i, nm := range s.Names {
								// SQL texts are tied separately, normalised as SQL (Tie/SqlFull_*)
								if strings.HasPrefix(nm.Name, "sql") || nm.Name == "_" {
									continue
								}
								txt := v.Tok.String() + " " + nm.Name
								if s.Type != nil {
									txt += " " + src(s.Type)
								}
								if i < len(s.Values) {
									txt += " = " + src(s.Values[i])
								} else if len(s.Values) == 1 && len(s.Names) > 1 {
									txt += " = " + src(s.Values[0])
								}
								out.Funcs[pkg+".decl."+nm.Name] = txt
							}
						}
					}
				}
			}
		}
	}
}
