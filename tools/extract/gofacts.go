package main

// Go-side facts of the six repository packages (sections A-D of the README):
// SQL constants and aliases, strings.Replace rewrites, per-function statement
// lists with their transitive closure, error sentinels, and wrapper kinds.

import (
	"bytes"
	"go/ast"
	"go/parser"
	"go/printer"
	"go/token"
	"path/filepath"
	"regexp"
	"sort"
	"strconv"
	"strings"
)

var fset = token.NewFileSet()
var parseErrors = map[string]bool{}
var parsed = map[string]*ast.File{}

// parseGo parses one file (once); on syntax errors it keeps the partial tree.
func parseGo(path string) *ast.File {
	if f, ok := parsed[path]; ok {
		return f
	}
	f, err := parser.ParseFile(fset, path, nil, parser.SkipObjectResolution)
	if err != nil {
		parseErrors[filepath.Base(filepath.Dir(path))+"/"+filepath.Base(path)] = true
	}
	if f == nil {
		f = &ast.File{Name: ast.NewIdent("unknown")}
	}
	parsed[path] = f
	return f
}

// parseDir parses the non-test Go files of a directory, sorted by name.
func parseDir(dir string) []*ast.File {
	names, _ := filepath.Glob(filepath.Join(dir, "*.go"))
	sort.Strings(names)
	var files []*ast.File
	for _, n := range names {
		if !strings.HasSuffix(n, "_test.go") {
			files = append(files, parseGo(n))
		}
	}
	if len(files) == 0 {
		parseErrors["empty:"+filepath.Base(dir)] = true
	}
	return files
}

// src prints a node with go/printer (comments dropped) and collapses whitespace.
func src(n any) string {
	if n == nil {
		return "unknown:nil node"
	}
	var b bytes.Buffer
	if err := printer.Fprint(&b, fset, n); err != nil {
		return "unknown:print error"
	}
	return collapse(b.String())
}

// body is the normalised body of a function, or unknown.
func body(fd *ast.FuncDecl) string {
	if fd == nil || fd.Body == nil {
		return "unknown:function not found"
	}
	return src(fd.Body)
}

// baseType strips pointers and type arguments: *DB[T] -> DB. Foreign
// (qualified) and composite types give "".
func baseType(e ast.Expr) string {
	switch x := e.(type) {
	case *ast.Ident:
		return x.Name
	case *ast.StarExpr:
		return baseType(x.X)
	case *ast.ParenExpr:
		return baseType(x.X)
	case *ast.IndexExpr:
		return baseType(x.X)
	case *ast.IndexListExpr:
		return baseType(x.X)
	}
	return ""
}

func recvType(fd *ast.FuncDecl) string {
	if fd.Recv == nil || len(fd.Recv.List) == 0 {
		return ""
	}
	return baseType(fd.Recv.List[0].Type)
}

// funcKey is "Recv.name" for methods and "name" for plain functions.
func funcKey(fd *ast.FuncDecl) string {
	if r := recvType(fd); r != "" {
		return r + "." + fd.Name.Name
	}
	return fd.Name.Name
}

func findFunc(files []*ast.File, key string) *ast.FuncDecl {
	for _, f := range files {
		for _, d := range f.Decls {
			if fd, ok := d.(*ast.FuncDecl); ok && funcKey(fd) == key {
				return fd
			}
		}
	}
	return nil
}

// valueSpecs calls visit for every package-level const/var spec name.
func valueSpecs(files []*ast.File, visit func(name string, val ast.Expr)) {
	for _, f := range files {
		for _, d := range f.Decls {
			gd, ok := d.(*ast.GenDecl)
			if !ok || (gd.Tok != token.CONST && gd.Tok != token.VAR) {
				continue
			}
			for _, sp := range gd.Specs {
				vs := sp.(*ast.ValueSpec)
				for i, n := range vs.Names {
					if i < len(vs.Values) {
						visit(n.Name, vs.Values[i])
					}
				}
			}
		}
	}
}

// strConsts resolves the package-level string constants of a package:
// literals, aliases of other constants, and `+` concatenations of those.
func strConsts(files []*ast.File) (vals map[string]string, alias map[string]string) {
	exprs := map[string]ast.Expr{}
	valueSpecs(files, func(n string, v ast.Expr) { exprs[n] = v })
	vals, alias = map[string]string{}, map[string]string{}
	var eval func(e ast.Expr, depth int) (string, bool)
	eval = func(e ast.Expr, depth int) (string, bool) {
		switch x := e.(type) {
		case *ast.BasicLit:
			if x.Kind == token.STRING {
				s, err := strconv.Unquote(x.Value)
				return s, err == nil
			}
		case *ast.ParenExpr:
			return eval(x.X, depth)
		case *ast.Ident:
			if v, ok := exprs[x.Name]; ok && depth < 20 {
				return eval(v, depth+1)
			}
		case *ast.BinaryExpr:
			l, ok1 := eval(x.X, depth)
			r, ok2 := eval(x.Y, depth)
			return l + r, ok1 && ok2 && x.Op == token.ADD
		}
		return "", false
	}
	for n, e := range exprs {
		if s, ok := eval(e, 0); ok {
			vals[n] = s
		} else if strings.HasPrefix(n, "sql") {
			vals[n] = "unknown:" + src(e)
		}
		if id, ok := e.(*ast.Ident); ok {
			alias[n] = id.Name
		}
	}
	return vals, alias
}

// TxFact is the statement/call/error profile of one function.
type TxFact struct {
	Refs  []string `json:"refs"`  // SQL constants named in the body, in order
	Calls []string `json:"calls"` // same-package callees, in order
	Stmts []string `json:"stmts"` // Refs with callee Stmts spliced in at call sites
	Errs  []string `json:"errs"`  // error sentinel tests, in order
}

// Wrap is the connection/transaction discipline of an exported entry point.
type Wrap struct {
	Kind  string   `json:"kind"`
	Calls []string `json:"calls"`
}

type event struct {
	call bool
	name string
}

// pkgInfo holds what the light-weight local type inference needs.
type pkgInfo struct {
	name    string
	files   []*ast.File
	funcs   map[string]*ast.FuncDecl
	fields  map[string]map[string]string // struct type -> field -> base type
	imports map[string]bool
	sql     map[string]string
}

func loadPkg(dir string) *pkgInfo {
	p := &pkgInfo{name: filepath.Base(dir), files: parseDir(dir), funcs: map[string]*ast.FuncDecl{},
		fields: map[string]map[string]string{}, imports: map[string]bool{}}
	for _, f := range p.files {
		for _, im := range f.Imports {
			path, _ := strconv.Unquote(im.Path.Value)
			n := filepath.Base(path)
			if im.Name != nil {
				n = im.Name.Name
			}
			p.imports[n] = true
		}
		for _, d := range f.Decls {
			switch x := d.(type) {
			case *ast.FuncDecl:
				if x.Body != nil {
					p.funcs[funcKey(x)] = x
				}
			case *ast.GenDecl:
				for _, sp := range x.Specs {
					ts, ok := sp.(*ast.TypeSpec)
					if !ok {
						continue
					}
					if st, ok := ts.Type.(*ast.StructType); ok {
						m := map[string]string{}
						for _, fl := range st.Fields.List {
							for _, n := range fl.Names {
								m[n.Name] = baseType(fl.Type)
							}
						}
						p.fields[ts.Name.Name] = m
					}
				}
			}
		}
	}
	return p
}

// typeEnv maps the local names of a function (receiver, parameters, closure
// parameters, := and var declarations) to same-package base types ("" = foreign).
type typeEnv map[string]string

func (p *pkgInfo) bindFields(env typeEnv, fl *ast.FieldList) {
	if fl == nil {
		return
	}
	for _, f := range fl.List {
		for _, n := range f.Names {
			env[n.Name] = baseType(f.Type)
		}
	}
}

func (p *pkgInfo) typeOf(env typeEnv, e ast.Expr) string {
	switch x := e.(type) {
	case *ast.Ident:
		return env[x.Name]
	case *ast.ParenExpr:
		return p.typeOf(env, x.X)
	case *ast.StarExpr:
		return p.typeOf(env, x.X)
	case *ast.UnaryExpr:
		return p.typeOf(env, x.X)
	case *ast.CompositeLit:
		return baseType(x.Type)
	case *ast.CallExpr:
		if fd := p.resolve(env, x); fd != nil && fd.Type.Results != nil && len(fd.Type.Results.List) > 0 {
			return baseType(fd.Type.Results.List[0].Type)
		}
	case *ast.SelectorExpr:
		if t := p.typeOf(env, x.X); t != "" {
			return p.fields[t][x.Sel.Name]
		}
	}
	return ""
}

// resolve finds the same-package function or method a call refers to.
func (p *pkgInfo) resolve(env typeEnv, c *ast.CallExpr) *ast.FuncDecl {
	switch f := c.Fun.(type) {
	case *ast.Ident:
		if _, local := env[f.Name]; !local {
			return p.funcs[f.Name]
		}
	case *ast.SelectorExpr:
		if id, ok := f.X.(*ast.Ident); ok {
			if _, local := env[id.Name]; !local && p.imports[id.Name] {
				return nil
			}
		}
		if t := p.typeOf(env, f.X); t != "" {
			return p.funcs[t+"."+f.Sel.Name]
		}
	}
	return nil
}

func (p *pkgInfo) envOf(fd *ast.FuncDecl) typeEnv {
	env := typeEnv{}
	p.bindFields(env, fd.Recv)
	p.bindFields(env, fd.Type.Params)
	p.bindFields(env, fd.Type.Results)
	ast.Inspect(fd.Body, func(n ast.Node) bool {
		switch x := n.(type) {
		case *ast.FuncLit:
			p.bindFields(env, x.Type.Params)
		case *ast.AssignStmt:
			if x.Tok != token.DEFINE {
				break
			}
			for i, l := range x.Lhs {
				id, ok := l.(*ast.Ident)
				if !ok {
					continue
				}
				switch {
				case len(x.Rhs) == len(x.Lhs):
					env[id.Name] = p.typeOf(env, x.Rhs[i])
				case i == 0 && len(x.Rhs) == 1:
					env[id.Name] = p.typeOf(env, x.Rhs[0])
				default:
					env[id.Name] = ""
				}
			}
		case *ast.ValueSpec:
			for i, n := range x.Names {
				env[n.Name] = baseType(x.Type)
				if x.Type == nil && i < len(x.Values) {
					env[n.Name] = p.typeOf(env, x.Values[i])
				}
			}
		}
		return true
	})
	return env
}

var reErrSel = regexp.MustCompile(`^\w+\.Err\w+$`)

// profile lists, for one function body, the ordered events (SQL constant
// references and resolved same-package calls, a call after its arguments),
// the error sentinel tests and the strings.Replace / += / ExpandIn rewrites.
func (p *pkgInfo) profile(fd *ast.FuncDecl, root ast.Node) (evs []event, errs []string, rewrites [][5]string) {
	env := p.envOf(fd)
	resolveStr := func(e ast.Expr) string {
		if lit, ok := e.(*ast.BasicLit); ok && lit.Kind == token.STRING {
			s, _ := strconv.Unquote(lit.Value)
			return s
		}
		if v, ok := extConsts[src(e)]; ok {
			return v
		}
		if v, ok := p.sql[src(e)]; ok {
			return v
		}
		return "expr:" + src(e)
	}
	var stack []ast.Node
	// a statement or call that sits in the body of a `for` / `range` loop may run any number of
	// times: it is listed twice, so that "at most one statement" stops being true of it
	inLoop := func() bool {
		for i := len(stack) - 1; i > 0; i-- {
			if blk, ok := stack[i].(*ast.BlockStmt); ok {
				switch l := stack[i-1].(type) {
				case *ast.ForStmt:
					if l.Body == blk {
						return true
					}
				case *ast.RangeStmt:
					if l.Body == blk {
						return true
					}
				}
			}
		}
		return false
	}
	ast.Inspect(root, func(n ast.Node) bool {
		if n == nil {
			top := stack[len(stack)-1]
			if c, ok := top.(*ast.CallExpr); ok {
				if callee := p.resolve(env, c); callee != nil {
					evs = append(evs, event{true, funcKey(callee)})
					if inLoop() {
						evs = append(evs, event{true, funcKey(callee)})
					}
				}
			}
			stack = stack[:len(stack)-1]
			return true
		}
		stack = append(stack, n)
		switch x := n.(type) {
		case *ast.Ident:
			if _, ok := p.sql[x.Name]; ok && strings.HasPrefix(x.Name, "sql") {
				evs = append(evs, event{false, x.Name})
				if inLoop() {
					evs = append(evs, event{false, x.Name})
				}
			}
		case *ast.BinaryExpr:
			if (x.Op == token.EQL || x.Op == token.NEQ) && (reErrSel.MatchString(src(x.X)) || reErrSel.MatchString(src(x.Y))) {
				errs = append(errs, src(x))
			}
		case *ast.AssignStmt:
			if x.Tok == token.ADD_ASSIGN && len(x.Rhs) == 1 {
				rewrites = append(rewrites, [5]string{p.name, funcKey(fd), "<append>", resolveStr(x.Rhs[0]), ""})
			}
		case *ast.CallExpr:
			switch fn := src(x.Fun); {
			case fn == "sqlx.ConstraintFailed" || fn == "sqlx.TypedError":
				errs = append(errs, src(x))
			case fn == "strings.Replace" && len(x.Args) == 4:
				rewrites = append(rewrites, [5]string{p.name, funcKey(fd), resolveStr(x.Args[1]), resolveStr(x.Args[2]), src(x.Args[3])})
			case fn == "sqlx.ExpandIn" && len(x.Args) == 3:
				rewrites = append(rewrites, [5]string{p.name, funcKey(fd), resolveStr(x.Args[1]), "<expandin>", "1"})
			}
		}
		return true
	})
	return evs, errs, rewrites
}

var reUpdate = regexp.MustCompile(`\.Update\(`)
var reRO = regexp.MustCompile(`\.RO\b`)
var reRW = regexp.MustCompile(`\.RW\b`)
var reDbBranch = regexp.MustCompile(`^\w+\.db != nil$`)

func wrapKind(text string) string {
	switch {
	case strings.HasPrefix(text, "unknown:"):
		return text
	case reUpdate.MatchString(text):
		return "update"
	case reRO.MatchString(text):
		return "ro"
	case reRW.MatchString(text):
		return "rw"
	}
	return "other"
}

// extConsts are the qualified constants statements may be rewritten with
// (sqlx.Asc, ...); filled by extractConsts before the packages are analysed.
var extConsts = map[string]string{}

var repoPkgs = []string{"rhash", "rkey", "rlist", "rset", "rstring", "rzset"}

// extractPkg fills the SQL, alias, rewrite, function and wrapper facts of one package.
func extractPkg(out *Facts, dir string) {
	p := loadPkg(dir)
	vals, alias := strConsts(p.files)
	p.sql = vals
	for n, v := range vals {
		if !strings.HasPrefix(n, "sql") {
			continue
		}
		if strings.HasPrefix(v, "unknown:") {
			out.Sql[p.name+"."+n] = Stmt{v, []string{v}, []string{v}, []string{v}, v, []string{v}, []string{v}}
		} else {
			out.Sql[p.name+"."+n] = mkStmt(v)
		}
		if a, ok := alias[n]; ok {
			out.Aliases = append(out.Aliases, [3]string{p.name, n, a})
		}
	}
	// Per-function profiles.
	events := map[string][]event{}
	keys := []string{}
	for k := range p.funcs {
		keys = append(keys, k)
	}
	sort.Strings(keys)
	for _, k := range keys {
		fd := p.funcs[k]
		evs, errs, rw := p.profile(fd, fd.Body)
		events[k] = evs
		out.Replaces = append(out.Replaces, rw...)
		f := TxFact{Refs: []string{}, Calls: []string{}, Stmts: []string{}, Errs: orEmpty(errs)}
		for _, e := range evs {
			if e.call {
				f.Calls = append(f.Calls, e.name)
			} else {
				f.Refs = append(f.Refs, e.name)
			}
		}
		out.Facts[p.name+"."+k] = f
	}
	var closure func(k string, seen map[string]bool) []string
	closure = func(k string, seen map[string]bool) []string {
		res := []string{}
		seen[k] = true
		for _, e := range events[k] {
			if !e.call {
				res = append(res, e.name)
			} else if !seen[e.name] {
				res = append(res, closure(e.name, seen)...)
			}
		}
		delete(seen, k)
		return res
	}
	for _, k := range keys {
		fd := p.funcs[k]
		f := out.Facts[p.name+"."+k]
		f.Stmts = closure(k, map[string]bool{})
		recv := recvType(fd)
		builder := strings.HasSuffix(recv, "Cmd") && (fd.Name.Name == "Run" || fd.Name.Name == "Store")
		// Wrappers: exported DB methods and builder Run/Store.
		if (recv == "DB" && fd.Name.IsExported()) || builder {
			var scope ast.Node = fd.Body
			if builder {
				for _, st := range fd.Body.List {
					if is, ok := st.(*ast.IfStmt); ok && reDbBranch.MatchString(src(is.Cond)) {
						scope = is.Body
						break
					}
				}
			}
			name := p.name + "." + strings.TrimPrefix(k, "DB.")
			w := Wrap{Kind: wrapKind(src(scope)), Calls: []string{}}
			evs, _, _ := p.profile(fd, scope)
			for _, e := range evs {
				if e.call {
					w.Calls = append(w.Calls, e.name)
				}
			}
			out.Wrappers[name] = w
		}
		// Function facts are kept for everything that is not a DB wrapper and is
		// either a Tx method, unexported, or touches SQL / errors / package code.
		if recv == "DB" || !(recv == "Tx" || !fd.Name.IsExported() || len(f.Stmts)+len(f.Errs)+len(f.Calls) > 0) {
			delete(out.Facts, p.name+"."+k)
		} else {
			out.Facts[p.name+"."+k] = f
		}
	}
}
