package main

// SQL text normalisation and the per-statement facets (section A of the README).

import (
	"regexp"
	"strings"
)

// Stmt is one SQL statement constant with its derived facets.
type Stmt struct {
	Text   string   `json:"text"`
	Expiry []string `json:"expiry"`
	Types  []string `json:"types"`
	Meta   []string `json:"meta"`
	Verb   string   `json:"verb"`
	Order  []string `json:"order"`
	Limit  []string `json:"limit"`
}

var (
	reComment = regexp.MustCompile(`--[^\n]*`)
	reSpace   = regexp.MustCompile(`\s+`)
	reExpiry  = regexp.MustCompile(`(?:\w+\.)?etime (?:is null or (?:\w+\.)?etime (?:>=|<=|<>|!=|>|<|=) \?|is null|is not null|(?:>=|<=|<>|!=|>|<|=) [^ ,)]+)`)
	reTypes   = regexp.MustCompile(`\(type = \? or true\)|\btype (?:=|!=|<>) [^ ,)]+(?: then type else null end)?`)
	reMetaLhs = regexp.MustCompile(`\b(?:version|mtime|len|etime) = `)
	reOrderBy = regexp.MustCompile(`\border by `)
	reLimit   = regexp.MustCompile(`\blimit `)
	reWord    = regexp.MustCompile(`^[a-z]+`)
)

// normSQL removes `--` comments, collapses whitespace and drops the spaces
// directly inside parentheses. Letter case is kept.
func normSQL(s string) string {
	s = reComment.ReplaceAllString(s, "")
	s = strings.TrimSpace(reSpace.ReplaceAllString(s, " "))
	s = strings.ReplaceAll(s, "( ", "(")
	return strings.ReplaceAll(s, " )", ")")
}

// collapse squeezes every whitespace run to one space (used for printed Go code).
func collapse(s string) string {
	return strings.TrimSpace(reSpace.ReplaceAllString(s, " "))
}

// scanDepth returns the prefix of s that ends before the first top-level
// occurrence of one of the stop strings, or before the `)` that closes an
// enclosing parenthesis, or at the end of s.
func scanDepth(s string, stops ...string) string {
	depth := 0
	for i := 0; i < len(s); i++ {
		switch s[i] {
		case '(':
			depth++
		case ')':
			if depth == 0 {
				return s[:i]
			}
			depth--
		}
		if depth == 0 {
			for _, st := range stops {
				if strings.HasPrefix(s[i:], st) {
					return s[:i]
				}
			}
		}
	}
	return s
}

// matchesFrom applies scanDepth at every (non-overlapping) match of re.
func matchesFrom(re *regexp.Regexp, s string, stops ...string) []string {
	out := []string{}
	for pos := 0; pos < len(s); {
		loc := re.FindStringIndex(s[pos:])
		if loc == nil {
			break
		}
		m := strings.TrimSpace(scanDepth(s[pos+loc[0]:], stops...))
		out = append(out, m)
		pos += loc[0] + max(len(m), loc[1]-loc[0])
	}
	return out
}

func firstWord(s string) string {
	if w := reWord.FindString(strings.ToLower(strings.TrimSpace(s))); w != "" {
		return w
	}
	return "unknown:no keyword"
}

// verbOf returns the statement kind of one normalised statement.
func verbOf(s string) string {
	var parts []string
	for _, p := range strings.Split(s, ";") {
		if strings.TrimSpace(p) != "" {
			parts = append(parts, strings.TrimSpace(p))
		}
	}
	if len(parts) > 1 {
		var vs []string
		for _, p := range parts {
			vs = append(vs, verbOf(p))
		}
		return strings.Join(vs, "+")
	}
	w := firstWord(s)
	if w != "with" {
		return w
	}
	// CTE: the first top-level DML keyword after the CTE list.
	depth := 0
	for i := 0; i < len(s); i++ {
		switch s[i] {
		case '(':
			depth++
		case ')':
			depth--
		case ' ':
			if depth == 0 {
				switch w := firstWord(s[i+1:]); w {
				case "select", "insert", "update", "delete", "replace":
					return w
				}
			}
		}
	}
	return "unknown:with without verb"
}

func orEmpty(xs []string) []string {
	if xs == nil {
		return []string{}
	}
	return xs
}

// mkStmt normalises raw SQL text and computes all facets.
func mkStmt(raw string) Stmt {
	t := normSQL(raw)
	return Stmt{
		Text:   t,
		Expiry: orEmpty(reExpiry.FindAllString(t, -1)),
		Types:  orEmpty(reTypes.FindAllString(t, -1)),
		Meta:   matchesFrom(reMetaLhs, t, ",", " where ", " returning ", " from "),
		Verb:   verbOf(t),
		Order:  matchesFrom(reOrderBy, t, " limit"),
		Limit:  matchesFrom(reLimit, t),
	}
}
