package main

// Constants and structural facts (sections E-H of the README): background
// manager, connection setup, core helpers, schema.sql, dispatch table, server.

import (
	"go/ast"
	"go/token"
	"os"
	"path/filepath"
	"regexp"
	"sort"
	"strconv"
	"strings"
)

const notFound = "unknown:not found"

// calls returns every call expression below n, a call after its arguments.
func calls(n ast.Node) []*ast.CallExpr {
	var out []*ast.CallExpr
	var stack []ast.Node
	if n == nil {
		return nil
	}
	ast.Inspect(n, func(x ast.Node) bool {
		if x == nil {
			if c, ok := stack[len(stack)-1].(*ast.CallExpr); ok {
				out = append(out, c)
			}
			stack = stack[:len(stack)-1]
			return true
		}
		stack = append(stack, x)
		return true
	})
	return out
}

// callsMatching prints, joined by "; ", the calls whose callee text matches re.
func callsMatching(fd *ast.FuncDecl, re string) string {
	if fd == nil {
		return "unknown:function not found"
	}
	var out []string
	for _, c := range calls(fd.Body) {
		if regexp.MustCompile(re).MatchString(src(c.Fun)) {
			out = append(out, src(c))
		}
	}
	if out == nil {
		return notFound
	}
	return strings.Join(out, "; ")
}

// localConst finds `const name = …` declared inside a function body.
func localConst(fd *ast.FuncDecl, name string) string {
	res := notFound
	if fd == nil {
		return res
	}
	ast.Inspect(fd.Body, func(n ast.Node) bool {
		if vs, ok := n.(*ast.ValueSpec); ok {
			for i, id := range vs.Names {
				if id.Name == name && i < len(vs.Values) {
					res = src(vs.Values[i])
				}
			}
		}
		return true
	})
	return res
}

// pkgValue prints the initialiser of a package-level const/var; string
// literals are unquoted, TypeID(n) style conversions give n.
func pkgValue(files []*ast.File, name string) (val string, expr ast.Expr) {
	val = notFound
	valueSpecs(files, func(n string, v ast.Expr) {
		if n != name {
			return
		}
		expr, val = v, src(v)
		if c, ok := v.(*ast.CallExpr); ok && len(c.Args) == 1 {
			v = c.Args[0]
			if _, isLit := v.(*ast.BasicLit); isLit {
				val = src(v)
			}
		}
		if lit, ok := v.(*ast.BasicLit); ok && lit.Kind == token.STRING {
			if s, err := strconv.Unquote(lit.Value); err == nil {
				val = normSQL(s)
			}
		}
	})
	return val, expr
}

// condWalk visits every call in stmts together with the textual path
// condition (enclosing if/else/range) under which it runs.
func condWalk(stmts []ast.Stmt, cond string, visit func(c *ast.CallExpr, cond string)) {
	and := func(c string) string { return strings.TrimPrefix(cond+" && "+c, " && ") }
	for _, s := range stmts {
		switch x := s.(type) {
		case *ast.IfStmt:
			condWalk(x.Body.List, and(src(x.Cond)), visit)
			if x.Else != nil {
				els, ok := x.Else.(*ast.BlockStmt)
				if !ok {
					els = &ast.BlockStmt{List: []ast.Stmt{x.Else}}
				}
				condWalk(els.List, and("!("+src(x.Cond)+")"), visit)
			}
		case *ast.RangeStmt:
			condWalk(x.Body.List, and("range "+src(x.X)), visit)
		case *ast.BlockStmt:
			condWalk(x.List, cond, visit)
		default:
			for _, c := range calls(s) {
				visit(c, cond)
			}
		}
	}
}

func extractConsts(out *Facts, repo string) {
	c := out.Consts
	bodies := func(prefix string, files []*ast.File, keys ...string) {
		for _, k := range keys {
			c[prefix+strings.ReplaceAll(k, ".", "_")] = body(findFunc(files, k))
		}
	}

	// redka.go
	rf := []*ast.File{parseGo(filepath.Join(repo, "redka.go"))}
	bg := findFunc(rf, "DB.startBgManager")
	c["bg_interval"] = localConst(bg, "interval")
	c["bg_nKeys"] = localConst(bg, "nKeys")
	c["bg_ticker"] = callsMatching(bg, `^time\.NewTicker$`)
	c["bg_deleteExpired"], c["bg_loop"] = notFound, notFound
	if bg != nil {
		ast.Inspect(bg.Body, func(n ast.Node) bool {
			g, ok := n.(*ast.GoStmt)
			if !ok {
				return true
			}
			ast.Inspect(g, func(m ast.Node) bool {
				if r, ok := m.(*ast.RangeStmt); ok {
					c["bg_loop"] = "range " + src(r.X)
					for _, call := range calls(r.Body) {
						if strings.HasSuffix(src(call.Fun), ".DeleteExpired") {
							c["bg_deleteExpired"] = src(call)
						}
					}
				}
				return true
			})
			return false
		})
	}
	c["new_bgStart"] = notFound
	if nf := findFunc(rf, "new"); nf != nil {
		condWalk(nf.Body.List, "", func(call *ast.CallExpr, cond string) {
			if strings.HasSuffix(src(call.Fun), ".startBgManager") {
				c["new_bgStart"] = "[" + cond + "] " + src(call)
			}
		})
	}
	c["close_calls"] = callsMatching(findFunc(rf, "DB.Close"), `\.(Stop|Close)$`)
	bodies("redka_", rf, "DB.Close", "Open", "OpenRead", "OpenDB", "OpenReadDB", "new", "newTx", "applyOptions")
	c["defaultOptions_DriverName"], c["defaultOptions_Pragma"] = notFound, notFound
	if _, e := pkgValue(rf, "defaultOptions"); e != nil {
		if cl, ok := e.(*ast.CompositeLit); ok {
			for _, el := range cl.Elts {
				if kv, ok := el.(*ast.KeyValueExpr); ok && (src(kv.Key) == "DriverName" || src(kv.Key) == "Pragma") {
					c["defaultOptions_"+src(kv.Key)] = strings.Trim(src(kv.Value), `"`)
				}
			}
		}
	}

	// internal/sqlx
	sx := parseDir(filepath.Join(repo, "internal/sqlx"))
	c["sqlx_DefaultPragma"] = notFound
	if _, e := pkgValue(sx, "DefaultPragma"); e != nil {
		if cl, ok := e.(*ast.CompositeLit); ok {
			var kvs []string
			for _, el := range cl.Elts {
				if kv, ok := el.(*ast.KeyValueExpr); ok {
					kvs = append(kvs, strings.Trim(src(kv.Key), `"`)+"="+strings.Trim(src(kv.Value), `"`))
				} else {
					kvs = append(kvs, "unknown:"+src(el))
				}
			}
			sort.Strings(kvs)
			c["sqlx_DefaultPragma"] = strings.Join(kvs, ";")
		}
	}
	snc := findFunc(sx, "DB.setNumConns")
	c["sqlx_setNumConns"] = callsMatching(snc, `^d\.R[WO]\.Set`)
	c["sqlx_rwMaxOpenConns"] = notFound
	if snc != nil {
		for _, call := range calls(snc.Body) {
			if src(call.Fun) == "d.RW.SetMaxOpenConns" && len(call.Args) == 1 {
				c["sqlx_rwMaxOpenConns"] = src(call.Args[0])
			}
		}
	}
	c["sqlx_applySettings_exec"] = callsMatching(findFunc(sx, "DB.applySettings"), `^d\.R[WO]\.Exec$`)
	c["sqlx_DataSource_params"] = notFound
	if ds := findFunc(sx, "DataSource"); ds != nil {
		var ps []string
		condWalk(ds.Body.List, "", func(call *ast.CallExpr, cond string) {
			if f := src(call.Fun); f == "params.Set" || f == "params.Add" {
				ps = append(ps, "["+cond+"] "+src(call))
			}
		})
		if ps != nil {
			c["sqlx_DataSource_params"] = strings.Join(ps, "; ")
		}
	}
	bodies("sqlx_", sx, "DB.execTx", "DB.Update", "DB.UpdateContext", "DB.View", "DB.ViewContext", "DB.init",
		"DB.createSchema", "DataSource", "suggestNumConns", "TypedError", "ConstraintFailed", "ExpandIn", "Select")
	for _, n := range []string{"Asc", "Desc", "Sum", "Min", "Max"} {
		v, _ := pkgValue(sx, n)
		c["sqlx_"+n] = v
		if !strings.HasPrefix(v, "unknown:") {
			extConsts["sqlx."+n] = v
		}
	}

	// internal/core
	cf := parseDir(filepath.Join(repo, "internal/core"))
	for _, n := range []string{"TypeAny", "TypeString", "TypeList", "TypeSet", "TypeHash", "TypeZSet",
		"ErrKeyType", "ErrNotAllowed", "ErrNotFound", "ErrValueType"} {
		c["core_"+n], _ = pkgValue(cf, n)
	}
	bodies("core_", cf, "Key.Exists", "ToBytesMany")
	for _, fn := range []string{"ToBytes", "IsValueType"} {
		c["core_"+fn+"_arms"], c["core_"+fn+"_rest"] = notFound, notFound
		fd := findFunc(cf, fn)
		if fd == nil {
			continue
		}
		var rest, arms []string
		for _, st := range fd.Body.List {
			ts, ok := st.(*ast.TypeSwitchStmt)
			if !ok {
				rest = append(rest, src(st))
				continue
			}
			for _, cc := range ts.Body.List {
				cl := cc.(*ast.CaseClause)
				types := "default"
				if cl.List != nil {
					var ts []string
					for _, t := range cl.List {
						ts = append(ts, src(t))
					}
					types = strings.Join(ts, ", ")
				}
				arms = append(arms, types)
				var b []string
				for _, s := range cl.Body {
					b = append(b, src(s))
				}
				c["core_"+fn+"_arm_"+regexp.MustCompile(`\W+`).ReplaceAllString(types, "_")] = strings.Join(b, "; ")
			}
		}
		c["core_"+fn+"_arms"], c["core_"+fn+"_rest"] = strings.Join(arms, " | "), strings.Join(rest, "; ")
	}

	// scanPageSize per repository package ("absent" is a legitimate value).
	for _, p := range repoPkgs {
		v, _ := pkgValue(parseDir(filepath.Join(repo, "internal", p)), "scanPageSize")
		if v == notFound {
			v = "absent"
		}
		c["scanPageSize_"+p] = v
	}

	// cmd/redka/main.go: how the server applies its pragmas.
	mf := []*ast.File{parseGo(filepath.Join(repo, "cmd/redka/main.go"))}
	for _, n := range []string{"driverName", "memoryURI", "pragma"} {
		c["main_"+n], _ = pkgValue(mf, n)
	}
	c["main_connectHook"], c["main_options"] = "unknown:no ConnectHook", notFound
	for _, f := range mf {
		ast.Inspect(f, func(n ast.Node) bool {
			switch x := n.(type) {
			case *ast.CallExpr:
				if src(x.Fun) == "sql.Register" && strings.Contains(src(x), "ConnectHook:") {
					c["main_connectHook"] = src(x)
				}
			case *ast.CompositeLit:
				if src(x.Type) == "redka.Options" {
					c["main_options"] = src(x)
				}
			}
			return true
		})
	}

	// internal/command/command.go: dispatch table of Parse.
	cmdf := []*ast.File{parseGo(filepath.Join(repo, "internal/command/command.go"))}
	out.DispatchDefault = notFound
	c["command_switchTag"], c["command_prelude"] = notFound, notFound
	if pf := findFunc(cmdf, "Parse"); pf != nil {
		var pre []string
		for _, st := range pf.Body.List {
			sw, ok := st.(*ast.SwitchStmt)
			if !ok {
				pre = append(pre, src(st))
				continue
			}
			c["command_switchTag"] = src(sw.Tag)
			for _, cc := range sw.Body.List {
				cl := cc.(*ast.CaseClause)
				target := "unknown:" + src(&ast.BlockStmt{List: cl.Body})
				if len(cl.Body) == 1 {
					if r, ok := cl.Body[0].(*ast.ReturnStmt); ok && len(r.Results) == 1 {
						target = src(r.Results[0])
					}
				}
				if cl.List == nil {
					out.DispatchDefault = target
				}
				for _, e := range cl.List {
					out.Dispatch = append(out.Dispatch, [2]string{strings.Trim(src(e), `"`), target})
				}
			}
		}
		c["command_prelude"] = strings.Join(pre, "; ")
	}

	// internal/server: handler chain and connection state.
	sf := parseDir(filepath.Join(repo, "internal/server"))
	for _, k := range []string{"createHandlers", "parse", "multi", "handle", "handleMulti", "handleSingle",
		"normName", "getState", "connState.push", "connState.pop", "connState.clear"} {
		out.Server[strings.ReplaceAll(k, ".", "_")] = body(findFunc(sf, k))
	}
}

// SchemaObj is one statement of schema.sql.
type SchemaObj struct {
	Kind        string `json:"kind"`
	Name        string `json:"name"`
	IfNotExists bool   `json:"ifNotExists"`
	Text        string `json:"text"`
}

var reSchemaHead = regexp.MustCompile(`(?i)^create (?:unique )?(table|index|trigger|view) (if not exists )?(\w+)|^pragma (\w+)`)

// extractSchema splits schema.sql into statements; a trigger ends at `end;`.
func extractSchema(out *Facts, path string) {
	data, err := os.ReadFile(path)
	if err != nil {
		out.Schema["unknown"] = SchemaObj{Kind: "unknown:cannot read schema.sql"}
		out.SchemaOrder = append(out.SchemaOrder, "unknown")
		return
	}
	text := reComment.ReplaceAllString(string(data), "")
	cur := ""
	for _, part := range strings.SplitAfter(text, ";") {
		cur += part
		st := normSQL(strings.TrimSuffix(strings.TrimSpace(cur), ";"))
		low := strings.ToLower(st)
		if st == "" || strings.HasPrefix(low, "create trigger") && strings.HasSuffix(strings.TrimSpace(cur), ";") &&
			!strings.HasSuffix(low, " end") {
			continue // empty, or still inside a trigger body
		}
		o := SchemaObj{Kind: "other", Name: strconv.Itoa(len(out.SchemaOrder)), Text: st}
		if m := reSchemaHead.FindStringSubmatch(st); m != nil {
			o = SchemaObj{Kind: strings.ToLower(m[1]), Name: m[3], IfNotExists: m[2] != "", Text: st}
			if m[4] != "" {
				o.Kind, o.Name = "pragma", m[4]
			}
		}
		key := o.Kind + "_" + o.Name
		for _, dup := out.Schema[key]; dup; _, dup = out.Schema[key] {
			key += "_dup"
		}
		out.Schema[key] = o
		out.SchemaOrder = append(out.SchemaOrder, key)
		cur = ""
	}
}
