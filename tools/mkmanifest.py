#!/usr/bin/env python3
"""Regenerate /verif/MANIFEST.json from the table below (keeps it valid and in sync with props.py)."""
import json, os, sys
sys.path.insert(0, os.path.dirname(os.path.dirname(os.path.abspath(__file__))))
import props as P

TEXT = {
 "C01": ("proof", "Full refinement theorem in Lean for the string family (str_refines_partial, str_seq_refines, setcmd_matrix: every operation, every state satisfying the invariant, every argument and clock value, outside the exact classifiers D05/D17 with kernel-checked witnesses); model tied to the source by regenerated rfl obligations and validated step by step against the real code, including the whole conditional-set option matrix", "3.6, 6 C01"),
 "C02": ("proof", "Index arithmetic of Range/Trim/Index/Set proved in Lean for all lengths and all integers (exact deviation classifier for the missing clamping, D01, with witnesses); invariant preservation for all list operations (C11 theorems); every list operation tied to the model and judged against the Lean Spec per step incl. exhaustive (n<=6, start, stop, index, count) grids and 70-fold insertion at one position", "3.6, 6 C02"),
 "C03": ("proof", "Set operations: statement-level Lean model tied by rfl to every rset statement and validated per step; Spec oracle over all key lists of length <=3 drawn from {present, missing, wrong type, destination}; invariant preservation proved for all set operations", "6 C03"),
 "C04": ("proof", "Hash operations: as C03 for rhash; all subsets of 3 fields x existing subsets exhaustively", "6 C04"),
 "C05": ("proof", "Sorted sets: rank slices, offset/count and delete-by-rank arithmetic proved in Lean (exact D09 classifier); model tied and validated; exhaustive rank/score/offset grids, all key lists of length <=3 for union/intersection with sum/min/max", "6 C05"),
 "C06": ("proof", "One keyspace: type guards of all 96 statements tied by rfl (type facets); key operations and every cross-type step judged against the Lean Spec; wrong-type refusals leave no trace (C12 theorems)", "6 C06"),
 "C07": ("proof", "Lean theorems: every DB-level operation returns ok or leaves all tables unchanged (dbRun_atomic), user transactions under every fault kind are all-or-nothing (usertx_atomic), every multi-statement writer is Update-wrapped (decided over facts regenerated from the source), read-only wrappers never write; correspondence: storage faults injected through an interposing database/sql driver before every RW call (begin, statement, commit), user transactions aborted by error / panic / commit failure / context cancellation, followed by continued operation", "6 C07"),
 "C08": ("proof", "Schedule model of the two-handle / single-writer / WAL protocol (Lean, in progress this session) plus, as validation of that model against SQLite and database/sql, linearizability search (on the Lean model) over thousands of real concurrent histories and conservation runs on three configurations. Partial: goroutine scheduling, busy timeouts and connection pooling are not exhibited by the model", "6 C08"),
 "C09": ("proof", "Recovery judged by the Lean model: after process death at sampled points before/after every RW call and after the last acknowledgement, the re-opened file equals the model state after the acknowledged writes (or plus the whole in-flight one), satisfies the invariant, passes integrity_check, re-opens read-write and read-only; contract-level log model and theorems in progress. Partial: WAL/synchronous=normal semantics are SQLite's and the OS's; power loss out of scope", "6 C09"),
 "C10": ("proof", "The abstraction map drops expired keys, so every per-step Spec judgement is the statement 'expired = absent'; cleaner theorems proved in Lean (exactly the expired rows and their children are removed, abstract keyspace unchanged, invariant preserved); expiry guards of all statements tied by rfl (expiry facets)", "6 C10"),
 "C11": ("proof", "Invariant preservation proved in Lean for EVERY operation at DB and Tx level (inv_step_db, inv_step_tx_exact with an exact classifier, reachable_inv by induction over histories, orphans_need_fk_off); the same audit (invB) runs on the real tables after every step of every stream, including committed transactions that ignore errors and traces with connection replacement", "6 C11"),
 "C12": ("proof", "Lean theorems at full strength for all operations: read_notrace (raw table equality at Tx level), refusal_notrace_db, nothing_to_do_notrace_tx; the same judgement (Spec.noTrace) runs on the real tables for every read / refusal / nothing-to-do step", "6 C12"),
 "C16": ("proof", "Lean theorems: key scan complete for every page size, pattern and type filter; collection scans complete iff rowid order agrees with the order of the index the statement walks (exact, both directions), D10 witnesses; correspondence drains real collections built through many histories with both the cursor loop and the Scanner object", "6 C16"),
 "C17": ("proof", "20 Lean theorems: RESP round trip for every reply tree with arbitrary bulk bytes, stream decoding, bulk exactness/injectivity, atoi/itoa, ToBytes canonical text; storage roles exercised with hostile bytes (p up to 1.0) against model and spec", "6 C17"),
 "C18": ("proof", "Lean theorem glob_agree_partial: the transcription of SQLite's patternCompare equals the independent reference matcher on all ASCII patterns/names with terminated, ordered classes and no '!' class (D16 witnesses for '!'); correspondence of the transcription with real SQLite over all patterns of <=3 tokens x all names of length <=2 at all five matching sites", "6 C18"),
 "C19": ("proof", "Metadata rules judged by Lean (Spec.metaOK) on every non-traceless step of the real code; version/mtime assignments of all statements and both list triggers tied by rfl (meta facets, schema)", "6 C19"),
 "C20": ("proof", "Lean theorems over a ticker model whose period and wiring are computed from the regenerated source constants: reclaimed_within_a_minute, tick_touches_only_expired, tick_abs_unchanged, storage_bounded, close_stops; the reclamation step is validated per step against the real code; real timers observed in the thorough tier only. Partial: timers and goroutines are modelled", "6 C20"),
}
NOT_YET = {"C13": "wire-layer model and driver being validated in this session; not registered until zero disagreements on the unchanged tree",
           "C14": "as C13", "C15": "as C13"}
checks = []
for pid in sorted(P.PROPS):
    cat, text, ref = TEXT[pid]
    checks.append(dict(property_id=pid, quick_cmd=f"./check {pid} --tier quick", thorough_cmd=f"./check {pid} --tier thorough",
        evidence_file=f"/verif/evidence/{pid}.json", replay_cmd_template=f"./check {pid} --replay {{path}}", engine="lean-refinement",
        level_claimed=dict(category=cat, text=text, design_ref=ref),
        level_note="Trusted: Lean kernel + {propext, Classical.choice, Quot.sound} (audited per theorem on every run); the Go fact extractor and the rfl tie obligations; the correspondence harness, its dumps and clock canonicalisation; the Lean driver's parser. Modelled, not verified: SQLite, database/sql, redcon, the Go runtime, wall clocks (DESIGN.md section 9)",
        technique="Lean 4 theorems over a statement-level model of the code + facts regenerated from the source (rfl ties) + per-step model/spec correspondence against the real code"))
m = dict(version=1, setup_cmd="./setup.sh",
  hooks=dict(guard="verif", enable="go build -tags verif -overlay <generated from /verif/tools/harness/overlay.json> ./cmd/verifharness (the overlay adds harness files and two export shims virtually; /repo has no hook commits)",
             baseline_off_cmd="cd /repo && go test -vet=off -count=1 ./...", source_commits=[], add_only=True),
  engines=[dict(name="lean-refinement", path="/verif/lean", serves_properties=sorted(P.PROPS),
                kind_free_text="Lean 4 model + spec + theorems (lake project, core-only); Go fact extractor (tools/extract); Go correspondence harness (tools/harness) + compiled Lean driver")],
  checks=checks,
  notes="See DESIGN.md. Genuine defects recorded rather than repaired are in known_findings.json (KNOWN-FINDING lines); the repaired one is the fix: commit 9eb4223 in /repo.",
  not_applicable=[dict(property_id=p, reason=r) for p, r in NOT_YET.items() if p not in P.PROPS])
json.dump(m, open(os.path.join(os.path.dirname(os.path.dirname(os.path.abspath(__file__))), "MANIFEST.json"), "w"), indent=1)
print("claimed:", len(checks), "not yet:", [p for p in NOT_YET if p not in P.PROPS])
