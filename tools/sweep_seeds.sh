#!/bin/sh
# sweep_seeds.sh <first> <last>: every quick check for each VERIF_SEED in the range, on the unchanged tree;
# prints only what is not "OK" (any line here is a false alarm to be explained or a finding to be recorded).
cd "$(dirname "$0")/.."
for s in $(seq $1 $2); do
  for p in $(python3 -c "import props; print(' '.join(sorted(props.PROPS)))"); do
    out=$(VERIF_SEED=$s ./check $p --tier quick 2>&1); rc=$?
    if [ $rc -ne 0 ]; then echo "seed=$s $p rc=$rc :: $(echo "$out" | grep -v '^KNOWN-FINDING' | tail -2 | tr '\n' ' ')"; ls replays | tail -1; fi
  done
  echo "seed $s done"
done
