#!/usr/bin/env python3
"""seedimport.py <worktree> <seed-id> <PROP>: copy a sub-agent's deliverables (<worktree>/OUT) into /verif/seeded/<seed-id>/
and write a first meta.json (completed by hand after seedverify)."""
import json, os, shutil, sys
wt, sid, prop = sys.argv[1:4]
out = os.path.join(wt, "OUT")
dst = os.path.join(os.path.dirname(os.path.dirname(os.path.abspath(__file__))), "seeded", sid)
os.makedirs(dst, exist_ok=True)
shutil.copy(os.path.join(out, "patch.diff"), dst)
demos = [f for f in os.listdir(out) if f.endswith("_test.go")]
for f in demos:
    shutil.copy(os.path.join(out, f), os.path.join(dst, f.replace("demo_m8", "demo_" + sid.lower())))
dest = open(os.path.join(out, "DEMO_DEST.txt")).read().strip()
notes = open(os.path.join(out, "NOTES.md")).read()
files = [l.split(" b/")[1].strip() for l in open(os.path.join(out, "patch.diff")) if l.startswith("diff --git")]
meta = dict(property=prop, summary=notes[:1500], files_changed=files,
            demo=[f.replace("demo_m8", "demo_" + sid.lower()) for f in demos], demo_dest=dest,
            demo_cmd=f"copy the demo into {dest} of a checkout and run: go test -vet=off -count=1 -run 'TestDemoM8' ./{dest}")
json.dump(meta, open(os.path.join(dst, "meta.json"), "w"), indent=1)
print(dst, dest, files)
