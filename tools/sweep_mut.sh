#!/bin/sh
# sweep_mut.sh <dir-with-mutation-dirs> [all]: run tools/seedrun.py on every mutation directory.
# The checks named in each meta.json ("property_id") are run; with "all", every registered check is run
# (used for the harmless rewrites, where the expectation is OK everywhere).
cd "$(dirname "$0")/.."
dir=$1; mode=$2
for m in $(ls -d $dir/*/ | sort); do
  m=${m%/}
  if [ "$mode" = all ]; then props=$(python3 -c "import props; print(' '.join(sorted(props.PROPS)))")
  else props=$(python3 -c "import json,sys; j=json.load(open('$m/meta.json')); print(j.get('property') or j.get('property_id'))"); fi
  echo "== $m ($props)"
  python3 tools/seedrun.py $m $props 2>&1
done
