#!/usr/bin/env python3
"""seedrun.py <mutdir> <PROP> [<PROP>...]: apply <mutdir>/patch.diff to a scratch worktree of /repo
(so that nobody else building from /repo is disturbed), run the named checks against it
(VERIF_REPO), remove the worktree. Prints one line per property: DETECTED or MISSED."""
import json, os, subprocess, sys
VERIF = os.path.dirname(os.path.dirname(os.path.abspath(__file__)))
mut = os.path.abspath(sys.argv[1])
props = sys.argv[2:]
WT = "/tmp/seedwt_%d" % os.getpid()
def sh(cmd, **kw):
    return subprocess.run(cmd, shell=True, stdout=subprocess.PIPE, stderr=subprocess.STDOUT, text=True, **kw)
sh(f"git -C /repo worktree add -q --detach {WT} HEAD")
try:
    r = sh(f"git -C {WT} apply {mut}/patch.diff")
    if r.returncode != 0:
        print("patch does not apply:", r.stdout); sys.exit(2)
    env = "GOFLAGS=-mod=mod GOPROXY=off GOSUMDB=off GOTOOLCHAIN=local"
    b = sh(f"cd {WT} && {env} go build ./... && {env} go test -vet=off -count=1 ./... 2>&1 | grep -v '^ok\\|no test files' | head -5")
    print("suite:", "PASS" if b.stdout.strip() == "" else "FAIL " + b.stdout[:300])
    for p in props:
        c = sh(f"cd {VERIF} && VERIF_REPO={WT} ./check {p} --tier quick")
        v = [l for l in c.stdout.splitlines() if l.startswith("VIOLATION")]
        if v:
            rp = v[0].split("replay=")[1].split()[0]
            try:
                j = json.load(open(rp)); why = (j.get("op") or "") + " :: " + (j.get("reason") or str(j.get("broken"))[:150])
            except Exception as e:
                why = "?"
            print(f"{p}: DETECTED exit={c.returncode} {v[0][:120]} :: {why[:260]}")
        else:
            print(f"{p}: MISSED exit={c.returncode} {c.stdout.splitlines()[-1][:200] if c.stdout else ''}")
finally:
    sh(f"git -C /repo worktree remove --force {WT}")
    sh(f"cd {VERIF} && ./build/extract -repo /repo -lean lean -json build/generated.json")
    sh(f"cd {VERIF} && ./build/extract_wire -repo /repo -ns Generated -out lean/RedkaModel/Generated/Grammar.lean -cmds lean/RedkaModel/Generated/Cmds.lean")
    sh(f"cd {VERIF} && python3 -c 'import veriflib as V; V.build_harness(True)'")
