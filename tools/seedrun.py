#!/usr/bin/env python3
"""seedrun.py <mutdir> <PROP> [<PROP>...]: apply <mutdir>/patch.diff to /repo, run the named checks, undo.
Prints one line per property: DETECTED (with the first VIOLATION line) or MISSED."""
import json, os, subprocess, sys
mut = sys.argv[1]
props = sys.argv[2:]
def sh(cmd, **kw):
    return subprocess.run(cmd, shell=True, stdout=subprocess.PIPE, stderr=subprocess.STDOUT, text=True, **kw)
r = sh(f"git -C /repo apply {mut}/patch.diff")
if r.returncode != 0:
    print("patch does not apply:", r.stdout); sys.exit(2)
try:
    env = "GOFLAGS=-mod=mod GOPROXY=off GOSUMDB=off GOTOOLCHAIN=local"
    b = sh(f"cd /repo && {env} go build ./... && {env} go test -vet=off -count=1 ./... 2>&1 | grep -v '^ok\\|no test files' | head -5")
    print("suite:", "PASS" if b.stdout.strip() == "" else "FAIL " + b.stdout[:300])
    for p in props:
        c = sh(f"cd /verif && ./check {p} --tier quick")
        v = [l for l in c.stdout.splitlines() if l.startswith("VIOLATION")]
        if v:
            rp = v[0].split("replay=")[1].split()[0]
            try:
                j = json.load(open(rp)); why = (j.get("op") or "") + " :: " + (j.get("reason") or str(j.get("broken"))[:150])
            except Exception as e:
                why = "?"
            print(f"{p}: DETECTED exit={c.returncode} {v[0][:120]} :: {why[:260]}")
        else:
            print(f"{p}: MISSED exit={c.returncode} {c.stdout.splitlines()[-1][:200] if c.stdout else ''}")
finally:
    sh("git -C /repo checkout -- . && rm -f /repo/data.db*")
    # leave Generated consistent with the unchanged tree
    sh("cd /verif && ./build/extract -repo /repo -lean lean -json build/generated.json")
