#!/usr/bin/env python3
"""seedverify.py <mutdir> <demo-dest-dir> <run-regex> <PROP> [<PROP>...]

Independent confirmation of one seeded change, then the checks against it. Everything happens in a
scratch worktree of /repo and in a private copy of /verif (so several runs can go in parallel and
nothing disturbs /verif's own build output):
  1. demonstration on the unmodified tree            -> must PASS
  2. patch applied, demonstration again              -> must FAIL
  3. demonstration removed, the whole existing suite -> must PASS
  4. ./check <PROP> --tier quick with VERIF_REPO=<worktree> for every named property
Prints one line per step and writes <mutdir>/verify.json.
"""
import json, os, shutil, subprocess, sys
VERIF = os.path.dirname(os.path.dirname(os.path.abspath(__file__)))
mut = os.path.abspath(sys.argv[1])
dest, rx, props = sys.argv[2], sys.argv[3], sys.argv[4:]
pid = os.getpid()
WT = f"/tmp/svwt_{pid}"
VC = f"/tmp/svverif_{pid}"
ENV = "export GOFLAGS=-mod=mod GOPROXY=off GOSUMDB=off GOTOOLCHAIN=local; "


def sh(cmd):
    p = subprocess.run(cmd, shell=True, stdout=subprocess.PIPE, stderr=subprocess.STDOUT, text=True)
    return p.returncode, p.stdout


res = dict(mutation=os.path.basename(mut), demo_dest=dest, run=rx)
# the private copy of /verif is taken FIRST (a consistent snapshot even when /verif is edited later),
# then the job waits for one of SV_SLOTS slots so that many jobs can be queued at once
sh(f"rsync -a --exclude .git --exclude replays --exclude evidence --exclude seeded {VERIF}/ {VC}/ && mkdir -p {VC}/replays {VC}/evidence")
import fcntl, time
_slot = None
while _slot is None:
    for i in range(int(os.environ.get("SV_SLOTS", "3"))):
        f = open(f"/tmp/sv_slot_{i}", "w")
        try:
            fcntl.flock(f, fcntl.LOCK_EX | fcntl.LOCK_NB)
            _slot = f
            break
        except OSError:
            f.close()
    if _slot is None:
        time.sleep(2)
sh(f"git -C /repo worktree add -q --detach {WT} HEAD")
try:
    demos = [f for f in os.listdir(mut) if f.endswith("_test.go")]
    for f in demos:
        shutil.copy(os.path.join(mut, f), os.path.join(WT, dest, f))
    pkg = "./" + dest if dest != "." else "."
    rc, out = sh(f"{ENV} cd {WT} && go test -vet=off -count=1 -timeout 400s -run '{rx}' {pkg}")
    res["demo_clean"] = "PASS" if rc == 0 and "ok" in out else "FAIL: " + out[-600:]
    print("demo on clean tree:", res["demo_clean"][:200])
    rc, out = sh(f"git -C {WT} apply {mut}/patch.diff")
    if rc != 0:
        print("patch does not apply:", out)
        res["patch"] = "does not apply"
        sys.exit(2)
    rc, out = sh(f"{ENV} cd {WT} && go test -vet=off -count=1 -timeout 400s -run '{rx}' {pkg}")
    res["demo_patched"] = "FAIL (as required)" if rc != 0 and "FAIL" in out else "UNEXPECTED PASS"
    res["demo_patched_output"] = out[-800:]
    print("demo with the change:", res["demo_patched"])
    for f in demos:
        os.unlink(os.path.join(WT, dest, f))
    rc, out = sh(f"{ENV} cd {WT} && go build ./... && go test -vet=off -count=1 ./... 2>&1 | grep -v '^ok\\|no test files' | head -5")
    res["suite_patched"] = "PASS" if out.strip() == "" else "FAIL " + out[:400]
    print("existing suite with the change:", res["suite_patched"])
    sh(f"rm -f {WT}/data.db*")
    res["checks"] = {}
    for p in props:
        rc, out = sh(f"cd {VC} && VERIF_REPO={WT} ./check {p} --tier quick")
        v = [l for l in out.splitlines() if l.startswith("VIOLATION")]
        if v:
            rp = v[0].split("replay=")[1].split()[0]
            why = "?"
            try:
                j = json.load(open(rp))
                why = (j.get("op") or "") + " :: " + (j.get("reason") or str(j.get("broken"))[:200])
                os.makedirs(os.path.join(mut, "replays"), exist_ok=True)
                shutil.copy(rp, os.path.join(mut, "replays", os.path.basename(rp)))
            except Exception:
                pass
            nofail = "no-failing-input-found" in v[0]
            res["checks"][p] = dict(outcome="DETECTED" + (" (no failing input)" if nofail else ""), why=why[:400])
            print(f"{p}: DETECTED{' (no-failing-input-found)' if nofail else ''} :: {why[:300]}")
        else:
            last = out.splitlines()[-1][:200] if out else ""
            res["checks"][p] = dict(outcome="MISSED", why=last)
            print(f"{p}: MISSED exit={rc} {last}")
finally:
    sh(f"git -C /repo worktree remove --force {WT}")
    shutil.rmtree(VC, ignore_errors=True)
    with open(os.path.join(mut, "verify.json"), "w") as f:
        json.dump(res, f, indent=1)
