//go:build verif

package main

import (
	"bufio"
	"flag"
	"fmt"
	"math/rand"
	"os"
	"path/filepath"
	"strings"

	"github.com/nalgeon/redka"
	"github.com/nalgeon/redka/internal/redis"
)

// roMain (subcommand `ro`): C07, last clause — "a read-only transaction or read-only handle can
// never change the database". For every way of naming a database (plain file, file URI with an
// explicit mode, in-memory VFS, shared-cache :memory:) a populated database is attacked with
// operations that always write when they succeed, (a) inside DB.View with a callback that returns
// nil, (b) through a handle obtained from redka.OpenRead on the same file. One FAULT line each:
//   FAULT <seq> <now> | <pre-dump> | ro kind=<view|openread> cfg=<cfg> <op text> | <ok|err …> | <post-dump>
// judged like every other FAULT line: the tables must be unchanged and the call must be refused.
func roMain() {
	seed := flag.Int64("seed", 1, "PRNG seed")
	traces := flag.Int("traces", 10, "databases per configuration")
	flag.Parse()
	out = bufio.NewWriterSize(os.Stdout, 1<<20)
	defer out.Flush()
	rnd := rand.New(rand.NewSource(*seed))
	dir, err := os.MkdirTemp("", "verif_ro_")
	if err != nil {
		fmt.Fprintln(os.Stderr, "ro:", err)
		os.Exit(2)
	}
	defer os.RemoveAll(dir)
	cfgs := []string{"file", "fileuri", "rwc", "rw", "memdb", "memory"}
	n := 0
	for t := 0; t < *traces; t++ {
		for _, cfg := range cfgs {
			n++
			base := filepath.Join(dir, fmt.Sprintf("ro_%d.db", n))
			var path string
			switch cfg {
			case "file":
				path = base
			case "fileuri":
				path = "file:" + base
			case "rwc":
				path = "file:" + base + "?mode=rwc"
			case "rw":
				// mode=rw needs an existing file: create it first
				if d0, err := redka.Open(base, nil); err == nil {
					d0.Close()
				}
				path = "file:" + base + "?mode=rw"
			case "memdb":
				path = fmt.Sprintf("file:/vro_%d_%d.db?vfs=memdb", os.Getpid(), n)
			case "memory":
				path = ":memory:"
			}
			db, err := redka.Open(path, nil)
			if err != nil {
				fmt.Fprintf(os.Stderr, "ro: open %s: %v\n", cfg, err)
				os.Exit(2)
			}
			fmt.Fprintf(out, "# trace %d db ro cfg=%s\n", n, cfg)
			g := &gen{rnd: rnd, hostile: 0.02, families: []string{"str", "list", "set", "hash", "zset", "expire"}, dbLevel: true}
			for i := 0; i < 12; i++ {
				runStep(db, "db", g.next())
			}
			for j := 0; j < 6; j++ {
				roAttempt(db, cfg, "view", "", roWriter(rnd, g, j))
			}
			if cfg == "file" || cfg == "fileuri" || cfg == "rwc" || cfg == "rw" {
				for j := 0; j < 6; j++ {
					roAttempt(db, cfg, "openread", path, roWriter(rnd, g, j))
				}
			}
			db.Close()
		}
	}
}

// roWriter returns an operation that changes the tables whenever it succeeds.
func roWriter(rnd *rand.Rand, g *gen, j int) step {
	fresh := fmt.Sprintf("w%d", rnd.Intn(1000000))
	switch j % 6 {
	case 0:
		return opStrSet(g.key(), fresh, true)
	case 1:
		return opListPush(g.key(), fresh, false, true)
	case 2:
		return opSetAdd(g.key(), []string{fresh}, true)
	case 3:
		return opHashSet(g.key(), fresh, "v", true)
	case 4:
		return opZAdd(g.key(), fresh, 1)
	default:
		return opStrSet("fresh-"+fresh, "v", true)
	}
}

func roAttempt(db *redka.DB, cfg, kind, path string, st step) {
	waitFreshMs()
	pre, err := takeDump(db.RW)
	if err != nil {
		fmt.Fprintln(os.Stderr, "ro: dump:", err)
		os.Exit(2)
	}
	res := "err not-run"
	run := func(r redis.Redka, d *redka.DB) {
		defer func() {
			if p := recover(); p != nil {
				res = "err PANIC"
			}
		}()
		res = st.run(&env{r: r, db: d}, ident)
	}
	switch kind {
	case "view":
		verr := db.View(func(tx *redka.Tx) error {
			run(redis.RedkaTx(tx), db)
			return nil // the callback itself does not complain: View "commits"
		})
		if verr != nil && strings.HasPrefix(res, "ok") {
			res = "err view: " + errName(verr)
		}
	case "openread":
		ro, oerr := redka.OpenRead(path, nil)
		if oerr != nil {
			res = "err openread: " + errName(oerr)
		} else {
			run(redis.RedkaDB(ro), ro)
			ro.Close()
		}
	}
	t1 := nowMs()
	lastT1 = t1
	post, err := takeDump(db.RW)
	if err != nil {
		fmt.Fprintln(os.Stderr, "ro: dump:", err)
		os.Exit(2)
	}
	seq++
	r := "ok"
	if !strings.HasPrefix(res, "ok") {
		r = strings.ReplaceAll(res, "|", "/")
	}
	fmt.Fprintf(out, "FAULT %d %d | %s | ro kind=%s cfg=%s %s | %s | %s\n", seq, t1, pre.render(ident), kind, cfg, st.text, r, post.render(ident))
}
