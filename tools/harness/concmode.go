//go:build verif

package main

import (
	"bufio"
	"flag"
	"fmt"
	"math/rand"
	"os"
	"path/filepath"
	"sort"
	"strings"
	"sync"
	"time"

	"github.com/nalgeon/redka"
	"github.com/nalgeon/redka/internal/redis"
)

// conc mode (C08): rounds of 2..8 goroutines sharing one *redka.DB, each issuing a few operations
// on a 1..3 key universe; call and return instants are recorded (monotonic ns since round start),
// and the whole round is printed as one history for the Lean driver, which searches for a
// sequential order that respects real time and explains every result and the final tables:
//
//   CONC <seq> <now> <cfg> | <pre-dump> | <call> <ret> <client> <op…> => <result> ;; … | <post-dump>
//
// plus conservation runs (many increments / pops / moves; expectation checked by the driver):
//
//   CONS <seq> <now> <cfg> | <kind> <n> | <observed…>
//
// configurations: wal (on-disk file, default pragmas), memdb (in-memory VFS), shared (":memory:",
// SQLite shared cache).

type concEv struct {
	call, ret int64
	client    int
	text, res string
}

func concOps(rnd *rand.Rand, nkeys int) step {
	keys := []string{"k1", "k2", "k3"}[:nkeys]
	k := keys[rnd.Intn(len(keys))]
	k2 := keys[rnd.Intn(len(keys))]
	el := []string{"a", "b"}[rnd.Intn(2)]
	switch rnd.Intn(18) {
	case 16:
		// the reclamation step, as the background manager issues it, concurrently with writers
		return opKeyDeleteExpired(0)
	case 17:
		// an expiry in 1970: the key is expired but stored until someone reclaims it
		return opKeyExpireAt("n"+k, int64(1000+rnd.Intn(500)))
	case 14:
		// two-statement key operations: a rename onto a name another caller may be creating
		return opKeyRenameNX("n"+k, "n"+k2)
	case 15:
		return opKeyRename("n"+k, "n"+k2)
	case 0, 1:
		return opStrIncr("n"+k, 1+rnd.Intn(3))
	case 2:
		return opStrGet("n" + k)
	case 3:
		return opStrSet("n"+k, fmt.Sprint(rnd.Intn(5)), false)
	case 4, 5:
		return opListPush("l"+k, el, rnd.Intn(2) == 0, false)
	case 6:
		return opListPopBack("l" + k)
	case 7:
		return opListPopFront("l" + k)
	case 8:
		return opListPopBackPushFront("l"+k, "l"+k2)
	case 9:
		return opSetAdd("s"+k, []string{el}, false)
	case 10:
		return opSetMove("s"+k, "s"+k2, el)
	case 11:
		return opSetPop("s" + k)
	case 12:
		return opHashIncr("h"+k, "f", 1)
	default:
		return opListRange("l"+k, 0, -1)
	}
}

func openCfg(cfg, dir string, n int) *redka.DB {
	var path string
	switch cfg {
	case "wal":
		path = filepath.Join(dir, fmt.Sprintf("conc_%d.db", n))
	case "memdb":
		path = fmt.Sprintf("file:/vc_%d_%d.db?vfs=memdb", os.Getpid(), n)
	case "shared":
		path = ":memory:"
	}
	db, err := redka.Open(path, nil)
	if err != nil {
		fmt.Fprintln(os.Stderr, "open:", err)
		os.Exit(2)
	}
	return db
}

func concMain() {
	seed := flag.Int64("seed", 1, "PRNG seed")
	rounds := flag.Int("rounds", 50, "linearizability rounds per configuration")
	cons := flag.Int("cons", 2, "conservation runs per kind and configuration")
	cfgs := flag.String("cfgs", "wal,memdb", "configurations")
	flag.Parse()
	out = bufio.NewWriterSize(os.Stdout, 1<<20)
	defer out.Flush()
	rnd := rand.New(rand.NewSource(*seed))
	dir, err := os.MkdirTemp("", "verif_conc_")
	if err != nil {
		fmt.Fprintln(os.Stderr, err)
		os.Exit(2)
	}
	defer os.RemoveAll(dir)
	n := 0
	for _, cfg := range strings.Split(*cfgs, ",") {
		fmt.Fprintf(out, "# trace %d conc %s\n", n, cfg)
		for r := 0; r < *rounds; r++ {
			n++
			db := openCfg(cfg, dir, n)
			concRound(db, cfg, rnd)
			db.Close()
			if cfg == "wal" {
				for _, suf := range []string{"", "-wal", "-shm"} {
					os.Remove(filepath.Join(dir, fmt.Sprintf("conc_%d.db", n)) + suf)
				}
			}
		}
		// one operation on far more names than any batching constant, observed while it runs
		n++
		{
			db := openCfg(cfg, dir, n)
			concBigDelete(db, cfg)
			db.Close()
			if cfg == "wal" {
				for _, suf := range []string{"", "-wal", "-shm"} {
					os.Remove(filepath.Join(dir, fmt.Sprintf("conc_%d.db", n)) + suf)
				}
			}
		}
		for c := 0; c < *cons; c++ {
			for _, kind := range []string{"incr", "pop", "move"} {
				n++
				db := openCfg(cfg, dir, n)
				conserve(db, cfg, kind, rnd)
				db.Close()
				if cfg == "wal" {
					for _, suf := range []string{"", "-wal", "-shm"} {
						os.Remove(filepath.Join(dir, fmt.Sprintf("conc_%d.db", n)) + suf)
					}
				}
			}
		}
	}
}

func concRound(db *redka.DB, cfg string, rnd *rand.Rand) {
	nkeys := 1 + rnd.Intn(3)
	// a little pre-state so that pops and moves have something to do
	e0 := &env{r: redis.RedkaDB(db), db: db}
	for i := 0; i < 1+rnd.Intn(4); i++ {
		concOps(rnd, nkeys).run(e0, ident)
	}
	pre, err := takeDump(db.RW)
	if err != nil {
		fmt.Fprintln(os.Stderr, "conc: dump:", err)
		os.Exit(2)
	}
	clients := 2 + rnd.Intn(4)
	per := 2 + rnd.Intn(3)
	if clients*per > 14 {
		per = 14 / clients
	}
	// an item is one operation, or a user transaction of 2..3 operations: DB.Update (the callback
	// returns nil whatever the operations report, so it commits) or, for reads only, DB.View
	type item struct {
		steps []step
		kind  string // "op" | "update" | "view"
	}
	readOp := func() step {
		keys := []string{"k1", "k2", "k3"}[:nkeys]
		k := keys[rnd.Intn(len(keys))]
		switch rnd.Intn(3) {
		case 0:
			return opStrGet("n" + k)
		case 1:
			return opListRange("l"+k, 0, 50)
		default:
			return opListLen("l" + k)
		}
	}
	plans := make([][]item, clients)
	delays := make([][]time.Duration, clients)
	for c := range plans {
		for i := 0; i < per; i++ {
			it := item{kind: "op", steps: []step{concOps(rnd, nkeys)}}
			switch rnd.Intn(6) {
			case 0:
				it = item{kind: "update"}
				for j := 0; j < 2+rnd.Intn(2); j++ {
					st := concOps(rnd, nkeys)
					for strings.HasPrefix(st.text, "key.DeleteExpired") {
						st = concOps(rnd, nkeys) // DB level only: inside a block it would wait for its own transaction
					}
					it.steps = append(it.steps, st)
				}
			case 1:
				it = item{kind: "view"}
				for j := 0; j < 2+rnd.Intn(2); j++ {
					it.steps = append(it.steps, readOp())
				}
			}
			plans[c] = append(plans[c], it)
			delays[c] = append(delays[c], time.Duration(rnd.Intn(300))*time.Microsecond)
		}
	}
	var mu sync.Mutex
	var evs []concEv
	var wg sync.WaitGroup
	start := time.Now()
	for c := 0; c < clients; c++ {
		wg.Add(1)
		go func(c int) {
			defer wg.Done()
			e := &env{r: redis.RedkaDB(db), db: db}
			oracle := func(text, res string) (string, string) {
				if strings.HasPrefix(res, "ORACLE ") {
					parts := strings.SplitN(res, " ", 3)
					return text + " " + parts[1], parts[2]
				}
				return text, res
			}
			for i, it := range plans[c] {
				time.Sleep(delays[c][i])
				t0 := time.Since(start).Nanoseconds()
				var text, res string
				if it.kind == "op" {
					res = it.steps[0].run(e, ident)
					text, res = oracle(it.steps[0].text, res)
				} else {
					var parts []string
					body := func(tx *redka.Tx) error {
						parts = nil
						et := &env{r: redis.RedkaTx(tx), db: db, inTx: true}
						for _, st := range it.steps {
							tx, rs := oracle(st.text, st.run(et, ident))
							parts = append(parts, tx+" => "+rs)
						}
						return nil
					}
					var err error
					if it.kind == "update" {
						err = db.Update(body)
					} else {
						err = db.View(body)
					}
					if err != nil {
						// the transaction itself failed (begin / commit): one failing event
						text, res = it.steps[0].text, rErr(err)
					} else {
						text = fmt.Sprintf("B %d %s", len(parts), strings.Join(parts, " && "))
					}
				}
				t1 := time.Since(start).Nanoseconds()
				mu.Lock()
				evs = append(evs, concEv{t0, t1, c, text, res})
				mu.Unlock()
			}
		}(c)
	}
	wg.Wait()
	post, err := takeDump(db.RW)
	if err != nil {
		fmt.Fprintln(os.Stderr, "conc: post-dump:", err)
		os.Exit(2)
	}
	sort.Slice(evs, func(i, j int) bool { return evs[i].call < evs[j].call })
	var parts []string
	for _, e := range evs {
		if strings.HasPrefix(e.text, "B ") {
			parts = append(parts, fmt.Sprintf("%d %d %d %s", e.call, e.ret, e.client, e.text))
		} else {
			parts = append(parts, fmt.Sprintf("%d %d %d %s => %s", e.call, e.ret, e.client, e.text, e.res))
		}
	}
	seq++
	fmt.Fprintf(out, "CONC %d %d %s | %s | %s | %s\n", seq, nowMs(), cfg, pre.render(ident), strings.Join(parts, " ;; "), post.render(ident))
}

// concBigDelete: DEL of 1100 names in one call while three observers count the first and the last
// of them: every count must be 2 or 0 (the delete takes effect at one instant).
func concBigDelete(db *redka.DB, cfg string) {
	var names []string
	for i := 0; i < 1100; i++ {
		names = append(names, fmt.Sprintf("b%04d", i))
		db.Str().Set(names[i], "v")
	}
	pre, err := takeDump(db.RW)
	if err != nil {
		fmt.Fprintln(os.Stderr, "conc: dump:", err)
		os.Exit(2)
	}
	var mu sync.Mutex
	var evs []concEv
	var wg sync.WaitGroup
	start := time.Now()
	do := func(c int, st step) {
		e := &env{r: redis.RedkaDB(db), db: db}
		t0 := time.Since(start).Nanoseconds()
		res := st.run(e, ident)
		t1 := time.Since(start).Nanoseconds()
		mu.Lock()
		evs = append(evs, concEv{t0, t1, c, st.text, res})
		mu.Unlock()
	}
	wg.Add(1)
	go func() {
		defer wg.Done()
		time.Sleep(200 * time.Microsecond)
		do(0, opKeyDelete(names))
	}()
	for c := 1; c <= 3; c++ {
		wg.Add(1)
		go func(c int) {
			defer wg.Done()
			for i := 0; i < 4; i++ {
				do(c, opKeyCount([]string{names[0], names[len(names)-1]}))
				time.Sleep(time.Duration(50*c) * time.Microsecond)
			}
		}(c)
	}
	wg.Wait()
	post, err := takeDump(db.RW)
	if err != nil {
		fmt.Fprintln(os.Stderr, "conc: post-dump:", err)
		os.Exit(2)
	}
	sort.Slice(evs, func(i, j int) bool { return evs[i].call < evs[j].call })
	var parts []string
	for _, e := range evs {
		parts = append(parts, fmt.Sprintf("%d %d %d %s => %s", e.call, e.ret, e.client, e.text, e.res))
	}
	seq++
	fmt.Fprintf(out, "CONC %d %d %s | %s | %s | %s\n", seq, nowMs(), cfg, pre.render(ident), strings.Join(parts, " ;; "), post.render(ident))
}

// conserve: long runs whose outcome is determined whatever the interleaving.
func conserve(db *redka.DB, cfg, kind string, rnd *rand.Rand) {
	workers := 4 + rnd.Intn(5)
	per := 40
	var mu sync.Mutex
	var wg sync.WaitGroup
	failures := 0
	var got []string
	switch kind {
	case "pop", "move":
		for i := 0; i < workers*per; i++ {
			if kind == "pop" {
				db.List().PushBack("q", fmt.Sprintf("e%04d", i))
			} else {
				db.Set().Add("src", fmt.Sprintf("e%04d", i))
			}
		}
	}
	for w := 0; w < workers; w++ {
		wg.Add(1)
		go func(w int) {
			defer wg.Done()
			for i := 0; i < per; i++ {
				var err error
				var item string
				switch kind {
				case "incr":
					_, err = db.Str().Incr("ctr", 1)
				case "pop":
					var v redka.Value
					if w%2 == 0 {
						v, err = db.List().PopBack("q")
					} else {
						v, err = db.List().PopFront("q")
					}
					item = string(v)
				case "move":
					item = fmt.Sprintf("e%04d", w*per+i)
					err = db.Set().Move("src", "dst", item)
				}
				mu.Lock()
				if err != nil {
					failures++
				} else if item != "" {
					got = append(got, item)
				}
				mu.Unlock()
			}
		}(w)
	}
	wg.Wait()
	total := workers * per
	var obs string
	switch kind {
	case "incr":
		v, _ := db.Str().Get("ctr")
		obs = fmt.Sprintf("final=%s failures=%d", string(v), failures)
	case "pop":
		sort.Strings(got)
		dup := 0
		for i := 1; i < len(got); i++ {
			if got[i] == got[i-1] {
				dup++
			}
		}
		left, _ := db.List().Len("q")
		obs = fmt.Sprintf("delivered=%d dup=%d left=%d failures=%d", len(got), dup, left, failures)
	case "move":
		src, _ := db.Set().Len("src")
		dst, _ := db.Set().Len("dst")
		obs = fmt.Sprintf("src=%d dst=%d failures=%d", src, dst, failures)
	}
	seq++
	fmt.Fprintf(out, "CONS %d %d %s | %s %d | %s\n", seq, nowMs(), cfg, kind, total, obs)
}
