//go:build verif

package main

import (
	"bufio"
	"bytes"
	"flag"
	"fmt"
	"io"
	"log/slog"
	"math/rand"
	"net"
	"os"
	"os/exec"
	"path/filepath"
	"sort"
	"strconv"
	"strings"
	"time"

	"github.com/nalgeon/redka/internal/server"
	"github.com/tidwall/redcon"
)

// sock mode (C13, C14, C17 over a real socket): starts the real server binary (built from the
// tree by the check) on a unix socket with an on-disk database, sends the requests of the wire
// generators as RESP over two client connections — singly and in pipelines — and reads the
// replies with a strict RESP reader. The same requests go through the in-process handler chain on
// a twin database; the reply trees must be identical. After each batch a PING sentinel on both
// connections checks that the server is alive and the connections are in step. A third
// connection sends raw malformed protocol bytes; the server must survive.
//
//   SOCK <seq> <now> | R argc hexarg… | <expected tokens> | <raw reply bytes hex> | OK=<0|1> [why]

func respRequest(req [][]byte) []byte {
	var b bytes.Buffer
	fmt.Fprintf(&b, "*%d\r\n", len(req))
	for _, a := range req {
		fmt.Fprintf(&b, "$%d\r\n", len(a))
		b.Write(a)
		b.WriteString("\r\n")
	}
	return b.Bytes()
}

// readReply reads exactly one RESP value strictly; returns its raw bytes and its token rendering.
func readReply(r *bufio.Reader, raw *bytes.Buffer) ([]string, error) {
	line, err := r.ReadBytes('\n')
	if err != nil {
		return nil, err
	}
	raw.Write(line)
	if len(line) < 3 || line[len(line)-2] != '\r' {
		return nil, fmt.Errorf("line not terminated by CRLF: %q", line)
	}
	body := string(line[1 : len(line)-2])
	switch line[0] {
	case '+':
		return []string{"+" + hxs(body)}, nil
	case '-':
		return []string{"-" + hxs(body)}, nil
	case ':':
		if _, err := strconv.ParseInt(body, 10, 64); err != nil {
			return nil, fmt.Errorf("bad integer %q", body)
		}
		return []string{":" + body}, nil
	case '$':
		n, err := strconv.Atoi(body)
		if err != nil || n < -1 {
			return nil, fmt.Errorf("bad bulk length %q", body)
		}
		if n == -1 {
			return []string{"_"}, nil
		}
		buf := make([]byte, n+2)
		if _, err := io.ReadFull(r, buf); err != nil {
			return nil, err
		}
		raw.Write(buf)
		if buf[n] != '\r' || buf[n+1] != '\n' {
			return nil, fmt.Errorf("bulk payload not followed by CRLF")
		}
		return []string{"$" + hx(buf[:n])}, nil
	case '*':
		n, err := strconv.Atoi(body)
		if err != nil || n < 0 {
			return nil, fmt.Errorf("bad array length %q", body)
		}
		toks := []string{"*" + body}
		for i := 0; i < n; i++ {
			t, err := readReply(r, raw)
			if err != nil {
				return nil, err
			}
			toks = append(toks, t...)
		}
		return toks, nil
	}
	return nil, fmt.Errorf("unknown reply type %q", line[0])
}

// readFlat reads n flat tokens (an array header counts as one token): used when the handler chain
// itself wrote an incomplete reply (as EXEC did before the repair of D12), to stay in step.
func readFlat(r *bufio.Reader, raw *bytes.Buffer, n int) ([]string, error) {
	var toks []string
	for len(toks) < n {
		line, err := r.ReadBytes('\n')
		if err != nil {
			return toks, err
		}
		raw.Write(line)
		if len(line) < 3 {
			return toks, fmt.Errorf("short line")
		}
		body := string(line[1 : len(line)-2])
		switch line[0] {
		case '+', '-':
			toks = append(toks, string(line[0])+hxs(body))
		case ':', '*':
			toks = append(toks, string(line[0])+body)
		case '$':
			k, _ := strconv.Atoi(body)
			if k < 0 {
				toks = append(toks, "_")
				continue
			}
			buf := make([]byte, k+2)
			if _, err := io.ReadFull(r, buf); err != nil {
				return toks, err
			}
			raw.Write(buf)
			toks = append(toks, "$"+hx(buf[:k]))
		}
	}
	return toks, nil
}

// onWire renders a token as redcon sends it: CR and LF in simple strings and errors become spaces.
func onWire(tok string) string {
	if len(tok) > 1 && (tok[0] == '+' || tok[0] == '-') {
		b, err := hexDecode(tok[2:])
		if err == nil {
			return tok[:1] + hx(bytes.ReplaceAll(bytes.ReplaceAll(b, []byte("\r"), []byte(" ")), []byte("\n"), []byte(" ")))
		}
	}
	return tok
}

func complete(toks []string) bool {
	need := 1
	for _, t := range toks {
		if need == 0 {
			return false
		}
		need--
		if strings.HasPrefix(t, "*") {
			n, _ := strconv.Atoi(t[1:])
			if n > 0 {
				need += n
			}
		}
	}
	return need == 0
}

var sockBag = map[string]bool{"hgetall": true, "hkeys": true, "hvals": true, "smembers": true, "sinter": true,
	"sunion": true, "sdiff": true, "keys": true, "exec": true}

// sameReply: replies built from Go map iteration or unordered SQL are compared as multisets.
func sameReply(req [][]byte, got, exp []string) bool {
	if strings.Join(got, " ") == strings.Join(exp, " ") {
		return true
	}
	if len(req) > 0 && sockBag[strings.ToLower(string(req[0]))] && len(got) == len(exp) && len(got) > 0 && got[0] == exp[0] {
		a := append([]string(nil), got[1:]...)
		b := append([]string(nil), exp[1:]...)
		sort.Strings(a)
		sort.Strings(b)
		return strings.Join(a, " ") == strings.Join(b, " ")
	}
	return false
}

var sockSkip = map[string]bool{"ttl": true, "randomkey": true, "spop": true, "srandmember": true, "lolwut": true,
	"incrbyfloat": true, "hincrbyfloat": true,
	// page contents depend on ids/rowids, which Go's map iteration order (MSET, HSET, ZADD with several pairs) makes differ between the two databases
	"scan": true, "hscan": true, "sscan": true, "zscan": true}

func sockMain() {
	seed := flag.Int64("seed", 1, "PRNG seed")
	bin := flag.String("bin", "", "path of the redka server binary built from the tree")
	nreq := flag.Int("requests", 600, "requests per stream")
	flag.Parse()
	slog.SetDefault(slog.New(slog.NewTextHandler(io.Discard, nil)))
	out = bufio.NewWriterSize(os.Stdout, 1<<20)
	defer out.Flush()
	dir, err := os.MkdirTemp("", "verif_sock_")
	if err != nil {
		fmt.Fprintln(os.Stderr, err)
		os.Exit(2)
	}
	defer os.RemoveAll(dir)
	rnd := rand.New(rand.NewSource(*seed))
	for si, stream := range []string{"valid", "malformed", "multi"} {
		sock := filepath.Join(dir, fmt.Sprintf("s%d.sock", si))
		cmd := exec.Command(*bin, "-s", sock, filepath.Join(dir, fmt.Sprintf("d%d.db", si)))
		cmd.Stdout, cmd.Stderr = io.Discard, io.Discard
		if err := cmd.Start(); err != nil {
			fmt.Fprintln(os.Stderr, "sock: start server:", err)
			os.Exit(2)
		}
		exited := make(chan error, 1)
		go func() { exited <- cmd.Wait() }()
		var cs [2]net.Conn
		var rs [2]*bufio.Reader
		for i := range cs {
			for try := 0; try < 200; try++ {
				if c, err := net.Dial("unix", sock); err == nil {
					cs[i] = c
					rs[i] = bufio.NewReader(c)
					break
				}
				time.Sleep(20 * time.Millisecond)
			}
			if cs[i] == nil {
				fmt.Fprintln(os.Stderr, "sock: cannot connect to the server")
				os.Exit(2)
			}
		}
		fmt.Fprintf(out, "# trace %d sock %s\n", si, stream)
		twin := openDB()
		h := server.VerifHandlers(twin)
		tc := []*wireConn{{id: 1}, {id: 2}}
		g := newWireGen(rnd, stream)
		alive := true
		report := func(req [][]byte, exp []string, raw []byte, ok bool, why string) {
			seq++
			var rb strings.Builder
			fmt.Fprintf(&rb, "R %d", len(req))
			for _, a := range req {
				rb.WriteString(" " + hx(a))
			}
			fmt.Fprintf(out, "SOCK %d %d | %s | %s | %s | OK=%s %s\n", seq, nowMs(), rb.String(), strings.Join(exp, " "), hx(raw), b01(ok), why)
		}
		for done := 0; done < *nreq && alive; {
			// one batch: 1..8 requests pipelined on one connection
			batch := 1
			if rnd.Intn(3) == 0 {
				batch = 2 + rnd.Intn(7)
			}
			ci := -1
			var reqs [][][]byte
			for len(reqs) < batch {
				c, req := g.next()
				if len(req) == 0 || sockSkip[strings.ToLower(string(req[0]))] {
					continue
				}
				if ci == -1 {
					ci = c
				}
				if c != ci {
					// keep a pipeline on one connection: send what we have, then switch
					break
				}
				reqs = append(reqs, req)
			}
			if len(reqs) == 0 {
				continue
			}
			var wire bytes.Buffer
			for _, req := range reqs {
				wire.Write(respRequest(req))
			}
			cs[ci].SetDeadline(time.Now().Add(5 * time.Second))
			if _, err := cs[ci].Write(wire.Bytes()); err != nil {
				report(reqs[0], nil, nil, false, "write failed: "+err.Error())
				alive = false
				break
			}
			for _, req := range reqs {
				done++
				// the twin: the same request through the handler chain in process
				tc[ci].toks = nil
				twinDone := make(chan struct{})
				go func() {
					defer close(twinDone)
					defer func() { recover() }()
					args := make([][]byte, len(req))
					copy(args, req)
					h(tc[ci], redcon.Command{Args: args})
				}()
				select {
				case <-twinDone:
				case <-time.After(wireHangAfter):
					// the handler chain never returned (in process); the real server is asked below
					var raw bytes.Buffer
					_, rerr := readReply(rs[ci], &raw)
					report(req, nil, raw.Bytes(), false, fmt.Sprintf("the request does not return (HANG); real server: %v", rerr))
					out.Flush()
					cmd.Process.Kill()
					os.RemoveAll(dir)
					os.Exit(0)
				}
				exp := append([]string(nil), tc[ci].toks...)
				wireExp := make([]string, len(exp))
				for i, t := range exp {
					wireExp[i] = onWire(t)
				}
				var raw bytes.Buffer
				var got []string
				var err error
				short := len(exp) > 0 && !complete(exp)
				if short {
					got, err = readFlat(rs[ci], &raw, len(exp))
				} else {
					got, err = readReply(rs[ci], &raw)
				}
				switch {
				case err != nil:
					report(req, exp, raw.Bytes(), false, "no well-formed reply: "+err.Error())
					alive = false
				case !sameReply(req, got, wireExp):
					report(req, exp, raw.Bytes(), false, "reply differs from the in-process handler chain: "+strings.Join(got, " "))
				case short:
					report(req, exp, raw.Bytes(), true, "SHORT")
				case strings.Join(got, " ") != strings.Join(wireExp, " "):
					// equal as multisets (unordered reply): print the order seen on the wire
					report(req, got, raw.Bytes(), true, "BAG")
				default:
					report(req, exp, raw.Bytes(), true, "")
				}
				if !alive {
					break
				}
			}
			// sentinel on the other connection: the server serves everybody and stays in step
			if inM, _ := server.VerifConnState(tc[1-ci]); alive && !inM && rnd.Intn(4) == 0 {
				o := 1 - ci
				cs[o].SetDeadline(time.Now().Add(5 * time.Second))
				cs[o].Write(respRequest([][]byte{[]byte("ECHO"), []byte("sentinel")}))
				var raw bytes.Buffer
				got, err := readReply(rs[o], &raw)
				h(tc[o], redcon.Command{Args: [][]byte{[]byte("ECHO"), []byte("sentinel")}})
				tc[o].toks = nil
				if err != nil || strings.Join(got, " ") != "$"+hxs("sentinel") {
					report([][]byte{[]byte("ECHO"), []byte("sentinel")}, []string{"$" + hxs("sentinel")}, raw.Bytes(), false, "the other connection is out of step or dead")
					alive = false
				}
			}
		}
		// raw malformed protocol bytes on a third connection: survival only
		if alive {
			for _, junk := range [][]byte{
				[]byte("*3\r\n$3\r\nSET\r\n$-5\r\nx\r\n"), []byte("*-4\r\n"), []byte("$10\r\nabc\r\n"),
				[]byte("*2\r\n$4\r\nECHO\r\n$99999999999999999999\r\n"), {0xff, 0xfe, 0x00, '\r', '\n'}, []byte("*1\r\n$0\r\n\r\n"),
				bytes.Repeat([]byte("*1\r\n"), 200), []byte("GET k1\r\nPING\r\n\r\n"),
			} {
				if c3, err := net.Dial("unix", sock); err == nil {
					c3.SetDeadline(time.Now().Add(500 * time.Millisecond))
					c3.Write(junk)
					io.Copy(io.Discard, io.LimitReader(c3, 4096))
					c3.Close()
				}
				// a fresh connection (the two working ones may be inside MULTI)
				var raw bytes.Buffer
				var got []string
				c4, err := net.Dial("unix", sock)
				if err == nil {
					c4.SetDeadline(time.Now().Add(5 * time.Second))
					c4.Write(respRequest([][]byte{[]byte("ECHO"), []byte("alive")}))
					got, err = readReply(bufio.NewReader(c4), &raw)
					c4.Close()
				}
				ok := err == nil && strings.Join(got, " ") == "$"+hxs("alive")
				report([][]byte{[]byte("RAW"), junk}, []string{"$" + hxs("alive")}, raw.Bytes(), ok, map[bool]string{true: "", false: "server did not survive raw malformed bytes"}[ok])
				if !ok {
					alive = false
					break
				}
			}
		}
		select {
		case err := <-exited:
			report([][]byte{[]byte("(process)")}, nil, nil, false, fmt.Sprintf("the server process exited: %v", err))
		default:
			cmd.Process.Signal(os.Interrupt)
			select {
			case <-exited:
			case <-time.After(3 * time.Second):
				cmd.Process.Kill()
			}
		}
		for i := range cs {
			cs[i].Close()
		}
		twin.Close()
	}
}
