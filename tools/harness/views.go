//go:build verif

package main

import (
	"database/sql"
	"fmt"
	"sort"
	"strings"
)

// withViews: append the content of the six documented SQL views (select * from v...) to every
// protocol line, for the `W` verdict of the Lean driver (C11, last clause).
var withViews bool

// takeViews reads the six views through q. The rendered etime/mtime columns are compared here
// with the raw rkey row of the same kid (fmt=1/0): timestamps inside the canonicalised call
// window cannot be compared as text by the model. Everything else (which rows are shown, kid,
// key, type, len, idx, elements, scores) is printed for the Lean driver.
func takeViews(q querier, d *dumpT) (string, error) {
	byID := map[int64]keyRow{}
	for _, r := range d.keys {
		byID[r.id] = r
	}
	// (raw milliseconds, rendered text) pairs seen in the etime / mtime columns: judged by the Lean model of
	// datetime(ms/1000, 'unixepoch'); a NULL text is "-"
	rendered := map[int64]string{}
	conflict := false
	note := func(ms int64, t sql.NullString) {
		txt := "-"
		if t.Valid {
			txt = hxs(t.String)
		}
		if old, ok := rendered[ms]; ok && old != txt {
			conflict = true
		}
		rendered[ms] = txt
	}
	fmtOK := func(kid int64, et, mt sql.NullString) int {
		r, ok := byID[kid]
		if !ok {
			return 0
		}
		if r.etime == nil && et.Valid {
			return 0
		}
		if r.etime != nil {
			note(*r.etime, et)
		}
		note(r.mtime, mt)
		if conflict {
			return 0
		}
		return 1
	}
	var b strings.Builder
	sect := func(tag, query string, render func(*sql.Rows) (string, error)) error {
		rows, err := q.Query(query)
		if err != nil {
			return err
		}
		defer rows.Close()
		var out []string
		for rows.Next() {
			s, err := render(rows)
			if err != nil {
				return err
			}
			out = append(out, s)
		}
		if err := rows.Err(); err != nil {
			return err
		}
		fmt.Fprintf(&b, "%s %d", tag, len(out))
		for _, s := range out {
			b.WriteByte(' ')
			b.WriteString(s)
		}
		b.WriteByte(' ')
		return nil
	}
	if err := sect("VK", "select kid, key, type, len, etime, mtime from vkey", func(r *sql.Rows) (string, error) {
		var kid, ty int64
		var key []byte
		var ln sql.NullInt64
		var et, mt sql.NullString
		err := r.Scan(&kid, &key, &ty, &ln, &et, &mt)
		l := "-"
		if ln.Valid {
			l = fmt.Sprint(ln.Int64)
		}
		return fmt.Sprintf("%d %s %d %s %d", kid, hx(key), ty, l, fmtOK(kid, et, mt)), err
	}); err != nil {
		return "", err
	}
	if err := sect("VS", "select kid, key, value, etime, mtime from vstring", func(r *sql.Rows) (string, error) {
		var kid int64
		var key, v []byte
		var et, mt sql.NullString
		err := r.Scan(&kid, &key, &v, &et, &mt)
		return fmt.Sprintf("%d %s %s %d", kid, hx(key), hx(v), fmtOK(kid, et, mt)), err
	}); err != nil {
		return "", err
	}
	if err := sect("VL", "select kid, key, idx, elem, etime, mtime from vlist", func(r *sql.Rows) (string, error) {
		var kid, idx int64
		var key, v []byte
		var et, mt sql.NullString
		err := r.Scan(&kid, &key, &idx, &v, &et, &mt)
		return fmt.Sprintf("%d %s %d %s %d", kid, hx(key), idx, hx(v), fmtOK(kid, et, mt)), err
	}); err != nil {
		return "", err
	}
	if err := sect("VE", "select kid, key, elem, etime, mtime from vset", func(r *sql.Rows) (string, error) {
		var kid int64
		var key, v []byte
		var et, mt sql.NullString
		err := r.Scan(&kid, &key, &v, &et, &mt)
		return fmt.Sprintf("%d %s %s %d", kid, hx(key), hx(v), fmtOK(kid, et, mt)), err
	}); err != nil {
		return "", err
	}
	if err := sect("VH", "select kid, key, field, value, etime, mtime from vhash", func(r *sql.Rows) (string, error) {
		var kid int64
		var key, f, v []byte
		var et, mt sql.NullString
		err := r.Scan(&kid, &key, &f, &v, &et, &mt)
		return fmt.Sprintf("%d %s %s %s %d", kid, hx(key), hx(f), hx(v), fmtOK(kid, et, mt)), err
	}); err != nil {
		return "", err
	}
	if err := sect("VZ", "select kid, key, elem, score, etime, mtime from vzset", func(r *sql.Rows) (string, error) {
		var kid int64
		var key, v []byte
		var sc float64
		var et, mt sql.NullString
		err := r.Scan(&kid, &key, &v, &sc, &et, &mt)
		return fmt.Sprintf("%d %s %s %s %d", kid, hx(key), hx(v), dy(sc), fmtOK(kid, et, mt)), err
	}); err != nil {
		return "", err
	}
	mss := make([]int64, 0, len(rendered))
	for ms := range rendered {
		mss = append(mss, ms)
	}
	sort.Slice(mss, func(i, j int) bool { return mss[i] < mss[j] })
	fmt.Fprintf(&b, "VT %d", len(mss))
	for _, ms := range mss {
		fmt.Fprintf(&b, " %d %s", ms, rendered[ms])
	}
	return strings.TrimSpace(b.String()), nil
}
