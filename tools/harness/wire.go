//go:build verif

package main

// Wire mode: drives the REAL handler chain of internal/server (logging → parse → multi → handle)
// through a recording redcon.Conn and prints one self-contained line per request for the Lean
// `wiredriver`. Line format (documented in lean/RedkaModel/WireProto.lean):
//
//	seq now wire | pre-dump | pre-state | R argc xarg… | tokens | post-dump | post-state
//
// state  = C<conn> <inMulti 0|1> <n> {argc xname xarg…}   (read from the real connState)
// tokens = one per Write* call: +xHEX -xHEX :INT $xHEX _ *INT =xHEX, `.` when none, `!PANIC` last
//          when the handler chain panicked (recovered here; the real server would die).
//
// Usage (all streams derive every choice from -seed):
//
//	verifharness wire -seed N -traces T -len L [-stream valid|malformed|multi|all]   random streams
//	verifharness wire -stream pool -seed SHARD -traces T -len L     every command name x every vector of
//	        length 0..2 over a 20-token hostile pool (and length 3 over its first 8 tokens); shard SHARD
//	        is the index range [SHARD*T*L, (SHARD+1)*T*L) of the ~96k requests
//	verifharness wire -stream multiseq -seed SHARD -traces T -len L [-conns 2]   ALL sequences of length L
//	        over {MULTI, EXEC, DISCARD, ok write, failing write, unparsable, read} (x connection), T per
//	        shard, each on a fresh database and followed by EXEC + GET on every connection
//	verifharness wire -script FILE      replay `<conn> arg arg…` lines (reproducing requests of findings)
//
// A histogram of command names and reply kinds is printed to stderr at the end.

import (
	"time"
	"bufio"
	"flag"
	"fmt"
	"io"
	"log/slog"
	"math/rand"
	"net"
	"os"
	"sort"
	"strconv"
	"strings"

	"github.com/nalgeon/redka"
	"github.com/nalgeon/redka/internal/server"
	"github.com/tidwall/redcon"
)

// wireConn records every write call as one token and keeps the connection context, which is
// where the server stores its per-connection MULTI state.
type wireConn struct {
	id   int
	ctx  any
	toks []string
}

func (c *wireConn) add(t string)               { c.toks = append(c.toks, t) }
func (c *wireConn) RemoteAddr() string         { return fmt.Sprintf("verif:%d", c.id) }
func (c *wireConn) Close() error               { return nil }
func (c *wireConn) WriteError(msg string)      { c.add("-" + hxs(msg)) }
func (c *wireConn) WriteString(str string)     { c.add("+" + hxs(str)) }
func (c *wireConn) WriteBulk(bulk []byte)      { c.add("$" + hx(bulk)) }
func (c *wireConn) WriteBulkString(bulk string) { c.add("$" + hxs(bulk)) }
func (c *wireConn) WriteInt(num int)           { c.add(":" + strconv.Itoa(num)) }
func (c *wireConn) WriteInt64(num int64)       { c.add(":" + strconv.FormatInt(num, 10)) }
func (c *wireConn) WriteUint64(num uint64)     { c.add(":" + strconv.FormatUint(num, 10)) }
func (c *wireConn) WriteArray(count int)       { c.add("*" + strconv.Itoa(count)) }
func (c *wireConn) WriteNull()                 { c.add("_") }
func (c *wireConn) WriteRaw(data []byte)       { c.add("=" + hx(data)) }
func (c *wireConn) WriteAny(v any) {
	switch x := v.(type) {
	case string: // redcon.AppendAny: string → AppendBulkString
		c.add("$" + hxs(x))
	case []byte: // → AppendBulk
		c.add("$" + hx(x))
	default:
		c.add("=" + hx(redcon.AppendAny(nil, v)))
	}
}
func (c *wireConn) Context() any                     { return c.ctx }
func (c *wireConn) SetContext(v any)                 { c.ctx = v }
func (c *wireConn) SetReadBuffer(int)                {}
func (c *wireConn) Detach() redcon.DetachedConn      { return nil }
func (c *wireConn) ReadPipeline() []redcon.Command   { return nil }
func (c *wireConn) PeekPipeline() []redcon.Command   { return nil }
func (c *wireConn) NetConn() net.Conn                { return nil }

// wireState renders the real connState of a connection.
func wireState(c *wireConn) (string, [][][]byte) {
	inMulti, cmds := server.VerifConnState(c)
	var b strings.Builder
	fmt.Fprintf(&b, "C%d %s %d", c.id, b01(inMulti), len(cmds))
	var reqs [][][]byte
	for _, cmd := range cmds {
		var args [][]byte
		if a, ok := cmd.(interface{ Args() [][]byte }); ok {
			args = a.Args()
		}
		req := append([][]byte{[]byte(cmd.Name())}, args...)
		reqs = append(reqs, req)
		fmt.Fprintf(&b, " %d", len(req))
		for _, x := range req {
			b.WriteString(" " + hx(x))
		}
	}
	return b.String(), reqs
}

// wireTTLs lists the relative expiry arguments (in ms) a request may apply, so that the
// `now + ttl` timestamps it stores can be rewritten to `t1 + ttl`.
func wireTTLs(req [][]byte) []int64 {
	if len(req) == 0 {
		return nil
	}
	num := func(i int, mult int64) []int64 {
		if i < len(req) {
			if n, err := strconv.Atoi(string(req[i])); err == nil {
				return []int64{int64(n) * mult}
			}
		}
		return nil
	}
	switch strings.ToLower(string(req[0])) {
	case "expire":
		return num(2, 1000)
	case "pexpire":
		return num(2, 1)
	case "setex":
		return num(2, 1000)
	case "psetex":
		return num(2, 1)
	case "set":
		var out []int64
		for i := 3; i < len(req); i++ {
			switch strings.ToLower(string(req[i])) {
			case "ex":
				out = append(out, num(i+1, 1000)...)
			case "px":
				out = append(out, num(i+1, 1)...)
			}
		}
		return out
	}
	return nil
}

// wireRenderPost prints the post-dump with the timestamps written during [t0, t1] rewritten to
// t1 and the expiry times `t + ttl` (t in [t0, t1], ttl one of the request's relative expiries)
// rewritten to t1 + ttl. An etime that the key row already had in the pre-dump is left alone.
func wireRenderPost(pre, post *dumpT, t0, t1 int64, ttls []int64) string {
	old := map[int64]*int64{}
	for i := range pre.keys {
		old[pre.keys[i].id] = pre.keys[i].etime
	}
	basic := func(v int64) int64 {
		if t0 <= v && v <= t1 {
			return t1
		}
		return v
	}
	var b strings.Builder
	fmt.Fprintf(&b, "K %d", len(post.keys))
	for _, r := range post.keys {
		et := "-"
		if r.etime != nil {
			v := *r.etime
			if o, ok := old[r.id]; ok && o != nil && *o == v {
				// unchanged
			} else if t0 <= v && v <= t1 {
				v = t1
			} else {
				for _, ttl := range ttls {
					if ttl != 0 && t0+ttl <= v && v <= t1+ttl {
						v = t1 + ttl
						break
					}
				}
			}
			et = fmt.Sprint(v)
		}
		fmt.Fprintf(&b, " %d %s %d %d %s %d %s", r.id, hx(r.key), r.ty, r.version, et, basic(r.mtime), optInt(r.length))
	}
	sect := func(tag string, rows []string) {
		fmt.Fprintf(&b, " %s %d", tag, len(rows))
		for _, r := range rows {
			b.WriteByte(' ')
			b.WriteString(r)
		}
	}
	sect("S", post.strs)
	sect("L", post.lists)
	sect("E", post.sets)
	sect("H", post.hashes)
	sect("Z", post.zsets)
	fmt.Fprintf(&b, " F %d", post.fk)
	return b.String()
}

type wireStats struct {
	cmds     map[string]int
	outcomes map[string]int
	panics   []string
	lines    int
}

var wstats = wireStats{cmds: map[string]int{}, outcomes: map[string]int{}}

// wireOutcome classifies a reply for the histogram.
func wireOutcome(toks []string, panicked bool) string {
	if panicked {
		return "PANIC"
	}
	if len(toks) == 0 {
		return "nothing"
	}
	t := toks[0]
	last := toks[len(toks)-1]
	kind := func(t string) string {
		switch t[0] {
		case '-':
			b, _ := hexDecode(t[2:])
			s := string(b)
			if i := strings.LastIndex(s, " ("); i >= 0 {
				s = s[:i]
			}
			if len(s) > 44 {
				s = s[:44]
			}
			return "err:" + s
		case '+':
			return "simple"
		case ':':
			return "int"
		case '$':
			return "bulk"
		case '_':
			return "null"
		case '*':
			return "array"
		}
		return "raw"
	}
	k := kind(t)
	if k == "array" && last[0] == '-' {
		return "array…" + kind(last)
	}
	return k
}

func hexDecode(s string) ([]byte, error) {
	out := make([]byte, len(s)/2)
	for i := range out {
		v, err := strconv.ParseUint(s[2*i:2*i+2], 16, 8)
		if err != nil {
			return nil, err
		}
		out[i] = byte(v)
	}
	return out, nil
}

// wireStep sends one request on one connection and prints its line.
func wireStep(db *redka.DB, h redcon.HandlerFunc, c *wireConn, req [][]byte) {
	seq++
	fail := func(where string, err error) {
		fmt.Fprintf(os.Stderr, "harness: %s: %v (seq %d)\n", where, err, seq)
		out.Flush()
		os.Exit(2)
	}
	waitFreshMs()
	// keep the whole call inside one wall-clock second: TTL replies divide by 1000
	for nowMs()%1000 >= 900 {
	}
	pre, err := takeDump(db.RW)
	if err != nil {
		fail("pre-dump", err)
	}
	preState, queued := wireState(c)
	ttls := wireTTLs(req)
	if strings.EqualFold(string(req[0]), "exec") {
		for _, q := range queued {
			ttls = append(ttls, wireTTLs(q)...)
		}
	}
	c.toks = nil
	panicked := false
	hung := false
	t0 := nowMs()
	done := make(chan struct{})
	go func() {
		defer close(done)
		defer func() {
			if r := recover(); r != nil {
				panicked = true
			}
		}()
		h(c, redcon.Command{Args: req})
	}()
	select {
	case <-done:
	case <-time.After(wireHangAfter):
		// the request never returned: a client of the real server would wait forever (and, when the
		// handler sits on the single read-write connection, so would every other writer)
		hung = true
	}
	t1 := nowMs()
	lastT1 = t1
	if hung {
		var rb strings.Builder
		fmt.Fprintf(&rb, "R %d", len(req))
		for _, a := range req {
			rb.WriteString(" " + hx(a))
		}
		fmt.Fprintf(out, "%d %d wire | %s | %s | %s | %s | %s | %s\n", seq, t1,
			pre.render(ident), preState, rb.String(), ". !HANG", pre.render(ident), preState)
		wstats.panics = append(wstats.panics, fmt.Sprintf("seq %d: HANG %q", seq, req))
		out.Flush()
		os.Exit(0) // nothing more can be learnt from this process: its database is locked
	}
	post, err := takeDump(db.RW)
	if err != nil {
		fail("post-dump", err)
	}
	postState, _ := wireState(c)

	var rb strings.Builder
	fmt.Fprintf(&rb, "R %d", len(req))
	for _, a := range req {
		rb.WriteString(" " + hx(a))
	}
	toks := append([]string(nil), c.toks...)
	tokS := strings.Join(toks, " ")
	if len(toks) == 0 {
		tokS = "."
	}
	if panicked {
		tokS += " !PANIC"
		wstats.panics = append(wstats.panics, fmt.Sprintf("seq %d: %q", seq, req))
	}
	fmt.Fprintf(out, "%d %d wire | %s | %s | %s | %s | %s | %s\n", seq, t1,
		pre.render(ident), preState, rb.String(), tokS, wireRenderPost(pre, post, t0, t1, ttls), postState)

	name := strings.ToLower(string(req[0]))
	if !isPrintableASCII(name) || len(name) > 20 {
		name = "<junk>"
	}
	wstats.cmds[name]++
	wstats.outcomes[wireOutcome(toks, panicked)]++
	wstats.lines++
}

func isPrintableASCII(s string) bool {
	for i := 0; i < len(s); i++ {
		if s[i] < 33 || s[i] > 126 {
			return false
		}
	}
	return true
}

func wirePrintStats() {
	pr := func(title string, m map[string]int) {
		ks := make([]string, 0, len(m))
		for k := range m {
			ks = append(ks, k)
		}
		sort.Strings(ks)
		fmt.Fprintf(os.Stderr, "%s (%d kinds):", title, len(ks))
		for _, k := range ks {
			fmt.Fprintf(os.Stderr, " %s=%d", k, m[k])
		}
		fmt.Fprintln(os.Stderr)
	}
	fmt.Fprintf(os.Stderr, "wire: %d lines, %d panics\n", wstats.lines, len(wstats.panics))
	pr("commands", wstats.cmds)
	pr("outcomes", wstats.outcomes)
	for i, p := range wstats.panics {
		if i >= 10 {
			fmt.Fprintf(os.Stderr, "  … %d more panics\n", len(wstats.panics)-10)
			break
		}
		fmt.Fprintln(os.Stderr, "  panic at", p)
	}
}

// wireMain: `verifharness wire -seed N -traces T -len L [-stream valid|malformed|multi|all]`.
func wireMain() {
	seed := flag.Int64("seed", 1, "PRNG seed")
	traces := flag.Int("traces", 10, "number of traces (fresh database each)")
	length := flag.Int("len", 80, "requests per trace")
	stream := flag.String("stream", "all", "valid | malformed | multi | all | pool | multiseq")
	nconns := flag.Int("conns", 1, "multiseq: number of connections (1 or 2)")
	script := flag.String("script", "", "replay file: one request per line, `<conn 1|2> arg arg…` (Go-quoted args allowed)")
	flag.Parse()

	// handleSingle/handleMulti log every failing command at WARN level
	slog.SetDefault(slog.New(slog.NewTextHandler(io.Discard, nil)))

	out = bufio.NewWriterSize(os.Stdout, 1<<20)
	defer out.Flush()
	if *script != "" {
		wireScript(*script)
		out.Flush()
		wirePrintStats()
		return
	}
	if *stream == "pool" || *stream == "multiseq" {
		wireEnum(*stream, int(*seed), *traces, *length, *nconns)
		out.Flush()
		wirePrintStats()
		return
	}
	rnd := rand.New(rand.NewSource(*seed))
	streams := []string{"valid", "malformed", "multi"}
	for t := 0; t < *traces; t++ {
		s := *stream
		if s == "all" {
			s = streams[t%len(streams)]
		}
		db := openDB()
		fmt.Fprintln(out, "# trace wire")
		h := server.VerifHandlers(db)
		conns := []*wireConn{{id: 1}, {id: 2}}
		g := newWireGen(rnd, s)
		for i := 0; i < *length; i++ {
			ci, req := g.next()
			wireStep(db, h, conns[ci], req)
		}
		db.Close()
	}
	out.Flush()
	wirePrintStats()
}

// wireScript replays a hand-written request sequence on a fresh database (used for the
// reproducing requests of findings).
func wireScript(path string) {
	data, err := os.ReadFile(path)
	if err != nil {
		fmt.Fprintln(os.Stderr, "script:", err)
		os.Exit(2)
	}
	db := openDB()
	fmt.Fprintln(out, "# trace wire")
	defer func() { db.Close() }()
	h := server.VerifHandlers(db)
	conns := []*wireConn{{id: 1}, {id: 2}}
	for _, line := range strings.Split(string(data), "\n") {
		line = strings.TrimSpace(line)
		if line == "" || strings.HasPrefix(line, "#") {
			continue
		}
		if strings.HasPrefix(line, "---") {
			// a new trace: fresh database, fresh connections
			out.Flush()
			db.Close()
			db = openDB()
			h = server.VerifHandlers(db)
			conns = []*wireConn{{id: 1}, {id: 2}}
			fmt.Fprintln(out, "# trace script wire")
			continue
		}
		fields := strings.Fields(line)
		ci := 0
		if fields[0] == "2" {
			ci = 1
		}
		var req [][]byte
		for _, f := range fields[1:] {
			if strings.HasPrefix(f, "\"") {
				if u, err := strconv.Unquote(f); err == nil {
					f = u
				}
			}
			req = append(req, []byte(f))
		}
		if len(req) == 0 {
			continue
		}
		wireStep(db, h, conns[ci], req)
	}
}

// wireEnum runs the deterministic streams. Shard `seed` of the pool stream is the index range
// [seed*traces*len, (seed+1)*traces*len) of the enumeration, `len` requests per fresh database;
// shard `seed` of the multiseq stream is `traces` sequences of length `len`, each on a fresh
// database. Every trace starts with the three set-up requests (k1 string, k2 list, k3 set).
func wireEnum(stream string, shard, traces, length, conns int) {
	for t := 0; t < traces; t++ {
		g := &wGen{rnd: rand.New(rand.NewSource(1)), stream: stream, setup: wSetup}
		if stream == "pool" {
			lo := (shard*traces + t) * length
			for i := lo; i < lo+length && i < wPoolTotal(); i++ {
				v := wPoolAt(i)
				req := make([][]byte, len(v))
				for k, x := range v {
					req[k] = []byte(x)
				}
				short := false
				for _, ttl := range wireTTLs(req) {
					if ttl > 0 && ttl < 3600000 {
						short = true
					}
				}
				if short {
					continue // a short positive expiry is ambiguous against the wall clock
				}
				g.enum = append(g.enum, v)
				g.enumCi = append(g.enumCi, 0)
			}
		} else {
			i := shard*traces + t
			if i >= wSeqTotal(length, conns) {
				break
			}
			g.enum, g.enumCi = wSeqAt(i, length, conns)
			// a final EXEC + read on every connection shows what was left queued / committed
			for c := 0; c < conns; c++ {
				g.enum = append(g.enum, []string{"EXEC"}, []string{"GET", "k1"})
				g.enumCi = append(g.enumCi, c, c)
			}
		}
		if len(g.enum) == 0 {
			break
		}
		db := openDB()
		fmt.Fprintln(out, "# trace wire")
		h := server.VerifHandlers(db)
		cs := []*wireConn{{id: 1}, {id: 2}}
		for i := 0; i < len(g.setup)+len(g.enum); i++ {
			ci, req := g.next()
			wireStep(db, h, cs[ci], req)
		}
		db.Close()
	}
}
