//go:build verif

package main

import (
	"fmt"
	"os"
)

// wireMain drives the server's handler chain (subcommand `wire`); see wire_*.go.
func wireMain() {
	fmt.Fprintln(os.Stderr, "wire mode not built yet")
	os.Exit(2)
}
