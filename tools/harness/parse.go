//go:build verif

package main

import (
	"bufio"
	"encoding/hex"
	"fmt"
	"math"
	"os"
	"strconv"
	"strings"
)

// parseStep turns the protocol text of an operation (as printed in the op field of a line, without
// any trailing oracle token) back into a step, so that replay files, corpus entries and
// enumerated scripts can be executed against the implementation.

type toks struct {
	t []string
	i int
}

func (p *toks) next() string {
	if p.i >= len(p.t) {
		panic("script: unexpected end of operation")
	}
	s := p.t[p.i]
	p.i++
	return s
}
func (p *toks) str() string {
	s := p.next()
	if !strings.HasPrefix(s, "x") {
		panic("script: expected hex token, got " + s)
	}
	b, err := hex.DecodeString(s[1:])
	if err != nil {
		panic("script: bad hex " + s)
	}
	return string(b)
}
// typed reports whether the next token is a typed literal (`i:` `t:` `f:`) and, if so, consumes it.
func (p *toks) typed() (gval, bool) {
	if p.i >= len(p.t) {
		return gval{}, false
	}
	s := p.t[p.i]
	switch {
	case strings.HasPrefix(s, "i:"):
		n, err := strconv.Atoi(s[2:])
		if err != nil {
			panic("script: bad int literal " + s)
		}
		p.i++
		return gval{s, n}, true
	case s == "n:":
		p.i++
		return gval{s, []byte(nil)}, true
	case s == "t:1" || s == "t:0":
		p.i++
		return gval{s, s == "t:1"}, true
	case strings.HasPrefix(s, "f:"):
		q := &toks{t: []string{s[2:]}}
		f := q.score()
		p.i++
		return gval{s, f}, true
	}
	return gval{}, false
}

func (p *toks) int() int {
	n, err := strconv.Atoi(p.next())
	if err != nil {
		panic("script: bad int")
	}
	return n
}
func (p *toks) i64() int64 {
	n, err := strconv.ParseInt(p.next(), 10, 64)
	if err != nil {
		panic("script: bad int64")
	}
	return n
}
func (p *toks) bool() bool { return p.next() == "1" }
func (p *toks) strs() []string {
	n := p.int()
	out := make([]string, n)
	for i := range out {
		out[i] = p.str()
	}
	return out
}
func (p *toks) pairs() [][2]string {
	n := p.int()
	out := make([][2]string, n)
	for i := range out {
		out[i] = [2]string{p.str(), p.str()}
	}
	return out
}
func (p *toks) score() float64 {
	s := p.next()
	switch s {
	case "inf":
		return math.Inf(1)
	case "-inf":
		return math.Inf(-1)
	}
	parts := strings.Split(s, "p")
	if len(parts) != 2 {
		panic("script: bad dyadic " + s)
	}
	m, err1 := strconv.ParseInt(parts[0], 10, 64)
	e, err2 := strconv.Atoi(parts[1])
	if err1 != nil || err2 != nil {
		panic("script: bad dyadic " + s)
	}
	return math.Ldexp(float64(m), e)
}
func (p *toks) agg() int {
	switch p.next() {
	case "min":
		return 1
	case "max":
		return 2
	}
	return 0
}

func parseStep(text string) (st step, err error) {
	defer func() {
		if r := recover(); r != nil {
			err = fmt.Errorf("%v in %q", r, text)
		}
	}()
	p := &toks{t: strings.Fields(text)}
	name := p.next()
	switch name {
	case "str.Get":
		return opStrGet(p.str()), nil
	case "str.GetMany":
		return opStrGetMany(p.strs()), nil
	case "str.Incr":
		return opStrIncr(p.str(), p.int()), nil
	case "str.IncrFloat":
		return opStrIncrFloat(p.str(), p.score()), nil
	case "str.Set":
		k := p.str()
		if v, ok := p.typed(); ok {
			return opStrSetG(k, v), nil
		}
		return opStrSet(k, p.str(), false), nil
	case "str.SetExpires":
		return opStrSetExpires(p.str(), p.str(), p.i64()), nil
	case "str.SetMany":
		return opStrSetMany(p.pairs()), nil
	case "str.SetWith":
		k, v := p.str(), p.str()
		o := setOpts{}
		o.ifExists, o.ifNotExists = p.bool(), p.bool()
		o.ttl = p.i64()
		if at := p.next(); at != "-" {
			o.at, _ = strconv.ParseInt(at, 10, 64)
		}
		o.keepTTL = p.bool()
		return opStrSetWith(k, v, o), nil
	case "key.Count":
		return opKeyCount(p.strs()), nil
	case "key.Delete":
		return opKeyDelete(p.strs()), nil
	case "key.DeleteAll":
		return opKeyDeleteAll(), nil
	case "key.DeleteExpired":
		return opKeyDeleteExpired(p.int()), nil
	case "key.Exists":
		return opKeyExists(p.str()), nil
	case "key.Expire":
		return opKeyExpire(p.str(), p.i64()), nil
	case "key.ExpireAt":
		return opKeyExpireAt(p.str(), p.i64()), nil
	case "key.Get":
		return opKeyGet(p.str()), nil
	case "key.Keys":
		return opKeyKeys(p.str()), nil
	case "key.Len":
		return opKeyLen(), nil
	case "key.Persist":
		return opKeyPersist(p.str()), nil
	case "key.Random":
		return opKeyRandom(), nil
	case "key.Rename":
		return opKeyRename(p.str(), p.str()), nil
	case "key.RenameNotExists":
		return opKeyRenameNX(p.str(), p.str()), nil
	case "key.Scan":
		return opKeyScan(p.int(), p.str(), p.int(), p.int()), nil
	case "list.Delete":
		return opListDelete(p.str(), p.str()), nil
	case "list.DeleteBack":
		return opListDeleteBack(p.str(), p.str(), p.int()), nil
	case "list.DeleteFront":
		return opListDeleteFront(p.str(), p.str(), p.int()), nil
	case "list.Get":
		return opListGet(p.str(), p.int()), nil
	case "list.InsertAfter":
		return opListInsert(p.str(), p.str(), p.str(), true), nil
	case "list.InsertBefore":
		return opListInsert(p.str(), p.str(), p.str(), false), nil
	case "list.Len":
		return opListLen(p.str()), nil
	case "list.PopBack":
		return opListPopBack(p.str()), nil
	case "list.PopFront":
		return opListPopFront(p.str()), nil
	case "list.PopBackPushFront":
		return opListPopBackPushFront(p.str(), p.str()), nil
	case "list.PushBack", "list.PushFront":
		k := p.str()
		if v, ok := p.typed(); ok {
			return opListPushG(k, v, name == "list.PushFront"), nil
		}
		return opListPush(k, p.str(), name == "list.PushFront", false), nil
	case "list.Range":
		return opListRange(p.str(), p.int(), p.int()), nil
	case "list.Set":
		return opListSet(p.str(), p.int(), p.str()), nil
	case "list.Trim":
		return opListTrim(p.str(), p.int(), p.int()), nil
	case "set.Add":
		k := p.str()
		if p.i+1 < len(p.t) && (strings.HasPrefix(p.t[p.i+1], "i:") || strings.HasPrefix(p.t[p.i+1], "t:") || strings.HasPrefix(p.t[p.i+1], "f:") || p.t[p.i+1] == "n:") {
			n := p.int()
			vs := make([]gval, 0, n)
			for j := 0; j < n; j++ {
				v, ok := p.typed()
				if !ok {
					panic("script: set.Add mixes typed and hex members")
				}
				vs = append(vs, v)
			}
			return opSetAddG(k, vs), nil
		}
		return opSetAdd(k, p.strs(), false), nil
	case "set.Delete":
		return opSetDelete(p.str(), p.strs()), nil
	case "set.Diff":
		return opSetDiff(p.strs()), nil
	case "set.Inter":
		return opSetInter(p.strs()), nil
	case "set.Union":
		return opSetUnion(p.strs()), nil
	case "set.DiffStore":
		return opSetDiffStore(p.str(), p.strs()), nil
	case "set.InterStore":
		return opSetInterStore(p.str(), p.strs()), nil
	case "set.UnionStore":
		return opSetUnionStore(p.str(), p.strs()), nil
	case "set.Exists":
		return opSetExists(p.str(), p.str()), nil
	case "set.Items":
		return opSetItems(p.str()), nil
	case "set.Len":
		return opSetLen(p.str()), nil
	case "set.Move":
		return opSetMove(p.str(), p.str(), p.str()), nil
	case "set.Pop":
		return opSetPop(p.str()), nil
	case "set.Random":
		return opSetRandom(p.str()), nil
	case "set.Scan":
		return opSetScan(p.str(), p.int(), p.str(), p.int()), nil
	case "hash.Delete":
		return opHashDelete(p.str(), p.strs()), nil
	case "hash.Exists":
		return opHashExists(p.str(), p.str()), nil
	case "hash.Fields":
		return opHashFields(p.str()), nil
	case "hash.Get":
		return opHashGet(p.str(), p.str()), nil
	case "hash.GetMany":
		return opHashGetMany(p.str(), p.strs()), nil
	case "hash.IncrFloat":
		return opHashIncrFloat(p.str(), p.str(), p.score()), nil
	case "hash.Incr":
		return opHashIncr(p.str(), p.str(), p.int()), nil
	case "hash.Items":
		return opHashItems(p.str()), nil
	case "hash.Len":
		return opHashLen(p.str()), nil
	case "hash.Scan":
		return opHashScan(p.str(), p.int(), p.str(), p.int()), nil
	case "hash.Set":
		k, f := p.str(), p.str()
		if v, ok := p.typed(); ok {
			return opHashSetG(k, f, v), nil
		}
		return opHashSet(k, f, p.str(), false), nil
	case "hash.SetMany":
		return opHashSetMany(p.str(), p.pairs()), nil
	case "hash.SetNotExists":
		return opHashSetNX(p.str(), p.str(), p.str()), nil
	case "hash.Values":
		return opHashValues(p.str()), nil
	case "zset.Add":
		return opZAdd(p.str(), p.str(), p.score()), nil
	case "zset.AddMany":
		k := p.str()
		n := p.int()
		items := make([]zitem, n)
		for i := range items {
			items[i] = zitem{p.str(), p.score()}
		}
		return opZAddMany(k, items), nil
	case "zset.Count":
		return opZCount(p.str(), p.score(), p.score()), nil
	case "zset.Delete":
		return opZDelete(p.str(), p.strs()), nil
	case "zset.DeleteRank":
		return opZDeleteRank(p.str(), p.int(), p.int()), nil
	case "zset.DeleteScore":
		return opZDeleteScore(p.str(), p.score(), p.score()), nil
	case "zset.GetRank":
		return opZGetRank(p.str(), p.str(), false), nil
	case "zset.GetRankRev":
		return opZGetRank(p.str(), p.str(), true), nil
	case "zset.GetScore":
		return opZGetScore(p.str(), p.str()), nil
	case "zset.Incr":
		return opZIncr(p.str(), p.str(), p.score()), nil
	case "zset.Inter":
		return opZInter(p.strs(), p.agg()), nil
	case "zset.Union":
		return opZUnion(p.strs(), p.agg()), nil
	case "zset.InterStore":
		return opZInterStore(p.str(), p.strs(), p.agg()), nil
	case "zset.UnionStore":
		return opZUnionStore(p.str(), p.strs(), p.agg()), nil
	case "zset.Len":
		return opZLen(p.str()), nil
	case "zset.RangeRank":
		return opZRangeRank(p.str(), p.int(), p.int(), p.bool()), nil
	case "zset.RangeScore":
		return opZRangeScore(p.str(), p.score(), p.score(), p.bool(), p.int(), p.int()), nil
	case "zset.Scan":
		return opZScan(p.str(), p.int(), p.str(), p.int()), nil
	}
	return step{}, fmt.Errorf("script: unknown operation %q", name)
}

// scriptMain runs traces read from a file: one operation per line, a line `--- <mode>` starts
// a new trace on a fresh database (mode db or tx), `#` lines are comments. A line starting with
// `!` is executed but not printed (state set-up).
func scriptMain(path string) {
	f, err := os.Open(path)
	if err != nil {
		fmt.Fprintln(os.Stderr, err)
		os.Exit(2)
	}
	defer f.Close()
	sc := bufio.NewScanner(f)
	sc.Buffer(make([]byte, 1<<20), 1<<26)
	mode := "db"
	db := openDB()
	ntr := 0
	for sc.Scan() {
		line := strings.TrimSpace(sc.Text())
		if line == "" || strings.HasPrefix(line, "#") {
			continue
		}
		if line == "@views" {
			withViews = true
			continue
		}
		if strings.HasPrefix(line, "---") {
			db.Close()
			db = openDB()
			if m := strings.TrimSpace(strings.TrimPrefix(line, "---")); m != "" {
				mode = m
			}
			ntr++
			fmt.Fprintf(out, "# trace %d %s\n", ntr, mode)
			continue
		}
		quiet := false
		if strings.HasPrefix(line, "!") {
			quiet = true
			line = strings.TrimSpace(line[1:])
		}
		st, err := parseStep(line)
		if err != nil {
			fmt.Fprintln(os.Stderr, err)
			os.Exit(2)
		}
		runStepQ(db, mode, st, quiet)
	}
	db.Close()
}
