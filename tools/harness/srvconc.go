//go:build verif

package main

import (
	"strconv"
	"encoding/hex"
	"bufio"
	"bytes"
	"database/sql"
	"flag"
	"fmt"
	"io"
	"math/rand"
	"net"
	"os"
	"os/exec"
	"path/filepath"
	"sort"
	"strings"
	"sync"
	"time"
)

// srvconc mode (C08, "any number of clients share one server"): the real server binary built from
// the tree serves an on-disk database over a unix socket; 2..5 client connections issue single
// commands and MULTI…EXEC blocks concurrently on a 1..3 key universe; call and return instants are
// recorded around each request (a block: from sending MULTI to receiving the EXEC reply) and the
// round is printed as one CONC history, the same line format as the in-process conc mode, a block
// being one event:
//
//   CONC <seq> <now> server | <pre-dump> | <call> <ret> <client> <op…> => <result> ;; <call> <ret> <client> B <n> <op…> => <result> && … ;; … | <post-dump>
//
// The Lean driver searches for a sequential order of whole events that respects real time and
// explains every reply and the final tables. Dumps are read through an independent read-only
// SQLite connection to the server's database file while no request is in flight.

type wop struct {
	text   string   // API-level operation text (the model's vocabulary)
	req    []string // the command on the wire
	decode func(toks []string) (text string, res string)
}

func bulkOrNil(toks []string) string {
	if len(toks) == 1 && toks[0] == "_" {
		return "err notfound"
	}
	if len(toks) == 1 && strings.HasPrefix(toks[0], "$") {
		return "ok b:" + toks[0][1:]
	}
	return "err sql:other " + strings.Join(toks, "_")
}

func intReply(toks []string) string {
	if len(toks) == 1 && strings.HasPrefix(toks[0], ":") {
		return "ok i:" + toks[0][1:]
	}
	return "err sql:other " + strings.Join(toks, "_")
}

func srvOp(rnd *rand.Rand, nkeys int) wop {
	keys := []string{"k1", "k2", "k3"}[:nkeys]
	k := keys[rnd.Intn(len(keys))]
	k2 := keys[rnd.Intn(len(keys))]
	el := []string{"a", "b"}[rnd.Intn(2)]
	same := func(text string, f func([]string) string) func([]string) (string, string) {
		return func(t []string) (string, string) { return text, f(t) }
	}
	// a bulk reply that must read as a float (ZINCRBY, ZSCORE, INCRBYFLOAT write through redis.WriteFloat)
	floatReply := func(t []string) string {
		if len(t) == 1 && t[0] == "_" {
			return "err notfound"
		}
		if len(t) == 1 && strings.HasPrefix(t[0], "$") {
			if raw, err := hex.DecodeString(strings.TrimPrefix(t[0][1:], "x")); err == nil {
				if f, err := strconv.ParseFloat(string(raw), 64); err == nil {
					return "ok s:" + dy(f)
				}
			}
		}
		return "err sql:other " + strings.Join(t, "_")
	}
	switch rnd.Intn(17) {
	case 14:
		d := []float64{1.5, 0.25, 1000.125, 3}[rnd.Intn(4)]
		text := fmt.Sprintf("zset.Incr %s %s %s", hxs("z"+k), hxs(el), dy(d))
		return wop{text, []string{"ZINCRBY", "z" + k, strconv.FormatFloat(d, 'f', -1, 64), el}, same(text, floatReply)}
	case 15:
		text := "zset.GetScore " + hxs("z"+k) + " " + hxs(el)
		return wop{text, []string{"ZSCORE", "z" + k, el}, same(text, floatReply)}
	case 16:
		d := []float64{0.5, 2.25, 1234.0625}[rnd.Intn(3)]
		text := fmt.Sprintf("str.IncrFloat %s %s", hxs("f"+k), dy(d))
		return wop{text, []string{"INCRBYFLOAT", "f" + k, strconv.FormatFloat(d, 'f', -1, 64)}, same(text, floatReply)}
	case 0, 1:
		d := 1 + rnd.Intn(3)
		text := fmt.Sprintf("str.Incr %s %d", hxs("n"+k), d)
		return wop{text, []string{"INCRBY", "n" + k, fmt.Sprint(d)}, same(text, intReply)}
	case 2:
		text := "str.Get " + hxs("n"+k)
		return wop{text, []string{"GET", "n" + k}, same(text, bulkOrNil)}
	case 3:
		v := fmt.Sprint(rnd.Intn(5))
		text := "str.Set " + hxs("n"+k) + " " + hxs(v)
		return wop{text, []string{"SET", "n" + k, v}, same(text, func(t []string) string {
			if len(t) == 1 && t[0] == "+"+hxs("OK") {
				return "ok nil"
			}
			return "err sql:other " + strings.Join(t, "_")
		})}
	case 4, 5:
		name, cmd := "list.PushBack", "RPUSH"
		if rnd.Intn(2) == 0 {
			name, cmd = "list.PushFront", "LPUSH"
		}
		text := name + " " + hxs("l"+k) + " " + hxs(el)
		return wop{text, []string{cmd, "l" + k, el}, same(text, intReply)}
	case 6:
		text := "list.PopBack " + hxs("l"+k)
		return wop{text, []string{"RPOP", "l" + k}, same(text, bulkOrNil)}
	case 7:
		text := "list.PopFront " + hxs("l"+k)
		return wop{text, []string{"LPOP", "l" + k}, same(text, bulkOrNil)}
	case 8:
		text := "list.PopBackPushFront " + hxs("l"+k) + " " + hxs("l"+k2)
		return wop{text, []string{"RPOPLPUSH", "l" + k, "l" + k2}, same(text, bulkOrNil)}
	case 9:
		text := "set.Add " + hxs("s"+k) + " 1 " + hxs(el)
		return wop{text, []string{"SADD", "s" + k, el}, same(text, intReply)}
	case 10:
		text := "set.Move " + hxs("s"+k) + " " + hxs("s"+k2) + " " + hxs(el)
		return wop{text, []string{"SMOVE", "s" + k, "s" + k2, el}, same(text, func(t []string) string {
			if len(t) == 1 && t[0] == ":1" {
				return "ok nil"
			}
			if len(t) == 1 && t[0] == ":0" {
				return "err notfound"
			}
			return "err sql:other " + strings.Join(t, "_")
		})}
	case 11:
		base := "set.Pop " + hxs("s"+k)
		return wop{base, []string{"SPOP", "s" + k}, func(t []string) (string, string) {
			// the popped member is an oracle for the model's random choice
			if len(t) == 1 && strings.HasPrefix(t[0], "$") {
				return base + " " + t[0][1:], "ok b:" + t[0][1:]
			}
			return base + " -", bulkOrNil(t)
		}}
	case 12:
		text := "hash.Incr " + hxs("h"+k) + " " + hxs("f") + " 1"
		return wop{text, []string{"HINCRBY", "h" + k, "f", "1"}, same(text, intReply)}
	default:
		// the key is often missing: a negative stop on a missing key was D02 (repaired)
		text := "list.Range " + hxs("l"+k) + " 0 -1"
		return wop{text, []string{"LRANGE", "l" + k, "0", "-1"}, same(text, func(t []string) string {
			if len(t) >= 1 && strings.HasPrefix(t[0], "*") {
				out := fmt.Sprintf("ok L %d", len(t)-1)
				for _, x := range t[1:] {
					out += " b:" + strings.TrimPrefix(x, "$")
				}
				return out
			}
			return "err sql:other " + strings.Join(t, "_")
		})}
	}
}

func strReq(args []string) [][]byte {
	out := make([][]byte, len(args))
	for i, a := range args {
		out[i] = []byte(a)
	}
	return out
}

// splitExec splits the tokens of an EXEC reply (*n followed by n values) into the n values.
func splitExec(toks []string) ([][]string, bool) {
	if len(toks) == 0 || !strings.HasPrefix(toks[0], "*") {
		return nil, false
	}
	var n int
	fmt.Sscan(toks[0][1:], &n)
	var out [][]string
	i := 1
	var one func() []string
	one = func() []string {
		if i >= len(toks) {
			return nil
		}
		t := toks[i]
		i++
		r := []string{t}
		if strings.HasPrefix(t, "*") {
			var k int
			fmt.Sscan(t[1:], &k)
			for j := 0; j < k; j++ {
				r = append(r, one()...)
			}
		}
		return r
	}
	for j := 0; j < n; j++ {
		v := one()
		if v == nil {
			return nil, false
		}
		out = append(out, v)
	}
	return out, i == len(toks)
}

func srvconcMain() {
	seed := flag.Int64("seed", 1, "PRNG seed")
	bin := flag.String("bin", "", "path of the redka server binary built from the tree")
	rounds := flag.Int("rounds", 30, "rounds")
	hammer := flag.Int("hammer", 0, "instead of the rounds: this many requests per client on PRIVATE keys, every reply determined by the client's own history")
	flag.Parse()
	out = bufio.NewWriterSize(os.Stdout, 1<<20)
	defer out.Flush()
	dir, err := os.MkdirTemp("", "verif_srvconc_")
	if err != nil {
		fmt.Fprintln(os.Stderr, err)
		os.Exit(2)
	}
	defer os.RemoveAll(dir)
	rnd := rand.New(rand.NewSource(*seed))
	fmt.Fprintf(out, "# trace 0 conc server\n")
	if *hammer > 0 {
		srvHammer(*bin, dir, *hammer)
		return
	}
	for r := 0; r < *rounds; r++ {
		sock := filepath.Join(dir, fmt.Sprintf("s%d.sock", r))
		dbFile := filepath.Join(dir, fmt.Sprintf("d%d.db", r))
		cmd := exec.Command(*bin, "-s", sock, dbFile)
		cmd.Stdout, cmd.Stderr = io.Discard, io.Discard
		if err := cmd.Start(); err != nil {
			fmt.Fprintln(os.Stderr, "srvconc: start server:", err)
			os.Exit(2)
		}
		ok := srvRound(rnd, sock, dbFile)
		cmd.Process.Kill()
		cmd.Wait()
		for _, suf := range []string{"", "-wal", "-shm"} {
			os.Remove(dbFile + suf)
		}
		os.Remove(sock)
		if !ok {
			break
		}
	}
}

func dial(sock string) (net.Conn, *bufio.Reader) {
	for try := 0; try < 300; try++ {
		if c, err := net.Dial("unix", sock); err == nil {
			return c, bufio.NewReader(c)
		}
		time.Sleep(10 * time.Millisecond)
	}
	fmt.Fprintln(os.Stderr, "srvconc: cannot connect to the server")
	os.Exit(2)
	return nil, nil
}

func roundTrip(c net.Conn, r *bufio.Reader, req []string) ([]string, error) {
	c.SetDeadline(time.Now().Add(wireHangAfter))
	if _, err := c.Write(respRequest(strReq(req))); err != nil {
		return nil, err
	}
	var raw bytes.Buffer
	return readReply(r, &raw)
}

func srvRound(rnd *rand.Rand, sock, dbFile string) bool {
	nkeys := 1 + rnd.Intn(3)
	c0, r0 := dial(sock)
	for i := 0; i < 1+rnd.Intn(4); i++ {
		roundTrip(c0, r0, srvOp(rnd, nkeys).req)
	}
	raw, err := sql.Open("sqlite3", "file:"+dbFile+"?mode=ro")
	if err != nil {
		fmt.Fprintln(os.Stderr, "srvconc: raw open:", err)
		os.Exit(2)
	}
	defer raw.Close()
	pre, err := takeDump(raw)
	if err != nil {
		fmt.Fprintln(os.Stderr, "srvconc: pre-dump:", err)
		os.Exit(2)
	}
	pre.fk = 1 // the flag read here is the dump connection's own; the server's connection hook sets it
	clients := 2 + rnd.Intn(4)
	per := 2 + rnd.Intn(3)
	if clients*per > 12 {
		per = 12 / clients
	}
	type item struct {
		ops   []wop // one op, or the body of a MULTI block
		block bool
		delay time.Duration
	}
	plans := make([][]item, clients)
	for c := range plans {
		for i := 0; i < per; i++ {
			it := item{delay: time.Duration(rnd.Intn(300)) * time.Microsecond}
			if rnd.Intn(4) == 0 {
				it.block = true
				for j := 0; j < 2+rnd.Intn(2); j++ {
					it.ops = append(it.ops, srvOp(rnd, nkeys))
				}
			} else {
				it.ops = []wop{srvOp(rnd, nkeys)}
			}
			plans[c] = append(plans[c], it)
		}
	}
	var mu sync.Mutex
	var evs []concEv
	bad := ""
	var wg sync.WaitGroup
	start := time.Now()
	for c := 0; c < clients; c++ {
		wg.Add(1)
		go func(c int) {
			defer wg.Done()
			conn, rd := dial(sock)
			defer conn.Close()
			for _, it := range plans[c] {
				time.Sleep(it.delay)
				var text, res string
				t0 := time.Since(start).Nanoseconds()
				if !it.block {
					toks, err := roundTrip(conn, rd, it.ops[0].req)
					if err != nil {
						mu.Lock()
						bad = fmt.Sprintf("client %d: %v on %v", c, err, it.ops[0].req)
						mu.Unlock()
						return
					}
					text, res = it.ops[0].decode(toks)
				} else {
					if t, err := roundTrip(conn, rd, []string{"MULTI"}); err != nil || len(t) != 1 || t[0] != "+"+hxs("OK") {
						mu.Lock()
						bad = fmt.Sprintf("client %d: MULTI answered %v %v", c, t, err)
						mu.Unlock()
						return
					}
					for _, o := range it.ops {
						if t, err := roundTrip(conn, rd, o.req); err != nil || len(t) != 1 || t[0] != "+"+hxs("QUEUED") {
							mu.Lock()
							bad = fmt.Sprintf("client %d: queued command answered %v %v", c, t, err)
							mu.Unlock()
							return
						}
					}
					toks, err := roundTrip(conn, rd, []string{"EXEC"})
					vals, ok := splitExec(toks)
					if err != nil || !ok || len(vals) != len(it.ops) {
						mu.Lock()
						bad = fmt.Sprintf("client %d: EXEC answered %v %v", c, toks, err)
						mu.Unlock()
						return
					}
					var parts []string
					for j, o := range it.ops {
						tx, rs := o.decode(vals[j])
						parts = append(parts, tx+" => "+rs)
					}
					text = fmt.Sprintf("B %d %s", len(it.ops), strings.Join(parts, " && "))
				}
				t1 := time.Since(start).Nanoseconds()
				mu.Lock()
				evs = append(evs, concEv{t0, t1, c, text, res})
				mu.Unlock()
			}
		}(c)
	}
	wg.Wait()
	seq++
	if bad != "" {
		// a request that got no (well-formed) reply while others were running
		fmt.Fprintf(out, "CONC %d %d server | %s | - | %s\n", seq, nowMs(), pre.render(ident), "BROKEN "+strings.ReplaceAll(bad, "|", "/"))
		return false
	}
	post, err := takeDump(raw)
	if err != nil {
		fmt.Fprintln(os.Stderr, "srvconc: post-dump:", err)
		os.Exit(2)
	}
	post.fk = 1
	sort.Slice(evs, func(i, j int) bool { return evs[i].call < evs[j].call })
	var parts []string
	for _, e := range evs {
		if strings.HasPrefix(e.text, "B ") {
			parts = append(parts, fmt.Sprintf("%d %d %d %s", e.call, e.ret, e.client, e.text))
		} else {
			parts = append(parts, fmt.Sprintf("%d %d %d %s => %s", e.call, e.ret, e.client, e.text, e.res))
		}
	}
	c0.Close()
	fmt.Fprintf(out, "CONC %d %d server | %s | %s | %s\n", seq, nowMs(), pre.render(ident), strings.Join(parts, " ;; "), post.render(ident))
	return true
}


// srvHammer: six clients of one server, each working on keys no other client touches, in tight loops; every
// reply is determined by the client's own history (a running float total, a counter, a list length), so a
// reply that differs was produced from another connection's data: state shared between connections.
func srvHammer(bin, dir string, n int) {
	sock := filepath.Join(dir, "h.sock")
	dbFile := filepath.Join(dir, "h.db")
	cmd := exec.Command(bin, "-s", sock, dbFile)
	cmd.Stdout, cmd.Stderr = io.Discard, io.Discard
	if err := cmd.Start(); err != nil {
		fmt.Fprintln(os.Stderr, "srvconc: start server:", err)
		os.Exit(2)
	}
	defer func() { cmd.Process.Kill(); cmd.Wait() }()
	const clients = 6
	var mu sync.Mutex
	mismatches, total := 0, 0
	first := ""
	var wg sync.WaitGroup
	for c := 0; c < clients; c++ {
		wg.Add(1)
		go func(c int) {
			defer wg.Done()
			conn, rd := dial(sock)
			defer conn.Close()
			z, f, nk, l := fmt.Sprintf("z%d", c), fmt.Sprintf("f%d", c), fmt.Sprintf("n%d", c), fmt.Sprintf("l%d", c)
			step := float64(c) + 1.125 // exact in binary, different per client
			zt, ft := 0.0, 0.0
			cnt, ln := 0, 0
			check := func(req []string, want string) {
				toks, err := roundTrip(conn, rd, req)
				got := strings.Join(toks, " ")
				if err != nil {
					got = "error: " + err.Error()
				}
				mu.Lock()
				total++
				if got != want {
					mismatches++
					if first == "" {
						first = fmt.Sprintf("client %d %v: got %s want %s", c, req, got, want)
					}
				}
				mu.Unlock()
			}
			fl := func(x float64) string { return "$" + hxs(strconv.FormatFloat(x, 'f', -1, 64)) }
			for i := 0; i < n; i++ {
				switch i % 6 {
				case 0:
					zt += step
					check([]string{"ZINCRBY", z, strconv.FormatFloat(step, 'f', -1, 64), "m"}, fl(zt))
				case 1:
					check([]string{"ZSCORE", z, "m"}, fl(zt))
				case 2:
					ft += step
					check([]string{"INCRBYFLOAT", f, strconv.FormatFloat(step, 'f', -1, 64)}, fl(ft))
				case 3:
					cnt += c + 1
					check([]string{"INCRBY", nk, fmt.Sprint(c + 1)}, fmt.Sprintf(":%d", cnt))
				case 4:
					ln++
					check([]string{"RPUSH", l, fmt.Sprintf("e%d", c)}, fmt.Sprintf(":%d", ln))
				default:
					check([]string{"GET", nk}, "$"+hxs(fmt.Sprint(cnt)))
				}
			}
		}(c)
	}
	wg.Wait()
	seq++
	fmt.Fprintf(out, "TICK %d %d | hammer | clients=%d requests=%d mismatches=%d first=%q TK=%s\n", seq, nowMs(), clients, total, mismatches, first, b01(mismatches == 0))
}
