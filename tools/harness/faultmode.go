//go:build verif

package main

import (
	"bufio"
	"context"
	"database/sql"
	"database/sql/driver"
	"errors"
	"flag"
	"fmt"
	"math/rand"
	"os"
	"strings"
	"sync"

	sqlite3 "github.com/mattn/go-sqlite3"
	"github.com/nalgeon/redka"
	"github.com/nalgeon/redka/internal/redis"
)

// ----------------------------------------------------------------------------
// verifsql: a database/sql driver that wraps mattn's SQLite driver, counts the calls made on the
// read-write connection (begin / exec / query / commit) and can make the k-th of them fail before
// it reaches SQLite. Selected through the public Options.DriverName; /repo is not modified.

var errInjected = errors.New("verif: injected storage fault")

type faultPlan struct {
	mu     sync.Mutex
	armed  bool
	failAt int    // 1-based index of the RW call to fail
	calls  int    // RW calls seen since arming
	fired  bool   // the fault was delivered
	kinds  []string
	exit   bool   // os.Exit(3) instead of returning an error (crash mode)
	after  bool   // crash after the call has been executed
}

var plan faultPlan

func (p *faultPlan) arm(k int) {
	p.mu.Lock()
	defer p.mu.Unlock()
	p.armed, p.failAt, p.calls, p.fired, p.kinds = true, k, 0, false, nil
}
func (p *faultPlan) disarm() (fired bool, calls int, kinds []string) {
	p.mu.Lock()
	defer p.mu.Unlock()
	p.armed = false
	return p.fired, p.calls, p.kinds
}

// hit records one RW call; true = this call must fail.
func (p *faultPlan) hit(kind string) bool {
	p.mu.Lock()
	defer p.mu.Unlock()
	if !p.armed {
		return false
	}
	p.calls++
	p.kinds = append(p.kinds, kind)
	if p.calls == p.failAt && !p.fired {
		p.fired = true
		return true
	}
	return false
}

type vDriver struct{ base *sqlite3.SQLiteDriver }

func (d *vDriver) Open(name string) (driver.Conn, error) {
	c, err := d.base.Open(name)
	if err != nil {
		return nil, err
	}
	return &vConn{c: c.(*sqlite3.SQLiteConn), rw: strings.Contains(name, "_txlock=immediate")}, nil
}

type vConn struct {
	c  *sqlite3.SQLiteConn
	rw bool
}

func (v *vConn) fault(kind string) error {
	if !v.rw {
		return nil
	}
	if plan.hit(kind) {
		if plan.exit && !plan.after {
			os.Exit(3)
		}
		if !plan.exit {
			return errInjected
		}
	}
	return nil
}

func (v *vConn) crashAfter() {
	if v.rw && plan.exit && plan.after {
		plan.mu.Lock()
		f := plan.fired
		plan.mu.Unlock()
		if f {
			os.Exit(3)
		}
	}
}

func (v *vConn) Prepare(q string) (driver.Stmt, error) { return v.c.Prepare(q) }
func (v *vConn) PrepareContext(ctx context.Context, q string) (driver.Stmt, error) {
	return v.c.PrepareContext(ctx, q)
}
func (v *vConn) Close() error                 { return v.c.Close() }
func (v *vConn) Begin() (driver.Tx, error)    { return v.BeginTx(context.Background(), driver.TxOptions{}) }
func (v *vConn) Ping(ctx context.Context) error { return v.c.Ping(ctx) }
func (v *vConn) BeginTx(ctx context.Context, o driver.TxOptions) (driver.Tx, error) {
	if err := v.fault("begin"); err != nil {
		return nil, err
	}
	tx, err := v.c.BeginTx(ctx, o)
	if err != nil {
		return nil, err
	}
	v.crashAfter()
	return &vTx{tx: tx, v: v}, nil
}
func (v *vConn) ExecContext(ctx context.Context, q string, a []driver.NamedValue) (driver.Result, error) {
	if err := v.fault("exec"); err != nil {
		return nil, err
	}
	r, err := v.c.ExecContext(ctx, q, a)
	v.crashAfter()
	return r, err
}
func (v *vConn) QueryContext(ctx context.Context, q string, a []driver.NamedValue) (driver.Rows, error) {
	if err := v.fault("query"); err != nil {
		return nil, err
	}
	r, err := v.c.QueryContext(ctx, q, a)
	v.crashAfter()
	return r, err
}

type vTx struct {
	tx driver.Tx
	v  *vConn
}

func (t *vTx) Commit() error {
	if err := t.v.fault("commit"); err != nil {
		// the commit never reached SQLite: the transaction is still open, roll it back as
		// database/sql would after a failed commit on a broken connection
		_ = t.tx.Rollback()
		return err
	}
	err := t.tx.Commit()
	t.v.crashAfter()
	return err
}
func (t *vTx) Rollback() error { return t.tx.Rollback() }

var registerOnce sync.Once

func registerVerifSQL() {
	registerOnce.Do(func() { sql.Register("verifsql", &vDriver{base: &sqlite3.SQLiteDriver{}}) })
}

func openFaultDB(path string) *redka.DB {
	registerVerifSQL()
	db, err := redka.Open(path, &redka.Options{DriverName: "verifsql"})
	if err != nil {
		fmt.Fprintln(os.Stderr, "open:", err)
		os.Exit(2)
	}
	return db
}

// ----------------------------------------------------------------------------
// fault mode: every operation of a random trace is first attempted with a storage fault at RW
// call k (k drawn from 1..6); when the fault fired, a FAULT line reports result and tables, then
// the same operation runs again without fault as an ordinary step line. Interleaved: user
// transactions (bodies of 1..4 operations) aborted after a prefix by returned error, panic, or a
// cancelled context.
//
//   FAULT <seq> <now> | <pre-dump> | <what> | <result> | <post-dump>
func faultMain() {
	seed := flag.Int64("seed", 1, "PRNG seed")
	traces := flag.Int("traces", 10, "traces")
	length := flag.Int("len", 60, "operations per trace")
	fams := flag.String("families", "str,key,list,set,hash,zset,expire", "families")
	cancelEvery := flag.Int("cancel", 0, "every n-th trace uses context cancellation in user transactions (0 = never)")
	flag.Parse()
	out = bufio.NewWriterSize(os.Stdout, 1<<20)
	defer out.Flush()
	rnd := rand.New(rand.NewSource(*seed))
	for t := 0; t < *traces; t++ {
		dbN++
		db := openFaultDB(fmt.Sprintf("file:/vf_%d_%d.db?vfs=memdb", os.Getpid(), dbN))
		withCancel := *cancelEvery > 0 && t%*cancelEvery == *cancelEvery-1
		fmt.Fprintf(out, "# trace %d db fault cancel=%v\n", t, withCancel)
		g := &gen{rnd: rnd, hostile: 0.05, families: strings.Split(*fams, ","), dbLevel: true}
		if t == 0 {
			// one operation on far more names than any batching constant: it must still be all-or-nothing
			// (a fault before its 2nd / 3rd storage call, should it make that many)
			var names []string
			for i := 0; i < 1100; i++ {
				names = append(names, fmt.Sprintf("b%04d", i))
				db.Str().Set(names[i], "v")
			}
			faultStep(db, opKeyDelete(names), 2)
			faultStep(db, opKeyDelete(names), 3)
			runStep(db, "db", opKeyDelete(names))
		}
		for i := 0; i < *length; i++ {
			switch r := rnd.Intn(10); {
			case r < 6:
				st := g.next()
				faultStep(db, st, 1+rnd.Intn(6))
				runStep(db, "db", st)
			case r < 9:
				userTx(db, g, rnd, withCancel)
			default:
				runStep(db, "db", g.next())
			}
		}
		db.Close()
	}
}

func faultStep(db *redka.DB, st step, k int) {
	waitFreshMs()
	pre, err := takeDump(db.RW)
	if err != nil {
		fmt.Fprintln(os.Stderr, "fault: dump:", err)
		os.Exit(2)
	}
	e := &env{r: redis.RedkaDB(db), db: db}
	plan.arm(k)
	t0 := nowMs()
	var res string
	func() {
		defer func() {
			if r := recover(); r != nil {
				res = "PANIC"
			}
		}()
		res = st.run(e, ident)
	}()
	t1 := nowMs()
	fired, calls, kinds := plan.disarm()
	lastT1 = t1
	if !fired {
		// fewer than k calls: the operation simply ran; report it as an ordinary step
		post, _ := takeDump(db.RW)
		seq++
		tm := mkTm(t0, t1, st.ttl)
		text := st.text
		r := retime(res, tm)
		if strings.HasPrefix(r, "ORACLE ") {
			parts := strings.SplitN(r, " ", 3)
			text, r = text+" "+parts[1], parts[2]
		}
		fmt.Fprintf(out, "%d %d db | %s | %s | %s | %s\n", seq, t1, pre.render(ident), text, r, post.render(tm))
		return
	}
	post, err := takeDump(db.RW)
	if err != nil {
		fmt.Fprintln(os.Stderr, "fault: post-dump:", err)
		os.Exit(2)
	}
	seq++
	r := "ok"
	if strings.HasPrefix(res, "err") || strings.HasPrefix(res, "ORACLE - err") {
		r = "err"
	}
	if res == "PANIC" {
		r = "panic"
	}
	fmt.Fprintf(out, "FAULT %d %d | %s | op k=%d of=%d kind=%s %s | %s | %s\n", seq, t1, pre.render(ident),
		k, calls, kinds[len(kinds)-1], strings.SplitN(st.text, " ", 2)[0], r, post.render(ident))
}

var errAbort = errors.New("verif: user transaction aborted")

// userTx runs a caller-managed transaction whose body performs a prefix of 0..n operations and is
// then aborted (returned error / panic / cancelled context), or runs to completion with a commit
// failure injected.
func userTx(db *redka.DB, g *gen, rnd *rand.Rand, withCancel bool) {
	n := 1 + rnd.Intn(4)
	body := make([]step, n)
	for i := range body {
		body[i] = g.next()
		for strings.HasPrefix(body[i].text, "key.DeleteExpired") || strings.HasPrefix(body[i].text, "key.DeleteAll") {
			body[i] = g.next()
		}
	}
	cut := rnd.Intn(n + 1)
	kinds := []string{"error", "panic", "commitfail"}
	if withCancel {
		kinds = append(kinds, "cancel", "cancel")
	}
	kind := kinds[rnd.Intn(len(kinds))]
	waitFreshMs()
	pre, err := takeDump(db.RW)
	if err != nil {
		fmt.Fprintln(os.Stderr, "usertx: dump:", err)
		os.Exit(2)
	}
	ctx, cancel := context.WithCancel(context.Background())
	defer cancel()
	var terr error
	panicked := false
	if kind == "commitfail" {
		cut = n
	}
	func() {
		defer func() {
			if r := recover(); r != nil {
				panicked = true
			}
		}()
		if kind == "commitfail" {
			// the commit is the last RW call: count the calls of a dry arm far away first
			plan.arm(1 << 30)
		}
		terr = db.UpdateContext(ctx, func(tx *redka.Tx) error {
			e := &env{r: redis.RedkaTx(tx), db: db, inTx: true}
			for i := 0; i < cut; i++ {
				body[i].run(e, ident)
			}
			switch kind {
			case "error":
				return errAbort
			case "panic":
				panic("verif: callback panics")
			case "cancel":
				cancel()
				// a careless callback keeps going after the cancellation and reports success
				for i := cut; i < n; i++ {
					body[i].run(e, ident)
				}
				return nil
			case "commitfail":
				_, calls, _ := plan.disarm()
				plan.arm(1) // next RW call is the commit
				_ = calls
			}
			return nil
		})
		plan.disarm()
	}()
	t1 := nowMs()
	lastT1 = t1
	post, err := takeDump(db.RW)
	if err != nil {
		// after a cancellation the pool replaces the connection; the dump itself must still work
		fmt.Fprintln(os.Stderr, "usertx: post-dump:", err)
		os.Exit(2)
	}
	r := "ok"
	if terr != nil {
		r = "err"
	}
	if panicked {
		r = "panic"
	}
	seq++
	fmt.Fprintf(out, "FAULT %d %d | %s | usertx kind=%s n=%d cut=%d | %s | %s\n", seq, t1, pre.render(ident), kind, n, cut, r, post.render(ident))
}
