//go:build verif

package main

// Request generators of the wire mode. Everything derives from the one PRNG given to newWireGen.
//
//   valid      grammar-driven vectors for every command name of command.Parse: option subsets in
//              random order, keyword case variants, boundary numbers, values that spell keywords,
//              over the small universes of gen.go (keys shared across types so type errors occur)
//   malformed  a valid vector damaged in one way: wrong arity, junk where a number is expected,
//              doubled or value-less options, unknown command names, empty and binary arguments,
//              negative numkeys (D11)
//   multi      sequences over {MULTI, EXEC, DISCARD, succeeding write, write failing at run time,
//              unparsable, read, unknown, FLUSHDB, any valid command} on one or two connections
//
// Expiry arguments are kept unambiguous at millisecond resolution: relative ones are <= 0 or at
// least one hour (and whole seconds), absolute ones are in 1970 or in 2100.

import (
	"math"
	"math/rand"
	"strconv"
	"strings"
)

type wGen struct {
	rnd     *rand.Rand
	stream  string
	n       int
	twoConn bool
	setup   [][]string
	// enumerating streams
	enum    [][]string // requests of this trace (pool, multiseq)
	enumCi  []int      // their connections
}

var wSetup = [][]string{{"SET", "k1", "7"}, {"RPUSH", "k2", "a"}, {"SADD", "k3", "a", "b"}}

func newWireGen(rnd *rand.Rand, stream string) *wGen {
	g := &wGen{rnd: rnd, stream: stream}
	if stream == "multi" {
		g.twoConn = rnd.Intn(2) == 0
		g.setup = wSetup
	}
	return g
}

// ---- enumerating streams (deterministic, sharded by -seed) ----

// wPool is the hostile token pool of the `pool` stream: every command name x every vector of
// length 0..2 over the pool and of length 3 over its first wPool3 tokens.
var wPool = []string{"k1", "k2", "k3", "a", "0", "1", "-1", "2", "", "x", "inf", "withscores", "match", "count",
	"limit", "nx", "ex", "9223372036854775808", "-9223372036854775808", "\xff"}

const wPool3 = 8

func wPoolNames() []string {
	var names []string
	for _, c := range wCmds {
		names = append(names, c.name)
	}
	return append(names, "PEXPIRE2", "MULTI", "EXEC", "DISCARD", "")
}

func wPoolBlock() int {
	n := len(wPool)
	return 1 + n + n*n + wPool3*wPool3*wPool3
}

// wPoolTotal is the number of requests of the pool stream.
func wPoolTotal() int { return len(wPoolNames()) * wPoolBlock() }

// wPoolAt decodes the i-th request of the pool stream.
func wPoolAt(i int) []string {
	names := wPoolNames()
	b := wPoolBlock()
	name, j := names[i/b], i%b
	n := len(wPool)
	switch {
	case j == 0:
		return []string{name}
	case j < 1+n:
		return []string{name, wPool[j-1]}
	case j < 1+n+n*n:
		j -= 1 + n
		return []string{name, wPool[j/n], wPool[j%n]}
	}
	j -= 1 + n + n*n
	return []string{name, wPool[j/(wPool3*wPool3)], wPool[j/wPool3%wPool3], wPool[j%wPool3]}
}

var wSeqSyms = [][]string{
	{"MULTI"}, {"EXEC"}, {"DISCARD"},
	{"INCR", "k1"},  // succeeding write
	{"INCR", "k2"},  // write that fails at run time (k2 is a list)
	{"SET", "k1"},   // unparsable
	{"GET", "k1"},   // read
}

// wSeqAt decodes the i-th sequence of length L over the 7 symbols, on `conns` connections
// (with 2 connections every symbol also carries its connection: 14 letters).
func wSeqAt(i, L, conns int) ([][]string, []int) {
	base := len(wSeqSyms) * conns
	var reqs [][]string
	var cis []int
	for k := 0; k < L; k++ {
		d := i % base
		i /= base
		reqs = append(reqs, wSeqSyms[d%len(wSeqSyms)])
		cis = append(cis, d/len(wSeqSyms))
	}
	return reqs, cis
}

func wSeqTotal(L, conns int) int {
	t := 1
	for k := 0; k < L; k++ {
		t *= len(wSeqSyms) * conns
	}
	return t
}

var wKeywords = []string{"nx", "xx", "get", "ex", "px", "exat", "pxat", "keepttl", "match", "count", "type",
	"limit", "withscores", "withscore", "byscore", "rev", "aggregate", "sum", "min", "max", "before", "after",
	"NX", "WITHSCORES", "LIMIT"}

func (g *wGen) pick(xs []string) string { return xs[g.rnd.Intn(len(xs))] }
func (g *wGen) p(pct int) bool          { return g.rnd.Intn(100) < pct }

func (g *wGen) key() string {
	switch {
	case g.p(5):
		return g.pick(wKeywords)
	case g.p(4):
		return g.pick(hostKeys)
	}
	return g.pick(keyPool)
}
func (g *wGen) elem() string {
	switch {
	case g.p(6):
		return g.pick(wKeywords)
	case g.p(5):
		return g.pick(hostElems)
	}
	return g.pick(elemPool)
}
func (g *wGen) field() string {
	switch {
	case g.p(5):
		return g.pick(wKeywords)
	case g.p(4):
		return g.pick(hostElems)
	}
	return g.pick(fieldPool)
}
func (g *wGen) val() string {
	if g.p(6) {
		return g.pick(wKeywords)
	}
	return g.pick(strVals)
}
func (g *wGen) pat() string { return g.pick(patPool) }

var wInts = []string{"0", "1", "-1", "2", "-2", "3", "5", "-5", "8", "-8", "10", "+3", "007", "-0",
	"9223372036854775807", "-9223372036854775808", "4611686018427387904"}

func (g *wGen) idx() string {
	if g.p(80) {
		return strconv.Itoa(g.rnd.Intn(13) - 6)
	}
	return g.pick(wInts)
}
func (g *wGen) count() string { return g.pick([]string{"0", "1", "2", "3", "10", "-1", "100"}) }
func (g *wGen) cursor() string { return g.pick([]string{"0", "0", "0", "1", "2", "5", "-1", "100"}) }

var wFloats = []string{"0", "1", "-1", "0.5", "2.25", "1024", "-0.5", "+inf", "-inf", "inf", "Infinity", "-INF",
	"1.50", "3", "2", "-2", "007", "+1", "0.25", "100.125"}
var wFloatsOOD = []string{"1e2", "0.1", ".5", "5.", "nan", "-0", "0x10", "1_0", "3.3", "1E-2", "0.30000000000000004", "1e22",
	"1e23", "4.35", "1e", "1e+", ".e1", "1.7976931348623157e308", "9007199254740993", "1e400", "1e-400", "-1.5e-7", "2.675",
	"12345678901234567890", "+.5e1", "1.e2"}

func (g *wGen) float() string {
	if g.p(6) {
		return g.pick(wFloatsOOD)
	}
	if g.p(12) {
		// a random float64 (moderate exponents) printed in a random style and precision
		f := (g.rnd.Float64()*2 - 1) * math.Pow(10, float64(g.rnd.Intn(40)-20))
		switch g.rnd.Intn(4) {
		case 0:
			return strconv.FormatFloat(f, 'e', g.rnd.Intn(18), 64)
		case 1:
			return strconv.FormatFloat(f, 'g', -1, 64)
		case 2:
			return strconv.FormatFloat(f, 'f', g.rnd.Intn(22), 64)
		default:
			return strconv.FormatFloat(f, 'f', -1, 64)
		}
	}
	if g.p(25) {
		// a random dyadic rational m / 2^j written out exactly, sometimes with padding
		m := int64(g.rnd.Intn(1 << uint(1+g.rnd.Intn(30))))
		if g.p(10) {
			m = m<<20 + int64(g.rnd.Intn(1<<20)) // up to 50 bits
		}
		j := uint(g.rnd.Intn(12))
		f := float64(m) / float64(int64(1)<<j)
		if g.p(40) {
			f = -f
		}
		t := strconv.FormatFloat(f, 'f', -1, 64)
		switch g.rnd.Intn(8) {
		case 0:
			if f >= 0 {
				t = "+" + t
			}
		case 1:
			if strings.Contains(t, ".") {
				t += "00"
			}
		case 2:
			if f >= 0 {
				t = "00" + t
			}
		}
		return t
	}
	return g.pick(wFloats)
}
func (g *wGen) rank() string {
	if g.p(85) {
		return strconv.Itoa(g.rnd.Intn(9) - 4)
	}
	return g.pick([]string{"1.5", "-1.5", "0.5", "1024", "inf", "-inf"})
}

// relative expiries: 0, negative, or >= 1 hour in whole seconds
func (g *wGen) ttlSec() string {
	switch g.rnd.Intn(6) {
	case 0:
		return "0"
	case 1:
		return "-5"
	case 2:
		return g.pick([]string{"9223372036854775807", "9223372036854776", "-9223372036854775808", "2305843009213693952"})
	}
	return strconv.Itoa(3600 + g.rnd.Intn(1000))
}
func (g *wGen) ttlMs() string {
	switch g.rnd.Intn(6) {
	case 0:
		return "0"
	case 1:
		return "-5000"
	case 2:
		return g.pick([]string{"9223372036854775807", "9223372036855", "-9223372036854775808"})
	}
	return strconv.Itoa(3600000 + 1000*g.rnd.Intn(1000))
}
func (g *wGen) atSec() string {
	switch g.rnd.Intn(5) {
	case 0:
		return strconv.Itoa(1 + g.rnd.Intn(1000))
	case 1:
		return g.pick([]string{"0", "-1", "9223372036854775807", "9223372036854776"})
	}
	return strconv.FormatInt(farFuture/1000+int64(g.rnd.Intn(1000)), 10)
}
func (g *wGen) atMs() string {
	switch g.rnd.Intn(5) {
	case 0:
		return strconv.Itoa(1000 + g.rnd.Intn(1000))
	case 1:
		return g.pick([]string{"0", "-1", "9223372036854775807", "9223372036855"})
	}
	return strconv.FormatInt(farFuture+int64(g.rnd.Intn(1000)), 10)
}

// kw spells an option keyword in a random letter case.
func (g *wGen) kw(s string) string {
	if g.p(2) {
		// the two non-ASCII code points that strings.EqualFold folds onto ASCII letters
		if strings.ContainsAny(s, "ks") {
			return strings.NewReplacer("k", "\u212a", "s", "\u017f").Replace(s)
		}
	}
	switch g.rnd.Intn(5) {
	case 0:
		return s
	case 1, 2:
		return strings.ToUpper(s)
	case 3:
		return strings.ToUpper(s[:1]) + s[1:]
	}
	b := []byte(s)
	for i := range b {
		if g.rnd.Intn(2) == 0 && b[i] >= 'a' && b[i] <= 'z' {
			b[i] -= 32
		}
	}
	return string(b)
}

// name spells a command name in a random letter case.
func (g *wGen) name(s string) string {
	switch g.rnd.Intn(4) {
	case 0:
		return strings.ToLower(s)
	case 1:
		return strings.ToUpper(s[:1]) + strings.ToLower(s[1:])
	}
	return s
}

func (g *wGen) many(min, max int, f func() string) []string {
	n := min + g.rnd.Intn(max-min+1)
	out := make([]string, n)
	for i := range out {
		out[i] = f()
	}
	return out
}

// opts appends a random subset of the option groups in a random order.
func (g *wGen) opts(v []string, groups ...[]string) []string {
	g.rnd.Shuffle(len(groups), func(i, j int) { groups[i], groups[j] = groups[j], groups[i] })
	for _, o := range groups {
		if g.rnd.Intn(2) == 0 {
			v = append(v, o...)
		}
	}
	return v
}

func cat(a []string, b ...string) []string { return append(a, b...) }

type wCmd struct {
	name   string
	weight int
	gen    func(g *wGen) []string
}

func (g *wGen) pairsKV(max int, k, v func() string) []string {
	n := 1 + g.rnd.Intn(max)
	var out []string
	for i := 0; i < n; i++ {
		out = append(out, k(), v())
	}
	return out
}

func (g *wGen) scanOpts(v []string, withType bool) []string {
	groups := [][]string{{g.kw("match"), g.pat()}, {g.kw("count"), g.count()}}
	if withType {
		t := g.pick([]string{"string", "list", "set", "hash", "zset", "STRING", "Set", "none"})
		groups = append(groups, []string{g.kw("type"), t})
	}
	return g.opts(v, groups...)
}

func (g *wGen) numkeys() []string {
	n := g.rnd.Intn(4)
	keys := g.many(n, n, g.key)
	decl := n
	switch g.rnd.Intn(12) {
	case 0:
		decl = n + 1
	case 1:
		if n > 0 {
			decl = n - 1
		}
	}
	return append([]string{strconv.Itoa(decl)}, keys...)
}

func (g *wGen) aggOpt() []string {
	return []string{g.kw("aggregate"), g.pick([]string{"sum", "min", "max", "sum", "min", "max", "SUM", "Max", "avg"})}
}

func (g *wGen) limitOpt() []string {
	return []string{g.kw("limit"), g.pick([]string{"0", "1", "2", "-1"}), g.pick([]string{"0", "1", "2", "10", "-1"})}
}

var wCmds = []wCmd{
	// server
	{"COMMAND", 1, func(g *wGen) []string { return g.many(0, 2, g.val) }},
	{"INFO", 1, func(g *wGen) []string { return g.many(0, 1, g.val) }},
	{"CONFIG", 1, func(g *wGen) []string {
		return cat([]string{g.pick([]string{"get", "get", "GET", "set", "Get"})}, g.many(0, 2, g.val)...)
	}},
	{"DBSIZE", 2, func(g *wGen) []string { return nil }},
	{"FLUSHDB", 1, func(g *wGen) []string { return nil }},
	{"FLUSHALL", 1, func(g *wGen) []string { return nil }},
	{"LOLWUT", 1, func(g *wGen) []string { return g.many(0, 2, g.val) }},
	// connection
	{"ECHO", 1, func(g *wGen) []string { return g.many(1, 3, g.val) }},
	{"PING", 1, func(g *wGen) []string { return g.many(0, 1, g.val) }},
	{"SELECT", 1, func(g *wGen) []string { return []string{g.idx()} }},
	// key
	{"DEL", 3, func(g *wGen) []string { return g.many(1, 3, g.key) }},
	{"EXISTS", 2, func(g *wGen) []string { return g.many(1, 3, g.key) }},
	{"EXPIRE", 2, func(g *wGen) []string { return []string{g.key(), g.ttlSec()} }},
	{"PEXPIRE", 2, func(g *wGen) []string { return []string{g.key(), g.ttlMs()} }},
	{"EXPIREAT", 2, func(g *wGen) []string { return []string{g.key(), g.atSec()} }},
	{"PEXPIREAT", 2, func(g *wGen) []string { return []string{g.key(), g.atMs()} }},
	{"KEYS", 2, func(g *wGen) []string { return []string{g.pat()} }},
	{"PERSIST", 2, func(g *wGen) []string { return []string{g.key()} }},
	{"RANDOMKEY", 2, func(g *wGen) []string { return nil }},
	{"RENAME", 2, func(g *wGen) []string { return []string{g.key(), g.key()} }},
	{"RENAMENX", 2, func(g *wGen) []string { return []string{g.key(), g.key()} }},
	{"SCAN", 2, func(g *wGen) []string { return g.scanOpts([]string{g.cursor()}, true) }},
	{"TTL", 3, func(g *wGen) []string { return []string{g.key()} }},
	{"TYPE", 2, func(g *wGen) []string { return []string{g.key()} }},
	// list
	{"LINDEX", 2, func(g *wGen) []string { return []string{g.key(), g.idx()} }},
	{"LINSERT", 3, func(g *wGen) []string {
		return []string{g.key(), g.pick([]string{"before", "after", "before", "after", "BEFORE", "After"}), g.elem(), g.elem()}
	}},
	{"LLEN", 2, func(g *wGen) []string { return []string{g.key()} }},
	{"LPOP", 2, func(g *wGen) []string { return []string{g.key()} }},
	{"LPUSH", 4, func(g *wGen) []string { return []string{g.key(), g.elem()} }},
	{"LRANGE", 3, func(g *wGen) []string { return []string{g.key(), g.idx(), g.idx()} }},
	{"LREM", 2, func(g *wGen) []string { return []string{g.key(), g.idx(), g.elem()} }},
	{"LSET", 2, func(g *wGen) []string { return []string{g.key(), g.idx(), g.elem()} }},
	{"LTRIM", 2, func(g *wGen) []string { return []string{g.key(), g.idx(), g.idx()} }},
	{"RPOP", 2, func(g *wGen) []string { return []string{g.key()} }},
	{"RPOPLPUSH", 2, func(g *wGen) []string { return []string{g.key(), g.key()} }},
	{"RPUSH", 5, func(g *wGen) []string { return []string{g.key(), g.elem()} }},
	// string
	{"DECR", 2, func(g *wGen) []string { return []string{g.key()} }},
	{"DECRBY", 2, func(g *wGen) []string { return []string{g.key(), g.pick(wInts)} }},
	{"GET", 3, func(g *wGen) []string { return []string{g.key()} }},
	{"GETSET", 2, func(g *wGen) []string { return []string{g.key(), g.val()} }},
	{"INCR", 2, func(g *wGen) []string { return []string{g.key()} }},
	{"INCRBY", 2, func(g *wGen) []string { return []string{g.key(), g.pick(wInts)} }},
	{"INCRBYFLOAT", 1, func(g *wGen) []string { return []string{g.key(), g.float()} }},
	{"MGET", 2, func(g *wGen) []string { return g.many(1, 4, g.key) }},
	{"MSET", 3, func(g *wGen) []string { return g.pairsKV(3, g.key, g.val) }},
	{"PSETEX", 2, func(g *wGen) []string { return []string{g.key(), g.ttlMs(), g.val()} }},
	{"SET", 8, func(g *wGen) []string {
		v := []string{g.key(), g.val()}
		var exp []string
		switch g.rnd.Intn(5) {
		case 0:
			exp = []string{g.kw("ex"), g.ttlSec()}
		case 1:
			exp = []string{g.kw("px"), g.ttlMs()}
		case 2:
			exp = []string{g.kw("exat"), g.atSec()}
		case 3:
			exp = []string{g.kw("pxat"), g.atMs()}
		case 4:
			exp = []string{g.kw("keepttl")}
		}
		cond := []string{g.kw(g.pick([]string{"nx", "xx"}))}
		return g.opts(v, exp, cond, []string{g.kw("get")})
	}},
	{"SETEX", 2, func(g *wGen) []string { return []string{g.key(), g.ttlSec(), g.val()} }},
	{"SETNX", 2, func(g *wGen) []string { return []string{g.key(), g.val()} }},
	{"STRLEN", 2, func(g *wGen) []string { return []string{g.key()} }},
	// hash
	{"HDEL", 2, func(g *wGen) []string { return cat([]string{g.key()}, g.many(1, 3, g.field)...) }},
	{"HEXISTS", 2, func(g *wGen) []string { return []string{g.key(), g.field()} }},
	{"HGET", 2, func(g *wGen) []string { return []string{g.key(), g.field()} }},
	{"HGETALL", 3, func(g *wGen) []string { return []string{g.key()} }},
	{"HINCRBY", 2, func(g *wGen) []string { return []string{g.key(), g.field(), g.pick(wInts)} }},
	{"HINCRBYFLOAT", 1, func(g *wGen) []string { return []string{g.key(), g.field(), g.float()} }},
	{"HKEYS", 2, func(g *wGen) []string { return []string{g.key()} }},
	{"HLEN", 2, func(g *wGen) []string { return []string{g.key()} }},
	{"HMGET", 2, func(g *wGen) []string { return cat([]string{g.key()}, g.many(1, 4, g.field)...) }},
	{"HMSET", 2, func(g *wGen) []string { return cat([]string{g.key()}, g.pairsKV(3, g.field, g.val)...) }},
	{"HSCAN", 2, func(g *wGen) []string { return g.scanOpts([]string{g.key(), g.cursor()}, false) }},
	{"HSET", 5, func(g *wGen) []string { return cat([]string{g.key()}, g.pairsKV(3, g.field, g.val)...) }},
	{"HSETNX", 2, func(g *wGen) []string { return []string{g.key(), g.field(), g.val()} }},
	{"HVALS", 2, func(g *wGen) []string { return []string{g.key()} }},
	// set
	{"SADD", 5, func(g *wGen) []string { return cat([]string{g.key()}, g.many(1, 3, g.elem)...) }},
	{"SCARD", 2, func(g *wGen) []string { return []string{g.key()} }},
	{"SDIFF", 2, func(g *wGen) []string { return g.many(1, 3, g.key) }},
	{"SDIFFSTORE", 2, func(g *wGen) []string { return cat([]string{g.key()}, g.many(1, 3, g.key)...) }},
	{"SINTER", 2, func(g *wGen) []string { return g.many(1, 3, g.key) }},
	{"SINTERSTORE", 2, func(g *wGen) []string { return cat([]string{g.key()}, g.many(1, 3, g.key)...) }},
	{"SISMEMBER", 2, func(g *wGen) []string { return []string{g.key(), g.elem()} }},
	{"SMEMBERS", 3, func(g *wGen) []string { return []string{g.key()} }},
	{"SMOVE", 2, func(g *wGen) []string { return []string{g.key(), g.key(), g.elem()} }},
	{"SPOP", 2, func(g *wGen) []string { return []string{g.key()} }},
	{"SRANDMEMBER", 2, func(g *wGen) []string { return []string{g.key()} }},
	{"SREM", 2, func(g *wGen) []string { return cat([]string{g.key()}, g.many(1, 3, g.elem)...) }},
	{"SSCAN", 2, func(g *wGen) []string { return g.scanOpts([]string{g.key(), g.cursor()}, false) }},
	{"SUNION", 2, func(g *wGen) []string { return g.many(1, 3, g.key) }},
	{"SUNIONSTORE", 2, func(g *wGen) []string { return cat([]string{g.key()}, g.many(1, 3, g.key)...) }},
	// sorted set
	{"ZADD", 6, func(g *wGen) []string { return cat([]string{g.key()}, g.pairsKV(3, g.float, g.elem)...) }},
	{"ZCARD", 2, func(g *wGen) []string { return []string{g.key()} }},
	{"ZCOUNT", 2, func(g *wGen) []string { return []string{g.key(), g.float(), g.float()} }},
	{"ZINCRBY", 3, func(g *wGen) []string { return []string{g.key(), g.float(), g.elem()} }},
	{"ZINTER", 3, func(g *wGen) []string { return g.opts(g.numkeys(), g.aggOpt(), []string{g.kw("withscores")}) }},
	{"ZINTERSTORE", 2, func(g *wGen) []string { return g.opts(cat([]string{g.key()}, g.numkeys()...), g.aggOpt()) }},
	{"ZRANGE", 4, func(g *wGen) []string {
		if g.p(50) {
			return g.opts([]string{g.key(), g.rank(), g.rank()}, []string{g.kw("rev")}, []string{g.kw("withscores")}, g.limitOpt())
		}
		return g.opts([]string{g.key(), g.float(), g.float(), g.kw("byscore")}, []string{g.kw("rev")}, []string{g.kw("withscores")}, g.limitOpt())
	}},
	{"ZRANGEBYSCORE", 3, func(g *wGen) []string {
		return g.opts([]string{g.key(), g.float(), g.float()}, []string{g.kw("withscores")}, g.limitOpt())
	}},
	{"ZRANK", 2, func(g *wGen) []string { return g.opts([]string{g.key(), g.elem()}, []string{g.kw("withscore")}) }},
	{"ZREM", 2, func(g *wGen) []string { return cat([]string{g.key()}, g.many(1, 3, g.elem)...) }},
	{"ZREMRANGEBYRANK", 2, func(g *wGen) []string { return []string{g.key(), g.idx(), g.idx()} }},
	{"ZREMRANGEBYSCORE", 2, func(g *wGen) []string { return []string{g.key(), g.float(), g.float()} }},
	{"ZREVRANGE", 2, func(g *wGen) []string {
		return g.opts([]string{g.key(), g.idx(), g.idx()}, []string{g.kw("withscores")})
	}},
	{"ZREVRANGEBYSCORE", 2, func(g *wGen) []string {
		return g.opts([]string{g.key(), g.float(), g.float()}, []string{g.kw("withscores")}, g.limitOpt())
	}},
	{"ZREVRANK", 2, func(g *wGen) []string { return g.opts([]string{g.key(), g.elem()}, []string{g.kw("withscore")}) }},
	{"ZSCAN", 2, func(g *wGen) []string { return g.scanOpts([]string{g.key(), g.cursor()}, false) }},
	{"ZSCORE", 2, func(g *wGen) []string { return []string{g.key(), g.elem()} }},
	{"ZUNION", 3, func(g *wGen) []string { return g.opts(g.numkeys(), g.aggOpt(), []string{g.kw("withscores")}) }},
	{"ZUNIONSTORE", 2, func(g *wGen) []string { return g.opts(cat([]string{g.key()}, g.numkeys()...), g.aggOpt()) }},
}

var wTotalWeight = func() int {
	t := 0
	for _, c := range wCmds {
		t += c.weight
	}
	return t
}()

// valid draws one well-formed request (name included).
func (g *wGen) valid() []string {
	r := g.rnd.Intn(wTotalWeight)
	for _, c := range wCmds {
		if r < c.weight {
			return cat([]string{g.name(c.name)}, c.gen(g)...)
		}
		r -= c.weight
	}
	return []string{"PING"}
}

var wJunk = []string{"", "abc", "1.5", "9223372036854775808", "-9223372036854775809", "-1", "0", "\x00\xff", "nan",
	"inf", "1e3", "0x10", " 1", "1 ", "+", "-", "--1", "1-", "١", "\r\n", "K", "match", "count", "limit",
	"withscores", "ex", "nx", "get", "sum", "before", "99999999999999999999999999", "-inf", "3600", "k1", "a"}

var wUnknown = []string{"FOO", "GETT", "", "multi2", "\xff\xfe", "SET\n", "get ", "hello world", "EXECUTE", "quit",
	"SUBSCRIBE", "KEYS", "ÉCHO", "0", "*"}

// malformed damages a valid request in one way.
func (g *wGen) malformed() []string {
	v := g.valid()
	switch g.rnd.Intn(12) {
	case 0, 1: // truncate
		return v[:1+g.rnd.Intn(len(v))]
	case 2: // name only
		return v[:1]
	case 3, 4: // extra arguments
		return cat(v, g.many(1, 2, func() string { return g.pick(wJunk) })...)
	case 5, 6, 7: // junk in a random position
		if len(v) > 1 {
			v[1+g.rnd.Intn(len(v)-1)] = g.pick(wJunk)
		}
		return v
	case 8: // unknown command
		if g.rnd.Intn(2) == 0 && len(v[0]) > 1 {
			// a name that is ALMOST the one the arguments belong to: a supported name with a suffix, or cut short
			// (a dispatch that looks at a prefix, a bounded buffer or a hash of the name confuses them)
			switch g.rnd.Intn(4) {
			case 0:
				v[0] = v[0] + g.pick([]string{"X", "2", ".v2", "_", " "})
			case 1:
				v[0] = v[0][:len(v[0])-1]
			case 2:
				v[0] = v[0] + v[0]
			default:
				v[0] = "X" + v[0]
			}
			return v
		}
		v[0] = g.pick(wUnknown)
		return v
	case 9: // negative numkeys (D11)
		neg := g.pick([]string{"-1", "-2", "-9223372036854775808"})
		switch g.rnd.Intn(4) {
		case 0:
			return g.opts(cat([]string{"ZINTER", neg}, g.many(0, 3, g.key)...), []string{g.kw("withscores")})
		case 1:
			return g.opts(cat([]string{"ZUNION", neg}, g.many(0, 3, g.key)...), g.aggOpt())
		case 2:
			return cat([]string{"ZINTERSTORE", g.key(), neg}, g.many(0, 3, g.key)...)
		}
		return cat([]string{"ZUNIONSTORE", g.key(), neg}, g.many(0, 3, g.key)...)
	case 10: // doubled / conflicting / value-less options
		return g.pick2([][]string{
			{"SET", g.key(), g.val(), "NX", "NX"},
			{"SET", g.key(), g.val(), "NX", "XX"},
			{"SET", g.key(), g.val(), "EX", "3600", "PX", "3600000"},
			{"SET", g.key(), g.val(), "EX", "3600", "KEEPTTL"},
			{"SET", g.key(), g.val(), "EX"},
			{"SET", g.key(), g.val(), "GET", "GET"},
			{"SET", g.key(), g.val(), "EX", "abc"},
			{"SET", g.key(), g.val(), "PX", "3600000", "EX"},
			{"ZRANGE", g.key(), "0", "-1", "LIMIT", "1"},
			{"ZRANGE", g.key(), "0", "-1", "LIMIT"},
			{"ZRANGE", g.key(), "0", "-1", "LIMIT", "0", "x"},
			{"ZRANGE", g.key(), "0", "-1", "WITHSCORES", "WITHSCORES"},
			{"ZRANGEBYSCORE", g.key(), "0", "5", "LIMIT", "0", "1", "LIMIT", "0", "1"},
			{"SCAN", "0", "MATCH"},
			{"SCAN", "0", "COUNT", "x"},
			{"SCAN", "0", "MATCH", "*", "MATCH", "k*"},
			{"SCAN", "0", "TYPE"},
			{"HSCAN", g.key(), "0", "COUNT"},
			{"ZINTER", "1", g.key(), "AGGREGATE"},
			{"ZINTER", "1", g.key(), "AGGREGATE", "sum", "AGGREGATE", "min"},
			{"ZUNION", "2", g.key()},
			{"ZADD", g.key(), "1"},
			{"ZADD", g.key(), "1", "a", "2"},
			{"ZADD", g.key(), "x", "a"},
			{"ZADD", g.key(), "1", "a", "y", "b"},
			{"HSET", g.key(), "f1"},
			{"HSET", g.key(), "f1", "v", "f2"},
			{"MSET", g.key()},
			{"MSET", g.key(), "v", g.key()},
			{"ZRANK", g.key(), "a", "WITHSCORE", "WITHSCORE"},
			{"LINSERT", g.key(), "BEFORE", "a", "b"},
			{"LINSERT", g.key(), "middle", "a", "b"},
			{"CONFIG"},
			{"CONFIG", "get"},
			{"CONFIG", "GET", "x"},
			{"CONFIG", "set", "a", "b"},
		})
	}
	// case 11: a valid request after all
	return v
}

func (g *wGen) pick2(xs [][]string) []string { return xs[g.rnd.Intn(len(xs))] }

// multi draws the next request of a transaction-centred trace and the connection it goes to.
func (g *wGen) multi() (int, []string) {
	ci := 0
	if g.twoConn && g.rnd.Intn(2) == 0 {
		ci = 1
	}
	r := g.rnd.Intn(100)
	switch {
	case r < 14:
		return ci, []string{g.name("MULTI")}
	case r < 30:
		return ci, []string{g.name("EXEC")}
	case r < 35:
		return ci, []string{g.name("DISCARD")}
	case r < 55: // succeeding writes
		return ci, g.pick2([][]string{
			{"SET", "k1", strconv.Itoa(g.rnd.Intn(10))},
			{"INCR", "k1"},
			{"RPUSH", "k2", g.pick(elemPool)},
			{"LPOP", "k2"},
			{"SADD", "k3", g.pick(elemPool)},
			{"SPOP", "k3"},
			{"HSET", "h", g.pick(fieldPool), g.pick(strVals)},
			{"ZADD", "z", g.pick(wFloats), g.pick(elemPool)},
			{"DEL", g.pick(keyPool)},
			{"MSET", "m1", "1", "m2", "2"},
			{"EXPIRE", "k1", "3600"},
			{"LINSERT", "k2", "before", "zz", "y"}, // D04: missing pivot, not a failure
			{"RENAME", "k1", "k1"},
		})
	case r < 65: // writes that fail at run time
		return ci, g.pick2([][]string{
			{"INCR", "k2"},
			{"LPUSH", "k1", "x"},
			{"HSET", "k2", "f", "v"},
			{"LSET", "k2", "99", "x"},
			{"INCRBY", "k3", "5"},
			{"SADD", "k1", "a"},
			{"RENAME", "nosuch", "k9"},
			{"ZADD", "k3", "1", "a"},
		})
	case r < 73: // unparsable
		return ci, g.pick2([][]string{
			{"SET", "k1"},
			{"INCRBY", "k1", "abc"},
			{"LINSERT", "k2", "BEFORE", "a", "b"},
			{"ZINTER", "-1", "k1"},
			{"GET"},
			{"ZADD", "z", "x", "a"},
			{"MULTI", "x"},
		})
	case r < 86: // reads
		return ci, g.pick2([][]string{
			{"GET", "k1"},
			{"LRANGE", "k2", "0", "-1"},
			{"SMEMBERS", "k3"},
			{"DBSIZE"},
			{"TTL", "k1"},
			{"SRANDMEMBER", "k3"},
			{"RANDOMKEY"},
			{"HGETALL", "h"},
			{"ZRANGE", "z", "0", "-1", "WITHSCORES"},
			{"EXISTS", "k1", "k2", "k3"},
			{"PING"},
		})
	case r < 89:
		return ci, []string{g.pick([]string{"FOO", "exec2", "WATCH", "UNWATCH"}), "x"}
	case r < 91:
		return ci, []string{"FLUSHDB"}
	}
	return ci, g.valid()
}

// next returns the connection index and the next request; requests whose relative expiry would
// be positive but short (ambiguous against the wall clock) are redrawn.
func (g *wGen) next() (int, [][]byte) {
	for {
		ci, v := 0, []string(nil)
		g.n++
		switch {
		case g.n <= len(g.setup):
			v = g.setup[g.n-1]
		case g.enum != nil:
			k := g.n - len(g.setup) - 1
			v, ci = g.enum[k], g.enumCi[k]
		case g.stream == "valid":
			v = g.valid()
		case g.stream == "malformed":
			v = g.malformed()
		default:
			ci, v = g.multi()
		}
		req := make([][]byte, len(v))
		for i, s := range v {
			req[i] = []byte(s)
		}
		ok := true
		for _, ttl := range wireTTLs(req) {
			if ttl > 0 && ttl < 3600000 {
				ok = false
			}
		}
		if ok {
			return ci, req
		}
	}
}
