//go:build verif

package main

import (
	"database/sql"
	"encoding/hex"
	"fmt"
	"math"
	"strings"
)

// querier is satisfied by *sql.DB, *sql.Tx and sqlx.Tx.
type querier interface {
	Query(query string, args ...any) (*sql.Rows, error)
	QueryRow(query string, args ...any) *sql.Row
}

type keyRow struct {
	id      int64
	key     []byte
	ty      int64
	version int64
	etime   *int64
	mtime   int64
	length  *int64
}

type dumpT struct {
	keys   []keyRow
	strs   []string // pre-rendered child rows (no timestamps inside)
	lists  []string
	sets   []string
	hashes []string
	zsets  []string
	fk     int
	nChild int
}

func hx(b []byte) string  { return "x" + hex.EncodeToString(b) }
func hxs(s string) string { return "x" + hex.EncodeToString([]byte(s)) }

// dy renders a finite float64 exactly as <m>p<e> (= m * 2^e), or inf / -inf / nan.
func dy(f float64) string {
	if math.IsInf(f, 1) {
		return "inf"
	}
	if math.IsInf(f, -1) {
		return "-inf"
	}
	if math.IsNaN(f) {
		return "nan"
	}
	if f == 0 {
		return "0p0"
	}
	fr, exp := math.Frexp(f)
	m := int64(fr * (1 << 53))
	e := exp - 53
	for m%2 == 0 {
		m /= 2
		e++
	}
	return fmt.Sprintf("%dp%d", m, e)
}

func optInt(p *int64) string {
	if p == nil {
		return "-"
	}
	return fmt.Sprint(*p)
}

func takeDump(q querier) (*dumpT, error) {
	d := &dumpT{}
	rows, err := q.Query("select id, key, type, version, etime, mtime, len from rkey order by id")
	if err != nil {
		return nil, err
	}
	for rows.Next() {
		var r keyRow
		var et, ln sql.NullInt64
		if err := rows.Scan(&r.id, &r.key, &r.ty, &r.version, &et, &r.mtime, &ln); err != nil {
			rows.Close()
			return nil, err
		}
		if et.Valid {
			v := et.Int64
			r.etime = &v
		}
		if ln.Valid {
			v := ln.Int64
			r.length = &v
		}
		d.keys = append(d.keys, r)
	}
	rows.Close()
	if err := rows.Err(); err != nil {
		return nil, err
	}

	child := func(query string, render func(*sql.Rows) (string, error)) ([]string, error) {
		rows, err := q.Query(query)
		if err != nil {
			return nil, err
		}
		defer rows.Close()
		var out []string
		for rows.Next() {
			s, err := render(rows)
			if err != nil {
				return nil, err
			}
			out = append(out, s)
		}
		return out, rows.Err()
	}
	if d.strs, err = child("select kid, value from rstring order by kid", func(r *sql.Rows) (string, error) {
		var kid int64
		var v []byte
		err := r.Scan(&kid, &v)
		return fmt.Sprintf("%d %s", kid, hx(v)), err
	}); err != nil {
		return nil, err
	}
	if d.lists, err = child("select kid, pos, elem from rlist order by kid, pos", func(r *sql.Rows) (string, error) {
		var kid int64
		var pos float64
		var v []byte
		err := r.Scan(&kid, &pos, &v)
		return fmt.Sprintf("%d %s %s", kid, dy(pos), hx(v)), err
	}); err != nil {
		return nil, err
	}
	if d.sets, err = child("select rowid, kid, elem from rset order by kid, elem", func(r *sql.Rows) (string, error) {
		var rid, kid int64
		var v []byte
		err := r.Scan(&rid, &kid, &v)
		return fmt.Sprintf("%d %d %s", rid, kid, hx(v)), err
	}); err != nil {
		return nil, err
	}
	if d.hashes, err = child("select rowid, kid, field, value from rhash order by kid, field", func(r *sql.Rows) (string, error) {
		var rid, kid int64
		var f, v []byte
		err := r.Scan(&rid, &kid, &f, &v)
		return fmt.Sprintf("%d %d %s %s", rid, kid, hx(f), hx(v)), err
	}); err != nil {
		return nil, err
	}
	if d.zsets, err = child("select rowid, kid, elem, score from rzset order by kid, elem", func(r *sql.Rows) (string, error) {
		var rid, kid int64
		var v []byte
		var sc float64
		err := r.Scan(&rid, &kid, &v, &sc)
		return fmt.Sprintf("%d %d %s %s", rid, kid, hx(v), dy(sc)), err
	}); err != nil {
		return nil, err
	}
	if err := q.QueryRow("pragma foreign_keys").Scan(&d.fk); err != nil {
		return nil, err
	}
	d.nChild = len(d.strs) + len(d.lists) + len(d.sets) + len(d.hashes) + len(d.zsets)
	return d, nil
}

// render prints the dump; tm rewrites timestamps (identity for pre-dumps).
func (d *dumpT) render(tm func(int64) int64) string {
	var b strings.Builder
	fmt.Fprintf(&b, "K %d", len(d.keys))
	for _, r := range d.keys {
		et := "-"
		if r.etime != nil {
			et = fmt.Sprint(tm(*r.etime))
		}
		fmt.Fprintf(&b, " %d %s %d %d %s %d %s", r.id, hx(r.key), r.ty, r.version, et, tm(r.mtime), optInt(r.length))
	}
	sect := func(tag string, rows []string) {
		fmt.Fprintf(&b, " %s %d", tag, len(rows))
		for _, r := range rows {
			b.WriteByte(' ')
			b.WriteString(r)
		}
	}
	sect("S", d.strs)
	sect("L", d.lists)
	sect("E", d.sets)
	sect("H", d.hashes)
	sect("Z", d.zsets)
	fmt.Fprintf(&b, " F %d", d.fk)
	return b.String()
}
