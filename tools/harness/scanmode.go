//go:build verif

package main

import (
	"bufio"
	"flag"
	"fmt"
	"math/rand"
	"os"
	"strings"

	"github.com/nalgeon/redka"
	"github.com/nalgeon/redka/internal/core"
	"github.com/nalgeon/redka/internal/redis"
)

// scanMain (subcommand `scan`) builds collections through many insertion / deletion histories
// and drains each one twice — by feeding the cursor of Scan back until a page is empty, and with
// the Scanner iterator object — for several page sizes and patterns. One SCAN line per drain:
//   SCAN <seq> <now> | <dump> | <fam> <key> <pattern> <type> <pageSize> | <cursor-loop items> | <iterator items>
func scanMain() {
	seed := flag.Int64("seed", 1, "PRNG seed")
	traces := flag.Int("traces", 40, "collections to build")
	maxN := flag.Int("maxn", 40, "maximum collection size")
	big := flag.Int("big", 0, "instead of the random traces: ONE collection of this many elements (ascending), drained with page sizes around and above 1000")
	bigFam := flag.String("bigfam", "key", "family of the big collection")
	flag.Parse()
	out = bufio.NewWriterSize(os.Stdout, 1<<20)
	defer out.Flush()
	rnd := rand.New(rand.NewSource(*seed))
	if *big > 0 {
		// a collection larger than every page-size constant of the code, and page sizes larger than those constants
		db := openDB()
		scanHistory = nil
		bigNames = true
		key := buildCollection(db, rnd, *bigFam, "asc", *big)
		fmt.Fprintf(out, "# trace big scan %s asc n=%d\n", *bigFam, *big)
		for _, ps := range []int{0, 999, 1000, 1001, *big - 1, *big + 5, 5000} {
			for _, pat := range []string{"*", "e1*"} {
				drain(db, *bigFam, key, pat, 0, ps)
			}
		}
		db.Close()
		return
	}
	fams := []string{"set", "hash", "zset", "key"}
	orders := []string{"asc", "desc", "random", "churn", "rename", "store", "overwrite", "ascover", "utf8"}
	for t := 0; t < *traces; t++ {
		db := openDB()
		scanHistory = nil
		fam := fams[t%len(fams)]
		order := orders[(t/len(fams))%len(orders)]
		n := rnd.Intn(*maxN + 1)
		if t < 8 {
			n = t % 4 // the empty and tiny collections
		}
		utf8Names = order == "utf8"
		clusteredTypes = fam == "key" && (t/len(fams))%2 == 1
		key := buildCollection(db, rnd, fam, order, n)
		utf8Names = false
		fmt.Fprintf(out, "# trace %d scan %s %s n=%d\n", t, fam, order, n)
		sizes := []int{0, 1, 2, 3, n, n + 1, -1}
		if n > 6 {
			sizes = append(sizes, 1+rnd.Intn(n), 7)
		}
		pats := []string{"*", "e1*", "e?", "e[0-2]?", "zz*", "e0[!1-8]"}
		if order == "utf8" {
			pats = []string{"*", "e*", "e?", "e[\U0001F600-\U0001F60F]", "e\U0001F601*", "?\U0001F602", "e\u00e9*"}
		}
		// literal patterns: the name of an element that exists (the first and a middle one) and one that does not
		utf8Names = order == "utf8"
		pats = append(pats, elemName(0), elemName(n/2), elemName(n+3))
		utf8Names = false
		for _, ps := range sizes {
			for _, pat := range pats {
				ty := 0
				if fam == "key" && rnd.Intn(2) == 0 {
					ty = 1 + rnd.Intn(5)
				}
				drain(db, fam, key, pat, ty, ps)
			}
		}
		db.Close()
	}
}

// utf8Names: names whose second character is a multi-byte one (2, 3 and 4 bytes in UTF-8)
var utf8Names bool

func elemName(i int) string {
	if utf8Names {
		switch i % 3 {
		case 0:
			return "e" + string(rune(0x1F600+i)) // 4 bytes
		case 1:
			return "e" + string(rune(0x4E00+i)) // 3 bytes
		default:
			return "e" + string(rune(0xE9+i)) // 2 bytes
		}
	}
	if bigNames {
		return fmt.Sprintf("e%04d", i) // byte order = numeric order beyond 100 elements
	}
	return fmt.Sprintf("e%02d", i)
}

// clusteredTypes: the keyspace holds runs of keys of one type
var clusteredTypes bool

// bigNames: four-digit names and sorted-set scores that follow the insertion order, so that rowid order is
// index order in the big collections (no D10 there) and a skipped element is a failing input
var bigNames bool

// scanHistory: the operations that built the collection, `<now> <op text>` each, so that the Lean
// judge can run the model from an empty database and decide the D10 classifier on the rowids the
// model of the code assigns (a change in rowid assignment is then a failing input, not a D10 case).
var scanHistory []string

func build(db *redka.DB, st step) {
	waitFreshMs()
	e := &env{r: redis.RedkaDB(db), db: db}
	st.run(e, ident)
	t1 := nowMs()
	lastT1 = t1
	scanHistory = append(scanHistory, fmt.Sprintf("%d %s", t1, st.text))
}

func addOne(db *redka.DB, fam, key string, i int, rnd *rand.Rand) {
	name := elemName(i)
	switch fam {
	case "set":
		build(db, opSetAdd(key, []string{name}, true))
	case "hash":
		build(db, opHashSet(key, name, fmt.Sprintf("v%d", i), true))
	case "zset":
		// scores sometimes follow, sometimes oppose, sometimes ignore the insertion order
		if bigNames {
			build(db, opZAdd(key, name, float64(i)))
		} else {
			build(db, opZAdd(key, name, float64(rnd.Intn(5))))
		}
	case "key":
		ti := i % 5
		if clusteredTypes {
			ti = (i / 7) % 5 // runs of seven keys of one type: whole pages without the type asked for
		}
		switch ti {
		case 0:
			build(db, opStrSet(name, "v", true))
		case 1:
			build(db, opListPush(name, "x", false, true))
		case 2:
			build(db, opSetAdd(name, []string{"x"}, true))
		case 3:
			build(db, opHashSet(name, "f", "x", true))
		default:
			build(db, opZAdd(name, "x", 1))
		}
	}
}

func delOne(db *redka.DB, fam, key string, i int) {
	name := elemName(i)
	switch fam {
	case "set":
		build(db, opSetDelete(key, []string{name}))
	case "hash":
		build(db, opHashDelete(key, []string{name}))
	case "zset":
		build(db, opZDelete(key, []string{name}))
	case "key":
		build(db, opKeyDelete([]string{name}))
	}
}

// buildCollection returns the key to scan ("" for the keyspace).
func buildCollection(db *redka.DB, rnd *rand.Rand, fam, order string, n int) string {
	key := "coll"
	idx := make([]int, n)
	for i := range idx {
		idx[i] = i
	}
	switch order {
	case "desc":
		for i, j := 0, n-1; i < j; i, j = i+1, j-1 {
			idx[i], idx[j] = idx[j], idx[i]
		}
	case "random", "churn", "rename", "store", "overwrite", "utf8":
		rnd.Shuffle(n, func(i, j int) { idx[i], idx[j] = idx[j], idx[i] })
	}
	for _, i := range idx {
		addOne(db, fam, key, i, rnd)
	}
	switch order {
	case "ascover":
		// built in ascending order (rowid order = index order, no D10), then some elements written again:
		// an overwritten element must keep its place in the iteration
		for _, i := range idx {
			if rnd.Intn(3) == 0 {
				addOne(db, fam, key, i, rnd)
			}
		}
	case "overwrite":
		// write about a third of the elements again (same name, new value / score): the element keeps its place
		for _, i := range idx {
			if rnd.Intn(3) == 0 {
				addOne(db, fam, key, i, rnd)
			}
		}
	case "churn":
		// delete about a third and re-insert half of those
		for _, i := range idx {
			if rnd.Intn(3) == 0 {
				delOne(db, fam, key, i)
				if rnd.Intn(2) == 0 {
					addOne(db, fam, key, i, rnd)
				}
			}
		}
	case "rename":
		if fam != "key" {
			build(db, opKeyRename(key, "moved"))
			key = "moved"
		} else if n > 0 {
			build(db, opKeyRename(elemName(idx[0]), "e99"))
		}
	case "store":
		switch fam {
		case "set":
			build(db, opSetAdd("other", []string{"e97", "e03"}, true))
			build(db, opSetUnionStore("dest", []string{key, "other"}))
			key = "dest"
		case "zset":
			build(db, opZAdd("other", "e97", 2))
			build(db, opZUnionStore("dest", []string{key, "other"}, 0))
			key = "dest"
		}
	}
	if fam == "key" {
		return ""
	}
	return key
}

func drain(db *redka.DB, fam, key, pat string, ty, pageSize int) {
	seq++
	waitFreshMs()
	pre, err := takeDump(db.RW)
	if err != nil {
		fmt.Fprintln(os.Stderr, "scan: dump:", err)
		os.Exit(2)
	}
	var loop, iter []string
	const guard = 10000
	switch fam {
	case "set":
		cursor := 0
		for g := 0; g < guard; g++ {
			res, err := db.Set().Scan(key, cursor, pat, pageSize)
			if err != nil || len(res.Items) == 0 {
				break
			}
			for _, v := range res.Items {
				loop = append(loop, "b:"+hx(v))
			}
			cursor = res.Cursor
		}
		sc := db.Set().Scanner(key, pat, pageSize)
		for g := 0; g < guard && sc.Scan(); g++ {
			iter = append(iter, "b:"+hx(sc.Item()))
		}
	case "hash":
		cursor := 0
		for g := 0; g < guard; g++ {
			res, err := db.Hash().Scan(key, cursor, pat, pageSize)
			if err != nil || len(res.Items) == 0 {
				break
			}
			for _, it := range res.Items {
				loop = append(loop, fmt.Sprintf("L 2 b:%s b:%s", hxs(it.Field), hx(it.Value)))
			}
			cursor = res.Cursor
		}
		sc := db.Hash().Scanner(key, pat, pageSize)
		for g := 0; g < guard && sc.Scan(); g++ {
			it := sc.Item()
			iter = append(iter, fmt.Sprintf("L 2 b:%s b:%s", hxs(it.Field), hx(it.Value)))
		}
	case "zset":
		cursor := 0
		for g := 0; g < guard; g++ {
			res, err := db.ZSet().Scan(key, cursor, pat, pageSize)
			if err != nil || len(res.Items) == 0 {
				break
			}
			for _, it := range res.Items {
				loop = append(loop, fmt.Sprintf("L 2 b:%s s:%s", hx(it.Elem), dy(it.Score)))
			}
			cursor = res.Cursor
		}
		sc := db.ZSet().Scanner(key, pat, pageSize)
		for g := 0; g < guard && sc.Scan(); g++ {
			it := sc.Item()
			iter = append(iter, fmt.Sprintf("L 2 b:%s s:%s", hx(it.Elem), dy(it.Score)))
		}
	case "key":
		cursor := 0
		for g := 0; g < guard; g++ {
			res, err := db.Key().Scan(cursor, pat, core.TypeID(ty), pageSize)
			if err != nil || len(res.Keys) == 0 {
				break
			}
			for _, k := range res.Keys {
				loop = append(loop, keyTok(k, ident))
			}
			cursor = res.Cursor
		}
		sc := db.Key().Scanner(pat, core.TypeID(ty), pageSize)
		for g := 0; g < guard && sc.Scan(); g++ {
			iter = append(iter, keyTok(sc.Key(), ident))
		}
	}
	t1 := nowMs()
	lastT1 = t1
	lst := func(xs []string) string {
		return fmt.Sprintf("L %d %s", len(xs), strings.Join(xs, " "))
	}
	fmt.Fprintf(out, "SCAN %d %d | %s | %s %s %s %d %d | %s | %s | %s\n", seq, t1, pre.render(ident),
		fam, hxs(key), hxs(pat), ty, pageSize, strings.TrimSpace(lst(loop)), strings.TrimSpace(lst(iter)),
		histOrDash(strings.Join(scanHistory, " ;; ")))
}

func histOrDash(h string) string {
	if h == "" {
		return "-"
	}
	return h
}
