//go:build verif

package main

import (
	"math/rand"
)

// Small universes so that states repeat, types collide on shared names and every branch is hit.
var (
	keyPool  = []string{"k1", "k2", "k3"}
	hostKeys = []string{"", "a b", "\x00\xff", "*", "k[1]", "k1\x00x", "kéy"}
	strVals  = []string{"", "0", "7", "-3", "+5", "007", "abc", "1.5", "9223372036854775807",
		"-9223372036854775808", "9223372036854775808", " 1", "1 ", "0x10", "1_0", "\r\n\x00\xfe",
		"0.25", ".5", "5.", "-0.125", "1e3", "inf", "0.1", "-0", "1.2.3", "2.50", "+", "12a", "NaN",
		"0.3", "1e-3", "2.5E+2", "123456789012345678", "0.30000000000000004", "1e22", "1e23", "4.35", "1e", "1e+", ".e1",
		"1.7976931348623157e308", "9007199254740993", "0.000001", "1e400", "1e-400", "3.14159", "-1.5e-7", "1e5e5", "2.675"}
	elemPool  = []string{"a", "b", "c"}
	hostElems = []string{"", "\x00", "a\r\nb", "\xff\xfe", "*", "[a]", "12", "-0"}
	fieldPool = []string{"f1", "f2", "f3"}
	scorePool = []float64{negInf, -1, 0, 0.5, 1, 1, posInf, 2.25, 1024, -0.5, 0.1, 0.7, 1e-3, 1e21, 123456789.123, -0.3}
	patPool   = []string{"*", "k*", "k?", "?1", "[a-c]*", "k[!1]", "k[^1]", "nomatch", "k[", "k[1-2]", "*1", "a", "f*", "[]a]", "k\\*", ""}
	fdeltas   = []float64{0.5, -0.25, 1, 1.5, -2, 0, 0.125, 1024, 3.0517578125e-05, 1e15, 0.1,
		0.2, 0.3, 1e-7, 123456.789, 1e22, -0.7, 1.0 / 3.0, 2.2250738585072014e-308, 1.7976931348623157e308, 6.02214076e23, -2.5e-9}
	deltas    = []int{1, -1, 0, 5, -7, 1 << 40, 9223372036854775807, -9223372036854775808}
)

var negInf, posInf float64

func init() {
	var z float64
	posInf = 1 / z
	negInf = -1 / z
}

type gen struct {
	rnd      *rand.Rand
	hostile  float64 // probability of drawing from the hostile pools
	families []string
	dbLevel  bool // DeleteExpired is available
}

func (g *gen) pick(xs []string) string { return xs[g.rnd.Intn(len(xs))] }
func (g *gen) key() string {
	if g.rnd.Float64() < g.hostile {
		return g.pick(hostKeys)
	}
	return g.pick(keyPool)
}
func (g *gen) elem() string {
	if g.rnd.Float64() < g.hostile {
		return g.pick(hostElems)
	}
	return g.pick(elemPool)
}
func (g *gen) field() string {
	if g.rnd.Float64() < g.hostile {
		return g.pick(hostElems)
	}
	return g.pick(fieldPool)
}
func (g *gen) val() string   { return g.pick(strVals) }
func (g *gen) score() float64 { return scorePool[g.rnd.Intn(len(scorePool))] }
func (g *gen) pat() string   { return g.pick(patPool) }
func (g *gen) idx() int      { return g.rnd.Intn(17) - 8 }
func (g *gen) small() int    { return g.rnd.Intn(6) - 1 }
func (g *gen) coin() bool    { return g.rnd.Intn(2) == 0 }
func (g *gen) keys(max int) []string {
	n := g.rnd.Intn(max + 1)
	out := make([]string, n)
	for i := range out {
		out[i] = g.key()
	}
	return out
}
func (g *gen) keys1(max int) []string {
	n := 1 + g.rnd.Intn(max)
	out := make([]string, n)
	for i := range out {
		out[i] = g.key()
	}
	return out
}
func (g *gen) elems(max int) []string {
	n := g.rnd.Intn(max + 1)
	out := make([]string, n)
	for i := range out {
		out[i] = g.elem()
	}
	return out
}

// distinct pairs (Go maps cannot hold a name twice)
func (g *gen) pairs(max int, name func() string, val func() string) [][2]string {
	n := g.rnd.Intn(max + 1)
	seen := map[string]bool{}
	var out [][2]string
	for i := 0; i < n; i++ {
		k := name()
		if seen[k] {
			continue
		}
		seen[k] = true
		out = append(out, [2]string{k, val()})
	}
	return out
}

const farFuture = int64(4102444800000) // 2100-01-01

// ttl values that are unambiguous at millisecond resolution: long, zero or negative
func (g *gen) ttl() int64 {
	switch g.rnd.Intn(5) {
	case 0:
		return 0
	case 1:
		return -5000
	default:
		return 3600000 + int64(g.rnd.Intn(1000))*1000
	}
}
func (g *gen) at() int64 {
	if g.rnd.Intn(3) == 0 {
		return 1000 + int64(g.rnd.Intn(1000)) // long ago
	}
	return farFuture + int64(g.rnd.Intn(1000))
}

func (g *gen) next() step {
	fam := g.families[g.rnd.Intn(len(g.families))]
	switch fam {
	case "str":
		return g.strOp()
	case "key":
		return g.keyOp()
	case "list":
		return g.listOp()
	case "set":
		return g.setOp()
	case "hash":
		return g.hashOp()
	case "zset":
		return g.zsetOp()
	case "expire":
		return g.expireOp()
	}
	return g.keyOp()
}

func (g *gen) strOp() step {
	switch g.rnd.Intn(12) {
	case 0, 1:
		return opStrGet(g.key())
	case 2:
		return opStrGetMany(g.keys(3))
	case 3:
		return opStrIncr(g.key(), deltas[g.rnd.Intn(len(deltas))])
	case 4:
		if g.coin() {
			return opStrIncrFloat(g.key(), fdeltas[g.rnd.Intn(len(fdeltas))])
		}
		return opStrIncr(g.key(), deltas[g.rnd.Intn(len(deltas))])
	case 5, 6:
		if g.rnd.Intn(8) == 0 {
			return opStrSetG(g.key(), g.gval())
		}
		return opStrSet(g.key(), g.val(), g.coin())
	case 7:
		return opStrSetExpires(g.key(), g.val(), g.ttl())
	case 8:
		return opStrSetMany(g.pairs(3, g.key, g.val))
	default:
		o := setOpts{}
		switch g.rnd.Intn(3) {
		case 0:
			o.ifExists = true
		case 1:
			o.ifNotExists = true
		}
		switch g.rnd.Intn(4) {
		case 0:
			o.ttl = g.ttl()
		case 1:
			o.at = g.at()
		case 2:
			o.keepTTL = true
		}
		return opStrSetWith(g.key(), g.val(), o)
	}
}

func (g *gen) expireOp() step {
	switch g.rnd.Intn(6) {
	case 0, 1:
		return opKeyExpireAt(g.key(), g.at())
	case 2:
		return opKeyExpire(g.key(), g.ttl())
	case 3:
		return opKeyPersist(g.key())
	case 4:
		if g.dbLevel {
			return opKeyDeleteExpired(g.rnd.Intn(4))
		}
		return opKeyGet(g.key())
	default:
		return opKeyGet(g.key())
	}
}

func (g *gen) keyOp() step {
	switch g.rnd.Intn(18) {
	case 0:
		return opKeyCount(g.keys(3))
	case 1, 2:
		return opKeyDelete(g.keys(3))
	case 3:
		if g.rnd.Intn(6) == 0 {
			return opKeyDeleteAll()
		}
		return opKeyLen()
	case 4:
		return opKeyExists(g.key())
	case 5:
		return opKeyExpire(g.key(), g.ttl())
	case 6:
		return opKeyExpireAt(g.key(), g.at())
	case 7, 8:
		return opKeyGet(g.key())
	case 9:
		return opKeyKeys(g.pat())
	case 10:
		return opKeyLen()
	case 11:
		return opKeyPersist(g.key())
	case 12:
		return opKeyRandom()
	case 13, 14:
		return opKeyRename(g.key(), g.key())
	case 15:
		return opKeyRenameNX(g.key(), g.key())
	case 16:
		if g.dbLevel {
			return opKeyDeleteExpired(g.rnd.Intn(4))
		}
		return opKeyLen()
	default:
		return opKeyScan(g.rnd.Intn(4), g.pat(), g.rnd.Intn(6), g.small())
	}
}

func (g *gen) listOp() step {
	switch g.rnd.Intn(20) {
	case 0:
		return opListDelete(g.key(), g.elem())
	case 1:
		return opListDeleteBack(g.key(), g.elem(), g.small())
	case 2:
		return opListDeleteFront(g.key(), g.elem(), g.small())
	case 3, 4:
		return opListGet(g.key(), g.idx())
	case 5:
		return opListInsert(g.key(), g.elem(), g.elem(), true)
	case 6:
		return opListInsert(g.key(), g.elem(), g.elem(), false)
	case 7:
		return opListLen(g.key())
	case 8:
		return opListPopBack(g.key())
	case 9:
		return opListPopFront(g.key())
	case 10:
		return opListPopBackPushFront(g.key(), g.key())
	case 11, 12, 13:
		if g.rnd.Intn(10) == 0 {
			return opListPushG(g.key(), g.gval(), g.coin())
		}
		return opListPush(g.key(), g.elem(), false, g.coin())
	case 14, 15:
		return opListPush(g.key(), g.elem(), true, g.coin())
	case 16, 17:
		return opListRange(g.key(), g.idx(), g.idx())
	case 18:
		return opListSet(g.key(), g.idx(), g.elem())
	default:
		return opListTrim(g.key(), g.idx(), g.idx())
	}
}

func (g *gen) setOp() step {
	switch g.rnd.Intn(18) {
	case 0, 1, 2:
		if g.rnd.Intn(10) == 0 {
			return opSetAddG(g.key(), []gval{g.gval(), g.gval()})
		}
		return opSetAdd(g.key(), g.elems(3), g.coin())
	case 3, 4:
		return opSetDelete(g.key(), g.elems(3))
	case 5:
		return opSetDiff(g.keys(3))
	case 6:
		return opSetInter(g.keys(3))
	case 7:
		return opSetUnion(g.keys(3))
	case 8:
		return opSetDiffStore(g.key(), g.keys(3))
	case 9:
		return opSetInterStore(g.key(), g.keys(3))
	case 10:
		return opSetUnionStore(g.key(), g.keys(3))
	case 11:
		return opSetExists(g.key(), g.elem())
	case 12:
		return opSetItems(g.key())
	case 13:
		return opSetLen(g.key())
	case 14:
		return opSetMove(g.key(), g.key(), g.elem())
	case 15:
		return opSetPop(g.key())
	case 16:
		return opSetRandom(g.key())
	default:
		return opSetScan(g.key(), g.rnd.Intn(5), g.pat(), g.small())
	}
}

func (g *gen) hashOp() step {
	switch g.rnd.Intn(17) {
	case 0, 1:
		return opHashDelete(g.key(), []string{g.field(), g.field()}[:1+g.rnd.Intn(2)])
	case 2:
		return opHashExists(g.key(), g.field())
	case 3:
		return opHashFields(g.key())
	case 4:
		return opHashGet(g.key(), g.field())
	case 5:
		return opHashGetMany(g.key(), []string{g.field(), g.field(), g.field()}[:g.rnd.Intn(4)])
	case 6:
		return opHashIncr(g.key(), g.field(), deltas[g.rnd.Intn(len(deltas))])
	case 7:
		if g.coin() {
			return opHashIncrFloat(g.key(), g.field(), fdeltas[g.rnd.Intn(len(fdeltas))])
		}
		return opHashIncr(g.key(), g.field(), deltas[g.rnd.Intn(len(deltas))])
	case 8:
		return opHashItems(g.key())
	case 9:
		return opHashLen(g.key())
	case 10:
		return opHashScan(g.key(), g.rnd.Intn(5), g.pat(), g.small())
	case 11, 12, 13:
		if g.rnd.Intn(10) == 0 {
			return opHashSetG(g.key(), g.field(), g.gval())
		}
		return opHashSet(g.key(), g.field(), g.val(), g.coin())
	case 14:
		return opHashSetMany(g.key(), g.pairs(3, g.field, g.val))
	case 15:
		return opHashSetNX(g.key(), g.field(), g.val())
	default:
		return opHashValues(g.key())
	}
}

func (g *gen) zsetOp() step {
	switch g.rnd.Intn(22) {
	case 0, 1, 2:
		return opZAdd(g.key(), g.elem(), g.score())
	case 3:
		n := g.rnd.Intn(4)
		seen := map[string]bool{}
		var items []zitem
		for i := 0; i < n; i++ {
			e := g.elem()
			if seen[e] {
				continue
			}
			seen[e] = true
			items = append(items, zitem{e, g.score()})
		}
		return opZAddMany(g.key(), items)
	case 4:
		return opZCount(g.key(), g.score(), g.score())
	case 5:
		return opZDelete(g.key(), g.elems(3))
	case 6:
		return opZDeleteRank(g.key(), g.small(), g.small())
	case 7:
		return opZDeleteScore(g.key(), g.score(), g.score())
	case 8:
		return opZGetRank(g.key(), g.elem(), false)
	case 9:
		return opZGetRank(g.key(), g.elem(), true)
	case 10:
		return opZGetScore(g.key(), g.elem())
	case 11, 12:
		return opZIncr(g.key(), g.elem(), g.score())
	case 13:
		return opZInter(g.keys(3), g.rnd.Intn(3))
	case 14:
		return opZUnion(g.keys(3), g.rnd.Intn(3))
	case 15:
		return opZInterStore(g.key(), g.keys(3), g.rnd.Intn(3))
	case 16:
		return opZUnionStore(g.key(), g.keys(3), g.rnd.Intn(3))
	case 17:
		return opZLen(g.key())
	case 18, 19:
		return opZRangeRank(g.key(), g.small(), g.small(), g.coin())
	case 20:
		return opZRangeScore(g.key(), g.score(), g.score(), g.coin(), g.rnd.Intn(4), g.rnd.Intn(4))
	default:
		return opZScan(g.key(), g.rnd.Intn(5), g.pat(), g.small())
	}
}
