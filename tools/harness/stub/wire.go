//go:build verif

package main

import (
	"fmt"
	"os"
)

// fallback used when the wire mode is not needed by the property being checked
func wireMain() {
	fmt.Fprintln(os.Stderr, "wire mode not built into this harness binary")
	os.Exit(2)
}
