//go:build verif

package server

import (
	"github.com/nalgeon/redka"
	"github.com/tidwall/redcon"
)

// VerifHandlers exposes the server's handler chain to the verification harness.
func VerifHandlers(db *redka.DB) redcon.HandlerFunc { return createHandlers(db) }
