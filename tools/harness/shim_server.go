//go:build verif

package server

import (
	"github.com/nalgeon/redka"
	"github.com/nalgeon/redka/internal/redis"
	"github.com/tidwall/redcon"
)

// VerifHandlers exposes the server's handler chain to the verification harness.
func VerifHandlers(db *redka.DB) redcon.HandlerFunc { return createHandlers(db) }

// VerifConnState exposes a connection's MULTI state (the connState kept in the connection
// context): the inMulti flag and a copy of the queued commands. A connection that has not been
// seen by the handlers yet has the zero state.
func VerifConnState(conn redcon.Conn) (inMulti bool, cmds []redis.Cmd) {
	st, ok := conn.Context().(*connState)
	if !ok || st == nil {
		return false, nil
	}
	return st.inMulti, append([]redis.Cmd(nil), st.cmds...)
}
