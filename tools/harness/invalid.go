//go:build verif

package main

import (
	"fmt"
	"math/rand"
	"strings"

	"github.com/nalgeon/redka"
	"github.com/nalgeon/redka/internal/redis"
)

// Calls with a value of a type the API refuses (core.ErrValueType): int64, nil, a struct, a
// slice of strings. They must be refused and change nothing — at DB level and inside a
// caller-managed transaction that goes on to commit. Reported as FAULT lines (kind=invalid).
type badT struct{ a int }

func badValue(rnd *rand.Rand) any {
	switch rnd.Intn(4) {
	case 0:
		return int64(7)
	case 1:
		return nil
	case 2:
		return badT{1}
	default:
		return []string{"x"}
	}
}

func invalidCall(rnd *rand.Rand, g *gen) (string, func(r redis.Redka) error) {
	k, bad := g.key(), badValue(rnd)
	switch rnd.Intn(14) {
	case 0:
		return "str.Set", func(r redis.Redka) error { return r.Str().Set(k, bad) }
	case 1:
		return "str.SetMany", func(r redis.Redka) error { return r.Str().SetMany(map[string]any{g.key(): "ok", k: bad}) }
	case 2:
		return "str.SetWith", func(r redis.Redka) error { _, err := r.Str().SetWith(k, bad).Run(); return err }
	case 3:
		return "list.PushBack", func(r redis.Redka) error { _, err := r.List().PushBack(k, bad); return err }
	case 4:
		return "list.PushFront", func(r redis.Redka) error { _, err := r.List().PushFront(k, bad); return err }
	case 5:
		return "list.InsertAfter", func(r redis.Redka) error { _, err := r.List().InsertAfter(k, g.elem(), bad); return err }
	case 6:
		return "list.Set", func(r redis.Redka) error { return r.List().Set(k, 0, bad) }
	case 7:
		return "set.Add", func(r redis.Redka) error { _, err := r.Set().Add(k, g.elem(), bad); return err }
	case 8:
		return "set.Move", func(r redis.Redka) error { return r.Set().Move(k, g.key(), bad) }
	case 9:
		return "hash.Set", func(r redis.Redka) error { _, err := r.Hash().Set(k, g.field(), bad); return err }
	case 10:
		return "hash.SetMany", func(r redis.Redka) error {
			_, err := r.Hash().SetMany(k, map[string]any{"f1": "ok", "f2": bad})
			return err
		}
	case 11:
		return "hash.SetNotExists", func(r redis.Redka) error { _, err := r.Hash().SetNotExists(k, "zz", bad); return err }
	case 12:
		return "zset.Add", func(r redis.Redka) error { _, err := r.ZSet().Add(k, bad, 1); return err }
	default:
		return "zset.Incr", func(r redis.Redka) error { _, err := r.ZSet().Incr(k, bad, 1); return err }
	}
}

func runInvalid(db *redka.DB, mode string, rnd *rand.Rand, g *gen) {
	name, call := invalidCall(rnd, g)
	waitFreshMs()
	var pre, post *dumpT
	var cerr error
	if mode == "tx" {
		_ = db.Update(func(tx *redka.Tx) error {
			raw := redka.VerifRawTx(tx)
			pre, _ = takeDump(raw)
			cerr = call(redis.RedkaTx(tx))
			post, _ = takeDump(raw)
			return nil // the caller ignores the refusal and commits
		})
	} else {
		pre, _ = takeDump(db.RW)
		cerr = call(redis.RedkaDB(db))
		post, _ = takeDump(db.RW)
	}
	lastT1 = nowMs()
	if pre == nil || post == nil {
		return
	}
	r := "ok"
	if cerr != nil {
		r = "err"
		if !strings.Contains(cerr.Error(), "invalid value type") {
			r = "err-other"
		}
	}
	seq++
	fmt.Fprintf(out, "FAULT %d %d | %s | invalid mode=%s %s | %s | %s\n", seq, lastT1, pre.render(ident), mode, name, r, post.render(ident))
}
