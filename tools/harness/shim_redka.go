//go:build verif

package redka

import "github.com/nalgeon/redka/internal/sqlx"

// VerifRawTx exposes the SQL handle of a transaction to the verification harness
// (used only to dump the tables from inside a caller-managed transaction).
func VerifRawTx(tx *Tx) sqlx.Tx { return tx.tx }
