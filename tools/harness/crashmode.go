//go:build verif

package main

import (
	"bufio"
	"bytes"
	"flag"
	"fmt"
	"math/rand"
	"os"
	"os/exec"
	"path/filepath"
	"strconv"
	"strings"

	"github.com/nalgeon/redka"
	"github.com/nalgeon/redka/internal/redis"
)

// crash mode (C09): a child process runs a workload on an on-disk database (WAL, the default
// pragmas) through the interposing driver and calls os.Exit — no Close, no rollback, no flushing
// by the Go runtime — before or after RW call K. It prints `ACK <i> <now>` after each operation
// has returned to its caller. The parent re-opens the file read-write (and read-only), dumps it,
// runs `pragma integrity_check`, and prints one line for the Lean driver:
//
//   CRASH <seq> <now> | <n> <acked> <reopenRW> <reopenRO> <integrity> | <now_1> <op_1> ;; … | <dump>
//
// With K beyond the number of calls the child finishes the workload and exits without closing
// (process death right after the last acknowledgement); `close` traces instead close cleanly and
// are re-opened twice.

func crashChild(args []string) {
	dbPath, script := args[0], args[1]
	k, _ := strconv.Atoi(args[2])
	after := args[3] == "1"
	closeClean := len(args) > 4 && args[4] == "close"
	db := openFaultDB(dbPath)
	data, err := os.ReadFile(script)
	if err != nil {
		fmt.Fprintln(os.Stderr, err)
		os.Exit(2)
	}
	w := bufio.NewWriter(os.Stdout)
	plan.mu.Lock()
	plan.armed, plan.failAt, plan.calls, plan.fired, plan.exit, plan.after = true, k, 0, false, true, after
	plan.mu.Unlock()
	e := &env{r: redis.RedkaDB(db), db: db}
	for i, line := range strings.Split(strings.TrimSpace(string(data)), "\n") {
		st, err := parseStep(line)
		if err != nil {
			fmt.Fprintln(os.Stderr, err)
			os.Exit(2)
		}
		st.run(e, ident)
		fmt.Fprintf(w, "ACK %d %d\n", i+1, nowMs())
		w.Flush()
	}
	_, calls, _ := plan.disarm()
	fmt.Fprintf(w, "CALLS %d\n", calls)
	w.Flush()
	if closeClean {
		db.Close()
		os.Exit(0)
	}
	os.Exit(0) // no Close: process death after the last acknowledgement
}

// crash-safe workload: no relative TTLs (stored expiry would depend on the wall clock of the
// child), no random choices, map arguments with a single item.
func crashWorkload(rnd *rand.Rand, n int) []step {
	g := &gen{rnd: rnd, hostile: 0.0, families: []string{"str", "list", "set", "hash", "zset", "key"}, dbLevel: true}
	var out []step
	for len(out) < n {
		st := g.next()
		// durability is most at risk in operations that issue several statements: draw them often
		if rnd.Intn(5) < 2 {
			switch rnd.Intn(8) {
			case 0, 1:
				st = opListPopBackPushFront(g.key(), g.key())
			case 2:
				st = opSetMove(g.key(), g.key(), g.elem())
			case 3:
				st = opSetUnionStore(g.key(), g.keys1(2))
			case 4:
				st = opZUnionStore(g.key(), g.keys1(2), 0)
			case 5:
				st = opKeyRename(g.key(), g.key())
			case 6:
				st = opHashSet(g.key(), g.field(), g.val(), false)
			default:
				st = opListPush(g.key(), g.elem(), false, false)
			}
		}
		name := strings.SplitN(st.text, " ", 2)[0]
		switch name {
		case "str.SetExpires", "key.Expire", "set.Pop", "set.Random", "key.Random", "key.DeleteAll",
			"str.SetMany", "hash.SetMany", "zset.AddMany", "key.DeleteExpired":
			continue
		case "str.SetWith":
			if st.ttl != 0 {
				continue
			}
		}
		if strings.Contains(name, "Scan") || strings.HasSuffix(name, ".Get") || strings.Contains(name, "Len") {
			continue // reads add nothing to a durability workload
		}
		out = append(out, st)
	}
	return out
}

func crashMain() {
	seed := flag.Int64("seed", 1, "PRNG seed")
	traces := flag.Int("traces", 6, "workloads")
	length := flag.Int("len", 10, "operations per workload")
	points := flag.Int("points", 12, "crash points sampled per workload (0 = all)")
	wide := flag.Int("wide", 0, "one workload: that many keys created one by one, then ONE non-transactional Delete of all of them; the process dies around each of its last calls")
	flag.Parse()
	out = bufio.NewWriterSize(os.Stdout, 1<<20)
	defer out.Flush()
	rnd := rand.New(rand.NewSource(*seed))
	dir, err := os.MkdirTemp("", "verif_crash_")
	if err != nil {
		fmt.Fprintln(os.Stderr, err)
		os.Exit(2)
	}
	defer os.RemoveAll(dir)
	self, _ := os.Executable()
	if *wide > 0 {
		*traces = 1
	}
	for t := 0; t < *traces; t++ {
		work := crashWorkload(rnd, *length)
		if *wide > 0 {
			// a call whose argument list is longer than any batching constant: whatever it does must be all or nothing
			work = nil
			var names []string
			for i := 0; i < *wide; i++ {
				names = append(names, fmt.Sprintf("w%04d", i))
				work = append(work, opStrSet(names[i], "v", false))
			}
			work = append(work, opKeyDelete(names))
		}
		script := filepath.Join(dir, fmt.Sprintf("w%d.txt", t))
		var sb strings.Builder
		for _, st := range work {
			sb.WriteString(st.text + "\n")
		}
		os.WriteFile(script, []byte(sb.String()), 0o644)
		fmt.Fprintf(out, "# trace %d crash n=%d\n", t, len(work))
		// dry run: count the RW calls, and exercise "death right after the last ack"
		total := crashOnce(self, dir, script, work, 1<<30, false, "")
		// clean close / re-open cycles after the whole workload
		crashOnce(self, dir, script, work, 1<<30, false, "close")
		ks := []int{}
		for k := 1; k <= total; k++ {
			ks = append(ks, k)
		}
		if *wide > 0 {
			// the calls of the final Delete are the last ones
			ks = nil
			for k := total - 5; k <= total; k++ {
				if k >= 1 {
					ks = append(ks, k)
				}
			}
		} else if *points > 0 && len(ks) > *points {
			rnd.Shuffle(len(ks), func(i, j int) { ks[i], ks[j] = ks[j], ks[i] })
			ks = ks[:*points]
		}
		for _, k := range ks {
			crashOnce(self, dir, script, work, k, false, "")
			crashOnce(self, dir, script, work, k, true, "")
		}
	}
}

// crashOnce runs the child once and reports what the re-opened database holds; returns the number
// of RW calls the child counted (only meaningful for the dry run).
func crashOnce(self, dir, script string, work []step, k int, after bool, mode string) int {
	dbFile := filepath.Join(dir, fmt.Sprintf("c_%d.db", seq))
	for _, suf := range []string{"", "-wal", "-shm"} {
		os.Remove(dbFile + suf)
	}
	a := "0"
	if after {
		a = "1"
	}
	args := []string{"crashchild", dbFile, script, strconv.Itoa(k), a}
	if mode != "" {
		args = append(args, mode)
	}
	cmd := exec.Command(self, args...)
	var stdout bytes.Buffer
	cmd.Stdout = &stdout
	cmd.Stderr = os.Stderr
	_ = cmd.Run()
	acked, calls := 0, 0
	var nows []int64
	for _, l := range strings.Split(stdout.String(), "\n") {
		f := strings.Fields(l)
		if len(f) == 3 && f[0] == "ACK" {
			acked, _ = strconv.Atoi(f[1])
			n, _ := strconv.ParseInt(f[2], 10, 64)
			nows = append(nows, n)
		}
		if len(f) == 2 && f[0] == "CALLS" {
			calls, _ = strconv.Atoi(f[1])
		}
	}
	// re-open read-write (twice for the close mode), then read-only
	okRW, okRO, integ := 0, 0, "-"
	var d *dumpT
	// every other case: the FIRST re-open after the process death is a read-only one (nothing has
	// recovered or checkpointed the write-ahead log yet); what it shows must be what the read-write
	// re-open shows afterwards
	roFirst := ""
	roFirstTried := seq%2 == 0
	if roFirstTried {
		if ro, err := redka.OpenRead(dbFile, nil); err == nil {
			if d0, err := takeDump(ro.RO); err == nil {
				roFirst = strings.TrimSuffix(d0.render(ident), fmt.Sprint(d0.fk))
			} else {
				roFirst = "unreadable: " + err.Error()
			}
			ro.Close()
		} else {
			roFirst = "cannot open: " + err.Error()
		}
	}
	reopens := 1
	if mode == "close" {
		reopens = 2
	}
	for i := 0; i < reopens; i++ {
		db, err := redka.Open(dbFile, nil)
		if err != nil {
			break
		}
		d, err = takeDump(db.RW)
		if err == nil {
			okRW = 1
			var res string
			if db.RW.QueryRow("pragma integrity_check").Scan(&res) == nil {
				integ = res
			}
		}
		db.Close()
	}
	if ro, err := redka.OpenRead(dbFile, nil); err == nil {
		// the read-only handle has its own connection settings: compare the tables, not the flag
		if d2, err := takeDump(ro.RO); err == nil && d != nil && strings.TrimSuffix(d2.render(ident), fmt.Sprint(d2.fk)) == strings.TrimSuffix(d.render(ident), fmt.Sprint(d.fk)) {
			okRO = 1
		}
		ro.Close()
	}
	if roFirstTried && (d == nil || roFirst != strings.TrimSuffix(d.render(ident), fmt.Sprint(d.fk))) {
		// a database that was never created (death before the schema was committed) has no tables to read
		if !(d != nil && len(d.keys) == 0 && d.nChild == 0 && strings.Contains(roFirst, "no such table")) {
			okRO = 0
		}
	}
	seq++
	now := nowMs()
	var ops []string
	for i, st := range work {
		n := now
		if i < len(nows) {
			n = nows[i]
		}
		ops = append(ops, fmt.Sprintf("%d %s", n, st.text))
	}
	dump := "K 0 S 0 L 0 E 0 H 0 Z 0 F 1"
	if d != nil {
		dump = d.render(ident)
	}
	fmt.Fprintf(out, "CRASH %d %d | %d %d %d %d %s k=%d after=%s %s | %s | %s\n", seq, now, len(work), acked, okRW, okRO,
		strings.ReplaceAll(integ, " ", "_"), k, a, mode, strings.Join(ops, " ;; "), dump)
	if mode == "close" && d != nil {
		// the re-opened database must behave as before: delete every key through the API and check
		// that nothing is left behind (a re-open that forgets the connection settings would leave
		// orphan element rows)
		if db, err := redka.Open(dbFile, nil); err == nil {
			var names []string
			for _, k := range d.keys {
				names = append(names, string(k.key))
			}
			if len(names) > 0 {
				db.Key().Delete(names...)
				if d3, err := takeDump(db.RW); err == nil {
					seq++
					ops = append(ops, fmt.Sprintf("%d key.Delete %s", nowMs(), listTok(names)))
					fmt.Fprintf(out, "CRASH %d %d | %d %d %d %d %s k=%d after=%s reopen-delete | %s | %s\n", seq, nowMs(), len(work)+1, len(work)+1, okRW, okRO,
						strings.ReplaceAll(integ, " ", "_"), k, a, strings.Join(ops, " ;; "), d3.render(ident))
				}
			}
			db.Close()
		}
	}
	for _, suf := range []string{"", "-wal", "-shm"} {
		os.Remove(dbFile + suf)
	}
	return calls
}
