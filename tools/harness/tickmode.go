//go:build verif

package main

import (
	"strings"
	"runtime"
	"bufio"
	"database/sql"
	"flag"
	"fmt"
	"math/rand"
	"os"
	"path/filepath"
	"sync"
	"sync/atomic"
	"time"

	"github.com/nalgeon/redka"
)

// tick mode (C20, thorough tier only): real-time observation of the background manager.
// Opens an on-disk database, fills it with keys of all five types whose expiries lie in the past,
// within the next seconds, and in the far future (or none), keeps client load running, and polls
// the tables through an independent connection until the first tick (documented period: 60 s).
// After Close it plants an expired row through a raw connection and waits another period to see
// that no reclamation happens any more. Prints TICK lines carrying their own verdict T=1|0:
//
//   TICK <seq> <now> | <what> | <observations> T=<0|1>
func tickMain() {
	seed := flag.Int64("seed", 1, "PRNG seed")
	nkeys := flag.Int("keys", 2000, "population size")
	period := flag.Int("period", 60, "documented period in seconds")
	afterClose := flag.Bool("afterclose", true, "also wait one period after Close")
	lifecycle := flag.Bool("lifecycle", false, "instead of the real-time observation: open / close sequences, counting the reclamation goroutines")
	backlog := flag.Int("backlog", 0, "instead of the real-time observation: this many expired keys, then ONE reclamation step as the ticker issues it")
	flag.Parse()
	if *backlog > 0 {
		backlogMain(*backlog)
		return
	}
	if *lifecycle {
		lifecycleMain()
		return
	}
	out = bufio.NewWriterSize(os.Stdout, 1<<16)
	defer out.Flush()
	rnd := rand.New(rand.NewSource(*seed))
	dir, err := os.MkdirTemp("", "verif_tick_")
	if err != nil {
		fmt.Fprintln(os.Stderr, err)
		os.Exit(2)
	}
	defer os.RemoveAll(dir)
	path := filepath.Join(dir, "tick.db")
	opened := time.Now()
	db, err := redka.Open(path, nil)
	if err != nil {
		fmt.Fprintln(os.Stderr, err)
		os.Exit(2)
	}
	raw, err := sql.Open("sqlite3", "file:"+path+"?mode=ro")
	if err != nil {
		fmt.Fprintln(os.Stderr, err)
		os.Exit(2)
	}
	fmt.Fprintf(out, "# trace 0 tick keys=%d\n", *nkeys)

	// population
	past, soon, live := 0, 0, 0
	for i := 0; i < *nkeys; i++ {
		k := fmt.Sprintf("k%05d", i)
		switch i % 5 {
		case 0:
			db.Str().Set(k, "v")
		case 1:
			db.List().PushBack(k, "a")
			db.List().PushBack(k, "b")
		case 2:
			db.Set().Add(k, "a", "b")
		case 3:
			db.Hash().Set(k, "f", "v")
		default:
			db.ZSet().Add(k, "m", 1)
		}
		switch rnd.Intn(3) {
		case 0:
			db.Key().ExpireAt(k, time.Now().Add(-time.Duration(1+rnd.Intn(3600))*time.Second))
			past++
		case 1:
			db.Key().Expire(k, time.Duration(1+rnd.Intn(20))*time.Second)
			soon++
		default:
			if rnd.Intn(2) == 0 {
				db.Key().Expire(k, time.Duration(3600+rnd.Intn(100))*time.Second)
			}
			live++
		}
	}
	count := func(q string, args ...any) int {
		var n int
		if err := raw.QueryRow(q, args...).Scan(&n); err != nil {
			return -1
		}
		return n
	}
	children := func() int {
		n := 0
		for _, t := range []string{"rstring", "rlist", "rset", "rhash", "rzset"} {
			n += count("select count(*) from " + t + " where kid not in (select id from rkey)")
		}
		return n
	}
	liveDump := func() string {
		rows, err := raw.Query("select id, key, type, version, coalesce(etime,0), mtime, coalesce(len,-1) from rkey where key like 'k%' and (etime is null or etime > ?) order by id", time.Now().Add(2*time.Hour).UnixMilli()*0+farFuture/2)
		if err != nil {
			return "ERR"
		}
		defer rows.Close()
		h := 0
		for rows.Next() {
			var id, ty, ver, et, mt, ln int64
			var key string
			rows.Scan(&id, &key, &ty, &ver, &et, &mt, &ln)
			h = h*31 + int(id+ty*7+ver*13+et%1000003+mt%1000003+ln*17) + len(key)
		}
		return fmt.Sprint(h)
	}
	_ = liveDump

	// client load on its own keys, while the tick happens
	var stop atomic.Bool
	var loadErrs, loadOps atomic.Int64
	var wg sync.WaitGroup
	for w := 0; w < 4; w++ {
		wg.Add(1)
		go func(w int) {
			defer wg.Done()
			ctr := fmt.Sprintf("load_ctr_%d", w)
			want := 0
			for !stop.Load() {
				n, err := db.Str().Incr(ctr, 1)
				want++
				if err != nil || n != want {
					loadErrs.Add(1)
					want = n
				}
				if _, err := db.List().PushBack(fmt.Sprintf("load_l_%d", w), "x"); err != nil {
					loadErrs.Add(1)
				}
				if _, err := db.List().PopFront(fmt.Sprintf("load_l_%d", w)); err != nil {
					loadErrs.Add(1)
				}
				if _, err := db.Key().Exists("k00000"); err != nil {
					loadErrs.Add(1)
				}
				loadOps.Add(4)
				time.Sleep(2 * time.Millisecond)
			}
		}(w)
	}

	// rows that can never be reclaimed legitimately: no expiry, or expiry hours away
	persistent := func() int {
		return count("select count(*) from rkey where key like 'k%' and (etime is null or etime > ?)", time.Now().Add(30*time.Minute).UnixMilli())
	}
	persist0 := persistent()
	expired0 := count("select count(*) from rkey where etime <= ?", time.Now().UnixMilli())
	deadline := opened.Add(time.Duration(*period)*time.Second + 3*time.Second)
	reclaimedAt := time.Time{}
	maxStale := 0
	for time.Now().Before(deadline.Add(2 * time.Second)) {
		time.Sleep(250 * time.Millisecond)
		now := time.Now()
		n := count("select count(*) from rkey where etime <= ?", now.Add(-1500*time.Millisecond).UnixMilli())
		if n > maxStale {
			maxStale = n
		}
		if n == 0 && now.After(opened.Add(time.Duration(*period-1)*time.Second)) {
			reclaimedAt = now
			break
		}
	}
	stop.Store(true)
	wg.Wait()
	seq++
	ok := !reclaimedAt.IsZero() && !reclaimedAt.After(deadline) && children() == 0 && persistent() == persist0 && loadErrs.Load() == 0
	delay := -1.0
	if !reclaimedAt.IsZero() {
		delay = reclaimedAt.Sub(opened).Seconds()
	}
	fmt.Fprintf(out, "TICK %d %d | first tick | expiredAtStart=%d past=%d soon=%d live=%d maxStoredExpired=%d reclaimedAfter=%.1fs orphanChildren=%d persistentBefore=%d persistentAfter=%d loadOps=%d loadErrors=%d TK=%s\n",
		seq, nowMs(), expired0, past, soon, live, maxStale, delay, children(), persist0, persistent(), loadOps.Load(), loadErrs.Load(), b01(ok))
	out.Flush()

	// Close stops the reclamation
	cerr := db.Close()
	raw.Close()
	if *afterClose {
		rw, err := sql.Open("sqlite3", "file:"+path)
		if err == nil {
			_, err = rw.Exec("insert into rkey (key, type, version, etime, mtime, len) values ('planted', 3, 1, 1000, 1000, 0)")
		}
		time.Sleep(time.Duration(*period+5) * time.Second)
		var n int
		if err == nil {
			err = rw.QueryRow("select count(*) from rkey where key = 'planted'").Scan(&n)
		}
		rw.Close()
		seq++
		fmt.Fprintf(out, "TICK %d %d | after close | closeErr=%v plantedStillThere=%d err=%v TK=%s\n", seq, nowMs(), cerr, n, err, b01(cerr == nil && err == nil && n == 1))
	}
}


// backlogMain: a database holding a large backlog of expired keys (with elements) next to live ones; one
// `DeleteExpired(0)` — the call the background manager makes on every tick — must remove every expired key
// with all its elements, report no error, and leave the live keys alone. No clock is involved.
func backlogMain(n int) {
	out = bufio.NewWriterSize(os.Stdout, 1<<16)
	defer out.Flush()
	db := openDB()
	defer db.Close()
	fmt.Fprintf(out, "# trace 0 backlog keys=%d\n", n)
	const nLive = 53
	err := db.Update(func(tx *redka.Tx) error {
		for i := 0; i < n; i++ {
			k := fmt.Sprintf("x%06d", i)
			switch i % 4 {
			case 0:
				if _, err := tx.Set().Add(k, "a", "b"); err != nil {
					return err
				}
			case 1:
				if _, err := tx.Hash().Set(k, "f", "v"); err != nil {
					return err
				}
			default:
				if err := tx.Str().Set(k, "v"); err != nil {
					return err
				}
			}
			if err := tx.Key().Expire(k, time.Millisecond); err != nil {
				return err
			}
		}
		for i := 0; i < nLive; i++ {
			k := fmt.Sprintf("live%03d", i)
			if _, err := tx.List().PushBack(k, "e"); err != nil {
				return err
			}
			if i%2 == 0 {
				if err := tx.Key().Expire(k, 2*time.Hour); err != nil {
					return err
				}
			}
		}
		return nil
	})
	if err != nil {
		fmt.Fprintln(os.Stderr, "backlog: population:", err)
		os.Exit(2)
	}
	time.Sleep(20 * time.Millisecond)
	count := func(q string, args ...any) int {
		var c int
		if err := db.RW.QueryRow(q, args...).Scan(&c); err != nil {
			return -1
		}
		return c
	}
	before := count("select count(*) from rkey where etime is not null and etime <= ?", time.Now().UnixMilli())
	removed, derr := db.Key().DeleteExpired(0)
	after := count("select count(*) from rkey where etime is not null and etime <= ?", time.Now().UnixMilli())
	orphans := 0
	for _, t := range []string{"rstring", "rlist", "rset", "rhash", "rzset"} {
		orphans += count("select count(*) from " + t + " where kid not in (select id from rkey)")
	}
	liveLeft := count("select count(*) from rkey where key like 'live%'")
	liveElems := count("select count(*) from rlist where kid in (select id from rkey where key like 'live%')")
	okv := derr == nil && before == n && removed == n && after == 0 && orphans == 0 && liveLeft == nLive && liveElems == nLive
	seq++
	fmt.Fprintf(out, "TICK %d %d | backlog | keys=%d expiredBefore=%d removed=%d err=%v expiredAfter=%d orphanChildren=%d liveKeys=%d liveElems=%d TK=%s\n",
		seq, nowMs(), n, before, removed, derr, after, orphans, liveLeft, liveElems, b01(okv))
}


// bgGoroutines counts the goroutines started by package redka itself (the background manager is the only one).
func bgGoroutines() int {
	time.Sleep(30 * time.Millisecond)
	buf := make([]byte, 1<<20)
	n := runtime.Stack(buf, true)
	return strings.Count(string(buf[:n]), "created by github.com/nalgeon/redka.")
}

// lifecycleMain: the reclamation goroutine exists exactly while a read-write handle is open, whatever the order of
// Open / OpenRead / Close calls and however the Options value is shared between them. No waiting for a tick.
func lifecycleMain() {
	out = bufio.NewWriterSize(os.Stdout, 1<<16)
	defer out.Flush()
	dir, err := os.MkdirTemp("", "verif_life_")
	if err != nil {
		fmt.Fprintln(os.Stderr, err)
		os.Exit(2)
	}
	defer os.RemoveAll(dir)
	fmt.Fprintf(out, "# trace 0 lifecycle\n")
	// Close stops the ticker but the goroutine stays parked on the stopped ticker's channel (a leak, observed and
	// recorded in DESIGN.md), so goroutines are counted as DELTAS: an open of a read-write handle starts exactly
	// one, an open of a read-only handle none, a close starts none
	last := bgGoroutines()
	report := func(what string, want int, errs ...error) {
		now := bgGoroutines()
		// a goroutine that was just started may not have been scheduled yet on a loaded machine: wait for it
		for i := 0; i < 100 && now-last < want; i++ {
			now = bgGoroutines()
		}
		got := now - last
		last = now
		ok := got == want || (want == 0 && got < 0)
		for _, e := range errs {
			if e != nil {
				ok = false
			}
		}
		seq++
		fmt.Fprintf(out, "TICK %d %d | lifecycle %s | started=%d want=%d errs=%v TK=%s\n", seq, nowMs(), what, got, want, errs, b01(ok))
	}
	path := func(n string) string { return filepath.Join(dir, n) }

	// 1. read-write open and close
	db, err := redka.Open(path("a.db"), nil)
	report("open-rw", 1, err)
	err = db.Close()
	report("close-rw", 0, err)
	// 2. read-only open and close (the file exists)
	ro, err := redka.OpenRead(path("a.db"), nil)
	report("open-ro", 0, err)
	err = ro.Close()
	report("close-ro", 0, err)
	// 3. one Options value used for a read-only handle first and a read-write handle afterwards
	opts := &redka.Options{}
	ro, err = redka.OpenRead(path("a.db"), opts)
	report("shared-opts open-ro", 0, err)
	db, err = redka.Open(path("a.db"), opts)
	report("shared-opts open-rw after ro", 1, err)
	if err == nil {
		_, werr := db.Set().Add("s", "m")
		report("shared-opts write on rw", 0, werr)
	}
	err = ro.Close()
	report("shared-opts close-ro", 0, err)
	err = db.Close()
	report("shared-opts close-rw", 0, err)
	// 4. and the other way round
	opts2 := &redka.Options{}
	db, err = redka.Open(path("a.db"), opts2)
	report("shared-opts2 open-rw", 1, err)
	ro, err = redka.OpenRead(path("a.db"), opts2)
	report("shared-opts2 open-ro after rw", 0, err)
	if err == nil {
		_, rerr := ro.Key().Len()
		report("shared-opts2 read on ro", 0, rerr)
	}
	err = db.Close()
	report("shared-opts2 close-rw", 0, err)
	err = ro.Close()
	report("shared-opts2 close-ro", 0, err)
	// 5. two read-write handles on two files
	d1, e1 := redka.Open(path("b.db"), nil)
	d2, e2 := redka.Open(path("c.db"), nil)
	report("two handles", 2, e1, e2)
	err = d1.Close()
	report("two handles, one closed", 0, err)
	err = d2.Close()
	report("two handles, both closed", 0, err)
	// 6. close right after open, then open again
	db, err = redka.Open(path("a.db"), nil)
	report("open before immediate close", 1, err)
	if err == nil {
		err = db.Close()
	}
	db, err2 := redka.Open(path("a.db"), nil)
	report("reopen after close", 1, err, err2)
	err = db.Close()
	report("closed again", 0, err)
}
