//go:build verif

// Command verifharness drives the real redka implementation and prints one
// self-contained Hoare triple per line ({pre-dump} operation {result, post-dump}) for the
// Lean driver to judge. It is compiled inside the /repo module through `go build -overlay`,
// so /repo itself is not modified.
package main

import (
	"bufio"
	"flag"
	"fmt"
	"math/rand"
	"os"
	"strings"
	"time"

	_ "github.com/mattn/go-sqlite3"
	"github.com/nalgeon/redka"
	"github.com/nalgeon/redka/internal/redis"
)

var (
	// curTx: the caller-managed transaction that the following "tx" steps run in (nil: one
	// transaction per step)
	curTx  *redka.Tx
	lastT1 int64
	seq    int
	out    *bufio.Writer
	dbN    int
)

// wireHangAfter: a request that has not returned after this long counts as hanging (C14, C08).
const wireHangAfter = 20 * time.Second

func nowMs() int64 { return time.Now().UnixMilli() }

// waitFreshMs spins until the wall clock has left the millisecond of the previous call, so the
// [t0, t1] intervals of successive calls are disjoint and every stored timestamp belongs to
// exactly one call.
func waitFreshMs() {
	for nowMs() <= lastT1 {
	}
}

func openDB() *redka.DB {
	dbN++
	path := fmt.Sprintf("file:/vh_%d_%d.db?vfs=memdb", os.Getpid(), dbN)
	db, err := redka.Open(path, nil)
	if err != nil {
		fmt.Fprintln(os.Stderr, "open:", err)
		os.Exit(2)
	}
	return db
}

func mkTm(t0, t1, ttl int64) func(int64) int64 {
	return func(v int64) int64 {
		if t0 <= v && v <= t1 {
			return t1
		}
		if ttl != 0 && t0+ttl <= v && v <= t1+ttl {
			return t1 + ttl
		}
		return v
	}
}

func ident(v int64) int64 { return v }

// runStep executes one step in the given mode and writes its protocol line.
func runStep(db *redka.DB, mode string, st step) { runStepQ(db, mode, st, false) }

func runStepQ(db *redka.DB, mode string, st step, quiet bool) {
	seq++
	var pre, post *dumpT
	var res, views string
	var t0, t1 int64
	var derr error
	fail := func(where string, err error) {
		fmt.Fprintf(os.Stderr, "harness: %s: %v (seq %d, %s)\n", where, err, seq, st.text)
		out.Flush()
		os.Exit(2)
	}
	waitFreshMs()
	switch mode {
	case "db":
		pre, derr = takeDump(db.RW)
		if derr != nil {
			fail("pre-dump", derr)
		}
		e := &env{r: redis.RedkaDB(db), db: db}
		if st.prep != nil {
			st.prep(e)
			time.Sleep(3 * time.Millisecond)
		}
		t0 = nowMs()
		var raw string
		done := make(chan struct{})
		go func() {
			defer close(done)
			defer func() {
				if r := recover(); r != nil {
					raw = "PANIC"
				}
			}()
			raw = st.run(e, ident)
		}()
		select {
		case <-done:
		case <-time.After(wireHangAfter):
			// the call never returned (a deadlock on the single read-write connection, say): nothing
			// more can be learnt from this process
			fmt.Fprintf(out, "%d %d %s | %s | %s | HANG | %s\n", seq, nowMs(), mode, pre.render(ident), st.text, pre.render(ident))
			out.Flush()
			os.Exit(0)
		}
		t1 = nowMs()
		post, derr = takeDump(db.RW)
		if derr != nil {
			fail("post-dump", derr)
		}
		if withViews {
			if views, derr = takeViews(db.RW, post); derr != nil {
				fail("views", derr)
			}
		}
		res = raw
	case "tx":
		body := func(tx *redka.Tx) error {
			rawTx := redka.VerifRawTx(tx)
			var err error
			pre, err = takeDump(rawTx)
			if err != nil {
				return err
			}
			e := &env{r: redis.RedkaTx(tx), db: db, inTx: true}
			if st.prep != nil {
				st.prep(e)
				time.Sleep(3 * time.Millisecond)
			}
			t0 = nowMs()
			func() {
				defer func() {
					if r := recover(); r != nil {
						res = "PANIC"
					}
				}()
				res = st.run(e, ident)
			}()
			t1 = nowMs()
			post, err = takeDump(rawTx)
			if err == nil && withViews {
				views, err = takeViews(rawTx, post)
			}
			return err // nil: commit whatever the operation reported
		}
		var err error
		if curTx != nil {
			err = body(curTx) // one of several operations inside a transaction opened by the caller (txn traces)
		} else {
			err = db.Update(body)
		}
		if err != nil {
			fail("tx", err)
		}
	}
	lastT1 = t1
	tm := mkTm(t0, t1, st.ttl)
	res = retime(res, tm)
	text := st.text
	if strings.HasPrefix(res, "ORACLE ") {
		parts := strings.SplitN(res, " ", 3)
		text = text + " " + parts[1]
		res = parts[2]
	}
	if quiet {
		fmt.Fprintf(out, "#! %s\n", text)
		return
	}
	if withViews {
		fmt.Fprintf(out, "%d %d %s | %s | %s | %s | %s | %s\n", seq, t1, mode, pre.render(ident), text, res, post.render(tm), views)
		return
	}
	fmt.Fprintf(out, "%d %d %s | %s | %s | %s | %s\n", seq, t1, mode, pre.render(ident), text, res, post.render(tm))
}

// retime rewrites the etime/mtime tokens of `k id key ty ver etime mtime` groups in a result.
func retime(res string, tm func(int64) int64) string {
	if !strings.Contains(res, "k ") {
		return res
	}
	toks := strings.Split(res, " ")
	for i := 0; i+6 < len(toks); i++ {
		if toks[i] == "k" {
			for _, j := range []int{i + 5, i + 6} {
				if toks[j] != "-" {
					var v int64
					fmt.Sscan(toks[j], &v)
					toks[j] = fmt.Sprint(tm(v))
				}
			}
			i += 6
		}
	}
	return strings.Join(toks, " ")
}

func main() {
	if len(os.Args) > 1 && os.Args[1] == "wire" {
		os.Args = append(os.Args[:1], os.Args[2:]...)
		wireMain()
		return
	}
	if len(os.Args) > 5 && os.Args[1] == "crashchild" {
		crashChild(os.Args[2:])
		return
	}
	if len(os.Args) > 1 && os.Args[1] == "sock" {
		os.Args = append(os.Args[:1], os.Args[2:]...)
		sockMain()
		return
	}
	if len(os.Args) > 1 && os.Args[1] == "tick" {
		os.Args = append(os.Args[:1], os.Args[2:]...)
		tickMain()
		return
	}
	if len(os.Args) > 1 && os.Args[1] == "conc" {
		os.Args = append(os.Args[:1], os.Args[2:]...)
		concMain()
		return
	}
	if len(os.Args) > 1 && os.Args[1] == "crash" {
		os.Args = append(os.Args[:1], os.Args[2:]...)
		crashMain()
		return
	}
	if len(os.Args) > 1 && os.Args[1] == "srvconc" {
		os.Args = append(os.Args[:1], os.Args[2:]...)
		srvconcMain()
		return
	}
	if len(os.Args) > 1 && os.Args[1] == "ro" {
		os.Args = append(os.Args[:1], os.Args[2:]...)
		roMain()
		return
	}
	if len(os.Args) > 1 && os.Args[1] == "fault" {
		os.Args = append(os.Args[:1], os.Args[2:]...)
		faultMain()
		return
	}
	if len(os.Args) > 1 && os.Args[1] == "scan" {
		os.Args = append(os.Args[:1], os.Args[2:]...)
		scanMain()
		return
	}
	if len(os.Args) > 2 && os.Args[1] == "script" {
		out = bufio.NewWriterSize(os.Stdout, 1<<20)
		defer out.Flush()
		scriptMain(os.Args[2])
		return
	}
	if len(os.Args) > 1 && os.Args[1] == "api" {
		os.Args = append(os.Args[:1], os.Args[2:]...)
	}
	seed := flag.Int64("seed", 1, "PRNG seed")
	traces := flag.Int("traces", 10, "number of traces (fresh database each)")
	length := flag.Int("len", 60, "operations per trace")
	fams := flag.String("families", "str,key,list,set,hash,zset,expire", "operation families")
	mode := flag.String("mode", "db", "db | tx | mix")
	hostile := flag.Float64("hostile", 0.05, "probability of hostile names/values")
	flag.BoolVar(&withViews, "views", false, "append the content of the six SQL views to every line")
	flag.Parse()

	out = bufio.NewWriterSize(os.Stdout, 1<<20)
	defer out.Flush()
	rnd := rand.New(rand.NewSource(*seed))
	for t := 0; t < *traces; t++ {
		db := openDB()
		m := *mode
		if m == "mix" {
			m = []string{"db", "tx", "txn"}[rnd.Intn(3)]
		}
		g := &gen{rnd: rnd, hostile: *hostile, families: strings.Split(*fams, ","), dbLevel: m == "db"}
		if m == "txn" {
			// caller-managed transactions of 2..6 operations each; every operation is still one
			// Hoare triple judged at Tx level (dumps are read through the transaction's own handle)
			fmt.Fprintf(out, "# trace %d tx\n", t)
			for i := 0; i < *length; {
				n := 2 + rnd.Intn(5)
				err := db.Update(func(tx *redka.Tx) error {
					curTx = tx
					defer func() { curTx = nil }()
					for j := 0; j < n && i < *length; j++ {
						runStep(db, "tx", g.next())
						i++
					}
					return nil
				})
				if err != nil {
					fmt.Fprintln(os.Stderr, "txn:", err)
					os.Exit(2)
				}
			}
			db.Close()
			continue
		}
		fmt.Fprintf(out, "# trace %d %s\n", t, m)
		for i := 0; i < *length; i++ {
			if rnd.Intn(40) == 0 {
				runInvalid(db, m, rnd, g)
				continue
			}
			runStep(db, m, g.next())
		}
		db.Close()
	}
}
