//go:build verif

package main

import (
	"fmt"
	"strings"
)

// Value arguments given as Go int, bool and float64 (core.ToBytes stores their canonical text, C17).
// The operation text carries a typed literal — `i:<n>`, `t:0|1`, `f:<m>p<e>` — which the Lean driver
// turns into bytes with the model of `core.ToBytes` (`Conv.argBytes`); `n:` is a nil `[]byte`.
type gval struct {
	tok string
	v   any
}

var (
	typedInts   = []int{0, -1, 42, 7, 9223372036854775807, -9223372036854775808, 9007199254740993, 1000000}
	typedFloats = []float64{0.5, 3, -2.5, 0.1, 1e-7, 123456789.125, 1e15, 1e21, 1e22, 1152921504606846976,
		9007199254740994, 4503599627370497.5, 1.7976931348623157e308, 2.2250738585072014e-308, 6.02214076e23, 1.0 / 3.0,
		-4611686018427387904, 9223372036854775807}
)

func (g *gen) gval() gval {
	if g.rnd.Intn(6) == 0 {
		// a nil byte slice IS the empty byte string (`n:`)
		return gval{"n:", []byte(nil)}
	}
	switch g.rnd.Intn(3) {
	case 0:
		n := typedInts[g.rnd.Intn(len(typedInts))]
		return gval{fmt.Sprintf("i:%d", n), n}
	case 1:
		if g.coin() {
			return gval{"t:1", true}
		}
		return gval{"t:0", false}
	default:
		f := typedFloats[g.rnd.Intn(len(typedFloats))]
		return gval{"f:" + dy(f), f}
	}
}

func opStrSetG(k string, v gval) step {
	return step{text: "str.Set " + hxs(k) + " " + v.tok, family: "str", run: func(e *env, _ func(int64) int64) string {
		return rNil(e.r.Str().Set(k, v.v))
	}}
}

func opListPushG(k string, v gval, front bool) step {
	name := "list.PushBack"
	if front {
		name = "list.PushFront"
	}
	return step{text: name + " " + hxs(k) + " " + v.tok, family: "list", run: func(e *env, _ func(int64) int64) string {
		if front {
			return rInt(e.r.List().PushFront(k, v.v))
		}
		return rInt(e.r.List().PushBack(k, v.v))
	}}
}

func opSetAddG(k string, vs []gval) step {
	toks := make([]string, len(vs))
	args := make([]any, len(vs))
	for i, v := range vs {
		toks[i] = v.tok
		args[i] = v.v
	}
	return step{text: fmt.Sprintf("set.Add %s %d %s", hxs(k), len(vs), strings.Join(toks, " ")), family: "set",
		run: func(e *env, _ func(int64) int64) string {
			return rInt(e.r.Set().Add(k, args...))
		}}
}

func opHashSetG(k, f string, v gval) step {
	return step{text: "hash.Set " + hxs(k) + " " + hxs(f) + " " + v.tok, family: "hash", run: func(e *env, _ func(int64) int64) string {
		return rBool(e.r.Hash().Set(k, f, v.v))
	}}
}
