//go:build verif

package main

import (
	"errors"
	"fmt"
	"sort"
	"strings"
	"time"

	"github.com/nalgeon/redka"
	"github.com/nalgeon/redka/internal/core"
	"github.com/nalgeon/redka/internal/redis"
	"github.com/nalgeon/redka/internal/rstring"
	"github.com/nalgeon/redka/internal/rzset"
)

// env is what a step runs against: the repositories of a *redka.DB or of a *redka.Tx.
type env struct {
	r    redis.Redka
	db   *redka.DB // always set (DeleteExpired exists only on the DB-level key repository)
	inTx bool
}

// step is one API call: its protocol text, the ttl it adds to "now" (for timestamp
// canonicalisation, 0 if none) and the function that performs it and renders the result.
type step struct {
	text   string
	family string
	ttl    int64
	run    func(e *env, tm func(int64) int64) string
	// prep, when set, is called by the api / script modes a few milliseconds BEFORE the timed call:
	// it builds the command object (options set, not yet run), so that anything the builder computes
	// from the clock too early (a deadline frozen when the option is set) lies outside the call window
	prep func(e *env)
}

func errName(err error) string {
	switch {
	case errors.Is(err, core.ErrKeyType):
		return "keytype"
	case errors.Is(err, core.ErrNotFound):
		return "notfound"
	case errors.Is(err, core.ErrValueType):
		return "valuetype"
	case errors.Is(err, core.ErrNotAllowed):
		return "notallowed"
	}
	msg := err.Error()
	switch {
	case strings.Contains(msg, "UNIQUE constraint failed"):
		return "sql:unique"
	case strings.Contains(msg, "datatype mismatch"):
		return "sql:mismatch"
	case strings.Contains(msg, "NOT NULL constraint failed"):
		return "sql:notnull"
	}
	return "sql:other"
}

func rErr(err error) string  { return "err " + errName(err) }
func rNil(err error) string {
	if err != nil {
		return rErr(err)
	}
	return "ok nil"
}
func rInt(n int, err error) string {
	if err != nil {
		return rErr(err)
	}
	return fmt.Sprintf("ok i:%d", n)
}
func rBool(b bool, err error) string {
	if err != nil {
		return rErr(err)
	}
	if b {
		return "ok T"
	}
	return "ok F"
}
func rVal(v core.Value, err error) string {
	if err != nil {
		return rErr(err)
	}
	return "ok b:" + hx(v)
}
func rScore(f float64, err error) string {
	if err != nil {
		return rErr(err)
	}
	return "ok s:" + dy(f)
}

// rVals renders a list of byte strings; sorted when the API gives no order.
func rVals(vs []core.Value, err error, sorted bool) string {
	if err != nil {
		return rErr(err)
	}
	ss := make([]string, len(vs))
	for i, v := range vs {
		ss[i] = string(v)
	}
	if sorted {
		sort.Strings(ss)
	}
	var b strings.Builder
	fmt.Fprintf(&b, "ok L %d", len(ss))
	for _, s := range ss {
		b.WriteString(" b:" + hxs(s))
	}
	return b.String()
}

func rMap(m map[string]core.Value, err error) string {
	if err != nil {
		return rErr(err)
	}
	ks := make([]string, 0, len(m))
	for k := range m {
		ks = append(ks, k)
	}
	sort.Strings(ks)
	var b strings.Builder
	fmt.Fprintf(&b, "ok L %d", len(ks))
	for _, k := range ks {
		fmt.Fprintf(&b, " L 2 b:%s b:%s", hxs(k), hx(m[k]))
	}
	return b.String()
}

func keyTok(k core.Key, tm func(int64) int64) string {
	et := "-"
	if k.ETime != nil {
		et = fmt.Sprint(tm(*k.ETime))
	}
	return fmt.Sprintf("k %d %s %d %d %s %d", k.ID, hxs(k.Key), int(k.Type), k.Version, et, tm(k.MTime))
}

func rKey(k core.Key, err error, tm func(int64) int64) string {
	if err != nil {
		return rErr(err)
	}
	return "ok " + keyTok(k, tm)
}

func rKeys(ks []core.Key, err error, tm func(int64) int64) string {
	if err != nil {
		return rErr(err)
	}
	sort.Slice(ks, func(i, j int) bool { return ks[i].ID < ks[j].ID })
	var b strings.Builder
	fmt.Fprintf(&b, "ok L %d", len(ks))
	for _, k := range ks {
		b.WriteString(" " + keyTok(k, tm))
	}
	return b.String()
}

func rItems(items []rzset.SetItem, err error) string {
	if err != nil {
		return rErr(err)
	}
	var b strings.Builder
	fmt.Fprintf(&b, "ok L %d", len(items))
	for _, it := range items {
		fmt.Fprintf(&b, " L 2 b:%s s:%s", hx(it.Elem), dy(it.Score))
	}
	return b.String()
}

func listTok(xs []string) string {
	var b strings.Builder
	fmt.Fprintf(&b, "%d", len(xs))
	for _, x := range xs {
		b.WriteString(" " + hxs(x))
	}
	return b.String()
}

func anys(xs []string, asString bool) []any {
	out := make([]any, len(xs))
	for i, x := range xs {
		if asString {
			out[i] = x
		} else {
			out[i] = []byte(x)
		}
	}
	return out
}

func b01(b bool) string {
	if b {
		return "1"
	}
	return "0"
}

func ms(d int64) time.Duration { return time.Duration(d) * time.Millisecond }

// ---------------------------------------------------------------- strings

func opStrGet(k string) step {
	return step{text: "str.Get " + hxs(k), family: "str", run: func(e *env, _ func(int64) int64) string {
		return rVal(e.r.Str().Get(k))
	}}
}
func opStrGetMany(ks []string) step {
	return step{text: "str.GetMany " + listTok(ks), family: "str", run: func(e *env, _ func(int64) int64) string {
		return rMap(e.r.Str().GetMany(ks...))
	}}
}
func opStrIncr(k string, d int) step {
	return step{text: fmt.Sprintf("str.Incr %s %d", hxs(k), d), family: "str", run: func(e *env, _ func(int64) int64) string {
		return rInt(e.r.Str().Incr(k, d))
	}}
}
func opStrIncrFloat(k string, d float64) step {
	return step{text: fmt.Sprintf("str.IncrFloat %s %s", hxs(k), dy(d)), family: "str", run: func(e *env, _ func(int64) int64) string {
		return rScore(e.r.Str().IncrFloat(k, d))
	}}
}
func opStrSet(k, v string, asString bool) step {
	return step{text: "str.Set " + hxs(k) + " " + hxs(v), family: "str", run: func(e *env, _ func(int64) int64) string {
		var val any = []byte(v)
		if asString {
			val = v
		}
		return rNil(e.r.Str().Set(k, val))
	}}
}
func opStrSetExpires(k, v string, ttl int64) step {
	return step{text: fmt.Sprintf("str.SetExpires %s %s %d", hxs(k), hxs(v), ttl), family: "str", ttl: ttl,
		run: func(e *env, _ func(int64) int64) string {
			return rNil(e.r.Str().SetExpires(k, []byte(v), ms(ttl)))
		}}
}
func opStrSetMany(items [][2]string) step {
	var b strings.Builder
	fmt.Fprintf(&b, "str.SetMany %d", len(items))
	for _, it := range items {
		b.WriteString(" " + hxs(it[0]) + " " + hxs(it[1]))
	}
	return step{text: b.String(), family: "str", run: func(e *env, _ func(int64) int64) string {
		m := map[string]any{}
		for _, it := range items {
			m[it[0]] = []byte(it[1])
		}
		return rNil(e.r.Str().SetMany(m))
	}}
}

type setOpts struct {
	ifExists, ifNotExists bool
	ttl                   int64 // ms, applied when != 0 via TTL()
	at                    int64 // unix ms, applied when != 0 via At()
	keepTTL               bool
}

func opStrSetWith(k, v string, o setOpts) step {
	at := "-"
	if o.at != 0 {
		at = fmt.Sprint(o.at)
	}
	text := fmt.Sprintf("str.SetWith %s %s %s %s %d %s %s", hxs(k), hxs(v), b01(o.ifExists), b01(o.ifNotExists), o.ttl, at, b01(o.keepTTL))
	ttl := o.ttl
	if ttl < 0 {
		ttl = 0
	}
	var prepared *rstring.SetCmd
	build := func(e *env) rstring.SetCmd {
		c := e.r.Str().SetWith(k, []byte(v))
		return buildSetWith(c, v, o)
	}
	return step{text: text, family: "str", ttl: ttl, prep: func(e *env) {
		c := build(e)
		prepared = &c
	}, run: func(e *env, _ func(int64) int64) string {
		var c rstring.SetCmd
		if prepared != nil {
			c, prepared = *prepared, nil
		} else {
			c = build(e)
		}
		out, err := c.Run()
		if err != nil {
			return rErr(err)
		}
		prev := "nil"
		if out.Prev != nil {
			prev = "b:" + hx(out.Prev)
		}
		tf := func(b bool) string {
			if b {
				return "T"
			}
			return "F"
		}
		return fmt.Sprintf("ok L 3 %s %s %s", prev, tf(out.Created), tf(out.Updated))
	}}
}

func buildSetWith(c rstring.SetCmd, v string, o setOpts) rstring.SetCmd {
	{
		// at most one of ttl / at / keepTTL and one of ifExists / ifNotExists is set by the generator.
		// The builder methods commute; which group is applied first is derived from the value bytes so that
		// both orders are exercised and a replay repeats the same order.
		sum := 0
		for i := 0; i < len(v); i++ {
			sum += int(v[i])
		}
		condFirst := sum%2 == 1
		if condFirst {
			if o.ifExists {
				c = c.IfExists()
			}
			if o.ifNotExists {
				c = c.IfNotExists()
			}
		}
		if o.ttl != 0 {
			c = c.TTL(ms(o.ttl))
		}
		if o.at != 0 {
			c = c.At(time.UnixMilli(o.at))
		}
		if o.keepTTL {
			c = c.KeepTTL()
		}
		if !condFirst {
			if o.ifExists {
				c = c.IfExists()
			}
			if o.ifNotExists {
				c = c.IfNotExists()
			}
		}
		return c
	}
}

// ---------------------------------------------------------------- keys

func opKeyCount(ks []string) step {
	return step{text: "key.Count " + listTok(ks), family: "key", run: func(e *env, _ func(int64) int64) string {
		return rInt(e.r.Key().Count(ks...))
	}}
}
func opKeyDelete(ks []string) step {
	return step{text: "key.Delete " + listTok(ks), family: "key", run: func(e *env, _ func(int64) int64) string {
		return rInt(e.r.Key().Delete(ks...))
	}}
}
func opKeyDeleteAll() step {
	return step{text: "key.DeleteAll", family: "key", run: func(e *env, _ func(int64) int64) string {
		return rNil(e.r.Key().DeleteAll())
	}}
}
func opKeyDeleteExpired(n int) step { // DB level only
	return step{text: fmt.Sprintf("key.DeleteExpired %d", n), family: "key", run: func(e *env, _ func(int64) int64) string {
		return rInt(e.db.Key().DeleteExpired(n))
	}}
}
func opKeyExists(k string) step {
	return step{text: "key.Exists " + hxs(k), family: "key", run: func(e *env, _ func(int64) int64) string {
		return rBool(e.r.Key().Exists(k))
	}}
}
func opKeyExpire(k string, ttl int64) step {
	return step{text: fmt.Sprintf("key.Expire %s %d", hxs(k), ttl), family: "key", ttl: ttl, run: func(e *env, _ func(int64) int64) string {
		return rNil(e.r.Key().Expire(k, ms(ttl)))
	}}
}
func opKeyExpireAt(k string, at int64) step {
	return step{text: fmt.Sprintf("key.ExpireAt %s %d", hxs(k), at), family: "key", run: func(e *env, _ func(int64) int64) string {
		return rNil(e.r.Key().ExpireAt(k, time.UnixMilli(at)))
	}}
}
func opKeyGet(k string) step {
	return step{text: "key.Get " + hxs(k), family: "key", run: func(e *env, tm func(int64) int64) string {
		kk, err := e.r.Key().Get(k)
		return rKey(kk, err, tm)
	}}
}
func opKeyKeys(p string) step {
	return step{text: "key.Keys " + hxs(p), family: "key", run: func(e *env, tm func(int64) int64) string {
		ks, err := e.r.Key().Keys(p)
		return rKeys(ks, err, tm)
	}}
}
func opKeyLen() step {
	return step{text: "key.Len", family: "key", run: func(e *env, _ func(int64) int64) string {
		return rInt(e.r.Key().Len())
	}}
}
func opKeyPersist(k string) step {
	return step{text: "key.Persist " + hxs(k), family: "key", run: func(e *env, _ func(int64) int64) string {
		return rNil(e.r.Key().Persist(k))
	}}
}
func opKeyRename(k, nk string) step {
	return step{text: "key.Rename " + hxs(k) + " " + hxs(nk), family: "key", run: func(e *env, _ func(int64) int64) string {
		return rNil(e.r.Key().Rename(k, nk))
	}}
}
func opKeyRenameNX(k, nk string) step {
	return step{text: "key.RenameNotExists " + hxs(k) + " " + hxs(nk), family: "key", run: func(e *env, _ func(int64) int64) string {
		return rBool(e.r.Key().RenameNotExists(k, nk))
	}}
}
func opKeyScan(cursor int, p string, ty int, count int) step {
	return step{text: fmt.Sprintf("key.Scan %d %s %d %d", cursor, hxs(p), ty, count), family: "key", run: func(e *env, tm func(int64) int64) string {
		res, err := e.r.Key().Scan(cursor, p, core.TypeID(ty), count)
		if err != nil {
			return rErr(err)
		}
		var b strings.Builder
		fmt.Fprintf(&b, "ok L 2 i:%d L %d", res.Cursor, len(res.Keys))
		for _, k := range res.Keys {
			b.WriteString(" " + keyTok(k, tm))
		}
		return b.String()
	}}
}

// oracle ops put the observed random choice into the op text; see runStep.
func opKeyRandom() step {
	return step{text: "key.Random", family: "key", run: func(e *env, tm func(int64) int64) string {
		k, err := e.r.Key().Random()
		if err != nil {
			return "ORACLE - " + rErr(err)
		}
		return "ORACLE " + hxs(k.Key) + " " + rKey(k, nil, tm)
	}}
}

// ---------------------------------------------------------------- lists

func elemAny(s string, asString bool) any {
	if asString {
		return s
	}
	return []byte(s)
}

func opListDelete(k, el string) step {
	return step{text: "list.Delete " + hxs(k) + " " + hxs(el), family: "list", run: func(e *env, _ func(int64) int64) string {
		return rInt(e.r.List().Delete(k, []byte(el)))
	}}
}
func opListDeleteBack(k, el string, n int) step {
	return step{text: fmt.Sprintf("list.DeleteBack %s %s %d", hxs(k), hxs(el), n), family: "list", run: func(e *env, _ func(int64) int64) string {
		return rInt(e.r.List().DeleteBack(k, []byte(el), n))
	}}
}
func opListDeleteFront(k, el string, n int) step {
	return step{text: fmt.Sprintf("list.DeleteFront %s %s %d", hxs(k), hxs(el), n), family: "list", run: func(e *env, _ func(int64) int64) string {
		return rInt(e.r.List().DeleteFront(k, []byte(el), n))
	}}
}
func opListGet(k string, i int) step {
	return step{text: fmt.Sprintf("list.Get %s %d", hxs(k), i), family: "list", run: func(e *env, _ func(int64) int64) string {
		return rVal(e.r.List().Get(k, i))
	}}
}
func opListInsert(k, p, el string, after bool) step {
	name := "list.InsertBefore"
	if after {
		name = "list.InsertAfter"
	}
	return step{text: name + " " + hxs(k) + " " + hxs(p) + " " + hxs(el), family: "list", run: func(e *env, _ func(int64) int64) string {
		var n int
		var err error
		if after {
			n, err = e.r.List().InsertAfter(k, []byte(p), []byte(el))
		} else {
			n, err = e.r.List().InsertBefore(k, []byte(p), []byte(el))
		}
		if err != nil && errors.Is(err, core.ErrNotFound) && n == -1 {
			return "err pivotnotfound"
		}
		return rInt(n, err)
	}}
}
func opListLen(k string) step {
	return step{text: "list.Len " + hxs(k), family: "list", run: func(e *env, _ func(int64) int64) string {
		return rInt(e.r.List().Len(k))
	}}
}
func opListPopBack(k string) step {
	return step{text: "list.PopBack " + hxs(k), family: "list", run: func(e *env, _ func(int64) int64) string {
		return rVal(e.r.List().PopBack(k))
	}}
}
func opListPopFront(k string) step {
	return step{text: "list.PopFront " + hxs(k), family: "list", run: func(e *env, _ func(int64) int64) string {
		return rVal(e.r.List().PopFront(k))
	}}
}
func opListPopBackPushFront(s, d string) step {
	return step{text: "list.PopBackPushFront " + hxs(s) + " " + hxs(d), family: "list", run: func(e *env, _ func(int64) int64) string {
		return rVal(e.r.List().PopBackPushFront(s, d))
	}}
}
func opListPush(k, el string, front, asString bool) step {
	name := "list.PushBack"
	if front {
		name = "list.PushFront"
	}
	return step{text: name + " " + hxs(k) + " " + hxs(el), family: "list", run: func(e *env, _ func(int64) int64) string {
		if front {
			return rInt(e.r.List().PushFront(k, elemAny(el, asString)))
		}
		return rInt(e.r.List().PushBack(k, elemAny(el, asString)))
	}}
}
func opListRange(k string, a, b int) step {
	return step{text: fmt.Sprintf("list.Range %s %d %d", hxs(k), a, b), family: "list", run: func(e *env, _ func(int64) int64) string {
		vs, err := e.r.List().Range(k, a, b)
		return rVals(vs, err, false)
	}}
}
func opListSet(k string, i int, el string) step {
	return step{text: fmt.Sprintf("list.Set %s %d %s", hxs(k), i, hxs(el)), family: "list", run: func(e *env, _ func(int64) int64) string {
		return rNil(e.r.List().Set(k, i, []byte(el)))
	}}
}
func opListTrim(k string, a, b int) step {
	return step{text: fmt.Sprintf("list.Trim %s %d %d", hxs(k), a, b), family: "list", run: func(e *env, _ func(int64) int64) string {
		return rInt(e.r.List().Trim(k, a, b))
	}}
}

// ---------------------------------------------------------------- sets

func opSetAdd(k string, es []string, asString bool) step {
	return step{text: "set.Add " + hxs(k) + " " + listTok(es), family: "set", run: func(e *env, _ func(int64) int64) string {
		return rInt(e.r.Set().Add(k, anys(es, asString)...))
	}}
}
func opSetDelete(k string, es []string) step {
	return step{text: "set.Delete " + hxs(k) + " " + listTok(es), family: "set", run: func(e *env, _ func(int64) int64) string {
		return rInt(e.r.Set().Delete(k, anys(es, false)...))
	}}
}
func opSetDiff(ks []string) step {
	return step{text: "set.Diff " + listTok(ks), family: "set", run: func(e *env, _ func(int64) int64) string {
		vs, err := e.r.Set().Diff(ks...)
		return rVals(vs, err, true)
	}}
}
func opSetInter(ks []string) step {
	return step{text: "set.Inter " + listTok(ks), family: "set", run: func(e *env, _ func(int64) int64) string {
		vs, err := e.r.Set().Inter(ks...)
		return rVals(vs, err, true)
	}}
}
func opSetUnion(ks []string) step {
	return step{text: "set.Union " + listTok(ks), family: "set", run: func(e *env, _ func(int64) int64) string {
		vs, err := e.r.Set().Union(ks...)
		return rVals(vs, err, true)
	}}
}
func opSetDiffStore(d string, ks []string) step {
	return step{text: "set.DiffStore " + hxs(d) + " " + listTok(ks), family: "set", run: func(e *env, _ func(int64) int64) string {
		return rInt(e.r.Set().DiffStore(d, ks...))
	}}
}
func opSetInterStore(d string, ks []string) step {
	return step{text: "set.InterStore " + hxs(d) + " " + listTok(ks), family: "set", run: func(e *env, _ func(int64) int64) string {
		return rInt(e.r.Set().InterStore(d, ks...))
	}}
}
func opSetUnionStore(d string, ks []string) step {
	return step{text: "set.UnionStore " + hxs(d) + " " + listTok(ks), family: "set", run: func(e *env, _ func(int64) int64) string {
		return rInt(e.r.Set().UnionStore(d, ks...))
	}}
}
func opSetExists(k, el string) step {
	return step{text: "set.Exists " + hxs(k) + " " + hxs(el), family: "set", run: func(e *env, _ func(int64) int64) string {
		return rBool(e.r.Set().Exists(k, []byte(el)))
	}}
}
func opSetItems(k string) step {
	return step{text: "set.Items " + hxs(k), family: "set", run: func(e *env, _ func(int64) int64) string {
		vs, err := e.r.Set().Items(k)
		return rVals(vs, err, true)
	}}
}
func opSetLen(k string) step {
	return step{text: "set.Len " + hxs(k), family: "set", run: func(e *env, _ func(int64) int64) string {
		return rInt(e.r.Set().Len(k))
	}}
}
func opSetMove(s, d, el string) step {
	return step{text: "set.Move " + hxs(s) + " " + hxs(d) + " " + hxs(el), family: "set", run: func(e *env, _ func(int64) int64) string {
		return rNil(e.r.Set().Move(s, d, []byte(el)))
	}}
}
func opSetPop(k string) step {
	return step{text: "set.Pop " + hxs(k), family: "set", run: func(e *env, _ func(int64) int64) string {
		v, err := e.r.Set().Pop(k)
		if err != nil {
			return "ORACLE - " + rErr(err)
		}
		return "ORACLE " + hx(v) + " " + rVal(v, nil)
	}}
}
func opSetRandom(k string) step {
	return step{text: "set.Random " + hxs(k), family: "set", run: func(e *env, _ func(int64) int64) string {
		v, err := e.r.Set().Random(k)
		if err != nil {
			return "ORACLE - " + rErr(err)
		}
		return "ORACLE " + hx(v) + " " + rVal(v, nil)
	}}
}
func opSetScan(k string, cursor int, p string, count int) step {
	return step{text: fmt.Sprintf("set.Scan %s %d %s %d", hxs(k), cursor, hxs(p), count), family: "set", run: func(e *env, _ func(int64) int64) string {
		res, err := e.r.Set().Scan(k, cursor, p, count)
		if err != nil {
			return rErr(err)
		}
		var b strings.Builder
		fmt.Fprintf(&b, "ok L 2 i:%d L %d", res.Cursor, len(res.Items))
		for _, v := range res.Items {
			b.WriteString(" b:" + hx(v))
		}
		return b.String()
	}}
}

// ---------------------------------------------------------------- hashes

func opHashDelete(k string, fs []string) step {
	return step{text: "hash.Delete " + hxs(k) + " " + listTok(fs), family: "hash", run: func(e *env, _ func(int64) int64) string {
		return rInt(e.r.Hash().Delete(k, fs...))
	}}
}
func opHashExists(k, f string) step {
	return step{text: "hash.Exists " + hxs(k) + " " + hxs(f), family: "hash", run: func(e *env, _ func(int64) int64) string {
		return rBool(e.r.Hash().Exists(k, f))
	}}
}
func opHashFields(k string) step {
	return step{text: "hash.Fields " + hxs(k), family: "hash", run: func(e *env, _ func(int64) int64) string {
		fs, err := e.r.Hash().Fields(k)
		if err != nil {
			return rErr(err)
		}
		sort.Strings(fs)
		var b strings.Builder
		fmt.Fprintf(&b, "ok L %d", len(fs))
		for _, f := range fs {
			b.WriteString(" b:" + hxs(f))
		}
		return b.String()
	}}
}
func opHashGet(k, f string) step {
	return step{text: "hash.Get " + hxs(k) + " " + hxs(f), family: "hash", run: func(e *env, _ func(int64) int64) string {
		return rVal(e.r.Hash().Get(k, f))
	}}
}
func opHashGetMany(k string, fs []string) step {
	return step{text: "hash.GetMany " + hxs(k) + " " + listTok(fs), family: "hash", run: func(e *env, _ func(int64) int64) string {
		return rMap(e.r.Hash().GetMany(k, fs...))
	}}
}
func opHashIncr(k, f string, d int) step {
	return step{text: fmt.Sprintf("hash.Incr %s %s %d", hxs(k), hxs(f), d), family: "hash", run: func(e *env, _ func(int64) int64) string {
		return rInt(e.r.Hash().Incr(k, f, d))
	}}
}
func opHashIncrFloat(k, f string, d float64) step {
	return step{text: fmt.Sprintf("hash.IncrFloat %s %s %s", hxs(k), hxs(f), dy(d)), family: "hash", run: func(e *env, _ func(int64) int64) string {
		return rScore(e.r.Hash().IncrFloat(k, f, d))
	}}
}
func opHashItems(k string) step {
	return step{text: "hash.Items " + hxs(k), family: "hash", run: func(e *env, _ func(int64) int64) string {
		return rMap(e.r.Hash().Items(k))
	}}
}
func opHashLen(k string) step {
	return step{text: "hash.Len " + hxs(k), family: "hash", run: func(e *env, _ func(int64) int64) string {
		return rInt(e.r.Hash().Len(k))
	}}
}
func opHashScan(k string, cursor int, p string, count int) step {
	return step{text: fmt.Sprintf("hash.Scan %s %d %s %d", hxs(k), cursor, hxs(p), count), family: "hash", run: func(e *env, _ func(int64) int64) string {
		res, err := e.r.Hash().Scan(k, cursor, p, count)
		if err != nil {
			return rErr(err)
		}
		var b strings.Builder
		fmt.Fprintf(&b, "ok L 2 i:%d L %d", res.Cursor, len(res.Items))
		for _, it := range res.Items {
			fmt.Fprintf(&b, " L 2 b:%s b:%s", hxs(it.Field), hx(it.Value))
		}
		return b.String()
	}}
}
func opHashSet(k, f, v string, asString bool) step {
	return step{text: "hash.Set " + hxs(k) + " " + hxs(f) + " " + hxs(v), family: "hash", run: func(e *env, _ func(int64) int64) string {
		return rBool(e.r.Hash().Set(k, f, elemAny(v, asString)))
	}}
}
func opHashSetMany(k string, items [][2]string) step {
	var b strings.Builder
	fmt.Fprintf(&b, "hash.SetMany %s %d", hxs(k), len(items))
	for _, it := range items {
		b.WriteString(" " + hxs(it[0]) + " " + hxs(it[1]))
	}
	return step{text: b.String(), family: "hash", run: func(e *env, _ func(int64) int64) string {
		m := map[string]any{}
		for _, it := range items {
			m[it[0]] = []byte(it[1])
		}
		return rInt(e.r.Hash().SetMany(k, m))
	}}
}
func opHashSetNX(k, f, v string) step {
	return step{text: "hash.SetNotExists " + hxs(k) + " " + hxs(f) + " " + hxs(v), family: "hash", run: func(e *env, _ func(int64) int64) string {
		return rBool(e.r.Hash().SetNotExists(k, f, []byte(v)))
	}}
}
func opHashValues(k string) step {
	return step{text: "hash.Values " + hxs(k), family: "hash", run: func(e *env, _ func(int64) int64) string {
		vs, err := e.r.Hash().Values(k)
		return rVals(vs, err, true)
	}}
}

// ---------------------------------------------------------------- sorted sets

func aggName(a int) string { return []string{"sum", "min", "max"}[a] }

func opZAdd(k, el string, s float64) step {
	return step{text: fmt.Sprintf("zset.Add %s %s %s", hxs(k), hxs(el), dy(s)), family: "zset", run: func(e *env, _ func(int64) int64) string {
		return rBool(e.r.ZSet().Add(k, []byte(el), s))
	}}
}

type zitem struct {
	el string
	s  float64
}

func opZAddMany(k string, items []zitem) step {
	var b strings.Builder
	fmt.Fprintf(&b, "zset.AddMany %s %d", hxs(k), len(items))
	for _, it := range items {
		b.WriteString(" " + hxs(it.el) + " " + dy(it.s))
	}
	return step{text: b.String(), family: "zset", run: func(e *env, _ func(int64) int64) string {
		m := map[any]float64{}
		for _, it := range items {
			m[it.el] = it.s
		}
		return rInt(e.r.ZSet().AddMany(k, m))
	}}
}
func opZCount(k string, lo, hi float64) step {
	return step{text: fmt.Sprintf("zset.Count %s %s %s", hxs(k), dy(lo), dy(hi)), family: "zset", run: func(e *env, _ func(int64) int64) string {
		return rInt(e.r.ZSet().Count(k, lo, hi))
	}}
}
func opZDelete(k string, es []string) step {
	return step{text: "zset.Delete " + hxs(k) + " " + listTok(es), family: "zset", run: func(e *env, _ func(int64) int64) string {
		return rInt(e.r.ZSet().Delete(k, anys(es, false)...))
	}}
}
// The builder commands of sorted sets (DeleteWith, InterWith / UnionWith with a destination) are sometimes BUILT a few
// milliseconds before they run (the `prep` hook of the step, like prepared SetWith commands): whatever a command
// object captures when it is created - a clock value, a key lookup - then differs from what holds when it runs.
func opZDeleteRank(k string, a, b int) step {
	var prepared *rzset.DeleteCmd
	return step{text: fmt.Sprintf("zset.DeleteRank %s %d %d", hxs(k), a, b), family: "zset", prep: func(e *env) {
		if (a+b)%2 == 0 {
			c := e.r.ZSet().DeleteWith(k).ByRank(a, b)
			prepared = &c
		}
	}, run: func(e *env, _ func(int64) int64) string {
		if prepared != nil {
			c := *prepared
			prepared = nil
			return rInt(c.Run())
		}
		return rInt(e.r.ZSet().DeleteWith(k).ByRank(a, b).Run())
	}}
}
func opZDeleteScore(k string, lo, hi float64) step {
	var prepared *rzset.DeleteCmd
	return step{text: fmt.Sprintf("zset.DeleteScore %s %s %s", hxs(k), dy(lo), dy(hi)), family: "zset", prep: func(e *env) {
		if len(k)%2 == 0 {
			c := e.r.ZSet().DeleteWith(k).ByScore(lo, hi)
			prepared = &c
		}
	}, run: func(e *env, _ func(int64) int64) string {
		if prepared != nil {
			c := *prepared
			prepared = nil
			return rInt(c.Run())
		}
		return rInt(e.r.ZSet().DeleteWith(k).ByScore(lo, hi).Run())
	}}
}
func opZGetRank(k, el string, rev bool) step {
	name := "zset.GetRank"
	if rev {
		name = "zset.GetRankRev"
	}
	return step{text: name + " " + hxs(k) + " " + hxs(el), family: "zset", run: func(e *env, _ func(int64) int64) string {
		var rank int
		var sc float64
		var err error
		if rev {
			rank, sc, err = e.r.ZSet().GetRankRev(k, []byte(el))
		} else {
			rank, sc, err = e.r.ZSet().GetRank(k, []byte(el))
		}
		if err != nil {
			return rErr(err)
		}
		return fmt.Sprintf("ok L 2 i:%d s:%s", rank, dy(sc))
	}}
}
func opZGetScore(k, el string) step {
	return step{text: "zset.GetScore " + hxs(k) + " " + hxs(el), family: "zset", run: func(e *env, _ func(int64) int64) string {
		return rScore(e.r.ZSet().GetScore(k, []byte(el)))
	}}
}
func opZIncr(k, el string, d float64) step {
	return step{text: fmt.Sprintf("zset.Incr %s %s %s", hxs(k), hxs(el), dy(d)), family: "zset", run: func(e *env, _ func(int64) int64) string {
		return rScore(e.r.ZSet().Incr(k, []byte(el), d))
	}}
}
func opZInter(ks []string, agg int) step {
	return step{text: "zset.Inter " + listTok(ks) + " " + aggName(agg), family: "zset", run: func(e *env, _ func(int64) int64) string {
		c := e.r.ZSet().InterWith(ks...)
		switch agg {
		case 1:
			c = c.Min()
		case 2:
			c = c.Max()
		}
		// a command is a value: running it does not wear it out. It is run twice on the same data and the SECOND
		// answer is the one judged (a first run that scribbles over the key list it shares with its copies shows here)
		c.Run()
		items, err := c.Run()
		return rItems(items, err)
	}}
}
func opZUnion(ks []string, agg int) step {
	return step{text: "zset.Union " + listTok(ks) + " " + aggName(agg), family: "zset", run: func(e *env, _ func(int64) int64) string {
		c := e.r.ZSet().UnionWith(ks...)
		switch agg {
		case 1:
			c = c.Min()
		case 2:
			c = c.Max()
		}
		c.Run()
		items, err := c.Run()
		return rItems(items, err)
	}}
}
func opZInterStore(d string, ks []string, agg int) step {
	build := func(e *env) rzset.InterCmd {
		c := e.r.ZSet().InterWith(ks...).Dest(d)
		switch agg {
		case 1:
			c = c.Min()
		case 2:
			c = c.Max()
		}
		return c
	}
	var prepared *rzset.InterCmd
	return step{text: "zset.InterStore " + hxs(d) + " " + listTok(ks) + " " + aggName(agg), family: "zset", prep: func(e *env) {
		if len(ks)%2 == 0 {
			c := build(e)
			prepared = &c
		}
	}, run: func(e *env, _ func(int64) int64) string {
		if prepared != nil {
			c := *prepared
			prepared = nil
			return rInt(c.Store())
		}
		return rInt(build(e).Store())
	}}
}
func opZUnionStore(d string, ks []string, agg int) step {
	build := func(e *env) rzset.UnionCmd {
		c := e.r.ZSet().UnionWith(ks...).Dest(d)
		switch agg {
		case 1:
			c = c.Min()
		case 2:
			c = c.Max()
		}
		return c
	}
	var prepared *rzset.UnionCmd
	return step{text: "zset.UnionStore " + hxs(d) + " " + listTok(ks) + " " + aggName(agg), family: "zset", prep: func(e *env) {
		if len(ks)%2 == 1 {
			c := build(e)
			prepared = &c
		}
	}, run: func(e *env, _ func(int64) int64) string {
		if prepared != nil {
			c := *prepared
			prepared = nil
			return rInt(c.Store())
		}
		return rInt(build(e).Store())
	}}
}
func opZLen(k string) step {
	return step{text: "zset.Len " + hxs(k), family: "zset", run: func(e *env, _ func(int64) int64) string {
		return rInt(e.r.ZSet().Len(k))
	}}
}
func opZRangeRank(k string, a, b int, desc bool) step {
	return step{text: fmt.Sprintf("zset.RangeRank %s %d %d %s", hxs(k), a, b, b01(desc)), family: "zset", run: func(e *env, _ func(int64) int64) string {
		c := e.r.ZSet().RangeWith(k).ByRank(a, b)
		if desc {
			c = c.Desc()
		}
		items, err := c.Run()
		return rItems(items, err)
	}}
}
func opZRangeScore(k string, lo, hi float64, desc bool, off, cnt int) step {
	return step{text: fmt.Sprintf("zset.RangeScore %s %s %s %s %d %d", hxs(k), dy(lo), dy(hi), b01(desc), off, cnt), family: "zset", run: func(e *env, _ func(int64) int64) string {
		c := e.r.ZSet().RangeWith(k).ByScore(lo, hi)
		if desc {
			c = c.Desc()
		}
		c = c.Offset(off).Count(cnt)
		items, err := c.Run()
		return rItems(items, err)
	}}
}
func opZScan(k string, cursor int, p string, count int) step {
	return step{text: fmt.Sprintf("zset.Scan %s %d %s %d", hxs(k), cursor, hxs(p), count), family: "zset", run: func(e *env, _ func(int64) int64) string {
		res, err := e.r.ZSet().Scan(k, cursor, p, count)
		if err != nil {
			return rErr(err)
		}
		var b strings.Builder
		fmt.Fprintf(&b, "ok L 2 i:%d L %d", res.Cursor, len(res.Items))
		for _, it := range res.Items {
			fmt.Fprintf(&b, " L 2 b:%s s:%s", hx(it.Elem), dy(it.Score))
		}
		return b.String()
	}}
}
