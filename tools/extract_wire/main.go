// Command extract_wire regenerates RedkaModel/Generated/Grammar.lean from the redka working
// tree: for every `ParseXxx` function of internal/command/* the argument tree of its
// `parser.New(...).Required(n)` call as a `Redka.Wire.Grammar` value (slot names are the
// `&cmd.field` / `&local` destinations), the list of hand-written parse functions (no pipeline),
// and the dispatch table of internal/command/command.go.
//
// Standard library only (go/ast, go/parser). Constructs it does not recognise are emitted as
// `P.unknown "<source text>"`, which the Lean interpreter treats as an `unsupported` outcome;
// the extractor itself never fails on them.
//
//	go run . -repo /repo -ns Generated -out /verif/lean/RedkaModel/Generated/Grammar.lean
package main

import (
	"bytes"
	"flag"
	"fmt"
	"go/ast"
	"go/parser"
	"go/printer"
	"go/token"
	"os"
	"path/filepath"
	"sort"
	"strconv"
	"strings"
)

type grammar struct {
	pkg      string // directory name under internal/command
	fn       string // ParseXxx
	parsers  []string
	required string
	params   []string // extra parameters of the parse function (e.g. multi, sign)
}

type manual struct {
	pkg, fn string
	params  []string
}

type dispatchRow struct {
	name string
	call string // "<import name>.ParseXxx"
	args []string
}

var (
	fset   = token.NewFileSet()
	consts = map[string]map[string]string{} // package name -> identifier -> string value
)

func src(n ast.Node) string {
	var b bytes.Buffer
	printer.Fprint(&b, fset, n)
	return strings.Join(strings.Fields(b.String()), " ")
}

func leanStr(s string) string {
	var b strings.Builder
	b.WriteByte('"')
	for _, r := range s {
		switch {
		case r == '"':
			b.WriteString("\\\"")
		case r == '\\':
			b.WriteString("\\\\")
		case r == '\n':
			b.WriteString("\\n")
		case r < 32 || r == 127:
			fmt.Fprintf(&b, "\\x%02x", r)
		default:
			b.WriteRune(r)
		}
	}
	b.WriteByte('"')
	return b.String()
}

func parseDir(dir string) map[string]*ast.File {
	out := map[string]*ast.File{}
	ents, err := os.ReadDir(dir)
	if err != nil {
		return out
	}
	for _, e := range ents {
		n := e.Name()
		if e.IsDir() || !strings.HasSuffix(n, ".go") || strings.HasSuffix(n, "_test.go") {
			continue
		}
		f, err := parser.ParseFile(fset, filepath.Join(dir, n), nil, 0)
		if err != nil {
			fmt.Fprintln(os.Stderr, "extract_wire: skip", n, err)
			continue
		}
		out[n] = f
	}
	return out
}

// collectConsts records `const X = "literal"` declarations of a package.
func collectConsts(pkg string, files map[string]*ast.File) {
	m := consts[pkg]
	if m == nil {
		m = map[string]string{}
		consts[pkg] = m
	}
	for _, f := range files {
		for _, d := range f.Decls {
			gd, ok := d.(*ast.GenDecl)
			if !ok || gd.Tok != token.CONST {
				continue
			}
			for _, sp := range gd.Specs {
				vs := sp.(*ast.ValueSpec)
				for i, name := range vs.Names {
					if i < len(vs.Values) {
						if bl, ok := vs.Values[i].(*ast.BasicLit); ok && bl.Kind == token.STRING {
							if s, err := strconv.Unquote(bl.Value); err == nil {
								m[name.Name] = s
							}
						}
					}
				}
			}
		}
	}
}

// strConst resolves a string literal, a package constant or a pkg.Const selector.
func strConst(pkg string, e ast.Expr) (string, bool) {
	switch v := e.(type) {
	case *ast.BasicLit:
		if v.Kind == token.STRING {
			s, err := strconv.Unquote(v.Value)
			return s, err == nil
		}
	case *ast.Ident:
		s, ok := consts[pkg][v.Name]
		return s, ok
	case *ast.SelectorExpr:
		if x, ok := v.X.(*ast.Ident); ok {
			s, ok := consts[x.Name][v.Sel.Name]
			return s, ok
		}
	}
	return "", false
}

// dest names the variable behind `&cmd.field` or `&local`.
func dest(e ast.Expr) (string, bool) {
	u, ok := e.(*ast.UnaryExpr)
	if !ok || u.Op != token.AND {
		return "", false
	}
	switch v := u.X.(type) {
	case *ast.SelectorExpr:
		if _, ok := v.X.(*ast.Ident); ok {
			return v.Sel.Name, true
		}
	case *ast.Ident:
		return v.Name, true
	}
	return "", false
}

func unknown(e ast.Expr) string { return ".unknown " + leanStr(src(e)) }

// convP turns one argument of parser.New / Named / OneOf into a Lean `P` term.
func convP(pkg string, e ast.Expr) string {
	call, ok := e.(*ast.CallExpr)
	if !ok {
		return unknown(e)
	}
	sel, ok := call.Fun.(*ast.SelectorExpr)
	if !ok {
		return unknown(e)
	}
	if x, ok := sel.X.(*ast.Ident); !ok || x.Name != "parser" {
		return unknown(e)
	}
	a := call.Args
	one := func(ctor string) string {
		if len(a) != 1 {
			return unknown(e)
		}
		d, ok := dest(a[0])
		if !ok {
			return unknown(e)
		}
		return fmt.Sprintf(".%s %s", ctor, leanStr(d))
	}
	subs := func(es []ast.Expr) string {
		parts := make([]string, len(es))
		for i, s := range es {
			parts[i] = convP(pkg, s)
		}
		return "[" + strings.Join(parts, ", ") + "]"
	}
	switch sel.Sel.Name {
	case "String":
		return one("string")
	case "Bytes":
		return one("bytes")
	case "Int":
		return one("int")
	case "Float":
		return one("float")
	case "Strings":
		return one("strings")
	case "Anys":
		return one("anys")
	case "AnyMap":
		return one("anyMap")
	case "FloatMap":
		return one("floatMap")
	case "Enum":
		if len(a) < 1 {
			return unknown(e)
		}
		d, ok := dest(a[0])
		if !ok {
			return unknown(e)
		}
		vals := make([]string, 0, len(a)-1)
		for _, v := range a[1:] {
			s, ok := strConst(pkg, v)
			if !ok {
				return unknown(e)
			}
			vals = append(vals, leanStr(s))
		}
		return fmt.Sprintf(".enum %s [%s]", leanStr(d), strings.Join(vals, ", "))
	case "StringsN":
		if len(a) != 2 {
			return unknown(e)
		}
		d, ok1 := dest(a[0])
		n, ok2 := dest(a[1])
		if !ok1 || !ok2 {
			return unknown(e)
		}
		return fmt.Sprintf(".stringsN %s %s", leanStr(d), leanStr(n))
	case "Flag":
		if len(a) != 2 {
			return unknown(e)
		}
		name, ok1 := strConst(pkg, a[0])
		d, ok2 := dest(a[1])
		if !ok1 || !ok2 {
			return unknown(e)
		}
		return fmt.Sprintf(".flag %s %s", leanStr(name), leanStr(d))
	case "Named":
		if len(a) < 1 {
			return unknown(e)
		}
		name, ok := strConst(pkg, a[0])
		if !ok {
			return unknown(e)
		}
		return fmt.Sprintf(".named %s %s", leanStr(name), subs(a[1:]))
	case "OneOf":
		return ".oneOf " + subs(a)
	}
	return unknown(e)
}

// findPipeline looks for `parser.New(ps...).Required(n)` inside a function body.
func findPipeline(body *ast.BlockStmt) (newCall *ast.CallExpr, required ast.Expr, nNew int) {
	ast.Inspect(body, func(n ast.Node) bool {
		call, ok := n.(*ast.CallExpr)
		if !ok {
			return true
		}
		sel, ok := call.Fun.(*ast.SelectorExpr)
		if !ok {
			return true
		}
		if x, ok := sel.X.(*ast.Ident); ok && x.Name == "parser" && sel.Sel.Name == "New" {
			nNew++
			if newCall == nil {
				newCall = call
			}
		}
		if sel.Sel.Name == "Required" && len(call.Args) == 1 {
			required = call.Args[0]
		}
		return true
	})
	return
}

func paramNames(fd *ast.FuncDecl) []string {
	var out []string
	for i, f := range fd.Type.Params.List {
		for _, n := range f.Names {
			if i == 0 && len(out) == 0 {
				// the first parameter is the redis.BaseCmd
				out = append(out, "")
				continue
			}
			out = append(out, n.Name)
		}
	}
	if len(out) > 0 {
		out = out[1:]
	}
	return out
}

func main() {
	repo := flag.String("repo", "/repo", "redka working tree")
	ns := flag.String("ns", "Generated", "Lean namespace suffix (Generated | Expected)")
	outPath := flag.String("out", "", "output file (stdout when empty)")
	cmdsPath := flag.String("cmds", "", "second output: source of every command object (Cmds.lean); skipped when empty")
	flag.Parse()
	if *cmdsPath != "" {
		if err := emitCmds(*repo, *ns, *cmdsPath); err != nil {
			fmt.Fprintln(os.Stderr, "extract_wire: cmds:", err)
			os.Exit(1)
		}
	}

	cmdDir := filepath.Join(*repo, "internal", "command")
	collectConsts("sqlx", parseDir(filepath.Join(*repo, "internal", "sqlx")))

	var grammars []grammar
	var manuals []manual
	ents, _ := os.ReadDir(cmdDir)
	for _, e := range ents {
		if !e.IsDir() {
			continue
		}
		pkg := e.Name()
		files := parseDir(filepath.Join(cmdDir, pkg))
		collectConsts(pkg, files)
		names := make([]string, 0, len(files))
		for n := range files {
			names = append(names, n)
		}
		sort.Strings(names)
		for _, n := range names {
			for _, d := range files[n].Decls {
				fd, ok := d.(*ast.FuncDecl)
				if !ok || fd.Recv != nil || fd.Body == nil || !strings.HasPrefix(fd.Name.Name, "Parse") {
					continue
				}
				// only functions whose first parameter is a redis.BaseCmd are command parsers
				if fd.Type.Params == nil || len(fd.Type.Params.List) == 0 ||
					src(fd.Type.Params.List[0].Type) != "redis.BaseCmd" {
					continue
				}
				nc, req, nNew := findPipeline(fd.Body)
				if nc == nil {
					manuals = append(manuals, manual{pkg, fd.Name.Name, paramNames(fd)})
					continue
				}
				g := grammar{pkg: pkg, fn: fd.Name.Name, params: paramNames(fd)}
				for _, a := range nc.Args {
					g.parsers = append(g.parsers, convP(pkg, a))
				}
				if nNew != 1 {
					g.parsers = append(g.parsers, ".unknown "+leanStr(fmt.Sprintf("%d parser.New calls", nNew)))
				}
				switch r := req.(type) {
				case nil:
					g.required = "0"
				case *ast.BasicLit:
					if _, err := strconv.ParseUint(r.Value, 10, 32); err == nil {
						g.required = r.Value
					}
				}
				if g.required == "" {
					g.required = "0"
					g.parsers = append(g.parsers, ".unknown "+leanStr("Required("+src(req)+")"))
				}
				grammars = append(grammars, g)
			}
		}
	}

	// dispatch table
	var rows []dispatchRow
	dflt := ""
	imports := map[string]string{} // import name -> directory
	if f, err := parser.ParseFile(fset, filepath.Join(cmdDir, "command.go"), nil, 0); err == nil {
		for _, im := range f.Imports {
			p, _ := strconv.Unquote(im.Path.Value)
			name := filepath.Base(p)
			if im.Name != nil {
				name = im.Name.Name
			}
			imports[name] = filepath.Base(p)
		}
		ast.Inspect(f, func(n ast.Node) bool {
			cc, ok := n.(*ast.CaseClause)
			if !ok {
				return true
			}
			call := ""
			var args []string
			if len(cc.Body) == 1 {
				if rs, ok := cc.Body[0].(*ast.ReturnStmt); ok && len(rs.Results) == 1 {
					if ce, ok := rs.Results[0].(*ast.CallExpr); ok {
						call = src(ce.Fun)
						if sel, ok := ce.Fun.(*ast.SelectorExpr); ok {
							if x, ok := sel.X.(*ast.Ident); ok {
								if dir, ok := imports[x.Name]; ok {
									call = dir + "." + sel.Sel.Name
								}
							}
						}
						for i, a := range ce.Args {
							if i == 0 {
								continue // b
							}
							// extra arguments must be integer literals (multipliers, signs)
							t := strings.ReplaceAll(src(a), " ", "")
							if _, err := strconv.ParseInt(t, 10, 64); err != nil {
								call = "?" + src(ce)
								break
							}
							args = append(args, t)
						}
					}
				}
			}
			if call == "" {
				call = "?" + src(cc)
			}
			if cc.List == nil {
				dflt = call
				return true
			}
			for _, l := range cc.List {
				name, ok := strConst("command", l)
				if !ok {
					name = "?" + src(l)
				}
				rows = append(rows, dispatchRow{name, call, args})
			}
			return true
		})
	}

	var b strings.Builder
	w := func(format string, a ...any) { fmt.Fprintf(&b, format, a...) }
	w("/-\n  %s by tools/extract_wire from the redka source tree: the `parser.New(...)` argument tree of\n", map[bool]string{true: "GENERATED", false: "Committed expectation, produced"}[*ns == "Generated"])
	w("  every `ParseXxx` in internal/command/*, the hand-written parse functions, and the dispatch\n  table of internal/command/command.go.")
	if *ns == "Generated" {
		w(" Do not edit; `RedkaModel/Tie/Grammar.lean` compares it with\n  `RedkaModel/Model/Wire/GrammarExpected.lean`.\n-/\n")
	} else {
		w(" Reviewed by hand against the Go source; the model's\n  theorems are stated about these values, `RedkaModel/Tie/Grammar.lean` ties the generated file to them.\n-/\n")
	}
	w("import RedkaModel.Model.Wire.Parser\n\nnamespace Redka.Wire.%s\n\nopen Redka.Wire\n\n", *ns)
	gname := func(g grammar) string { return "grammar_" + strings.TrimPrefix(g.fn, "Parse") }
	seen := map[string]int{}
	for _, g := range grammars {
		seen[gname(g)]++
	}
	uname := func(g grammar) string {
		if seen[gname(g)] > 1 {
			return "grammar_" + g.pkg + "_" + strings.TrimPrefix(g.fn, "Parse")
		}
		return gname(g)
	}
	for _, g := range grammars {
		w("/-- `%s.%s` -/\ndef %s : Grammar :=\n  { parsers := [\n", g.pkg, g.fn, uname(g))
		for i, p := range g.parsers {
			sep := ","
			if i == len(g.parsers)-1 {
				sep = ""
			}
			w("      %s%s\n", p, sep)
		}
		w("    ],\n    required := %s }\n\n", g.required)
	}
	w("/-- every pipeline-based parse function: name, extra parameters, grammar -/\ndef grammars : List (String × List String × Grammar) := [\n")
	for i, g := range grammars {
		ps := make([]string, len(g.params))
		for j, p := range g.params {
			ps[j] = leanStr(p)
		}
		sep := ","
		if i == len(grammars)-1 {
			sep = ""
		}
		w("  (%s, [%s], %s)%s\n", leanStr(g.pkg+"."+g.fn), strings.Join(ps, ", "), uname(g), sep)
	}
	w("]\n\n/-- parse functions that inspect `cmd.Args()` by hand (no pipeline): name, extra parameters -/\ndef manualParsers : List (String × List String) := [\n")
	for i, m := range manuals {
		ps := make([]string, len(m.params))
		for j, p := range m.params {
			ps[j] = leanStr(p)
		}
		sep := ","
		if i == len(manuals)-1 {
			sep = ""
		}
		w("  (%s, [%s])%s\n", leanStr(m.pkg+"."+m.fn), strings.Join(ps, ", "), sep)
	}
	w("]\n\n/-- `command.Parse`: lower-cased command name ↦ parse function and its extra arguments -/\ndef dispatch : List (String × String × List Int) := [\n")
	for i, r := range rows {
		as := make([]string, len(r.args))
		for j, a := range r.args {
			as[j] = a
			if strings.HasPrefix(a, "-") {
				as[j] = "(" + a + ")"
			}
		}
		sep := ","
		if i == len(rows)-1 {
			sep = ""
		}
		w("  (%s, %s, [%s])%s\n", leanStr(r.name), leanStr(r.call), strings.Join(as, ", "), sep)
	}
	w("]\n\n/-- the `default:` branch of `command.Parse` -/\ndef dispatchDefault : String := %s\n\nend Redka.Wire.%s\n", leanStr(dflt), *ns)

	if *outPath == "" {
		fmt.Print(b.String())
		return
	}
	if err := os.MkdirAll(filepath.Dir(*outPath), 0o755); err != nil {
		fmt.Fprintln(os.Stderr, "extract_wire:", err)
		os.Exit(1)
	}
	if err := os.WriteFile(*outPath, []byte(b.String()), 0o644); err != nil {
		fmt.Fprintln(os.Stderr, "extract_wire:", err)
		os.Exit(1)
	}
}
