module extractwire

go 1.23
