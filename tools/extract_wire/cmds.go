package main

// Second output of extract_wire: the SOURCE of every command object of internal/command/* —
// the whole `ParseXxx` function and the `Run` method of the type it returns, printed with
// go/printer after alpha-renaming of locals (parameters, receivers, `:=`/var/range bindings become
// v0, v1, … in order of first appearance, so renaming a local is invisible while any change of an
// expression, a comparison, a call, a literal or the order of statements is visible), plus
// structured facets of `Run`: the repository methods called on the `redis.Redka` parameter
// (`red.Str().SetWith` ↦ "Str.SetWith"), every method name called in the body, and the writer
// calls. Also every other function/method of those packages (helpers) and the command tables of
// docs/commands/*.md ("Command / Go API" rows): the *documented* API call of each command.

import (
	"fmt"
	"go/ast"
	"go/parser"
	"os"
	"path/filepath"
	"regexp"
	"sort"
	"strings"
)

type cmdSrc struct {
	pkg, parseFn, ty string
	parse, run       string
	calls            []string // "Str.SetWith", source order, first occurrence
	methods          []string // sorted unique selector names called in Run
	writes           []string // sorted unique w.WriteXxx / redis.WriteXxx names
}

// alpha renames the identifiers bound inside fd (they carry an ast.Object whose declaration lies
// inside the function) to v0, v1, … and returns the printed function.
func alpha(fd *ast.FuncDecl) string {
	names := map[*ast.Object]string{}
	lo, hi := fd.Pos(), fd.End()
	ast.Inspect(fd, func(n ast.Node) bool {
		id, ok := n.(*ast.Ident)
		if !ok || id.Obj == nil || id.Obj.Kind != ast.Var || id.Name == "_" {
			return true
		}
		d, ok := id.Obj.Decl.(ast.Node)
		if !ok || d.Pos() < lo || d.End() > hi {
			return true
		}
		if _, seen := names[id.Obj]; !seen {
			names[id.Obj] = fmt.Sprintf("v%d", len(names))
		}
		return true
	})
	ast.Inspect(fd, func(n ast.Node) bool {
		if id, ok := n.(*ast.Ident); ok && id.Obj != nil {
			if nn, ok := names[id.Obj]; ok {
				id.Name = nn
			}
		}
		return true
	})
	return src(fd)
}

func recvType(fd *ast.FuncDecl) string {
	if fd.Recv == nil || len(fd.Recv.List) == 0 {
		return ""
	}
	t := fd.Recv.List[0].Type
	if s, ok := t.(*ast.StarExpr); ok {
		t = s.X
	}
	return src(t)
}

// runFacets inspects a Run method BEFORE alpha renaming.
func runFacets(fd *ast.FuncDecl) (calls, methods, writes []string) {
	wName, redName := "", ""
	if fd.Type.Params != nil {
		i := 0
		for _, f := range fd.Type.Params.List {
			for _, n := range f.Names {
				if i == 0 {
					wName = n.Name
				}
				if i == 1 {
					redName = n.Name
				}
				i++
			}
		}
	}
	seenC, seenM, seenW := map[string]bool{}, map[string]bool{}, map[string]bool{}
	ast.Inspect(fd.Body, func(n ast.Node) bool {
		call, ok := n.(*ast.CallExpr)
		if !ok {
			return true
		}
		sel, ok := call.Fun.(*ast.SelectorExpr)
		if !ok {
			return true
		}
		if !seenM[sel.Sel.Name] {
			seenM[sel.Sel.Name] = true
			methods = append(methods, sel.Sel.Name)
		}
		if x, ok := sel.X.(*ast.Ident); ok && (x.Name == wName || (x.Name == "redis" && strings.HasPrefix(sel.Sel.Name, "Write"))) {
			if !seenW[sel.Sel.Name] {
				seenW[sel.Sel.Name] = true
				writes = append(writes, sel.Sel.Name)
			}
		}
		// red.Repo().Method(...)
		if inner, ok := sel.X.(*ast.CallExpr); ok {
			if isel, ok := inner.Fun.(*ast.SelectorExpr); ok {
				if x, ok := isel.X.(*ast.Ident); ok && x.Name == redName && len(inner.Args) == 0 {
					c := isel.Sel.Name + "." + sel.Sel.Name
					if !seenC[c] {
						seenC[c] = true
						calls = append(calls, c)
					}
				}
			}
		}
		return true
	})
	sort.Strings(methods)
	sort.Strings(writes)
	return
}

var docRow = regexp.MustCompile(`^([A-Z]+)\s+(\S+)(\s/\s\S+)?\s{2,}\S`)

// docRows reads the "Command  Go API  Description" tables.
func docRows(repo string) [][2]string {
	var out [][2]string
	files, _ := filepath.Glob(filepath.Join(repo, "docs", "commands", "*.md"))
	sort.Strings(files)
	for _, f := range files {
		data, err := os.ReadFile(f)
		if err != nil {
			continue
		}
		in := false
		for _, line := range strings.Split(string(data), "\n") {
			t := strings.TrimRight(line, " \r")
			if strings.HasPrefix(t, "```") {
				in = false
				continue
			}
			if strings.HasPrefix(t, "Command") && strings.Contains(t, "Go API") {
				in = true
				continue
			}
			if !in || strings.HasPrefix(t, "---") {
				continue
			}
			if m := docRow.FindStringSubmatch(t); m != nil {
				api := m[2]
				api = strings.TrimPrefix(api, "DB.")
				api = strings.ReplaceAll(api, "()", "")
				out = append(out, [2]string{m[1], api})
			}
		}
	}
	return out
}

func leanList(xs []string) string {
	q := make([]string, len(xs))
	for i, x := range xs {
		q[i] = leanStr(x)
	}
	return "[" + strings.Join(q, ", ") + "]"
}

func ident(s string) string {
	return strings.Map(func(r rune) rune {
		if r == '.' || r == '*' {
			return '_'
		}
		return r
	}, s)
}

func emitCmds(repo, ns, outPath string) error {
	cmdDir := filepath.Join(repo, "internal", "command")
	ents, _ := os.ReadDir(cmdDir)
	var cmds []cmdSrc
	type helper struct{ name, text string }
	var helpers []helper
	for _, e := range ents {
		if !e.IsDir() {
			continue
		}
		pkg := e.Name()
		dir := filepath.Join(cmdDir, pkg)
		files := map[string]*ast.File{}
		des, _ := os.ReadDir(dir)
		var names []string
		for _, de := range des {
			n := de.Name()
			if de.IsDir() || !strings.HasSuffix(n, ".go") || strings.HasSuffix(n, "_test.go") {
				continue
			}
			f, err := parser.ParseFile(fset, filepath.Join(dir, n), nil, 0)
			if err != nil {
				continue
			}
			files[n] = f
			names = append(names, n)
		}
		sort.Strings(names)
		runs := map[string]*ast.FuncDecl{}
		var parses []*ast.FuncDecl
		var others []*ast.FuncDecl
		for _, n := range names {
			for _, d := range files[n].Decls {
				fd, ok := d.(*ast.FuncDecl)
				if !ok || fd.Body == nil {
					continue
				}
				switch {
				case fd.Recv != nil && fd.Name.Name == "Run":
					runs[recvType(fd)] = fd
				case fd.Recv == nil && strings.HasPrefix(fd.Name.Name, "Parse") && fd.Type.Params != nil &&
					len(fd.Type.Params.List) > 0 && src(fd.Type.Params.List[0].Type) == "redis.BaseCmd":
					parses = append(parses, fd)
				default:
					others = append(others, fd)
				}
			}
		}
		used := map[string]bool{}
		for _, p := range parses {
			c := cmdSrc{pkg: pkg, parseFn: p.Name.Name}
			if p.Type.Results != nil && len(p.Type.Results.List) > 0 {
				t := p.Type.Results.List[0].Type
				if s, ok := t.(*ast.StarExpr); ok {
					t = s.X
				}
				c.ty = src(t)
			}
			if r, ok := runs[c.ty]; ok {
				used[c.ty] = true
				c.calls, c.methods, c.writes = runFacets(r)
			}
			cmds = append(cmds, c)
		}
		// print after the facets have been taken (alpha renames in place); a Run shared by two
		// parse functions is printed once and copied
		printed := map[string]string{}
		for i := range cmds {
			if cmds[i].pkg != pkg {
				continue
			}
			if r, ok := runs[cmds[i].ty]; ok {
				if _, done := printed[cmds[i].ty]; !done {
					printed[cmds[i].ty] = alpha(r)
				}
				cmds[i].run = printed[cmds[i].ty]
			} else {
				cmds[i].run = "<no Run method for " + cmds[i].ty + ">"
			}
		}
		for _, p := range parses {
			t := alpha(p)
			for i := range cmds {
				if cmds[i].pkg == pkg && cmds[i].parseFn == p.Name.Name {
					cmds[i].parse = t
				}
			}
		}
		var tys []string
		for ty := range runs {
			if !used[ty] {
				tys = append(tys, ty)
			}
		}
		sort.Strings(tys)
		for _, ty := range tys {
			helpers = append(helpers, helper{pkg + "." + ty + ".Run", alpha(runs[ty])})
		}
		for _, o := range others {
			n := o.Name.Name
			if rt := recvType(o); rt != "" {
				n = rt + "." + n
			}
			helpers = append(helpers, helper{pkg + "." + n, alpha(o)})
		}
	}
	sort.Slice(cmds, func(i, j int) bool {
		return cmds[i].pkg+"."+cmds[i].parseFn < cmds[j].pkg+"."+cmds[j].parseFn
	})
	sort.Slice(helpers, func(i, j int) bool { return helpers[i].name < helpers[j].name })
	docs := docRows(repo)

	var b strings.Builder
	w := func(format string, a ...any) { fmt.Fprintf(&b, format, a...) }
	if ns == "Generated" {
		w("/-\n  GENERATED by tools/extract_wire (cmds.go) from the redka source tree. Do not edit;\n  `RedkaModel/Tie/Cmds.lean` compares it with `RedkaModel/Model/Wire/CmdsExpected.lean`.\n-/\n")
	} else {
		w("/-\n  Committed expectation, produced by tools/extract_wire (cmds.go) from the tree the wire model was\n  transcribed from and reviewed against it. `RedkaModel/Tie/Cmds.lean` ties the regenerated file to it.\n-/\n")
	}
	w("import RedkaModel.Model.Wire.CmdSrc\n\nnamespace Redka.Wire.%s\n\nopen Redka.Wire\n\n", ns)
	for _, c := range cmds {
		id := ident(c.pkg + "_" + c.parseFn)
		w("def parseText_%s : String := %s\n", id, leanStr(c.parse))
		w("def runText_%s : String := %s\n", id, leanStr(c.run))
		w("/-- `%s.%s` -/\ndef src_%s : CmdSrc :=\n  { fn := %s, ty := %s,\n    parse := parseText_%s,\n    run := runText_%s,\n    calls := %s,\n    methods := %s,\n    writes := %s }\n\n",
			c.pkg, c.parseFn, id, leanStr(c.pkg+"."+c.parseFn), leanStr(c.pkg+"."+c.ty), id, id,
			leanList(c.calls), leanList(c.methods), leanList(c.writes))
	}
	w("def cmdSrcs : List CmdSrc := [\n")
	for i, c := range cmds {
		sep := ","
		if i == len(cmds)-1 {
			sep = ""
		}
		w("  src_%s%s\n", ident(c.pkg+"_"+c.parseFn), sep)
	}
	w("]\n\n/-- struct type ↦ repository methods its `Run` calls (the `calls` facet alone) -/\ndef runCalls : List (String × List String) := [\n")
	seenTy := map[string]bool{}
	first := true
	for _, c := range cmds {
		k := c.pkg + "." + c.ty
		if seenTy[k] {
			continue
		}
		seenTy[k] = true
		if !first {
			w(",\n")
		}
		first = false
		w("  (%s, %s)", leanStr(k), leanList(c.calls))
	}
	w("\n]\n\n")
	for _, h := range helpers {
		w("def helperText_%s : String := %s\n", ident(h.name), leanStr(h.text))
	}
	w("\n/-- every other function or method of internal/command/*: name, source -/\ndef helpers : List (String × String) := [\n")
	for i, h := range helpers {
		sep := ","
		if i == len(helpers)-1 {
			sep = ""
		}
		w("  (%s, helperText_%s)%s\n", leanStr(h.name), ident(h.name), sep)
	}
	w("]\n\n/-- the rows of the `Command / Go API` tables of docs/commands/*.md -/\ndef docs : List (String × String) := [\n")
	for i, d := range docs {
		sep := ","
		if i == len(docs)-1 {
			sep = ""
		}
		w("  (%s, %s)%s\n", leanStr(d[0]), leanStr(d[1]), sep)
	}
	w("]\n\nend Redka.Wire.%s\n", ns)
	return os.WriteFile(outPath, []byte(b.String()), 0o644)
}
