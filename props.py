"""Per-property configuration of /verif/check: Lean modules, tie modules, streams, judges."""
import itertools
import json
import os
import re

TRUSTED_BASE = [
    "Lean 4.33.0 kernel; axioms propext, Classical.choice, Quot.sound only (audited per theorem with #print axioms on every run; no native_decide, no sorry)",
    "tools/extract (Go fact extractor over go/ast) and its SQL normalisation; Tie/*.lean compare regenerated facts with the committed expectation by rfl",
    "tools/harness (correspondence harness compiled inside /repo via go build -overlay), its table dumps, error-name mapping and timestamp canonicalisation ([t0,t1] of a call -> t1)",
    "lean/Driver.lean + RedkaModel/Proto.lean (line protocol parser, canonical table order)",
    "modelled, not verified: SQLite statement semantics as transcribed in RedkaModel/Model/*.lean (upsert/conflict, triggers, LIMIT, cascade, rowid allocation, index row order), database/sql, the Go runtime, wall clocks; float rounding only as round-to-nearest-even on dyadic rationals (no exponent range)",
    "RedkaModel/Spec/*.lean is trusted to say what properties.jsonl says (DESIGN.md section 10 lists every choice)",
]


def hx(s):
    if isinstance(s, str):
        s = s.encode("latin1")
    return "x" + s.hex()


ALL_API_FINDINGS = {"D03", "D05", "D06", "D08", "D16", "D17", "D18"}
ALLFAM = "str,key,list,set,hash,zset,expire"


def api(seed, traces, length, families, mode="db", hostile=0.05):
    return dict(kind="api", args=["-seed", seed, "-traces", traces, "-len", length,
                                  "-families", families, "-mode", mode, "-hostile", hostile])


class Cfg:
    lean = []          # modules below RedkaModel. to build (Props.*, Audit.*)
    tie = []           # modules below RedkaModel.Tie.
    audit = []         # Audit module base names
    needs_wire = False
    extra = None
    trusted = []
    unproved = []
    assumptions = []
    rule = ""
    facts = []         # regexes on changed-fact paths that matter to this property
    listed = set()
    family = None

    def fact_relevant(self, c):
        return any(re.search(rx, c) for rx in self.facts)

    def streams(self, tier, seed, search):
        return []

    def counts(self, op, v):
        return True

    def judge(self, op, v, mode):
        return None


RPKGS = ["rstring", "rlist", "rset", "rhash", "rzset", "rkey"]


def funcs_tie(*pkgs):
    """tie modules and changed-fact patterns for the printed source of every function of the given packages"""
    return ["Funcs_" + p for p in pkgs], [r"^funcs\." + p + r"\." for p in pkgs]


def scale(tier, search):
    """(processes, traces per process, ops per trace)"""
    if tier == "thorough":
        return 16, 900, 90
    if search:
        return 16, 260, 80
    return 16, 110, 80


class FamilyCfg(Cfg):
    """C01..C05: the operations of one repository against the abstract keyspace."""

    def __init__(self, pid, family, pkg, listed, extra_families="key,expire"):
        self.pid = pid
        self.family = family
        self.pkg = pkg
        self.listed = set(listed)
        self.tie = ["SqlFull_" + pkg, "Facts_" + pkg, "Replaces"]
        self.facts = [r"^sql\." + pkg + r"\.", r"^facts\." + pkg + r"\.", r"^wrappers\." + pkg + r"\.",
                      r"^replaces", r"^schema\.trigger_" + pkg, r"^schema\.table_" + pkg, r"^schema\.index_" + pkg,
                      r"^consts\.(typedError|constraintFailed|expandIn|select)"]
        ft, ff = funcs_tie(pkg, "core")
        self.tie = self.tie + ft
        self.facts = self.facts + ff
        self.extra_families = extra_families
        self.rule = (f"random traces over a 3-key universe shared by all types (operations of {family} mixed with key/expiry operations, "
                     f"hostile byte strings with p=0.05..0.5, DB level and inside caller-managed transactions) plus enumerated scripts; "
                     f"each step is one Hoare triple judged by the Lean driver: model (M, A), spec (S), invariant (I); a case is distinct by "
                     f"(operation text, pre-state without versions/mtimes) and non-trivial when it returned a non-empty result or changed the tables")

    def streams(self, tier, seed, search):
        n, t, l = scale(tier, search)
        fams = self.family + "," + self.family + "," + self.extra_families
        out = []
        for i in range(n):
            mode = ["db", "db", "tx", "mix"][i % 4]
            hostile = [0.05, 0.05, 0.3, 0.05][i % 4]
            f = fams if i % 3 else ALLFAM
            out.append(api(seed * 1000 + i, t, l, f, mode, hostile))
        out += self.scripts(tier)
        out += big_scripts(self.family)
        # the family's commands as a client of the server sends them: requests generated from the command grammars (option
        # subsets and orders, keyword case variants, boundary numbers), judged by the Lean wire model, whose command table
        # maps each command to the model of its documented API call; only this family's commands are judged here
        mult = 4 if tier == "thorough" else 1
        for i in range(2 * mult):
            out.append(dict(kind="wire", driver="wiredriver",
                            args=["-seed", seed * 1000 + 800 + i, "-traces", 40, "-len", 100, "-stream", "valid"]))
        return out

    needs_wire = True

    def scripts(self, tier):
        return []

    def wire_family(self, op):
        return op.startswith("wire.") and op[5:] in wire_names(self.family)

    def counts(self, op, v):
        return op.startswith(self.family + ".") or self.wire_family(op)

    def judge(self, op, v, mode):
        if self.wire_family(op):
            if v.get("M") == "0":
                return ("violation", f"a {self.family} command sent over the wire is answered (or leaves tables) unlike the documented API call "
                        "on the same data (wire model)")
            return None
        if not op.startswith(self.family + "."):
            return None
        return judge_spec(v, self.listed)


_WIRE_NAMES = {}


def wire_names(family):
    """the command names that `command.Parse` hands to the package of this family (committed snapshot of the dispatch table;
    the table itself is tied by Tie.Dispatch)"""
    if not _WIRE_NAMES:
        with open(os.path.join(os.path.dirname(os.path.abspath(__file__)), "lean", "RedkaModel", "Tie", "expected.json")) as f:
            for name, call in json.load(f)["dispatch"]:
                _WIRE_NAMES.setdefault(call.split(".")[0], set()).add(name)
    return _WIRE_NAMES.get(family, set())


def judge_spec(v, listed):
    if v.get("S") == "0" and not (set(v["K"]) & listed):
        return ("violation", "result or final state differs from the abstract specification (S=0), no listed classifier fires: K=" + ",".join(v["K"]))
    if v.get("S") == "0" and v.get("A") == "0":
        # a listed classifier fires, but the implementation does not deviate the way the listed finding does:
        # the model reproduces every listed defect exactly, and here implementation and model differ
        return ("violation", "result or final state differs from the abstract specification (S=0) and from the model of the listed finding "
                "(A=0): a new deviation in a situation where K=" + ",".join(v["K"]) + " is listed")
    if v.get("A") == "0" and v.get("S") != "0":
        return ("corr", "model and implementation disagree at the abstract level (A=0) although the step conforms to the specification")
    if v.get("M") == "0" and (set(v["D"]) & {"out", "children", "keys"}):
        return ("corr", "model and implementation disagree on result / rows (M=0 D=" + ",".join(v["D"]) + ")")
    return None


K1, K2, K3 = hx("k1"), hx("k2"), hx("k3")
def big_scripts(family):
    """Collections larger than any page size or batch constant of the code (10, 1000 are the ones in the tree), built in
    descending, ascending-with-overwrites and shuffled order, then read through every whole-collection reader of the family:
    the 3-element universes of the random traces never reach them."""
    def e(i):
        return hx("e%02d" % i)
    orders = {"desc": list(range(26, -1, -1)), "asc2": list(range(0, 27)) + [3, 1, 20],
              "mix": [(i * 11) % 27 for i in range(27)]}
    s = ""
    for oname, idx in orders.items():
        for mode in ("db", "tx"):
            s += f"--- {mode}\n"
            if family == "hash":
                for i in idx:
                    s += f"!hash.Set {K1} {e(i)} {hx('v%d' % i)}\n"
                s += (f"hash.Items {K1}\nhash.Fields {K1}\nhash.Values {K1}\nhash.Len {K1}\n"
                      f"hash.GetMany {K1} 4 {e(0)} {e(13)} {e(26)} {e(99)}\nhash.Exists {K1} {e(26)}\n"
                      f"hash.Delete {K1} 3 {e(0)} {e(5)} {e(99)}\nhash.Items {K1}\nhash.Len {K1}\n")
            elif family == "set":
                for i in idx:
                    s += f"!set.Add {K1} 1 {e(i)}\n"
                for i in idx[:12]:
                    s += f"!set.Add {K2} 1 {e(i)}\n"
                s += (f"set.Items {K1}\nset.Len {K1}\nset.Exists {K1} {e(26)}\nset.Inter 2 {K1} {K2}\nset.Union 2 {K1} {K2}\n"
                      f"set.Diff 2 {K1} {K2}\nset.UnionStore {K3} 2 {K1} {K2}\nset.Items {K3}\nset.Len {K3}\n"
                      f"set.DiffStore {K3} 2 {K1} {K2}\nset.Items {K3}\nset.Delete {K1} 3 {e(0)} {e(5)} {e(99)}\nset.Items {K1}\nset.Len {K1}\n")
            elif family == "zset":
                for n, i in enumerate(idx):
                    s += f"!zset.Add {K1} {e(i)} {(i * 7) % 5}p0\n"
                for i in idx[:12]:
                    s += f"!zset.Add {K2} {e(i)} 1p0\n"
                s += (f"zset.RangeRank {K1} 0 -1 0\nzset.RangeRank {K1} 0 -1 1\nzset.RangeRank {K1} 9 11 0\nzset.Len {K1}\n"
                      f"zset.RangeScore {K1} -inf inf 0 0 0\nzset.RangeScore {K1} 1p0 3p0 1 2 11\nzset.Count {K1} 0p0 1p1\n"
                      f"zset.GetRank {K1} {e(13)}\nzset.GetRankRev {K1} {e(13)}\nzset.Union 2 {K1} {K2} sum\nzset.Inter 2 {K1} {K2} max\n"
                      f"zset.UnionStore {K3} 2 {K1} {K2} min\nzset.RangeRank {K3} 0 -1 0\nzset.Len {K3}\n"
                      f"zset.DeleteRank {K1} 10 12\nzset.RangeRank {K1} 0 -1 0\nzset.Len {K1}\n")
            elif family == "list":
                for n, i in enumerate(idx):
                    s += f"!list.{'PushBack' if n % 3 else 'PushFront'} {K1} {e(i % 9)}\n"
                s += (f"list.Range {K1} 0 -1\nlist.Len {K1}\nlist.Get {K1} 11\nlist.Get {K1} -12\nlist.Range {K1} 9 12\n"
                      f"list.Delete {K1} {e(3)}\nlist.Range {K1} 0 -1\nlist.Len {K1}\nlist.Trim {K1} 2 13\nlist.Range {K1} 0 -1\nlist.Len {K1}\n")
            elif family == "str":
                for i in idx[:14]:
                    s += f"!str.Set {e(i)} {hx('v%d' % i)}\n"
                s += "str.GetMany 15 " + " ".join(e(i) for i in idx[:14]) + f" {e(99)}\n"
                # multi-set over EXISTING names only: Go iterates its map argument in an unspecified order, which decides the
                # ids of new keys (the driver tries every order only up to 5 items)
                s += "str.SetMany 12 " + " ".join(f"{e(i)} {hx('w%d' % i)}" for i in idx[:12]) + "\n"
                s += "str.GetMany 12 " + " ".join(e(i) for i in idx[:12]) + "\nkey.Len\n"
    out = [dict(kind="script", script=s)] if s else []
    # argument lists longer than any batching constant (1240 names / members / fields in ONE call), with the present ones
    # alternating (every second one) or in one block (the first half: whole stretches of the list then hit nothing, others
    # hit everything), the list given in ascending and in descending order: counts and effects must be those of the whole list
    def n4(i):
        return hx("m%04d" % i)
    N = 1240
    b = ""
    for pat in ("alt", "block"):
        present = list(range(0, N, 2)) if pat == "alt" else list(range(0, N // 2))
        for order in ("asc", "desc"):
            if pat == "alt" and order == "desc":
                continue
            idx = list(range(N)) if order == "asc" else list(range(N - 1, -1, -1))
            allm = " ".join(n4(i) for i in idx)
            some = " ".join(n4(i) for i in present)
            H = len(present)
            for mode in ("db", "tx"):
                if pat == "block" and mode == "tx":
                    continue
                b += f"--- {mode}\n"
                if family == "set":
                    b += (f"!set.Add {K1} {H} {some}\nset.Add {K1} {N} {allm}\nset.Len {K1}\n"
                          f"set.Delete {K1} {H} {some}\nset.Len {K1}\nset.Delete {K1} {N} {allm}\nset.Len {K1}\nset.Items {K1}\n")
                elif family == "hash":
                    pairs_some = " ".join(f"{n4(i)} {hx('v')}" for i in present)
                    pairs_new = " ".join(f"{n4(i)} {hx('w')}" for i in present)
                    b += (f"!hash.SetMany {K1} {H} {pairs_some}\nhash.GetMany {K1} {N} {allm}\nhash.SetMany {K1} {H} {pairs_new}\n"
                          f"hash.Len {K1}\nhash.Delete {K1} {N} {allm}\nhash.Len {K1}\nhash.Items {K1}\n")
                elif family == "zset":
                    z_some = " ".join(f"{n4(i)} 1p0" for i in present)
                    z_new = " ".join(f"{n4(i)} 1p1" for i in present)
                    b += (f"!zset.AddMany {K1} {H} {z_some}\nzset.AddMany {K1} {H} {z_new}\nzset.Len {K1}\nzset.Count {K1} 1p1 1p1\n"
                          f"zset.Delete {K1} {N} {allm}\nzset.Len {K1}\nzset.RangeRank {K1} 0 -1 0\n")
                elif family == "str":
                    sm = " ".join(f"{n4(i)} {hx('v')}" for i in present)
                    b += (f"!str.SetMany {H} {sm}\nstr.GetMany {N} {allm}\nkey.Count {N} {allm}\nkey.Delete {N} {allm}\nkey.Len\n")
    if b:
        out.append(dict(kind="script", script=b))
    return out

EA, EB, EC = hx("a"), hx("b"), hx("c")


class C01(FamilyCfg):
    lean = ["Props.C01", "Audit.C01", "Props.C17", "Audit.C17"]
    audit = ["C01", "C17"]

    def scripts(self, tier):
        # conditional-set matrix: every option combination x {missing, live string, live string with ttl, expired stored, other type}
        s = ""
        vals = ["", "7", "abc"]
        for pre in ("missing", "str", "strttl", "expired", "list"):
            for ifx, ifnx in ((0, 0), (1, 0), (0, 1)):
                for exp in ("none", "ttl", "ttl0", "at", "atpast", "keep"):
                    s += "--- db\n"
                    if pre == "str":
                        s += f"!str.Set {K1} {hx('old')}\n"
                    elif pre == "strttl":
                        s += f"!str.SetExpires {K1} {hx('old')} 7200000\n"
                    elif pre == "expired":
                        s += f"!str.Set {K1} {hx('old')}\n!key.ExpireAt {K1} 1500\n"
                    elif pre == "list":
                        s += f"!list.PushBack {K1} {EA}\n"
                    ttl, at, keep = 0, "-", 0
                    if exp == "ttl":
                        ttl = 3600000
                    elif exp == "ttl0":
                        ttl = -5
                    elif exp == "at":
                        at = 4102444800123
                    elif exp == "atpast":
                        at = 1234
                    elif exp == "keep":
                        keep = 1
                    for v in vals[:2]:
                        s += f"str.SetWith {K1} {hx(v)} {ifx} {ifnx} {ttl} {at} {keep}\n"
                    s += f"str.Get {K1}\nkey.Get {K1}\n"
        # increments over the value classes
        for v in ["", "0", "7", "-3", "+5", "007", "abc", "1.5", "9223372036854775807", "-9223372036854775808",
                  "9223372036854775808", " 1", "1 "]:
            for d in (1, -1, 0, 9223372036854775807, -9223372036854775808):
                s += f"--- db\n!str.Set {K1} {hx(v)}\nstr.Incr {K1} {d}\nstr.Get {K1}\n"
        return [dict(kind="script", script=s)]


class C02(FamilyCfg):
    lean = ["Props.C02idx", "Audit.C02idx", "Props.C02rules", "Audit.C02rules", "Props.C02ref", "Audit.C02ref"]
    audit = ["C02idx", "C02rules", "C02ref"]

    def scripts(self, tier):
        out = []
        elems = [EA, EB, EC, EA, EB, EC]
        maxn = 6
        s = ""
        for n in range(0, maxn + 1):
            setup = "".join(f"!list.PushBack {K1} {elems[i]}\n" for i in range(n))
            rng = range(-(n + 3), n + 4)
            s += "--- db\n" + setup
            for a in rng:
                for b in rng:
                    s += f"list.Range {K1} {a} {b}\n"
                s += f"list.Get {K1} {a}\n"
            s += f"list.Len {K1}\nlist.Range {K1} 0 -1\n"
        out.append(dict(kind="script", script=s))
        # mutating index operations need a fresh list each time
        for chunk in range(4):
            s = ""
            for n in range(0, maxn + 1):
                setup = "".join(f"!list.PushBack {K1} {elems[i]}\n" for i in range(n))
                rng = range(-(n + 3), n + 4)
                for a in rng:
                    for b in rng:
                        if (a + b) % 4 != chunk:
                            continue
                        s += f"--- {'db' if (a * 7 + b) % 3 else 'tx'}\n" + setup + f"list.Trim {K1} {a} {b}\nlist.Len {K1}\nlist.Range {K1} 0 -1\n"
                if chunk == 0:
                    for a in rng:
                        s += "--- db\n" + setup + f"list.Set {K1} {a} {hx('z')}\nlist.Range {K1} 0 -1\n"
                        for e in (EA, EC):
                            s += "--- db\n" + setup + f"list.DeleteFront {K1} {e} {a}\nlist.Range {K1} 0 -1\n"
                            s += "--- db\n" + setup + f"list.DeleteBack {K1} {e} {a}\nlist.Range {K1} 0 -1\n"
            out.append(dict(kind="script", script=s))
        # histories: every sequence of three structure-changing operations (pushes at both ends, inserts next to
        # each element, removal of each element, pops, a rotate) on [a b c d], then every index and the full
        # range: positions with gaps AND midpoints, negative positions, emptied and refilled lists
        import itertools
        ED, EX, EY = hx("d"), hx("x"), hx("y")
        muts = [f"list.PushBack {K1} {EX}", f"list.PushFront {K1} {EY}", f"list.InsertAfter {K1} {EA} {EX}",
                f"list.InsertBefore {K1} {EC} {EY}", f"list.InsertAfter {K1} {ED} {EY}", f"list.InsertBefore {K1} {EA} {EX}",
                f"list.DeleteFront {K1} {EB} 1", f"list.Delete {K1} {EC}", f"list.DeleteBack {K1} {ED} 1", f"list.Delete {K1} {EX}",
                f"list.PopFront {K1}", f"list.PopBack {K1}", f"list.PopBackPushFront {K1} {K1}"]
        seqs = list(itertools.product(muts, repeat=3))
        nchunks = 4
        for c in range(nchunks):
            s = ""
            for j, sq in enumerate(seqs):
                if j % nchunks != c:
                    continue
                if tier != "thorough" and (j // nchunks) % 3:
                    continue            # a third of the 2197 histories in the quick tier, all of them in the thorough one
                s += f"--- db\n!list.PushBack {K1} {EA}\n!list.PushBack {K1} {EB}\n!list.PushBack {K1} {EC}\n!list.PushBack {K1} {ED}\n"
                s += "".join("!" + m + "\n" for m in sq)
                s += "".join(f"list.Get {K1} {i}\n" for i in range(-7, 7)) + f"list.Len {K1}\nlist.Range {K1} 0 -1\n"
            out.append(dict(kind="script", script=s))
        # repeated insertion at one position, before and after; src == dst move
        s = f"--- db\n!list.PushBack {K1} {EA}\n!list.PushBack {K1} {EB}\n"
        for i in range(70):
            s += f"list.InsertBefore {K1} {EB} {EC}\n"
        s += f"list.Len {K1}\nlist.Range {K1} 0 -1\n"
        s += f"--- db\n!list.PushBack {K1} {EA}\n!list.PushBack {K1} {EB}\n"
        for i in range(70):
            s += f"list.InsertAfter {K1} {EA} {EC}\n"
        s += f"list.Len {K1}\nlist.Range {K1} 0 -1\n"
        s += f"--- db\n!list.PushBack {K1} {EA}\n!list.PushBack {K1} {EB}\n!list.PushBack {K1} {EC}\n"
        for i in range(7):
            s += f"list.PopBackPushFront {K1} {K1}\nlist.Range {K1} 0 -1\n"
        out.append(dict(kind="script", script=s))
        return out


def keylists(pool, maxlen):
    for n in range(1, maxlen + 1):
        for ks in itertools.product(pool, repeat=n):
            yield list(ks)


class C03(FamilyCfg):
    lean = ["Props.C03ref", "Audit.C03ref", "Props.C11", "Audit.C11"]
    audit = ["C03ref", "C11"]

    def scripts(self, tier):
        # every key list of length 1..3 over {present set A, present set B, missing, wrong type, destination}
        setup = (f"!set.Add {K1} 2 {EA} {EB}\n!set.Add {K2} 2 {EB} {EC}\n!str.Set {hx('s')} {EA}\n"
                 f"!set.Add {hx('d')} 1 {hx('old')}\n")
        pool = [K1, K2, K3, hx("s"), hx("d")]
        s = "--- db\n" + setup
        for ks in keylists(pool, 3):
            kt = f"{len(ks)} " + " ".join(ks)
            s += f"set.Inter {kt}\nset.Union {kt}\nset.Diff {kt}\n"
        out = [dict(kind="script", script=s)]
        for name in ("InterStore", "UnionStore", "DiffStore"):
            s = ""
            for ks in keylists(pool, 3):
                kt = f"{len(ks)} " + " ".join(ks)
                for dest in (hx("d"), K3, hx("s")):
                    s += "--- db\n" + setup + f"set.{name} {dest} {kt}\nset.Items {dest}\nset.Len {dest}\n"
            out.append(dict(kind="script", script=s))
        return out


class C04(FamilyCfg):
    lean = ["Props.C04ref", "Audit.C04ref", "Props.C11", "Audit.C11"]
    audit = ["C04ref", "C11"]

    def scripts(self, tier):
        F = [hx("f1"), hx("f2"), hx("f3")]
        s = ""
        for existing in range(0, 8):
            pre = "".join(f"!hash.Set {K1} {F[i]} {hx('o' + str(i))}\n" for i in range(3) if existing >> i & 1)
            for subset in range(0, 8):
                items = [(F[i], hx("n" + str(i))) for i in range(3) if subset >> i & 1]
                it = f"{len(items)} " + " ".join(f"{f} {v}" for f, v in items)
                fs = f"{len(items)} " + " ".join(f for f, _ in items)
                s += "--- db\n" + pre + f"hash.SetMany {K1} {it}\nhash.Items {K1}\nhash.Len {K1}\nhash.Fields {K1}\nhash.Values {K1}\n"
                s += "--- db\n" + pre + f"hash.GetMany {K1} {fs}\nhash.Delete {K1} {fs}\nhash.Items {K1}\nhash.Len {K1}\n"
        for v in ["", "0", "7", "-3", "abc", "1.5", "9223372036854775807"]:
            for d in (1, -1, 9223372036854775807):
                s += f"--- db\n!hash.Set {K1} {F[0]} {hx(v)}\nhash.Incr {K1} {F[0]} {d}\nhash.Get {K1} {F[0]}\n"
        return [dict(kind="script", script=s)]


SCORES = ["-inf", "-1p0", "0p0", "1p-1", "1p0", "inf"]


class C05(FamilyCfg):
    lean = ["Props.C02idx", "Audit.C02idx", "Props.C02rules", "Audit.C02rules", "Props.C05ref", "Audit.C05ref"]
    audit = ["C02idx", "C02rules", "C05ref"]

    def scripts(self, tier):
        mem = [EA, EB, EC, hx("d")]
        sc = ["1p0", "1p0", "-inf", "1p-1"]
        out = []
        s = ""
        for n in range(0, 5):
            setup = "".join(f"!zset.Add {K1} {mem[i]} {sc[i]}\n" for i in range(n))
            s += "--- db\n" + setup
            for a in range(-2, n + 3):
                for b in range(-2, n + 3):
                    s += f"zset.RangeRank {K1} {a} {b} 0\nzset.RangeRank {K1} {a} {b} 1\n"
            for lo in SCORES:
                for hi in SCORES:
                    s += f"zset.Count {K1} {lo} {hi}\n"
                    for off in range(0, n + 2):
                        for cnt in range(0, n + 2):
                            if (off + cnt) % 2 == 0 or n <= 2:
                                s += f"zset.RangeScore {K1} {lo} {hi} {(off + cnt) % 2} {off} {cnt}\n"
            for m in mem:
                s += f"zset.GetRank {K1} {m}\nzset.GetRankRev {K1} {m}\nzset.GetScore {K1} {m}\n"
        out.append(dict(kind="script", script=s))
        s = ""
        for n in range(0, 5):
            setup = "".join(f"!zset.Add {K1} {mem[i]} {sc[i]}\n" for i in range(n))
            for a in range(-2, n + 3):
                for b in range(-2, n + 3):
                    s += "--- db\n" + setup + f"zset.DeleteRank {K1} {a} {b}\nzset.RangeRank {K1} 0 10 0\nzset.Len {K1}\n"
            for lo in SCORES:
                for hi in SCORES:
                    s += "--- db\n" + setup + f"zset.DeleteScore {K1} {lo} {hi}\nzset.RangeRank {K1} 0 10 0\nzset.Len {K1}\n"
        out.append(dict(kind="script", script=s))
        setup = (f"!zset.Add {K1} {EA} 1p0\n!zset.Add {K1} {EB} 1p1\n!zset.Add {K2} {EB} 1p-1\n!zset.Add {K2} {EC} -1p0\n"
                 f"!str.Set {hx('s')} {EA}\n!zset.Add {hx('d')} {hx('old')} 5p0\n")
        pool = [K1, K2, K3, hx("s"), hx("d")]
        s = "--- db\n" + setup
        for ks in keylists(pool, 3):
            kt = f"{len(ks)} " + " ".join(ks)
            for agg in ("sum", "min", "max"):
                s += f"zset.Inter {kt} {agg}\nzset.Union {kt} {agg}\n"
        out.append(dict(kind="script", script=s))
        s = ""
        for ks in keylists(pool, 2):
            kt = f"{len(ks)} " + " ".join(ks)
            for agg in ("sum", "min", "max"):
                for dest in (hx("d"), K3, hx("s")):
                    for name in ("InterStore", "UnionStore"):
                        s += "--- db\n" + setup + f"zset.{name} {dest} {kt} {agg}\nzset.RangeRank {dest} 0 10 0\nzset.Len {dest}\n"
        out.append(dict(kind="script", script=s))
        # the combining commands as clients spell them: every aggregate in lower, upper and mixed case, with and without
        # scores, on sets that share members with different scores (so that sum, min and max all differ)
        w = "---\n1 ZADD za 1 a 2 b 3 c\n1 ZADD zb 10 b 0.5 c 7 d\n1 ZADD zc -1 c 4 a\n"
        for agg in ("", "AGGREGATE sum", "AGGREGATE SUM", "aggregate Min", "AGGREGATE MIN", "Aggregate max", "AGGREGATE MAX", "AGGREGATE Max"):
            for keys in ("2 za zb", "3 za zb zc", "2 zb zc", "1 za"):
                for cmd in ("ZUNION", "ZINTER"):
                    w += f"1 {cmd} {keys} {agg} WITHSCORES\n1 {cmd} {keys} WITHSCORES {agg}\n"
                for cmd in ("ZUNIONSTORE", "ZINTERSTORE"):
                    w += f"1 {cmd} dst {keys} {agg}\n1 ZRANGE dst 0 -1 WITHSCORES\n"
        out.append(dict(kind="wirescript", driver="wiredriver", script=w))
        return out


class CrossCfg(Cfg):
    """Cross-cutting properties judged on every step of mixed streams."""
    rule = ("random traces mixing the operations of all five types, key operations and expiry operations over a 3-key universe shared by "
            "all types, at DB level and inside caller-managed transactions that commit whatever the operation reported; every step is judged; "
            "distinct by (operation text, pre-state without versions/mtimes)")

    def streams(self, tier, seed, search):
        n, t, l = scale(tier, search)
        out = []
        for i in range(n):
            mode = ["db", "tx", "db", "mix"][i % 4]
            fams = [ALLFAM, ALLFAM + ",expire,key", "str,list,set,hash,zset,key,key,expire"][i % 3]
            out.append(api(seed * 1000 + 100 + i, t, l, fams, mode, [0.05, 0.2][i % 2]))
        return out


class C06(CrossCfg):
    def streams(self, tier, seed, search):
        out = CrossCfg.streams(self, tier, seed, search)
        N = 620
        allm = " ".join(hx("m%04d" % i) for i in range(N))
        sm = " ".join(f"{hx('m%04d' % i)} {hx('v')}" for i in range(0, N, 2))
        b = ""
        for mode in ("db", "tx"):
            b += (f"--- {mode}\n!str.SetMany {N // 2} {sm}\n!list.PushBack {hx('m0001')} {EA}\nkey.Count {N} {allm}\n"
                  f"key.Delete {N} {allm}\nkey.Len\nkey.Count {N} {allm}\n")
        out.append(dict(kind="script", script=b))
        return out

    lean = ["Props.C06ref", "Audit.C06ref"]
    audit = ["C06ref"]
    tie = ["SqlFull_rkey", "Facts_rkey", "SqlTypes", "Schema"]
    facts = [r"^sql\.rkey\.", r"^sql\..*\.types$", r"^facts\.rkey\.", r"^wrappers\.rkey\.", r"^schema\.table_", r"^consts\.key_exists"]
    listed = ALL_API_FINDINGS

    def counts(self, op, v):
        return op.startswith("key.") or v.get("X") == "1"

    def judge(self, op, v, mode):
        if op.startswith("key.") or v.get("X") == "1":
            return judge_spec(v, self.listed)
        return None


class C10(CrossCfg):
    lean = ["Props.C10clean", "Audit.C10clean", "Props.C10", "Audit.C10"]
    audit = ["C10clean", "C10"]
    tie = ["SqlExpiry", "SqlFull_rkey", "Schema"]
    facts = [r"^sql\..*\.expiry$", r"^sql\.rkey\.sql(Delete|Expire|Persist)", r"^consts\.bg_", r"^schema\.view_"]
    listed = ALL_API_FINDINGS

    def streams(self, tier, seed, search):
        n, t, l = scale(tier, search)
        out = []
        for i in range(n):
            mode = ["db", "tx", "db", "mix"][i % 4]
            out.append(api(seed * 1000 + 200 + i, t, l, ALLFAM + ",expire,expire,expire", mode, 0.02))
            if i % 2 == 0:
                # the documented SQL views hide expired keys with SQLite's clock (verdict W)
                out[-1]["args"] = out[-1]["args"] + ["-views"]
        # the expiry rules over the wire: every command that sets, keeps, clears or reports an expiry, with second and
        # millisecond units, absolute times with a millisecond part, times in the past, and TTL transfer (KEEPTTL, INCR,
        # RENAME, PERSIST); judged by the wire model on the full tables (the stored etime) and the replies
        far_s, far_ms = 4102444800, 4102444800123
        w = ""
        for setter in (f"SET k v PXAT {far_ms}", f"SET k v EXAT {far_s}", "SET k v PX 3600123", "SET k v EX 3600", "SETEX k 3600 v", "PSETEX k 3600123 v",
                       f"SET k v PXAT {far_ms + 864}", "SET k v PXAT 1500", "SET k v EXAT 1", f"SET k v NX PXAT {far_ms}", f"SET k v XX PXAT {far_ms}",
                       f"SET k v GET PXAT {far_ms + 1}"):
            w += "---\n1 SET k old\n" + f"1 {setter}\n1 TTL k\n1 GET k\n1 EXISTS k\n1 KEYS *\n1 SET k v2 KEEPTTL\n1 TTL k\n1 SET k v3\n1 TTL k\n"
        for exp in (f"PEXPIREAT k {far_ms}", f"EXPIREAT k {far_s}", "PEXPIRE k 7200123", "EXPIRE k 7200", "PEXPIREAT k 1500", "EXPIREAT k 1", "PEXPIRE k 1", "EXPIRE k 0", "EXPIRE k -5"):
            for mk in ("SET k 10", "RPUSH k a b", "SADD k a", "HSET k f 1", "ZADD k 1 a"):
                w += "---\n" + f"1 {mk}\n1 {exp}\n1 TTL k\n1 TYPE k\n1 EXISTS k\n1 DBSIZE\n"
                w += {"SET k 10": "1 INCR k\n1 INCRBYFLOAT k 1.5\n", "RPUSH k a b": "1 LPUSH k c\n1 LLEN k\n", "SADD k a": "1 SADD k b\n1 SCARD k\n",
                      "HSET k f 1": "1 HINCRBY k f 2\n1 HLEN k\n", "ZADD k 1 a": "1 ZINCRBY k 2 a\n1 ZCARD k\n"}[mk]
                w += "1 TTL k\n1 RENAME k k2\n1 TTL k2\n1 TTL k\n1 PERSIST k2\n1 TTL k2\n"
        out.append(dict(kind="wirescript", driver="wiredriver", script=w))
        return out

    needs_wire = True

    def counts(self, op, v):
        return v.get("E") == "1" or v.get("_wire") is not None

    def judge(self, op, v, mode):
        if v.get("_wire") is not None:
            if v.get("M") == "0":
                return ("violation", "an expiry set, kept, cleared or reported over the wire is not what the documented rule gives (wire model: reply or stored expiry differs)")
            return None
        if v.get("E") == "1":
            r = judge_spec(v, self.listed)
            if r:
                return r
        if v.get("W") == "0":
            return ("violation", "an SQL view shows a key or element the API does not (or hides one it does): W=0")
        if v.get("M") == "0" and "etime" in v["D"]:
            return ("corr", "model and implementation disagree on stored expiry times")
        return None


class C11(CrossCfg):
    lean = ["Props.C11", "Audit.C11", "Props.C11views", "Audit.C11views"]
    audit = ["C11", "C11views"]
    tie = ["SqlMeta", "Schema"]
    facts = [r"^sql\..*\.meta$", r"^schema\."]
    listed = set()

    def streams(self, tier, seed, search):
        # every line also carries `select * from v...` of the six documented views (verdict W)
        out = CrossCfg.streams(self, tier, seed, search)
        for sp in out:
            sp["args"] = sp["args"] + ["-views"]
        # the structural rules under stress that random traces do not reach: 70 insertions at one position
        # (list positions must stay distinct, D03 refuses the 54th), committed transactions included
        sc = ""
        for mode in ("db", "tx"):
            sc += f"@views\n--- {mode}\n!list.PushBack {K1} {EA}\n!list.PushBack {K1} {EB}\n"
            for i in range(70):
                sc += f"list.InsertBefore {K1} {EB} {EC}\n"
            sc += f"list.Len {K1}\nlist.Range {K1} 0 -1\n--- {mode}\n!list.PushBack {K1} {EA}\n!list.PushBack {K1} {EB}\n"
            for i in range(70):
                sc += f"list.InsertAfter {K1} {EA} {EC}\n"
            sc += f"list.Len {K1}\nlist.Range {K1} 0 -1\n"
        out.append(dict(kind="script", script=sc))
        return out

    def judge(self, op, v, mode):
        if v.get("W") == "0":
            return ("violation", "the documented SQL views do not show exactly the live keys and elements (W=0: select * from v... differs from the model of the views, "
                    "which Props.C11views proves equal to what the API shows)")
        if v.get("W") == "E":
            return ("corr", "the view dump could not be parsed")
        if "R" in v:      # a refused call with an invalid value type (FAULT kind=invalid)
            if v.get("I") == "0":
                return ("violation", "the stored structure is inconsistent after a call refused for its value type")
            return None
        if v.get("P") == "1" and v.get("I") == "0" and not (set(v["K"]) & self.listed):
            return ("violation", "the stored structure is inconsistent after this step (cached length, ownership or uniqueness), K=" + ",".join(v["K"]))
        if v.get("M") == "0" and (set(v["D"]) & {"len", "fk"}):
            return ("corr", "model and implementation disagree on cached lengths")
        return None


# wire replies that report a nothing-to-do outcome (C12): conditional writes whose condition is unmet, removals and
# moves that found nothing, expiry commands on a missing key. (A nil reply of GETSET / a 0 of SADD is not one of them.)
NOTHING_TO_DO_REPLY = {
    b"set": {"_"}, b"setnx": {":0"}, b"msetnx": {":0"}, b"hsetnx": {":0"}, b"renamenx": {":0"}, b"smove": {":0"},
    b"expire": {":0"}, b"pexpire": {":0"}, b"expireat": {":0"}, b"pexpireat": {":0"}, b"persist": {":0"},
    b"linsert": {":-1", ":0"}, b"del": {":0"}, b"hdel": {":0"}, b"srem": {":0"}, b"zrem": {":0"}, b"lrem": {":0"},
    b"lpop": {"_"}, b"rpop": {"_"}, b"spop": {"_"}, b"rpoplpush": {"_"},
    b"zremrangebyrank": {":0"}, b"zremrangebyscore": {":0"},
}


class C12(CrossCfg):
    lean = ["Props.C12", "Audit.C12"]
    audit = ["C12"]
    tie = ["SqlVerb", "Facts_rstring", "Facts_rkey", "Facts_rlist", "Facts_rset", "Facts_rhash", "Facts_rzset"]
    facts = [r"^sql\..*\.verb$", r"^facts\.", r"^wrappers\."]
    listed = set()
    needs_wire = True

    def streams(self, tier, seed, search):
        # "... on the handle and over the wire": requests through the real handler chain; whatever is answered
        # with an error reply (refused: syntax, arity, wrong type, invalid value, unknown command, failed EXEC)
        # must leave all six tables exactly as they were
        mult = 8 if tier == "thorough" else (2 if search else 1)
        out = CrossCfg.streams(self, tier, seed, search)
        for i, (kind, traces) in enumerate((("valid", 40), ("malformed", 40), ("multi", 30), ("valid", 40))):
            out.append(dict(kind="wire", driver="wiredriver",
                            args=["-seed", seed * 1000 + 980 + i, "-traces", traces * mult, "-len", 100, "-stream", kind]))
        # every conditional or refusable operation on keys / fields / members whose stored VALUE is the empty byte string
        # (a test "is there a previous value?" answered from the value instead of from the lookup shows here), on the handle
        # and inside a caller-managed transaction that commits
        E = "x"
        sc = ""
        for mode in ("db", "tx"):
            for op in (f"str.SetWith {K1} {hx('7')} 0 1 0 - 0", f"str.SetWith {K1} {hx('7')} 0 1 3600000 - 0", f"str.SetWith {K2} {hx('7')} 1 0 0 - 0",
                       f"hash.SetNotExists {K3} {hx('f')} {hx('7')}", f"hash.SetNotExists {K3} {E} {hx('7')}", f"set.Add {hx('s')} 1 {E}",
                       f"set.Move {hx('s')} {hx('s2')} {hx('nomember')}", f"set.Move {hx('nokey')} {hx('s')} {E}", f"zset.Add {hx('z')} {E} 0p0",
                       f"list.InsertBefore {hx('l')} {hx('nopivot')} {E}", f"list.Set {hx('l')} 7 {E}", f"str.Incr {K1} 1", f"hash.Incr {K3} {hx('f')} 1",
                       f"key.RenameNotExists {K1} {K3}", f"key.Persist {K1}", f"key.Expire {K2} 1000"):
                sc += (f"--- {mode}\n!str.Set {K1} {E}\n!hash.Set {K3} {hx('f')} {E}\n!hash.Set {K3} {E} {E}\n!set.Add {hx('s')} 1 {E}\n"
                       f"!zset.Add {hx('z')} {E} 0p0\n!list.PushBack {hx('l')} {E}\n{op}\nstr.Get {K1}\nkey.Get {K1}\n")
        out.append(dict(kind="script", script=sc))
        return out

    def counts(self, op, v):
        return v.get("N") in ("0", "1") or "R" in v or v.get("_wire") is not None

    def judge(self, op, v, mode):
        w = v.get("_wire")
        if w is not None:
            toks = w["toks"]
            refused = bool(toks) and toks[0].startswith("-")      # (a nil reply is not a refusal: GETSET on a missing key sets)
            # a failing EXEC announces its array first; the failing command's error is one of its elements
            failed_exec = (bool(toks) and toks[0].startswith("*") and any(t.startswith("-") for t in toks[1:])
                           and w["args"] and w["args"][0].lower() == b"exec")
            if (refused or failed_exec) and w["pre"].strip() != w["post"].strip():
                return ("violation", "a request answered with an error reply changed the tables (over the wire)")
            # replies that say "there was nothing to do" (unmet condition, missing key / element / pivot)
            name = w["args"][0].lower() if w["args"] else b""
            ntd = NOTHING_TO_DO_REPLY.get(name)
            if name == b"set" and any(a.lower() == b"get" for a in w["args"][3:]):
                ntd = None      # SET ... GET replies the previous value: nil means "there was none", not "condition unmet"
            if ntd is not None and len(toks) == 1 and toks[0] in ntd and not w["inMulti"] and w["pre"].strip() != w["post"].strip():
                return ("violation", "a request whose reply says there was nothing to do (" + toks[0] + ") changed the tables (over the wire)")
            return None
        if "R" in v:      # a call with an invalid value type must be refused and leave no trace
            if v.get("A") == "0":
                return ("violation", "a call refused for its value type changed the tables")
            if v.get("R") == "0":
                return ("violation", "a value of an unsupported type was accepted")
            return None
        if v.get("N") == "0" and not (set(v["K"]) & self.listed):
            return ("violation", "a read / refused / nothing-to-do operation changed the tables, K=" + ",".join(v["K"]))
        return None


def key_rows_differ(line):
    """the rkey sections (`K … S`) of the pre- and post-dump of one protocol line differ"""
    f = line.split(" | ")
    if len(f) < 5:
        return False
    def ksec(d):
        d = d.strip()
        i = d.find(" S ")
        return d[:i] if i >= 0 else d
    return ksec(f[1]) != ksec(f[4])


class C19(CrossCfg):
    lean = ["Props.C19", "Audit.C19"]
    audit = ["C19"]
    tie = ["SqlMeta", "Schema"]
    facts = [r"^sql\..*\.meta$", r"^schema\.trigger_"]
    listed = set()

    def counts(self, op, v):
        return v.get("V") in ("0", "1") or v.get("T") in ("0", "1") or v.get("H") in ("0", "1")

    def judge(self, op, v, mode):
        if v.get("V") == "0":
            return ("violation", "key metadata rule broken (version not increased / mtime not refreshed / went backwards)")
        if v.get("T") == "0" and not (set(v["K"]) & ALL_API_FINDINGS):
            return ("violation", "the type or expiry reported by the key lookup is not what the operation established")
        if v.get("H") == "0":
            return ("violation", "the destination of a successful store does not start a new history (version 1, modification time of the call)")
        # "untouched by reads and refused operations": the driver's N verdict says a read / refused / nothing-to-do step changed
        # the tables; it is a violation of THIS property when the key rows (version, modification time, a key appearing) differ
        if v.get("N") == "0" and key_rows_differ(v.get("_line", "")):
            return ("violation", "a read or refused operation touched a key's version / modification time (or created a key row), K=" + ",".join(v["K"]))
        if v.get("M") == "0" and (set(v["D"]) & {"version", "mtime"}) and v.get("V") != "0":
            return ("corr", "model and implementation disagree on version/mtime (D=" + ",".join(v["D"]) + ")")
        return None


class C17(Cfg):
    lean = ["Props.C17", "Audit.C17"]
    audit = ["C17"]
    tie = ["Consts", "Schema"]
    facts = [r"^consts\.(tobytes|isValueType|key_exists)", r"^schema\.table_"]
    listed = ALL_API_FINDINGS
    rule = ("random traces in which every key, field, member, element and value is drawn from a hostile pool (empty, NUL, CR/LF, invalid "
            "UTF-8, metacharacters, digit strings) with p=0.6..1.0, string and []byte argument forms, values given as Go int / bool / float64 / nil slice; "
            "1 MiB values (every byte value) in every value role and 64 KiB field and key names; each step judged against model and spec")

    needs_wire = True

    def streams(self, tier, seed, search):
        n, t, l = scale(tier, search)
        out = [api(seed * 1000 + 300 + i, t, l, "str,list,set,hash,zset,key", ["db", "tx"][i % 2], [0.6, 1.0, 0.8][i % 3]) for i in range(n)]
        # the same byte strings over the wire, in every role, read back through every command that returns names or values
        def q(b):
            return '"' + "".join("\\x%02x" % c for c in b) + '"'
        hostile = [b"", b"\x00", b"\r\n", b"a\r\nb", b"\n", b"\xff\xfe", b"*", b"[a]", b"12", b"-0", b"a b", b"\x00\x00", b"k\x00x",
                   bytes(range(0, 32)), bytes(range(128, 160)), b"x" * 300]
        script = ""
        for i, h in enumerate(hostile):
            o = hostile[(i + 1) % len(hostile)]
            script += "---\n"
            for line in [f"1 SET {q(h)} {q(o)}", f"1 GET {q(h)}", "1 RANDOMKEY", "1 KEYS *", f"1 EXISTS {q(h)}", f"1 TYPE {q(h)}",
                         f"1 RENAME {q(h)} {q(b'moved' + h)}", f"1 GET {q(b'moved' + h)}", f"1 DEL {q(b'moved' + h)}",
                         f"1 RPUSH l {q(h)} {q(o)}", "1 LRANGE l 0 -1", f"1 LINDEX l 0", f"1 LREM l 0 {q(h)}", "1 RPOP l",
                         f"1 SADD s {q(h)} {q(o)}", "1 SMEMBERS s", f"1 SISMEMBER s {q(h)}", f"1 SREM s {q(o)}", "1 SPOP s",
                         f"1 HSET h {q(h)} {q(o)}", "1 HGETALL h", "1 HKEYS h", "1 HVALS h", f"1 HGET h {q(h)}", f"1 HEXISTS h {q(h)}",
                         f"1 ZADD z 1 {q(h)} 2 {q(o)}", "1 ZRANGE z 0 -1", f"1 ZSCORE z {q(h)}", f"1 ZRANK z {q(o)}",
                         f"1 ECHO {q(h)}", f"1 GETSET g {q(h)}", f"1 GETSET g {q(o)}", f"1 MSET m1 {q(h)} m2 {q(o)}", "1 MGET m1 m2",
                         f"1 RPOPLPUSH l l2", "1 SCAN 0", "1 HSCAN h 0", "1 SSCAN s 0", "1 ZSCAN z 0"]:
                script += line + "\n"
        out.append(dict(kind="wirescript", driver="wiredriver", script=script))
        # "megabytes long": a value holding every byte value (1 MiB, 3 MiB in the thorough tier) as string value, list
        # element, hash value and set member, and as a hash FIELD and a KEY NAME of 64 KiB, written and read back
        size = (3 if tier == "thorough" else 1) * 4096
        big = "x" + (bytes(range(256)) * size).hex()
        name = "x" + (bytes(range(1, 256)) * 257).hex()
        bs = ""
        for sec in (f"str.Set {hx('k')} {big}\nstr.Get {hx('k')}\nstr.Set {hx('k')} {big}00\nstr.Get {hx('k')}\n",
                    f"list.PushBack {hx('l')} {big}\nlist.Range {hx('l')} 0 -1\nlist.Get {hx('l')} 0\n",
                    f"hash.Set {hx('h')} {hx('f')} {big}\nhash.Get {hx('h')} {hx('f')}\nhash.Set {hx('h')} {name} {hx('v')}\nhash.Get {hx('h')} {name}\nhash.Exists {hx('h')} {name}00\n",
                    f"set.Add {hx('s')} 1 {big}\nset.Exists {hx('s')} {big}\nset.Exists {hx('s')} {big}00\n",
                    f"str.Set {name} {hx('v')}\nstr.Get {name}\nkey.Exists {name}\nkey.Exists {name}00\nkey.Rename {name} {name}01\nstr.Get {name}01\n"):
            bs += "--- db\n" + sec
        out.append(dict(kind="script", script=bs))
        return out

    def judge(self, op, v, mode):
        if v.get("_wire") is not None:
            if v.get("M") == "0":
                return ("violation", "a byte string was not returned byte-for-byte with the right reply type over the wire (wire model)")
            return None
        return judge_spec(v, self.listed)


class C16(Cfg):
    lean = ["Props.C16", "Audit.C16"]
    audit = ["C16"]
    tie = ["SqlOrderLimit", "SqlFull_rkey", "SqlFull_rset", "SqlFull_rhash", "SqlFull_rzset"]
    facts = [r"^sql\..*\.sqlScan", r"^sql\..*\.(order|limit)$", r"^facts\..*Scan", r"^consts\.scanPageSize"]
    listed = {"D10"}
    rule = ("collections of 0..40 elements (sets, hashes, sorted sets, the keyspace with all five types) built in ascending, descending and random "
            "order, with interleaved deletes and re-inserts, with elements written again, with multi-byte names, after a rename and as the destination of a store; one collection of 1100 elements per family drained with page sizes {default, 999, 1000, 1001, n-1, n+5, 5000} (the build history is replayed by the model; "
            "the D10 classifier is decided on the rowids the model assigns); each drained twice (cursor fed back "
            "until an empty page; Scanner object) for page sizes {default, 1, 2, 3, n, n+1, negative, random} x six patterns x type filters; "
            "a case is one drain, distinct by (collection dump, request), non-trivial when something matched")

    def streams(self, tier, seed, search):
        n = 16
        t = 600 if tier == "thorough" else (96 if search else 48)
        out = [dict(kind="scan", args=["-seed", seed * 1000 + 400 + i, "-traces", t, "-maxn", 40]) for i in range(n)]
        # collections larger than every page-size constant of the code (10, 1000), page sizes above them
        bign = 2300 if tier == "thorough" else 1100
        out += [dict(kind="scan", args=["-seed", seed * 1000 + 440 + i, "-big", bign, "-bigfam", f])
                for i, f in enumerate(["key", "set", "hash", "zset"])]
        # the wire commands: SCAN / SSCAN / HSCAN / ZSCAN page by page (every cursor a page can return is asked for) over a
        # keyspace with runs of keys of one type and collections filled in ascending order, with TYPE, MATCH and COUNT
        sc = "---\n"
        for i in range(12):
            sc += f"1 SET a{i:02d} v\n"
        for i in range(4):
            sc += f"1 HSET b{i:02d} f v\n1 RPUSH c{i:02d} x\n"
        for i in range(14):
            sc += f"1 SADD S e{i:02d}\n1 HSET H e{i:02d} v\n1 ZADD Z {i} e{i:02d}\n"
        for cur in range(0, 22):
            for opts in ("", " COUNT 3", " TYPE hash", " TYPE hash COUNT 3", " TYPE list COUNT 1", " MATCH b* TYPE hash COUNT 2", " MATCH a* COUNT 5", " TYPE string COUNT 12", " COUNT 0"):
                sc += f"1 SCAN {cur}{opts}\n"
        for cur in range(0, 45, 2):
            for opts in ("", " COUNT 3", " MATCH e0* COUNT 4", " COUNT 14", " COUNT 0"):
                sc += f"1 SSCAN S {cur}{opts}\n1 HSCAN H {cur}{opts}\n1 ZSCAN Z {cur}{opts}\n"
        out.append(dict(kind="wirescript", driver="wiredriver", script=sc))
        return out

    def counts(self, op, v):
        return True

    needs_wire = True

    def judge(self, op, v, mode):
        if v.get("_wire") is not None:
            if v.get("M") == "0":
                return ("violation", "a page of a wire scan command (cursor, items, type filter, count) is not the page the repository call returns (wire model)")
            return None
        if v.get("S") == "0" and not (set(v["K"]) & self.listed):
            return ("violation", "the iteration did not return every matching element exactly once and the rowid order agrees with the index order (no D10)")
        if v.get("M") == "0":
            return ("corr", "model iteration and real iteration disagree")
        if v.get("B") == "0":
            return ("corr", "the tables built by the recorded history differ from the tables the model builds (ids, lengths or rowids): "
                    "the D10 classifier is decided on the model's rowids")
        return None


class C07(Cfg):
    lean = ["Props.C07", "Audit.C07", "Props.C12", "Audit.C12"]
    audit = ["C07", "C12"]
    tie = ["Facts_rstring", "Facts_rkey", "Facts_rlist", "Facts_rset", "Facts_rhash", "Facts_rzset", "Consts"]
    facts = [r"^wrappers\.", r"^facts\.", r"^consts\.(execTx|dataSource|applySettings|open|new|update|view)"]
    listed = ALL_API_FINDINGS | {"D14", "D19"}
    rule = ("random traces through an interposing database/sql driver (Options.DriverName): each operation is first attempted with a storage fault "
            "injected before RW call k (k in 1..6: begin, any statement, commit), then run again without fault; interleaved user transactions of "
            "1..4 operations aborted after any prefix by returned error, panic, commit failure and (every 4th trace) context cancellation; a FAULT "
            "case must report the failure and leave all six tables byte-identical; the steps that follow are judged against model and spec; "
            "distinct by (fault description, pre-state); plus, for six ways of naming a database (file, file: URI, mode=rwc, mode=rw, memdb VFS, :memory:), "
            "always-writing operations attempted inside DB.View and through an OpenRead handle: each must be refused and leave the tables unchanged")

    def streams(self, tier, seed, search):
        n = 16
        t, l = (600, 80) if tier == "thorough" else ((160, 70) if search else (70, 70))
        out = [dict(kind="fault", args=["-seed", seed * 1000 + 500 + i, "-traces", t, "-len", l, "-cancel", 4]) for i in range(n)]
        # read-only transactions and read-only handles, for every way of naming a database
        out += [dict(kind="ro", args=["-seed", seed * 1000 + 560 + i, "-traces", 12 if tier == "thorough" else 3]) for i in range(2)]
        return out

    def counts(self, op, v):
        return "R" in v

    def judge(self, op, v, mode):
        if "R" in v:      # a FAULT line
            if "D19" in v["K"] and (v.get("A") == "0" or v.get("R") == "0") and v.get("I") != "0":
                return None       # listed: View on ':memory:' writes (reported as KNOWN-FINDING)
            if v.get("A") == "0":
                return ("violation", "a failed operation / aborted transaction changed the tables")
            if v.get("R") == "0":
                return ("violation", "an injected failure was not reported to the caller")
            if v.get("F") == "0" and "D14" not in v["K"]:
                return ("violation", "connection settings changed after the failure")
            return None
        if v.get("P") == "1" and v.get("I") == "0" and not (set(v["K"]) & self.listed):
            return ("violation", "the database is structurally inconsistent after continuing past a failure")
        return judge_spec(v, self.listed)


class C08(Cfg):
    lean = ["Props.C08", "Audit.C08"]
    audit = ["C08"]
    tie = ["Consts", "Facts_rstring", "Facts_rkey", "Facts_rlist", "Facts_rset", "Facts_rhash", "Facts_rzset"]
    facts = [r"^wrappers\.", r"^consts\.(setNumConns|rwMaxOpenConns|dataSource|execTx|applySettings)"]
    listed = {"D15"}
    rule = ("rounds of 2..5 goroutines sharing one handle, 2..4 items each on 1..3 keys (increments, gets, sets, list push/pop/rotate, set "
            "add/move/pop, hash increments; one item in three is a user transaction of 2..3 operations, DB.Update or read-only DB.View, judged as one "
            "event) with random start offsets; the Lean driver searches for a sequential order of whole operations that "
            "respects the recorded call/return instants and explains every result and the final tables (Wing-Gong on the model); plus conservation "
            "runs of 160..320 concurrent increments, pops from both ends and moves; on-disk WAL, in-memory VFS and shared-cache :memory: "
            "configurations; and the same search over histories of 2..5 client connections of the real server binary (unix socket, on-disk database) "
            "issuing single commands and MULTI...EXEC blocks, a block being one event that must take effect as a unit; a case is one history, non-trivial when at least two operations overlapped")

    def streams(self, tier, seed, search):
        n = 12
        r = 2500 if tier == "thorough" else (400 if search else 200)
        out = [dict(kind="conc", args=["-seed", seed * 1000 + 600 + i, "-rounds", r, "-cons", 2, "-cfgs", "wal,memdb"]) for i in range(n)]
        out += [dict(kind="conc", args=["-seed", seed * 1000 + 650 + i, "-rounds", r // 2, "-cons", 1, "-cfgs", "shared"]) for i in range(2)]
        # clients of one server: the real binary over a unix socket, single commands and MULTI...EXEC blocks from 2..5 connections
        out += [dict(kind="srvconc", args=["-seed", seed * 1000 + 670 + i, "-rounds", r // 2]) for i in range(4)]
        # six clients on private keys in tight loops: every reply is determined by the client's own history
        out += [dict(kind="srvconc", args=["-hammer", 6000 if tier == "thorough" else 1500]) for i in range(2)]
        return out

    def counts(self, op, v):
        return "L" in v or "TK" in v

    def judge(self, op, v, mode):
        if v.get("TK") == "0":
            return ("violation", "a client of the server received a reply that its own history does not explain although no other client touches its keys")
        if "L" not in v:
            return None
        if v.get("E") == "1" and not (set(v["K"]) & self.listed):
            return ("violation", "an operation failed merely because another one was running")
        if v.get("L") == "0" and not (set(v["K"]) & self.listed):
            return ("violation", "no sequential order of the operations that respects real time explains the observed results and final state")
        if v.get("I") == "0" and not (set(v["K"]) & self.listed):
            # under D15 (shared cache) a statement in the middle of an operation can fail with "table is locked"; a
            # block that ignores the error then commits the operation's partial effects - a consequence of the listed finding
            return ("violation", "the tables are structurally inconsistent after the concurrent round")
        return None


class C09(Cfg):
    lean = ["Props.C09", "Audit.C09"]
    audit = ["C09"]
    tie = ["Schema", "Consts"]
    facts = [r"^schema\.", r"^consts\.(defaultPragma|open|openRead|close|applySettings|createSchema|dataSource)"]
    listed = set()
    rule = ("workloads of 8..12 writes of all five types on an on-disk database (WAL, default pragmas) executed by a child process through an interposing "
            "driver that calls os.Exit (no Close) before and after RW call k, for sampled k over all begin/statement/commit calls, plus death right "
            "after the last acknowledgement and clean close/re-open cycles; the parent re-opens read-write and read-only, runs pragma integrity_check "
            "and dumps; the Lean driver checks recovered = model state after the acknowledged operations, or after one more (the in-flight one), and "
            "the structural invariant; a case is one crash point, non-trivial when at least one write had been acknowledged")

    def streams(self, tier, seed, search):
        n = 16
        t, l, p = (40, 12, 0) if tier == "thorough" else ((6, 10, 0) if search else (4, 10, 10))
        out = [dict(kind="crash", args=["-seed", seed * 1000 + 700 + i, "-traces", t, "-len", l, "-points", p]) for i in range(n)]
        # ONE non-transactional call with 1100 arguments (more than any batching constant), the process dying around each
        # of its last database calls: all of it or none of it
        out.append(dict(kind="crash", args=["-seed", seed, "-wide", 1100]))
        return out

    def counts(self, op, v):
        return "W" in v

    def judge(self, op, v, mode):
        if "W" not in v:
            return None
        if v.get("R") == "0":
            return ("violation", "the database could not be re-opened (read-write and read-only) or failed SQLite's integrity check after process death")
        if v.get("S") == "0":
            return ("violation", "the recovered content is neither the state after the acknowledged writes nor that state plus the whole in-flight write")
        if v.get("I") == "0":
            return ("violation", "the recovered database violates the structural invariant")
        return None


class C20(CrossCfg):
    lean = ["Props.C20", "Audit.C20", "Props.C10clean", "Audit.C10clean"]
    audit = ["C20", "C10clean"]
    tie = ["Consts", "SqlFull_rkey"]
    facts = [r"^consts\.(bg_|close_calls|new_bgStart|open)", r"^sql\.rkey\.sqlDelete(All|N)Expired", r"^facts\.rkey\.Tx\.deleteExpired", r"^wrappers\.rkey\.DeleteExpired"]
    listed = ALL_API_FINDINGS
    rule = ("the reclamation step itself (Key().DeleteExpired(n), what the ticker calls with n = 0) on mixed populations of all five types with expiries "
            "in the past and in the future, interleaved with ordinary operations, judged step by step against model and spec (the abstract keyspace "
            "must not change, exactly the expired rows and their children disappear); the period, the started-iff-not-read-only rule and Close "
            "stopping the ticker are tied to the source constants and used by the Lean theorems; real timers are observed only in the thorough tier")

    def streams(self, tier, seed, search):
        n, t, l = scale(tier, search)
        out = [api(seed * 1000 + 800 + i, t, l, "expire,expire,str,list,set,hash,zset,key", "db", 0.02) for i in range(n)]
        for nkeys, limit in ((1500, 0), (300, 0), (300, 7)):
            sc = "--- db\n"
            for i in range(nkeys):
                k = hx("x%05d" % i)
                if i % 3 == 0:
                    sc += f"!set.Add {k} 2 {EA} {EB}\n"
                else:
                    sc += f"!str.Set {k} {EA}\n"
                if i % 10 != 9:
                    sc += f"!key.ExpireAt {k} {1000 + i}\n"
            sc += f"key.DeleteExpired {limit}\nkey.Len\nkey.DeleteExpired 0\nkey.Len\n"
            out.append(dict(kind="script", script=sc))
        # a backlog beyond SQLite's bound-parameter limit (32766) and every batch constant of the code
        out.append(dict(kind="tick", args=["-backlog", 120000 if tier == "thorough" else 40000]))
        # the reclamation goroutine exists exactly while a read-write handle is open (open / close orders, shared Options)
        out.append(dict(kind="tick", args=["-lifecycle"]))
        # reclamation steps concurrent with writers (some of them to names whose expiry has passed) and readers on one
        # handle: the round must be explainable by a sequential order of whole operations
        out += [dict(kind="conc", args=["-seed", seed * 1000 + 860 + i, "-rounds", 400 if tier == "thorough" else 120, "-cons", 0, "-cfgs", "wal,memdb"])
                for i in range(4)]
        if tier == "thorough":
            out.append(dict(kind="tick", args=["-seed", seed, "-keys", 2000]))
        return out

    def counts(self, op, v):
        return op == "key.DeleteExpired" or "TK" in v or "L" in v

    def judge(self, op, v, mode):
        if "L" in v:       # a concurrent round with reclamation steps
            if v.get("E") == "1" and not (set(v["K"]) & {"D15"}):
                return ("violation", "an operation failed merely because the reclamation (or another operation) was running")
            if v.get("L") == "0" and not (set(v["K"]) & {"D15"}):
                return ("violation", "a concurrent round with reclamation steps is not explained by any sequential order of whole operations (a live key was touched, or a write was lost)")
            return None
        if "TK" in v:      # a TICK line of the real-time observation
            if v.get("TK") == "0":
                return ("violation", "expired keys were not reclaimed within the period, or live keys were touched, or service failed during the tick")
            return None
        if op == "key.DeleteExpired":
            if v.get("G") == "0":
                return ("violation", "expired keys are still stored after the reclamation step the background manager runs (DeleteExpired(0))")
            r = judge_spec(v, self.listed)
            if r:
                return r
            if v.get("P") == "1" and v.get("I") == "0":
                return ("violation", "reclamation left the tables structurally inconsistent")
        return None


# ----------------------------------------------------------------------------- wire layer (C13-C15)

def unhex(tok):
    return bytes.fromhex(tok[1:]) if tok.startswith("x") else b""


def wire_fields(line):
    """(conn, inMulti, nQueued, request args as bytes, reply tokens, pre-dump, post-dump, post-state)"""
    f = line.split(" | ")
    if len(f) < 7 or not f[0].endswith(" wire"):
        return None
    c = f[2].split()
    r = f[3].split()
    args = [unhex(t) for t in r[2:]]
    return dict(conn=c[0], inMulti=c[1] == "1", nq=int(c[2]), queue=c[2:], args=args, toks=f[4].split(), pre=f[1], post=f[5], post_state=f[6].split())


def reply_shape(toks):
    """Parse the token sequence of one request: returns (complete_values, leftover_or_incomplete, panicked)."""
    panicked = bool(toks) and toks[-1] in ("!PANIC", "!HANG")
    if panicked:
        toks = toks[:-1]
    if toks == ["."]:
        toks = []
    i = 0
    values = 0
    incomplete = False

    def one():
        nonlocal i, incomplete
        if i >= len(toks):
            incomplete = True
            return
        t = toks[i]
        i += 1
        if t.startswith("*"):
            n = int(t[1:])
            for _ in range(max(n, 0)):
                one()
                if incomplete:
                    return
    while i < len(toks) and not incomplete:
        one()
        if not incomplete:
            values += 1
    return values, incomplete, panicked


NUMKEYS_CMDS = {b"zinter", b"zunion", b"zinterstore", b"zunionstore"}


def wire_known(w):
    """classifiers of the wire-level known findings, from the request alone"""
    k = set()
    if not w["args"]:
        return k
    return k


def wire_finding_reproduced(f, line):
    w = wire_fields(line)
    if not w:
        return False
    values, incomplete, panicked = reply_shape(w["toks"])
    toks = w["toks"]
    if f["verdict"] == "panic":
        return panicked
    if f["verdict"] == "short":
        return incomplete
    if f["verdict"] == "syntax":
        return bool(toks) and toks[0].startswith("-") and b"syntax error" in unhex(toks[0][1:])
    if f["verdict"] == "ok":
        return toks == ["+x4f4b"]
    return False


def judge_sock(v, line):
    """SOCK lines: the real server binary over a unix socket against the in-process handler chain."""
    if v.get("H") == "0":
        why = line.split(" | ")[-1]
        return ("violation", "real server over a socket: " + why[:200])
    if v.get("B") == "0":
        return ("violation", "the bytes on the wire are not the RESP encoding of the reply tokens")
    if v.get("D") == "0" and not line.rstrip().endswith("SHORT"):
        return ("violation", "the strict RESP decoder does not read exactly one reply from the bytes the server sent")
    return None


class WireCfg(Cfg):
    needs_wire = True
    sock_streams = 0

    def sock(self, tier, seed, search):
        n = self.sock_streams * (4 if tier == "thorough" else 1)
        r = 1500 if tier == "thorough" else 400
        return [dict(kind="sock", driver="wiredriver", args=["-seed", seed * 1000 + 950 + i, "-requests", r]) for i in range(n)]

    lean = ["Model.Wire.Server", "Model.Wire.Witness", "WireProto"]
    tie = ["Grammar", "Dispatch", "Server", "Cmds"]
    facts = [r"^dispatch", r"^server\.", r"^grammar"]
    wire_streams = []

    def streams(self, tier, seed, search):
        mult = 8 if tier == "thorough" else (2 if search else 1)
        out = []
        for kind, n, traces, length in self.wire_streams:
            for i in range(n):
                args = ["-seed", seed * 1000 + 900 + i, "-traces", traces * mult, "-len", length, "-stream", kind.split(":")[0]]
                if ":" in kind:
                    args += kind.split(":")[1].split()
                    args[1] = i      # exhaustive shards are numbered from 0
                    args[3] = traces
                out.append(dict(kind="wire", driver="wiredriver", args=args))
        return out + self.sock(tier, seed, search)

    def counts(self, op, v):
        return True


class C13(WireCfg):
    lean = WireCfg.lean + ["Props.C13", "Audit.C13", "Props.C13api", "Audit.C13api"]
    audit = ["C13", "C13api"]
    wire_streams = [("valid", 10, 60, 100), ("malformed", 3, 60, 100), ("pool", 3, 20, 200)]
    listed = {"D20"}
    rule = ("requests generated from each command's grammar (all option subsets and orders, keyword case variants, boundary and malformed "
            "numbers, missing/extra arguments, values that spell keywords) for all 98 dispatched names, over the shared small universes, driven "
            "through the real handler chain in process with a recording redcon.Conn; each line is judged by the Lean wire model, whose command "
            "table runs the generated grammars and maps every command to the model of its documented API call (typed reply tokens and full table "
            "dump compared); a case is one request, distinct by (request, pre-state), non-trivial when the reply is not an error")

    sock_streams = 2

    def judge(self, op, v, mode):
        if "H" in v:
            return judge_sock(v, v.get("_line", ""))
        if v.get("M") == "0":
            return ("violation", "the reply or the resulting tables differ from the typed encoding of the documented API call on the same data (wire model)")
        return None


class C14(WireCfg):
    lean = WireCfg.lean + ["Props.C14", "Audit.C14", "Props.C14pipe", "Audit.C14pipe", "Props.C17", "Audit.C17"]
    audit = ["C14", "C14pipe", "C17"]
    wire_streams = [("malformed", 6, 60, 100), ("pool", 6, 20, 200), ("multi", 4, 60, 100)]
    listed = set()
    rule = ("every supported and unsupported command name x argument vectors of length 0..3 over a pool of hostile tokens (exhaustive for short vectors), "
            "random malformed vectors, the same inside MULTI/EXEC; the token sequence written for each request must be exactly one complete RESP value "
            "and the handler must not panic (a panic kills the real server); the connection state after the request must be the model's")

    sock_streams = 3

    def streams(self, tier, seed, search):
        out = WireCfg.streams(self, tier, seed, search)
        # requests that end in an error reply, each repeated far more often than any pool of connections, cursors or
        # buffers is large, then ordinary reads and writes: a resource that an error path does not give back runs out
        # and the next request never returns (reported by the hang watchdog with its input)
        rep = 24
        setup = ["1 ZADD za +inf m", "1 ZADD zb -inf m", "1 SET s notanumber", "1 RPUSH l a", "1 HSET h f x", "1 SADD st a"]
        errs = ["1 ZUNION 2 za zb WITHSCORES", "1 ZINTER 2 za zb", "1 ZUNIONSTORE d 2 za zb", "1 ZINTERSTORE d 2 za zb", "1 INCR s", "1 INCRBYFLOAT s 1.5",
                "1 LPUSH s x", "1 HINCRBY h f 1", "1 SADD l x", "1 LRANGE nolist -2 -1", "1 LSET l 9 x", "1 RENAME nokey other",
                "1 ZADD st 1 m", "1 SMOVE st l a", "1 GET l", "1 ZRANGE l 0 -1", "1 HGETALL l", "1 SINTERSTORE l st st", "1 SCAN x"]
        probes = ["1 GET s", "1 EXISTS s l h", "1 ZCARD za", "1 LLEN l", "1 SET s2 v", "1 DBSIZE", "1 KEYS *", "1 HGET h f", "1 SCARD st"]
        script = "---\n" + "\n".join(setup) + "\n"
        for e in errs:
            script += (e + "\n") * rep + "\n".join(probes) + "\n"
        out.append(dict(kind="wirescript", driver="wiredriver", script=script))
        return out

    def judge(self, op, v, mode):
        if "H" in v:
            return judge_sock(v, v.get("_line", ""))
        w = v.get("_wire")
        if w:
            values, incomplete, panicked = reply_shape(w["toks"])
            known = wire_known(w)
            if panicked and w["toks"][-1] == "!HANG":
                return ("violation", "the request did not return: the connection hangs (and, holding the single read-write connection, so does every other writer)")
            if panicked:
                return ("violation", "the handler panicked (the real server would go down)")
            if not panicked and (values != 1 or incomplete):
                return ("violation", f"the request was answered with {values} complete replies" + (" and an incomplete one" if incomplete else ""))
        if v.get("M") == "0":
            return ("violation", "reply or connection state differs from the wire model")
        return None


class C15(WireCfg):
    lean = WireCfg.lean + ["Props.C15", "Audit.C15", "Props.C07", "Audit.C07"]
    audit = ["C15", "C07"]
    wire_streams = [("multiseq:", 16, 1051, 5), ("multiseq:-conns 2", 16, 172, 3), ("multi", 4, 60, 100)]
    listed = set()
    rule = ("all 7^5 sequences over {MULTI, EXEC, DISCARD, succeeding write, write failing at run time, unparsable command, read} on one connection "
            "(exhaustive) and random MULTI blocks on one and two interleaved connections; judged by the Lean transcription of the handler chain and, "
            "independently, by a reference state machine (queued commands change nothing; EXEC announces the queue length; a failing queued command "
            "leaves the tables unchanged; EXEC/DISCARD without MULTI and nested MULTI are refused without disturbing the connection)")

    def streams(self, tier, seed, search):
        out = WireCfg.streams(self, tier, seed, search)
        # two connections, every interleaving of a block on A with ordinary traffic on B, after both
        # connections have already been used
        import itertools
        a_seqs = [["SET a0 1", "MULTI", "SET a1 1", "INCR cnt", "EXEC", "GET a1"],
                  ["GET k", "MULTI", "RPUSH l x", "SET a2 2", "DISCARD", "MULTI", "SET a3 3", "EXEC"],
                  ["PING", "MULTI", "INCR cnt", "INCR cnt", "EXEC"]]
        b_seqs = [["SET b0 1", "GET cnt", "INCR cnt"], ["PING", "MULTI", "SET b1 1", "EXEC"], ["GET a1", "RPUSH l y"]]
        script = ""
        for A in a_seqs:
            for B in b_seqs:
                n, m = len(A), len(B)
                for pos in itertools.combinations(range(n + m), m):
                    ai = bi = 0
                    script += "---\n"
                    for i in range(n + m):
                        if i in pos:
                            script += "2 " + B[bi] + "\n"
                            bi += 1
                        else:
                            script += "1 " + A[ai] + "\n"
                            ai += 1
        out.append(dict(kind="wirescript", driver="wiredriver", script=script))
        # a block far longer than any batching constant: 1100 queued commands, then one that fails; nothing may be kept
        # (and a block of 1100 commands that all succeed is kept whole)
        # relative expiries inside a block are relative to EXEC, not to the moment the command was queued (requests are
        # at least a millisecond apart, so a time resolved at queue time shows in the stored expiry)
        rel = ""
        for cmds in (["SET k v EX 3600"], ["SET k v PX 3600000", "GET k"], ["SET k v", "EXPIRE k 7200"], ["SET k v", "PEXPIRE k 7200000"],
                     ["SETEX k 3600 v"], ["PSETEX k 3600000 v"], ["SET k v NX EX 3600", "TTL k"], ["RPUSH l a", "EXPIRE l 3600", "PERSIST l", "EXPIRE l 7200"]):
            rel += "---\n1 MULTI\n" + "".join(f"1 {c}\n" for c in cmds) + "1 PING\n1 ECHO wait\n1 EXEC\n1 TTL k\n1 TTL l\n"
        out.append(dict(kind="wirescript", driver="wiredriver", script=rel))
        big = "---\n1 SET str x\n1 MULTI\n" + "1 INCR counter\n" * 1100 + "1 LPUSH str y\n1 EXEC\n1 GET counter\n1 DBSIZE\n"
        big += "---\n1 MULTI\n" + "1 INCR counter\n" * 1100 + "1 EXEC\n1 GET counter\n"
        out.append(dict(kind="wirescript", driver="wiredriver", script=big))
        return out

    def judge(self, op, v, mode):
        w = v.get("_wire")
        if w:
            # continuity: nobody but the connection itself may change its MULTI state; the state
            # read before a request must be the state left by that connection's previous request
            tr = v.get("_trace")
            key = (tr, w["conn"])
            last = self.__dict__.setdefault("_last", {})
            pre_state = [w["conn"], "1" if w["inMulti"] else "0"] + w["queue"]
            if key in last and last[key] != pre_state:
                return ("violation", "the connection's MULTI state changed between two of its own requests (another connection's traffic reached it)")
            last[key] = w["post_state"]
        if w and w["args"]:
            name = w["args"][0].lower()
            toks = w["toks"]
            same = w["pre"] == w["post"]
            if w["inMulti"]:
                if name == b"exec":
                    values, incomplete, panicked = reply_shape(toks)
                    if toks and toks[0] != f"*{w['nq']}":
                        return ("violation", "EXEC did not announce one reply per queued command")
                    if incomplete or values != 1:
                        return ("violation", "EXEC did not deliver one complete reply per queued command (the array it announced is incomplete)")
                    if any(t.startswith("-") for t in toks[1:]) and not same:
                        return ("violation", "a queued command failed during EXEC but some of the block's effects were kept")
                    if w["post_state"][1:3] != ["0", "0"]:
                        return ("violation", "the connection is still in MULTI state after EXEC")
                elif name == b"discard":
                    if not same or w["post_state"][1:3] != ["0", "0"]:
                        return ("violation", "DISCARD changed the tables or did not leave MULTI state")
                elif name == b"multi":
                    if not same or not (toks and toks[0].startswith("-")) or w["post_state"][1] != "1":
                        return ("violation", "nested MULTI was not refused without disturbing the connection")
                else:
                    if not same:
                        return ("violation", "a command queued inside MULTI took effect before EXEC")
            else:
                if name in (b"exec", b"discard") and (not same or not (toks and toks[0].startswith("-"))):
                    return ("violation", "EXEC/DISCARD without MULTI was not refused cleanly")
        if v.get("M") == "0":
            return ("violation", "replies, tables or connection state differ from the transcription of the handler chain")
        return None


GLOB_TOKENS = ["a", "b", "*", "?", "[ab]", "[a-c]", "[^a]", "[!a]", "[", "]", "\\", "-", "[]a]", "[a-]", "[^]]", "c"]
GLOB_ALPHA = "abcd*?[]-^!\\"


class C18(Cfg):
    lean = ["Props.C18", "Audit.C18"]
    audit = ["C18"]
    tie = ["SqlFull_rkey", "SqlFull_rset", "SqlFull_rhash", "SqlFull_rzset"]
    facts = [r"^sql\.rkey\.sql(Keys|Scan)\.", r"^sql\.(rset|rhash|rzset)\.sqlScan\."]
    listed = {"D16"}
    rule = ("every pattern of up to 3 tokens over {literals, *, ?, [ab], [a-c], [^a], [!a], unterminated [, ], backslash, -, []a], [a-], [^]]} against all "
            "names of length 1..2 (and selected longer ones) over the alphabet abcd*?[]-^!\\, through Keys (judged against the Lean transcription of "
            "SQLite GLOB and, inside the theorem's domain, against the independent reference matcher globSpec) and through SSCAN/HSCAN/ZSCAN/SCAN "
            "(same matcher at all five sites); a case is (pattern, name set), non-trivial when the pattern selected something")

    def streams(self, tier, seed, search):
        import itertools
        names = [c for c in GLOB_ALPHA] + [a + b for a in GLOB_ALPHA for b in GLOB_ALPHA] + ["key", "key1", "kdy", "kay", "a-c", "abc", "aXb"]
        maxlen = 3
        pats = []
        for n in range(1, maxlen + 1):
            for toks in itertools.product(GLOB_TOKENS, repeat=n):
                pats.append("".join(toks))
        pats = sorted(set(pats + ["key*", "k?y", "k[bce]y", "k[!a-c][y-z]", "k[^a-c][y-z]", "", "**", "*a*b*", "[z-a]", "a[b-]c"]))
        nparts = 8
        out = []
        for part in range(nparts):
            mine = names[part::nparts]
            s = "--- db\n"
            # matching must not depend on the expiry state of a name: every third name carries a live TTL,
            # and in every other part so do the collections that are scanned
            for i, nm in enumerate(mine):
                s += f"!str.SetExpires {hx(nm)} {hx('v')} 7200000\n" if i % 3 == 1 else f"!str.Set {hx(nm)} {hx('v')}\n"
            s += f"!set.Add {hx('S')} {len(mine)} " + " ".join(hx(nm) for nm in mine) + "\n"
            for nm in mine[:12]:
                s += f"!hash.Set {hx('H')} {hx(nm)} {hx('v')}\n!zset.Add {hx('Z')} {hx(nm)} 1p0\n"
            if part % 2:
                s += f"!key.Expire {hx('S')} 7200000\n!key.Expire {hx('H')} 7200000\n!key.Expire {hx('Z')} 7200000\n"
            step = 1 if tier == "thorough" or search else 2
            for i, pt in enumerate(pats):
                if (i + part) % step:
                    continue
                s += f"key.Keys {hx(pt)}\n"
                if search or tier == "thorough" or i % 7 == part % 7:
                    s += f"set.Scan {hx('S')} 0 {hx(pt)} -1\nhash.Scan {hx('H')} 0 {hx(pt)} -1\nzset.Scan {hx('Z')} 0 {hx(pt)} -1\nkey.Scan 0 {hx(pt)} 0 -1\n"
            out.append(dict(kind="script", script=s))
        # names with 2-, 3- and 4-byte UTF-8 characters (the specification does not fix their meaning: the five
        # sites are compared with the transcription of SQLite's GLOB, which decodes UTF-8 as SQLite does)
        u = lambda t: hx(t.encode("utf-8"))
        unames = ["k\u00e9", "k\u4e2d", "k\U0001F600", "\U0001F600", "\u00e91", "user:\U0001F600", "user:a", "user:\u00e9", "k", "ka",
                  "user:\U0001F600tag", "\U0001F511main"]
        upats = ["*", "?", "k*", "k?", "user:*", "user:?", "user:*tag", "k[\u00e8-\u00ea]", "k\U0001F600", "*\U0001F600*", "??", "user:[a-z]",
                 "\U0001F600", "k\u00e9", "*main"]
        s = "--- db\n"
        for i, nm in enumerate(unames):
            s += f"!str.SetExpires {u(nm)} {hx('v')} 7200000\n" if i % 3 == 1 else f"!str.Set {u(nm)} {hx('v')}\n"
        s += f"!set.Add {hx('S')} {len(unames)} " + " ".join(u(nm) for nm in unames) + "\n"
        for nm in unames:
            s += f"!hash.Set {hx('H')} {u(nm)} {hx('v')}\n!zset.Add {hx('Z')} {u(nm)} 1p0\n"
        for pt in upats:
            s += f"key.Keys {u(pt)}\nset.Scan {hx('S')} 0 {u(pt)} -1\nhash.Scan {hx('H')} 0 {u(pt)} -1\nzset.Scan {hx('Z')} 0 {u(pt)} -1\nkey.Scan 0 {u(pt)} 0 -1\n"
        out.append(dict(kind="script", script=s))
        return out

    def counts(self, op, v):
        return op in ("key.Keys", "set.Scan", "hash.Scan", "zset.Scan", "key.Scan")

    def judge(self, op, v, mode):
        if not self.counts(op, v):
            return None
        if v.get("S") == "0" and not (set(v["K"]) & self.listed):
            return ("violation", "the names selected differ from the reference glob matcher inside the domain where C18 fixes the meaning")
        if v.get("M") == "0" and "out" in v["D"]:
            if op != "key.Keys":
                return ("violation", "this scan site selects different names than the common glob matcher (the transcription of SQLite GLOB validated at the other sites)")
            return ("corr", "SQLite's GLOB and its Lean transcription select different names")
        return None


PROPS = {
    "C01": C01("C01", "str", "rstring", {"D05", "D17"}),
    "C02": C02("C02", "list", "rlist", {"D03", "D05"}),
    "C03": C03("C03", "set", "rset", {"D05", "D08"}),
    "C04": C04("C04", "hash", "rhash", {"D05", "D17"}),
    "C05": C05("C05", "zset", "rzset", {"D05", "D08"}),
    "C06": C06(),
    "C07": C07(),
    "C08": C08(),
    "C09": C09(),
    "C10": C10(),
    "C11": C11(),
    "C12": C12(),
    "C13": C13(),
    "C14": C14(),
    "C15": C15(),
    "C16": C16(),
    "C17": C17(),
    "C18": C18(),
    "C19": C19(),
    "C20": C20(),
}

# The printed source of every function of the packages a property depends on is tied to the snapshot the
# model was transcribed from (Tie/Funcs_<pkg>): no function of those packages can change without an
# obligation of the property breaking (and the search for a failing input being widened).
_FUNC_TIES = {
    "C06": RPKGS, "C10": RPKGS, "C11": RPKGS + ["sqlx"], "C12": RPKGS, "C19": RPKGS,
    "C17": RPKGS + ["core", "parser", "redis"], "C16": ["rkey", "rset", "rhash", "rzset"],
    "C18": ["rkey", "rset", "rhash", "rzset"],
    "C07": RPKGS + ["sqlx", "redka"], "C08": RPKGS + ["sqlx", "redka", "server"],
    "C09": ["sqlx", "redka", "main"], "C20": ["rkey", "redka"],
    "C13": ["parser", "redis", "command", "server", "core"], "C14": ["parser", "redis", "command", "server"],
    "C15": ["server", "redis", "command"],
}
for _pid, _pk in _FUNC_TIES.items():
    _t, _f = funcs_tie(*_pk)
    PROPS[_pid].tie = list(PROPS[_pid].tie) + [m for m in _t if m not in PROPS[_pid].tie]
    PROPS[_pid].facts = list(PROPS[_pid].facts) + _f
