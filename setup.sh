#!/bin/sh
# Build everything the checks need, from files on disk only (offline).
set -e
cd "$(dirname "$0")"
export GOFLAGS=-mod=mod GOPROXY=off GOSUMDB=off GOTOOLCHAIN=local
mkdir -p build evidence replays
(cd tools/extract && go build -o ../../build/extract .)
./build/extract -repo /repo -lean lean -json build/generated.json >/dev/null
(cd tools/extract_wire && go build -o ../../build/extract_wire .)
./build/extract_wire -repo /repo -ns Generated -out lean/RedkaModel/Generated/Grammar.lean -cmds lean/RedkaModel/Generated/Cmds.lean
(cd lean && lake build)
python3 -c "import veriflib as V; e,o=V.build_harness(True); print('harness', e)"
