#!/bin/sh
# Run every registered quick check on the current tree and validate manifest and evidence.
cd "$(dirname "$0")"
tier=${1:-quick}
fail=0
for p in $(python3 -c "import props; print(' '.join(sorted(props.PROPS)))"); do
  out=$(./check $p --tier $tier 2>&1); rc=$?
  echo "$out" | grep -v "^KNOWN-FINDING" | tail -2
  [ $rc -ne 0 ] && fail=1
done
python3-vt - <<'PY'
import json, jsonschema, glob
m=json.load(open('MANIFEST.json')); jsonschema.validate(m, json.load(open('/root/.vp/MANIFEST.schema.json')))
es=json.load(open('/root/.vp/EVIDENCE.schema.json'))
for c in m['checks']:
    e=json.load(open(c['evidence_file'])); jsonschema.validate(e, es)
    cov=e['coverage']
    assert cov['discharged']==cov['obligations'], (c['property_id'], cov['discharged'], cov['obligations'])
    assert e['violations']==0, c['property_id']
print('manifest + evidence valid for', len(m['checks']), 'checks')
PY
exit $fail
