/-
  Judging whole cursor iterations (C16): the harness drains a collection with repeated `Scan`
  calls feeding back the cursor, and with the `Scanner` iterator object; the driver compares both
  with the model's iteration and with the full listing of matching elements.
-/
import RedkaModel.Proto
import RedkaModel.Model.Scanner

namespace Redka.ScanJudge

open Redka Redka.Proto Redka.Model

def removeFirst (x : Val) : List Val → Option (List Val)
  | [] => none
  | y :: ys => if x == y then some ys else (removeFirst x ys).map (y :: ·)

/-- same elements with the same multiplicities -/
def isPermB : List Val → List Val → Bool
  | [], l => l.isEmpty
  | x :: xs, l => match removeFirst x l with
    | none => false
    | some l' => isPermB xs l'

def increasing : List Int → Bool
  | [] => true
  | [_] => true
  | a :: b :: rest => decide (a < b) && increasing (b :: rest)

structure Req where
  fam : String
  key : Bytes
  pat : Bytes
  ty : Int
  pageSize : Int

def pReq : P Req := do
  let fam ← tok; let key ← pBytes; let pat ← pBytes; let ty ← pInt; let pageSize ← pInt
  pure { fam, key, pat, ty, pageSize }

/-- (model iteration, everything that matches, rowids of the matching rows in the order the
statement walks them) -/
def expected (q : Req) (now : Int) (db : DB) : List Val × List Val × List Int :=
  match q.fam with
  | "key" =>
    let rows := (Scan.keyRows db).filter (fun r => Scan.keyPred q.pat q.ty now r.val)
    (Scan.keyScanner db q.pat q.ty q.pageSize now, rows.map (fun r => keyVal r.val), rows.map (·.id))
  | "set" =>
    let rows : List SetRow := match db.liveKeyT q.key TSet now with
      | none => []
      | some r => (setRows db r.id).filter (fun (x : SetRow) => Glob.sqliteGlob q.pat x.elem)
    (Scan.setScanner db q.key q.pat q.pageSize now, rows.map (fun x => .bytes x.elem), rows.map (·.rowid))
  | "hash" =>
    let rows := (hashLiveRows db q.key now).filter (fun x => Glob.sqliteGlob q.pat x.field)
    (Scan.hashScanner db q.key q.pat q.pageSize now, rows.map (fun x => pairVal (x.field, x.value)), rows.map (·.rowid))
  | "zset" =>
    let rows := zLiveRows db q.key now
    let rows := if zScanByElem q.pat == some true then sortBy (fun (a b : ZRow) => bytesLt a.elem b.elem) rows else rows
    let rows := rows.filter (fun x => Glob.sqliteGlob q.pat x.elem)
    (Scan.zScanner db q.key q.pat q.pageSize now, rows.map zItem, rows.map (·.rowid))
  | _ => ([], [], [])

def pValList : P (List Val) := do
  match (← pVal) with
  | .list l => pure l
  | _ => throw "expected a list value"

/-- what a scan depends on: key ids, names, types, lengths, and the child rows with their rowids -/
def shape (db : DB) : List (Int × Bytes × Int × Option Int) × List SetRow × List HashRow × List ZRow :=
  let c := canon db
  (c.keys.map (fun r => (r.id, r.key, r.ty, r.len)), c.sets, c.hashes, c.zsets)

/-- the tables the model of the code builds from an empty database by the recorded history -/
def replay (hist : String) : Except String DB :=
  let opStrs := if hist.trimAscii.toString.isEmpty || hist.trimAscii.toString == "-" then [] else hist.splitOn " ;; "
  opStrs.foldlM (fun (db : DB) s =>
    match runP (do let t ← pInt; let o ← pOp; pure (t, o)) s with
    | .ok (t, o) => .ok (Model.dbRun o t db).db
    | .error e => .error e) ({} : DB)

/-- `SCAN seq now | dump | fam key pat ty pageSize | cursor-loop result | iterator result [| history]`.
`K` (the D10 classifier: the rowids of the matching rows are not increasing along the index the
statement walks) is decided on the tables the MODEL builds from the recorded history, so a change
in how the code assigns rowids is not absorbed by the classifier; `B` says whether those tables
are the dumped ones (as far as a scan can tell). -/
def judgeWith (replayF : String → Except String DB) (line : String) : String :=
  let parts := line.splitOn " | "
  match parts.take 5, parts.drop 5 with
  | [hdr, preS, reqS, loopS, iterS], rest =>
    match (hdr.splitOn " ").filter (· ≠ "") with
    | [_, seq, nowS] =>
      match nowS.toInt?, runP pDump preS, runP pReq reqS, runP pValList loopS, runP pValList iterS with
      | some now, .ok db, .ok q, .ok loopRes, .ok iterRes =>
        let (model, all, ids) := expected q now db
        let m := model == loopRes && model == iterRes
        let s := isPermB loopRes all && isPermB iterRes all
        let (bv, kids) := match rest with
          | [hist] => (match replayF hist with
            | .ok mdb => ((if decide (shape mdb = shape db) then "1" else "0"), (expected q now mdb).2.2)
            | .error _ => ("E", ids))
          | _ => ("-", ids)
        let k := if q.fam != "key" && !increasing kids then "D10" else ""
        s!"{seq} M={if m then 1 else 0} S={if s then 1 else 0} B={bv} K={k} n={all.length}" ++
          (if m then "" else s!" model= {showVal (.list model)}")
      | _, .error e, _, _, _ => s!"{seq} ERR pre: {e}"
      | _, _, .error e, _, _ => s!"{seq} ERR req: {e}"
      | _, _, _, .error e, _ => s!"{seq} ERR loop: {e}"
      | _, _, _, _, .error e => s!"{seq} ERR iter: {e}"
      | none, _, _, _, _ => s!"{seq} ERR now"
    | _ => "? ERR bad scan header"
  | _, _ => s!"? ERR bad scan line ({parts.length} parts)"

def judge (line : String) : String := judgeWith replay line

/-- the history field of a SCAN line (the sixth), if present -/
def historyOf (line : String) : Option String :=
  match (line.splitOn " | ").drop 5 with
  | [h] => some h
  | _ => none

end Redka.ScanJudge
