/-
  Judging replies read from a real socket (sock mode): the raw bytes the server sent must be
  exactly the RESP encoding (`Resp.stripNewlines`, `appendPrefix`, as redcon writes it and as the
  C17 theorems describe it) of the tokens the handler chain wrote in process, and the strict Lean
  decoder must read exactly one reply from them with nothing left over.
-/
import RedkaModel.WireProto
import RedkaModel.Model.Wire.Resp

namespace Redka.SockJudge

open Redka Redka.Wire Redka.WireProto

def encodeToken : Token → Bytes
  | .str s => (43 : UInt8) :: (Resp.stripNewlines s ++ Resp.crlf)
  | .err s => (45 : UInt8) :: (Resp.stripNewlines s ++ Resp.crlf)
  | .int i => Resp.appendPrefix 58 i
  | .bulk b => Resp.appendPrefix 36 b.length ++ b ++ Resp.crlf
  | .null => [36, 45, 49, 13, 10]
  | .arrayHdr n => Resp.appendPrefix 42 n
  | .raw b => b

def encodeTokens (ts : List Token) : Bytes := ts.flatMap encodeToken

/-- `SOCK seq now | R … | expected tokens | raw reply hex | OK=…` -/
def judge (line : String) : String :=
  match line.splitOn " | " with
  | [hdr, _req, expS, rawS, okS] =>
    match (hdr.splitOn " ").filter (· ≠ "") with
    | [_, seq, _] =>
      let harnessOk := okS.trimAscii.toString.startsWith "OK=1"
      match Proto.parseBytes rawS.trimAscii.toString with
      | .error e => s!"{seq} ERR raw: {e}"
      | .ok raw =>
        match parseTokens expS with
        | .error e => s!"{seq} ERR tokens: {e}"
        | .ok (ts, _) =>
          let bytesOk := decide (encodeTokens ts = raw)
          let decOk := match Resp.decode raw with
            | some (_, []) => true
            | _ => false
          -- requests that are not RESP (raw junk sent for survival) only carry the harness verdict
          s!"{seq} H={if harnessOk then 1 else 0} B={if bytesOk then 1 else 0} D={if decOk then 1 else 0}"
    | _ => "? ERR bad sock header"
  | parts => s!"? ERR bad sock line ({parts.length} parts)"

end Redka.SockJudge
