/-
  Line protocol between the Go harness and the Lean driver: token parsers and printers for
  dumps, operations and results. Not part of the model; trusted as part of the correspondence check.
-/
import RedkaModel.Model.Run
import RedkaModel.Model.Views
import RedkaModel.Model.Conv

namespace Redka.Proto

open Redka

abbrev P := StateT (List String) (Except String)

def tok : P String := do
  match (← get) with
  | [] => throw "unexpected end of tokens"
  | t :: ts => set ts; pure t

def expect (s : String) : P Unit := do
  let t ← tok
  if t == s then pure () else throw s!"expected {s}, got {t}"

def hexVal (c : Char) : Option Nat :=
  if '0' ≤ c && c ≤ '9' then some (c.toNat - '0'.toNat)
  else if 'a' ≤ c && c ≤ 'f' then some (c.toNat - 'a'.toNat + 10)
  else none

def parseHexChars : List Char → Option Bytes
  | [] => some []
  | a :: b :: rest => do
    let x ← hexVal a
    let y ← hexVal b
    let r ← parseHexChars rest
    pure ((x * 16 + y).toUInt8 :: r)
  | _ => none

/-- `x` followed by an even number of lower-case hex digits -/
def parseBytes (s : String) : Except String Bytes :=
  match s.toList with
  | 'x' :: cs => match parseHexChars cs with
    | some b => .ok b
    | none => .error s!"bad hex {s}"
  | _ => .error s!"bad bytes token {s}"

def pBytes : P Bytes := do
  let t ← tok
  match parseBytes t with
  | .ok b => pure b
  | .error e => throw e

def pInt : P Int := do
  let t ← tok
  match t.toInt? with
  | some i => pure i
  | none => throw s!"bad int {t}"

def pNat : P Nat := do
  let i ← pInt
  if i < 0 then throw "negative count" else pure i.toNat

def pBool : P Bool := do
  let t ← tok
  if t == "1" then pure true else if t == "0" then pure false else throw s!"bad bool {t}"

def pOptInt : P (Option Int) := do
  let t ← tok
  if t == "-" then pure none else
  match t.toInt? with
  | some i => pure (some i)
  | none => throw s!"bad optional int {t}"

def pOptBytes : P (Option Bytes) := do
  let t ← tok
  if t == "-" then pure none else
  match parseBytes t with
  | .ok b => pure (some b)
  | .error e => throw e

/-- `<m>p<e>` = m · 2^e -/
def parseDyadic (t : String) : Except String Dyadic :=
  match t.splitOn "p" with
  | [m, e] => match m.toInt?, e.toInt? with
    | some m, some e => .ok (Dyadic.ofIntWithPrec m (-e))
    | _, _ => .error s!"bad dyadic {t}"
  | _ => .error s!"bad dyadic {t}"

def pDyadic : P Dyadic := do
  let t ← tok
  match parseDyadic t with
  | .ok d => pure d
  | .error e => throw e

/-- a value argument of the Go API: hex bytes (given as `string` or `[]byte`), or a typed literal
`i:<n>` (Go `int`), `t:0|1` (`bool`), `f:<m>p<e>` (`float64`), turned into the stored bytes by the
model of `core.ToBytes` -/
def pValueArg : P Bytes := do
  let t ← tok
  if t.startsWith "i:" then
    match (t.drop 2).toString.toInt? with
    | some n => pure (Conv.toBytes (.int n))
    | none => throw s!"bad int literal {t}"
  else if t == "n:" then pure (Conv.toBytes (.bytes []))      -- a nil `[]byte` is the empty byte string
  else if t == "t:1" then pure (Conv.toBytes (.bool true))
  else if t == "t:0" then pure (Conv.toBytes (.bool false))
  else if t.startsWith "f:" then
    match parseDyadic (t.drop 2).toString with
    | .ok d => match Conv.argBytes (.float d) with
      | some b => pure b
      | none => throw s!"float literal outside the modelled domain {t}"
    | .error e => throw e
  else match parseBytes t with
    | .ok b => pure b
    | .error e => throw e

def pScore : P Score := do
  let t ← tok
  if t == "inf" then pure .posInf
  else if t == "-inf" then pure .negInf
  else match parseDyadic t with
    | .ok d => pure (.fin d)
    | .error e => throw e

def pMany {α} (p : P α) : P (List α) := do
  let n ← pNat
  let rec go : Nat → List α → P (List α)
    | 0, acc => pure acc.reverse
    | k + 1, acc => do let x ← p; go k (x :: acc)
  go n []

def pKeyRow : P KeyRow := do
  let id ← pInt; let key ← pBytes; let ty ← pInt; let version ← pInt
  let etime ← pOptInt; let mtime ← pInt; let len ← pOptInt
  pure { id, key, ty, version, etime, mtime, len }

def pDump : P DB := do
  expect "K"; let keys ← pMany pKeyRow
  expect "S"; let strs ← pMany (do let kid ← pInt; let value ← pBytes; pure ({ kid, value } : StrRow))
  expect "L"; let lists ← pMany (do
    let kid ← pInt; let pos ← pDyadic; let elem ← pBytes; pure ({ kid, pos, elem } : ListRow))
  expect "E"; let sets ← pMany (do
    let rowid ← pInt; let kid ← pInt; let elem ← pBytes; pure ({ rowid, kid, elem } : SetRow))
  expect "H"; let hashes ← pMany (do
    let rowid ← pInt; let kid ← pInt; let field ← pBytes; let value ← pBytes
    pure ({ rowid, kid, field, value } : HashRow))
  expect "Z"; let zsets ← pMany (do
    let rowid ← pInt; let kid ← pInt; let elem ← pBytes; let score ← pScore
    pure ({ rowid, kid, elem, score } : ZRow))
  expect "F"; let fk ← pBool
  pure { keys, strs, lists, sets, hashes, zsets, fk }

partial def pVal : P Val := do
  let t ← tok
  if t == "nil" then pure .nil
  else if t == "T" then pure (.bool true)
  else if t == "F" then pure (.bool false)
  else if t == "L" then do
    let n ← pNat
    let rec go : Nat → List Val → P (List Val)
      | 0, acc => pure acc.reverse
      | k + 1, acc => do let x ← pVal; go k (x :: acc)
    let l ← go n []
    pure (.list l)
  else if t == "k" then do
    let id ← pInt; let key ← pBytes; let ty ← pInt; let version ← pInt
    let etime ← pOptInt; let mtime ← pInt
    pure (.key { id, key, ty, version, etime, mtime, len := none })
  else if t.startsWith "i:" then
    match (t.drop 2).toInt? with
    | some i => pure (.int i)
    | none => throw s!"bad int val {t}"
  else if t.startsWith "b:" then
    match parseBytes (t.drop 2).toString with
    | .ok b => pure (.bytes b)
    | .error e => throw e
  else if t.startsWith "s:" then
    let r := (t.drop 2).toString
    if r == "inf" then pure (.score .posInf)
    else if r == "-inf" then pure (.score .negInf)
    -- a NaN result (float increment of a stored "NaN"): no model value equals it
    else if r == "nan" then pure (.list [.bytes "nan".toUTF8.toList])
    else match parseDyadic r with
      | .ok d => pure (.score (.fin d))
      | .error e => throw e
  else throw s!"bad value token {t}"

def parseErr (s : String) : Except String Err :=
  match s with
  | "keytype" => .ok .keyType
  | "notfound" => .ok .notFound
  | "pivotnotfound" => .ok .pivotNotFound
  | "valuetype" => .ok .valueType
  | "notallowed" => .ok .notAllowed
  | "sql:unique" => .ok .sqlUnique
  | "sql:mismatch" => .ok .sqlMismatch
  | "sql:notnull" => .ok .sqlNotNull
  | "sql:other" => .ok .sqlOther
  | _ => .error s!"bad error name {s}"

def pOut : P Out := do
  let t ← tok
  if t == "ok" then do let v ← pVal; pure (.ok v)
  else if t == "err" then do
    let n ← tok
    match parseErr n with
    | .ok e => pure (.error e)
    | .error m => throw m
  else throw s!"bad result {t}"

def pAgg : P Agg := do
  let t ← tok
  match t with
  | "sum" => pure .sum
  | "min" => pure .min
  | "max" => pure .max
  | _ => throw s!"bad aggregate {t}"

def pPairs : P (List (Bytes × Bytes)) := pMany (do let a ← pBytes; let b ← pBytes; pure (a, b))

def pOp : P Op := do
  let name ← tok
  match name with
  | "str.Get" => return .strGet (← pBytes)
  | "str.GetMany" => return .strGetMany (← pMany pBytes)
  | "str.Incr" => return .strIncr (← pBytes) (← pInt)
  | "str.IncrFloat" => return .strIncrFloat (← pBytes) (← pDyadic)
  | "str.Set" => return .strSet (← pBytes) (← pValueArg)
  | "str.SetExpires" => return .strSetExpires (← pBytes) (← pBytes) (← pInt)
  | "str.SetMany" => return .strSetMany (← pPairs)
  | "str.SetWith" => do
    let k ← pBytes; let v ← pBytes
    let ifExists ← pBool; let ifNotExists ← pBool; let ttl ← pInt; let atMs ← pOptInt; let keepTTL ← pBool
    return .strSetWith k v { ifExists, ifNotExists, ttl, atMs, keepTTL }
  | "key.Count" => return .keyCount (← pMany pBytes)
  | "key.Delete" => return .keyDelete (← pMany pBytes)
  | "key.DeleteAll" => return .keyDeleteAll
  | "key.DeleteExpired" => return .keyDeleteExpired (← pInt)
  | "key.Exists" => return .keyExists (← pBytes)
  | "key.Expire" => return .keyExpire (← pBytes) (← pInt)
  | "key.ExpireAt" => return .keyExpireAt (← pBytes) (← pInt)
  | "key.Get" => return .keyGet (← pBytes)
  | "key.Keys" => return .keyKeys (← pBytes)
  | "key.Len" => return .keyLen
  | "key.Persist" => return .keyPersist (← pBytes)
  | "key.Random" => return .keyRandom (← pOptBytes)
  | "key.Rename" => return .keyRename (← pBytes) (← pBytes)
  | "key.RenameNotExists" => return .keyRenameNX (← pBytes) (← pBytes)
  | "key.Scan" => return .keyScan (← pInt) (← pBytes) (← pInt) (← pInt)
  | "list.Delete" => return .listDelete (← pBytes) (← pBytes)
  | "list.DeleteBack" => return .listDeleteBack (← pBytes) (← pBytes) (← pInt)
  | "list.DeleteFront" => return .listDeleteFront (← pBytes) (← pBytes) (← pInt)
  | "list.Get" => return .listGet (← pBytes) (← pInt)
  | "list.InsertAfter" => return .listInsertAfter (← pBytes) (← pBytes) (← pBytes)
  | "list.InsertBefore" => return .listInsertBefore (← pBytes) (← pBytes) (← pBytes)
  | "list.Len" => return .listLen (← pBytes)
  | "list.PopBack" => return .listPopBack (← pBytes)
  | "list.PopBackPushFront" => return .listPopBackPushFront (← pBytes) (← pBytes)
  | "list.PopFront" => return .listPopFront (← pBytes)
  | "list.PushBack" => return .listPushBack (← pBytes) (← pValueArg)
  | "list.PushFront" => return .listPushFront (← pBytes) (← pValueArg)
  | "list.Range" => return .listRange (← pBytes) (← pInt) (← pInt)
  | "list.Set" => return .listSet (← pBytes) (← pInt) (← pBytes)
  | "list.Trim" => return .listTrim (← pBytes) (← pInt) (← pInt)
  | "set.Add" => return .setAdd (← pBytes) (← pMany pValueArg)
  | "set.Delete" => return .setDelete (← pBytes) (← pMany pBytes)
  | "set.Diff" => return .setDiff (← pMany pBytes)
  | "set.DiffStore" => return .setDiffStore (← pBytes) (← pMany pBytes)
  | "set.Exists" => return .setExists (← pBytes) (← pBytes)
  | "set.Inter" => return .setInter (← pMany pBytes)
  | "set.InterStore" => return .setInterStore (← pBytes) (← pMany pBytes)
  | "set.Items" => return .setItems (← pBytes)
  | "set.Len" => return .setLen (← pBytes)
  | "set.Move" => return .setMove (← pBytes) (← pBytes) (← pBytes)
  | "set.Pop" => return .setPop (← pBytes) (← pOptBytes)
  | "set.Random" => return .setRandom (← pBytes) (← pOptBytes)
  | "set.Scan" => return .setScan (← pBytes) (← pInt) (← pBytes) (← pInt)
  | "set.Union" => return .setUnion (← pMany pBytes)
  | "set.UnionStore" => return .setUnionStore (← pBytes) (← pMany pBytes)
  | "hash.Delete" => return .hashDelete (← pBytes) (← pMany pBytes)
  | "hash.Exists" => return .hashExists (← pBytes) (← pBytes)
  | "hash.Fields" => return .hashFields (← pBytes)
  | "hash.Get" => return .hashGet (← pBytes) (← pBytes)
  | "hash.GetMany" => return .hashGetMany (← pBytes) (← pMany pBytes)
  | "hash.Incr" => return .hashIncr (← pBytes) (← pBytes) (← pInt)
  | "hash.IncrFloat" => return .hashIncrFloat (← pBytes) (← pBytes) (← pDyadic)
  | "hash.Items" => return .hashItems (← pBytes)
  | "hash.Len" => return .hashLen (← pBytes)
  | "hash.Scan" => return .hashScan (← pBytes) (← pInt) (← pBytes) (← pInt)
  | "hash.Set" => return .hashSet (← pBytes) (← pBytes) (← pValueArg)
  | "hash.SetMany" => return .hashSetMany (← pBytes) (← pPairs)
  | "hash.SetNotExists" => return .hashSetNotExists (← pBytes) (← pBytes) (← pBytes)
  | "hash.Values" => return .hashValues (← pBytes)
  | "zset.Add" => return .zAdd (← pBytes) (← pBytes) (← pScore)
  | "zset.AddMany" => return .zAddMany (← pBytes) (← pMany (do let e ← pBytes; let s ← pScore; pure (e, s)))
  | "zset.Count" => return .zCount (← pBytes) (← pScore) (← pScore)
  | "zset.Delete" => return .zDelete (← pBytes) (← pMany pBytes)
  | "zset.DeleteRank" => return .zDeleteRank (← pBytes) (← pInt) (← pInt)
  | "zset.DeleteScore" => return .zDeleteScore (← pBytes) (← pScore) (← pScore)
  | "zset.GetRank" => return .zGetRank (← pBytes) (← pBytes)
  | "zset.GetRankRev" => return .zGetRankRev (← pBytes) (← pBytes)
  | "zset.GetScore" => return .zGetScore (← pBytes) (← pBytes)
  | "zset.Incr" => return .zIncr (← pBytes) (← pBytes) (← pScore)
  | "zset.Inter" => return .zInter (← pMany pBytes) (← pAgg)
  | "zset.InterStore" => return .zInterStore (← pBytes) (← pMany pBytes) (← pAgg)
  | "zset.Len" => return .zLen (← pBytes)
  | "zset.RangeRank" => return .zRangeRank (← pBytes) (← pInt) (← pInt) (← pBool)
  | "zset.RangeScore" => return .zRangeScore (← pBytes) (← pScore) (← pScore) (← pBool) (← pInt) (← pInt)
  | "zset.Scan" => return .zScan (← pBytes) (← pInt) (← pBytes) (← pInt)
  | "zset.Union" => return .zUnion (← pMany pBytes) (← pAgg)
  | "zset.UnionStore" => return .zUnionStore (← pBytes) (← pMany pBytes) (← pAgg)
  | _ => throw s!"unknown op {name}"

def runP {α} (p : P α) (s : String) : Except String α :=
  let toks := (s.splitOn " ").filter (· ≠ "")
  match p.run toks with
  | .ok (a, []) => .ok a
  | .ok (_, r) => .error s!"trailing tokens: {r.take 5}"
  | .error e => .error e

/-! ### printers -/

def hexDigit (n : Nat) : Char :=
  if n < 10 then Char.ofNat (n + 48) else Char.ofNat (n + 87)

def showBytes (b : Bytes) : String :=
  "x" ++ String.ofList (b.flatMap (fun c => [hexDigit (c.toNat / 16), hexDigit (c.toNat % 16)]))

def showOptInt : Option Int → String
  | none => "-"
  | some i => toString i

def showDyadic : Dyadic → String
  | .zero => "0p0"
  | .ofOdd n k _ => s!"{n}p{-k}"

def showScore : Score → String
  | .negInf => "-inf"
  | .posInf => "inf"
  | .fin d => showDyadic d

def showKeyRow (r : KeyRow) : String :=
  s!"{r.id} {showBytes r.key} {r.ty} {r.version} {showOptInt r.etime} {r.mtime} {showOptInt r.len}"

def showDump (db : DB) : String :=
  let j (l : List String) := String.intercalate " " l
  j [ s!"K {db.keys.length}", j (db.keys.map showKeyRow),
      s!"S {db.strs.length}", j (db.strs.map (fun r => s!"{r.kid} {showBytes r.value}")),
      s!"L {db.lists.length}", j (db.lists.map (fun r => s!"{r.kid} {showDyadic r.pos} {showBytes r.elem}")),
      s!"E {db.sets.length}", j (db.sets.map (fun r => s!"{r.rowid} {r.kid} {showBytes r.elem}")),
      s!"H {db.hashes.length}", j (db.hashes.map (fun r => s!"{r.rowid} {r.kid} {showBytes r.field} {showBytes r.value}")),
      s!"Z {db.zsets.length}", j (db.zsets.map (fun r => s!"{r.rowid} {r.kid} {showBytes r.elem} {showScore r.score}")),
      s!"F {if db.fk then 1 else 0}" ]

partial def showVal : Val → String
  | .nil => "nil"
  | .int i => s!"i:{i}"
  | .bool true => "T"
  | .bool false => "F"
  | .bytes b => s!"b:{showBytes b}"
  | .score s => s!"s:{showScore s}"
  | .key r => s!"k {r.id} {showBytes r.key} {r.ty} {r.version} {showOptInt r.etime} {r.mtime}"
  | .list l => String.intercalate " " (s!"L {l.length}" :: l.map showVal)

def showErr : Err → String
  | .keyType => "keytype" | .notFound => "notfound" | .pivotNotFound => "pivotnotfound"
  | .valueType => "valuetype" | .notAllowed => "notallowed"
  | .sqlUnique => "sql:unique" | .sqlMismatch => "sql:mismatch" | .sqlNotNull => "sql:notnull"
  | .sqlOther => "sql:other" | .outOfDomain => "outofdomain"

def showOut : Out → String
  | .ok v => "ok " ++ showVal v
  | .error e => "err " ++ showErr e

/-! ### canonical table order (what the harness dumps) -/

def canon (db : DB) : DB :=
  { db with
    keys := sortBy (fun a b => decide (a.id < b.id)) db.keys
    strs := sortBy (fun a b => decide (a.kid < b.kid)) db.strs
    lists := sortBy (fun a b => decide (a.kid < b.kid) || (a.kid == b.kid && decide (a.pos < b.pos))) db.lists
    sets := sortBy (fun a b => decide (a.kid < b.kid) || (a.kid == b.kid && bytesLt a.elem b.elem)) db.sets
    hashes := sortBy (fun a b => decide (a.kid < b.kid) || (a.kid == b.kid && bytesLt a.field b.field)) db.hashes
    zsets := sortBy (fun a b => decide (a.kid < b.kid) || (a.kid == b.kid && bytesLt a.elem b.elem)) db.zsets }

/-! ### the six SQL views as the harness prints them (`select * from v…`; the rendered time columns
are replaced by a flag: 1 = they are the rendering of the raw `rkey` row of the same `kid`) -/

structure ViewDump where
  keys : List (Int × Bytes × Int × Option Int)
  strs : List (Int × Bytes × Bytes)
  lists : List (Int × Bytes × Nat × Bytes)
  sets : List (Int × Bytes × Bytes)
  hashes : List (Int × Bytes × Bytes × Bytes)
  zsets : List (Int × Bytes × Bytes × Score)
  fmtOk : Bool

def pViews : P ViewDump := do
  expect "VK"; let ks ← pMany (do
    let kid ← pInt; let key ← pBytes; let ty ← pInt; let len ← pOptInt; let f ← pBool; pure ((kid, key, ty, len), f))
  expect "VS"; let ss ← pMany (do
    let kid ← pInt; let key ← pBytes; let v ← pBytes; let f ← pBool; pure ((kid, key, v), f))
  expect "VL"; let ls ← pMany (do
    let kid ← pInt; let key ← pBytes; let i ← pNat; let v ← pBytes; let f ← pBool; pure ((kid, key, i, v), f))
  expect "VE"; let es ← pMany (do
    let kid ← pInt; let key ← pBytes; let v ← pBytes; let f ← pBool; pure ((kid, key, v), f))
  expect "VH"; let hs ← pMany (do
    let kid ← pInt; let key ← pBytes; let fl ← pBytes; let v ← pBytes; let f ← pBool; pure ((kid, key, fl, v), f))
  expect "VZ"; let zs ← pMany (do
    let kid ← pInt; let key ← pBytes; let v ← pBytes; let sc ← pScore; let f ← pBool; pure ((kid, key, v, sc), f))
  -- (raw milliseconds, rendered text | "-") pairs of the etime / mtime columns (absent in old replays)
  let rest ← get
  let ts ← match rest with
    | "VT" :: _ => do
      expect "VT"
      pMany (do
        let ms ← pInt
        let t ← tok
        if t == "-" then pure (ms, (none : Option String))
        else match parseBytes t with
          | .ok b => pure (ms, some (String.ofList (b.map (fun c => Char.ofNat c.toNat))))
          | .error e => throw e)
    | _ => pure []
  let timesOk := ts.all (fun p => Model.View.sqliteDatetime p.1 == p.2)
  pure { keys := ks.map (·.1), strs := ss.map (·.1), lists := ls.map (·.1), sets := es.map (·.1),
         hashes := hs.map (·.1), zsets := zs.map (·.1),
         fmtOk := timesOk && ks.all (·.2) && ss.all (·.2) && ls.all (·.2) && es.all (·.2) && hs.all (·.2) && zs.all (·.2) }

/-- verdict `W`: the views read from the real database are, as bags of rows, the views the model
computes from the dumped tables at the same clock value -/
def viewsAgree (now : Int) (post : DB) (v : ViewDump) : Bool :=
  let m := Model.View.views now post
  v.fmtOk &&
  Model.View.bagEq v.keys (m.keys.map (fun r => (r.kid, r.key, r.ty, r.len))) &&
  Model.View.bagEq v.strs (m.strs.map (fun r => (r.kid, r.key, r.value))) &&
  Model.View.bagEq v.lists (m.lists.map (fun r => (r.kid, r.key, r.idx, r.elem))) &&
  Model.View.bagEq v.sets (m.sets.map (fun r => (r.kid, r.key, r.elem))) &&
  Model.View.bagEq v.hashes (m.hashes.map (fun r => (r.kid, r.key, r.field, r.value))) &&
  Model.View.bagEq v.zsets (m.zsets.map (fun r => (r.kid, r.key, r.elem, r.score)))

end Redka.Proto
