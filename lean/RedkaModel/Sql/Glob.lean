/-
  SQLite's GLOB (`patternCompare` in func.c with the `globInfo` settings: `*`, `?`, `[`,
  case-sensitive, no escape character), transcribed at the level SQLite works on:
  C strings (cut at the first NUL) decoded by `sqlite3Utf8Read` into code points.

  The C function interleaves decoding the pattern with matching; the control flow of the
  bracket-class loop does not depend on the subject character, so the pattern is first parsed into
  tokens (`parsePat`) and then matched structurally (`matchToks`). A class that is not closed makes
  `patternCompare` return NOMATCH whenever it is reached, and every successful match has to reach
  it, so such a pattern matches nothing (`parsePat = none`).
-/
import RedkaModel.Basic

namespace Redka.Glob

/-- the C string: bytes up to the first NUL -/
def cstr : Bytes → Bytes
  | [] => []
  | b :: bs => if b == 0 then [] else b :: cstr bs

/-- `sqlite3Utf8Trans1[c - 0xc0]` -/
def trans1 (c : Nat) : Nat :=
  if c < 0xe0 then c % 0x20
  else if c < 0xf0 then c % 0x10
  else if c < 0xf8 then c % 0x08
  else if c < 0xfc then c % 0x04
  else if c < 0xfe then c % 0x02
  else 0

/-- consume continuation bytes `10xxxxxx` -/
def contBytes : Nat → Bytes → Nat × Bytes
  | acc, [] => (acc, [])
  | acc, b :: bs =>
    if b.toNat / 64 == 2 then contBytes (acc * 64 + b.toNat % 64) bs else (acc, b :: bs)

theorem contBytes_length (acc : Nat) (bs : Bytes) : (contBytes acc bs).2.length ≤ bs.length := by
  induction bs generalizing acc with
  | nil => simp [contBytes]
  | cons b bs ih =>
    simp only [contBytes]
    split
    · exact Nat.le_trans (ih _) (Nat.le_succ _)
    · simp

/-- `sqlite3Utf8Read` applied repeatedly: the code points SQLite's matcher sees.
Code points are kept modulo 2^32 as in the C code (`unsigned int`). -/
def decode : Bytes → List Nat
  | [] => []
  | b :: bs =>
    if b.toNat < 0xc0 then b.toNat :: decode bs
    else
      let r := contBytes (trans1 b.toNat) bs
      let c := r.1 % 4294967296
      let c := if c < 0x80 || (c / 2048 == 27) || (c / 2 == 0x7fff) then 0xfffd else c
      c :: decode r.2
termination_by l => l.length
decreasing_by
  · simp
  · have := contBytes_length (trans1 b.toNat) bs
    simp only [List.length_cons]; omega

def cSTAR : Nat := 42
def cQM : Nat := 63
def cLB : Nat := 91
def cRB : Nat := 93
def cCARET : Nat := 94
def cDASH : Nat := 45

/-- a member of a bracket class -/
inductive Item where
  | one (c : Nat)
  | range (lo hi : Nat)
deriving DecidableEq, Repr

def Item.hit (c : Nat) : Item → Bool
  | .one x => c == x
  | .range lo hi => decide (lo ≤ c) && decide (c ≤ hi)

inductive Tok where
  | lit (c : Nat)
  | any                       -- `?`
  | star                      -- `*`
  | cls (invert : Bool) (items : List Item)
deriving DecidableEq, Repr

/-- the `while( c2 && c2!=']' )` loop of the bracket case; `prior` is `prior_c` (0 = none).
Returns the members and the pattern after the closing bracket; `none` if the pattern ends first. -/
def classLoop : (p : List Nat) → (prior : Nat) → Option (List Item × List Nat)
  | [], _ => none
  | c2 :: p, prior =>
    if c2 == cRB then some ([], p)
    else if c2 == cDASH && prior > 0 then
      match p with
      | [] => none                                   -- dash is a member, then the pattern ends
      | hi :: p' =>
        if hi == cRB then
          -- `zPattern[0]==']'`: the dash is an ordinary member
          (classLoop (hi :: p') c2).map (fun r => (.one c2 :: r.1, r.2))
        else
          (classLoop p' 0).map (fun r => (.range prior hi :: r.1, r.2))
    else (classLoop p c2).map (fun r => (.one c2 :: r.1, r.2))
termination_by p => p.length
decreasing_by all_goals simp_all <;> omega

/-- parse one bracket class (the text after `[`) -/
def parseClass (p : List Nat) : Option (Tok × List Nat) :=
  let (invert, p) := match p with
    | x :: r => if x == cCARET then (true, r) else (false, x :: r)
    | [] => (false, [])
  let (first, p) : List Item × List Nat := match p with
    | x :: r => if x == cRB then ([.one cRB], r) else ([], x :: r)
    | [] => ([], [])
  match classLoop p 0 with
  | none => none
  | some (items, rest) => some (.cls invert (first ++ items), rest)

/-- tokens of a pattern, with enough fuel (`fuel ≥ length` suffices) -/
def parsePatF : Nat → List Nat → Option (List Tok)
  | 0, _ => some []
  | _, [] => some []
  | f + 1, c :: p =>
    if c == cSTAR then (parsePatF f p).map (.star :: ·)
    else if c == cQM then (parsePatF f p).map (.any :: ·)
    else if c == cLB then
      match parseClass p with
      | none => none
      | some (t, rest) => (parsePatF f rest).map (t :: ·)
    else (parsePatF f p).map (.lit c :: ·)

def parsePat (p : List Nat) : Option (List Tok) := parsePatF (p.length + 1) p

/-- structural matcher over tokens: `*` matches any run, `?` one code point -/
def matchToks : List Tok → List Nat → Bool
  | [], s => s.isEmpty
  | .star :: ts, s =>
    matchToks ts s || (match s with
      | [] => false
      | _ :: s' => matchToks (.star :: ts) s')
  | .any :: ts, _ :: s => matchToks ts s
  | .lit x :: ts, c :: s => x == c && matchToks ts s
  | .cls inv items :: ts, c :: s => (items.any (Item.hit c) != inv) && matchToks ts s
  | _ :: _, [] => false
termination_by ts s => (ts.length, s.length)

/-- `name GLOB pattern` as SQLite evaluates it on two byte strings -/
def sqliteGlob (pattern name : Bytes) : Bool :=
  match parsePat (decode (cstr pattern)) with
  | none => false
  | some ts => matchToks ts (decode (cstr name))

end Redka.Glob
