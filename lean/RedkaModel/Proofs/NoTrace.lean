/-
  Helper lemmas for property C12 ("no trace"): every read leaves the six tables exactly as they
  were; every refused `DB`-level call does; every nothing-to-do outcome of a `Tx` method does
  (the classifier `K` of excluded cases is empty since the list-insert defect D04 was repaired).

  Layout: `*_db` (reads), `*_err` / `*_hard` / `*_soft` / `*_noerr` (which error values a writer
  can report and that the soft ones — `notFound`, `pivotNotFound` — are only reported on paths that
  have not written), `*_zero` / `*_false` / `*_nochange` (the `ok` nothing-to-do results), then the
  three dispatch theorems over all 85 constructors of `Op`.
-/
import RedkaModel.Spec.Meta

namespace Redka.Proofs.NoTrace

open Redka Redka.Model

/-! ### reads -/

/-- closes `(f db …).db = db` for a function whose every branch returns `db` -/
macro "same_db" : tactic =>
  `(tactic| repeat' (first | rfl | split | (dsimp only)))

theorem strGet_db (db k now) : (strGet db k now).db = db := by unfold strGet; same_db
theorem strGetMany_db (db ks now) : (strGetMany db ks now).db = db := rfl
theorem keyCount_db (db ks now) : (keyCount db ks now).db = db := rfl
theorem keyExists_db (db k now) : (keyExists db k now).db = db := rfl
theorem keyGet_db (db k now) : (keyGet db k now).db = db := by unfold keyGet; same_db
theorem keyKeys_db (db p now) : (keyKeys db p now).db = db := rfl
theorem keyLen_db (db) : (keyLen db).db = db := rfl
theorem keyRandom_db (db o now) : (keyRandom db o now).db = db := by unfold keyRandom; same_db
theorem keyScan_db (db c p t n now) : (keyScan db c p t n now).db = db := rfl
theorem listGet_db (db k i now) : (listGet db k i now).db = db := by unfold listGet; same_db
theorem listLen_db (db k now) : (listLen db k now).db = db := by unfold listLen; same_db
theorem listRange_db (db k a b now) : (listRange db k a b now).db = db := by unfold listRange; same_db
theorem setDiff_db (db ks now) : (setDiff db ks now).db = db := rfl
theorem setInter_db (db ks now) : (setInter db ks now).db = db := by unfold setInter; same_db
theorem setUnion_db (db ks now) : (setUnion db ks now).db = db := by unfold setUnion; same_db
theorem setExists_db (db k e now) : (setExists db k e now).db = db := by unfold setExists; same_db
theorem setItems_db (db k now) : (setItems db k now).db = db := by unfold setItems; same_db
theorem setLen_db (db k now) : (setLen db k now).db = db := by unfold setLen; same_db
theorem setRandom_db (db k o now) : (setRandom db k o now).db = db := by unfold setRandom; same_db
theorem setScan_db (db k c p n now) : (setScan db k c p n now).db = db := by unfold setScan; same_db
theorem hashExists_db (db k f now) : (hashExists db k f now).db = db := rfl
theorem hashFields_db (db k now) : (hashFields db k now).db = db := rfl
theorem hashGet_db (db k f now) : (hashGet db k f now).db = db := by unfold hashGet; same_db
theorem hashGetMany_db (db k fs now) : (hashGetMany db k fs now).db = db := rfl
theorem hashItems_db (db k now) : (hashItems db k now).db = db := rfl
theorem hashLen_db (db k now) : (hashLen db k now).db = db := by unfold hashLen; same_db
theorem hashScan_db (db k c p n now) : (hashScan db k c p n now).db = db := rfl
theorem hashValues_db (db k now) : (hashValues db k now).db = db := rfl
theorem zCount_db (db k lo hi now) : (zCount db k lo hi now).db = db := rfl
theorem zGetRank_db (db k e r now) : (zGetRank db k e r now).db = db := by unfold zGetRank; same_db
theorem zGetScore_db (db k e now) : (zGetScore db k e now).db = db := by unfold zGetScore; same_db
theorem zCombineRun_db (db ks a i now) : (zCombineRun db ks a i now).db = db := by
  unfold zCombineRun; same_db
theorem zLen_db (db k now) : (zLen db k now).db = db := by unfold zLen; same_db
theorem zRangeRank_db (db k a b d now) : (zRangeRank db k a b d now).db = db := by
  unfold zRangeRank; same_db
theorem zRangeScore_db (db k lo hi d o c now) : (zRangeScore db k lo hi d o c now).db = db := rfl
theorem zScan_db (db k c p n now) : (zScan db k c p n now).db = db := by unfold zScan; same_db

/-- C12, first clause, at `Tx` level: a pure read returns the very same tables. -/
theorem read_notrace (inTx : Bool) (op : Op) (now : Int) (db : DB)
    (h : Spec.isRead op = true) : (Model.tx inTx op now db).db = db := by
  cases op <;> first
    | (simp only [Model.tx, strGet_db, strGetMany_db, keyCount_db, keyExists_db, keyGet_db, keyKeys_db, keyLen_db, keyRandom_db, keyScan_db, listGet_db, listLen_db, listRange_db, setDiff_db, setInter_db, setUnion_db, setExists_db, setItems_db, setLen_db, setRandom_db, setScan_db, hashExists_db, hashFields_db, hashGet_db, hashGetMany_db, hashItems_db, hashLen_db, hashScan_db, hashValues_db, zCount_db, zGetRank_db, zGetScore_db, zCombineRun_db, zLen_db, zRangeRank_db, zRangeScore_db, zScan_db]; done)
    | (simp only [Spec.isRead, Bool.false_eq_true] at h)



/-! ### error values and nothing-to-do outcomes of the writers -/

/-- the two error values that mean "nothing to do" -/
def Soft (e : Err) : Prop := e = .notFound ∨ e = .pivotNotFound

theorem keyUpsert_err {db k ty n o e} (h : keyUpsert db k ty n o = .error e) : e = .keyType := by
  unfold keyUpsert at h
  split at h
  · cases h
  · split at h
    · cases h
    · cases h; rfl

theorem keyUpsert_hard {db k ty n o e} (h : keyUpsert db k ty n o = .error e) : ¬ Soft e := by
  cases keyUpsert_err h; intro hs; cases hs <;> contradiction

theorem strSet2_err {db k v e} (h : strSet2 db k v = .error e) : ¬ Soft e := by
  unfold strSet2 at h
  split at h
  · cases h; intro hs; cases hs <;> contradiction
  · split at h <;> cases h

theorem strSetTx_err {db k v et now e} (h : (strSetTx db k v et now).1 = .error e) : ¬ Soft e := by
  unfold strSetTx at h
  split at h
  · rename_i e' he; cases h; exact keyUpsert_hard he
  · split at h
    · rename_i e' he; cases h; exact strSet2_err he
    · cases h

theorem strUpdateTx_err {db k v now e} (h : (strUpdateTx db k v now).1 = .error e) : ¬ Soft e := by
  unfold strUpdateTx at h
  split at h
  · rename_i e' he; cases h; exact keyUpsert_hard he
  · split at h
    · rename_i e' he; cases h; exact strSet2_err he
    · cases h

theorem strSet_soft {db k v et now e} (hs : Soft e) (h : (strSet db k v et now).out = .error e) :
    (strSet db k v et now).db = db := by
  revert h; unfold strSet; split <;> intro h
  · rename_i e' d he; cases h
    exact absurd hs (strSetTx_err (by rw [he]))
  · cases h

theorem strIncr_soft {db k d now e} (hs : Soft e) (h : (strIncr db k d now).out = .error e) :
    (strIncr db k d now).db = db := by
  revert h; unfold strIncr; dsimp only; split
  · intro _; rfl
  · split <;> intro h
    · rename_i e' d he; cases h
      exact absurd hs (strUpdateTx_err (by rw [he]))
    · cases h

theorem strIncrFloat_soft {db k d now e} (hs : Soft e) (h : (strIncrFloat db k d now).out = .error e) :
    (strIncrFloat db k d now).db = db := by
  revert h; unfold strIncrFloat; dsimp only; split
  · intro _; rfl
  · intro _; rfl
  · split
    · split <;> intro _ <;> rfl
    · split <;> intro h
      · rename_i e' d he; cases h
        exact absurd hs (strUpdateTx_err (by rw [he]))
      · cases h

theorem strSetMany_soft {db items now e} (hs : Soft e) (h : (strSetMany db items now).out = .error e) :
    (strSetMany db items now).db = db := by
  exfalso
  induction items generalizing db with
  | nil => cases h
  | cons it rest ih =>
    obtain ⟨k, v⟩ := it
    unfold strSetMany at h
    split at h
    · rename_i e' d he; cases h
      exact absurd hs (strSetTx_err (by rw [he]))
    · exact ih h

theorem strSetWith_soft {db k v o now e} (hs : Soft e) (h : (strSetWith db k v o now).out = .error e) :
    (strSetWith db k v o now).db = db := by
  revert h; unfold strSetWith; dsimp only
  split
  · intro _; rfl
  · split
    · intro _; rfl
    · split <;> intro h
      · rename_i e' d he; cases h
        split at he
        · exact absurd hs (strUpdateTx_err (by rw [he]))
        · exact absurd hs (strSetTx_err (by rw [he]))
      · cases h

theorem strSetWith_nochange {db k v o now x} 
    (h : (strSetWith db k v o now).out = .ok (.list [x, .bool false, .bool false])) :
    (strSetWith db k v o now).db = db := by
  revert h; unfold strSetWith; dsimp only
  split
  · intro _; rfl
  · split
    · intro _; rfl
    · split <;> intro h
      · cases h
      · exfalso
        simp only [Res.ok, Except.ok.injEq, Val.list.injEq, List.cons.injEq, Val.bool.injEq] at h
        obtain ⟨_, h1, h2, _⟩ := h
        rw [h2] at h1; cases h1

theorem filter_not_of_filter_nil {α} {p : α → Bool} {l : List α} (h : l.filter p = []) :
    l.filter (fun x => !p x) = l := by
  rw [List.filter_eq_self]
  intro a ha
  rw [List.filter_eq_nil_iff] at h
  simpa using h a ha

theorem cascade_nil (db : DB) : db.cascade [] = db := by
  unfold DB.cascade
  split
  · cases db; simp
  · rfl

theorem deleteKeysWhere_zero {db : DB} {p} (h : (db.deleteKeysWhere p).2 = 0) :
    (db.deleteKeysWhere p).1 = db := by
  unfold DB.deleteKeysWhere at h ⊢
  dsimp only at h ⊢
  have hg : db.keys.filter p = [] := by
    apply List.eq_nil_of_length_eq_zero
    exact_mod_cast h
  rw [hg, filter_not_of_filter_nil hg]
  exact cascade_nil _

theorem keyDelete_zero {db ks now} (h : (keyDelete db ks now).out = .ok (.int 0)) :
    (keyDelete db ks now).db = db := by
  unfold keyDelete at h ⊢
  dsimp only at h ⊢
  apply deleteKeysWhere_zero
  simpa [Res.ok] using h

theorem keyDeleteExpired_zero {db n now} (h : (keyDeleteExpired db n now).out = .ok (.int 0)) :
    (keyDeleteExpired db n now).db = db := by
  unfold keyDeleteExpired at h ⊢
  dsimp only at h ⊢
  apply deleteKeysWhere_zero
  simpa [Res.ok] using h

theorem keyExpireAt_soft {db k t now e} (h : (keyExpireAt db k t now).out = .error e) :
    (keyExpireAt db k t now).db = db := by
  revert h; unfold keyExpireAt; split <;> intro h
  · rfl
  · cases h

theorem keyPersist_soft {db k now e} (h : (keyPersist db k now).out = .error e) :
    (keyPersist db k now).db = db := by
  revert h; unfold keyPersist; split <;> intro h
  · rfl
  · cases h

theorem keyRename_err {db k nk now e} (h : (keyRename db k nk now).out = .error e) :
    (keyRename db k nk now).db = db := by
  revert h; unfold keyRename; (repeat' split) <;> intro h <;> first | rfl | cases h

theorem keyRenameNX_err {db k nk now e} (h : (keyRenameNX db k nk now).out = .error e) :
    (keyRenameNX db k nk now).db = db := by
  revert h; unfold keyRenameNX; (repeat' split) <;> intro h <;> first | rfl | cases h

theorem keyRenameNX_false {db k nk now} (h : (keyRenameNX db k nk now).out = .ok (.bool false)) :
    (keyRenameNX db k nk now).db = db := by
  revert h; unfold keyRenameNX; (repeat' split) <;> intro h <;> first | rfl | cases h

theorem keyDeleteAll_err {db inTx e} (hs : Soft e) (h : (keyDeleteAll db inTx).out = .error e) :
    (keyDeleteAll db inTx).db = db := by
  revert h; unfold keyDeleteAll; dsimp only; split <;> intro h
  · cases h; cases hs <;> contradiction
  · cases h

theorem not_soft_of_ne {e} (h1 : e ≠ .notFound) (h2 : e ≠ .pivotNotFound) : ¬ Soft e := by
  intro h; cases h <;> contradiction

theorem listDeleteRows_nil (db : DB) (kid now) : listDeleteRows db kid [] now = db := by
  unfold listDeleteRows
  cases db; simp

theorem int_len_zero {α} {l : List α} (h : (l.length : Int) = 0) : l = [] :=
  List.eq_nil_of_length_eq_zero (by exact_mod_cast h)

theorem listDelete_zero {db k e now} (h : (listDelete db k e now).out = .ok (.int 0)) :
    (listDelete db k e now).db = db := by
  revert h; unfold listDelete; split
  · intro _; rfl
  · dsimp only; intro h
    simp only [Res.ok, Except.ok.injEq, Val.int.injEq] at h
    simp only [Res.ok]
    rw [int_len_zero h]; exact listDeleteRows_nil ..

theorem listDeleteN_zero {db k e n b now} (h : (listDeleteN db k e n b now).out = .ok (.int 0)) :
    (listDeleteN db k e n b now).db = db := by
  revert h; unfold listDeleteN; split
  · intro _; rfl
  · split
    · intro _; rfl
    · dsimp only; intro h
      simp only [Res.ok, Except.ok.injEq, Val.int.injEq] at h
      simp only [Res.ok]
      rw [int_len_zero h]; exact listDeleteRows_nil ..

theorem listTrim_zero {db k a b now} (h : (listTrim db k a b now).out = .ok (.int 0)) :
    (listTrim db k a b now).db = db := by
  revert h; unfold listTrim; split
  · intro _; rfl
  · dsimp only; split
    · intro _; rfl
    · split
      · intro _; rfl
      · intro h
        simp only [Res.ok, Except.ok.injEq, Val.int.injEq] at h
        simp only [Res.ok]
        rw [int_len_zero h]; exact listDeleteRows_nil ..

theorem listTrim_err {db k a b now e} (h : (listTrim db k a b now).out = .error e) :
    (listTrim db k a b now).db = db := by
  revert h; unfold listTrim; split
  · intro _; rfl
  · dsimp only; split
    · intro _; rfl
    · split
      · intro _; rfl
      · intro h; cases h

theorem listPop_err {db k f now e} (h : (listPop db k f now).out = .error e) :
    (listPop db k f now).db = db := by
  revert h; unfold listPop; split
  · intro _; rfl
  · dsimp only; split
    · intro _; rfl
    · intro h; cases h

theorem listSet_err {db k i v now e} (h : (listSet db k i v now).out = .error e) :
    (listSet db k i v now).db = db := by
  revert h; unfold listSet; split
  · intro _; rfl
  · split
    · intro _; rfl
    · intro h; cases h

theorem listPush_hard {db k v f now e} (h : (listPush db k v f now).out = .error e) : ¬ Soft e := by
  revert h; unfold listPush; split
  · rename_i e' he; intro h; cases h; exact keyUpsert_hard he
  · dsimp only; (repeat' split) <;> intro h <;>
      first | (cases h; exact not_soft_of_ne (by decide) (by decide)) | cases h

theorem listPopBackPushFront_soft {db s d now e} (hs : Soft e)
    (h : (listPopBackPushFront db s d now).out = .error e) :
    (listPopBackPushFront db s d now).db = db := by
  revert h; unfold listPopBackPushFront; dsimp only; split
  · rename_i e' he; intro _; exact listPop_err he
  · split
    · rename_i e' he; intro h; cases h; exact absurd hs (listPush_hard he)
    · intro h; cases h
  · intro h; cases h; exact absurd hs (not_soft_of_ne (by decide) (by decide))

theorem listInsert_err {db k p e a now er} (h : (listInsert db k p e a now).out = .error er) :
    (listInsert db k p e a now).db = db := by
  revert h; unfold listInsert
  (repeat' (first | split | dsimp only)) <;> intro h <;> first | rfl | cases h

/-! sets -/

theorem setAdd_err {db k es now e} (h : (setAdd db k es now).out = .error e) : ¬ Soft e := by
  revert h; unfold setAdd; split
  · rename_i e' he; intro h; cases h; exact keyUpsert_hard he
  · dsimp only; intro h; cases h

theorem setDelete_zero {db k es now} (h : (setDelete db k es now).out = .ok (.int 0)) :
    (setDelete db k es now).db = db := by
  revert h; unfold setDelete; split
  · intro _; rfl
  · dsimp only; split
    · intro _; rfl
    · rename_i hn; intro h
      simp only [Res.ok, Except.ok.injEq, Val.int.injEq] at h
      rw [h] at hn; exact absurd rfl hn

theorem setDelete_noerr {db k es now e} (h : (setDelete db k es now).out = .error e) : False := by
  revert h; unfold setDelete; (repeat' (first | split | dsimp only)) <;> intro h <;> cases h

theorem setInsertAll_err {db kid es n e} (h : setInsertAll db kid es n = .error e) : ¬ Soft e := by
  induction es generalizing db n with
  | nil => cases h
  | cons x xs ih =>
    unfold setInsertAll at h
    split at h
    · cases h; exact not_soft_of_ne (by decide) (by decide)
    · exact ih h

theorem setStore_nil {db d now c} : (setStore db d [] now c).db = db := rfl

theorem setStore_soft {db d ks now c e} (hs : Soft e) (h : (setStore db d ks now c).out = .error e) :
    (setStore db d ks now c).db = db := by
  revert h; unfold setStore; split
  · intro _; rfl
  · dsimp only; split
    · rename_i e' he; intro h; cases h; exact absurd hs (keyUpsert_hard he)
    · split
      · rename_i e' he; intro h; cases h; exact absurd hs (setInsertAll_err he)
      · intro h; cases h

theorem setMove_soft {db s d el now e} (hs : Soft e) (h : (setMove db s d el now).out = .error e) :
    (setMove db s d el now).db = db := by
  revert h; unfold setMove; dsimp only; split
  · rename_i e' he; exact (setDelete_noerr he).elim
  · rename_i n he
    split
    · rename_i hn
      intro _
      have : n = 0 := by simpa using hn
      subst this
      exact setDelete_zero he
    · split
      · rename_i e' ha; intro h; cases h; exact absurd hs (setAdd_err ha)
      · intro h; cases h
  · intro h; cases h; exact absurd hs (not_soft_of_ne (by decide) (by decide))

theorem setPop_err {db k o now e} (h : (setPop db k o now).out = .error e) :
    (setPop db k o now).db = db := by
  revert h; unfold setPop; (repeat' (first | split | dsimp only)) <;> intro h <;> first | rfl | cases h

/-! hashes -/

theorem hashSetTx_err {db k f v now e} (h : hashSetTx db k f v now = .error e) : ¬ Soft e := by
  unfold hashSetTx at h
  split at h
  · rename_i e' he; cases h; exact keyUpsert_hard he
  · cases h

theorem hashSet_err {db k f v now e} (h : (hashSet db k f v now).out = .error e) :
    (hashSet db k f v now).db = db := by
  revert h; unfold hashSet; dsimp only; split <;> intro h
  · rfl
  · cases h

theorem hashSetManyLoop_err {db k now items e} (h : (hashSetManyLoop db k now items).1 = .error e) :
    ¬ Soft e := by
  induction items generalizing db with
  | nil => cases h
  | cons it rest ih =>
    obtain ⟨f, v⟩ := it
    unfold hashSetManyLoop at h
    split at h
    · rename_i e' he; cases h; exact hashSetTx_err he
    · exact ih h

theorem hashSetMany_nil {db k now} : (hashSetMany db k [] now).db = db := rfl

theorem hashSetMany_soft {db k items now e} (hs : Soft e) (h : (hashSetMany db k items now).out = .error e) :
    (hashSetMany db k items now).db = db := by
  revert h; unfold hashSetMany; dsimp only; split <;> intro h
  · rename_i e' d he; cases h; exact absurd hs (hashSetManyLoop_err (by rw [he]))
  · cases h

theorem hashSetNotExists_err {db k f v now e} (h : (hashSetNotExists db k f v now).out = .error e) :
    (hashSetNotExists db k f v now).db = db := by
  revert h; unfold hashSetNotExists; (repeat' (first | split | dsimp only)) <;> intro h <;> first | rfl | cases h

theorem hashSetNotExists_false {db k f v now} (h : (hashSetNotExists db k f v now).out = .ok (.bool false)) :
    (hashSetNotExists db k f v now).db = db := by
  revert h; unfold hashSetNotExists; (repeat' (first | split | dsimp only)) <;> intro h <;> first | rfl | cases h

theorem hashDelete_zero {db k fs now} (h : (hashDelete db k fs now).out = .ok (.int 0)) :
    (hashDelete db k fs now).db = db := by
  revert h; unfold hashDelete; split
  · intro _; rfl
  · dsimp only; split
    · intro _; rfl
    · rename_i hn; intro h
      simp only [Res.ok, Except.ok.injEq, Val.int.injEq] at h
      rw [h] at hn; exact absurd rfl hn

theorem hashDelete_noerr {db k fs now e} (h : (hashDelete db k fs now).out = .error e) : False := by
  revert h; unfold hashDelete; (repeat' (first | split | dsimp only)) <;> intro h <;> cases h

theorem hashIncr_err {db k f d now e} (h : (hashIncr db k f d now).out = .error e) :
    (hashIncr db k f d now).db = db := by
  revert h; unfold hashIncr; dsimp only; (repeat' (first | split | dsimp only)) <;> intro h <;> first | rfl | cases h

theorem hashIncrFloat_err {db k f d now e} (h : (hashIncrFloat db k f d now).out = .error e) :
    (hashIncrFloat db k f d now).db = db := by
  revert h; unfold hashIncrFloat; dsimp only; (repeat' (first | split | dsimp only)) <;> intro h <;> first | rfl | cases h

/-! sorted sets -/

theorem zAdd_err {db k el s now e} (h : (zAdd db k el s now).out = .error e) :
    (zAdd db k el s now).db = db := by
  revert h; unfold zAdd; dsimp only; split <;> intro h
  · rfl
  · cases h

theorem zAddTx_err {db k el s now e} (h : zAddTx db k el s now = .error e) : ¬ Soft e := by
  unfold zAddTx at h
  split at h
  · rename_i e' he; cases h; exact keyUpsert_hard he
  · cases h

theorem zAddManyLoop_err {db k now items e} (h : (zAddManyLoop db k now items).1 = .error e) :
    ¬ Soft e := by
  induction items generalizing db with
  | nil => cases h
  | cons it rest ih =>
    obtain ⟨f, v⟩ := it
    unfold zAddManyLoop at h
    split at h
    · rename_i e' he; cases h; exact zAddTx_err he
    · exact ih h

theorem zAddMany_nil {db k now} : (zAddMany db k [] now).db = db := rfl

theorem zAddMany_soft {db k items now e} (hs : Soft e) (h : (zAddMany db k items now).out = .error e) :
    (zAddMany db k items now).db = db := by
  revert h; unfold zAddMany; dsimp only; split <;> intro h
  · rename_i e' d he; cases h; exact absurd hs (zAddManyLoop_err (by rw [he]))
  · cases h

theorem zDeleteWhere_zero {db k vs now} (h : (zDeleteWhere db k vs now).out = .ok (.int 0)) :
    (zDeleteWhere db k vs now).db = db := by
  revert h; unfold zDeleteWhere; split
  · intro _; rfl
  · dsimp only; split
    · intro _; rfl
    · rename_i hn; intro h
      simp only [Res.ok, Except.ok.injEq, Val.int.injEq] at h
      rw [h] at hn; exact absurd rfl hn

theorem zDeleteWhere_noerr {db k vs now e} (h : (zDeleteWhere db k vs now).out = .error e) : False := by
  revert h; unfold zDeleteWhere; (repeat' (first | split | dsimp only)) <;> intro h <;> cases h

theorem zDeleteRank_zero {db k a b now} (h : (zDeleteRank db k a b now).out = .ok (.int 0)) :
    (zDeleteRank db k a b now).db = db := by
  revert h; unfold zDeleteRank; split
  · intro _; rfl
  · split
    · intro _; rfl
    · exact zDeleteWhere_zero

theorem zDeleteRank_noerr {db k a b now e} (h : (zDeleteRank db k a b now).out = .error e) : False := by
  revert h; unfold zDeleteRank; split
  · intro h; cases h
  · split
    · intro h; cases h
    · exact zDeleteWhere_noerr

theorem zIncr_soft {db k el d now e} (hs : Soft e) (h : (zIncr db k el d now).out = .error e) :
    (zIncr db k el d now).db = db := by
  revert h; unfold zIncr; split
  · intro _; rfl
  · (repeat' (first | split | dsimp only)) <;> intro h <;> first
      | (cases h; exact absurd hs (not_soft_of_ne (by decide) (by decide)))
      | cases h

theorem zInsertAll_err {db kid items n e} (h : zInsertAll db kid items n = .error e) : ¬ Soft e := by
  induction items generalizing db n with
  | nil => cases h
  | cons it rest ih =>
    obtain ⟨el, s⟩ := it
    unfold zInsertAll at h
    split at h
    · cases h; exact not_soft_of_ne (by decide) (by decide)
    · split at h
      · cases h; exact not_soft_of_ne (by decide) (by decide)
      · exact ih h

theorem zCombineStore_soft {db d ks agg i now e} (hs : Soft e)
    (h : (zCombineStore db d ks agg i now).out = .error e) :
    (zCombineStore db d ks agg i now).db = db := by
  revert h; unfold zCombineStore; dsimp only; split
  · rename_i e' he; intro h; cases h; exact absurd hs (keyUpsert_hard he)
  · split
    · rename_i e' he; intro h; cases h; exact absurd hs (zInsertAll_err he)
    · intro h; cases h


/-! ### the nothing-to-do judgement, by cases -/

theorem keyDelete_noerr {db ks now e} (h : (keyDelete db ks now).out = .error e) : False := by
  unfold keyDelete at h; cases h

theorem keyDeleteExpired_noerr {db n now e} (h : (keyDeleteExpired db n now).out = .error e) : False := by
  unfold keyDeleteExpired at h; cases h

theorem keyDeleteAll_direct_noerr {db e} (h : (keyDeleteAll db false).out = .error e) : False := by
  unfold keyDeleteAll at h; cases h

theorem listDelete_noerr {db k v now e} (h : (listDelete db k v now).out = .error e) : False := by
  revert h; unfold listDelete; (repeat' (first | split | dsimp only)) <;> intro h <;> cases h

theorem listDeleteN_noerr {db k v n b now e} (h : (listDeleteN db k v n b now).out = .error e) : False := by
  revert h; unfold listDeleteN; (repeat' (first | split | dsimp only)) <;> intro h <;> cases h

/-- the result-dependent alternatives of `Spec.nothingToDo`, constructor by constructor -/
def NtdOk (op : Op) (res : Out) : Prop :=
  match op with
  | .keyDelete _ | .keyDeleteExpired _ | .listDelete .. | .listDeleteBack .. | .listDeleteFront ..
  | .listTrim .. | .setDelete .. | .hashDelete .. | .zDelete .. | .zDeleteRank .. | .zDeleteScore .. =>
    res = .ok (.int 0)
  | .hashSetNotExists .. | .keyRenameNX .. => res = .ok (.bool false)
  | .strSetWith .. => ∃ x, res = .ok (.list [x, .bool false, .bool false])
  | .setDiffStore _ ks | .setInterStore _ ks | .setUnionStore _ ks => ks = []
  | .hashSetMany _ items => items = []
  | .zAddMany _ items => items = []
  | .strSetMany items => items = []
  | _ => False

theorem nothingToDo_cases {op : Op} {res : Out} (h : Spec.nothingToDo op res = true) :
    (∃ e, Soft e ∧ res = .error e) ∨ NtdOk op res := by
  unfold Spec.nothingToDo at h
  split at h
  case h_21 => exact .inl ⟨_, .inl rfl, rfl⟩
  case h_22 => exact .inl ⟨_, .inr rfl, rfl⟩
  case h_23 => cases h
  all_goals (right; simp [NtdOk])

/-! ### the classifier -/

/-- `K`: the class of nothing-to-do outcomes that leave a trace at `Tx` level. It is EMPTY: until
the fix "list insert looks for the pivot before touching the key" it was defect D04
(`InsertAfter` / `InsertBefore` on a live, non-empty list without the pivot, which rewrote the key
row before failing); with the fix no operation is excluded. Kept so that the statement keeps its
shape should a method regress. -/
def K (_op : Op) (_now : Int) (_db : DB) : Bool := false

theorem soft_error_notrace {op : Op} {now : Int} {db : DB} {e : Err} (hs : Soft e)
    (he : (Model.tx true op now db).out = .error e) :
    (Model.tx true op now db).db = db := by
  cases op with
  | strGet _ => exact read_notrace true _ now db rfl
  | strGetMany _ => exact read_notrace true _ now db rfl
  | strIncr _ _ => exact strIncr_soft hs he
  | strIncrFloat _ _ => exact strIncrFloat_soft hs he
  | strSet _ _ => exact strSet_soft hs he
  | strSetExpires _ _ _ => exact strSet_soft hs he
  | strSetMany _ => exact strSetMany_soft hs he
  | strSetWith _ _ _ => exact strSetWith_soft hs he
  | keyCount _ => exact read_notrace true _ now db rfl
  | keyDelete _ => exact (keyDelete_noerr he).elim
  | keyDeleteAll => exact keyDeleteAll_err hs he
  | keyDeleteExpired _ => exact (keyDeleteExpired_noerr he).elim
  | keyExists _ => exact read_notrace true _ now db rfl
  | keyExpire _ _ => exact keyExpireAt_soft he
  | keyExpireAt _ _ => exact keyExpireAt_soft he
  | keyGet _ => exact read_notrace true _ now db rfl
  | keyKeys _ => exact read_notrace true _ now db rfl
  | keyLen => exact read_notrace true _ now db rfl
  | keyPersist _ => exact keyPersist_soft he
  | keyRandom _ => exact read_notrace true _ now db rfl
  | keyRename _ _ => exact keyRename_err he
  | keyRenameNX _ _ => exact keyRenameNX_err he
  | keyScan _ _ _ _ => exact read_notrace true _ now db rfl
  | listDelete _ _ => exact (listDelete_noerr he).elim
  | listDeleteBack _ _ _ => exact (listDeleteN_noerr he).elim
  | listDeleteFront _ _ _ => exact (listDeleteN_noerr he).elim
  | listGet _ _ => exact read_notrace true _ now db rfl
  | listInsertAfter _ _ _ => exact listInsert_err he
  | listInsertBefore _ _ _ => exact listInsert_err he
  | listLen _ => exact read_notrace true _ now db rfl
  | listPopBack _ => exact listPop_err he
  | listPopBackPushFront _ _ => exact listPopBackPushFront_soft hs he
  | listPopFront _ => exact listPop_err he
  | listPushBack _ _ => exact absurd hs (listPush_hard he)
  | listPushFront _ _ => exact absurd hs (listPush_hard he)
  | listRange _ _ _ => exact read_notrace true _ now db rfl
  | listSet _ _ _ => exact listSet_err he
  | listTrim _ _ _ => exact listTrim_err he
  | setAdd _ _ => exact absurd hs (setAdd_err he)
  | setDelete _ _ => exact (setDelete_noerr he).elim
  | setDiff _ => exact read_notrace true _ now db rfl
  | setDiffStore _ _ => exact setStore_soft hs he
  | setExists _ _ => exact read_notrace true _ now db rfl
  | setInter _ => exact read_notrace true _ now db rfl
  | setInterStore _ _ => exact setStore_soft hs he
  | setItems _ => exact read_notrace true _ now db rfl
  | setLen _ => exact read_notrace true _ now db rfl
  | setMove _ _ _ => exact setMove_soft hs he
  | setPop _ _ => exact setPop_err he
  | setRandom _ _ => exact read_notrace true _ now db rfl
  | setScan _ _ _ _ => exact read_notrace true _ now db rfl
  | setUnion _ => exact read_notrace true _ now db rfl
  | setUnionStore _ _ => exact setStore_soft hs he
  | hashDelete _ _ => exact (hashDelete_noerr he).elim
  | hashExists _ _ => exact read_notrace true _ now db rfl
  | hashFields _ => exact read_notrace true _ now db rfl
  | hashGet _ _ => exact read_notrace true _ now db rfl
  | hashGetMany _ _ => exact read_notrace true _ now db rfl
  | hashIncr _ _ _ => exact hashIncr_err he
  | hashIncrFloat _ _ _ => exact hashIncrFloat_err he
  | hashItems _ => exact read_notrace true _ now db rfl
  | hashLen _ => exact read_notrace true _ now db rfl
  | hashScan _ _ _ _ => exact read_notrace true _ now db rfl
  | hashSet _ _ _ => exact hashSet_err he
  | hashSetMany _ _ => exact hashSetMany_soft hs he
  | hashSetNotExists _ _ _ => exact hashSetNotExists_err he
  | hashValues _ => exact read_notrace true _ now db rfl
  | zAdd _ _ _ => exact zAdd_err he
  | zAddMany _ _ => exact zAddMany_soft hs he
  | zCount _ _ _ => exact read_notrace true _ now db rfl
  | zDelete _ _ => exact (zDeleteWhere_noerr he).elim
  | zDeleteRank _ _ _ => exact (zDeleteRank_noerr he).elim
  | zDeleteScore _ _ _ => exact (zDeleteWhere_noerr he).elim
  | zGetRank _ _ => exact read_notrace true _ now db rfl
  | zGetRankRev _ _ => exact read_notrace true _ now db rfl
  | zGetScore _ _ => exact read_notrace true _ now db rfl
  | zIncr _ _ _ => exact zIncr_soft hs he
  | zInter _ _ => exact read_notrace true _ now db rfl
  | zInterStore _ _ _ => exact zCombineStore_soft hs he
  | zLen _ => exact read_notrace true _ now db rfl
  | zRangeRank _ _ _ _ => exact read_notrace true _ now db rfl
  | zRangeScore _ _ _ _ _ _ => exact read_notrace true _ now db rfl
  | zScan _ _ _ _ => exact read_notrace true _ now db rfl
  | zUnion _ _ => exact read_notrace true _ now db rfl
  | zUnionStore _ _ _ => exact zCombineStore_soft hs he

theorem ok_ntd_notrace {inTx : Bool} {op : Op} {now : Int} {db : DB}
    (hok : NtdOk op (Model.tx inTx op now db).out) : (Model.tx inTx op now db).db = db := by
  cases op with
  | strGet _ => exact False.elim hok
  | strGetMany _ => exact False.elim hok
  | strIncr _ _ => exact False.elim hok
  | strIncrFloat _ _ => exact False.elim hok
  | strSet _ _ => exact False.elim hok
  | strSetExpires _ _ _ => exact False.elim hok
  | strSetMany _ => exact (by cases hok; rfl)
  | strSetWith _ _ _ => exact hok.elim (fun _ hx => strSetWith_nochange hx)
  | keyCount _ => exact False.elim hok
  | keyDelete _ => exact keyDelete_zero hok
  | keyDeleteAll => exact False.elim hok
  | keyDeleteExpired _ => exact keyDeleteExpired_zero hok
  | keyExists _ => exact False.elim hok
  | keyExpire _ _ => exact False.elim hok
  | keyExpireAt _ _ => exact False.elim hok
  | keyGet _ => exact False.elim hok
  | keyKeys _ => exact False.elim hok
  | keyLen => exact False.elim hok
  | keyPersist _ => exact False.elim hok
  | keyRandom _ => exact False.elim hok
  | keyRename _ _ => exact False.elim hok
  | keyRenameNX _ _ => exact keyRenameNX_false hok
  | keyScan _ _ _ _ => exact False.elim hok
  | listDelete _ _ => exact listDelete_zero hok
  | listDeleteBack _ _ _ => exact listDeleteN_zero hok
  | listDeleteFront _ _ _ => exact listDeleteN_zero hok
  | listGet _ _ => exact False.elim hok
  | listInsertAfter _ _ _ => exact False.elim hok
  | listInsertBefore _ _ _ => exact False.elim hok
  | listLen _ => exact False.elim hok
  | listPopBack _ => exact False.elim hok
  | listPopBackPushFront _ _ => exact False.elim hok
  | listPopFront _ => exact False.elim hok
  | listPushBack _ _ => exact False.elim hok
  | listPushFront _ _ => exact False.elim hok
  | listRange _ _ _ => exact False.elim hok
  | listSet _ _ _ => exact False.elim hok
  | listTrim _ _ _ => exact listTrim_zero hok
  | setAdd _ _ => exact False.elim hok
  | setDelete _ _ => exact setDelete_zero hok
  | setDiff _ => exact False.elim hok
  | setDiffStore _ _ => exact (by cases hok; rfl)
  | setExists _ _ => exact False.elim hok
  | setInter _ => exact False.elim hok
  | setInterStore _ _ => exact (by cases hok; rfl)
  | setItems _ => exact False.elim hok
  | setLen _ => exact False.elim hok
  | setMove _ _ _ => exact False.elim hok
  | setPop _ _ => exact False.elim hok
  | setRandom _ _ => exact False.elim hok
  | setScan _ _ _ _ => exact False.elim hok
  | setUnion _ => exact False.elim hok
  | setUnionStore _ _ => exact (by cases hok; rfl)
  | hashDelete _ _ => exact hashDelete_zero hok
  | hashExists _ _ => exact False.elim hok
  | hashFields _ => exact False.elim hok
  | hashGet _ _ => exact False.elim hok
  | hashGetMany _ _ => exact False.elim hok
  | hashIncr _ _ _ => exact False.elim hok
  | hashIncrFloat _ _ _ => exact False.elim hok
  | hashItems _ => exact False.elim hok
  | hashLen _ => exact False.elim hok
  | hashScan _ _ _ _ => exact False.elim hok
  | hashSet _ _ _ => exact False.elim hok
  | hashSetMany _ _ => exact (by cases hok; rfl)
  | hashSetNotExists _ _ _ => exact hashSetNotExists_false hok
  | hashValues _ => exact False.elim hok
  | zAdd _ _ _ => exact False.elim hok
  | zAddMany _ _ => exact (by cases hok; rfl)
  | zCount _ _ _ => exact False.elim hok
  | zDelete _ _ => exact zDeleteWhere_zero hok
  | zDeleteRank _ _ _ => exact zDeleteRank_zero hok
  | zDeleteScore _ _ _ => exact zDeleteWhere_zero hok
  | zGetRank _ _ => exact False.elim hok
  | zGetRankRev _ _ => exact False.elim hok
  | zGetScore _ _ => exact False.elim hok
  | zIncr _ _ _ => exact False.elim hok
  | zInter _ _ => exact False.elim hok
  | zInterStore _ _ _ => exact False.elim hok
  | zLen _ => exact False.elim hok
  | zRangeRank _ _ _ _ => exact False.elim hok
  | zRangeScore _ _ _ _ _ _ => exact False.elim hok
  | zScan _ _ _ _ => exact False.elim hok
  | zUnion _ _ => exact False.elim hok
  | zUnionStore _ _ _ => exact False.elim hok

theorem nothing_to_do_notrace {op : Op} {now : Int} {db : DB}
    (h : Spec.nothingToDo op (Model.tx true op now db).out = true) :
    (Model.tx true op now db).db = db := by
  rcases nothingToDo_cases h with ⟨e, hs, he⟩ | hok
  · exact soft_error_notrace hs he
  · exact ok_ntd_notrace hok

/-! ### refusals at `DB` level -/

theorem update_err_db {f : DB → Res} {db : DB} {e : Err} (h : (update f db).out = .error e) :
    (update f db).db = db := by
  revert h; unfold update; dsimp only; split <;> intro h
  · rename_i he; rw [he] at h; cases h
  · rfl

theorem isRead_of_roDirect {op : Op} (h : Model.wrapOf op = .roDirect) : Spec.isRead op = true := by
  cases op <;> first | rfl | cases h

theorem refusal_notrace_db {op : Op} {now : Int} {db : DB} {e : Err}
    (he : (Model.dbRun op now db).out = .error e) : (Model.dbRun op now db).db = db := by
  cases hw : Model.wrapOf op with
  | update =>
    have hrun : Model.dbRun op now db = update (Model.tx true op now) db := by
      unfold Model.dbRun; rw [hw]
    rw [hrun] at he ⊢; exact update_err_db he
  | roDirect =>
    have hrun : Model.dbRun op now db = Model.tx false op now db := by
      unfold Model.dbRun; rw [hw]
    rw [hrun]; exact read_notrace false op now db (isRead_of_roDirect hw)
  | rwDirect =>
    have hrun : Model.dbRun op now db = Model.tx false op now db := by
      unfold Model.dbRun; rw [hw]
    rw [hrun] at he ⊢
    cases op with
    | strGet _ => cases hw
    | strGetMany _ => cases hw
    | strIncr _ _ => cases hw
    | strIncrFloat _ _ => cases hw
    | strSet _ _ => cases hw
    | strSetExpires _ _ _ => cases hw
    | strSetMany _ => cases hw
    | strSetWith _ _ _ => cases hw
    | keyCount _ => cases hw
    | keyDelete _ => exact (keyDelete_noerr he).elim
    | keyDeleteAll => exact (keyDeleteAll_direct_noerr he).elim
    | keyDeleteExpired _ => exact (keyDeleteExpired_noerr he).elim
    | keyExists _ => cases hw
    | keyExpire _ _ => exact keyExpireAt_soft he
    | keyExpireAt _ _ => exact keyExpireAt_soft he
    | keyGet _ => cases hw
    | keyKeys _ => cases hw
    | keyLen => cases hw
    | keyPersist _ => exact keyPersist_soft he
    | keyRandom _ => cases hw
    | keyRename _ _ => cases hw
    | keyRenameNX _ _ => cases hw
    | keyScan _ _ _ _ => cases hw
    | listDelete _ _ => cases hw
    | listDeleteBack _ _ _ => cases hw
    | listDeleteFront _ _ _ => cases hw
    | listGet _ _ => cases hw
    | listInsertAfter _ _ _ => cases hw
    | listInsertBefore _ _ _ => cases hw
    | listLen _ => cases hw
    | listPopBack _ => cases hw
    | listPopBackPushFront _ _ => cases hw
    | listPopFront _ => cases hw
    | listPushBack _ _ => cases hw
    | listPushFront _ _ => cases hw
    | listRange _ _ _ => cases hw
    | listSet _ _ _ => cases hw
    | listTrim _ _ _ => cases hw
    | setAdd _ _ => cases hw
    | setDelete _ _ => cases hw
    | setDiff _ => cases hw
    | setDiffStore _ _ => cases hw
    | setExists _ _ => cases hw
    | setInter _ => cases hw
    | setInterStore _ _ => cases hw
    | setItems _ => cases hw
    | setLen _ => cases hw
    | setMove _ _ _ => cases hw
    | setPop _ _ => cases hw
    | setRandom _ _ => cases hw
    | setScan _ _ _ _ => cases hw
    | setUnion _ => cases hw
    | setUnionStore _ _ => cases hw
    | hashDelete _ _ => cases hw
    | hashExists _ _ => cases hw
    | hashFields _ => cases hw
    | hashGet _ _ => cases hw
    | hashGetMany _ _ => cases hw
    | hashIncr _ _ _ => cases hw
    | hashIncrFloat _ _ _ => cases hw
    | hashItems _ => cases hw
    | hashLen _ => cases hw
    | hashScan _ _ _ _ => cases hw
    | hashSet _ _ _ => cases hw
    | hashSetMany _ _ => cases hw
    | hashSetNotExists _ _ _ => cases hw
    | hashValues _ => cases hw
    | zAdd _ _ _ => cases hw
    | zAddMany _ _ => cases hw
    | zCount _ _ _ => cases hw
    | zDelete _ _ => cases hw
    | zDeleteRank _ _ _ => cases hw
    | zDeleteScore _ _ _ => cases hw
    | zGetRank _ _ => cases hw
    | zGetRankRev _ _ => cases hw
    | zGetScore _ _ => cases hw
    | zIncr _ _ _ => cases hw
    | zInter _ _ => cases hw
    | zInterStore _ _ _ => cases hw
    | zLen _ => cases hw
    | zRangeRank _ _ _ _ => cases hw
    | zRangeScore _ _ _ _ _ _ => cases hw
    | zScan _ _ _ _ => cases hw
    | zUnion _ _ => cases hw
    | zUnionStore _ _ _ => cases hw

/-- at `DB` level the nothing-to-do outcomes leave no trace, with no exception: an error is rolled
back (`refusal_notrace_db`), and an `ok` nothing-to-do result is only produced on a path that has
not written -/
theorem nothing_to_do_notrace_db {op : Op} {now : Int} {db : DB}
    (h : Spec.nothingToDo op (Model.dbRun op now db).out = true) :
    (Model.dbRun op now db).db = db := by
  rcases nothingToDo_cases h with ⟨e, _, he⟩ | hok
  · exact refusal_notrace_db he
  · cases hw : Model.wrapOf op with
    | update =>
      have hrun : Model.dbRun op now db = update (Model.tx true op now) db := by
        unfold Model.dbRun; rw [hw]
      rw [hrun] at hok ⊢
      revert hok; unfold update; dsimp only; split
      · exact ok_ntd_notrace
      · intro _; rfl
    | roDirect =>
      have hrun : Model.dbRun op now db = Model.tx false op now db := by
        unfold Model.dbRun; rw [hw]
      rw [hrun] at hok ⊢; exact ok_ntd_notrace hok
    | rwDirect =>
      have hrun : Model.dbRun op now db = Model.tx false op now db := by
        unfold Model.dbRun; rw [hw]
      rw [hrun] at hok ⊢; exact ok_ntd_notrace hok

end Redka.Proofs.NoTrace
