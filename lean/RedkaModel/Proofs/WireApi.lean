/-
  The wire model's `run` consults the repository ONLY through the methods that the source of the
  command's `Run` calls (the `calls` facet regenerated from internal/command/* on every run).
  Stated as parametricity in the runner: two repositories that agree on those methods give the
  same `run`. Core Lean only.
-/
import RedkaModel.Model.Wire.Cmd.Run
import RedkaModel.Model.Wire.CmdApi
import RedkaModel.Generated.Cmds
import RedkaModel.Generated.Grammar

namespace Redka.Wire

open Redka

/-- the repository methods that `Run` of the struct type `ty` calls, according to the source -/
def callsOfTy (ty : String) : List String :=
  match Generated.runCalls.find? (fun p => p.1 == ty) with
  | some p => p.2
  | none => []

theorem call_congr (c : ParsedCmd) (r r' : Runner) (op : Op) (now : Int) (db : DB)
    (onOk : Val → Option (List Token)) (onErr : Err → Option (List Token × Bool)) (bag : Nat)
    (h : r op = r' op) :
    call c r op now db onOk onErr bag = call c r' op now db onOk onErr bag := by
  unfold call; rw [h]

/-- closes `call c r op … = call c r' op …` when the operation's method is among the source's calls -/
macro "api_step" h:ident : tactic =>
  `(tactic| (apply call_congr; refine $h _ ?_; dsimp only [Cmd.goType, opApi]; decide))

/-- `run` consults the repository only through the methods its Go counterpart calls -/
theorem run_calls_only_source_api (c : ParsedCmd) (r r' : Runner) (now : Int) (db : DB)
    (o : Option Bytes)
    (h : ∀ op, opApi op ∈ callsOfTy c.cmd.goType → r op = r' op) :
    run c r now db o = run c r' now db o := by
  obtain ⟨name, args, cmd⟩ := c
  cases cmd <;> simp only [run] <;>
    first
    | rfl
    | api_step h
    | (split <;> first
        | rfl
        | api_step h
        | (split <;> first
            | rfl
            | api_step h))

/-! ### the documented API (docs/commands/*.md) -/

/-- a documented method name matches a called one: equal, or a prefix when written `Insert*` -/
def apiMatches (doc call : String) : Bool :=
  let d := doc.toList
  if d.getLast? == some '*' then d.dropLast.isPrefixOf call.toList else doc == call

/-- the source facts of the command a documented name is dispatched to -/
def srcOfName (name : String) : Option CmdSrc :=
  match Generated.dispatch.find? (fun d => d.1 == String.ofList (name.toList.map Char.toLower)) with
  | none => none
  | some d => Generated.cmdSrcs.find? (fun s => s.fn == d.2.1)

/-- a row of a `Command / Go API` table is truthful: the command is dispatched to a command object
whose `Run` calls the documented method (`-`: calls no repository method at all) -/
def docRowOK (row : String × String) : Bool :=
  match srcOfName row.1 with
  | none => false
  | some s => if row.2 == "-" then s.calls.isEmpty else s.calls.any (apiMatches row.2)

end Redka.Wire
