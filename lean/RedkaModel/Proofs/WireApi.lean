/-
  The wire model's `run` consults the repository ONLY through the methods that the source of the
  command's `Run` calls (the `calls` facet regenerated from internal/command/* on every run).
  Stated as parametricity in the runner: two repositories that agree on those methods give the
  same `run`. Core Lean only.
-/
import RedkaModel.Model.Wire.Cmd.Run
import RedkaModel.Model.Wire.CmdApi
import RedkaModel.Generated.Cmds
import RedkaModel.Generated.Grammar

namespace Redka.Wire

open Redka

/-- the repository methods that `Run` of the struct type `ty` calls, according to the source -/
def callsOfTy (ty : String) : List String :=
  match Generated.runCalls.find? (fun p => p.1 == ty) with
  | some p => p.2
  | none => []

theorem call_congr (c : ParsedCmd) (r r' : Runner) (op : Op) (now : Int) (db : DB)
    (onOk : Val → Option (List Token)) (onErr : Err → Option (List Token × Bool)) (bag : Nat)
    (h : r op = r' op) :
    call c r op now db onOk onErr bag = call c r' op now db onOk onErr bag := by
  unfold call; rw [h]

/-- closes `call c r op … = call c r' op …` when the operation's method is among the source's calls -/
macro "api_step" h:ident : tactic =>
  `(tactic| (apply call_congr; refine $h _ ?_; dsimp only [Cmd.goType, opApi]; decide))

/-- `run` consults the repository only through the methods its Go counterpart calls -/
theorem run_calls_only_source_api (c : ParsedCmd) (r r' : Runner) (now : Int) (db : DB)
    (o : Option Bytes)
    (h : ∀ op, opApi op ∈ callsOfTy c.cmd.goType → r op = r' op) :
    run c r now db o = run c r' now db o := by
  obtain ⟨name, args, cmd⟩ := c
  cases cmd <;> simp only [run] <;>
    first
    | rfl
    | api_step h
    | (split <;> first
        | rfl
        | api_step h
        | (split <;> first
            | rfl
            | api_step h))

/-! ### the documented API (docs/commands/*.md) -/

/-- a documented method name matches a called one: equal, or a prefix when written `Insert*` -/
def apiMatches (doc call : String) : Bool :=
  let d := doc.toList
  if d.getLast? == some '*' then d.dropLast.isPrefixOf call.toList else doc == call

/-- the source facts of the command a documented name is dispatched to -/
def srcOfName (name : String) : Option CmdSrc :=
  match Generated.dispatch.find? (fun d => d.1 == String.ofList (name.toList.map Char.toLower)) with
  | none => none
  | some d => Generated.cmdSrcs.find? (fun s => s.fn == d.2.1)

/-- a row of a `Command / Go API` table is truthful: the command is dispatched to a command object
whose `Run` calls the documented method (`-`: calls no repository method at all) -/
def docRowOK (row : String × String) : Bool :=
  match srcOfName row.1 with
  | none => false
  | some s => if row.2 == "-" then s.calls.isEmpty else s.calls.any (apiMatches row.2)

/-! ### the API call with its arguments -/

/-- **The documented API call of a wire command, with its arguments**: the one repository call the
command object makes for the parsed fields (`none`: the command touches no repository, or the
request is outside the arithmetic domain of the model). A readable table of C13's mapping. -/
def apiCallOf (cmd : Cmd) (oracle : Option Bytes) : Option Op :=
  match cmd with
  | .ok | .config .. | .lolwut _ | .unknown | .echo _ | .ping _ | .select _ => none
  | .dbSize => some .keyLen
  | .del keys => some (.keyDelete keys)
  | .exists keys => some (.keyCount keys)
  | .expire key ttl => some (.keyExpire key ttl)
  | .expireAt key at_ => some (.keyExpireAt key at_)
  | .flushDB => some .keyDeleteAll
  | .keys pattern => some (.keyKeys pattern)
  | .persist key => some (.keyPersist key)
  | .randomKey => some (.keyRandom oracle)
  | .rename key newKey => some (.keyRename key newKey)
  | .renameNX key newKey => some (.keyRenameNX key newKey)
  | .scan cursor match_ count ktype => some (.keyScan cursor match_ (toTypeID ktype) count)
  | .ttl key | .type key => some (.keyGet key)
  | .lindex key index => some (.listGet key index)
  | .linsert key where_ pivot elem =>
    some (if where_ == asciiBytes "before" then .listInsertBefore key pivot elem else .listInsertAfter key pivot elem)
  | .llen key => some (.listLen key)
  | .lpop key => some (.listPopFront key)
  | .lpush key elem => some (.listPushFront key elem)
  | .lrange key start stop => if !limitArithSafe start stop then none else some (.listRange key start stop)
  | .lrem key count elem =>
    some (if count > 0 then .listDeleteFront key elem count
          else if count < 0 then .listDeleteBack key elem (wrap64 (-count))
          else .listDelete key elem)
  | .lset key index elem => some (.listSet key index elem)
  | .ltrim key start stop => if !limitArithSafe start stop then none else some (.listTrim key start stop)
  | .rpop key => some (.listPopBack key)
  | .rpoplpush src dst => some (.listPopBackPushFront src dst)
  | .rpush key elem => some (.listPushBack key elem)
  | .get key | .strlen key => some (.strGet key)
  | .getSet key value => some (.strSetWith key value {})
  | .incr key delta | .incrBy key delta => some (.strIncr key delta)
  | .incrByFloat key delta => match delta with | .fin d => some (.strIncrFloat key d) | _ => none
  | .mget keys => some (.strGetMany keys)
  | .mset items => some (.strSetMany items)
  | .set key value ifNX ifXX get ttl at_ keepTTL =>
    if !ifNX && !ifXX && !get && !keepTTL && at_.isNone then some (.strSetExpires key value ttl)
    else some (.strSetWith key value
      { ifExists := ifXX, ifNotExists := !ifXX && ifNX, ttl := if ttl > 0 then ttl else 0,
        atMs := if ttl > 0 then none else at_, keepTTL := !(ttl > 0) && at_.isNone && keepTTL })
  | .setEX key value ttl => some (.strSetExpires key value ttl)
  | .setNX key value => some (.strSetWith key value { ifNotExists := true })
  | .hdel key fields => some (.hashDelete key fields)
  | .hexists key field => some (.hashExists key field)
  | .hget key field => some (.hashGet key field)
  | .hgetAll key => some (.hashItems key)
  | .hincrBy key field delta => some (.hashIncr key field delta)
  | .hincrByFloat key field delta => match delta with | .fin d => some (.hashIncrFloat key field d) | _ => none
  | .hkeys key => some (.hashFields key)
  | .hlen key => some (.hashLen key)
  | .hmget key fields => some (.hashGetMany key fields)
  | .hmset key items | .hset key items => some (.hashSetMany key items)
  | .hscan key cursor match_ count => some (.hashScan key cursor match_ count)
  | .hsetNX key field value => some (.hashSetNotExists key field value)
  | .hvals key => some (.hashValues key)
  | .sadd key members => some (.setAdd key members)
  | .scard key => some (.setLen key)
  | .sdiff keys => some (.setDiff keys)
  | .sdiffStore dest keys => some (.setDiffStore dest keys)
  | .sinter keys => some (.setInter keys)
  | .sinterStore dest keys => some (.setInterStore dest keys)
  | .sismember key member => some (.setExists key member)
  | .smembers key => some (.setItems key)
  | .smove src dest member => some (.setMove src dest member)
  | .spop key => some (.setPop key oracle)
  | .srandMember key => some (.setRandom key oracle)
  | .srem key members => some (.setDelete key members)
  | .sscan key cursor match_ count => some (.setScan key cursor match_ count)
  | .sunion keys => some (.setUnion keys)
  | .sunionStore dest keys => some (.setUnionStore dest keys)
  | .zadd key items => some (.zAddMany key items)
  | .zcard key => some (.zLen key)
  | .zcount key min max => some (.zCount key min max)
  | .zincrBy key delta member => some (.zIncr key member delta)
  | .zinter keys aggregate _ => some (.zInter keys (aggOf aggregate))
  | .zinterStore dest keys aggregate => some (.zInterStore dest keys (aggOf aggregate))
  | .zrange key start stop byScore rev offset count _ =>
    if byScore then some (.zRangeScore key start stop rev offset count)
    else match truncInt start, truncInt stop with
      | some a, some b => some (.zRangeRank key a b rev)
      | _, _ => none
  | .zrangeByScore key min max _ offset count => some (.zRangeScore key min max false offset count)
  | .zrank key member _ => some (.zGetRank key member)
  | .zrem key members => some (.zDelete key members)
  | .zremRangeByRank key start stop => some (.zDeleteRank key start stop)
  | .zremRangeByScore key min max => some (.zDeleteScore key min max)
  | .zrevRange key start stop _ => some (.zRangeRank key start stop true)
  | .zrevRangeByScore key min max _ offset count => some (.zRangeScore key min max true offset count)
  | .zrevRank key member _ => some (.zGetRankRev key member)
  | .zscan key cursor match_ count => some (.zScan key cursor match_ count)
  | .zscore key member => some (.zGetScore key member)
  | .zunion keys aggregate _ => some (.zUnion keys (aggOf aggregate))
  | .zunionStore dest keys aggregate => some (.zUnionStore dest keys (aggOf aggregate))

theorem call_congr' (c : ParsedCmd) (r r' : Runner) (op : Op) (now : Int) (db : DB)
    (onOk : Val → Option (List Token)) (onErr : Err → Option (List Token × Bool)) (bag : Nat)
    (h : r op now db = r' op now db) :
    call c r op now db onOk onErr bag = call c r' op now db onOk onErr bag := by
  unfold call; rw [h]

macro "api_call_step" h:ident : tactic =>
  `(tactic| (apply call_congr'; apply $h; simp [apiCallOf, *]))

/-- **Each wire command is its API call**: the reply and the resulting tables of the wire model are a
function of what that ONE repository call — with the arguments `apiCallOf` lists — returns on the
same data at the same instant, and of nothing else the repository could do. -/
theorem run_is_the_api_call (c : ParsedCmd) (r r' : Runner) (now : Int) (db : DB) (o : Option Bytes)
    (h : ∀ op, apiCallOf c.cmd o = some op → r op now db = r' op now db) :
    run c r now db o = run c r' now db o := by
  obtain ⟨name, args, cmd⟩ := c
  cases cmd <;> simp only [run] <;>
    first
    | rfl
    | api_call_step h
    | (split <;> first
        | rfl
        | api_call_step h
        | (split <;> first
            | rfl
            | api_call_step h))
end Redka.Wire
