/-
  `ratRound53` (Basic.lean), the model of `strconv.ParseFloat`'s rounding, is CORRECTLY ROUNDED:
  for every positive rational `p / q` the result is `m · 2^(-t)` where `m` has exactly 53 bits
  (or is `2^53` after a carry), lies within half a unit in the last place of `p / q`, and is even
  when `p / q` is exactly half-way. Pure integer arithmetic; core Lean only.
-/
import RedkaModel.Basic
namespace Redka.Round
open Redka

def numAt (p : Nat) (t : Int) : Nat := if t ≥ 0 then p * 2 ^ t.toNat else p
def denAt (q : Nat) (t : Int) : Nat := if t ≥ 0 then q else q * 2 ^ (-t).toNat

theorem scaleDiv_eq (p q : Nat) (t : Int) :
    scaleDiv p q t = (numAt p t / denAt q t, numAt p t % denAt q t, denAt q t) := by
  unfold scaleDiv numAt denAt
  split <;> rfl

theorem denAt_pos {q : Nat} (hq : 0 < q) (t : Int) : 0 < denAt q t := by
  unfold denAt; split
  · exact hq
  · exact Nat.mul_pos hq (Nat.pow_pos (by decide))

/-- the rounding decision of `ratRound53` -/
def roundUp (m r d : Nat) : Nat := if 2 * r > d || (2 * r == d && m % 2 == 1) then m + 1 else m

/-- one rounding step is to nearest, ties to even -/
theorem roundUp_nearest (n d m r : Nat) (hd : 0 < d) (hm : n / d = m) (hrr : n % d = r) :
    2 * ((n : Int) - ((roundUp m r d : Nat) : Int) * d).natAbs ≤ d ∧
    (2 * ((n : Int) - ((roundUp m r d : Nat) : Int) * d).natAbs = d → roundUp m r d % 2 = 0) ∧
    (roundUp m r d = m ∨ roundUp m r d = m + 1) := by
  have hdm : d * (n / d) + n % d = n := Nat.div_add_mod n d
  have hr : n % d < d := Nat.mod_lt n hd
  rw [hm, hrr] at hdm
  rw [hrr] at hr
  have hmd : (n : Int) = (m : Int) * d + r := by
    have : (n : Int) = ((d * m + r : Nat) : Int) := by rw [hdm]
    rw [this]; push_cast; rw [Int.mul_comm]
  unfold roundUp
  by_cases h1 : 2 * r > d
  · simp only [h1, decide_true, Bool.true_or, if_true]
    have : (n : Int) - ((m + 1 : Nat) : Int) * d = (r : Int) - d := by
      rw [hmd]; push_cast; rw [Int.add_mul]; omega
    rw [this]
    refine ⟨by omega, fun h => by omega, by simp⟩
  · by_cases h2 : 2 * r = d
    · by_cases h3 : m % 2 = 1
      · have hc : (decide (2 * r > d) || (2 * r == d && m % 2 == 1)) = true := by simp [h2, h3]
        simp only [hc, if_true]
        have : (n : Int) - ((m + 1 : Nat) : Int) * d = (r : Int) - d := by
          rw [hmd]; push_cast; rw [Int.add_mul]; omega
        rw [this]
        refine ⟨by omega, fun _ => by omega, by simp⟩
      · have hc : (decide (2 * r > d) || (2 * r == d && m % 2 == 1)) = false := by simp [h1, h3]
        simp only [hc]
        have : (n : Int) - (m : Int) * d = r := by rw [hmd]; omega
        simp only [Bool.false_eq_true, if_false]
        rw [this]
        refine ⟨by omega, fun _ => by omega, by simp⟩
    · have hc : (decide (2 * r > d) || (2 * r == d && m % 2 == 1)) = false := by simp [h1, h2]
      simp only [hc, Bool.false_eq_true, if_false]
      have : (n : Int) - (m : Int) * d = r := by rw [hmd]; omega
      rw [this]
      refine ⟨by omega, fun h => by omega, by simp⟩


/-! ### the scale: the quotient has exactly 53 bits -/

theorem natBits_pos {n : Nat} (h : 0 < n) : natBits n = Nat.log2 n + 1 := by
  unfold natBits; simp [Nat.ne_of_gt h]

theorem quot_pred (p q : Nat) (t : Int) :
    numAt p (t - 1) / denAt q (t - 1) = numAt p t / denAt q t / 2 := by
  unfold numAt denAt
  by_cases h1 : t ≥ 1
  · have h0 : t ≥ 0 := by omega
    have h0' : t - 1 ≥ 0 := by omega
    simp only [h0, h0', if_true]
    have hk : t.toNat = (t - 1).toNat + 1 := by omega
    rw [hk, Nat.pow_succ, ← Nat.mul_assoc, Nat.div_div_eq_div_mul, Nat.mul_div_mul_right _ _ (by decide : 0 < 2)]
  · by_cases h0 : t = 0
    · subst h0
      have : ¬ ((0 : Int) - 1 ≥ 0) := by omega
      simp only [this, if_false]
      simp [Nat.div_div_eq_div_mul]
    · have hn : ¬ (t ≥ 0) := by omega
      have hn' : ¬ (t - 1 ≥ 0) := by omega
      simp only [hn, hn', if_false]
      have hk : (-(t - 1)).toNat = (-t).toNat + 1 := by omega
      rw [hk, Nat.pow_succ, ← Nat.mul_assoc, Nat.div_div_eq_div_mul]

/-- at the first guess `t0 = 53 - bits p + bits q` the quotient lies in `[2^52, 2^54)` -/
theorem quot_t0 (p q : Nat) (hp : 0 < p) (hq : 0 < q) :
    2 ^ 52 ≤ numAt p (53 - (natBits p : Int) + (natBits q : Int)) / denAt q (53 - (natBits p : Int) + (natBits q : Int)) ∧
    numAt p (53 - (natBits p : Int) + (natBits q : Int)) / denAt q (53 - (natBits p : Int) + (natBits q : Int)) < 2 ^ 54 := by
  rw [natBits_pos hp, natBits_pos hq]
  have hpl : 2 ^ p.log2 ≤ p := Nat.log2_self_le (Nat.ne_of_gt hp)
  have hph : p < 2 ^ (p.log2 + 1) := Nat.lt_log2_self
  have hql : 2 ^ q.log2 ≤ q := Nat.log2_self_le (Nat.ne_of_gt hq)
  have hqh : q < 2 ^ (q.log2 + 1) := Nat.lt_log2_self
  generalize p.log2 = a at *
  generalize q.log2 = b at *
  unfold numAt denAt
  by_cases h0 : (53 : Int) - ((a + 1 : Nat) : Int) + ((b + 1 : Nat) : Int) ≥ 0
  · simp only [h0, if_true]
    generalize hk : ((53 : Int) - ((a + 1 : Nat) : Int) + ((b + 1 : Nat) : Int)).toNat = k
    have hak : a + k = 52 + (b + 1) := by omega
    have e1 : 2 ^ a * 2 ^ k = 2 ^ 52 * 2 ^ (b + 1) := by rw [← Nat.pow_add, ← Nat.pow_add, hak]
    have e2 : 2 ^ (a + 1) * 2 ^ k = 2 ^ 54 * 2 ^ b := by
      rw [← Nat.pow_add, ← Nat.pow_add]; congr 1; omega
    constructor
    · rw [Nat.le_div_iff_mul_le hq]
      calc 2 ^ 52 * q ≤ 2 ^ 52 * 2 ^ (b + 1) := Nat.mul_le_mul_left _ (Nat.le_of_lt hqh)
        _ = 2 ^ a * 2 ^ k := e1.symm
        _ ≤ p * 2 ^ k := Nat.mul_le_mul_right _ hpl
    · rw [Nat.div_lt_iff_lt_mul hq]
      calc p * 2 ^ k < 2 ^ (a + 1) * 2 ^ k := Nat.mul_lt_mul_of_pos_right hph (Nat.pow_pos (by decide))
        _ = 2 ^ 54 * 2 ^ b := e2
        _ ≤ 2 ^ 54 * q := Nat.mul_le_mul_left _ hql
  · simp only [h0, if_false]
    generalize hk : (-((53 : Int) - ((a + 1 : Nat) : Int) + ((b + 1 : Nat) : Int))).toNat = k
    have hak : a = 52 + (b + 1) + k := by omega
    have hd : 0 < q * 2 ^ k := Nat.mul_pos hq (Nat.pow_pos (by decide))
    have e1 : 2 ^ a = 2 ^ 52 * (2 ^ (b + 1) * 2 ^ k) := by
      rw [← Nat.pow_add, ← Nat.pow_add]; congr 1; omega
    have e2 : 2 ^ (a + 1) = 2 ^ 54 * (2 ^ b * 2 ^ k) := by
      rw [← Nat.pow_add, ← Nat.pow_add]; congr 1; omega
    constructor
    · rw [Nat.le_div_iff_mul_le hd]
      calc 2 ^ 52 * (q * 2 ^ k) ≤ 2 ^ 52 * (2 ^ (b + 1) * 2 ^ k) :=
            Nat.mul_le_mul_left _ (Nat.mul_le_mul_right _ (Nat.le_of_lt hqh))
        _ = 2 ^ a := e1.symm
        _ ≤ p := hpl
    · rw [Nat.div_lt_iff_lt_mul hd]
      calc p < 2 ^ (a + 1) := hph
        _ = 2 ^ 54 * (2 ^ b * 2 ^ k) := e2
        _ ≤ 2 ^ 54 * (q * 2 ^ k) := Nat.mul_le_mul_left _ (Nat.mul_le_mul_right _ hql)


/-- the quotient at the scale `ratRound53` settles on has exactly 53 bits -/
theorem quot_final (p q : Nat) (hp : 0 < p) (hq : 0 < q) (t0 t : Int)
    (ht0 : t0 = 53 - (natBits p : Int) + (natBits q : Int))
    (ht : t = if (scaleDiv p q t0).1 ≥ 2 ^ 53 then t0 - 1 else t0) :
    2 ^ 52 ≤ numAt p t / denAt q t ∧ numAt p t / denAt q t < 2 ^ 53 := by
  have h0 := quot_t0 p q hp hq
  rw [← ht0] at h0
  rw [scaleDiv_eq] at ht
  simp only at ht
  by_cases hge : numAt p t0 / denAt q t0 ≥ 2 ^ 53
  · rw [if_pos hge] at ht
    subst ht
    rw [quot_pred]
    omega
  · rw [if_neg hge] at ht
    subst ht
    omega

/-- **`ratRound53` is correctly rounded**: the result is `m · 2^(-t)` with a 53-bit `m` (or `2^53`
after a carry), within half a unit in the last place of `p / q`, and even on a tie. -/
theorem ratRound53_nearest (p q : Nat) (hp : 0 < p) (hq : 0 < q) (x : Dyadic)
    (h : ratRound53 p q = some x) :
    ∃ (m : Nat) (t : Int), x = Dyadic.ofIntWithPrec (m : Int) t ∧ 2 ^ 52 ≤ m ∧ m ≤ 2 ^ 53 ∧
      2 * ((numAt p t : Int) - (m : Int) * denAt q t).natAbs ≤ denAt q t ∧
      (2 * ((numAt p t : Int) - (m : Int) * denAt q t).natAbs = denAt q t → m % 2 = 0) := by
  unfold ratRound53 at h
  dsimp only at h
  generalize ht0 : (53 : Int) - (natBits p : Int) + (natBits q : Int) = t0 at h
  generalize ht : (if (scaleDiv p q t0).1 ≥ 2 ^ 53 then t0 - 1 else t0) = t at h
  obtain ⟨hlo, hhi⟩ := quot_final p q hp hq t0 t ht0.symm ht.symm
  rw [scaleDiv_eq] at h
  simp only at h
  have hd := denAt_pos hq t
  obtain ⟨hn, hte, hor⟩ := roundUp_nearest (numAt p t) (denAt q t) _ _ hd rfl rfl
  have hm' : (if 2 * (numAt p t % denAt q t) > denAt q t ||
      (2 * (numAt p t % denAt q t) == denAt q t && numAt p t / denAt q t % 2 == 1)
      then numAt p t / denAt q t + 1 else numAt p t / denAt q t)
      = roundUp (numAt p t / denAt q t) (numAt p t % denAt q t) (denAt q t) := rfl
  rw [hm'] at h
  generalize roundUp (numAt p t / denAt q t) (numAt p t % denAt q t) (denAt q t) = m' at *
  have hfin : ∀ (c : Bool), (if c = true then none else some (Dyadic.ofIntWithPrec (m' : Int) t)) = some x →
      x = Dyadic.ofIntWithPrec (m' : Int) t := by
    intro c hc
    cases c
    · simp at hc; exact hc.symm
    · simp at hc
  refine ⟨m', t, ?_, by omega, by omega, hn, hte⟩
  split at h <;> exact hfin _ h

/-- **`round53` is correctly rounded** (the float64 sum of two float64 values): a dyadic `n / 2^k`
whose odd numerator has more than 53 bits becomes `±m · 2^sh / 2^k` with `2^52 ≤ m ≤ 2^53`, within
half a unit in the last place, even on a tie; a numerator of at most 53 bits is left alone. -/
theorem round53_nearest (n k : Int) (hn : n % 2 = 1) :
    (natBits n.natAbs ≤ 53 → round53 (.ofOdd n k hn) = .ofOdd n k hn) ∧
    (53 < natBits n.natAbs →
      ∃ (m sh : Nat), sh = natBits n.natAbs - 53 ∧
        round53 (.ofOdd n k hn) = Dyadic.ofIntWithPrec (if n < 0 then -(m : Int) else (m : Int)) (k - sh) ∧
        2 ^ 52 ≤ m ∧ m ≤ 2 ^ 53 ∧
        2 * ((n.natAbs : Int) - (m : Int) * (2 ^ sh : Nat)).natAbs ≤ 2 ^ sh ∧
        (2 * ((n.natAbs : Int) - (m : Int) * (2 ^ sh : Nat)).natAbs = 2 ^ sh → m % 2 = 0)) := by
  constructor
  · intro h
    unfold round53
    simp [h]
  · intro h
    have hnot : ¬ natBits n.natAbs ≤ 53 := by omega
    generalize ha : n.natAbs = a at *
    have hapos : 0 < a := by omega
    generalize hsh : natBits a - 53 = sh
    have hsh1 : 1 ≤ sh := by omega
    have hd : 0 < 2 ^ sh := Nat.pow_pos (by decide)
    obtain ⟨hnr, hte, hor⟩ := roundUp_nearest a (2 ^ sh) _ _ hd rfl rfl
    -- the quotient has exactly 53 bits
    have hbits : natBits a = Nat.log2 a + 1 := natBits_pos hapos
    have hlo : 2 ^ a.log2 ≤ a := Nat.log2_self_le (Nat.ne_of_gt hapos)
    have hhi : a < 2 ^ (a.log2 + 1) := Nat.lt_log2_self
    have e1 : 2 ^ a.log2 = 2 ^ 52 * 2 ^ sh := by rw [← Nat.pow_add]; congr 1; omega
    have e2 : 2 ^ (a.log2 + 1) = 2 ^ 53 * 2 ^ sh := by rw [← Nat.pow_add]; congr 1; omega
    have q1 : 2 ^ 52 ≤ a / 2 ^ sh := by rw [Nat.le_div_iff_mul_le hd]; omega
    have q2 : a / 2 ^ sh < 2 ^ 53 := by rw [Nat.div_lt_iff_lt_mul hd]; omega
    refine ⟨roundUp (a / 2 ^ sh) (a % 2 ^ sh) (2 ^ sh), sh, rfl, ?_, by omega, by omega, hnr, hte⟩
    unfold round53
    simp only [ha, hnot, if_false, hsh]
    have hhalf : 2 * 2 ^ (sh - 1) = 2 ^ sh := by
      have : 2 ^ sh = 2 ^ (sh - 1) * 2 := by rw [← Nat.pow_succ]; congr 1; omega
      omega
    have hcond : (decide (a % 2 ^ sh > 2 ^ (sh - 1)) || (a % 2 ^ sh == 2 ^ (sh - 1) && a >>> sh % 2 == 1))
        = (decide (2 * (a % 2 ^ sh) > 2 ^ sh) || (2 * (a % 2 ^ sh) == 2 ^ sh && a / 2 ^ sh % 2 == 1)) := by
      rw [Nat.shiftRight_eq_div_pow]
      have c1 : decide (a % 2 ^ sh > 2 ^ (sh - 1)) = decide (2 * (a % 2 ^ sh) > 2 ^ sh) := by
        apply decide_eq_decide.mpr; omega
      have c2 : (a % 2 ^ sh == 2 ^ (sh - 1)) = (2 * (a % 2 ^ sh) == 2 ^ sh) := by
        by_cases hh : a % 2 ^ sh = 2 ^ (sh - 1)
        · have h2 : 2 * (a % 2 ^ sh) = 2 ^ sh := by omega
          rw [beq_iff_eq.mpr hh, beq_iff_eq.mpr h2]
        · have h2 : 2 * (a % 2 ^ sh) ≠ 2 ^ sh := by omega
          rw [beq_eq_false_iff_ne.mpr hh, beq_eq_false_iff_ne.mpr h2]
      rw [c1, c2]
    unfold roundUp
    rw [Nat.shiftRight_eq_div_pow] at hcond ⊢
    simp only [hcond]

end Redka.Round
