/-
  The Model's `keyScan` / `setScan` / `hashScan` / `zScan` and the scanners built on them are
  instances of the abstract cursor iteration of `Model/Scan.lean`.
-/
import RedkaModel.Model.Scanner
import RedkaModel.Proofs.Scan

namespace Redka.Scan

open Redka Redka.Model

/-! ### insertion sort -/

section sort
variable {β : Type}

theorem mem_insertSortedBy (lt : β → β → Bool) (x z : β) :
    ∀ l : List β, z ∈ insertSortedBy lt x l ↔ z = x ∨ z ∈ l
  | [] => by simp [insertSortedBy]
  | y :: ys => by
    simp only [insertSortedBy]
    split
    · simp
    · simp only [List.mem_cons, mem_insertSortedBy lt x z ys]
      constructor
      · rintro (h | h | h)
        · exact Or.inr (Or.inl h)
        · exact Or.inl h
        · exact Or.inr (Or.inr h)
      · rintro (h | h | h)
        · exact Or.inr (Or.inl h)
        · exact Or.inl h
        · exact Or.inr (Or.inr h)

theorem mem_sortBy (lt : β → β → Bool) (z : β) : ∀ l : List β, z ∈ sortBy lt l ↔ z ∈ l
  | [] => by simp [sortBy]
  | y :: ys => by
    have ih := mem_sortBy lt z ys
    simp only [sortBy, List.foldr_cons] at ih ⊢
    rw [mem_insertSortedBy, ih]
    simp

theorem length_insertSortedBy (lt : β → β → Bool) (x : β) :
    ∀ l : List β, (insertSortedBy lt x l).length = l.length + 1
  | [] => by simp [insertSortedBy]
  | y :: ys => by
    simp only [insertSortedBy]
    split
    · simp
    · simp [length_insertSortedBy lt x ys]

theorem length_sortBy (lt : β → β → Bool) : ∀ l : List β, (sortBy lt l).length = l.length
  | [] => by simp [sortBy]
  | y :: ys => by
    have ih := length_sortBy lt ys
    simp only [sortBy, List.foldr_cons] at ih ⊢
    rw [length_insertSortedBy, ih]
    simp

/-- A strict order on the sort key: irreflexive, transitive, any two different keys comparable. -/
structure StrictTotal {κ : Type} (ltk : κ → κ → Bool) : Prop where
  irrefl : ∀ a, ltk a a = false
  trans : ∀ a b c, ltk a b = true → ltk b c = true → ltk a c = true
  connected : ∀ a b, ltk a b = false → ltk b a = false → a = b

variable {κ : Type} {ltk : κ → κ → Bool} (g : β → κ)

theorem pairwise_insertSortedBy (ho : StrictTotal ltk) (x : β) :
    ∀ l : List β, l.Pairwise (fun a b => ltk (g a) (g b) = true) → (∀ z ∈ l, g z ≠ g x) →
      (insertSortedBy (fun a b => ltk (g a) (g b)) x l).Pairwise (fun a b => ltk (g a) (g b) = true)
  | [], _, _ => by simp [insertSortedBy]
  | y :: ys, hs, hne => by
    have hs' := List.pairwise_cons.1 hs
    simp only [insertSortedBy]
    split
    · rename_i hlt
      refine List.Pairwise.cons ?_ hs
      intro z hz
      rcases List.mem_cons.1 hz with rfl | hz
      · exact hlt
      · exact ho.trans _ _ _ hlt (hs'.1 z hz)
    · rename_i hlt
      have hyx : ltk (g y) (g x) = true := by
        cases h : ltk (g y) (g x) with
        | true => rfl
        | false =>
          have hxy : ltk (g x) (g y) = false := by simpa using hlt
          exact absurd (ho.connected _ _ h hxy) (hne y (by simp))
      refine List.Pairwise.cons ?_
        (pairwise_insertSortedBy ho x ys hs'.2 (fun z hz => hne z (List.mem_cons_of_mem _ hz)))
      intro z hz
      rcases (mem_insertSortedBy _ x z ys).1 hz with rfl | hz
      · exact hyx
      · exact hs'.1 z hz

/-- Sorting rows whose keys are pairwise different gives a strictly increasing list. -/
theorem pairwise_sortBy (ho : StrictTotal ltk) :
    ∀ l : List β, (l.map g).Nodup →
      (sortBy (fun a b => ltk (g a) (g b)) l).Pairwise (fun a b => ltk (g a) (g b) = true)
  | [], _ => by simp [sortBy]
  | y :: ys, hnd => by
    have hnd' : g y ∉ ys.map g ∧ (ys.map g).Nodup := List.nodup_cons.1 hnd
    have ih := pairwise_sortBy ho ys hnd'.2
    simp only [sortBy, List.foldr_cons] at ih ⊢
    apply pairwise_insertSortedBy g ho y _ ih
    intro z hz heq
    have hz' : z ∈ ys := (mem_sortBy _ z ys).1 hz
    exact hnd'.1 (heq ▸ List.mem_map.2 ⟨z, hz', rfl⟩)

theorem strictTotal_int : StrictTotal (fun (a b : Int) => decide (a < b)) where
  irrefl := by intro a; simp
  trans := by intro a b c h1 h2; simp at h1 h2 ⊢; omega
  connected := by intro a b h1 h2; simp at h1 h2; omega

theorem bytesLt_irrefl : ∀ a : Bytes, bytesLt a a = false
  | [] => rfl
  | x :: xs => by simp [bytesLt, bytesLt_irrefl xs]

theorem bytesLt_trans : ∀ a b c : Bytes, bytesLt a b = true → bytesLt b c = true → bytesLt a c = true
  | [], [], _, h, _ => by simp [bytesLt] at h
  | [], _ :: _, [], _, h => by simp [bytesLt] at h
  | [], _ :: _, _ :: _, _, _ => by simp [bytesLt]
  | _ :: _, [], _, h, _ => by simp [bytesLt] at h
  | _ :: _, _ :: _, [], _, h => by simp [bytesLt] at h
  | x :: xs, y :: ys, z :: zs, h1, h2 => by
    simp only [bytesLt] at h1 h2 ⊢
    simp only [UInt8.lt_iff_toNat_lt] at h1 h2 ⊢
    by_cases hxy : x.toNat < y.toNat
    · by_cases hyz : y.toNat < z.toNat
      · rw [if_pos (by omega)]
      · rw [if_neg hyz] at h2
        by_cases hzy : z.toNat < y.toNat
        · simp [hzy] at h2
        · rw [if_pos (by omega)]
    · rw [if_neg hxy] at h1
      by_cases hyx : y.toNat < x.toNat
      · simp [hyx] at h1
      · rw [if_neg hyx] at h1
        have hxe : x.toNat = y.toNat := by omega
        by_cases hyz : y.toNat < z.toNat
        · rw [if_pos (by omega)]
        · rw [if_neg hyz] at h2
          by_cases hzy : z.toNat < y.toNat
          · simp [hzy] at h2
          · rw [if_neg hzy] at h2
            rw [if_neg (by omega), if_neg (by omega)]
            exact bytesLt_trans xs ys zs h1 h2

theorem bytesLt_connected : ∀ a b : Bytes, bytesLt a b = false → bytesLt b a = false → a = b
  | [], [], _, _ => rfl
  | [], _ :: _, h, _ => by simp [bytesLt] at h
  | _ :: _, [], _, h => by simp [bytesLt] at h
  | x :: xs, y :: ys, h1, h2 => by
    simp only [bytesLt] at h1 h2
    simp only [UInt8.lt_iff_toNat_lt] at h1 h2
    by_cases hxy : x.toNat < y.toNat
    · simp [hxy] at h1
    · by_cases hyx : y.toNat < x.toNat
      · simp [hyx] at h2
      · rw [if_neg hxy, if_neg hyx] at h1
        rw [if_neg hyx, if_neg hxy] at h2
        have hxe : x = y := UInt8.toNat_inj.1 (by omega)
        rw [hxe, bytesLt_connected xs ys h1 h2]

theorem strictTotal_bytes : StrictTotal bytesLt :=
  ⟨bytesLt_irrefl, bytesLt_trans, bytesLt_connected⟩

/-! `where` and `order by` commute (integer sort key, ties allowed) -/

variable (f : β → Int)

theorem insertSortedBy_head (x : β) :
    ∀ l : List β, (∀ z ∈ l, f x < f z) →
      insertSortedBy (fun a b => decide (f a < f b)) x l = x :: l
  | [], _ => rfl
  | y :: ys, h => by simp [insertSortedBy, h y (by simp)]

theorem le_pairwise_insertSortedBy (x : β) :
    ∀ l : List β, l.Pairwise (fun a b => f a ≤ f b) →
      (insertSortedBy (fun a b => decide (f a < f b)) x l).Pairwise (fun a b => f a ≤ f b)
  | [], _ => by simp [insertSortedBy]
  | y :: ys, hs => by
    have hs' := List.pairwise_cons.1 hs
    simp only [insertSortedBy]
    split
    · rename_i hlt
      have hlt : f x < f y := by simpa using hlt
      refine List.Pairwise.cons ?_ hs
      intro z hz
      rcases List.mem_cons.1 hz with rfl | hz
      · omega
      · have := hs'.1 z hz; omega
    · rename_i hlt
      have hlt : ¬ f x < f y := by simpa using hlt
      refine List.Pairwise.cons ?_ (le_pairwise_insertSortedBy x ys hs'.2)
      intro z hz
      rcases (mem_insertSortedBy _ x z ys).1 hz with rfl | hz
      · omega
      · exact hs'.1 z hz

theorem le_pairwise_sortBy :
    ∀ l : List β, (sortBy (fun a b => decide (f a < f b)) l).Pairwise (fun a b => f a ≤ f b)
  | [] => by simp [sortBy]
  | y :: ys => by
    have ih := le_pairwise_sortBy ys
    simp only [sortBy, List.foldr_cons] at ih ⊢
    exact le_pairwise_insertSortedBy f y _ ih

theorem filter_insertSortedBy (q : β → Bool) (x : β) :
    ∀ l : List β, l.Pairwise (fun a b => f a ≤ f b) →
      (insertSortedBy (fun a b => decide (f a < f b)) x l).filter q
        = if q x then insertSortedBy (fun a b => decide (f a < f b)) x (l.filter q)
          else l.filter q
  | [], _ => by cases h : q x <;> simp [insertSortedBy, h]
  | y :: ys, hs => by
    have hs' := List.pairwise_cons.1 hs
    simp only [insertSortedBy]
    split
    · rename_i hlt
      have hlt : f x < f y := by simpa using hlt
      cases hqx : q x with
      | false => simp [List.filter_cons, hqx]
      | true =>
        have hall : ∀ z ∈ (y :: ys).filter q, f x < f z := by
          intro z hz
          have hz := (List.mem_filter.1 hz).1
          rcases List.mem_cons.1 hz with rfl | hz
          · exact hlt
          · have := hs'.1 z hz; omega
        rw [if_pos rfl, insertSortedBy_head f x _ hall]
        simp [List.filter_cons, hqx]
    · rename_i hlt
      have ih := filter_insertSortedBy q x ys hs'.2
      cases hqy : q y with
      | false =>
        rw [List.filter_cons, if_neg (by simp [hqy]), ih]
        simp [hqy]
      | true =>
        rw [List.filter_cons, if_pos hqy, ih]
        cases hqx : q x with
        | false => simp [hqy]
        | true =>
          simp only [if_true, List.filter_cons, hqy]
          simp only [insertSortedBy, hlt]
          rfl

theorem filter_sortBy (q : β → Bool) :
    ∀ l : List β, (sortBy (fun a b => decide (f a < f b)) l).filter q
      = sortBy (fun a b => decide (f a < f b)) (l.filter q)
  | [] => by simp [sortBy]
  | y :: ys => by
    have ih := filter_sortBy q ys
    have hs := le_pairwise_sortBy f ys
    simp only [sortBy, List.foldr_cons] at ih hs ⊢
    rw [filter_insertSortedBy f q y _ hs, ih]
    cases hqy : q y <;> simp [hqy]

end sort

/-! ### one call -/

theorem goCount_ne_zero (n : Int) : goCount n ≠ some 0 := by
  unfold goCount
  by_cases h0 : (n == 0) = true
  · simp [h0, defaultPageSize]
  · simp only [h0]
    have hn : n ≠ 0 := by simpa using h0
    by_cases hneg : n < 0
    · simp [hneg]
    · simp only [Bool.false_eq_true, if_false, hneg]
      intro h
      have : n.toNat = 0 := by simpa using h
      omega

/-- `if count == 0 { count = scanPageSize }` followed by SQL `limit ?` -/
theorem sqlLimit_goCount {β : Type} (count : Int) (l : List β) :
    sqlLimit 0 (if count == 0 then scanPageSize else count) l = limit (goCount count) l := by
  unfold goCount sqlLimit
  by_cases h0 : (count == 0) = true
  · simp [h0, scanPageSize, defaultPageSize, limit]
  · simp only [h0]
    by_cases hneg : count < 0
    · simp [hneg, limit]
    · simp [hneg, limit]

theorem limit_nil {β : Type} (count : Option Nat) : limit count ([] : List β) = [] := by
  cases count <;> simp [limit]

theorem page_map_view {β : Type} (idf : β → Int) (l : List β) (p : β → Bool) (c : Int)
    (count : Option Nat) :
    page (l.map (fun k => (⟨idf k, k⟩ : Row β))) p c count
      = (limit count (l.filter (fun k => decide (idf k > c) && p k))).map (fun k => ⟨idf k, k⟩) := by
  unfold page
  rw [List.filter_map, limit_map]
  rfl

theorem nextCursorLast_map_view {β : Type} (idf : β → Int) (l : List β) :
    nextCursorLast (l.map (fun k => (⟨idf k, k⟩ : Row β)))
      = (match l.getLast? with | none => 0 | some r => idf r) := by
  unfold nextCursorLast
  rw [List.getLast?_map]
  cases l.getLast? <;> rfl

theorem nextCursorMax_map_view {β : Type} (idf : β → Int) (l : List β) :
    nextCursorMax (l.map (fun k => (⟨idf k, k⟩ : Row β))) = maxD 0 (l.map idf) := by
  unfold nextCursorMax
  rw [List.map_map]
  rfl

/-- `rkey.Tx.Scan` is `page` over the key table in id order, with the last-row cursor rule. -/
theorem keyScan_eq_page (db : DB) (cursor : Int) (pat : Bytes) (ty count now : Int) :
    keyScan db cursor pat ty count now =
      .ok (.list [.int (nextCursorLast (page (keyRows db) (keyPred pat ty now) cursor (goCount count))),
                  .list ((page (keyRows db) (keyPred pat ty now) cursor (goCount count)).map
                    (fun r => keyVal r.val))]) db := by
  unfold keyScan keyRows
  rw [page_map_view KeyRow.id, nextCursorLast_map_view KeyRow.id, List.map_map]
  simp only [sqlLimit_goCount]
  rw [filter_sortBy KeyRow.id]
  have hpred : (fun r : KeyRow => decide (r.id > cursor) && Glob.sqliteGlob pat r.key
        && (ty == 0 || r.ty == ty) && r.live now)
      = (fun k : KeyRow => decide (k.id > cursor) && keyPred pat ty now k) := by
    funext r
    simp only [keyPred, Bool.and_assoc]
  rw [hpred]
  simp only [Function.comp_def]
  congr 4
  cases (limit (goCount count) (sortBy (fun a b : KeyRow => decide (a.id < b.id))
    (List.filter (fun k => decide (k.id > cursor) && keyPred pat ty now k) db.keys))).getLast? <;> rfl

/-- `rset.Tx.Scan` is `page` over the set's rows in ELEM order, with the max-rowid cursor rule. -/
theorem setScan_eq_page (db : DB) (k : Bytes) (cursor : Int) (pat : Bytes) (count now : Int) :
    setScan db k cursor pat count now =
      match db.liveKeyT k TSet now with
      | none => .ok (.list [.int 0, .list []]) db
      | some r =>
        .ok (.list [.int (nextCursorMax (page (setRowsOf db r.id)
                      (fun x => Glob.sqliteGlob pat x.elem) cursor (goCount count))),
                    .list ((page (setRowsOf db r.id)
                      (fun x => Glob.sqliteGlob pat x.elem) cursor (goCount count)).map
                      (fun x => .bytes x.val.elem))]) db := by
  unfold setScan
  cases db.liveKeyT k TSet now with
  | none => rfl
  | some r =>
    simp only [setRowsOf]
    rw [page_map_view SetRow.rowid, nextCursorMax_map_view SetRow.rowid, List.map_map]
    simp only [sqlLimit_goCount, bytesList, List.map_map]
    rfl

/-- `rhash.Tx.Scan`: rows in FIELD order, max-rowid cursor rule. -/
theorem hashScan_eq_page (db : DB) (k : Bytes) (cursor : Int) (pat : Bytes) (count now : Int) :
    hashScan db k cursor pat count now =
      match db.liveKeyT k THash now with
      | none => .ok (.list [.int 0, .list []]) db
      | some r =>
        .ok (.list [.int (nextCursorMax (page (hashRowsOf db r.id)
                      (fun x => Glob.sqliteGlob pat x.field) cursor (goCount count))),
                    .list ((page (hashRowsOf db r.id)
                      (fun x => Glob.sqliteGlob pat x.field) cursor (goCount count)).map
                      (fun x => pairVal (x.val.field, x.val.value)))]) db := by
  unfold hashScan hashLiveRows
  cases db.liveKeyT k THash now with
  | none =>
    simp only [sqlLimit_goCount, List.filter_nil, limit_nil]
    rfl
  | some r =>
    simp only [hashRowsOf]
    rw [page_map_view HashRow.rowid, nextCursorMax_map_view HashRow.rowid, List.map_map]
    simp only [sqlLimit_goCount]
    rfl

/-- `rzset.Tx.Scan`: rows in the pattern-dependent order `zScanByElem pat` selects, max-rowid
cursor rule; a pattern whose literal prefix looks numeric is outside the model. -/
theorem zScan_eq_page (db : DB) (k : Bytes) (cursor : Int) (pat : Bytes) (count now : Int) :
    zScan db k cursor pat count now =
      match zScanByElem pat with
      | none => .err .outOfDomain db
      | some b =>
        match db.liveKeyT k TZSet now with
        | none => .ok (.list [.int 0, .list []]) db
        | some r =>
          .ok (.list [.int (nextCursorMax (page (zRowsOfBy b db r.id)
                        (fun x => Glob.sqliteGlob pat x.elem) cursor (goCount count))),
                      .list ((page (zRowsOfBy b db r.id)
                        (fun x => Glob.sqliteGlob pat x.elem) cursor (goCount count)).map
                        (fun x => zItem x.val))]) db := by
  unfold zScan zLiveRows
  cases zScanByElem pat with
  | none => rfl
  | some b =>
    cases db.liveKeyT k TZSet now with
    | none =>
      cases b <;>
        simp only [sqlLimit_goCount, List.filter_nil, limit_nil, sortBy, List.foldr_nil,
          Bool.false_eq_true, if_false, if_true] <;> rfl
    | some r =>
      simp only [zRowsOfBy]
      rw [page_map_view ZRow.rowid, nextCursorMax_map_view ZRow.rowid, List.map_map]
      simp only [sqlLimit_goCount]
      rfl

/-! ### the scanners -/

theorem scanResult_ok (c : Int) (items : List Val) (db : DB) :
    scanResult (.ok (.list [.int c, .list items]) db) = some (c, items) := rfl

/-- A scanner whose every call is a `page` of the abstract model is the abstract iteration. -/
theorem scannerLoop_eq {α : Type} (step : Int → Res) (rule : CursorRule) (rows : List (Row α))
    (p : α → Bool) (count : Option Nat) (view : Row α → Val)
    (hstep : ∀ c, scanResult (step c)
      = some (rule.next (page rows p c count), (page rows p c count).map view)) :
    ∀ (f : Nat) (c : Int),
      scannerLoop step f c = (iterateFrom rule rows p count f c).map view := by
  intro f
  induction f with
  | zero => intro c; rfl
  | succ f ih =>
    intro c
    simp only [scannerLoop, iterateFrom, hstep c]
    by_cases he : (page rows p c count).isEmpty = true
    · simp [he]
    · simp [he, ih]

theorem scannerLoop_iterate {α : Type} (step : Int → Res) (rule : CursorRule) (rows : List (Row α))
    (p : α → Bool) (count : Option Nat) (view : Row α → Val) (fuel : Nat)
    (hfuel : rows.length ≤ fuel)
    (hstep : ∀ c, scanResult (step c)
      = some (rule.next (page rows p c count), (page rows p c count).map view)) :
    scannerLoop step (fuel + 1) 0 = (iterate rule rows p count).map view := by
  rw [scannerLoop_eq step rule rows p count view hstep,
    iterate_eq_of_fuel rule rows p count (fuel + 1)
      (Nat.lt_succ_of_le (Nat.le_trans (List.length_filter_le _ _) hfuel))]

theorem scannerLoop_nothing (step : Int → Res) (fuel : Nat)
    (hstep : ∀ c, scanResult (step c) = some (0, [])) :
    scannerLoop step (fuel + 1) 0 = [] := by
  simp [scannerLoop, hstep]

theorem length_keyRows (db : DB) : (keyRows db).length = db.keys.length := by
  simp [keyRows, length_sortBy]

/-- `rkey.Scanner` is the abstract iteration over the key table in id order, last-row rule. -/
theorem keyScanner_eq (db : DB) (pat : Bytes) (ty pageSize now : Int) :
    keyScanner db pat ty pageSize now
      = (iterate .last (keyRows db) (keyPred pat ty now) (goCount pageSize)).map
          (fun r => keyVal r.val) := by
  unfold keyScanner
  apply scannerLoop_iterate _ .last
  · rw [length_keyRows]; exact Nat.le_refl _
  · intro c
    rw [keyScan_eq_page]
    rfl

theorem filter_map_view {β : Type} (idf : β → Int) (l : List β) (p : β → Bool) :
    (l.map (fun k => (⟨idf k, k⟩ : Row β))).filter (fun r => p r.val)
      = (l.filter p).map (fun k => ⟨idf k, k⟩) := by
  rw [List.filter_map]
  rfl

/-- `order by id` on a table with distinct positive ids -/
theorem keyRows_sorted (db : DB) (hnd : (db.keys.map (·.id)).Nodup)
    (hpos : ∀ r ∈ db.keys, 0 < r.id) : SortedById (keyRows db) := by
  constructor
  · unfold keyRows
    rw [List.pairwise_map]
    have := pairwise_sortBy KeyRow.id strictTotal_int db.keys hnd
    exact this.imp (fun h => by simpa using h)
  · intro r hr
    unfold keyRows at hr
    obtain ⟨k, hk, rfl⟩ := List.mem_map.1 hr
    exact hpos k ((mem_sortBy _ k _).1 hk)

theorem length_setRowsOf (db : DB) (kid : Int) : (setRowsOf db kid).length ≤ db.sets.length := by
  simp only [setRowsOf, setRows, List.length_map, length_sortBy]
  exact List.length_filter_le _ _

theorem length_hashRowsOf (db : DB) (kid : Int) : (hashRowsOf db kid).length ≤ db.hashes.length := by
  simp only [hashRowsOf, hashRows, List.length_map, length_sortBy]
  exact List.length_filter_le _ _

theorem length_zRowsOfBy (b : Bool) (db : DB) (kid : Int) :
    (zRowsOfBy b db kid).length ≤ db.zsets.length := by
  cases b <;>
    simp only [zRowsOfBy, zRows, List.length_map, length_sortBy, Bool.false_eq_true, if_false,
      if_true] <;> exact List.length_filter_le _ _

/-- `rset.Scanner` is the abstract iteration over the set's rows in ELEM order, max-rowid rule. -/
theorem setScanner_eq (db : DB) (k pat : Bytes) (pageSize now : Int) :
    setScanner db k pat pageSize now =
      match db.liveKeyT k TSet now with
      | none => []
      | some r => (iterate .max (setRowsOf db r.id) (fun x => Glob.sqliteGlob pat x.elem)
          (goCount pageSize)).map (fun x => .bytes x.val.elem) := by
  unfold setScanner
  cases hl : db.liveKeyT k TSet now with
  | none =>
    apply scannerLoop_nothing
    intro c; rw [setScan_eq_page, hl]; rfl
  | some r =>
    apply scannerLoop_iterate _ .max _ _ _ _ _ (length_setRowsOf db r.id)
    intro c; rw [setScan_eq_page, hl]; rfl

/-- `rhash.Scanner`: rows in FIELD order, max-rowid rule. -/
theorem hashScanner_eq (db : DB) (k pat : Bytes) (pageSize now : Int) :
    hashScanner db k pat pageSize now =
      match db.liveKeyT k THash now with
      | none => []
      | some r => (iterate .max (hashRowsOf db r.id) (fun x => Glob.sqliteGlob pat x.field)
          (goCount pageSize)).map (fun x => pairVal (x.val.field, x.val.value)) := by
  unfold hashScanner
  cases hl : db.liveKeyT k THash now with
  | none =>
    apply scannerLoop_nothing
    intro c; rw [hashScan_eq_page, hl]; rfl
  | some r =>
    apply scannerLoop_iterate _ .max _ _ _ _ _ (length_hashRowsOf db r.id)
    intro c; rw [hashScan_eq_page, hl]; rfl

theorem scannerLoop_error (step : Int → Res) (fuel : Nat)
    (hstep : ∀ c, scanResult (step c) = none) :
    scannerLoop step (fuel + 1) 0 = [] := by
  simp [scannerLoop, hstep]

/-- `rzset.Scanner`: rows in the pattern-dependent order, max-rowid rule; outside the modelled
patterns the first call errs and the scanner hands out nothing. -/
theorem zScanner_eq (db : DB) (k pat : Bytes) (pageSize now : Int) :
    zScanner db k pat pageSize now =
      match zScanByElem pat with
      | none => []
      | some b =>
        match db.liveKeyT k TZSet now with
        | none => []
        | some r => (iterate .max (zRowsOfBy b db r.id) (fun x => Glob.sqliteGlob pat x.elem)
            (goCount pageSize)).map (fun x => zItem x.val) := by
  unfold zScanner
  cases hb : zScanByElem pat with
  | none =>
    apply scannerLoop_error
    intro c; rw [zScan_eq_page, hb]; rfl
  | some b =>
    cases hl : db.liveKeyT k TZSet now with
    | none =>
      apply scannerLoop_nothing
      intro c; rw [zScan_eq_page, hb, hl]; rfl
    | some r =>
      apply scannerLoop_iterate _ .max _ _ _ _ _ (length_zRowsOfBy b db r.id)
      intro c; rw [zScan_eq_page, hb, hl]; rfl

/-- the `(kid, elem)` index order agrees with the rowid order: what inserting members in
ascending byte order produces -/
theorem setRowsOf_sorted (db : DB) (kid : Int)
    (hnd : ((db.sets.filter (fun x => x.kid == kid)).map (·.elem)).Nodup)
    (hpos : ∀ x ∈ db.sets, x.kid = kid → 0 < x.rowid)
    (hmono : ∀ x ∈ db.sets, ∀ y ∈ db.sets, x.kid = kid → y.kid = kid →
      bytesLt x.elem y.elem = true → x.rowid < y.rowid) :
    SortedById (setRowsOf db kid) := by
  have hmem : ∀ x, x ∈ setRows db kid → x ∈ db.sets ∧ x.kid = kid := by
    intro x hx
    have := (mem_sortBy _ x _).1 hx
    have := List.mem_filter.1 this
    exact ⟨this.1, by simpa using this.2⟩
  constructor
  · unfold setRowsOf
    rw [List.pairwise_map]
    have hp : (setRows db kid).Pairwise (fun a b => bytesLt a.elem b.elem = true) :=
      pairwise_sortBy SetRow.elem strictTotal_bytes _ hnd
    refine hp.imp_of_mem ?_
    intro a b ha hb hab
    exact hmono a (hmem a ha).1 b (hmem b hb).1 (hmem a ha).2 (hmem b hb).2 hab
  · intro r hr
    unfold setRowsOf at hr
    obtain ⟨x, hx, rfl⟩ := List.mem_map.1 hr
    exact hpos x (hmem x hx).1 (hmem x hx).2

/-! ### congruence in the predicate (to evaluate a scan without evaluating the glob matcher) -/

theorem page_congr {α : Type} (rows : List (Row α)) {p q : α → Bool}
    (h : ∀ r ∈ rows, p r.val = q r.val) (c : Int) (count : Option Nat) :
    page rows p c count = page rows q c count := by
  unfold page
  congr 1
  apply List.filter_congr
  intro r hr
  simp [sel, h r hr]

theorem iterate_congr {α : Type} (rule : CursorRule) (rows : List (Row α)) {p q : α → Bool}
    (h : ∀ r ∈ rows, p r.val = q r.val) (count : Option Nat) :
    iterate rule rows p count = iterate rule rows q count := by
  unfold iterate
  generalize rows.length + 1 = f
  generalize (0 : Int) = c
  induction f generalizing c with
  | zero => rfl
  | succ f ih => simp only [iterateFrom, page_congr rows h, ih]

/-! ### D10 on a concrete database -/

/-- `SADD s c`, `SADD s b`, `SADD s a`: rowids 1, 2, 3 in descending byte order of the members -/
def d10Key : KeyRow :=
  { id := 1, key := [115], ty := TSet, version := 3, etime := none, mtime := 0, len := some 3 }

def d10Db : DB :=
  { keys := [d10Key]
    sets := [{ rowid := 1, kid := 1, elem := [99] }, { rowid := 2, kid := 1, elem := [98] },
             { rowid := 3, kid := 1, elem := [97] }] }

/-- `SADD s a`, `SADD s b`, `SADD s c`: rowids follow the byte order of the members -/
def ascDb : DB :=
  { keys := [d10Key]
    sets := [{ rowid := 1, kid := 1, elem := [97] }, { rowid := 2, kid := 1, elem := [98] },
             { rowid := 3, kid := 1, elem := [99] }] }

theorem d10Db_rows :
    setRowsOf d10Db 1 = [⟨3, { rowid := 3, kid := 1, elem := [97] }⟩,
                         ⟨2, { rowid := 2, kid := 1, elem := [98] }⟩,
                         ⟨1, { rowid := 1, kid := 1, elem := [99] }⟩] := by decide

theorem glob_star_abc : ∀ r ∈ setRowsOf d10Db 1,
    Glob.sqliteGlob [42] r.val.elem = (fun _ : SetRow => true) r.val := by
  intro r hr
  rw [d10Db_rows] at hr
  simp only [List.mem_cons, List.not_mem_nil, or_false] at hr
  rcases hr with rfl | rfl | rfl <;>
    simp [Glob.sqliteGlob, Glob.parsePat, Glob.parsePatF, Glob.decode, Glob.matchToks, Glob.cstr,
      Glob.cSTAR]

/-- `SSCAN s 0 MATCH * COUNT 1` iterated to the end hands out `a` only. -/
theorem setScanner_d10 : setScanner d10Db [115] [42] 1 0 = [.bytes [97]] := by
  rw [setScanner_eq]
  have hl : d10Db.liveKeyT [115] TSet 0 = some d10Key := by decide
  rw [hl]
  have hid : d10Key.id = 1 := rfl
  simp only [hid]
  rw [iterate_congr .max (setRowsOf d10Db 1) (p := fun x : SetRow => Glob.sqliteGlob [42] x.elem)
    (q := fun _ => true) glob_star_abc (goCount 1), d10Db_rows]
  rfl

/-! ### the same defect on a sorted set -/

def d10ZKey : KeyRow :=
  { id := 1, key := [122], ty := TZSet, version := 3, etime := none, mtime := 0, len := some 3 }

/-- `ZADD z 3 a`, `ZADD z 2 b`, `ZADD z 1 c`: rowids 1, 2, 3 follow the byte order of the members,
but the (score, elem) order of the covering index is the reverse -/
def d10ZDb : DB :=
  { keys := [d10ZKey]
    zsets := [{ rowid := 1, kid := 1, elem := [97], score := .fin 3 },
              { rowid := 2, kid := 1, elem := [98], score := .fin 2 },
              { rowid := 3, kid := 1, elem := [99], score := .fin 1 }] }

theorem d10ZDb_rows :
    zRowsOfBy false d10ZDb 1 = [⟨3, { rowid := 3, kid := 1, elem := [99], score := .fin 1 }⟩,
                        ⟨2, { rowid := 2, kid := 1, elem := [98], score := .fin 2 }⟩,
                        ⟨1, { rowid := 1, kid := 1, elem := [97], score := .fin 3 }⟩] := by decide

theorem glob_star_zabc : ∀ r ∈ zRowsOfBy false d10ZDb 1,
    Glob.sqliteGlob [42] r.val.elem = (fun _ : ZRow => true) r.val := by
  intro r hr
  rw [d10ZDb_rows] at hr
  simp only [List.mem_cons, List.not_mem_nil, or_false] at hr
  rcases hr with rfl | rfl | rfl <;>
    simp [Glob.sqliteGlob, Glob.parsePat, Glob.parsePatF, Glob.decode, Glob.matchToks, Glob.cstr,
      Glob.cSTAR]

/-- `ZSCAN z 0 MATCH * COUNT 1` iterated to the end hands out `c` (score 1) only. -/
theorem zScanner_d10 : zScanner d10ZDb [122] [42] 1 0 = [zItem { rowid := 3, kid := 1, elem := [99], score := .fin 1 }] := by
  rw [zScanner_eq]
  have hb : zScanByElem [42] = some false := by decide
  have hl : d10ZDb.liveKeyT [122] TZSet 0 = some d10ZKey := by decide
  rw [hb, hl]
  have hid : d10ZKey.id = 1 := rfl
  simp only [hid]
  rw [iterate_congr .max (zRowsOfBy false d10ZDb 1) (p := fun x : ZRow => Glob.sqliteGlob [42] x.elem)
    (q := fun _ => true) glob_star_zabc (goCount 1), d10ZDb_rows]
  rfl

/-- `ZADD z 1 mc`, `ZADD z 2 mb`, `ZADD z 3 ma`: rowids 1, 2, 3 follow the (score, elem) order,
but the member-byte order, which a pattern with a literal prefix selects, is the reverse -/
def d10ZDbPrefix : DB :=
  { keys := [d10ZKey]
    zsets := [{ rowid := 1, kid := 1, elem := [109, 99], score := .fin 1 },
              { rowid := 2, kid := 1, elem := [109, 98], score := .fin 2 },
              { rowid := 3, kid := 1, elem := [109, 97], score := .fin 3 }] }

theorem d10ZDbPrefix_rows :
    zRowsOfBy true d10ZDbPrefix 1
      = [⟨3, { rowid := 3, kid := 1, elem := [109, 97], score := .fin 3 }⟩,
         ⟨2, { rowid := 2, kid := 1, elem := [109, 98], score := .fin 2 }⟩,
         ⟨1, { rowid := 1, kid := 1, elem := [109, 99], score := .fin 1 }⟩] := by decide

theorem glob_mstar : ∀ r ∈ zRowsOfBy true d10ZDbPrefix 1,
    Glob.sqliteGlob [109, 42] r.val.elem = (fun _ : ZRow => true) r.val := by
  intro r hr
  rw [d10ZDbPrefix_rows] at hr
  simp only [List.mem_cons, List.not_mem_nil, or_false] at hr
  rcases hr with rfl | rfl | rfl <;>
    simp [Glob.sqliteGlob, Glob.parsePat, Glob.parsePatF, Glob.decode, Glob.matchToks, Glob.cstr,
      Glob.cSTAR, Glob.cQM, Glob.cLB]

/-- `ZSCAN z 0 MATCH m* COUNT 1` iterated to the end hands out `ma` only. -/
theorem zScanner_d10_prefix :
    zScanner d10ZDbPrefix [122] [109, 42] 1 0
      = [zItem { rowid := 3, kid := 1, elem := [109, 97], score := .fin 3 }] := by
  rw [zScanner_eq]
  have hb : zScanByElem [109, 42] = some true := by decide
  have hl : d10ZDbPrefix.liveKeyT [122] TZSet 0 = some d10ZKey := by decide
  rw [hb, hl]
  have hid : d10ZKey.id = 1 := rfl
  simp only [hid]
  rw [iterate_congr .max (zRowsOfBy true d10ZDbPrefix 1)
    (p := fun x : ZRow => Glob.sqliteGlob [109, 42] x.elem) (q := fun _ => true) glob_mstar
    (goCount 1), d10ZDbPrefix_rows]
  rfl

end Redka.Scan
