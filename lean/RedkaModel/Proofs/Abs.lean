/-
  Lemma library relating table updates of the Model to the abstraction map `Spec.abs`.

  Plan of every refinement proof built on it: both `abs now db'` and the specification's state are
  strictly sorted association lists (`Sorted`), so they are equal as soon as they agree pointwise
  (`sorted_ext`); `get_abs` reads the abstraction pointwise from the key row stored under a name
  (`DB.findKey`), and the `findKey_*` / `absVal_*` lemmas say what a statement does to that.
-/
import RedkaModel.Spec.Abs
import RedkaModel.Model.Inv
import RedkaModel.Proofs.ScanInst

namespace Redka.Spec

open Redka Redka.Scan

/-! ### strictly sorted association lists -/

section assoc
variable {β : Type}

/-- strictly increasing by key (`memcmp` order) -/
def Sorted (m : List (Bytes × β)) : Prop := m.Pairwise (fun a b => bytesLt a.1 b.1 = true)

theorem aget_nil (k : Bytes) : aget ([] : List (Bytes × β)) k = none := rfl

theorem aget_cons (k' : Bytes) (v : β) (m : List (Bytes × β)) (k : Bytes) :
    aget ((k', v) :: m) k = if k' == k then some v else aget m k := by
  simp only [aget, List.find?_cons]
  split <;> simp_all

theorem aget_eq_none_iff (m : List (Bytes × β)) (k : Bytes) :
    aget m k = none ↔ ∀ p ∈ m, p.1 ≠ k := by
  simp [aget]

theorem mem_of_aget_eq_some {m : List (Bytes × β)} {k : Bytes} {v : β} (h : aget m k = some v) :
    (k, v) ∈ m := by
  induction m with
  | nil => simp [aget] at h
  | cons p m ih =>
    obtain ⟨k', v'⟩ := p
    rw [aget_cons] at h
    split at h
    · rename_i hk
      have hk : k' = k := by simpa using hk
      cases h; subst hk; simp
    · exact List.mem_cons_of_mem _ (ih h)

/-- with pairwise different keys, `aget` is membership -/
theorem aget_eq_some_iff {m : List (Bytes × β)} (hnd : (m.map (·.1)).Nodup) (k : Bytes) (v : β) :
    aget m k = some v ↔ (k, v) ∈ m := by
  refine ⟨mem_of_aget_eq_some, ?_⟩
  induction m with
  | nil => simp
  | cons p m ih =>
    obtain ⟨k', v'⟩ := p
    have hnd' : k' ∉ m.map (·.1) ∧ (m.map (·.1)).Nodup := by
      rw [List.map_cons] at hnd; exact List.nodup_cons.1 hnd
    intro h
    rw [aget_cons]
    rcases List.mem_cons.1 h with h | h
    · cases h; simp
    · have hne : ¬ (k' == k) = true := by
        intro hk
        have hk : k' = k := by simpa using hk
        exact hnd'.1 (List.mem_map.2 ⟨(k, v), h, hk.symm⟩)
      rw [if_neg hne]
      exact ih hnd'.2 h

theorem Sorted.nodup_keys {m : List (Bytes × β)} (h : Sorted m) : (m.map (·.1)).Nodup := by
  unfold List.Nodup
  rw [List.pairwise_map]
  refine List.Pairwise.imp ?_ h
  intro a b hab heq
  rw [heq, bytesLt_irrefl] at hab
  cases hab

theorem Sorted.tail {p : Bytes × β} {m : List (Bytes × β)} (h : Sorted (p :: m)) : Sorted m :=
  (List.pairwise_cons.1 h).2

theorem Sorted.head_lt {p : Bytes × β} {m : List (Bytes × β)} (h : Sorted (p :: m)) :
    ∀ q ∈ m, bytesLt p.1 q.1 = true :=
  (List.pairwise_cons.1 h).1

theorem Sorted.aget_head_tail {k : Bytes} {v : β} {m : List (Bytes × β)} (h : Sorted ((k, v) :: m)) :
    aget m k = none := by
  rw [aget_eq_none_iff]
  intro q hq heq
  have := h.head_lt q hq
  simp only [heq, bytesLt_irrefl] at this
  cases this

/-- Two strictly sorted association lists that answer every lookup alike are the same list. -/
theorem sorted_ext : ∀ {a b : List (Bytes × β)}, Sorted a → Sorted b →
    (∀ k, aget a k = aget b k) → a = b
  | [], [], _, _, _ => rfl
  | [], (k, v) :: b, _, _, h => by
    have := h k
    simp [aget_cons, aget_nil] at this
  | (k, v) :: a, [], _, _, h => by
    have := h k
    simp [aget_cons, aget_nil] at this
  | (k1, v1) :: a, (k2, v2) :: b, ha, hb, h => by
    have h1 := h k1
    have h2 := h k2
    simp only [aget_cons, beq_self_eq_true, if_true] at h1 h2
    by_cases hk : k1 = k2
    · subst hk
      simp only [beq_self_eq_true, if_true] at h1
      cases h1
      have htl : ∀ k, aget a k = aget b k := by
        intro k
        by_cases hkk : k1 = k
        · subst hkk; rw [ha.aget_head_tail, hb.aget_head_tail]
        · have := h k
          simpa [aget_cons, hkk] using this
      rw [sorted_ext ha.tail hb.tail htl]
    · exfalso
      have hk' : ¬ (k2 == k1) = true := by simpa using fun h => hk h.symm
      have hk'' : ¬ (k1 == k2) = true := by simpa using hk
      rw [if_neg hk'] at h1
      rw [if_neg hk''] at h2
      have m1 := hb.head_lt _ (mem_of_aget_eq_some h1.symm)
      have m2 := ha.head_lt _ (mem_of_aget_eq_some h2)
      have := bytesLt_trans _ _ _ m1 m2
      simp only [bytesLt_irrefl] at this
      cases this

/-- lookup after `aput` (no sortedness needed) -/
theorem aget_aput (m : List (Bytes × β)) (k : Bytes) (v : β) (k' : Bytes) :
    aget (aput m k v) k' = if k == k' then some v else aget m k' := by
  induction m with
  | nil => simp [aput, aget_cons, aget_nil]
  | cons p m ih =>
    obtain ⟨k1, v1⟩ := p
    simp only [aput]
    split
    · rename_i hk
      have hk : k = k1 := by simpa using hk
      subst hk
      simp only [aget_cons]
      split <;> rfl
    · rename_i hk
      have hk : ¬ k = k1 := by simpa using hk
      split
      · simp only [aget_cons]
      · simp only [aget_cons, ih]
        by_cases h1 : k1 = k'
        · subst h1; simp [hk]
        · simp [h1]

theorem mem_aput {m : List (Bytes × β)} {k : Bytes} {v : β} {p : Bytes × β}
    (h : p ∈ aput m k v) : p = (k, v) ∨ p ∈ m := by
  induction m with
  | nil => simpa [aput] using h
  | cons q m ih =>
    obtain ⟨k1, v1⟩ := q
    simp only [aput] at h
    split at h
    · rcases List.mem_cons.1 h with h | h
      · exact Or.inl h
      · exact Or.inr (List.mem_cons_of_mem _ h)
    · split at h
      · rcases List.mem_cons.1 h with h | h
        · exact Or.inl h
        · exact Or.inr h
      · rcases List.mem_cons.1 h with h | h
        · exact Or.inr (h ▸ List.mem_cons_self)
        · rcases ih h with h | h
          · exact Or.inl h
          · exact Or.inr (List.mem_cons_of_mem _ h)

/-- `aput` keeps a strictly sorted list strictly sorted -/
theorem Sorted.aput {m : List (Bytes × β)} (h : Sorted m) (k : Bytes) (v : β) :
    Sorted (aput m k v) := by
  induction m with
  | nil => simp [Spec.aput, Sorted]
  | cons q m ih =>
    obtain ⟨k1, v1⟩ := q
    simp only [Spec.aput]
    split
    · rename_i hk
      have hk : k = k1 := by simpa using hk
      subst hk
      exact List.Pairwise.cons (fun q hq => h.head_lt q hq) h.tail
    · rename_i hk
      split
      · rename_i hlt
        refine List.Pairwise.cons ?_ h
        intro q hq
        rcases List.mem_cons.1 hq with rfl | hq
        · exact hlt
        · exact bytesLt_trans _ _ _ hlt (h.head_lt q hq)
      · rename_i hlt
        have hgt : bytesLt k1 k = true := by
          cases hc : bytesLt k1 k with
          | true => rfl
          | false =>
            have := bytesLt_connected k k1 (by simpa using hlt) hc
            simp [this] at hk
        refine List.Pairwise.cons ?_ (ih h.tail)
        intro q hq
        rcases mem_aput hq with rfl | hq
        · exact hgt
        · exact h.head_lt q hq

theorem Sorted.filter {m : List (Bytes × β)} (h : Sorted m) (q : Bytes × β → Bool) :
    Sorted (m.filter q) :=
  List.Pairwise.filter _ h

/-- lookup in a filtered strictly sorted list -/
theorem aget_filter {m : List (Bytes × β)} (h : Sorted m) (q : Bytes × β → Bool) (k : Bytes) :
    aget (m.filter q) k = (aget m k).bind (fun v => if q (k, v) then some v else none) := by
  induction m with
  | nil => simp [aget_nil]
  | cons p m ih =>
    obtain ⟨k1, v1⟩ := p
    rw [aget_cons, List.filter_cons]
    by_cases hk : k1 = k
    · subst hk
      simp only [beq_self_eq_true, if_true, Option.bind_some]
      split
      · simp [aget_cons]
      · rw [ih h.tail, h.aget_head_tail]; rfl
    · have hk' : ¬ (k1 == k) = true := by simpa using hk
      rw [if_neg hk']
      split
      · rw [aget_cons, if_neg hk', ih h.tail]
      · exact ih h.tail

/-- lookup after `adel` (no sortedness needed) -/
theorem aget_adel (m : List (Bytes × β)) (k k' : Bytes) :
    aget (adel m k) k' = if k == k' then none else aget m k' := by
  induction m with
  | nil => simp [adel, aget_nil]
  | cons p m ih =>
    obtain ⟨k1, v1⟩ := p
    simp only [adel] at ih ⊢
    rw [List.filter_cons]
    by_cases h1 : k1 = k
    · subst h1
      simp only [beq_self_eq_true, Bool.not_true, Bool.false_eq_true, if_false, ih, aget_cons]
      split <;> rfl
    · have : (!(k1 == k)) = true := by simpa using h1
      rw [if_pos this, aget_cons, aget_cons, ih]
      by_cases h2 : k1 = k'
      · subst h2
        have : ¬ (k == k1) = true := by simpa using fun h => h1 h.symm
        simp [this]
      · simp [h2]

theorem Sorted.adel {m : List (Bytes × β)} (h : Sorted m) (k : Bytes) : Sorted (adel m k) :=
  List.Pairwise.filter _ h

/-- lookup in the image of a list of rows with pairwise different names under a partial,
name-preserving map -/
theorem aget_filterMap_key {α : Type} (key : α → Bytes) (g : α → Option β) :
    ∀ (l : List α), (l.map key).Nodup → ∀ k,
      aget (l.filterMap (fun a => (g a).map (fun v => (key a, v)))) k
        = (l.find? (fun a => key a == k)).bind g
  | [], _, _ => rfl
  | a :: l, hnd, k => by
    have hnd' : key a ∉ l.map key ∧ (l.map key).Nodup := by
      rw [List.map_cons] at hnd; exact List.nodup_cons.1 hnd
    have ih := aget_filterMap_key key g l hnd'.2 k
    rw [List.find?_cons]
    by_cases hk : key a = k
    · have hnone : l.find? (fun a => key a == k) = none := by
        rw [List.find?_eq_none]
        intro x hx hxk
        have hxk : key x = k := by simpa using hxk
        exact hnd'.1 (List.mem_map.2 ⟨x, hx, by rw [hxk, hk]⟩)
      simp only [hk, beq_self_eq_true, Option.bind_some]
      cases hg : g a with
      | none => simp [hg, ih, hnone]
      | some v => simp [hg, aget_cons, hk]
    · have hk' : (key a == k) = false := by simpa using hk
      simp only [hk']
      cases hg : g a with
      | none => simp [hg, ih]
      | some v => simp [hg, aget_cons, hk, ih]

theorem keys_filterMap_sublist {α : Type} (key : α → Bytes) (g : α → Option β) :
    ∀ (l : List α),
      ((l.filterMap (fun a => (g a).map (fun v => (key a, v)))).map (·.1)).Sublist (l.map key)
  | [] => by simp
  | a :: l => by
    have ih := keys_filterMap_sublist key g l
    cases hg : g a with
    | none => simpa [List.filterMap_cons, hg] using ih.cons (key a)
    | some v => simpa [List.filterMap_cons, hg] using ih.cons_cons (key a)

theorem find?_key_eq_aget (m : List (Bytes × β)) (k : Bytes) :
    m.find? (fun p => p.1 == k) = (aget m k).map (fun v => (k, v)) := by
  unfold aget
  cases h : m.find? (fun p => p.1 == k) with
  | none => rfl
  | some p =>
    have : p.1 = k := by simpa using List.find?_some h
    simp [← this]

theorem find?_filter' {α : Type} (q p : α → Bool) : ∀ (l : List α),
    (l.filter q).find? p = l.find? (fun a => p a && q a)
  | [] => rfl
  | a :: l => by
    rw [List.filter_cons, List.find?_cons]
    cases hq : q a with
    | true =>
      simp only [if_true, Bool.and_true]
      rw [List.find?_cons, find?_filter' q p l]
    | false =>
      simp only [Bool.false_eq_true, if_false, Bool.and_false]
      exact find?_filter' q p l

/-- a partial map that keeps the key keeps a strictly sorted list strictly sorted -/
theorem Sorted.filterMap {γ : Type} {m : List (Bytes × β)} (h : Sorted m)
    (g : Bytes × β → Option (Bytes × γ)) (hg : ∀ p q, g p = some q → q.1 = p.1) :
    Sorted (m.filterMap g) := by
  refine List.Pairwise.filterMap g ?_ h
  intro a a' haa b hb b' hb'
  rw [hg a b hb, hg a' b' hb']
  exact haa

/-- sorting a list with pairwise different keys does not change lookups -/
theorem aget_sortBy {l : List (Bytes × β)} (hnd : (l.map (·.1)).Nodup) (k : Bytes) :
    aget (sortBy (fun a b => bytesLt a.1 b.1) l) k = aget l k := by
  have hs : Sorted (sortBy (fun a b => bytesLt a.1 b.1) l) :=
    pairwise_sortBy (fun p : Bytes × β => p.1) strictTotal_bytes l hnd
  apply Option.ext
  intro v
  rw [aget_eq_some_iff hs.nodup_keys, aget_eq_some_iff hnd, mem_sortBy]

theorem sorted_sortBy {l : List (Bytes × β)} (hnd : (l.map (·.1)).Nodup) :
    Sorted (sortBy (fun a b => bytesLt a.1 b.1) l) :=
  pairwise_sortBy (fun p : Bytes × β => p.1) strictTotal_bytes l hnd

end assoc

/-! ### state-level wrappers -/

theorem get_put (s : State) (k : Bytes) (e : Entry) (k' : Bytes) :
    get (put s k e) k' = if k == k' then some e else get s k' := aget_aput s k e k'

theorem get_del (s : State) (k k' : Bytes) :
    get (del s k) k' = if k == k' then none else get s k' := aget_adel s k k'

theorem Sorted.put {s : State} (h : Sorted s) (k : Bytes) (e : Entry) : Sorted (put s k e) :=
  Sorted.aput h k e

theorem Sorted.del {s : State} (h : Sorted s) (k : Bytes) : Sorted (del s k) := Sorted.adel h k

theorem Sorted.purge {s : State} (h : Sorted s) (now : Int) : Sorted (purge now s) :=
  Sorted.filter h _

theorem get_purge {s : State} (h : Sorted s) (now : Int) (k : Bytes) :
    get (purge now s) k = (get s k).bind (fun e => if liveAt now e.etime then some e else none) :=
  aget_filter h _ k

/-! ### what the invariant gives (extracted once) -/

end Redka.Spec

namespace Redka

open Redka.Scan

theorem inj_of_nodup_map {α β : Type} (f : α → β) : ∀ (l : List α), (l.map f).Nodup →
    ∀ a ∈ l, ∀ b ∈ l, f a = f b → a = b
  | [], _, _, h, _, _, _ => by cases h
  | x :: l, hnd, a, ha, b, hb, hab => by
    have hnd' : f x ∉ l.map f ∧ (l.map f).Nodup := by
      rw [List.map_cons] at hnd; exact List.nodup_cons.1 hnd
    rcases List.mem_cons.1 ha with h1 | h1 <;> rcases List.mem_cons.1 hb with h2 | h2
    · rw [h1, h2]
    · exact absurd (h1 ▸ hab ▸ List.mem_map.2 ⟨b, h2, rfl⟩) hnd'.1
    · exact absurd (h2 ▸ hab ▸ List.mem_map.2 ⟨a, h1, rfl⟩) hnd'.1
    · exact inj_of_nodup_map f l hnd'.2 a h1 b h2 hab

theorem nodupB_iff {α} [DecidableEq α] : ∀ (l : List α), nodupB l = true ↔ l.Nodup
  | [] => by simp [nodupB]
  | x :: xs => by simp [nodupB, nodupB_iff xs]

namespace DB

/-- The part of the C11 audit (`DB.invB`) that the refinement proofs use. -/
structure WF (db : DB) : Prop where
  /-- key names are unique -/
  names : (db.keys.map (·.key)).Nodup
  /-- key ids are unique -/
  ids : (db.keys.map (·.id)).Nodup
  /-- every type tag is one of the five -/
  tyOk : ∀ r ∈ db.keys, 1 ≤ r.ty ∧ r.ty ≤ 5
  /-- every string key has a value row -/
  strRow : ∀ r ∈ db.keys, r.ty = TString → ∃ s ∈ db.strs, s.kid = r.id
  /-- at most one value row per key id -/
  strKids : (db.strs.map (·.kid)).Nodup

theorem Inv.wf {db : DB} (h : db.Inv) : db.WF := by
  unfold Inv invB at h
  simp only [Bool.and_eq_true] at h
  obtain ⟨⟨hk, _⟩, hu⟩ := h
  unfold uniqueOk at hu
  simp only [Bool.and_eq_true, nodupB_iff] at hu
  unfold keysOk at hk
  rw [List.all_eq_true] at hk
  refine ⟨hu.1.1.1.1.1.1.1.1.2, hu.1.1.1.1.1.1.1.1.1, ?_, ?_, hu.1.1.1.1.1.1.1.2⟩
  · intro r hr
    have := hk r hr
    simp only [Bool.and_eq_true, decide_eq_true_eq] at this
    exact this.1
  · intro r hr hty
    have := hk r hr
    simp only [Bool.and_eq_true, decide_eq_true_eq] at this
    have h2 := this.2
    rw [if_pos (by simp [hty])] at h2
    simp only [Bool.and_eq_true, beq_iff_eq] at h2
    have hpos : 0 < (db.strs.filter (fun s => s.kid == r.id)).length := by omega
    obtain ⟨s, hs⟩ := List.exists_mem_of_length_pos hpos
    have := List.mem_filter.1 hs
    exact ⟨s, this.1, by simpa using this.2⟩

/-! ### lookups by name under unique names -/

theorem findKey_mem {db : DB} {k : Bytes} {r : KeyRow} (h : db.findKey k = some r) :
    r ∈ db.keys ∧ r.key = k := by
  unfold findKey at h
  exact ⟨List.mem_of_find?_eq_some h, by simpa using List.find?_some h⟩

theorem findKey_eq_none {db : DB} {k : Bytes} : db.findKey k = none ↔ ∀ r ∈ db.keys, r.key ≠ k := by
  simp [findKey]

private theorem find?_key_of_mem : ∀ (l : List KeyRow), (l.map (·.key)).Nodup → ∀ r ∈ l,
    l.find? (fun x => x.key == r.key) = some r
  | [], _, _, h => by cases h
  | x :: l, hnd, r, h => by
    have hnd' : x.key ∉ l.map (·.key) ∧ (l.map (·.key)).Nodup := by
      rw [List.map_cons] at hnd; exact List.nodup_cons.1 hnd
    rw [List.find?_cons]
    rcases List.mem_cons.1 h with rfl | h
    · simp
    · have : (x.key == r.key) = false := by
        simpa using fun he : x.key = r.key => hnd'.1 (he ▸ List.mem_map.2 ⟨r, h, rfl⟩)
      simp only [this]
      exact find?_key_of_mem l hnd'.2 r h

theorem findKey_of_mem {db : DB} (hn : (db.keys.map (·.key)).Nodup) {r : KeyRow} (h : r ∈ db.keys) :
    db.findKey r.key = some r := find?_key_of_mem db.keys hn r h

theorem findKey_eq_some_iff {db : DB} (hn : (db.keys.map (·.key)).Nodup) {k : Bytes} {r : KeyRow} :
    db.findKey k = some r ↔ r ∈ db.keys ∧ r.key = k :=
  ⟨findKey_mem, fun ⟨h, hk⟩ => hk ▸ findKey_of_mem hn h⟩

/-- a lookup with an extra condition is the plain lookup by name, filtered -/
theorem find?_key_and : ∀ (l : List KeyRow), (l.map (·.key)).Nodup → ∀ (k : Bytes)
    (q : KeyRow → Bool),
    l.find? (fun r => r.key == k && q r) = (l.find? (fun r => r.key == k)).filter q
  | [], _, _, _ => rfl
  | x :: l, hnd, k, q => by
    have hnd' : x.key ∉ l.map (·.key) ∧ (l.map (·.key)).Nodup := by
      rw [List.map_cons] at hnd; exact List.nodup_cons.1 hnd
    rw [List.find?_cons, List.find?_cons]
    by_cases hk : x.key = k
    · subst hk
      simp only [beq_self_eq_true, Bool.true_and]
      cases hq : q x with
      | true => simp [Option.filter, hq]
      | false =>
        have : l.find? (fun r => r.key == x.key && q r) = none := by
          rw [List.find?_eq_none]
          intro y hy hc
          simp only [Bool.and_eq_true, beq_iff_eq] at hc
          exact hnd'.1 (hc.1 ▸ List.mem_map.2 ⟨y, hy, rfl⟩)
        simp [Option.filter, hq, this]
    · have : (x.key == k) = false := by simpa using hk
      simp only [this, Bool.false_and]
      exact find?_key_and l hnd'.2 k q

theorem liveKey_eq {db : DB} (hn : (db.keys.map (·.key)).Nodup) (k : Bytes) (now : Int) :
    db.liveKey k now = (db.findKey k).filter (fun r => r.live now) :=
  find?_key_and db.keys hn k _

theorem liveKeyT_eq {db : DB} (hn : (db.keys.map (·.key)).Nodup) (k : Bytes) (ty now : Int) :
    db.liveKeyT k ty now = (db.findKey k).filter (fun r => r.ty == ty && r.live now) := by
  unfold liveKeyT findKey
  rw [← find?_key_and db.keys hn k]
  congr 1
  funext r
  rw [Bool.and_assoc]

theorem id_inj {db : DB} (hi : (db.keys.map (·.id)).Nodup) {a b : KeyRow}
    (ha : a ∈ db.keys) (hb : b ∈ db.keys) (h : a.id = b.id) : a = b :=
  inj_of_nodup_map _ _ hi a ha b hb h

theorem key_inj {db : DB} (hn : (db.keys.map (·.key)).Nodup) {a b : KeyRow}
    (ha : a ∈ db.keys) (hb : b ∈ db.keys) (h : a.key = b.key) : a = b :=
  inj_of_nodup_map _ _ hn a ha b hb h

/-- the next rowid is not in use -/
theorem nextKeyId_fresh (db : DB) : ∀ r ∈ db.keys, r.id ≠ db.nextKeyId := by
  intro r hr he
  have := le_maxD 0 (db.keys.map (·.id)) r.id (List.mem_map.2 ⟨r, hr, rfl⟩)
  unfold nextKeyId at he
  omega

end DB
end Redka

/-! ### the abstraction, pointwise -/

namespace Redka.Spec

open Redka Redka.Scan

/-- the entry a stored key row stands for at `now`: nothing when it has expired -/
def rowEntry (now : Int) (db : DB) (r : KeyRow) : Option Entry :=
  if r.live now then (absVal db r).map (fun v => ⟨v, r.etime⟩) else none

theorem filterMap_filter' {α γ : Type} (p : α → Bool) (f : α → Option γ) : ∀ (l : List α),
    (l.filter p).filterMap f = l.filterMap (fun x => if p x then f x else none)
  | [] => rfl
  | x :: l => by
    rw [List.filter_cons, List.filterMap_cons]
    cases hp : p x with
    | true => simp only [if_true]; rw [List.filterMap_cons, filterMap_filter' p f l]
    | false => simp only [Bool.false_eq_true, if_false]; exact filterMap_filter' p f l

theorem abs_eq (now : Int) (db : DB) :
    abs now db = sortBy (fun a b => bytesLt a.1 b.1)
      (db.keys.filterMap (fun r => (rowEntry now db r).map (fun e => (r.key, e)))) := by
  unfold abs
  simp only
  rw [filterMap_filter']
  congr 2
  funext r
  unfold rowEntry
  split <;> simp [Option.map_map, Function.comp_def]

theorem abs_keys_nodup {db : DB} (hn : (db.keys.map (·.key)).Nodup) (now : Int) :
    ((db.keys.filterMap (fun r => (rowEntry now db r).map (fun e => (r.key, e)))).map (·.1)).Nodup :=
  List.Nodup.sublist (keys_filterMap_sublist (·.key) (rowEntry now db) db.keys) hn

/-- with unique key names the abstraction is a strictly sorted list -/
theorem sorted_abs {db : DB} (hn : (db.keys.map (·.key)).Nodup) (now : Int) : Sorted (abs now db) := by
  rw [abs_eq]
  exact sorted_sortBy (abs_keys_nodup hn now)

/-- the abstraction read pointwise: look the name up in `rkey` (no guard), then apply the guard -/
theorem get_abs {db : DB} (hn : (db.keys.map (·.key)).Nodup) (now : Int) (k : Bytes) :
    get (abs now db) k = (db.findKey k).bind (rowEntry now db) := by
  rw [abs_eq]
  unfold get
  rw [aget_sortBy (abs_keys_nodup hn now), aget_filterMap_key (·.key) (rowEntry now db) db.keys hn]
  rfl

theorem rowEntry_live {now : Int} {db : DB} {r : KeyRow} {e : Entry} (h : rowEntry now db r = some e) :
    liveAt now e.etime = true ∧ e.etime = r.etime ∧ absVal db r = some e.val := by
  unfold rowEntry at h
  split at h
  · rename_i hl
    cases hv : absVal db r with
    | none => simp [hv] at h
    | some v =>
      simp only [hv, Option.map_some, Option.some.injEq] at h
      subst h
      exact ⟨hl, rfl, rfl⟩
  · cases h

/-- every entry of the abstraction is live, so purging it changes nothing -/
theorem purge_abs {db : DB} (hn : (db.keys.map (·.key)).Nodup) (now : Int) :
    purge now (abs now db) = abs now db := by
  apply sorted_ext ((sorted_abs hn now).purge now) (sorted_abs hn now)
  intro k
  have := get_purge (sorted_abs hn now) now k
  unfold get at this
  rw [this]
  have hg := get_abs hn now k
  unfold get at hg
  rw [hg]
  cases hf : db.findKey k with
  | none => rfl
  | some r =>
    simp only [Option.bind_some]
    cases he : rowEntry now db r with
    | none => rfl
    | some e => simp [(rowEntry_live he).1]

/-- putting an entry that is still live into a keyspace without expired entries leaves none -/
theorem purge_put_live {s : State} (hs : Sorted s) {now : Int} (hp : purge now s = s) (k : Bytes)
    {e : Entry} (he : liveAt now e.etime = true) : purge now (put s k e) = put s k e := by
  apply sorted_ext ((hs.put k e).purge now) (hs.put k e)
  intro k'
  have h1 := get_purge (hs.put k e) now k'
  have h2 := get_purge hs now k'
  rw [hp] at h2
  unfold get at h1 h2
  rw [h1]
  have h3 := get_put s k e k'
  unfold get at h3
  rw [h3]
  by_cases hk : k = k'
  · simp [hk, he]
  · have : (k == k') = false := by simpa using hk
    simp only [this, Bool.false_eq_true, if_false]
    exact h2.symm

/-- As the clock advances the abstraction only loses the keys that have expired meanwhile. -/
theorem abs_mono {db : DB} (hn : (db.keys.map (·.key)).Nodup) {now now' : Int} (h : now ≤ now') :
    abs now' db = purge now' (abs now db) := by
  apply sorted_ext (sorted_abs hn now') ((sorted_abs hn now).purge now')
  intro k
  have h1 := get_abs hn now' k
  have h2 := get_purge (sorted_abs hn now) now' k
  have h3 := get_abs hn now k
  unfold get at h1 h2 h3
  rw [h1, h2, h3]
  cases hf : db.findKey k with
  | none => rfl
  | some r =>
    simp only [Option.bind_some, rowEntry]
    have hmono : r.live now' = true → r.live now = true := by
      unfold KeyRow.live liveAt
      cases r.etime with
      | none => intro _; rfl
      | some t =>
        intro h'
        have h' : t > now' := of_decide_eq_true h'
        exact decide_eq_true (by omega)
    by_cases h1 : r.live now' = true
    · rw [if_pos h1, if_pos (hmono h1)]
      have h1' : liveAt now' r.etime = true := h1
      cases absVal db r with
      | none => rfl
      | some v => simp [h1']
    · rw [if_neg h1]
      have h1' : ¬ liveAt now' r.etime = true := h1
      by_cases h2 : r.live now = true
      · rw [if_pos h2]
        cases absVal db r with
        | none => rfl
        | some v => simp [h1']
      · rw [if_neg h2]; rfl

/-- two databases with unique names and the same pointwise reading have the same abstraction -/
theorem abs_ext {db' : DB} (hn' : (db'.keys.map (·.key)).Nodup)
    {now : Int} {s : State} (hs : Sorted s)
    (h : ∀ k, (db'.findKey k).bind (rowEntry now db') = get s k) : abs now db' = s := by
  apply sorted_ext (sorted_abs hn' now) hs
  intro k
  have := get_abs hn' now k
  unfold get at this h
  rw [this, h]

/-! ### typed values of a row -/

theorem absVal_str {db : DB} {r : KeyRow} (h : r.ty = TString) :
    absVal db r = (db.strs.find? (fun s => s.kid == r.id)).map (fun s => .str s.value) := by
  simp [absVal, h]

/-- a row of one of the four collection types always has a value, and it is not a string -/
theorem absVal_nonstr {db : DB} {r : KeyRow} (h1 : r.ty ≠ TString) (h2 : 1 ≤ r.ty ∧ r.ty ≤ 5) :
    ∃ v, absVal db r = some v ∧ ∀ b, v ≠ .str b := by
  have : r.ty = 2 ∨ r.ty = 3 ∨ r.ty = 4 ∨ r.ty = 5 := by
    simp only [TString] at h1; omega
  rcases this with h | h | h | h <;>
    simp [absVal, h, TString, TList, TSet, THash, TZSet]

theorem absVal_eq_str_ty {db : DB} {r : KeyRow} {b : Bytes} (h : absVal db r = some (.str b)) :
    r.ty = TString := by
  unfold absVal at h
  split at h
  · rename_i ht; simpa using ht
  · split at h <;> try (split at h <;> try (split at h <;> try split at h))
    all_goals simp at h

/-- the typed value of a row depends only on the child rows carrying its id -/
theorem absVal_congr {db db' : DB} {r : KeyRow}
    (hs : db'.strs.find? (fun s => s.kid == r.id) = db.strs.find? (fun s => s.kid == r.id))
    (hl : db'.lists.filter (fun x => x.kid == r.id) = db.lists.filter (fun x => x.kid == r.id))
    (hse : db'.sets.filter (fun x => x.kid == r.id) = db.sets.filter (fun x => x.kid == r.id))
    (hh : db'.hashes.filter (fun x => x.kid == r.id) = db.hashes.filter (fun x => x.kid == r.id))
    (hz : db'.zsets.filter (fun x => x.kid == r.id) = db.zsets.filter (fun x => x.kid == r.id)) :
    absVal db' r = absVal db r := by
  unfold absVal Model.listRows Model.setRows Model.hashRows
  rw [hs, hl, hse, hh, hz]

/-- … in particular it does not depend on the `rkey` table -/
theorem absVal_keys (db : DB) (ks : List KeyRow) (r : KeyRow) :
    absVal { db with keys := ks } r = absVal db r := rfl

end Redka.Spec

/-! ### the type-guarded key upsert -/

namespace Redka

open Redka.Scan

theorem keyUpsert_new {db : DB} {k : Bytes} {ty : Int} {onNew : Int → KeyRow} {onOld : KeyRow → KeyRow}
    (h : db.findKey k = none) :
    keyUpsert db k ty onNew onOld
      = .ok ({ db with keys := db.keys ++ [onNew db.nextKeyId] }, onNew db.nextKeyId) := by
  simp [keyUpsert, h]

theorem keyUpsert_old {db : DB} {k : Bytes} {ty : Int} {onNew : Int → KeyRow} {onOld : KeyRow → KeyRow}
    {old : KeyRow} (h : db.findKey k = some old) (ht : old.ty = ty) :
    keyUpsert db k ty onNew onOld = .ok (db.updKey old.id (fun _ => onOld old), onOld old) := by
  simp [keyUpsert, h, ht]

theorem keyUpsert_other {db : DB} {k : Bytes} {ty : Int} {onNew : Int → KeyRow} {onOld : KeyRow → KeyRow}
    {old : KeyRow} (h : db.findKey k = some old) (ht : old.ty ≠ ty) :
    keyUpsert db k ty onNew onOld = .error .keyType := by
  simp [keyUpsert, h, ht]

namespace DB

/-- lookup by name after appending a row under a name not yet stored -/
theorem findKey_append {db : DB} {r : KeyRow} (h : db.findKey r.key = none) (k' : Bytes) :
    ({ db with keys := db.keys ++ [r] } : DB).findKey k'
      = if r.key == k' then some r else db.findKey k' := by
  unfold findKey at h ⊢
  simp only [List.find?_append]
  by_cases hk : r.key = k'
  · subst hk; simp [h]
  · have : (r.key == k') = false := by simpa using hk
    simp [this]

/-- `update rkey … where id = ?` replaces exactly the row with that id -/
theorem updKey_keys {db : DB} (hi : (db.keys.map (·.id)).Nodup) {old : KeyRow} (ho : old ∈ db.keys)
    (r : KeyRow) :
    (db.updKey old.id (fun _ => r)).keys = db.keys.map (fun x => if x = old then r else x) := by
  unfold updKey
  simp only
  apply List.map_congr_left
  intro x hx
  by_cases hxo : x = old
  · simp [hxo]
  · have : ¬ x.id = old.id := fun he => hxo (id_inj hi hx ho he)
    simp [hxo, this]

theorem updKey_names {db : DB} (hi : (db.keys.map (·.id)).Nodup) {old r : KeyRow} (ho : old ∈ db.keys)
    (hk : r.key = old.key) :
    (db.updKey old.id (fun _ => r)).keys.map (·.key) = db.keys.map (·.key) := by
  rw [updKey_keys hi ho, List.map_map]
  apply List.map_congr_left
  intro x _
  simp only [Function.comp]
  split <;> simp_all

theorem updKey_ids {db : DB} (hi : (db.keys.map (·.id)).Nodup) {old r : KeyRow} (ho : old ∈ db.keys)
    (hk : r.id = old.id) :
    (db.updKey old.id (fun _ => r)).keys.map (·.id) = db.keys.map (·.id) := by
  rw [updKey_keys hi ho, List.map_map]
  apply List.map_congr_left
  intro x _
  simp only [Function.comp]
  split <;> simp_all

theorem mem_updKey {db : DB} (hi : (db.keys.map (·.id)).Nodup) {old r : KeyRow} (ho : old ∈ db.keys)
    {x : KeyRow} (hx : x ∈ (db.updKey old.id (fun _ => r)).keys) : x = r ∨ (x ∈ db.keys ∧ x ≠ old) := by
  rw [updKey_keys hi ho] at hx
  obtain ⟨y, hy, rfl⟩ := List.mem_map.1 hx
  by_cases h : y = old
  · simp [h]
  · simp [h, hy]

/-- lookup by name after replacing the row `old` by a row of the same name -/
theorem findKey_updKey {db : DB} (hn : (db.keys.map (·.key)).Nodup) (hi : (db.keys.map (·.id)).Nodup)
    {old r : KeyRow} (ho : old ∈ db.keys) (hk : r.key = old.key) (k' : Bytes) :
    (db.updKey old.id (fun _ => r)).findKey k'
      = if old.key == k' then some r else db.findKey k' := by
  have hn' : ((db.updKey old.id (fun _ => r)).keys.map (·.key)).Nodup := by
    rw [updKey_names hi ho hk]; exact hn
  apply Option.ext
  intro x
  rw [findKey_eq_some_iff hn']
  by_cases hkk : old.key = k'
  · simp only [hkk, beq_self_eq_true, if_true, Option.some.injEq]
    constructor
    · rintro ⟨hx, hxk⟩
      rcases mem_updKey hi ho hx with h | ⟨h1, h2⟩
      · exact h.symm
      · exact absurd (key_inj hn h1 ho (by rw [hxk, hkk])) h2
    · rintro rfl
      refine ⟨?_, by rw [hk, hkk]⟩
      rw [updKey_keys hi ho]
      exact List.mem_map.2 ⟨old, ho, by simp⟩
  · have : (old.key == k') = false := by simpa using hkk
    simp only [this, Bool.false_eq_true, if_false]
    rw [findKey_eq_some_iff hn]
    constructor
    · rintro ⟨hx, hxk⟩
      rcases mem_updKey hi ho hx with h | ⟨h1, _⟩
      · exact absurd (by rw [← hk, ← h, hxk]) hkk
      · exact ⟨h1, hxk⟩
    · rintro ⟨hx, hxk⟩
      refine ⟨?_, hxk⟩
      rw [updKey_keys hi ho]
      refine List.mem_map.2 ⟨x, hx, ?_⟩
      have : x ≠ old := fun h => hkk (by rw [← h, hxk])
      simp [this]

theorem names_append {db : DB} (hn : (db.keys.map (·.key)).Nodup) {r : KeyRow}
    (h : db.findKey r.key = none) : ((db.keys ++ [r]).map (·.key)).Nodup := by
  rw [List.map_append, List.nodup_append]
  refine ⟨hn, by simp, ?_⟩
  intro a ha b hb
  simp only [List.map_cons, List.map_nil, List.mem_singleton] at hb
  obtain ⟨x, hx, rfl⟩ := List.mem_map.1 ha
  rw [hb]
  exact findKey_eq_none.1 h x hx

theorem ids_append {db : DB} (hi : (db.keys.map (·.id)).Nodup) {r : KeyRow}
    (h : r.id = db.nextKeyId) : ((db.keys ++ [r]).map (·.id)).Nodup := by
  rw [List.map_append, List.nodup_append]
  refine ⟨hi, by simp, ?_⟩
  intro a ha b hb
  simp only [List.map_cons, List.map_nil, List.mem_singleton] at hb
  obtain ⟨x, hx, rfl⟩ := List.mem_map.1 ha
  rw [hb, h]
  exact nextKeyId_fresh db x hx

end DB
end Redka
