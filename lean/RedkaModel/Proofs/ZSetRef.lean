/-
  `internal/rzset` against the abstract keyspace, part 1: the (score, member) order, canonical
  sorting, the part of the invariant the sorted-set proofs use (`DB.ZWF`), the member-to-score map
  a key's rows stand for (`zAssoc`) and the refinement of every read.
-/
import RedkaModel.Proofs.Str
import RedkaModel.Props.C02idx

namespace Redka.ZSetRef

open Redka Redka.Scan Redka.Spec Redka.Model Redka.DB

/-! ### the order on scores -/

namespace Score

theorem lt_irrefl (a : Score) : Score.lt a a = false := by
  cases a <;> simp [Score.lt]

theorem lt_trans {a b c : Score} (h1 : Score.lt a b = true) (h2 : Score.lt b c = true) :
    Score.lt a c = true := by
  cases a <;> cases b <;> cases c <;> simp_all [Score.lt]
  grind

theorem lt_connected {a b : Score} (h1 : Score.lt a b = false) (h2 : Score.lt b a = false) : a = b := by
  cases a <;> cases b <;> simp_all [Score.lt]
  grind

theorem lt_asymm {a b : Score} (h : Score.lt a b = true) : Score.lt b a = false := by
  cases hc : Score.lt b a with
  | false => rfl
  | true =>
    have := lt_trans h hc
    rw [lt_irrefl] at this
    cases this

theorem strictTotal : StrictTotal Score.lt :=
  ⟨lt_irrefl, fun _ _ _ => lt_trans, fun _ _ => lt_connected⟩

end Score

/-- `order by score, elem` is a strict total order on (member, score) pairs -/
theorem strictTotal_zLt : StrictTotal Spec.zLt where
  irrefl := by
    intro a
    simp [Spec.zLt, Score.lt_irrefl, bytesLt_irrefl]
  trans := by
    intro a b c h1 h2
    simp only [Spec.zLt, Bool.or_eq_true, Bool.and_eq_true, beq_iff_eq] at h1 h2 ⊢
    rcases h1 with h1 | ⟨e1, h1⟩ <;> rcases h2 with h2 | ⟨e2, h2⟩
    · exact Or.inl (Score.lt_trans h1 h2)
    · exact Or.inl (e2 ▸ h1)
    · exact Or.inl (e1 ▸ h2)
    · exact Or.inr ⟨e1.trans e2, bytesLt_trans _ _ _ h1 h2⟩
  connected := by
    intro a b h1 h2
    simp only [Spec.zLt, Bool.or_eq_false_iff, Bool.and_eq_false_iff] at h1 h2
    have hs : a.2 = b.2 := Score.lt_connected h1.1 h2.1
    have hb1 : bytesLt a.1 b.1 = false := by
      rcases h1.2 with h | h
      · simp [hs] at h
      · exact h
    have hb2 : bytesLt b.1 a.1 = false := by
      rcases h2.2 with h | h
      · simp [hs] at h
      · exact h
    exact Prod.ext (bytesLt_connected _ _ hb1 hb2) hs

/-! ### sorting is canonical -/

section sort
variable {β : Type}

theorem perm_insertSortedBy (lt : β → β → Bool) (x : β) :
    ∀ l : List β, (insertSortedBy lt x l).Perm (x :: l)
  | [] => by simp [insertSortedBy]
  | y :: ys => by
    simp only [insertSortedBy]
    split
    · exact List.Perm.refl _
    · exact ((perm_insertSortedBy lt x ys).cons y).trans (List.Perm.swap x y ys)

theorem perm_sortBy (lt : β → β → Bool) : ∀ l : List β, (sortBy lt l).Perm l
  | [] => by simp [sortBy]
  | y :: ys => by
    have ih := perm_sortBy lt ys
    simp only [sortBy, List.foldr_cons] at ih ⊢
    exact (perm_insertSortedBy lt y _).trans (ih.cons y)

/-- two strictly increasing lists with the same elements are the same list -/
theorem pairwise_unique {lt : β → β → Bool} (ho : StrictTotal lt) :
    ∀ {a b : List β}, a.Pairwise (fun x y => lt x y = true) → b.Pairwise (fun x y => lt x y = true) →
      (∀ x, x ∈ a ↔ x ∈ b) → a = b
  | [], [], _, _, _ => rfl
  | [], y :: b, _, _, h => by have := (h y).2 (by simp); simp at this
  | x :: a, [], _, _, h => by have := (h x).1 (by simp); simp at this
  | x :: a, y :: b, ha, hb, h => by
    have ha' := List.pairwise_cons.1 ha
    have hb' := List.pairwise_cons.1 hb
    have hxy : x = y := by
      have hx : x ∈ y :: b := (h x).1 (by simp)
      have hy : y ∈ x :: a := (h y).2 (by simp)
      rcases List.mem_cons.1 hx with hx | hx
      · exact hx
      · rcases List.mem_cons.1 hy with hy | hy
        · exact hy.symm
        · have h1 := hb'.1 x hx
          have h2 := ha'.1 y hy
          have := ho.trans _ _ _ h1 h2
          rw [ho.irrefl] at this
          cases this
    subst hxy
    have hnx : x ∉ a := fun hm => by
      have := ha'.1 x hm
      rw [ho.irrefl] at this
      cases this
    have hnb : x ∉ b := fun hm => by
      have := hb'.1 x hm
      rw [ho.irrefl] at this
      cases this
    have htl : ∀ z, z ∈ a ↔ z ∈ b := by
      intro z
      constructor
      · intro hz
        rcases List.mem_cons.1 ((h z).1 (List.mem_cons_of_mem _ hz)) with rfl | h'
        · exact absurd hz hnx
        · exact h'
      · intro hz
        rcases List.mem_cons.1 ((h z).2 (List.mem_cons_of_mem _ hz)) with rfl | h'
        · exact absurd hz hnb
        · exact h'
    rw [pairwise_unique ho ha'.2 hb'.2 htl]

/-- a lookup by a predicate that at most one element satisfies is membership -/
theorem find?_eq_some_iff_of_unique {l : List β} {p : β → Bool}
    (hu : ∀ a ∈ l, ∀ b ∈ l, p a = true → p b = true → a = b) (a : β) :
    l.find? p = some a ↔ a ∈ l ∧ p a = true := by
  constructor
  · intro h
    exact ⟨List.mem_of_find?_eq_some h, List.find?_some h⟩
  · rintro ⟨hm, hp⟩
    cases hf : l.find? p with
    | none =>
      rw [List.find?_eq_none] at hf
      exact absurd hp (hf a hm)
    | some b =>
      rw [hu a hm b (List.mem_of_find?_eq_some hf) hp (List.find?_some hf)]

/-- the same lookup in two lists with the same elements -/
theorem find?_congr_mem {l l' : List β} {p : β → Bool}
    (hu : ∀ a ∈ l, ∀ b ∈ l, p a = true → p b = true → a = b) (hm : ∀ x, x ∈ l' ↔ x ∈ l) :
    l'.find? p = l.find? p := by
  have hu' : ∀ a ∈ l', ∀ b ∈ l', p a = true → p b = true → a = b :=
    fun a ha b hb => hu a ((hm a).1 ha) b ((hm b).1 hb)
  apply Option.ext
  intro a
  rw [find?_eq_some_iff_of_unique hu, find?_eq_some_iff_of_unique hu', hm]

end sort

/-! ### what the invariant gives for sorted sets -/

end Redka.ZSetRef

namespace Redka.DB

open Redka Redka.Scan Redka.Spec

/-- `DB.WF` plus the sorted-set part of the C11 audit: `(kid, elem)` is unique in `rzset`, every
`rzset` row has an owner in `rkey`, and the cached length of a sorted-set key is its row count. -/
structure ZWF (db : DB) : Prop extends WF db where
  zuniq : (db.zsets.map (fun r => (r.kid, r.elem))).Nodup
  zown : ∀ z ∈ db.zsets, ∃ r ∈ db.keys, r.id = z.kid
  zlen : ∀ r ∈ db.keys, r.ty = TZSet →
    r.len = some ((db.zsets.filter (fun z => z.kid == r.id)).length : Int)

theorem Inv.zwf {db : DB} (h : db.Inv) : db.ZWF := by
  refine { toWF := Inv.wf h, zuniq := ?_, zown := ?_, zlen := ?_ }
  · unfold Inv invB at h
    simp only [Bool.and_eq_true] at h
    have hu := h.2
    unfold uniqueOk at hu
    simp only [Bool.and_eq_true, nodupB_iff] at hu
    exact hu.1.1.1.2
  · unfold Inv invB at h
    simp only [Bool.and_eq_true] at h
    have ho := h.1.2
    unfold ownersOk at ho
    simp only [Bool.and_eq_true] at ho
    have hz := ho.2
    rw [List.all_eq_true] at hz
    intro z hzm
    have := hz z hzm
    unfold ownerOk at this
    obtain ⟨r, hr, hc⟩ := List.any_eq_true.1 this
    simp only [Bool.and_eq_true, beq_iff_eq] at hc
    exact ⟨r, hr, hc.1⟩
  · unfold Inv invB at h
    simp only [Bool.and_eq_true] at h
    have hk := h.1.1
    unfold keysOk at hk
    rw [List.all_eq_true] at hk
    intro r hr hty
    have := hk r hr
    simp only [Bool.and_eq_true, decide_eq_true_eq] at this
    have h2 := this.2
    have hns : ¬ (r.ty == TString) = true := by simp [hty, TZSet, TString]
    rw [if_neg hns] at h2
    have h2 : r.len = some (db.childCount r) := by simpa using h2
    rw [h2]
    simp [childCount, hty, TZSet, TList, TSet, THash]

end Redka.DB

namespace Redka.ZSetRef

open Redka Redka.Scan Redka.Spec Redka.Model Redka.DB

/-! ### the rows of one sorted set and the map they stand for -/

/-- what a row contributes to the member-to-score map -/
def zPair (r : ZRow) : Bytes × Score := (r.elem, r.score)

def zKidRows (db : DB) (id : Int) : List ZRow := db.zsets.filter (fun z => z.kid == id)

/-- the member-to-score map of the key with rowid `id`, by member bytes (what `Spec.abs` shows) -/
def zAssoc (db : DB) (id : Int) : List (Bytes × Score) :=
  (sortBy (fun (a b : ZRow) => bytesLt a.elem b.elem) (zKidRows db id)).map zPair

/-- `select … where kid = ? and elem = ?` -/
def zFind (db : DB) (id : Int) (e : Bytes) : Option ZRow :=
  db.zsets.find? (fun z => z.kid == id && z.elem == e)

theorem absVal_zset {db : DB} {r : KeyRow} (h : r.ty = TZSet) :
    absVal db r = some (.zset (zAssoc db r.id)) := by
  simp [absVal, h, TZSet, TString, TList, TSet, THash, zAssoc, zKidRows, zPair]

theorem absVal_eq_zset_ty {db : DB} {r : KeyRow} {z : List (Bytes × Score)}
    (h : absVal db r = some (.zset z)) : r.ty = TZSet := by
  unfold absVal at h
  split at h
  · cases hf : db.strs.find? (fun s => s.kid == r.id) <;> simp [hf] at h
  · split at h
    · simp at h
    · split at h
      · simp at h
      · split at h
        · simp at h
        · split at h
          · rename_i ht; simpa using ht
          · simp at h

theorem zKidRows_elems_nodup {db : DB} (hu : (db.zsets.map (fun r => (r.kid, r.elem))).Nodup)
    (id : Int) : ((zKidRows db id).map (·.elem)).Nodup := by
  have hsub : ((zKidRows db id).map (fun r => (r.kid, r.elem))).Nodup :=
    List.Nodup.sublist (List.Sublist.map _ List.filter_sublist) hu
  unfold List.Nodup at hsub ⊢
  rw [List.pairwise_map] at hsub ⊢
  refine hsub.imp_of_mem ?_
  intro a b ha hb hne heq
  have hka : a.kid = id := by simpa using (List.mem_filter.1 ha).2
  have hkb : b.kid = id := by simpa using (List.mem_filter.1 hb).2
  exact hne (by rw [hka, hkb, heq])

theorem zFind_unique {db : DB} (hu : (db.zsets.map (fun r => (r.kid, r.elem))).Nodup)
    (id : Int) (e : Bytes) :
    ∀ a ∈ db.zsets, ∀ b ∈ db.zsets, (a.kid == id && a.elem == e) = true →
      (b.kid == id && b.elem == e) = true → a = b := by
  intro a ha b hb h1 h2
  simp only [Bool.and_eq_true, beq_iff_eq] at h1 h2
  exact inj_of_nodup_map _ _ hu a ha b hb (by rw [h1.1, h1.2, h2.1, h2.2])

theorem zFind_eq_some_iff {db : DB} (hu : (db.zsets.map (fun r => (r.kid, r.elem))).Nodup)
    (id : Int) (e : Bytes) (r : ZRow) :
    zFind db id e = some r ↔ r ∈ db.zsets ∧ r.kid = id ∧ r.elem = e := by
  unfold zFind
  rw [find?_eq_some_iff_of_unique (zFind_unique hu id e)]
  simp

theorem sorted_zAssoc {db : DB} (hu : (db.zsets.map (fun r => (r.kid, r.elem))).Nodup) (id : Int) :
    Sorted (zAssoc db id) := by
  unfold Sorted zAssoc
  rw [List.pairwise_map]
  exact pairwise_sortBy ZRow.elem strictTotal_bytes _ (zKidRows_elems_nodup hu id)

theorem mem_zAssoc {db : DB} (id : Int) (p : Bytes × Score) :
    p ∈ zAssoc db id ↔ ∃ r ∈ db.zsets, r.kid = id ∧ zPair r = p := by
  unfold zAssoc zKidRows
  simp only [List.mem_map, mem_sortBy, List.mem_filter, beq_iff_eq]
  constructor
  · rintro ⟨r, ⟨h1, h2⟩, h3⟩; exact ⟨r, h1, h2, h3⟩
  · rintro ⟨r, h1, h2, h3⟩; exact ⟨r, ⟨h1, h2⟩, h3⟩

/-- the map read pointwise: the score of the row `(id, e)` -/
theorem aget_zAssoc {db : DB} (hu : (db.zsets.map (fun r => (r.kid, r.elem))).Nodup)
    (id : Int) (e : Bytes) : aget (zAssoc db id) e = (zFind db id e).map (·.score) := by
  apply Option.ext
  intro s
  rw [aget_eq_some_iff (sorted_zAssoc hu id).nodup_keys, mem_zAssoc]
  constructor
  · rintro ⟨r, hr, hk, hp⟩
    have : zFind db id e = some r := by
      rw [zFind_eq_some_iff hu]
      exact ⟨hr, hk, by simpa [zPair] using (congrArg Prod.fst hp)⟩
    rw [this]
    simpa [zPair] using (congrArg Prod.snd hp)
  · intro h
    cases hf : zFind db id e with
    | none => simp [hf] at h
    | some r =>
      rw [hf] at h
      obtain ⟨hr, hk, he⟩ := (zFind_eq_some_iff hu id e r).1 hf
      refine ⟨r, hr, hk, ?_⟩
      simp only [Option.map_some, Option.some.injEq] at h
      simp [zPair, he, h]

theorem length_zAssoc (db : DB) (id : Int) :
    (zAssoc db id).length = (db.zsets.filter (fun z => z.kid == id)).length := by
  simp [zAssoc, zKidRows, length_sortBy]

/-- the model's `order by score, elem` and the specification's rank order list the same pairs in
the same order -/
theorem zRows_proj {db : DB} (hu : (db.zsets.map (fun r => (r.kid, r.elem))).Nodup) (id : Int) :
    (zRows db id).map zPair = zsorted (zAssoc db id) := by
  have hnd : ((zKidRows db id).map zPair).Nodup := by
    have := zKidRows_elems_nodup hu id
    unfold List.Nodup at this ⊢
    rw [List.pairwise_map] at this ⊢
    exact this.imp (fun hne heq => hne (congrArg Prod.fst heq))
  have h1 : ((zRows db id).map zPair).Pairwise (fun x y => Spec.zLt x y = true) := by
    rw [List.pairwise_map]
    exact pairwise_sortBy zPair strictTotal_zLt (zKidRows db id) hnd
  have hnd2 : ((zAssoc db id).map _root_.id).Nodup := by
    rw [List.map_id]
    unfold zAssoc
    exact ((perm_sortBy _ _).map zPair).nodup_iff.2 hnd
  have h2 : (zsorted (zAssoc db id)).Pairwise (fun x y => Spec.zLt x y = true) :=
    pairwise_sortBy _root_.id strictTotal_zLt (zAssoc db id) hnd2
  apply pairwise_unique strictTotal_zLt h1 h2
  intro p
  unfold zsorted
  rw [mem_sortBy, mem_zAssoc]
  unfold zRows
  simp only [List.mem_map, mem_sortBy, List.mem_filter, beq_iff_eq]
  constructor
  · rintro ⟨r, ⟨h1, h2⟩, h3⟩; exact ⟨r, h1, h2, h3⟩
  · rintro ⟨r, h1, h2, h3⟩; exact ⟨r, ⟨h1, h2⟩, h3⟩

/-! ### what a name reads as -/

theorem liveKeyT_some {db : DB} {k : Bytes} {ty now : Int} {r : KeyRow}
    (h : db.liveKeyT k ty now = some r) : r ∈ db.keys ∧ r.key = k ∧ r.ty = ty ∧ r.live now = true := by
  unfold liveKeyT at h
  have h1 := List.mem_of_find?_eq_some h
  have h2 := List.find?_some h
  simp only [Bool.and_eq_true, beq_iff_eq] at h2
  exact ⟨h1, h2.1.1, h2.1.2, h2.2⟩

/-- a missing key, an expired key and a key of another type all read as the empty sorted set -/
theorem zsetAt_abs {db : DB} (hw : db.WF) (now : Int) (k : Bytes) :
    zsetAt (abs now db) k =
      match db.liveKeyT k TZSet now with
      | none => []
      | some r => zAssoc db r.id := by
  unfold zsetAt
  rw [get_abs hw.names, liveKeyT_eq hw.names]
  cases hf : db.findKey k with
  | none => rfl
  | some r =>
    simp only [Option.bind_some, rowEntry, Option.filter]
    by_cases hl : r.live now = true
    · by_cases ht : r.ty = TZSet
      · simp [hl, ht, absVal_zset ht]
      · have htb : (r.ty == TZSet) = false := by simpa using ht
        simp only [hl, htb, Bool.false_and, Bool.false_eq_true, if_false, if_true]
        cases hv : absVal db r with
        | none => rfl
        | some v =>
          cases v with
          | zset z => exact absurd (absVal_eq_zset_ty hv) ht
          | _ => rfl
    · simp [hl]

theorem zsorted_nil : zsorted [] = [] := rfl

/-- the rows the model ranks are the pairs the specification ranks, in the same order -/
theorem zLiveRows_proj {db : DB} (hz : db.ZWF) (now : Int) (k : Bytes) :
    (zLiveRows db k now).map zPair = zsorted (zsetAt (abs now db) k) := by
  rw [zsetAt_abs hz.toWF]
  unfold zLiveRows
  cases db.liveKeyT k TZSet now with
  | none => rfl
  | some r => exact zRows_proj hz.zuniq r.id

theorem sorted_zsetAt_abs {db : DB} (hz : db.ZWF) (now : Int) (k : Bytes) :
    Sorted (zsetAt (abs now db) k) := by
  rw [zsetAt_abs hz.toWF]
  cases db.liveKeyT k TZSet now with
  | none => exact List.Pairwise.nil
  | some r => exact sorted_zAssoc hz.zuniq r.id

/-! ### lookups in permuted association lists -/

theorem aget_perm {β : Type} {m m' : List (Bytes × β)} (hnd : (m.map (·.1)).Nodup)
    (hp : m'.Perm m) (k : Bytes) : aget m' k = aget m k := by
  have hnd' : (m'.map (·.1)).Nodup := (hp.map _).nodup_iff.2 hnd
  apply Option.ext
  intro v
  rw [aget_eq_some_iff hnd, aget_eq_some_iff hnd', hp.mem_iff]

theorem aget_map_zPair (e : Bytes) : ∀ (l : List ZRow),
    aget (l.map zPair) e = (l.find? (fun x => x.elem == e)).map (·.score)
  | [] => rfl
  | r :: l => by
    rw [List.map_cons, List.find?_cons]
    show aget ((r.elem, r.score) :: l.map zPair) e = _
    rw [aget_cons]
    cases h : r.elem == e with
    | true => simp
    | false => simpa using aget_map_zPair e l

theorem aget_zsorted {z : List (Bytes × Score)} (hs : Sorted z) (e : Bytes) :
    aget (zsorted z) e = aget z e :=
  aget_perm hs.nodup_keys (perm_sortBy _ _) e

theorem aget_zsorted_reverse {z : List (Bytes × Score)} (hs : Sorted z) (e : Bytes) :
    aget (zsorted z).reverse e = aget z e :=
  aget_perm hs.nodup_keys ((List.reverse_perm _).trans (perm_sortBy _ _)) e

theorem indexOf?_proj (e : Bytes) : ∀ (l : List ZRow),
    Model.indexOf? (fun x : ZRow => x.elem == e) l
      = Spec.indexOf? (fun p : Bytes × Score => p.1 == e) (l.map zPair)
  | [] => rfl
  | r :: l => by
    simp only [Model.indexOf?, Spec.indexOf?, List.map_cons, zPair, indexOf?_proj e l]

theorem zItem_proj (l : List ZRow) : l.map Model.zItem = (l.map zPair).map Spec.zItem := by
  rw [List.map_map]; rfl

theorem rankSlice_map {α β : Type} (f : α → β) (l : List α) (a b : Int) :
    (rankSlice l a b).map f = rankSlice (l.map f) a b := by
  unfold rankSlice
  split
  · rfl
  · rw [List.map_take, List.map_drop]

theorem offsetCount_map {α β : Type} (f : α → β) (l : List α) (off cnt : Int) :
    (offsetCount l off cnt).map f = offsetCount (l.map f) off cnt := by
  unfold offsetCount
  split <;> split <;> simp [List.map_take, List.map_drop]

theorem filter_proj (q : Bytes × Score → Bool) (l : List ZRow) :
    (l.filter (fun x => q (zPair x))).map zPair = (l.map zPair).filter q := by
  rw [List.filter_map]; rfl

/-! ### the reads -/

theorem read_refines {db : DB} (hw : db.WF) (now : Int) {o o' : Out} (h : o = o') :
    Refines now ⟨o, db⟩ ⟨o', abs now db⟩ :=
  ⟨h, (purge_abs hw.names now).symm⟩

theorem zCount_refines {db : DB} (hz : db.ZWF) (now : Int) (k : Bytes) (lo hi : Score) :
    Refines now (Model.zCount db k lo hi now)
      (Spec.ok (.int ((zsetAt (abs now db) k).filter (fun p => Spec.between lo hi p.2)).length)
        (abs now db)) := by
  apply read_refines hz.toWF
  have h1 : ((zLiveRows db k now).filter (fun x => Model.between lo hi x.score)).length
      = (((zLiveRows db k now).map zPair).filter (fun p => Spec.between lo hi p.2)).length := by
    rw [← filter_proj, List.length_map]; rfl
  rw [h1, zLiveRows_proj hz]
  have := ((perm_sortBy Spec.zLt (zsetAt (abs now db) k)).filter
    (fun p => Spec.between lo hi p.2)).length_eq
  unfold zsorted
  rw [this]

theorem zGetScore_refines {db : DB} (hz : db.ZWF) (now : Int) (k e : Bytes) :
    Refines now (Model.zGetScore db k e now)
      (match aget (zsetAt (abs now db) k) e with
       | some sc => Spec.ok (.score sc) (abs now db)
       | none => Spec.er .notFound (abs now db)) := by
  have h := aget_map_zPair e (zLiveRows db k now)
  rw [zLiveRows_proj hz, aget_zsorted (sorted_zsetAt_abs hz now k)] at h
  rw [h]
  unfold Model.zGetScore
  cases (zLiveRows db k now).find? (fun x => x.elem == e) with
  | none => exact read_refines hz.toWF now rfl
  | some r => exact read_refines hz.toWF now rfl

theorem zGetRank_refines {db : DB} (hz : db.ZWF) (now : Int) (k e : Bytes) (rev : Bool) :
    Refines now (Model.zGetRank db k e rev now) (Spec.zGetRank (abs now db) k e rev) := by
  have hs := sorted_zsetAt_abs hz now k
  have hp := zLiveRows_proj hz now k
  unfold Model.zGetRank Spec.zGetRank
  simp only []
  have hidx : Model.indexOf? (fun x : ZRow => x.elem == e)
        (if rev = true then (zLiveRows db k now).reverse else zLiveRows db k now)
      = Spec.indexOf? (fun p : Bytes × Score => p.1 == e)
        (if rev = true then (zsorted (zsetAt (abs now db) k)).reverse
          else zsorted (zsetAt (abs now db) k)) := by
    rw [indexOf?_proj]
    cases rev
    · simp only [Bool.false_eq_true, if_false, hp]
    · simp only [if_true, List.map_reverse, hp]
  have hfind : ((if rev = true then (zLiveRows db k now).reverse else zLiveRows db k now).find?
        (fun x => x.elem == e)).map (·.score) = aget (zsetAt (abs now db) k) e := by
    rw [← aget_map_zPair]
    cases rev
    · simp only [Bool.false_eq_true, if_false, hp, aget_zsorted hs]
    · simp only [if_true, List.map_reverse, hp, aget_zsorted_reverse hs]
  rw [hidx, ← hfind]
  cases Spec.indexOf? (fun p : Bytes × Score => p.1 == e)
      (if rev = true then (zsorted (zsetAt (abs now db) k)).reverse
        else zsorted (zsetAt (abs now db) k)) with
  | none => exact read_refines hz.toWF now rfl
  | some i =>
    cases (if rev = true then (zLiveRows db k now).reverse else zLiveRows db k now).find?
        (fun x => x.elem == e) with
    | none => exact read_refines hz.toWF now rfl
    | some r => exact read_refines hz.toWF now rfl

theorem zLen_refines {db : DB} (hz : db.ZWF) (now : Int) (k : Bytes) :
    Refines now (Model.zLen db k now)
      (Spec.ok (.int (zsetAt (abs now db) k).length) (abs now db)) := by
  rw [zsetAt_abs hz.toWF]
  unfold Model.zLen
  cases hl : db.liveKeyT k TZSet now with
  | none => exact read_refines hz.toWF now rfl
  | some r =>
    obtain ⟨hm, _, hty, _⟩ := liveKeyT_some hl
    simp only [hz.zlen r hm hty, length_zAssoc]
    exact read_refines hz.toWF now rfl

theorem zRangeRank_refines {db : DB} (hz : db.ZWF) (now : Int) (k : Bytes) (a b : Int) (desc : Bool) :
    Refines now (Model.zRangeRank db k a b desc now)
      (Spec.ok (.list ((rankSlice (if desc then (zsorted (zsetAt (abs now db) k)).reverse
        else zsorted (zsetAt (abs now db) k)) a b).map Spec.zItem)) (abs now db)) := by
  have hp := zLiveRows_proj hz now k
  have hm : Model.zRangeRank db k a b desc now
      = .ok (.list ((Redka.Proofs.Index.modelRankRange
          (if desc then (zLiveRows db k now).reverse else zLiveRows db k now) a b).map Model.zItem)) db := by
    unfold Model.zRangeRank Redka.Proofs.Index.modelRankRange
    split <;> rfl
  rw [hm, Redka.Props.C02.rank_range_refines, zItem_proj, rankSlice_map]
  apply read_refines hz.toWF
  cases desc
  · simp only [Bool.false_eq_true, if_false, hp]
  · simp only [if_true, List.map_reverse, hp]

theorem zRangeScore_refines {db : DB} (hz : db.ZWF) (now : Int) (k : Bytes) (lo hi : Score)
    (desc : Bool) (off cnt : Int) :
    Refines now (Model.zRangeScore db k lo hi desc off cnt now)
      (Spec.ok (.list ((offsetCount
        (if desc then ((zsorted (zsetAt (abs now db) k)).filter (fun p => Spec.between lo hi p.2)).reverse
          else (zsorted (zsetAt (abs now db) k)).filter (fun p => Spec.between lo hi p.2)) off cnt).map
        Spec.zItem)) (abs now db)) := by
  have hp := zLiveRows_proj hz now k
  have hf : ((zLiveRows db k now).filter (fun x => Model.between lo hi x.score)).map zPair
      = (zsorted (zsetAt (abs now db) k)).filter (fun p => Spec.between lo hi p.2) := by
    rw [← hp, ← filter_proj]; rfl
  unfold Model.zRangeScore
  simp only []
  rw [Redka.Props.C02.offset_count_refines, zItem_proj, offsetCount_map]
  apply read_refines hz.toWF
  cases desc
  · simp only [Bool.false_eq_true, if_false, hf]
  · simp only [if_true, List.map_reverse, hf]

end Redka.ZSetRef
