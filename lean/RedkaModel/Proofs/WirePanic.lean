/-
  `command.Parse` never panics: per parse function of `Cmd/Parse.lean`, then per row of the
  generated dispatch table (`Generated.dispatch`), then for `parse` itself.
  Before the repair of D11 (`parser.StringsN` with a negative count) the four `numkeys` commands
  could panic; the model has no panic source left, and this file proves it.
  Everything lives in `Redka.WireProofs`. Core Lean only.
-/
import RedkaModel.Proofs.WireTable

namespace Redka.WireProofs

open Redka Redka.Wire

def poIsPanic : ParseOut → Bool
  | .panic => true
  | _ => false

/-- a panic of a pipeline-based parse function is a panic of the pipeline -/
theorem withGrammar_panic (g : Grammar) (b : Base) (k : Env → ParseOut)
    (hk : ∀ env, poIsPanic (k env) = false) (h : poIsPanic (withGrammar g b k) = true) :
    runGrammar g b.args = .panic := by
  unfold withGrammar at h
  split at h
  · rw [hk] at h; cases h
  · cases h
  · assumption
  · cases h
  · cases h

/-- … and the pipeline never panics -/
theorem withGrammar_noPanic (g : Grammar) (b : Base) (k : Env → ParseOut)
    (hk : ∀ env, poIsPanic (k env) = false) :
    poIsPanic (withGrammar g b k) = false := by
  cases h : poIsPanic (withGrammar g b k) with
  | false => rfl
  | true => exact absurd (withGrammar_panic g b k hk h) (runGrammar_ne_panic g b.args)

macro "po_k" : tactic =>
  `(tactic| (intro env; first | rfl | ((try dsimp only); (repeat' split) <;> rfl)))
macro "po_nopanic" : tactic => `(tactic| first
  | rfl
  | (apply withGrammar_noPanic
     po_k)
  | ((repeat' split) <;> rfl))

/-! ### per parse function -/

theorem parseOK_noPanic (b : Base) : poIsPanic (parseOK b) = false := by
  unfold parseOK; po_nopanic

theorem parseUnknown_noPanic (b : Base) : poIsPanic (parseUnknown b) = false := by
  unfold parseUnknown; po_nopanic

theorem parseConfig_noPanic (b : Base) : poIsPanic (parseConfig b) = false := by
  unfold parseConfig; po_nopanic

theorem parseDBSize_noPanic (b : Base) : poIsPanic (parseDBSize b) = false := by
  unfold parseDBSize; po_nopanic

theorem parseLolwut_noPanic (b : Base) : poIsPanic (parseLolwut b) = false := by
  unfold parseLolwut; po_nopanic

theorem parseEcho_noPanic (b : Base) : poIsPanic (parseEcho b) = false := by
  unfold parseEcho; po_nopanic

theorem parsePing_noPanic (b : Base) : poIsPanic (parsePing b) = false := by
  unfold parsePing; po_nopanic

theorem parseSelect_noPanic (b : Base) : poIsPanic (parseSelect b) = false := by
  unfold parseSelect; po_nopanic

theorem parseDel_noPanic (b : Base) : poIsPanic (parseDel b) = false := by
  unfold parseDel; po_nopanic

theorem parseExists_noPanic (b : Base) : poIsPanic (parseExists b) = false := by
  unfold parseExists; po_nopanic

theorem parseExpire_noPanic (b : Base) (multi : Int) : poIsPanic (parseExpire b multi) = false := by
  unfold parseExpire; po_nopanic

theorem parseExpireAt_noPanic (b : Base) (multi : Int) : poIsPanic (parseExpireAt b multi) = false := by
  unfold parseExpireAt; po_nopanic

theorem parseFlushDB_noPanic (b : Base) : poIsPanic (parseFlushDB b) = false := by
  unfold parseFlushDB; po_nopanic

theorem parseKeys_noPanic (b : Base) : poIsPanic (parseKeys b) = false := by
  unfold parseKeys parseOneKey; po_nopanic

theorem parsePersist_noPanic (b : Base) : poIsPanic (parsePersist b) = false := by
  unfold parsePersist parseOneKey; po_nopanic

theorem parseRandomKey_noPanic (b : Base) : poIsPanic (parseRandomKey b) = false := by
  unfold parseRandomKey; po_nopanic

theorem parseRename_noPanic (b : Base) : poIsPanic (parseRename b) = false := by
  unfold parseRename parseTwo; po_nopanic

theorem parseRenameNX_noPanic (b : Base) : poIsPanic (parseRenameNX b) = false := by
  unfold parseRenameNX parseTwo; po_nopanic

theorem parseScan_noPanic (b : Base) : poIsPanic (parseScan b) = false := by
  unfold parseScan; po_nopanic

theorem parseTTL_noPanic (b : Base) : poIsPanic (parseTTL b) = false := by
  unfold parseTTL parseOneKey; po_nopanic

theorem parseType_noPanic (b : Base) : poIsPanic (parseType b) = false := by
  unfold parseType parseOneKey; po_nopanic

theorem parseLIndex_noPanic (b : Base) : poIsPanic (parseLIndex b) = false := by
  unfold parseLIndex; po_nopanic

theorem parseLInsert_noPanic (b : Base) : poIsPanic (parseLInsert b) = false := by
  unfold parseLInsert; po_nopanic

theorem parseLLen_noPanic (b : Base) : poIsPanic (parseLLen b) = false := by
  unfold parseLLen; po_nopanic

theorem parseLPop_noPanic (b : Base) : poIsPanic (parseLPop b) = false := by
  unfold parseLPop; po_nopanic

theorem parseLPush_noPanic (b : Base) : poIsPanic (parseLPush b) = false := by
  unfold parseLPush; po_nopanic

theorem parseLRange_noPanic (b : Base) : poIsPanic (parseLRange b) = false := by
  unfold parseLRange; po_nopanic

theorem parseLRem_noPanic (b : Base) : poIsPanic (parseLRem b) = false := by
  unfold parseLRem; po_nopanic

theorem parseLSet_noPanic (b : Base) : poIsPanic (parseLSet b) = false := by
  unfold parseLSet; po_nopanic

theorem parseLTrim_noPanic (b : Base) : poIsPanic (parseLTrim b) = false := by
  unfold parseLTrim; po_nopanic

theorem parseRPop_noPanic (b : Base) : poIsPanic (parseRPop b) = false := by
  unfold parseRPop; po_nopanic

theorem parseRPopLPush_noPanic (b : Base) : poIsPanic (parseRPopLPush b) = false := by
  unfold parseRPopLPush; po_nopanic

theorem parseRPush_noPanic (b : Base) : poIsPanic (parseRPush b) = false := by
  unfold parseRPush; po_nopanic

theorem parseGet_noPanic (b : Base) : poIsPanic (parseGet b) = false := by
  unfold parseGet parseOneKey; po_nopanic

theorem parseGetSet_noPanic (b : Base) : poIsPanic (parseGetSet b) = false := by
  unfold parseGetSet parseTwo; po_nopanic

theorem parseIncr_noPanic (b : Base) (sign : Int) : poIsPanic (parseIncr b sign) = false := by
  unfold parseIncr parseOneKey; po_nopanic

theorem parseIncrBy_noPanic (b : Base) (sign : Int) : poIsPanic (parseIncrBy b sign) = false := by
  unfold parseIncrBy; po_nopanic

theorem parseIncrByFloat_noPanic (b : Base) : poIsPanic (parseIncrByFloat b) = false := by
  unfold parseIncrByFloat; po_nopanic

theorem parseMGet_noPanic (b : Base) : poIsPanic (parseMGet b) = false := by
  unfold parseMGet; po_nopanic

theorem parseMSet_noPanic (b : Base) : poIsPanic (parseMSet b) = false := by
  unfold parseMSet; po_nopanic

theorem parseSet_noPanic (b : Base) : poIsPanic (parseSet b) = false := by
  unfold parseSet; po_nopanic

theorem parseSetEX_noPanic (b : Base) (multi : Int) : poIsPanic (parseSetEX b multi) = false := by
  unfold parseSetEX; po_nopanic

theorem parseSetNX_noPanic (b : Base) : poIsPanic (parseSetNX b) = false := by
  unfold parseSetNX parseTwo; po_nopanic

theorem parseStrlen_noPanic (b : Base) : poIsPanic (parseStrlen b) = false := by
  unfold parseStrlen parseOneKey; po_nopanic

theorem parseHDel_noPanic (b : Base) : poIsPanic (parseHDel b) = false := by
  unfold parseHDel; po_nopanic

theorem parseHExists_noPanic (b : Base) : poIsPanic (parseHExists b) = false := by
  unfold parseHExists parseTwo; po_nopanic

theorem parseHGet_noPanic (b : Base) : poIsPanic (parseHGet b) = false := by
  unfold parseHGet parseTwo; po_nopanic

theorem parseHGetAll_noPanic (b : Base) : poIsPanic (parseHGetAll b) = false := by
  unfold parseHGetAll parseOneKey; po_nopanic

theorem parseHIncrBy_noPanic (b : Base) : poIsPanic (parseHIncrBy b) = false := by
  unfold parseHIncrBy; po_nopanic

theorem parseHIncrByFloat_noPanic (b : Base) : poIsPanic (parseHIncrByFloat b) = false := by
  unfold parseHIncrByFloat; po_nopanic

theorem parseHKeys_noPanic (b : Base) : poIsPanic (parseHKeys b) = false := by
  unfold parseHKeys parseOneKey; po_nopanic

theorem parseHLen_noPanic (b : Base) : poIsPanic (parseHLen b) = false := by
  unfold parseHLen parseOneKey; po_nopanic

theorem parseHMGet_noPanic (b : Base) : poIsPanic (parseHMGet b) = false := by
  unfold parseHMGet; po_nopanic

theorem parseHMSet_noPanic (b : Base) : poIsPanic (parseHMSet b) = false := by
  unfold parseHMSet; po_nopanic

theorem parseHScan_noPanic (b : Base) : poIsPanic (parseHScan b) = false := by
  unfold parseHScan; po_nopanic

theorem parseHSet_noPanic (b : Base) : poIsPanic (parseHSet b) = false := by
  unfold parseHSet; po_nopanic

theorem parseHSetNX_noPanic (b : Base) : poIsPanic (parseHSetNX b) = false := by
  unfold parseHSetNX; po_nopanic

theorem parseHVals_noPanic (b : Base) : poIsPanic (parseHVals b) = false := by
  unfold parseHVals parseOneKey; po_nopanic

theorem parseSAdd_noPanic (b : Base) : poIsPanic (parseSAdd b) = false := by
  unfold parseSAdd; po_nopanic

theorem parseSCard_noPanic (b : Base) : poIsPanic (parseSCard b) = false := by
  unfold parseSCard parseOneKey; po_nopanic

theorem parseSDiff_noPanic (b : Base) : poIsPanic (parseSDiff b) = false := by
  unfold parseSDiff; po_nopanic

theorem parseSDiffStore_noPanic (b : Base) : poIsPanic (parseSDiffStore b) = false := by
  unfold parseSDiffStore; po_nopanic

theorem parseSInter_noPanic (b : Base) : poIsPanic (parseSInter b) = false := by
  unfold parseSInter; po_nopanic

theorem parseSInterStore_noPanic (b : Base) : poIsPanic (parseSInterStore b) = false := by
  unfold parseSInterStore; po_nopanic

theorem parseSIsMember_noPanic (b : Base) : poIsPanic (parseSIsMember b) = false := by
  unfold parseSIsMember; po_nopanic

theorem parseSMembers_noPanic (b : Base) : poIsPanic (parseSMembers b) = false := by
  unfold parseSMembers parseOneKey; po_nopanic

theorem parseSMove_noPanic (b : Base) : poIsPanic (parseSMove b) = false := by
  unfold parseSMove; po_nopanic

theorem parseSPop_noPanic (b : Base) : poIsPanic (parseSPop b) = false := by
  unfold parseSPop parseOneKey; po_nopanic

theorem parseSRandMember_noPanic (b : Base) : poIsPanic (parseSRandMember b) = false := by
  unfold parseSRandMember parseOneKey; po_nopanic

theorem parseSRem_noPanic (b : Base) : poIsPanic (parseSRem b) = false := by
  unfold parseSRem; po_nopanic

theorem parseSScan_noPanic (b : Base) : poIsPanic (parseSScan b) = false := by
  unfold parseSScan; po_nopanic

theorem parseSUnion_noPanic (b : Base) : poIsPanic (parseSUnion b) = false := by
  unfold parseSUnion; po_nopanic

theorem parseSUnionStore_noPanic (b : Base) : poIsPanic (parseSUnionStore b) = false := by
  unfold parseSUnionStore; po_nopanic

theorem parseZAdd_noPanic (b : Base) : poIsPanic (parseZAdd b) = false := by
  unfold parseZAdd; po_nopanic

theorem parseZCard_noPanic (b : Base) : poIsPanic (parseZCard b) = false := by
  unfold parseZCard parseOneKey; po_nopanic

theorem parseZCount_noPanic (b : Base) : poIsPanic (parseZCount b) = false := by
  unfold parseZCount; po_nopanic

theorem parseZIncrBy_noPanic (b : Base) : poIsPanic (parseZIncrBy b) = false := by
  unfold parseZIncrBy; po_nopanic

theorem parseZInter_noPanic (b : Base) : poIsPanic (parseZInter b) = false := by
  unfold parseZInter; po_nopanic

theorem parseZInterStore_noPanic (b : Base) : poIsPanic (parseZInterStore b) = false := by
  unfold parseZInterStore; po_nopanic

theorem parseZRange_noPanic (b : Base) : poIsPanic (parseZRange b) = false := by
  unfold parseZRange; po_nopanic

theorem parseZRangeByScore_noPanic (b : Base) : poIsPanic (parseZRangeByScore b) = false := by
  unfold parseZRangeByScore; po_nopanic

theorem parseZRank_noPanic (b : Base) : poIsPanic (parseZRank b) = false := by
  unfold parseZRank; po_nopanic

theorem parseZRem_noPanic (b : Base) : poIsPanic (parseZRem b) = false := by
  unfold parseZRem; po_nopanic

theorem parseZRemRangeByRank_noPanic (b : Base) : poIsPanic (parseZRemRangeByRank b) = false := by
  unfold parseZRemRangeByRank; po_nopanic

theorem parseZRemRangeByScore_noPanic (b : Base) : poIsPanic (parseZRemRangeByScore b) = false := by
  unfold parseZRemRangeByScore; po_nopanic

theorem parseZRevRange_noPanic (b : Base) : poIsPanic (parseZRevRange b) = false := by
  unfold parseZRevRange; po_nopanic

theorem parseZRevRangeByScore_noPanic (b : Base) : poIsPanic (parseZRevRangeByScore b) = false := by
  unfold parseZRevRangeByScore; po_nopanic

theorem parseZRevRank_noPanic (b : Base) : poIsPanic (parseZRevRank b) = false := by
  unfold parseZRevRank; po_nopanic

theorem parseZScan_noPanic (b : Base) : poIsPanic (parseZScan b) = false := by
  unfold parseZScan; po_nopanic

theorem parseZScore_noPanic (b : Base) : poIsPanic (parseZScore b) = false := by
  unfold parseZScore; po_nopanic

theorem parseZUnion_noPanic (b : Base) : poIsPanic (parseZUnion b) = false := by
  unfold parseZUnion; po_nopanic

theorem parseZUnionStore_noPanic (b : Base) : poIsPanic (parseZUnionStore b) = false := by
  unfold parseZUnionStore; po_nopanic

/-! ### per row of the dispatch table

The row list below is static text: when the Go source changes the table, this file stops compiling
and has to be regenerated. -/

/-- what is known about one row: its parse function never panics -/
def RowOK (r : String × String × List Int) : Prop :=
  ∀ b : Base, poIsPanic (parseBy r.2.1 r.2.2 b) = false

theorem row_command : RowOK ("command", "server.ParseOK", []) :=
  fun b => parseOK_noPanic b

theorem row_config : RowOK ("config", "server.ParseConfig", []) :=
  fun b => parseConfig_noPanic b

theorem row_dbsize : RowOK ("dbsize", "server.ParseDBSize", []) :=
  fun b => parseDBSize_noPanic b

theorem row_flushdb : RowOK ("flushdb", "key.ParseFlushDB", []) :=
  fun b => parseFlushDB_noPanic b

theorem row_flushall : RowOK ("flushall", "key.ParseFlushDB", []) :=
  fun b => parseFlushDB_noPanic b

theorem row_info : RowOK ("info", "server.ParseOK", []) :=
  fun b => parseOK_noPanic b

theorem row_lolwut : RowOK ("lolwut", "server.ParseLolwut", []) :=
  fun b => parseLolwut_noPanic b

theorem row_echo : RowOK ("echo", "conn.ParseEcho", []) :=
  fun b => parseEcho_noPanic b

theorem row_ping : RowOK ("ping", "conn.ParsePing", []) :=
  fun b => parsePing_noPanic b

theorem row_select : RowOK ("select", "conn.ParseSelect", []) :=
  fun b => parseSelect_noPanic b

theorem row_del : RowOK ("del", "key.ParseDel", []) :=
  fun b => parseDel_noPanic b

theorem row_exists : RowOK ("exists", "key.ParseExists", []) :=
  fun b => parseExists_noPanic b

theorem row_expire : RowOK ("expire", "key.ParseExpire", [1000]) :=
  fun b => parseExpire_noPanic b 1000

theorem row_expireat : RowOK ("expireat", "key.ParseExpireAt", [1000]) :=
  fun b => parseExpireAt_noPanic b 1000

theorem row_keys : RowOK ("keys", "key.ParseKeys", []) :=
  fun b => parseKeys_noPanic b

theorem row_persist : RowOK ("persist", "key.ParsePersist", []) :=
  fun b => parsePersist_noPanic b

theorem row_pexpire : RowOK ("pexpire", "key.ParseExpire", [1]) :=
  fun b => parseExpire_noPanic b 1

theorem row_pexpireat : RowOK ("pexpireat", "key.ParseExpireAt", [1]) :=
  fun b => parseExpireAt_noPanic b 1

theorem row_randomkey : RowOK ("randomkey", "key.ParseRandomKey", []) :=
  fun b => parseRandomKey_noPanic b

theorem row_rename : RowOK ("rename", "key.ParseRename", []) :=
  fun b => parseRename_noPanic b

theorem row_renamenx : RowOK ("renamenx", "key.ParseRenameNX", []) :=
  fun b => parseRenameNX_noPanic b

theorem row_scan : RowOK ("scan", "key.ParseScan", []) :=
  fun b => parseScan_noPanic b

theorem row_ttl : RowOK ("ttl", "key.ParseTTL", []) :=
  fun b => parseTTL_noPanic b

theorem row_type : RowOK ("type", "key.ParseType", []) :=
  fun b => parseType_noPanic b

theorem row_lindex : RowOK ("lindex", "list.ParseLIndex", []) :=
  fun b => parseLIndex_noPanic b

theorem row_linsert : RowOK ("linsert", "list.ParseLInsert", []) :=
  fun b => parseLInsert_noPanic b

theorem row_llen : RowOK ("llen", "list.ParseLLen", []) :=
  fun b => parseLLen_noPanic b

theorem row_lpop : RowOK ("lpop", "list.ParseLPop", []) :=
  fun b => parseLPop_noPanic b

theorem row_lpush : RowOK ("lpush", "list.ParseLPush", []) :=
  fun b => parseLPush_noPanic b

theorem row_lrange : RowOK ("lrange", "list.ParseLRange", []) :=
  fun b => parseLRange_noPanic b

theorem row_lrem : RowOK ("lrem", "list.ParseLRem", []) :=
  fun b => parseLRem_noPanic b

theorem row_lset : RowOK ("lset", "list.ParseLSet", []) :=
  fun b => parseLSet_noPanic b

theorem row_ltrim : RowOK ("ltrim", "list.ParseLTrim", []) :=
  fun b => parseLTrim_noPanic b

theorem row_rpop : RowOK ("rpop", "list.ParseRPop", []) :=
  fun b => parseRPop_noPanic b

theorem row_rpoplpush : RowOK ("rpoplpush", "list.ParseRPopLPush", []) :=
  fun b => parseRPopLPush_noPanic b

theorem row_rpush : RowOK ("rpush", "list.ParseRPush", []) :=
  fun b => parseRPush_noPanic b

theorem row_decr : RowOK ("decr", "string.ParseIncr", [(-1)]) :=
  fun b => parseIncr_noPanic b (-1)

theorem row_decrby : RowOK ("decrby", "string.ParseIncrBy", [(-1)]) :=
  fun b => parseIncrBy_noPanic b (-1)

theorem row_get : RowOK ("get", "string.ParseGet", []) :=
  fun b => parseGet_noPanic b

theorem row_getset : RowOK ("getset", "string.ParseGetSet", []) :=
  fun b => parseGetSet_noPanic b

theorem row_incr : RowOK ("incr", "string.ParseIncr", [1]) :=
  fun b => parseIncr_noPanic b 1

theorem row_incrby : RowOK ("incrby", "string.ParseIncrBy", [1]) :=
  fun b => parseIncrBy_noPanic b 1

theorem row_incrbyfloat : RowOK ("incrbyfloat", "string.ParseIncrByFloat", []) :=
  fun b => parseIncrByFloat_noPanic b

theorem row_mget : RowOK ("mget", "string.ParseMGet", []) :=
  fun b => parseMGet_noPanic b

theorem row_mset : RowOK ("mset", "string.ParseMSet", []) :=
  fun b => parseMSet_noPanic b

theorem row_psetex : RowOK ("psetex", "string.ParseSetEX", [1]) :=
  fun b => parseSetEX_noPanic b 1

theorem row_set : RowOK ("set", "string.ParseSet", []) :=
  fun b => parseSet_noPanic b

theorem row_setex : RowOK ("setex", "string.ParseSetEX", [1000]) :=
  fun b => parseSetEX_noPanic b 1000

theorem row_setnx : RowOK ("setnx", "string.ParseSetNX", []) :=
  fun b => parseSetNX_noPanic b

theorem row_strlen : RowOK ("strlen", "string.ParseStrlen", []) :=
  fun b => parseStrlen_noPanic b

theorem row_hdel : RowOK ("hdel", "hash.ParseHDel", []) :=
  fun b => parseHDel_noPanic b

theorem row_hexists : RowOK ("hexists", "hash.ParseHExists", []) :=
  fun b => parseHExists_noPanic b

theorem row_hget : RowOK ("hget", "hash.ParseHGet", []) :=
  fun b => parseHGet_noPanic b

theorem row_hgetall : RowOK ("hgetall", "hash.ParseHGetAll", []) :=
  fun b => parseHGetAll_noPanic b

theorem row_hincrby : RowOK ("hincrby", "hash.ParseHIncrBy", []) :=
  fun b => parseHIncrBy_noPanic b

theorem row_hincrbyfloat : RowOK ("hincrbyfloat", "hash.ParseHIncrByFloat", []) :=
  fun b => parseHIncrByFloat_noPanic b

theorem row_hkeys : RowOK ("hkeys", "hash.ParseHKeys", []) :=
  fun b => parseHKeys_noPanic b

theorem row_hlen : RowOK ("hlen", "hash.ParseHLen", []) :=
  fun b => parseHLen_noPanic b

theorem row_hmget : RowOK ("hmget", "hash.ParseHMGet", []) :=
  fun b => parseHMGet_noPanic b

theorem row_hmset : RowOK ("hmset", "hash.ParseHMSet", []) :=
  fun b => parseHMSet_noPanic b

theorem row_hscan : RowOK ("hscan", "hash.ParseHScan", []) :=
  fun b => parseHScan_noPanic b

theorem row_hset : RowOK ("hset", "hash.ParseHSet", []) :=
  fun b => parseHSet_noPanic b

theorem row_hsetnx : RowOK ("hsetnx", "hash.ParseHSetNX", []) :=
  fun b => parseHSetNX_noPanic b

theorem row_hvals : RowOK ("hvals", "hash.ParseHVals", []) :=
  fun b => parseHVals_noPanic b

theorem row_sadd : RowOK ("sadd", "set.ParseSAdd", []) :=
  fun b => parseSAdd_noPanic b

theorem row_scard : RowOK ("scard", "set.ParseSCard", []) :=
  fun b => parseSCard_noPanic b

theorem row_sdiff : RowOK ("sdiff", "set.ParseSDiff", []) :=
  fun b => parseSDiff_noPanic b

theorem row_sdiffstore : RowOK ("sdiffstore", "set.ParseSDiffStore", []) :=
  fun b => parseSDiffStore_noPanic b

theorem row_sinter : RowOK ("sinter", "set.ParseSInter", []) :=
  fun b => parseSInter_noPanic b

theorem row_sinterstore : RowOK ("sinterstore", "set.ParseSInterStore", []) :=
  fun b => parseSInterStore_noPanic b

theorem row_sismember : RowOK ("sismember", "set.ParseSIsMember", []) :=
  fun b => parseSIsMember_noPanic b

theorem row_smembers : RowOK ("smembers", "set.ParseSMembers", []) :=
  fun b => parseSMembers_noPanic b

theorem row_smove : RowOK ("smove", "set.ParseSMove", []) :=
  fun b => parseSMove_noPanic b

theorem row_spop : RowOK ("spop", "set.ParseSPop", []) :=
  fun b => parseSPop_noPanic b

theorem row_srandmember : RowOK ("srandmember", "set.ParseSRandMember", []) :=
  fun b => parseSRandMember_noPanic b

theorem row_srem : RowOK ("srem", "set.ParseSRem", []) :=
  fun b => parseSRem_noPanic b

theorem row_sscan : RowOK ("sscan", "set.ParseSScan", []) :=
  fun b => parseSScan_noPanic b

theorem row_sunion : RowOK ("sunion", "set.ParseSUnion", []) :=
  fun b => parseSUnion_noPanic b

theorem row_sunionstore : RowOK ("sunionstore", "set.ParseSUnionStore", []) :=
  fun b => parseSUnionStore_noPanic b

theorem row_zadd : RowOK ("zadd", "zset.ParseZAdd", []) :=
  fun b => parseZAdd_noPanic b

theorem row_zcard : RowOK ("zcard", "zset.ParseZCard", []) :=
  fun b => parseZCard_noPanic b

theorem row_zcount : RowOK ("zcount", "zset.ParseZCount", []) :=
  fun b => parseZCount_noPanic b

theorem row_zincrby : RowOK ("zincrby", "zset.ParseZIncrBy", []) :=
  fun b => parseZIncrBy_noPanic b

theorem row_zinter : RowOK ("zinter", "zset.ParseZInter", []) :=
  fun b => parseZInter_noPanic b

theorem row_zinterstore : RowOK ("zinterstore", "zset.ParseZInterStore", []) :=
  fun b => parseZInterStore_noPanic b

theorem row_zrange : RowOK ("zrange", "zset.ParseZRange", []) :=
  fun b => parseZRange_noPanic b

theorem row_zrangebyscore : RowOK ("zrangebyscore", "zset.ParseZRangeByScore", []) :=
  fun b => parseZRangeByScore_noPanic b

theorem row_zrank : RowOK ("zrank", "zset.ParseZRank", []) :=
  fun b => parseZRank_noPanic b

theorem row_zrem : RowOK ("zrem", "zset.ParseZRem", []) :=
  fun b => parseZRem_noPanic b

theorem row_zremrangebyrank : RowOK ("zremrangebyrank", "zset.ParseZRemRangeByRank", []) :=
  fun b => parseZRemRangeByRank_noPanic b

theorem row_zremrangebyscore : RowOK ("zremrangebyscore", "zset.ParseZRemRangeByScore", []) :=
  fun b => parseZRemRangeByScore_noPanic b

theorem row_zrevrange : RowOK ("zrevrange", "zset.ParseZRevRange", []) :=
  fun b => parseZRevRange_noPanic b

theorem row_zrevrangebyscore : RowOK ("zrevrangebyscore", "zset.ParseZRevRangeByScore", []) :=
  fun b => parseZRevRangeByScore_noPanic b

theorem row_zrevrank : RowOK ("zrevrank", "zset.ParseZRevRank", []) :=
  fun b => parseZRevRank_noPanic b

theorem row_zscan : RowOK ("zscan", "zset.ParseZScan", []) :=
  fun b => parseZScan_noPanic b

theorem row_zscore : RowOK ("zscore", "zset.ParseZScore", []) :=
  fun b => parseZScore_noPanic b

theorem row_zunion : RowOK ("zunion", "zset.ParseZUnion", []) :=
  fun b => parseZUnion_noPanic b

theorem row_zunionstore : RowOK ("zunionstore", "zset.ParseZUnionStore", []) :=
  fun b => parseZUnionStore_noPanic b

/-- the certificate list, in table order -/
theorem dispatch_rows_ok : ∀ r ∈ Generated.dispatch, RowOK r := by
  intro r hr
  simp only [Generated.dispatch, List.mem_cons, List.not_mem_nil, or_false] at hr
  rcases hr with rfl | rfl | rfl | rfl | rfl | rfl | rfl | rfl | rfl | rfl | rfl | rfl | rfl | rfl | rfl | rfl | rfl | rfl | rfl | rfl | rfl | rfl | rfl | rfl | rfl | rfl | rfl | rfl | rfl | rfl | rfl | rfl | rfl | rfl | rfl | rfl | rfl | rfl | rfl | rfl | rfl | rfl | rfl | rfl | rfl | rfl | rfl | rfl | rfl | rfl | rfl | rfl | rfl | rfl | rfl | rfl | rfl | rfl | rfl | rfl | rfl | rfl | rfl | rfl | rfl | rfl | rfl | rfl | rfl | rfl | rfl | rfl | rfl | rfl | rfl | rfl | rfl | rfl | rfl | rfl | rfl | rfl | rfl | rfl | rfl | rfl | rfl | rfl | rfl | rfl | rfl | rfl | rfl | rfl | rfl | rfl | rfl | rfl
  · exact row_command
  · exact row_config
  · exact row_dbsize
  · exact row_flushdb
  · exact row_flushall
  · exact row_info
  · exact row_lolwut
  · exact row_echo
  · exact row_ping
  · exact row_select
  · exact row_del
  · exact row_exists
  · exact row_expire
  · exact row_expireat
  · exact row_keys
  · exact row_persist
  · exact row_pexpire
  · exact row_pexpireat
  · exact row_randomkey
  · exact row_rename
  · exact row_renamenx
  · exact row_scan
  · exact row_ttl
  · exact row_type
  · exact row_lindex
  · exact row_linsert
  · exact row_llen
  · exact row_lpop
  · exact row_lpush
  · exact row_lrange
  · exact row_lrem
  · exact row_lset
  · exact row_ltrim
  · exact row_rpop
  · exact row_rpoplpush
  · exact row_rpush
  · exact row_decr
  · exact row_decrby
  · exact row_get
  · exact row_getset
  · exact row_incr
  · exact row_incrby
  · exact row_incrbyfloat
  · exact row_mget
  · exact row_mset
  · exact row_psetex
  · exact row_set
  · exact row_setex
  · exact row_setnx
  · exact row_strlen
  · exact row_hdel
  · exact row_hexists
  · exact row_hget
  · exact row_hgetall
  · exact row_hincrby
  · exact row_hincrbyfloat
  · exact row_hkeys
  · exact row_hlen
  · exact row_hmget
  · exact row_hmset
  · exact row_hscan
  · exact row_hset
  · exact row_hsetnx
  · exact row_hvals
  · exact row_sadd
  · exact row_scard
  · exact row_sdiff
  · exact row_sdiffstore
  · exact row_sinter
  · exact row_sinterstore
  · exact row_sismember
  · exact row_smembers
  · exact row_smove
  · exact row_spop
  · exact row_srandmember
  · exact row_srem
  · exact row_sscan
  · exact row_sunion
  · exact row_sunionstore
  · exact row_zadd
  · exact row_zcard
  · exact row_zcount
  · exact row_zincrby
  · exact row_zinter
  · exact row_zinterstore
  · exact row_zrange
  · exact row_zrangebyscore
  · exact row_zrank
  · exact row_zrem
  · exact row_zremrangebyrank
  · exact row_zremrangebyscore
  · exact row_zrevrange
  · exact row_zrevrangebyscore
  · exact row_zrevrank
  · exact row_zscan
  · exact row_zscore
  · exact row_zunion
  · exact row_zunionstore

theorem default_row_noPanic (b : Base) : poIsPanic (parseBy Generated.dispatchDefault [] b) = false :=
  parseUnknown_noPanic b

/-! ### `command.Parse` -/

/-- **No request makes the parser panic** (D11 repaired: before, the four `numkeys` commands did on
a negative count). -/
theorem parse_noPanic (req : List Bytes) : poIsPanic (parse req) = false := by
  unfold parse
  split
  · rfl
  · next a0 rest =>
    split
    · rfl
    · next name hname =>
      dsimp only
      unfold lookupDispatch
      cases hf : Generated.dispatch.find? (fun r => asciiBytes r.1 == name) with
      | none =>
        simp only [Option.map_none]
        exact default_row_noPanic _
      | some r =>
        simp only [Option.map_some]
        exact dispatch_rows_ok r (List.mem_of_find?_eq_some hf) _

theorem parse_ne_panic (req : List Bytes) : parse req ≠ .panic := by
  intro e
  have := parse_noPanic req
  rw [e] at this
  cases this

end Redka.WireProofs
