/-
  C11 — assembly: every repository method (`Model.tx`, `Model.dbRun`) preserves the invariant,
  except the one narrow Tx-level case classified by `KnownC11`.
-/
import RedkaModel.Proofs.InvKey
import RedkaModel.Proofs.InvStr
import RedkaModel.Proofs.InvSet
import RedkaModel.Proofs.InvHash
import RedkaModel.Proofs.InvZSet
import RedkaModel.Proofs.InvList
import RedkaModel.Proofs.InvFk

namespace Redka.Props.C11

open Redka Redka.Model Redka.InvP

/-- the constructors of `Op` for which preservation is proved: all of them -/
def Covered : Op → Bool
  | _ => true

/-- `UNIQUE constraint failed: rlist.kid, rlist.pos` -/
def isSqlUnique : Out → Bool
  | .error .sqlUnique => true
  | _ => false

/-- the error of a result, if any (`Out` itself has no decidable equality) -/
def errOf : Out → Option Err
  | .error e => some e
  | .ok _ => none

instance (db : DB) : Decidable db.Inv := inferInstanceAs (Decidable (db.invB = true))

/-- the methods that run `sqlPush` (bump the key row) before the row insert -/
def isPush : Op → Bool
  | .listPushBack .. | .listPushFront .. | .listPopBackPushFront .. => true
  | _ => false

/-- The narrowest classifier of the cases in which the step does NOT preserve the invariant:
inside a caller-managed transaction (`inTx`), a list push whose computed position collides with a
stored one — the `Tx` method returns the UNIQUE error after `sqlPush` has already added one to
`len`, and a caller that ignores the error commits that. At the `DB` level (`inTx = false`) the
wrapper rolls back: nothing is classified. -/
def KnownC11 (inTx : Bool) (op : Op) (now : Int) (db : DB) : Bool :=
  inTx && isPush op && isSqlUnique (Model.tx true op now db).out

/-- the methods whose statements rely on `ON DELETE CASCADE` (everything else never looks at the
`foreign_keys` flag) -/
def usesCascade : Op → Bool
  | .keyDelete _ | .keyDeleteAll | .keyDeleteExpired _ | .keyRename .. | .keyRenameNX .. => true
  | _ => false

theorem isSqlUnique_false {o : Out} (h : isSqlUnique o = false) : o ≠ .error .sqlUnique := by
  intro e; rw [e] at h; cases h

/-- the `Tx` method, partial effects of a failing call included -/
theorem tx_wf (b : Bool) (op : Op) (now : Int) (db : DB) (h : WF db)
    (hfk : usesCascade op = true → db.fk = true)
    (hk : (isPush op && isSqlUnique (Model.tx b op now db).out) = false) :
    WF (Model.tx b op now db).db := by
  cases op with
  | strIncr k d => exact strIncr_wf h k d now
  | strIncrFloat k d => exact strIncrFloat_wf h k d now
  | strSet k v => exact strSet_wf h k v none now
  | strSetExpires k v ttl => exact strSetExpires_wf h k v ttl now
  | strSetMany items => exact strSetMany_wf items now h
  | strSetWith k v o => exact strSetWith_wf h k v o now
  | keyDelete ks => exact keyDelete_wf h (hfk rfl) ks now
  | keyDeleteAll => exact keyDeleteAll_wf h (hfk rfl) b
  | keyDeleteExpired n => exact keyDeleteExpired_wf h (hfk rfl) n now
  | keyExpire k ttl => exact keyExpire_wf h k ttl now
  | keyExpireAt k t => exact keyExpireAt_wf h k t now
  | keyPersist k => exact keyPersist_wf h k now
  | keyRename k nk => exact keyRename_wf h (hfk rfl) k nk now
  | keyRenameNX k nk => exact keyRenameNX_wf h (hfk rfl) k nk now
  | listDelete k e => exact listDelete_wf h k e now
  | listDeleteBack k e n => exact listDeleteN_wf h k e n true now
  | listDeleteFront k e n => exact listDeleteN_wf h k e n false now
  | listInsertAfter k p e => exact listInsert_wf h k p e true now
  | listInsertBefore k p e => exact listInsert_wf h k p e false now
  | listPopBack k => exact listPop_wf h k false now
  | listPopFront k => exact listPop_wf h k true now
  | listPopBackPushFront s d =>
    exact listPopBackPushFront_wf h s d now (isSqlUnique_false (by simpa [isPush, Model.tx] using hk))
  | listPushBack k e =>
    exact listPush_wf h k e false now (isSqlUnique_false (by simpa [isPush, Model.tx] using hk))
  | listPushFront k e =>
    exact listPush_wf h k e true now (isSqlUnique_false (by simpa [isPush, Model.tx] using hk))
  | listSet k i e => exact listSet_wf h k i e now
  | listTrim k a b => exact listTrim_wf h k a b now
  | setAdd k es => exact setAdd_wf h k es now
  | setDelete k es => exact setDelete_wf h k es now
  | setDiffStore d ks => exact setDiffStore_wf h d ks now
  | setInterStore d ks => exact setInterStore_wf h d ks now
  | setUnionStore d ks => exact setUnionStore_wf h d ks now
  | setMove s d e => exact setMove_wf h s d e now
  | setPop k o => exact setPop_wf h k o now
  | hashDelete k fs => exact hashDelete_wf h k fs now
  | hashIncr k f d => exact hashIncr_wf h k f d now
  | hashIncrFloat k f d => exact hashIncrFloat_wf h k f d now
  | hashSet k f v => exact hashSet_wf h k f v now
  | hashSetMany k items => exact hashSetMany_wf h k items now
  | hashSetNotExists k f v => exact hashSetNotExists_wf h k f v now
  | zAdd k e s => exact zAdd_wf h k e s now
  | zAddMany k items => exact zAddMany_wf h k items now
  | zDelete k es => exact zDelete_wf h k es now
  | zDeleteRank k a b => exact zDeleteRank_wf h k a b now
  | zDeleteScore k lo hi => exact zDeleteScore_wf h k lo hi now
  | zIncr k e d => exact zIncr_wf h k e d now
  | zInterStore d ks agg => exact zCombineStore_wf h d ks agg true now
  | zUnionStore d ks agg => exact zCombineStore_wf h d ks agg false now
  | _ =>
    -- the read-only methods return the tables they were given
    simp only [Model.tx, strGet, strGetMany, keyCount, keyExists, keyGet, keyKeys, keyLen, keyRandom,
      keyScan, listGet, listLen, listRange, setDiff, setExists, setInter, setItems, setLen, setRandom,
      setScan, setUnion, hashExists, hashFields, hashGet, hashGetMany, hashItems, hashLen, hashScan,
      hashValues, zCount, zGetRank, zGetScore, zCombineRun, zLen, zRangeRank, zRangeScore, zScan]
    repeat' (first | exact h | split)


/-- a colliding push does break the invariant: the classifier is exact -/
theorem tx_not_wf (op : Op) (now : Int) (db : DB) (h : WF db)
    (hk : (isPush op && isSqlUnique (Model.tx true op now db).out) = true) :
    ¬ WF (Model.tx true op now db).db := by
  have unique : ∀ {o : Out}, isSqlUnique o = true → o = .error .sqlUnique := by
    intro o ho
    unfold isSqlUnique at ho
    split at ho
    · rfl
    · cases ho
  cases op <;> simp only [isPush, Bool.false_and, Bool.true_and] at hk <;> try (cases hk)
  · exact listPopBackPushFront_breaks h _ _ now (unique hk)
  · exact listPush_breaks h _ _ false now (unique hk)
  · exact listPush_breaks h _ _ true now (unique hk)

/-! ### `foreign_keys` is never touched -/

theorem tx_fk (b : Bool) (op : Op) (now : Int) (db : DB) : (Model.tx b op now db).db.fk = db.fk := by
  cases op with
  | strIncr k d => exact strIncr_fk db k d now
  | strIncrFloat k d => exact strIncrFloat_fk db k d now
  | strSet k v => exact strSet_fk db k v none now
  | strSetExpires k v ttl => exact strSet_fk db k v _ now
  | strSetMany items => exact strSetMany_fk items now db
  | strSetWith k v o => exact strSetWith_fk db k v o now
  | keyDelete ks => exact keyDelete_fk db ks now
  | keyDeleteAll => exact keyDeleteAll_fk db b
  | keyDeleteExpired n => exact keyDeleteExpired_fk db n now
  | keyExpire k ttl => exact keyExpireAt_fk db k _ now
  | keyExpireAt k t => exact keyExpireAt_fk db k t now
  | keyPersist k => exact keyPersist_fk db k now
  | keyRename k nk => exact keyRename_fk db k nk now
  | keyRenameNX k nk => exact keyRenameNX_fk db k nk now
  | listDelete k e => exact listDelete_fk db k e now
  | listDeleteBack k e n => exact listDeleteN_fk db k e n true now
  | listDeleteFront k e n => exact listDeleteN_fk db k e n false now
  | listInsertAfter k p e => exact listInsert_fk db k p e true now
  | listInsertBefore k p e => exact listInsert_fk db k p e false now
  | listPopBack k => exact listPop_fk db k false now
  | listPopFront k => exact listPop_fk db k true now
  | listPopBackPushFront s d => exact listPopBackPushFront_fk db s d now
  | listPushBack k e => exact listPush_fk db k e false now
  | listPushFront k e => exact listPush_fk db k e true now
  | listSet k i e => exact listSet_fk db k i e now
  | listTrim k a b => exact listTrim_fk db k a b now
  | setAdd k es => exact setAdd_fk db k es now
  | setDelete k es => exact setDelete_fk db k es now
  | setDiffStore d ks => exact setStore_fk db d ks now _
  | setInterStore d ks => exact setStore_fk db d ks now _
  | setUnionStore d ks => exact setStore_fk db d ks now _
  | setMove s d e => exact setMove_fk db s d e now
  | setPop k o => exact setPop_fk db k o now
  | hashDelete k fs => exact hashDelete_fk db k fs now
  | hashIncr k f d => exact hashIncr_fk db k f d now
  | hashIncrFloat k f d => exact hashIncrFloat_fk db k f d now
  | hashSet k f v => exact hashSet_fk db k f v now
  | hashSetMany k items => exact hashSetMany_fk db k items now
  | hashSetNotExists k f v => exact hashSetNotExists_fk db k f v now
  | zAdd k e s => exact zAdd_fk db k e s now
  | zAddMany k items => exact zAddMany_fk db k items now
  | zDelete k es => exact zDeleteWhere_fk db k es now
  | zDeleteRank k a b => exact zDeleteRank_fk db k a b now
  | zDeleteScore k lo hi => exact zDeleteWhere_fk db k _ now
  | zIncr k e d => exact zIncr_fk db k e d now
  | zInterStore d ks agg => exact zCombineStore_fk db d ks agg true now
  | zUnionStore d ks agg => exact zCombineStore_fk db d ks agg false now
  | _ =>
    simp only [Model.tx, strGet, strGetMany, keyCount, keyExists, keyGet, keyKeys, keyLen, keyRandom,
      keyScan, listGet, listLen, listRange, setDiff, setExists, setInter, setItems, setLen, setRandom,
      setScan, setUnion, hashExists, hashFields, hashGet, hashGetMany, hashItems, hashLen, hashScan,
      hashValues, zCount, zGetRank, zGetScore, zCombineRun, zLen, zRangeRank, zRangeScore, zScan]
    repeat' (first | rfl | split)

/-! ### the `DB`-level methods -/

theorem update_db (f : DB → Res) (db : DB) :
    (update f db).db = (match (f db).out with | .ok _ => (f db).db | .error _ => db) := by
  unfold update
  simp only
  cases (f db).out <;> rfl

theorem isPush_update {op : Op} (h : isPush op = true) : wrapOf op = .update := by
  cases op <;> first | rfl | cases h

theorem dbRun_wf (op : Op) (now : Int) (db : DB) (h : WF db) (hfk : db.fk = true) :
    WF (Model.dbRun op now db).db := by
  unfold Model.dbRun
  cases hw : wrapOf op with
  | update =>
    simp only
    rw [update_db]
    cases ho : (Model.tx true op now db).out with
    | error e => exact h
    | ok v => exact tx_wf true op now db h (fun _ => hfk) (by rw [ho]; simp [isSqlUnique])
  | roDirect =>
    refine tx_wf false op now db h (fun _ => hfk) ?_
    cases hp : isPush op
    · rfl
    · rw [isPush_update hp] at hw; cases hw
  | rwDirect =>
    refine tx_wf false op now db h (fun _ => hfk) ?_
    cases hp : isPush op
    · rfl
    · rw [isPush_update hp] at hw; cases hw

theorem dbRun_fk (op : Op) (now : Int) (db : DB) : (Model.dbRun op now db).db.fk = db.fk := by
  unfold Model.dbRun
  cases wrapOf op with
  | update =>
    simp only
    rw [update_db]
    cases (Model.tx true op now db).out with
    | error e => rfl
    | ok v => exact tx_fk true op now db
  | roDirect => exact tx_fk false op now db
  | rwDirect => exact tx_fk false op now db

/-! ### histories -/

/-- the empty database, `foreign_keys = on` -/
def init : DB := {}

/-- a history of `DB`-level calls, each with its clock value -/
def run (ops : List (Op × Int)) (db : DB) : DB :=
  ops.foldl (fun d p => (Model.dbRun p.1 p.2 d).db) db

/-- no step of the history is in the classified set (at the `DB` level the set is empty) -/
def NoKnown : List (Op × Int) → DB → Prop
  | [], _ => True
  | p :: ps, db => KnownC11 false p.1 p.2 db = false ∧ NoKnown ps (Model.dbRun p.1 p.2 db).db

theorem run_wf (ops : List (Op × Int)) : ∀ db : DB, WF db → db.fk = true →
    WF (run ops db) ∧ (run ops db).fk = true := by
  induction ops with
  | nil => intro db h hfk; exact ⟨h, hfk⟩
  | cons p ps ih =>
    intro db h hfk
    exact ih _ (dbRun_wf p.1 p.2 db h hfk) ((dbRun_fk p.1 p.2 db).trans hfk)

/-! ### orphans need `foreign_keys = off` (the D14 mechanism) -/

/-- With the cascade on, deleting key rows never orphans a child row — this needs nothing but the
owner clause itself (no uniqueness of ids). -/
theorem ownersOk_deleteKeysWhere (db : DB) (hfk : db.fk = true) (p : KeyRow → Bool)
    (h : db.ownersOk = true) : (db.deleteKeysWhere p).1.ownersOk = true := by
  rw [ownersOk_iff] at h ⊢
  simp only [DB.deleteKeysWhere, DB.cascade, hfk, if_true]
  have own : ∀ {kid ty}, Owner db kid ty →
      ((db.keys.filter p).map (·.id)).contains kid = false →
      Owner { db with keys := db.keys.filter (fun r => !p r) } kid ty := by
    rintro kid ty ⟨o, ho, e, hty⟩ hc
    refine ⟨o, List.mem_filter.2 ⟨ho, ?_⟩, e, hty⟩
    cases hp : p o
    · rfl
    · have : ((db.keys.filter p).map (·.id)).contains kid = true := by
        simp only [List.contains_eq_mem, List.mem_map, List.mem_filter, decide_eq_true_eq]
        exact ⟨o, ⟨ho, hp⟩, e⟩
      rw [hc] at this; cases this
  obtain ⟨h1, h2, h3, h4, h5⟩ := h
  refine ⟨fun x hx => ?_, fun x hx => ?_, fun x hx => ?_, fun x hx => ?_, fun x hx => ?_⟩ <;>
    obtain ⟨hm, hc⟩ := List.mem_filter.1 hx
  · exact own (h1 x hm) (by simpa using hc)
  · exact own (h2 x hm) (by simpa using hc)
  · exact own (h3 x hm) (by simpa using hc)
  · exact own (h4 x hm) (by simpa using hc)
  · exact own (h5 x hm) (by simpa using hc)

theorem ownersOk_updKey (db : DB) (id : Int) (f : KeyRow → KeyRow)
    (hf : ∀ r, (f r).id = r.id ∧ (f r).ty = r.ty) (h : db.ownersOk = true) :
    (db.updKey id f).ownersOk = true := by
  rw [ownersOk_iff] at h ⊢
  obtain ⟨h1, h2, h3, h4, h5⟩ := h
  exact ⟨fun x hx => (h1 x hx).updKey id f hf, fun x hx => (h2 x hx).updKey id f hf,
    fun x hx => (h3 x hx).updKey id f hf, fun x hx => (h4 x hx).updKey id f hf,
    fun x hx => (h5 x hx).updKey id f hf⟩

theorem ownersOk_renameStmt (db : DB) (hfk : db.fk = true) (k nk : Bytes) (now : Int)
    (h : db.ownersOk = true) : (renameStmt db k nk now).ownersOk = true := by
  unfold renameStmt
  split
  · exact h
  · rename_i r _
    show (DB.updKey (db.deleteKeysWhere (fun x => x.key == nk && x.id != r.id)).1 r.id _).ownersOk = true
    exact ownersOk_updKey _ _ _ (fun _ => ⟨rfl, rfl⟩) (ownersOk_deleteKeysWhere db hfk _ h)

/-! ### concrete databases for the witnesses and non-vacuity examples of `Props/C11.lean` -/

/-- a string key, a two-element list and a two-member set -/
def sample : DB :=
  { keys := [
      { id := 1, key := [115], ty := 1, version := 1, etime := none, mtime := 0, len := none },
      { id := 2, key := [108], ty := 2, version := 2, etime := none, mtime := 0, len := some 2 },
      { id := 3, key := [116], ty := 3, version := 1, etime := some 50, mtime := 0, len := some 2 }],
    strs := [{ kid := 1, value := [118] }],
    lists := [{ kid := 2, pos := 0, elem := [97] }, { kid := 2, pos := 1, elem := [98] }],
    sets := [{ rowid := 1, kid := 3, elem := [120] }, { rowid := 2, kid := 3, elem := [121] }] }

/-- a list whose last position is 2^53: `pos + 1` rounds back onto it -/
def collide : DB :=
  { keys := [{ id := 1, key := [108], ty := 2, version := 1, etime := none, mtime := 0, len := some 1 }],
    lists := [{ kid := 1, pos := 9007199254740992, elem := [97] }] }

/-- `sample` on a replaced connection (`foreign_keys = off`) -/
def sampleOff : DB := { sample with fk := false }

end Redka.Props.C11
