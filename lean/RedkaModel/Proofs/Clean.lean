/-
  Lemmas about `Model.keyDeleteExpired` (the cleaner), `DB.deleteKeysWhere` / `DB.cascade`, and the
  background manager of `Model/Sys.lean` (ticker arithmetic, event lists, the simulation
  "history with ticks ~ history without ticks"), used by `Props/C10clean.lean` and `Props/C20.lean`.
-/
import RedkaModel.Model.Key
import RedkaModel.Model.Inv
import RedkaModel.Spec.Abs
import RedkaModel.Spec.Meta
import RedkaModel.Model.Sys

namespace Redka.Clean

open Redka Redka.Model

/-! ### generic list facts -/

section Lists
variable {α β : Type}

theorem nodupB_iff [DecidableEq α] : ∀ l : List α, nodupB l = true ↔ l.Nodup
  | [] => by simp [nodupB]
  | x :: xs => by
    simp [nodupB, nodupB_iff xs, List.nodup_cons]

theorem perm_insertSortedBy (lt : α → α → Bool) (x : α) :
    ∀ l : List α, (insertSortedBy lt x l).Perm (x :: l)
  | [] => by simp [insertSortedBy]
  | y :: ys => by
    simp only [insertSortedBy]
    split
    · exact List.Perm.refl _
    · exact ((perm_insertSortedBy lt x ys).cons y).trans (List.Perm.swap x y ys)

theorem perm_sortBy (lt : α → α → Bool) : ∀ l : List α, (sortBy lt l).Perm l
  | [] => by simp [sortBy]
  | x :: xs => by
    have ih := perm_sortBy lt xs
    show (insertSortedBy lt x (sortBy lt xs)).Perm (x :: xs)
    exact (perm_insertSortedBy lt x _).trans (ih.cons x)

theorem mem_sortBy (lt : α → α → Bool) (l : List α) (z : α) : z ∈ sortBy lt l ↔ z ∈ l :=
  (perm_sortBy lt l).mem_iff

theorem eq_of_nodup_map (f : α → β) :
    ∀ {l : List α}, (l.map f).Nodup → ∀ {a b : α}, a ∈ l → b ∈ l → f a = f b → a = b
  | [], _, _, _, ha, _, _ => by cases ha
  | x :: xs, hnd, a, b, ha, hb, hf => by
    simp only [List.map_cons, List.nodup_cons, List.mem_map, not_exists, not_and] at hnd
    rcases List.mem_cons.1 ha with rfl | ha' <;> rcases List.mem_cons.1 hb with rfl | hb'
    · rfl
    · exact absurd hf.symm (hnd.1 b hb')
    · exact absurd hf (hnd.1 a ha')
    · exact eq_of_nodup_map f hnd.2 ha' hb' hf

theorem find?_filter_of_imp (p q : α → Bool) (h : ∀ x, p x = true → q x = true) :
    ∀ l : List α, (l.filter q).find? p = l.find? p
  | [] => rfl
  | x :: xs => by
    have ih := find?_filter_of_imp p q h xs
    by_cases hq : q x = true
    · rw [List.filter_cons_of_pos hq, List.find?_cons, List.find?_cons, ih]
    · have hp : p x = false := by
        cases hpx : p x with
        | false => rfl
        | true => exact absurd (h x hpx) hq
      rw [List.filter_cons_of_neg hq, List.find?_cons, hp, ih]

theorem find?_filter_and (p q : α → Bool) :
    ∀ l : List α, (l.filter p).find? q = l.find? (fun a => q a && p a)
  | [] => rfl
  | x :: xs => by
    have ih := find?_filter_and p q xs
    cases hp : p x <;> cases hq : q x <;>
      simp only [List.filter_cons, hp, List.find?_cons, hq, ih, Bool.and_self, Bool.and_true,
        Bool.and_false, if_true, if_false, Bool.false_eq_true]

inductive Forall2 {γ δ : Type} (R : γ → δ → Prop) : List γ → List δ → Prop
  | nil : Forall2 R [] []
  | cons {a : γ} {b : δ} {l₁ : List γ} {l₂ : List δ} : R a b → Forall2 R l₁ l₂ → Forall2 R (a :: l₁) (b :: l₂)

theorem Forall2.length_eq {γ δ : Type} {R : γ → δ → Prop} {l₁ : List γ} {l₂ : List δ}
    (h : Forall2 R l₁ l₂) : l₁.length = l₂.length := by
  induction h with
  | nil => rfl
  | cons _ _ ih => simp [ih]

theorem Forall2.eq_of_eq {γ : Type} {R : γ → γ → Prop} (hR : ∀ a b, R a b → a = b) {l₁ l₂ : List γ}
    (h : Forall2 R l₁ l₂) : l₁ = l₂ := by
  induction h with
  | nil => rfl
  | cons hab _ ih => rw [hR _ _ hab, ih]

theorem filter_filter_of_imp (p q : α → Bool) (l : List α) (h : ∀ x ∈ l, p x = true → q x = true) :
    (l.filter q).filter p = l.filter p := by
  rw [List.filter_filter]
  apply List.filter_congr
  intro x hx
  cases hp : p x with
  | false => simp
  | true => simp [h x hx hp]

theorem filterMap_congr' (f g : α → Option β) :
    ∀ l : List α, (∀ x ∈ l, f x = g x) → l.filterMap f = l.filterMap g
  | [], _ => rfl
  | x :: xs, h => by
    have ih := filterMap_congr' f g xs (fun y hy => h y (List.mem_cons_of_mem _ hy))
    simp only [List.filterMap_cons, h x List.mem_cons_self, ih]

theorem nodupB_map_filter [DecidableEq β] (f : α → β) (q : α → Bool) (l : List α)
    (h : nodupB (l.map f) = true) : nodupB ((l.filter q).map f) = true :=
  (nodupB_iff _).2 (List.Nodup.sublist (List.Sublist.map _ List.filter_sublist) ((nodupB_iff _).1 h))

theorem nodup_of_nodup_map (f : α → β) {l : List α} (h : (l.map f).Nodup) : l.Nodup :=
  (List.pairwise_map.1 h).imp (fun hne heq => hne (congrArg f heq))

/-- two duplicate-free lists with the same members have the same length -/
theorem length_eq_of_nodup_of_mem_iff [DecidableEq α] {l₁ l₂ : List α} (h₁ : l₁.Nodup) (h₂ : l₂.Nodup)
    (h : ∀ a, a ∈ l₁ ↔ a ∈ l₂) : l₁.length = l₂.length :=
  ((List.perm_ext_iff_of_nodup h₁ h₂).2 h).length_eq

end Lists

/-! ### expired / live -/

/-- the `where etime <= ?` of `sqlDeleteAllExpired` / `sqlDeleteNExpired` -/
def expired (now : Int) (r : KeyRow) : Bool :=
  match r.etime with
  | none => false
  | some t => decide (t ≤ now)

/-- the guard `etime is null or etime > ?` of every read is the exact complement of the cleaner's
`etime <= ?` -/
theorem live_eq_not_expired (now : Int) (r : KeyRow) : r.live now = !expired now r := by
  unfold KeyRow.live liveAt expired
  cases r.etime with
  | none => rfl
  | some t =>
    show decide (t > now) = !decide (t ≤ now)
    by_cases h : t ≤ now
    · have h' : ¬ t > now := by omega
      simp [h, h']
    · have h' : t > now := by omega
      simp [h, h']

theorem live_iff (now : Int) (r : KeyRow) :
    r.live now = true ↔ ¬ ∃ e, r.etime = some e ∧ e ≤ now := by
  unfold KeyRow.live liveAt
  cases r.etime with
  | none => simp
  | some t => simp

theorem expired_iff (now : Int) (r : KeyRow) :
    expired now r = true ↔ ∃ e, r.etime = some e ∧ e ≤ now := by
  unfold expired
  cases r.etime with
  | none => simp
  | some t => simp

theorem not_live_iff_expired (now : Int) (r : KeyRow) : r.live now = false ↔ expired now r = true := by
  rw [live_eq_not_expired]; cases expired now r <;> simp

/-- once expired, expired for ever (the clock does not run backwards) -/
theorem expired_mono {now now' : Int} (h : now ≤ now') {r : KeyRow} (he : expired now r = true) :
    expired now' r = true := by
  rw [expired_iff] at *
  obtain ⟨e, h1, h2⟩ := he
  exact ⟨e, h1, by omega⟩

theorem live_antimono {now now' : Int} (h : now ≤ now') {r : KeyRow} (hl : r.live now' = true) :
    r.live now = true := by
  rw [live_eq_not_expired] at *
  cases he : expired now r with
  | false => rfl
  | true => rw [expired_mono h he] at hl; exact hl

/-! ### the victims -/

theorem expiredRows_perm (db : DB) (now : Int) :
    (expiredRows db now).Perm (db.keys.filter (expired now)) := by
  unfold expiredRows
  exact perm_sortBy _ _

theorem mem_expiredRows (db : DB) (now : Int) (r : KeyRow) :
    r ∈ expiredRows db now ↔ r ∈ db.keys ∧ expired now r = true := by
  rw [(expiredRows_perm db now).mem_iff, List.mem_filter]

theorem length_expiredRows (db : DB) (now : Int) :
    (expiredRows db now).length = (db.keys.filter (expired now)).length :=
  (expiredRows_perm db now).length_eq

/-- the rows the statement selects: all expired rows, or the first `n` in `rkey_etime_idx` order -/
def victims (db : DB) (n now : Int) : List KeyRow :=
  if n > 0 then sqlLimit 0 n (expiredRows db now) else expiredRows db now

theorem victims_of_nonpos {n : Int} (h : n ≤ 0) (db : DB) (now : Int) :
    victims db n now = expiredRows db now := by
  unfold victims; rw [if_neg (by omega)]

theorem victims_of_pos {n : Int} (h : 0 < n) (db : DB) (now : Int) :
    victims db n now = (expiredRows db now).take n.toNat := by
  unfold victims sqlLimit; rw [if_pos h]
  simp only [Int.toNat_zero, List.drop_zero]
  rw [if_neg (by omega)]

theorem victims_sublist (db : DB) (n now : Int) : (victims db n now).Sublist (expiredRows db now) := by
  by_cases h : 0 < n
  · rw [victims_of_pos h]; exact List.take_sublist _ _
  · rw [victims_of_nonpos (by omega)]; exact List.Sublist.refl _

theorem mem_victims {db : DB} {n now : Int} {r : KeyRow} (h : r ∈ victims db n now) :
    r ∈ db.keys ∧ expired now r = true :=
  (mem_expiredRows db now r).1 ((victims_sublist db n now).subset h)

theorem length_victims_pos {n : Int} (h : 0 < n) (db : DB) (now : Int) :
    ((victims db n now).length : Int) = min n ((db.keys.filter (expired now)).length : Int) := by
  rw [victims_of_pos h, List.length_take, length_expiredRows]
  omega

/-- key ids are unique (`id integer primary key`; part of `DB.Inv`) -/
def KeyIdsUnique (db : DB) : Prop := (db.keys.map (·.id)).Nodup

theorem keyIdsUnique_of_inv {db : DB} (h : db.Inv) : KeyIdsUnique db := by
  unfold DB.Inv DB.invB DB.uniqueOk at h
  simp only [Bool.and_eq_true] at h
  exact (nodupB_iff _).1 h.2.1.1.1.1.1.1.1.1.1

theorem keyIdsUnique_iff (db : DB) : KeyIdsUnique db ↔ nodupB (db.keys.map (·.id)) = true :=
  (nodupB_iff _).symm

theorem eq_of_id_eq {db : DB} (h : KeyIdsUnique db) {a b : KeyRow} (ha : a ∈ db.keys) (hb : b ∈ db.keys)
    (hid : a.id = b.id) : a = b :=
  eq_of_nodup_map (fun r : KeyRow => r.id) (show (db.keys.map (fun r : KeyRow => r.id)).Nodup from h) ha hb hid

theorem keys_nodup_of_unique {db : DB} (h : KeyIdsUnique db) : db.keys.Nodup :=
  nodup_of_nodup_map _ h

theorem victims_ids_nodup {db : DB} (h : KeyIdsUnique db) (n now : Int) :
    ((victims db n now).map (·.id)).Nodup := by
  have h1 : ((db.keys.filter (expired now)).map (·.id)).Nodup :=
    List.Nodup.sublist (List.Sublist.map _ List.filter_sublist) h
  have h2 : ((expiredRows db now).map (·.id)).Nodup :=
    ((expiredRows_perm db now).map _).nodup_iff.2 h1
  exact List.Nodup.sublist (List.Sublist.map _ (victims_sublist db n now)) h2

/-- with unique ids, selecting by id selects exactly the victims -/
theorem id_mem_victims_iff {db : DB} (h : KeyIdsUnique db) {n now : Int} {r : KeyRow} (hr : r ∈ db.keys) :
    ((victims db n now).map (·.id)).contains r.id = true ↔ r ∈ victims db n now := by
  rw [List.contains_iff_mem, List.mem_map]
  constructor
  · rintro ⟨v, hv, hid⟩
    have := eq_of_id_eq h (mem_victims hv).1 hr hid
    exact this ▸ hv
  · intro hv; exact ⟨r, hv, rfl⟩

/-! ### `cascade` and `deleteKeysWhere` -/

@[simp] theorem cascade_keys (db : DB) (ids : List Int) : (db.cascade ids).keys = db.keys := by
  unfold DB.cascade; split <;> rfl

@[simp] theorem cascade_fk (db : DB) (ids : List Int) : (db.cascade ids).fk = db.fk := by
  unfold DB.cascade; split <;> rfl

theorem cascade_of_fk_off {db : DB} (h : db.fk = false) (ids : List Int) : db.cascade ids = db := by
  unfold DB.cascade; simp [h]

theorem cascade_strs {db : DB} (h : db.fk = true) (ids : List Int) :
    (db.cascade ids).strs = db.strs.filter (fun r => !ids.contains r.kid) := by
  unfold DB.cascade; simp [h]
theorem cascade_lists {db : DB} (h : db.fk = true) (ids : List Int) :
    (db.cascade ids).lists = db.lists.filter (fun r => !ids.contains r.kid) := by
  unfold DB.cascade; simp [h]
theorem cascade_sets {db : DB} (h : db.fk = true) (ids : List Int) :
    (db.cascade ids).sets = db.sets.filter (fun r => !ids.contains r.kid) := by
  unfold DB.cascade; simp [h]
theorem cascade_hashes {db : DB} (h : db.fk = true) (ids : List Int) :
    (db.cascade ids).hashes = db.hashes.filter (fun r => !ids.contains r.kid) := by
  unfold DB.cascade; simp [h]
theorem cascade_zsets {db : DB} (h : db.fk = true) (ids : List Int) :
    (db.cascade ids).zsets = db.zsets.filter (fun r => !ids.contains r.kid) := by
  unfold DB.cascade; simp [h]

/-- ids of the key rows a `delete from rkey where p` removes -/
def goneIds (db : DB) (p : KeyRow → Bool) : List Int := (db.keys.filter p).map (·.id)

theorem deleteKeysWhere_fst (db : DB) (p : KeyRow → Bool) :
    (db.deleteKeysWhere p).1 =
      ({ db with keys := db.keys.filter (fun r => !p r) } : DB).cascade (goneIds db p) := rfl

theorem deleteKeysWhere_snd (db : DB) (p : KeyRow → Bool) :
    (db.deleteKeysWhere p).2 = ((db.keys.filter p).length : Int) := rfl

@[simp] theorem deleteKeysWhere_keys (db : DB) (p : KeyRow → Bool) :
    (db.deleteKeysWhere p).1.keys = db.keys.filter (fun r => !p r) := by
  rw [deleteKeysWhere_fst, cascade_keys]

@[simp] theorem deleteKeysWhere_fk (db : DB) (p : KeyRow → Bool) :
    (db.deleteKeysWhere p).1.fk = db.fk := by
  rw [deleteKeysWhere_fst, cascade_fk]

/-- for a `where` clause that only looks at the id (as the cleaner's does) the id of a surviving
row is not among the removed ids — no uniqueness of ids needed -/
theorem survivor_id_not_gone_of_idpred (db : DB) (q : Int → Bool) {r : KeyRow}
    (hr : q r.id = false) : (goneIds db (fun x => q x.id)).contains r.id = false := by
  cases h : (goneIds db (fun x => q x.id)).contains r.id with
  | false => rfl
  | true =>
    rw [List.contains_iff_mem] at h
    simp only [goneIds, List.mem_map, List.mem_filter] at h
    obtain ⟨g, ⟨_, hq⟩, hid⟩ := h
    rw [hid, hr] at hq; cases hq

/-! ### the cleaner, unfolded -/

/-- the `where rowid in (…)` / `where etime <= ?` predicate as the model evaluates it -/
def sel (db : DB) (n now : Int) (r : KeyRow) : Bool := ((victims db n now).map (·.id)).contains r.id

theorem keyDeleteExpired_db (db : DB) (n now : Int) :
    (keyDeleteExpired db n now).db = (db.deleteKeysWhere (sel db n now)).1 := rfl

theorem keyDeleteExpired_out (db : DB) (n now : Int) :
    (keyDeleteExpired db n now).out = .ok (.int (db.deleteKeysWhere (sel db n now)).2) := rfl

theorem keyDeleteExpired_keys (db : DB) (n now : Int) :
    (keyDeleteExpired db n now).db.keys = db.keys.filter (fun r => !sel db n now r) := by
  rw [keyDeleteExpired_db, deleteKeysWhere_keys]

@[simp] theorem keyDeleteExpired_fk (db : DB) (n now : Int) :
    (keyDeleteExpired db n now).db.fk = db.fk := by
  rw [keyDeleteExpired_db, deleteKeysWhere_fk]

/-- a row the statement selects shares its id with an expired stored row -/
theorem sel_true {db : DB} {n now : Int} {r : KeyRow} (h : sel db n now r = true) :
    ∃ v ∈ db.keys, expired now v = true ∧ v.id = r.id := by
  unfold sel at h
  rw [List.contains_iff_mem, List.mem_map] at h
  obtain ⟨v, hv, hid⟩ := h
  exact ⟨v, (mem_victims hv).1, (mem_victims hv).2, hid⟩

/-- with unique ids the statement selects only expired rows -/
theorem sel_expired {db : DB} (hu : KeyIdsUnique db) {n now : Int} {r : KeyRow} (hr : r ∈ db.keys)
    (h : sel db n now r = true) : expired now r = true := by
  obtain ⟨v, hv, he, hid⟩ := sel_true h
  exact (eq_of_id_eq hu hv hr hid) ▸ he

theorem sel_live_false {db : DB} (hu : KeyIdsUnique db) {n now now' : Int} (hle : now ≤ now')
    {r : KeyRow} (hr : r ∈ db.keys) (hl : r.live now' = true) : sel db n now r = false := by
  cases h : sel db n now r with
  | false => rfl
  | true =>
    have := expired_mono hle (sel_expired hu hr h)
    rw [live_eq_not_expired, this] at hl; cases hl

/-- without a limit every expired row is selected -/
theorem sel_of_expired {db : DB} {n now : Int} (hn : n ≤ 0) {r : KeyRow} (hr : r ∈ db.keys)
    (he : expired now r = true) : sel db n now r = true := by
  unfold sel
  rw [List.contains_iff_mem, List.mem_map, victims_of_nonpos hn]
  exact ⟨r, (mem_expiredRows db now r).2 ⟨hr, he⟩, rfl⟩

theorem sel_eq_expired {db : DB} (hu : KeyIdsUnique db) {n now : Int} (hn : n ≤ 0) {r : KeyRow}
    (hr : r ∈ db.keys) : sel db n now r = expired now r := by
  cases he : expired now r with
  | true => exact sel_of_expired hn hr he
  | false =>
    cases hs : sel db n now r with
    | false => rfl
    | true => rw [sel_expired hu hr hs] at he; cases he

/-- number of rows the statement deletes, with unique ids: the number of victims -/
theorem length_filter_sel {db : DB} (hu : KeyIdsUnique db) (n now : Int) :
    (db.keys.filter (sel db n now)).length = (victims db n now).length := by
  have h1 : (db.keys.filter (sel db n now)).Nodup :=
    List.Nodup.sublist List.filter_sublist (keys_nodup_of_unique hu)
  have h2 : (victims db n now).Nodup := nodup_of_nodup_map _ (victims_ids_nodup hu n now)
  apply length_eq_of_nodup_of_mem_iff h1 h2
  intro a
  rw [List.mem_filter]
  constructor
  · rintro ⟨ha, hs⟩; exact (id_mem_victims_iff hu ha).1 hs
  · intro hv; exact ⟨(mem_victims hv).1, (id_mem_victims_iff hu (mem_victims hv).1).2 hv⟩

/-! ### children -/

/-- with unique ids a surviving row does not share its id with a removed one -/
theorem survivor_id_not_gone {db : DB} (hu : KeyIdsUnique db) (p : KeyRow → Bool) {r : KeyRow}
    (hr : r ∈ db.keys) (hp : p r = false) : (goneIds db p).contains r.id = false := by
  cases h : (goneIds db p).contains r.id with
  | false => rfl
  | true =>
    rw [List.contains_iff_mem] at h
    simp only [goneIds, List.mem_map, List.mem_filter] at h
    obtain ⟨g, ⟨hg, hpg⟩, hid⟩ := h
    rw [eq_of_id_eq hu hg hr hid, hp] at hpg; cases hpg

theorem removed_id_gone {db : DB} (p : KeyRow → Bool) {r : KeyRow}
    (hr : r ∈ db.keys) (hp : p r = true) : (goneIds db p).contains r.id = true := by
  rw [List.contains_iff_mem]
  simp only [goneIds, List.mem_map, List.mem_filter]
  exact ⟨r, ⟨hr, hp⟩, rfl⟩

theorem gone_contains_iff (db : DB) (p : KeyRow → Bool) (i : Int) :
    (goneIds db p).contains i = true ↔ ∃ k ∈ db.keys, p k = true ∧ k.id = i := by
  rw [List.contains_iff_mem]
  simp only [goneIds, List.mem_map, List.mem_filter, and_assoc]

theorem gone_not_contains_iff (db : DB) (p : KeyRow → Bool) (i : Int) :
    (goneIds db p).contains i = false ↔ ∀ k ∈ db.keys, p k = true → k.id ≠ i := by
  rw [← Bool.not_eq_true, gone_contains_iff]
  constructor
  · intro h k hk hp hid; exact h ⟨k, hk, hp, hid⟩
  · rintro h ⟨k, hk, hp, hid⟩; exact h k hk hp hid

/-- a stored row is removed by `delete from rkey where p` iff `p` selects it -/
theorem removed_iff (db : DB) (p : KeyRow → Bool) {k : KeyRow} (hk : k ∈ db.keys) :
    k ∉ (db.deleteKeysWhere p).1.keys ↔ p k = true := by
  rw [deleteKeysWhere_keys, List.mem_filter]
  cases p k <;> simp [hk]

theorem length_filter_not (l : List α) (p : α → Bool) :
    ((l.filter (fun x => !p x)).length : Int) = (l.length : Int) - ((l.filter p).length : Int) := by
  have := (List.filter_append_perm p l).length_eq
  rw [List.length_append] at this
  omega

section dkw
variable (db : DB) (p : KeyRow → Bool)

theorem dkw_strs_on (h : db.fk = true) :
    (db.deleteKeysWhere p).1.strs = db.strs.filter (fun r => !(goneIds db p).contains r.kid) := by
  rw [deleteKeysWhere_fst]
  exact cascade_strs (db := ({ db with keys := db.keys.filter (fun r => !p r) } : DB)) h _
theorem dkw_lists_on (h : db.fk = true) :
    (db.deleteKeysWhere p).1.lists = db.lists.filter (fun r => !(goneIds db p).contains r.kid) := by
  rw [deleteKeysWhere_fst]
  exact cascade_lists (db := ({ db with keys := db.keys.filter (fun r => !p r) } : DB)) h _
theorem dkw_sets_on (h : db.fk = true) :
    (db.deleteKeysWhere p).1.sets = db.sets.filter (fun r => !(goneIds db p).contains r.kid) := by
  rw [deleteKeysWhere_fst]
  exact cascade_sets (db := ({ db with keys := db.keys.filter (fun r => !p r) } : DB)) h _
theorem dkw_hashes_on (h : db.fk = true) :
    (db.deleteKeysWhere p).1.hashes = db.hashes.filter (fun r => !(goneIds db p).contains r.kid) := by
  rw [deleteKeysWhere_fst]
  exact cascade_hashes (db := ({ db with keys := db.keys.filter (fun r => !p r) } : DB)) h _
theorem dkw_zsets_on (h : db.fk = true) :
    (db.deleteKeysWhere p).1.zsets = db.zsets.filter (fun r => !(goneIds db p).contains r.kid) := by
  rw [deleteKeysWhere_fst]
  exact cascade_zsets (db := ({ db with keys := db.keys.filter (fun r => !p r) } : DB)) h _

/-- `foreign_keys = 0` (D14): only `rkey` changes -/
theorem dkw_off (h : db.fk = false) :
    (db.deleteKeysWhere p).1 = { db with keys := db.keys.filter (fun r => !p r) } := by
  rw [deleteKeysWhere_fst]
  exact cascade_of_fk_off (db := ({ db with keys := db.keys.filter (fun r => !p r) } : DB)) h _

variable {db p}

/-- the child rows of an id that is not removed are untouched, whatever `foreign_keys` is -/
theorem dkw_strs_of {id : Int} (h : (goneIds db p).contains id = false) :
    (db.deleteKeysWhere p).1.strs.filter (fun r => r.kid == id) = db.strs.filter (fun r => r.kid == id) := by
  cases hfk : db.fk with
  | false => rw [dkw_off db p hfk]
  | true =>
    rw [dkw_strs_on db p hfk]
    apply filter_filter_of_imp
    intro x _ hx; rw [eq_of_beq hx, h]; rfl
theorem dkw_lists_of {id : Int} (h : (goneIds db p).contains id = false) :
    (db.deleteKeysWhere p).1.lists.filter (fun r => r.kid == id) = db.lists.filter (fun r => r.kid == id) := by
  cases hfk : db.fk with
  | false => rw [dkw_off db p hfk]
  | true =>
    rw [dkw_lists_on db p hfk]
    apply filter_filter_of_imp
    intro x _ hx; rw [eq_of_beq hx, h]; rfl
theorem dkw_sets_of {id : Int} (h : (goneIds db p).contains id = false) :
    (db.deleteKeysWhere p).1.sets.filter (fun r => r.kid == id) = db.sets.filter (fun r => r.kid == id) := by
  cases hfk : db.fk with
  | false => rw [dkw_off db p hfk]
  | true =>
    rw [dkw_sets_on db p hfk]
    apply filter_filter_of_imp
    intro x _ hx; rw [eq_of_beq hx, h]; rfl
theorem dkw_hashes_of {id : Int} (h : (goneIds db p).contains id = false) :
    (db.deleteKeysWhere p).1.hashes.filter (fun r => r.kid == id) = db.hashes.filter (fun r => r.kid == id) := by
  cases hfk : db.fk with
  | false => rw [dkw_off db p hfk]
  | true =>
    rw [dkw_hashes_on db p hfk]
    apply filter_filter_of_imp
    intro x _ hx; rw [eq_of_beq hx, h]; rfl
theorem dkw_zsets_of {id : Int} (h : (goneIds db p).contains id = false) :
    (db.deleteKeysWhere p).1.zsets.filter (fun r => r.kid == id) = db.zsets.filter (fun r => r.kid == id) := by
  cases hfk : db.fk with
  | false => rw [dkw_off db p hfk]
  | true =>
    rw [dkw_zsets_on db p hfk]
    apply filter_filter_of_imp
    intro x _ hx; rw [eq_of_beq hx, h]; rfl

theorem dkw_strs_find_of {id : Int} (h : (goneIds db p).contains id = false) :
    (db.deleteKeysWhere p).1.strs.find? (fun r => r.kid == id) = db.strs.find? (fun r => r.kid == id) := by
  cases hfk : db.fk with
  | false => rw [dkw_off db p hfk]
  | true =>
    rw [dkw_strs_on db p hfk]
    apply find?_filter_of_imp
    intro x hx; rw [eq_of_beq hx, h]; rfl

end dkw

/-! ### the abstraction of a key row only reads the child rows of its id -/

theorem absVal_congr {db db' : DB} (r : KeyRow)
    (h1 : db'.strs.find? (fun s => s.kid == r.id) = db.strs.find? (fun s => s.kid == r.id))
    (h2 : db'.lists.filter (fun x => x.kid == r.id) = db.lists.filter (fun x => x.kid == r.id))
    (h3 : db'.sets.filter (fun x => x.kid == r.id) = db.sets.filter (fun x => x.kid == r.id))
    (h4 : db'.hashes.filter (fun x => x.kid == r.id) = db.hashes.filter (fun x => x.kid == r.id))
    (h5 : db'.zsets.filter (fun x => x.kid == r.id) = db.zsets.filter (fun x => x.kid == r.id)) :
    Spec.absVal db' r = Spec.absVal db r := by
  unfold Spec.absVal Model.listRows Model.setRows Model.hashRows
  rw [h1, h2, h3, h4, h5]

theorem absVal_dkw {db : DB} {p : KeyRow → Bool} {r : KeyRow}
    (h : (goneIds db p).contains r.id = false) :
    Spec.absVal (db.deleteKeysWhere p).1 r = Spec.absVal db r :=
  absVal_congr r (dkw_strs_find_of h) (dkw_lists_of h) (dkw_sets_of h) (dkw_hashes_of h) (dkw_zsets_of h)

/-- Deleting key rows that are not live at `now` (with their children, or without when
`foreign_keys` is off) does not change the abstract keyspace at `now`. -/
theorem abs_dkw {db : DB} (hu : KeyIdsUnique db) {p : KeyRow → Bool} {now : Int}
    (hp : ∀ r ∈ db.keys, r.live now = true → p r = false) :
    Spec.abs now (db.deleteKeysWhere p).1 = Spec.abs now db := by
  unfold Spec.abs
  simp only [deleteKeysWhere_keys]
  have hk : (db.keys.filter (fun r => !p r)).filter (fun r => r.live now) = db.keys.filter (fun r => r.live now) := by
    apply filter_filter_of_imp
    intro x hx hl; rw [hp x hx hl]; rfl
  rw [hk]
  congr 1
  apply filterMap_congr'
  intro r hr
  rw [List.mem_filter] at hr
  rw [absVal_dkw (survivor_id_not_gone hu p hr.1 (hp r hr.1 hr.2))]

/-- the cleaner at `now` is invisible at every `now' ≥ now` -/
theorem abs_keyDeleteExpired {db : DB} (hu : KeyIdsUnique db) (n : Int) {now now' : Int} (hle : now ≤ now') :
    Spec.abs now' (keyDeleteExpired db n now).db = Spec.abs now' db := by
  rw [keyDeleteExpired_db]
  exact abs_dkw hu (fun r hr hl => sel_live_false hu hle hr hl)

/-- the cleaner at `now` keeps the live rows of every `now' ≥ now`, in order -/
theorem liveRows_keyDeleteExpired {db : DB} (hu : KeyIdsUnique db) (n : Int) {now now' : Int} (hle : now ≤ now') :
    (keyDeleteExpired db n now).db.keys.filter (fun r => r.live now') = db.keys.filter (fun r => r.live now') := by
  rw [keyDeleteExpired_keys]
  apply filter_filter_of_imp
  intro x hx hl; rw [sel_live_false hu hle hx hl]; rfl

/-- after an unlimited cleaner run no stored row is expired -/
theorem live_of_mem_keyDeleteExpired {db : DB} {n now : Int} (hn : n ≤ 0) {r : KeyRow}
    (hr : r ∈ (keyDeleteExpired db n now).db.keys) : r.live now = true := by
  rw [keyDeleteExpired_keys, List.mem_filter] at hr
  cases hl : r.live now with
  | true => rfl
  | false =>
    have := sel_of_expired hn hr.1 ((not_live_iff_expired now r).1 hl)
    rw [this] at hr; exact absurd hr.2 (by decide)

/-! ### the structural invariant survives a cascading delete -/

theorem childCount_dkw {db : DB} {p : KeyRow → Bool} {r : KeyRow}
    (h : (goneIds db p).contains r.id = false) :
    (db.deleteKeysWhere p).1.childCount r = db.childCount r := by
  unfold DB.childCount
  rw [dkw_lists_of h, dkw_sets_of h, dkw_hashes_of h, dkw_zsets_of h]

theorem keysOk_dkw {db : DB} (hu : KeyIdsUnique db) (p : KeyRow → Bool) (h : db.keysOk = true) :
    (db.deleteKeysWhere p).1.keysOk = true := by
  unfold DB.keysOk at *
  rw [List.all_eq_true] at *
  intro r hr
  rw [deleteKeysWhere_keys, List.mem_filter] at hr
  have hp : p r = false := by cases hpr : p r <;> simp_all
  have hg := survivor_id_not_gone hu p hr.1 hp
  rw [dkw_strs_of hg, childCount_dkw hg]
  exact h r hr.1

theorem ownerOk_dkw {db : DB} (p : KeyRow → Bool) {kid ty : Int}
    (hg : (goneIds db p).contains kid = false) (h : db.ownerOk kid ty = true) :
    (db.deleteKeysWhere p).1.ownerOk kid ty = true := by
  unfold DB.ownerOk at *
  rw [List.any_eq_true] at *
  obtain ⟨o, ho, hot⟩ := h
  refine ⟨o, ?_, hot⟩
  rw [deleteKeysWhere_keys, List.mem_filter]
  refine ⟨ho, ?_⟩
  cases hpo : p o with
  | false => rfl
  | true =>
    have := removed_id_gone p ho hpo
    simp only [Bool.and_eq_true] at hot
    rw [eq_of_beq hot.1, hg] at this; cases this

theorem ownersOk_dkw {db : DB} (hfk : db.fk = true) (p : KeyRow → Bool) (h : db.ownersOk = true) :
    (db.deleteKeysWhere p).1.ownersOk = true := by
  unfold DB.ownersOk at *
  simp only [Bool.and_eq_true, List.all_eq_true] at *
  obtain ⟨⟨⟨⟨h1, h2⟩, h3⟩, h4⟩, h5⟩ := h
  rw [dkw_strs_on db p hfk, dkw_lists_on db p hfk, dkw_sets_on db p hfk, dkw_hashes_on db p hfk,
    dkw_zsets_on db p hfk]
  simp only [List.mem_filter, Bool.not_eq_true', and_imp]
  exact ⟨⟨⟨⟨fun x hx hg => ownerOk_dkw p hg (h1 x hx), fun x hx hg => ownerOk_dkw p hg (h2 x hx)⟩,
    fun x hx hg => ownerOk_dkw p hg (h3 x hx)⟩, fun x hx hg => ownerOk_dkw p hg (h4 x hx)⟩,
    fun x hx hg => ownerOk_dkw p hg (h5 x hx)⟩

theorem uniqueOk_dkw {db : DB} (hfk : db.fk = true) (p : KeyRow → Bool) (h : db.uniqueOk = true) :
    (db.deleteKeysWhere p).1.uniqueOk = true := by
  unfold DB.uniqueOk at *
  simp only [Bool.and_eq_true] at *
  rw [deleteKeysWhere_keys, dkw_strs_on db p hfk, dkw_lists_on db p hfk, dkw_sets_on db p hfk,
    dkw_hashes_on db p hfk, dkw_zsets_on db p hfk]
  obtain ⟨⟨⟨⟨⟨⟨⟨⟨⟨h1, h2⟩, h3⟩, h4⟩, h5⟩, h6⟩, h7⟩, h8⟩, h9⟩, h10⟩ := h
  exact ⟨⟨⟨⟨⟨⟨⟨⟨⟨nodupB_map_filter _ _ _ h1, nodupB_map_filter _ _ _ h2⟩, nodupB_map_filter _ _ _ h3⟩,
    nodupB_map_filter _ _ _ h4⟩, nodupB_map_filter _ _ _ h5⟩, nodupB_map_filter _ _ _ h6⟩,
    nodupB_map_filter _ _ _ h7⟩, nodupB_map_filter _ _ _ h8⟩, nodupB_map_filter _ _ _ h9⟩,
    nodupB_map_filter _ _ _ h10⟩

/-- `delete from rkey where …` on a connection with `foreign_keys = 1` preserves the C11 audit -/
theorem inv_dkw {db : DB} (hinv : db.Inv) (hfk : db.fk = true) (p : KeyRow → Bool) :
    (db.deleteKeysWhere p).1.Inv := by
  have hu := keyIdsUnique_of_inv hinv
  unfold DB.Inv DB.invB at *
  simp only [Bool.and_eq_true] at *
  exact ⟨⟨keysOk_dkw hu p hinv.1.1, ownersOk_dkw hfk p hinv.1.2⟩, uniqueOk_dkw hfk p hinv.2⟩

theorem keyIdsUnique_dkw {db : DB} (hu : KeyIdsUnique db) (p : KeyRow → Bool) :
    KeyIdsUnique (db.deleteKeysWhere p).1 := by
  unfold KeyIdsUnique at *
  rw [deleteKeysWhere_keys]
  exact List.Nodup.sublist (List.Sublist.map _ List.filter_sublist) hu

/-- `ownersOk` as a statement: every child row has a stored owner -/
theorem owners_of_inv {db : DB} (h : db.Inv) :
    (∀ c ∈ db.strs, ∃ k ∈ db.keys, k.id = c.kid) ∧ (∀ c ∈ db.lists, ∃ k ∈ db.keys, k.id = c.kid) ∧
    (∀ c ∈ db.sets, ∃ k ∈ db.keys, k.id = c.kid) ∧ (∀ c ∈ db.hashes, ∃ k ∈ db.keys, k.id = c.kid) ∧
    (∀ c ∈ db.zsets, ∃ k ∈ db.keys, k.id = c.kid) := by
  unfold DB.Inv DB.invB DB.ownersOk DB.ownerOk at h
  simp only [Bool.and_eq_true, List.all_eq_true, List.any_eq_true] at h
  obtain ⟨⟨_, ⟨⟨⟨⟨h1, h2⟩, h3⟩, h4⟩, h5⟩⟩, _⟩ := h
  refine ⟨?_, ?_, ?_, ?_, ?_⟩
  · intro c hc; obtain ⟨k, hk, hkk⟩ := h1 c hc; exact ⟨k, hk, eq_of_beq hkk.1⟩
  · intro c hc; obtain ⟨k, hk, hkk⟩ := h2 c hc; exact ⟨k, hk, eq_of_beq hkk.1⟩
  · intro c hc; obtain ⟨k, hk, hkk⟩ := h3 c hc; exact ⟨k, hk, eq_of_beq hkk.1⟩
  · intro c hc; obtain ⟨k, hk, hkk⟩ := h4 c hc; exact ⟨k, hk, eq_of_beq hkk.1⟩
  · intro c hc; obtain ⟨k, hk, hkk⟩ := h5 c hc; exact ⟨k, hk, eq_of_beq hkk.1⟩

/-! ## the background manager (`Model/Sys.lean`) -/

open Redka.Sys

/-! ### reads do not write -/

/-- a `DB`-level read leaves the six tables as they are -/
theorem read_db_unchanged (o : Op) (now : Int) (db : DB) (h : Spec.isRead o = true) :
    (dbRun o now db).db = db := by
  cases o <;> simp only [Spec.isRead] at h <;> (try cases h) <;> simp only [dbRun, wrapOf, tx]
  all_goals
    first
    | rfl
    | (unfold Model.strGet; (repeat' split) <;> rfl)
    | (unfold Model.strGetMany; (repeat' split) <;> rfl)
    | (unfold Model.keyGet; (repeat' split) <;> rfl)
    | (unfold Model.keyRandom; dsimp only; (repeat' split) <;> rfl)
    | (unfold Model.listGet; (repeat' split) <;> rfl)
    | (unfold Model.listLen; (repeat' split) <;> rfl)
    | (unfold Model.listRange; dsimp only; (repeat' split) <;> rfl)
    | (unfold Model.setInter; (repeat' split) <;> rfl)
    | (unfold Model.setUnion; (repeat' split) <;> rfl)
    | (unfold Model.setExists; (repeat' split) <;> rfl)
    | (unfold Model.setItems; (repeat' split) <;> rfl)
    | (unfold Model.setLen; (repeat' split) <;> rfl)
    | (unfold Model.setRandom; dsimp only; (repeat' split) <;> rfl)
    | (unfold Model.setScan; (repeat' split) <;> rfl)
    | (unfold Model.hashExists; (repeat' split) <;> rfl)
    | (unfold Model.hashGet; (repeat' split) <;> rfl)
    | (unfold Model.hashLen; (repeat' split) <;> rfl)
    | (unfold Model.hashScan; (repeat' split) <;> rfl)
    | (unfold Model.zCount; (repeat' split) <;> rfl)
    | (unfold Model.zGetRank; dsimp only; (repeat' split) <;> rfl)
    | (unfold Model.zGetScore; (repeat' split) <;> rfl)
    | (unfold Model.zCombineRun; dsimp only; (repeat' split) <;> rfl)
    | (unfold Model.zLen; (repeat' split) <;> rfl)
    | (unfold Model.zRangeRank; (repeat' split) <;> rfl)
    | (unfold Model.zRangeScore; (repeat' split) <;> rfl)
    | (unfold Model.zScan; (repeat' split) <;> rfl)

/-- the reads of the key repository whose result is a function of the live key rows
(`Len` is not one of them: it counts every stored row — D06) -/
def isKeyRead : Op → Bool
  | .keyCount _ | .keyExists _ | .keyGet _ | .keyKeys _ | .keyRandom _ | .keyScan .. => true
  | _ => false

theorem isRead_of_isKeyRead {o : Op} (h : isKeyRead o = true) : Spec.isRead o = true := by
  cases o <;> simp only [isKeyRead] at h <;> first | rfl | cases h

theorem keyCountRaw_live (db : DB) (ks : List Bytes) (now : Int) :
    keyCountRaw db ks now =
      (((db.keys.filter (fun r => r.live now)).filter (fun r => ks.contains r.key)).length : Int) := by
  unfold keyCountRaw; rw [List.filter_filter]

theorem liveKey_live (db : DB) (k : Bytes) (now : Int) :
    db.liveKey k now = (db.keys.filter (fun r => r.live now)).find? (fun r => r.key == k) := by
  unfold DB.liveKey
  rw [find?_filter_and]

/-- the result of a key-repository read is a function of the live rows -/
theorem keyRead_out_congr {o : Op} (h : isKeyRead o = true) (now : Int) {a b : DB}
    (hk : a.keys.filter (fun r => r.live now) = b.keys.filter (fun r => r.live now)) :
    (dbRun o now a).out = (dbRun o now b).out := by
  cases o <;> simp only [isKeyRead] at h <;> (try cases h) <;> simp only [dbRun, wrapOf, tx]
  · simp only [Model.keyCount, Res.ok, keyCountRaw_live, hk]
  · simp only [Model.keyExists, Res.ok, keyCountRaw_live, hk]
  · simp only [Model.keyGet, liveKey_live, hk]
    split <;> rfl
  · simp only [Model.keyKeys, Res.ok]
    rw [← List.filter_filter, ← List.filter_filter, hk]
  · simp only [Model.keyRandom, hk]
    (repeat' split) <;> rfl
  · simp only [Model.keyScan, Res.ok]
    rw [← List.filter_filter, ← List.filter_filter (l := b.keys), hk]

/-! ### ticker arithmetic -/

/-- a ticker with positive period created at `t0` fires in every half-open window of one period
that starts after `t0` -/
theorem exists_tick_in_window (bg : Bg) (hp : 0 < bg.period) {e : Int} (he : bg.t0 < e) :
    ∃ k : Nat, 1 ≤ k ∧ e ≤ tickAt bg k ∧ tickAt bg k < e + bg.period := by
  have hq1 : 1 ≤ (e - bg.t0 + bg.period - 1) / bg.period :=
    Int.le_ediv_of_mul_le hp (by omega)
  have hmod := Int.mul_ediv_add_emod (e - bg.t0 + bg.period - 1) bg.period
  have hm0 := Int.emod_nonneg (e - bg.t0 + bg.period - 1) (Int.ne_of_gt hp)
  have hm1 := Int.emod_lt_of_pos (e - bg.t0 + bg.period - 1) hp
  have hcast : (((e - bg.t0 + bg.period - 1) / bg.period).toNat : Int)
      = (e - bg.t0 + bg.period - 1) / bg.period := Int.toNat_of_nonneg (by omega)
  refine ⟨((e - bg.t0 + bg.period - 1) / bg.period).toNat, by omega, ?_, ?_⟩
  all_goals
    unfold tickAt
    rw [hcast, Int.mul_comm]
    generalize bg.period * ((e - bg.t0 + bg.period - 1) / bg.period) = m at hmod
    omega

theorem tickAt_one (bg : Bg) : tickAt bg 1 = bg.t0 + bg.period := by
  unfold tickAt; omega

theorem tickAt_succ (bg : Bg) (k : Nat) : tickAt bg (k + 1) = tickAt bg k + bg.period := by
  unfold tickAt
  rw [Int.natCast_succ, Int.add_mul]; omega

theorem mem_tickTimes (bg : Bg) (horizon t : Int) :
    t ∈ tickTimes bg horizon ↔
      bg.running = true ∧ 0 < bg.period ∧ ∃ k : Nat, 1 ≤ k ∧ t = tickAt bg k ∧ t ≤ horizon := by
  unfold tickTimes
  by_cases hr : bg.running = true
  · by_cases hp : 0 < bg.period
    · simp only [hr, hp, decide_true, Bool.and_self, if_true, List.mem_map, List.mem_range, true_and]
      have hmod := Int.mul_ediv_add_emod (horizon - bg.t0) bg.period
      have hm0 := Int.emod_nonneg (horizon - bg.t0) (Int.ne_of_gt hp)
      have hm1 := Int.emod_lt_of_pos (horizon - bg.t0) hp
      constructor
      · rintro ⟨i, hi, rfl⟩
        refine ⟨i + 1, by omega, rfl, ?_⟩
        -- (i+1) ≤ (horizon - t0) / period
        have h1 : ((i + 1 : Nat) : Int) ≤ (horizon - bg.t0) / bg.period := by omega
        have h2 : ((i + 1 : Nat) : Int) * bg.period ≤ (horizon - bg.t0) / bg.period * bg.period :=
          Int.mul_le_mul_of_nonneg_right h1 (Int.le_of_lt hp)
        unfold tickAt
        rw [Int.mul_comm ((horizon - bg.t0) / bg.period)] at h2
        generalize bg.period * ((horizon - bg.t0) / bg.period) = m at hmod h2
        omega
      · rintro ⟨k, hk, rfl, hle⟩
        refine ⟨k - 1, ?_, by rw [Nat.sub_add_cancel hk]⟩
        unfold tickAt at hle
        have h3 : (k : Int) * bg.period ≤ horizon - bg.t0 := by omega
        have h4 : (k : Int) ≤ (horizon - bg.t0) / bg.period := Int.le_ediv_of_mul_le hp h3
        omega
    · simp [hp]
  · simp [hr]

/-! ### event lists -/

theorem runEvents_append (bg : Bg) (db : DB) (xs ys : List Ev) :
    runEvents bg db (xs ++ ys) = runEvents (runEvents bg db xs).1 (runEvents bg db xs).2 ys := by
  induction xs generalizing bg db with
  | nil => rfl
  | cons x xs ih => exact ih _ _

theorem step_bg_of_not_close (bg : Bg) (db : DB) {ev : Ev} (h : ev ≠ Ev.close) : (step bg db ev).1 = bg := by
  cases ev with
  | op o now => rfl
  | tick now => simp only [step]; split <;> rfl
  | close => exact absurd rfl h

/-- the ticker keeps running as long as nobody closes the database -/
theorem runEvents_bg_of_no_close (bg : Bg) (db : DB) (evs : List Ev) (h : Ev.close ∉ evs) :
    (runEvents bg db evs).1 = bg := by
  induction evs generalizing bg db with
  | nil => rfl
  | cons x xs ih =>
    have hx : x ≠ Ev.close := fun hx => h (hx ▸ List.mem_cons_self)
    have hxs : Ev.close ∉ xs := fun hm => h (List.mem_cons_of_mem _ hm)
    show (runEvents (step bg db x).1 (step bg db x).2 xs).1 = bg
    rw [ih _ _ hxs, step_bg_of_not_close bg db hx]

theorem close_running (bg : Bg) : bg.close.running = false := by
  have : closeStopsBg = true := by decide
  simp [Bg.close, this]

/-- a stopped (or never started) ticker: tick events are no-ops -/
theorem runEvents_stopped (bg : Bg) (db : DB) (evs : List Ev) (h : bg.running = false) :
    runEvents bg db evs = runEvents bg db (dropTicks evs) := by
  induction evs generalizing bg db with
  | nil => rfl
  | cons x xs ih =>
    cases x with
    | op o now => exact ih _ _ h
    | tick now =>
      show runEvents (step bg db (.tick now)).1 (step bg db (.tick now)).2 xs = runEvents bg db (dropTicks xs)
      have : step bg db (.tick now) = (bg, db) := by simp [step, h]
      rw [this]; exact ih _ _ h
    | close => exact ih _ _ (close_running bg)

theorem runEvents_stopped_ticks (bg : Bg) (db : DB) (evs : List Ev) (h : bg.running = false)
    (ht : ∀ ev ∈ evs, ev.isTick = true) : runEvents bg db evs = (bg, db) := by
  rw [runEvents_stopped bg db evs h]
  have : dropTicks evs = [] := by
    unfold dropTicks
    rw [List.filter_eq_nil_iff]
    intro a ha; simp [ht a ha]
  rw [this]; rfl

theorem outputs_stopped (bg : Bg) (db : DB) (evs : List Ev) (h : bg.running = false) :
    outputs bg db evs = outputs bg db (dropTicks evs) := by
  induction evs generalizing bg db with
  | nil => rfl
  | cons x xs ih =>
    cases x with
    | op o now =>
      show _ :: outputs bg _ xs = _ :: outputs bg _ (dropTicks xs)
      rw [ih _ _ h]
    | tick now =>
      show outputs (step bg db (.tick now)).1 (step bg db (.tick now)).2 xs = outputs bg db (dropTicks xs)
      have : step bg db (.tick now) = (bg, db) := by simp [step, h]
      rw [this]; exact ih _ _ h
    | close => exact ih _ _ (close_running bg)

/-! ### the clock -/

/-- the time of the last timed event (`t` when there is none) -/
def lastTime (t : Int) : List Ev → Int
  | [] => t
  | ev :: rest => lastTime (ev.time?.getD t) rest

theorem timesFrom_op {t : Int} {o : Op} {now : Int} {rest : List Ev}
    (h : TimesFrom t (.op o now :: rest)) : t ≤ now ∧ TimesFrom now rest := by
  unfold TimesFrom evTimes at *
  simp only [List.filterMap_cons, Ev.time?, List.pairwise_cons] at h
  exact ⟨h.1 now List.mem_cons_self, List.pairwise_cons.2 h.2⟩

theorem timesFrom_tick {t : Int} {now : Int} {rest : List Ev}
    (h : TimesFrom t (.tick now :: rest)) : t ≤ now ∧ TimesFrom now rest := by
  unfold TimesFrom evTimes at *
  simp only [List.filterMap_cons, Ev.time?, List.pairwise_cons] at h
  exact ⟨h.1 now List.mem_cons_self, List.pairwise_cons.2 h.2⟩

theorem timesFrom_close {t : Int} {rest : List Ev}
    (h : TimesFrom t (.close :: rest)) : TimesFrom t rest := h

theorem le_lastTime {t : Int} {evs : List Ev} (h : TimesFrom t evs) : t ≤ lastTime t evs := by
  induction evs generalizing t with
  | nil => exact Int.le_refl _
  | cons x xs ih =>
    cases x with
    | op o now => have := timesFrom_op h; exact Int.le_trans this.1 (ih this.2)
    | tick now => have := timesFrom_tick h; exact Int.le_trans this.1 (ih this.2)
    | close => exact ih (timesFrom_close h)

/-! ### reclamation is a simulation -/

/-- a relation "`a` is `b` with some reclamation done, as far as anybody can tell from time `t`
on" that ticks preserve on the left -/
structure ReclaimRel (good : DB → Prop) (R : Int → DB → DB → Prop) : Prop where
  mono : ∀ {t t' : Int} {a b : DB}, t ≤ t' → R t a b → R t' a b
  tick : ∀ {t now : Int} {a b : DB} (n : Int), good a → t ≤ now → R t a b →
    R now (keyDeleteExpired a n now).db b
  goodTick : ∀ {a : DB} (n now : Int), good a → good (keyDeleteExpired a n now).db

/-- what has to be known about one operation: it keeps the state well-formed, and run on two
related states it gives results that `obs` cannot tell apart and related states -/
structure OpCongruent (good : DB → Prop) (R : Int → DB → DB → Prop)
    (obs : Op → Out → Out → Prop) (o : Op) : Prop where
  pres : ∀ (now : Int) (db : DB), good db → good (dbRun o now db).db
  congr : ∀ (now : Int) (a b : DB), good a → good b → R now a b →
    obs o (dbRun o now a).out (dbRun o now b).out ∧ R now (dbRun o now a).db (dbRun o now b).db

/-- results of two histories agree: same operations, `obs`-equal results -/
def ObsEq (obs : Op → Out → Out → Prop) (p q : Op × Out) : Prop := p.1 = q.1 ∧ obs p.1 p.2 q.2

theorem simulate {good : DB → Prop} {R : Int → DB → DB → Prop} {obs : Op → Out → Out → Prop}
    (hR : ReclaimRel good R) :
    ∀ (evs : List Ev) (t : Int) (bg : Bg) (a b : DB), good a → good b → R t a b → TimesFrom t evs →
      (∀ o ∈ opsOf evs, OpCongruent good R obs o) →
      Forall2 (ObsEq obs) (outputs bg a evs) (outputs bg b (dropTicks evs)) ∧
      R (lastTime t evs) (runEvents bg a evs).2 (runEvents bg b (dropTicks evs)).2 ∧
      (runEvents bg a evs).1 = (runEvents bg b (dropTicks evs)).1 ∧
      good (runEvents bg a evs).2 ∧ good (runEvents bg b (dropTicks evs)).2 := by
  intro evs
  induction evs with
  | nil => intro t bg a b ga gb hr _ _; exact ⟨Forall2.nil, hr, rfl, ga, gb⟩
  | cons x xs ih =>
    intro t bg a b ga gb hr ht hops
    cases x with
    | op o now =>
      have htt := timesFrom_op ht
      have hc : OpCongruent good R obs o := hops o (by simp [opsOf])
      have hrest : ∀ o' ∈ opsOf xs, OpCongruent good R obs o' := fun o' ho' => hops o' (by simp [opsOf, ho'])
      have h1 := hc.congr now a b ga gb (hR.mono htt.1 hr)
      have := ih now bg _ _ (hc.pres now a ga) (hc.pres now b gb) h1.2 htt.2 hrest
      exact ⟨Forall2.cons ⟨rfl, h1.1⟩ this.1, this.2⟩
    | tick now =>
      have htt := timesFrom_tick ht
      have hrest : ∀ o' ∈ opsOf xs, OpCongruent good R obs o' := fun o' ho' => hops o' (by simpa [opsOf] using ho')
      show Forall2 (ObsEq obs) (outputs (step bg a (.tick now)).1 (step bg a (.tick now)).2 xs)
          (outputs bg b (dropTicks xs)) ∧
        R (lastTime now xs) (runEvents (step bg a (.tick now)).1 (step bg a (.tick now)).2 xs).2
          (runEvents bg b (dropTicks xs)).2 ∧
        (runEvents (step bg a (.tick now)).1 (step bg a (.tick now)).2 xs).1 = (runEvents bg b (dropTicks xs)).1 ∧
        good (runEvents (step bg a (.tick now)).1 (step bg a (.tick now)).2 xs).2 ∧
        good (runEvents bg b (dropTicks xs)).2
      cases hrun : bg.running with
      | false =>
        have hs : step bg a (.tick now) = (bg, a) := by simp [step, hrun]
        rw [hs]
        exact ih now bg a b ga gb (hR.mono htt.1 hr) htt.2 hrest
      | true =>
        have hs : step bg a (.tick now) = (bg, (keyDeleteExpired a bg.nKeys now).db) := by
          simp [step, hrun, Sys.tick]
        rw [hs]
        exact ih now bg _ b (hR.goodTick _ _ ga) gb (hR.tick _ ga htt.1 hr) htt.2 hrest
    | close =>
      have hrest : ∀ o' ∈ opsOf xs, OpCongruent good R obs o' := fun o' ho' => hops o' (by simpa [opsOf] using ho')
      exact ih t bg.close a b ga gb hr (timesFrom_close ht) hrest

/-- equal abstract keyspace from `t` on -/
def AbsEqFrom (t : Int) (a b : DB) : Prop := ∀ t', t ≤ t' → Spec.abs t' a = Spec.abs t' b

/-- equal live key rows from `t` on -/
def LiveRowsEqFrom (t : Int) (a b : DB) : Prop :=
  ∀ t', t ≤ t' → a.keys.filter (fun r => r.live t') = b.keys.filter (fun r => r.live t')

theorem absRel : ReclaimRel KeyIdsUnique AbsEqFrom where
  mono := fun hle h t' ht' => h t' (Int.le_trans hle ht')
  tick := fun n ga hle h t' ht' => by
    rw [abs_keyDeleteExpired ga n ht']; exact h t' (Int.le_trans hle ht')
  goodTick := fun n now ga => by rw [keyDeleteExpired_db]; exact keyIdsUnique_dkw ga _

theorem bothRel : ReclaimRel KeyIdsUnique (fun t a b => AbsEqFrom t a b ∧ LiveRowsEqFrom t a b) where
  mono := fun hle h => ⟨fun t' ht' => h.1 t' (Int.le_trans hle ht'), fun t' ht' => h.2 t' (Int.le_trans hle ht')⟩
  tick := fun n ga hle h => ⟨fun t' ht' => by
      rw [abs_keyDeleteExpired ga n ht']; exact h.1 t' (Int.le_trans hle ht'),
    fun t' ht' => by
      rw [liveRows_keyDeleteExpired ga n ht']; exact h.2 t' (Int.le_trans hle ht')⟩
  goodTick := fun n now ga => by rw [keyDeleteExpired_db]; exact keyIdsUnique_dkw ga _

/-- what is claimed about the result of a read here: key-repository reads return the very same
value; nothing is claimed about the others (that is the refinement theorem's business) -/
def obsRead (o : Op) (x y : Out) : Prop := isKeyRead o = true → x = y

/-- every read is congruent for the combined relation -/
theorem read_congruent {o : Op} (h : Spec.isRead o = true) :
    OpCongruent KeyIdsUnique (fun t a b => AbsEqFrom t a b ∧ LiveRowsEqFrom t a b) obsRead o where
  pres := fun now db g => by rw [read_db_unchanged o now db h]; exact g
  congr := fun now a b _ _ hr => by
    rw [read_db_unchanged o now a h, read_db_unchanged o now b h]
    exact ⟨fun hk => keyRead_out_congr hk now (hr.2 now (Int.le_refl now)), hr⟩

end Redka.Clean
