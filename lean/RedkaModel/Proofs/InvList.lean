/-
  C11 — the list repository (`internal/rlist`): which methods preserve the invariant, and under
  which (narrow) conditions `Push` / `Insert` leave `len` one above the number of rows.
-/
import RedkaModel.Proofs.InvPrim

namespace Redka.InvP

open Redka Redka.Model

variable {db : DB}

/-! ### counting the rows hit by a list of distinct positions -/

theorem length_filter_or_disjoint {α} (p1 p2 : α → Bool)
    (hd : ∀ x, ¬(p1 x = true ∧ p2 x = true)) :
    ∀ l : List α, (l.filter (fun x => p1 x || p2 x)).length
      = (l.filter p1).length + (l.filter p2).length
  | [] => rfl
  | x :: xs => by
    have ih := length_filter_or_disjoint p1 p2 hd xs
    have := hd x
    cases h1 : p1 x <;> cases h2 : p2 x <;> simp [h1, h2] at this ⊢ <;> omega

theorem count_victims {l : List ListRow}
    (hu : l.Pairwise (fun a b => (a.kid, a.pos) ≠ (b.kid, b.pos))) (kid : Int) :
    ∀ V : List Dyadic, V.Nodup → (∀ v ∈ V, ∃ x ∈ l, x.kid = kid ∧ x.pos = v) →
      (l.filter (fun x => x.kid == kid && V.contains x.pos)).length = V.length
  | [], _, _ => by simp
  | v :: V, hnd, hex => by
    rw [List.nodup_cons] at hnd
    have ih := count_victims hu kid V hnd.2 (fun w hw => hex w (List.mem_cons_of_mem _ hw))
    have hsplit : l.filter (fun x => x.kid == kid && (v :: V).contains x.pos)
        = l.filter (fun x => (x.kid == kid && x.pos == v) || (x.kid == kid && V.contains x.pos)) := by
      apply List.filter_congr; intro x _
      rw [List.contains_cons]
      cases x.kid == kid <;> simp
    rw [hsplit, length_filter_or_disjoint _ _ (fun x ⟨h1, h2⟩ => by
      simp only [Bool.and_eq_true, beq_iff_eq, List.contains_eq_mem, decide_eq_true_eq] at h1 h2
      exact hnd.1 (h1.2 ▸ h2.2)), ih]
    have hle := length_filter_le_one hu (fun x => x.kid == kid && x.pos == v)
      (fun a b ha hb hR => by
        simp only [Bool.and_eq_true, beq_iff_eq] at ha hb
        exact hR (by rw [ha.1, ha.2, hb.1, hb.2]))
    have hpos : 0 < (l.filter (fun x => x.kid == kid && x.pos == v)).length := by
      rw [List.length_filter_pos_iff]
      obtain ⟨x, hx, hk, hp⟩ := hex v List.mem_cons_self
      exact ⟨x, hx, by simp [hk, hp]⟩
    simp only [List.length_cons]
    omega

/-! ### triggers -/

theorem listOnDelete_fold {kid now : Int} (vs : List Dyadic) :
    ∀ {δ : Int → Int} {db : DB}, WFd δ db → Owner db kid TList →
      WFd (fun i => if i = kid then δ i - vs.length else δ i)
        (vs.foldl (fun d _ => listOnDelete d kid now) db) := by
  induction vs with
  | nil => intro δ db h _; exact h.congr (fun o _ => by simp)
  | cons v vs ih =>
    intro δ db h ho
    rw [List.foldl_cons]
    have h1 := WFd.updKey h kid (fun o => { o with version := o.version + 1, mtime := now, len := o.len.map (· - 1) }) (-1)
      (fun r _ _ => ⟨rfl, rfl, rfl, rfl⟩)
      (fun r hr e hs => absurd hs (ho.not_string h (by decide) r hr e))
    have ho1 : Owner (listOnDelete db kid now) kid TList := ho.updKey _ _ (fun _ => ⟨rfl, rfl⟩)
    refine (ih h1 ho1).congr (fun o _ => ?_)
    show (if o.id = kid then δ o.id - ((vs.length + 1 : Nat) : Int) else δ o.id)
      = if o.id = kid then (if o.id = kid then δ o.id + -1 else δ o.id) - (vs.length : Int)
        else (if o.id = kid then δ o.id + -1 else δ o.id)
    split <;> omega

theorem listOnDelete_fold_owner {kid now : Int} {k t : Int} (vs : List Dyadic) :
    ∀ {db : DB}, Owner db k t → Owner (vs.foldl (fun d _ => listOnDelete d kid now) db) k t := by
  induction vs with
  | nil => intro db h; exact h
  | cons v vs ih =>
    intro db h
    rw [List.foldl_cons]
    exact ih (h.updKey _ _ (fun _ => ⟨rfl, rfl⟩))

/-- `delete from rlist where kid = ? and pos in (…)` with the per-row trigger `rlist_on_delete` -/
theorem listDeleteRows_wf (h : WF db) {kid : Int} (ho : Owner db kid TList) (V : List Dyadic)
    (now : Int) (hnd : V.Nodup) (hex : ∀ v ∈ V, ∃ x ∈ db.lists, x.kid = kid ∧ x.pos = v) :
    WF (listDeleteRows db kid V now) := by
  unfold listDeleteRows
  have hn := count_victims h.uL kid V hnd hex
  have h1 : WFd (fun i => if i = kid then (V.length : Int) else 0)
      { db with lists := db.lists.filter (fun x => !(x.kid == kid && V.contains x.pos)) } := by
    refine WFd.setLists h _ (fun x hx => h.oL x (List.mem_filter.1 hx).1) (h.uL.filter _) ?_
    intro o _
    have := count_remove (·.kid) (fun x : ListRow => V.contains x.pos) db.lists kid o.id
    simp only [cL]
    rw [hn] at this
    omega
  have ho1 : Owner { db with lists := db.lists.filter (fun x => !(x.kid == kid && V.contains x.pos)) }
      kid TList := ho
  refine (listOnDelete_fold V h1 ho1).congr (fun o _ => ?_)
  show (0 : Int) = if o.id = kid then (if o.id = kid then (V.length : Int) else 0) - V.length
    else (if o.id = kid then (V.length : Int) else 0)
  split <;> omega


/-! ### the rows of one list -/

theorem mem_listRows {db : DB} {kid : Int} {x : ListRow} :
    x ∈ listRows db kid ↔ x ∈ db.lists ∧ x.kid = kid := by
  unfold listRows
  rw [mem_sortBy, List.mem_filter]
  simp

theorem listRows_pos_nodup {δ : Int → Int} (h : WFd δ db) (kid : Int) :
    ((listRows db kid).map (·.pos)).Nodup := by
  unfold listRows
  rw [((sortBy_perm _ _).map _).nodup_iff]
  show List.Pairwise _ _
  rw [List.pairwise_map]
  refine (h.uL.filter _).imp_of_mem ?_
  intro a b ha hb hab e
  have ha := (List.mem_filter.1 ha).2
  have hb := (List.mem_filter.1 hb).2
  simp only [beq_iff_eq] at ha hb
  exact hab (by rw [ha, hb, e])

/-- positions taken from a sub-list of (a permutation of) the rows of one list are distinct and
each designates a stored row -/
theorem victims_ok {δ : Int → Int} (h : WFd δ db) {kid : Int} {sub rows' : List ListRow}
    (hs : sub.Sublist rows') (hp : rows'.Perm (listRows db kid)) :
    (sub.map (·.pos)).Nodup ∧ ∀ v ∈ sub.map (·.pos), ∃ x ∈ db.lists, x.kid = kid ∧ x.pos = v := by
  constructor
  · refine List.Nodup.sublist (hs.map _) ?_
    rw [(hp.map _).nodup_iff]
    exact listRows_pos_nodup h kid
  · intro v hv
    obtain ⟨x, hx, rfl⟩ := List.mem_map.1 hv
    have := mem_listRows.1 (hp.subset (hs.subset hx))
    exact ⟨x, this.1, this.2, rfl⟩

theorem sqlLimit_sublist {α} (off cnt : Int) (l : List α) : (sqlLimit off cnt l).Sublist l := by
  unfold sqlLimit
  simp only
  split
  · exact List.drop_sublist _ _
  · exact (List.take_sublist _ _).trans (List.drop_sublist _ _)

/-! ### the methods -/

theorem listPop_wf (h : WF db) (k : Bytes) (front : Bool) (now : Int) :
    WF (listPop db k front now).db := by
  unfold listPop
  split
  · exact h
  · rename_i r hl
    simp only
    split
    · exact h
    · rename_i row hrow
      have hmem : row ∈ listRows db r.id := by
        cases front
        · exact List.mem_of_mem_getLast? (by simpa using hrow)
        · exact List.mem_of_mem_head? (by simpa using hrow)
      have := mem_listRows.1 hmem
      exact listDeleteRows_wf h (liveKeyT_owner hl) [row.pos] now (by simp)
        (fun v hv => by
          rw [List.mem_singleton] at hv; subst hv
          exact ⟨row, this.1, this.2, rfl⟩)

theorem listDelete_wf (h : WF db) (k e : Bytes) (now : Int) : WF (listDelete db k e now).db := by
  unfold listDelete
  split
  · exact h
  · rename_i r hl
    obtain ⟨h1, h2⟩ := victims_ok h (kid := r.id)
      (sub := (listRows db r.id).filter (fun x => x.elem == e)) List.filter_sublist (List.Perm.refl _)
    exact listDeleteRows_wf h (liveKeyT_owner hl) _ now h1 h2

theorem listDeleteN_wf (h : WF db) (k e : Bytes) (n : Int) (back : Bool) (now : Int) :
    WF (listDeleteN db k e n back now).db := by
  unfold listDeleteN
  split
  · exact h
  · split
    · exact h
    · rename_i r hl
      simp only
      cases back
      · obtain ⟨h1, h2⟩ := victims_ok h (kid := r.id)
          (sub := sqlLimit 0 n ((listRows db r.id).filter (fun x => x.elem == e)))
          ((sqlLimit_sublist _ _ _).trans List.filter_sublist) (List.Perm.refl _)
        exact listDeleteRows_wf h (liveKeyT_owner hl) _ now h1 h2
      · obtain ⟨h1, h2⟩ := victims_ok h (kid := r.id)
          (sub := sqlLimit 0 n ((listRows db r.id).filter (fun x => x.elem == e)).reverse)
          (rows' := (listRows db r.id).reverse)
          ((sqlLimit_sublist _ _ _).trans (List.filter_sublist.reverse)) (List.reverse_perm _)
        exact listDeleteRows_wf h (liveKeyT_owner hl) _ now h1 h2

theorem listTrim_wf (h : WF db) (k : Bytes) (a b now : Int) : WF (listTrim db k a b now).db := by
  unfold listTrim
  split
  · exact h
  · rename_i r hl
    simp only
    split
    · exact h
    · split
      · exact h
      · rename_i keep _
        obtain ⟨h1, h2⟩ := victims_ok h (kid := r.id)
          (sub := (listRows db r.id).filter (fun x => !(keep.map (·.pos)).contains x.pos))
          List.filter_sublist (List.Perm.refl _)
        exact listDeleteRows_wf h (liveKeyT_owner hl) _ now h1 h2

theorem listSet_wf (h : WF db) (k : Bytes) (i : Int) (e : Bytes) (now : Int) :
    WF (listSet db k i e now).db := by
  unfold listSet
  split
  · exact h
  · rename_i r hl
    split
    · exact h
    · rename_i row _
      have h1 : WF (listOnUpdate db r.id now) := by
        have := WFd.updKey h r.id (fun o => { o with version := o.version + 1, mtime := now }) 0
          (fun o _ _ => ⟨rfl, rfl, rfl, by cases o.len <;> simp⟩) (fun _ _ _ _ => rfl)
        exact this.congr (fun o _ => by simp)
      refine WFd.setLists h1 _ ?_ ?_ ?_
      · intro x hx
        obtain ⟨y, hy, rfl⟩ := List.mem_map.1 hx
        have := h1.oL y hy
        split <;> exact this
      · rw [List.pairwise_map]
        refine h1.uL.imp ?_
        intro a b hab
        split <;> split <;> exact hab
      · intro o _
        have : (((listOnUpdate db r.id now).lists.map (fun x : ListRow =>
            if x.kid == r.id && x.pos == row.pos then { x with elem := e } else x)).filter
            (fun x => x.kid == o.id)).length
              = ((listOnUpdate db r.id now).lists.filter (fun x => x.kid == o.id)).length :=
          length_filter_map_kid (fun y : ListRow => y.kid) _
            (fun x : ListRow => by
              show (if x.kid == r.id && x.pos == row.pos then _ else x).kid = x.kid; split <;> rfl)
            _ o.id
        rw [this]; rfl

theorem listPushKey_wf (h : WF db) {k : Bytes} {now : Int} {db1 : DB} {r : KeyRow}
    (he : listPushKey db k now = .ok (db1, r)) :
    WFd (fun i => if i = r.id then 1 else 0) db1 ∧ Owner db1 r.id TList := by
  unfold listPushKey at he
  obtain ⟨d, hd, h1, ho, _⟩ := h.keyUpsert (ty := TList) 1 1 (some 1) (by decide)
    ⟨fun h => absurd h (by decide), fun _ => rfl⟩ (fun h => absurd h (by decide)) he
    (fun _ => ⟨rfl, rfl, rfl, rfl⟩)
    (fun o => ⟨rfl, rfl, rfl, rfl⟩)
  exact ⟨h1.congr (fun o _ => by rcases hd with rfl | rfl <;> rfl), ho⟩

/-- appending one row to a list lowers the excess of its key by one -/
theorem listAppend_gen {δ : Int → Int} {db1 : DB} {kid : Int} (h1 : WFd δ db1)
    (ho : Owner db1 kid TList) (pos : Dyadic) (e : Bytes)
    (hnew : ∀ y ∈ db1.lists, y.kid = kid → y.pos ≠ pos) :
    WFd (fun i => if i = kid then δ i - 1 else δ i)
      { db1 with lists := db1.lists ++ [{ kid := kid, pos := pos, elem := e }] } := by
  refine WFd.setLists h1 _ ?_ ?_ ?_
  · intro x hx
    rcases List.mem_append.1 hx with hx | hx
    · exact h1.oL x hx
    · rw [List.mem_singleton] at hx; subst hx; exact ho
  · refine pairwise_append_one h1.uL _ (fun y hy heq => ?_)
    simp only [Prod.mk.injEq] at heq
    exact hnew y hy heq.1 heq.2
  · intro o _
    have := count_append (fun y : ListRow => y.kid) db1.lists { kid := kid, pos := pos, elem := e } o.id
    simp only [cL] at this ⊢
    by_cases e : o.id = kid <;> simp only [e, if_true, if_false] at this ⊢ <;> omega

/-- appending the row that the already-bumped `len` announces -/
theorem listAppend_wf {db1 : DB} {kid : Int} (h1 : WFd (fun i => if i = kid then 1 else 0) db1)
    (ho : Owner db1 kid TList) (pos : Dyadic) (e : Bytes)
    (hnew : ∀ y ∈ db1.lists, y.kid = kid → y.pos ≠ pos) :
    WF { db1 with lists := db1.lists ++ [{ kid := kid, pos := pos, elem := e }] } :=
  (listAppend_gen h1 ho pos e hnew).congr (fun o _ => by
    show (0 : Int) = if o.id = kid then (if o.id = kid then 1 else 0) - 1 else (if o.id = kid then 1 else 0)
    split <;> omega)

/-- `push`: fine unless the computed position collides (`UNIQUE constraint failed`), in which
case the key row has already been bumped -/
theorem listPush_wf (h : WF db) (k e : Bytes) (front : Bool) (now : Int)
    (hout : (listPush db k e front now).out ≠ .error .sqlUnique) :
    WF (listPush db k e front now).db := by
  unfold listPush at hout ⊢
  cases hk : listPushKey db k now with
  | error er => exact h
  | ok p =>
    obtain ⟨db1, r⟩ := p
    obtain ⟨h1, ho1⟩ := listPushKey_wf h hk
    simp only [hk] at hout ⊢
    generalize (if front = true then
        (match dyMin ((db1.lists.filter (fun x => x.kid == r.id)).map (·.pos)) with
          | none => (0 : Dyadic) | some m => round53 (m - 1))
      else _) = pos at hout ⊢
    split
    · rename_i hc
      rw [if_pos hc] at hout
      exact absurd rfl hout
    · rename_i hc
      refine listAppend_wf h1 ho1 _ e ?_
      intro y hy hkid hpos
      apply hc
      simp only [List.contains_eq_mem, List.mem_map, List.mem_filter, decide_eq_true_eq]
      exact ⟨y, ⟨hy, by simp [hkid]⟩, hpos⟩

theorem listPopBackPushFront_wf (h : WF db) (s d : Bytes) (now : Int)
    (hout : (listPopBackPushFront db s d now).out ≠ .error .sqlUnique) :
    WF (listPopBackPushFront db s d now).db := by
  unfold listPopBackPushFront at hout ⊢
  have h1 := listPop_wf h s false now
  generalize listPop db s false now = r at hout h1 ⊢
  cases hro : r.out with
  | error er => simp only [hro]; exact h1
  | ok v =>
    cases v <;> simp only [hro] at hout ⊢ <;> try exact h1
    rename_i el
    cases hpo : (listPush r.db d el true now).out with
    | error er =>
      simp only [hpo] at hout ⊢
      exact listPush_wf h1 d el true now (by rw [hpo]; exact hout)
    | ok v =>
      simp only [hpo] at hout ⊢
      exact listPush_wf h1 d el true now (by rw [hpo]; intro hc; cases hc)


/-- `insert` (after the repair of D04/D21: find the key, insert next to the pivot, then bump the
key row): every outcome leaves the invariant intact -/
theorem listInsert_wf (h : WF db) (k p e : Bytes) (after : Bool) (now : Int) :
    WF (listInsert db k p e after now).db := by
  generalize hres : listInsert db k p e after now = res
  unfold listInsert at hres
  split at hres
  · subst hres; exact h
  · rename_i r0 hl
    have ho := liveKeyT_owner hl
    simp only at hres
    split at hres
    · subst hres; exact h
    · rename_i pv _
      generalize (if after = true then
          (match dyMin (((listRows db r0.id).filter (fun x => decide (pv < x.pos))).map (·.pos)) with
            | none => round53 (pv + 1) | some nx => mid53 pv nx)
        else _) = newpos at hres
      split at hres
      · subst hres; exact h
      · rename_i hc
        subst hres
        have hnew : ∀ y ∈ db.lists, y.kid = r0.id → y.pos ≠ newpos := by
          intro y hy hkid hpos
          apply hc
          simp only [List.contains_eq_mem, List.mem_map, decide_eq_true_eq]
          exact ⟨y, mem_listRows.2 ⟨hy, hkid⟩, hpos⟩
        have h1 := listAppend_gen h ho newpos e hnew
        have ho1 : Owner { db with lists := db.lists ++ [{ kid := r0.id, pos := newpos, elem := e }] }
            r0.id TList := ho
        have := WFd.updKey h1 r0.id (fun o =>
            { o with version := o.version + 1, mtime := now, len := o.len.map (· + 1) }) 1
          (fun o _ _ => ⟨rfl, rfl, rfl, rfl⟩)
          (fun r hr e hs => absurd hs (ho1.not_string h1 (by decide) r hr e))
        exact this.congr (fun o _ => by
          show (0 : Int) = if o.id = r0.id then (if o.id = r0.id then (0 : Int) - 1 else 0) + 1
            else (if o.id = r0.id then (0 : Int) - 1 else 0)
          split <;> omega)


/-! ### the classifier is exact: a colliding push inside a transaction does break the invariant -/

theorem not_wf_of_excess {db1 : DB} {kid : Int} (h1 : WFd (fun i => if i = kid then 1 else 0) db1)
    (ho : Owner db1 kid TList) : ¬ WF db1 := by
  intro hw
  obtain ⟨o, hom, hid, hty⟩ := ho
  have a := (h1.cnt o hom).2 (by rw [hty]; decide)
  have b := (hw.cnt o hom).2 (by rw [hty]; decide)
  rw [a] at b
  simp only [hid, if_true, Option.some.injEq] at b
  omega

theorem listPush_breaks (h : WF db) (k e : Bytes) (front : Bool) (now : Int)
    (hout : (listPush db k e front now).out = .error .sqlUnique) :
    ¬ WF (listPush db k e front now).db := by
  unfold listPush at hout ⊢
  cases hk : listPushKey db k now with
  | error er =>
    simp only [hk] at hout
    have := keyUpsert_error (by unfold listPushKey at hk; exact hk)
    subst this
    cases hout
  | ok p =>
    obtain ⟨db1, r⟩ := p
    obtain ⟨h1, ho1⟩ := listPushKey_wf h hk
    simp only [hk] at hout ⊢
    generalize (if front = true then
        (match dyMin ((db1.lists.filter (fun x => x.kid == r.id)).map (·.pos)) with
          | none => (0 : Dyadic) | some m => round53 (m - 1))
      else _) = pos at hout ⊢
    split
    · exact not_wf_of_excess h1 ho1
    · rename_i hc
      rw [if_neg hc] at hout
      cases hout

theorem listPopBackPushFront_breaks (h : WF db) (s d : Bytes) (now : Int)
    (hout : (listPopBackPushFront db s d now).out = .error .sqlUnique) :
    ¬ WF (listPopBackPushFront db s d now).db := by
  unfold listPopBackPushFront at hout ⊢
  have h1 := listPop_wf h s false now
  have hpop : ∀ er, (listPop db s false now).out = .error er → er = .notFound := by
    intro er he
    unfold listPop at he
    split at he
    · cases he; rfl
    · simp only at he
      split at he
      · cases he; rfl
      · cases he
  generalize listPop db s false now = r at hout h1 hpop ⊢
  cases hro : r.out with
  | error er =>
    simp only [hro] at hout
    have := hpop er hro
    subst this
    cases hout
  | ok v =>
    cases v <;> simp only [hro] at hout ⊢ <;> try (cases hout)
    rename_i el
    cases hpo : (listPush r.db d el true now).out with
    | error er =>
      simp only [hpo] at hout ⊢
      have : er = .sqlUnique := by cases hout; rfl
      subst this
      exact listPush_breaks h1 d el true now hpo
    | ok v =>
      simp only [hpo] at hout
      cases hout

end Redka.InvP
