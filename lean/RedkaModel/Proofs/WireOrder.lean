/-
  Optional arguments in any order: swapping two adjacent option groups of an argument vector.

  * `EnvEq`: two slot environments that agree on every slot (assignments in a different order give
    different association lists but the same variables); every combinator respects it;
  * `kwMatch`: the head argument folds onto a keyword of the combinator; a keyword-guarded combinator
    that does not match does not fire;
  * `Consumes p g U`: the combinator `p` takes the group `g` off the front of ANY argument vector
    whose next argument is not another keyword of `p` (the look-ahead of `OneOf`), and updates the
    environment by `U`;
  * `swap_adjacent_groups`: the loop of `Pipeline.Run` gives the same outcome on `g1 ++ g2 ++ rest`
    and `g2 ++ g1 ++ rest`.

  Everything lives in `Redka.WireProofs`. Core Lean only.
-/
import RedkaModel.Proofs.WireParser

namespace Redka.WireProofs

open Redka Redka.Wire

/-! ### environments as maps -/

/-- the two environments hold the same value in every slot -/
def EnvEq (e e' : Env) : Prop := ∀ k, getSlot e k = getSlot e' k

theorem EnvEq.refl (e : Env) : EnvEq e e := fun _ => rfl
theorem EnvEq.symm {e e' : Env} (h : EnvEq e e') : EnvEq e' e := fun k => (h k).symm
theorem EnvEq.trans {a b c : Env} (h : EnvEq a b) (h' : EnvEq b c) : EnvEq a c :=
  fun k => (h k).trans (h' k)

theorem EnvEq.setSlot {e e' : Env} (h : EnvEq e e') (s : String) (v : SlotVal) :
    EnvEq (setSlot e s v) (setSlot e' s v) := by
  intro k; rw [getSlot_setSlot, getSlot_setSlot, h k]

/-- assignments to different slots commute -/
theorem setSlot_comm (e : Env) (s s' : String) (v v' : SlotVal) (h : s ≠ s') :
    EnvEq (setSlot (setSlot e s v) s' v') (setSlot (setSlot e s' v') s v) := by
  intro k
  simp only [getSlot_setSlot]
  by_cases h1 : s' = k <;> by_cases h2 : s = k <;> simp [h1, h2]
  exact absurd (h2.trans h1.symm) h

theorem EnvEq.getInt {e e' : Env} (h : EnvEq e e') (k : String) : getInt e k = getInt e' k := by
  unfold Wire.getInt; rw [h k]
theorem EnvEq.getBytes {e e' : Env} (h : EnvEq e e') (k : String) : getBytes e k = getBytes e' k := by
  unfold Wire.getBytes; rw [h k]
theorem EnvEq.getBool {e e' : Env} (h : EnvEq e e') (k : String) : getBool e k = getBool e' k := by
  unfold Wire.getBool; rw [h k]
theorem EnvEq.getFloat {e e' : Env} (h : EnvEq e e') (k : String) : getFloat e k = getFloat e' k := by
  unfold Wire.getFloat; rw [h k]
theorem EnvEq.getList {e e' : Env} (h : EnvEq e e') (k : String) : getList e k = getList e' k := by
  unfold Wire.getList; rw [h k]

/-- the same step up to `EnvEq` -/
def StepEq : Step → Step → Prop
  | .ret f r e, .ret f' r' e' => f = f' ∧ r = r' ∧ EnvEq e e'
  | .fail a, .fail b => a = b
  | .panic, .panic => True
  | .outOfDomain, .outOfDomain => True
  | .unsupported t, .unsupported t' => t = t'
  | _, _ => False

/-- the same outcome up to `EnvEq` -/
def OutcomeEq : Outcome → Outcome → Prop
  | .ok e, .ok e' => EnvEq e e'
  | .error a, .error b => a = b
  | .panic, .panic => True
  | .outOfDomain, .outOfDomain => True
  | .unsupported t, .unsupported t' => t = t'
  | _, _ => False

theorem StepEq.rfl' (s : Step) : StepEq s s := by
  cases s <;> simp [StepEq, EnvEq.refl]

theorem OutcomeEq.rfl' (o : Outcome) : OutcomeEq o o := by
  cases o <;> simp [OutcomeEq, EnvEq.refl]

theorem OutcomeEq.symm {a b : Outcome} (h : OutcomeEq a b) : OutcomeEq b a := by
  cases a <;> cases b <;> simp_all [OutcomeEq]
  exact EnvEq.symm h

theorem stepEq_ret {f : Bool} {r : List Bytes} {e e' : Env} (h : EnvEq e e') :
    StepEq (.ret f r e) (.ret f r e') := ⟨rfl, rfl, h⟩

theorem leaf_congr (p : P) (hl : isLeaf p = true) (args : List Bytes) (e e' : Env) (h : EnvEq e e') :
    StepEq (runP p args e) (runP p args e') := by
  cases p with
  | named _ _ => cases hl
  | oneOf _ => cases hl
  | unknown _ => simp [runP, StepEq]
  | string s => cases args <;> simp only [runP] <;> exact stepEq_ret (by first | exact h | exact h.setSlot _ _)
  | bytes s => cases args <;> simp only [runP] <;> exact stepEq_ret (by first | exact h | exact h.setSlot _ _)
  | int s =>
    cases args with
    | nil => simp only [runP]; exact stepEq_ret h
    | cons a r =>
      simp only [runP]
      cases atoi a with
      | none => simp [StepEq]
      | some i => exact stepEq_ret (h.setSlot _ _)
  | float s =>
    cases args with
    | nil => simp only [runP]; exact stepEq_ret h
    | cons a r =>
      simp only [runP]
      cases parseFloat a with
      | ok x => exact stepEq_ret (h.setSlot _ _)
      | _ => simp [StepEq]
  | enum s al =>
    cases args with
    | nil => simp only [runP]; exact stepEq_ret h
    | cons a r =>
      simp only [runP]
      split
      · simp [StepEq]
      · split
        · exact stepEq_ret (h.setSlot _ _)
        · simp [StepEq]
  | strings s => cases args <;> simp only [runP] <;> exact stepEq_ret (by first | exact h | exact h.setSlot _ _)
  | anys s => cases args <;> simp only [runP] <;> exact stepEq_ret (by first | exact h | exact h.setSlot _ _)
  | stringsN s ns =>
    cases args with
    | nil => simp only [runP]; exact stepEq_ret h
    | cons a r =>
      simp only [runP, h.getInt ns]
      split
      · simp [StepEq]
      · exact stepEq_ret (h.setSlot _ _)
  | anyMap s =>
    simp only [runP]
    split
    · exact stepEq_ret h
    · exact stepEq_ret (h.setSlot _ _)
  | floatMap s =>
    simp only [runP]
    split
    · exact stepEq_ret h
    · split
      · exact stepEq_ret h
      · simp [StepEq]
      · simp [StepEq]
      · exact stepEq_ret (h.setSlot _ _)
  | flag n s =>
    rw [runP_flag, runP_flag]
    split
    · exact stepEq_ret h
    · split
      · exact stepEq_ret h
      · exact stepEq_ret (h.setSlot _ _)

mutual
/-- every combinator respects `EnvEq` -/
theorem runP_congr (p : P) (args : List Bytes) (e e' : Env) (h : EnvEq e e') :
    StepEq (runP p args e) (runP p args e') := by
  cases p with
  | named name ps =>
    rw [runP_named, runP_named]
    split
    · exact stepEq_ret h
    · split
      · exact stepEq_ret h
      · exact runNamed_congr ps _ e e' h _ _
  | oneOf ps =>
    rw [runP_oneOf, runP_oneOf]
    exact runOneOf_congr ps args e e' h 0
  | string s => exact leaf_congr _ rfl _ _ _ h
  | bytes s => exact leaf_congr _ rfl _ _ _ h
  | int s => exact leaf_congr _ rfl _ _ _ h
  | float s => exact leaf_congr _ rfl _ _ _ h
  | enum s al => exact leaf_congr _ rfl _ _ _ h
  | strings s => exact leaf_congr _ rfl _ _ _ h
  | anys s => exact leaf_congr _ rfl _ _ _ h
  | stringsN s ns => exact leaf_congr _ rfl _ _ _ h
  | anyMap s => exact leaf_congr _ rfl _ _ _ h
  | floatMap s => exact leaf_congr _ rfl _ _ _ h
  | flag n s => exact leaf_congr _ rfl _ _ _ h
  | unknown t => exact leaf_congr _ rfl _ _ _ h
theorem runNamed_congr (ps : List P) (args : List Bytes) (e e' : Env) (h : EnvEq e e') (n t : Nat) :
    StepEq (runNamed ps args e n t) (runNamed ps args e' n t) := by
  cases ps with
  | nil =>
    rw [runNamed_nil, runNamed_nil]
    split
    · simp [StepEq]
    · exact stepEq_ret h
  | cons p ps =>
    rw [runNamed_cons, runNamed_cons]
    have hp := runP_congr p args e e' h
    cases h1 : runP p args e <;> cases h2 : runP p args e' <;> rw [h1, h2] at hp <;>
      simp only [StepEq] at hp <;> try (exact hp.elim)
    · obtain ⟨rfl, rfl, he⟩ := hp
      simp only []
      generalize (if _ = true then n + 1 else n) = m
      split
      · split
        · simp [StepEq]
        · exact stepEq_ret he
      · exact runNamed_congr ps _ _ _ he _ _
    · subst hp; simp [StepEq]
    · simp [StepEq]
    · simp [StepEq]
    · subst hp; simp [StepEq]
theorem runOneOf_congr (ps : List P) (args : List Bytes) (e e' : Env) (h : EnvEq e e') (n : Nat) :
    StepEq (runOneOf ps args e n) (runOneOf ps args e' n) := by
  cases ps with
  | nil =>
    rw [runOneOf_nil, runOneOf_nil]
    split
    · simp [StepEq]
    · exact stepEq_ret h
  | cons p ps =>
    rw [runOneOf_cons, runOneOf_cons]
    have hp := runP_congr p args e e' h
    cases h1 : runP p args e <;> cases h2 : runP p args e' <;> rw [h1, h2] at hp <;>
      simp only [StepEq] at hp <;> try (exact hp.elim)
    · obtain ⟨rfl, rfl, he⟩ := hp
      exact runOneOf_congr ps _ _ _ he _
    · subst hp; simp [StepEq]
    · simp [StepEq]
    · simp [StepEq]
    · subst hp; simp [StepEq]
end

/-- the same result of the inner loop up to `EnvEq` -/
def TryEq : TryRes → TryRes → Prop
  | .fired i r e, .fired i' r' e' => i = i' ∧ r = r' ∧ EnvEq e e'
  | .noneFired, .noneFired => True
  | .stop o, .stop o' => OutcomeEq o o'
  | _, _ => False

theorem tryAll_congr (ps : List P) (i : Nat) (args : List Bytes) (e e' : Env) (h : EnvEq e e') :
    TryEq (tryAll ps i args e) (tryAll ps i args e') := by
  induction ps generalizing i e e' with
  | nil => simp [tryAll, TryEq]
  | cons p ps ih =>
    rw [tryAll_cons, tryAll_cons]
    have hp := runP_congr p args e e' h
    cases h1 : runP p args e <;> cases h2 : runP p args e' <;> rw [h1, h2] at hp <;>
      simp only [StepEq] at hp <;> try (exact hp.elim)
    · obtain ⟨rfl, rfl, he⟩ := hp
      rename_i f _ _ _
      cases f with
      | true => exact ⟨rfl, rfl, he⟩
      | false => exact ih _ _ _ he
    · subst hp; simp [TryEq, OutcomeEq]
    · simp [TryEq, OutcomeEq]
    · simp [TryEq, OutcomeEq]
    · subst hp; simp [TryEq, OutcomeEq]

theorem finish_congr (args : List Bytes) (e e' : Env) (h : EnvEq e e') :
    OutcomeEq (finish args e) (finish args e') := by
  unfold finish; split
  · exact h
  · simp [OutcomeEq]

/-- the whole loop respects `EnvEq` -/
theorem runLoop_congr (fuel : Nat) (ps : List P) (args : List Bytes) (e e' : Env) (h : EnvEq e e') :
    OutcomeEq (runLoop fuel ps args e) (runLoop fuel ps args e') := by
  induction fuel generalizing ps args e e' with
  | zero => rw [runLoop, runLoop]; exact finish_congr _ _ _ h
  | succ fuel ih =>
    rw [runLoop, runLoop]
    split
    · exact finish_congr _ _ _ h
    · have ht := tryAll_congr ps 0 args e e' h
      cases h1 : tryAll ps 0 args e <;> cases h2 : tryAll ps 0 args e' <;> rw [h1, h2] at ht <;>
        simp only [TryEq] at ht <;> try (exact ht.elim)
      · obtain ⟨rfl, rfl, he⟩ := ht
        exact ih _ _ _ _ he
      · exact finish_congr _ _ _ h
      · exact ht

/-! ### keywords -/

mutual
/-- the argument folds onto (one of) the keyword(s) that guard the combinator -/
def kwMatch : P → Bytes → Bool
  | .flag n _, a => equalFold a (asciiBytes n)
  | .named n _, a => equalFold a (asciiBytes n)
  | .oneOf ps, a => kwMatchL ps a
  | _, _ => false
def kwMatchL : List P → Bytes → Bool
  | [], _ => false
  | p :: ps, a => kwMatch p a || kwMatchL ps a
end

theorem kwGuardedL_mem {ps : List P} (h : kwGuardedL ps = true) {p : P} (hp : p ∈ ps) :
    kwGuarded p = true := by
  induction ps with
  | nil => cases hp
  | cons q qs ih =>
    simp only [kwGuardedL, Bool.and_eq_true] at h
    rcases List.mem_cons.mp hp with rfl | hq
    · exact h.1
    · exact ih h.2 hq

theorem kwGuardedL_of_mem {ps : List P} (h : ∀ p ∈ ps, kwGuarded p = true) : kwGuardedL ps = true := by
  induction ps with
  | nil => rfl
  | cons q qs ih =>
    simp only [kwGuardedL, Bool.and_eq_true]
    exact ⟨h q (by simp), ih (fun p hp => h p (by simp [hp]))⟩

theorem kwMatchL_false {ps : List P} {a : Bytes} (h : kwMatchL ps a = false) {p : P} (hp : p ∈ ps) :
    kwMatch p a = false := by
  induction ps with
  | nil => cases hp
  | cons q qs ih =>
    simp only [kwMatchL, Bool.or_eq_false_iff] at h
    rcases List.mem_cons.mp hp with rfl | hq
    · exact h.1
    · exact ih h.2 hq

/-- a keyword-guarded combinator does not fire on nothing -/
theorem kw_nil_unfired : ∀ (p : P), kwGuarded p = true → ∀ env, runP p [] env = .ret false [] env
  | .flag _ _, _, env => by rw [runP_flag]
  | .named _ _, _, env => by rw [runP_named]
  | .oneOf ps, hk, env => by
    rw [runP_oneOf]
    simp only [kwGuarded] at hk
    exact kwL_nil_unfired ps hk env
  | .string _, hk, _ => by cases hk
  | .bytes _, hk, _ => by cases hk
  | .int _, hk, _ => by cases hk
  | .float _, hk, _ => by cases hk
  | .enum _ _, hk, _ => by cases hk
  | .strings _, hk, _ => by cases hk
  | .anys _, hk, _ => by cases hk
  | .stringsN _ _, hk, _ => by cases hk
  | .anyMap _, hk, _ => by cases hk
  | .floatMap _, hk, _ => by cases hk
  | .unknown _, hk, _ => by cases hk
where
  kwL_nil_unfired : ∀ (ps : List P), kwGuardedL ps = true → ∀ env, runOneOf ps [] env 0 = .ret false [] env
  | [], _, env => by rw [runOneOf_nil]; rfl
  | p :: ps, hk, env => by
    simp only [kwGuardedL, Bool.and_eq_true] at hk
    rw [runOneOf_cons, kw_nil_unfired p hk.1 env]
    exact kwL_nil_unfired ps hk.2 env

mutual
/-- a keyword-guarded combinator whose keywords the head argument does not spell does not fire -/
theorem noMatch_unfired (p : P) (hk : kwGuarded p = true) (a : Bytes) (hm : kwMatch p a = false)
    (r : List Bytes) (env : Env) : runP p (a :: r) env = .ret false (a :: r) env := by
  cases p with
  | flag n s => simp only [kwMatch] at hm; rw [flag_step, hm]; rfl
  | named n ps => simp only [kwMatch] at hm; rw [named_step, hm]; rfl
  | oneOf ps =>
    simp only [kwGuarded] at hk
    simp only [kwMatch] at hm
    rw [runP_oneOf]
    exact noMatchL_unfired ps hk a hm r env
  | string _ => cases hk
  | bytes _ => cases hk
  | int _ => cases hk
  | float _ => cases hk
  | enum _ _ => cases hk
  | strings _ => cases hk
  | anys _ => cases hk
  | stringsN _ _ => cases hk
  | anyMap _ => cases hk
  | floatMap _ => cases hk
  | unknown _ => cases hk
theorem noMatchL_unfired (ps : List P) (hk : kwGuardedL ps = true) (a : Bytes)
    (hm : kwMatchL ps a = false) (r : List Bytes) (env : Env) :
    runOneOf ps (a :: r) env 0 = .ret false (a :: r) env := by
  cases ps with
  | nil => rw [runOneOf_nil]; rfl
  | cons p ps =>
    simp only [kwGuardedL, Bool.and_eq_true] at hk
    simp only [kwMatchL, Bool.or_eq_false_iff] at hm
    rw [runOneOf_cons, noMatch_unfired p hk.1 a hm.1 r env]
    exact noMatchL_unfired ps hk.2 a hm.2 r env
end

/-- … on any remaining arguments whose head (if there is one) is not one of its keywords -/
theorem noMatch_unfired' (p : P) (hk : kwGuarded p = true) (t : List Bytes)
    (hm : ∀ a, t.head? = some a → kwMatch p a = false) (env : Env) :
    runP p t env = .ret false t env := by
  cases t with
  | nil => exact kw_nil_unfired p hk env
  | cons a r => exact noMatch_unfired p hk a (hm a rfl) r env

/-! ### option groups -/

/-- `p` takes the group `g` off the front of any argument vector whose next argument is not another
keyword of `p`, and updates the environment by `U` -/
def Consumes (p : P) (g : List Bytes) (U : Env → Env) : Prop :=
  ∀ (t : List Bytes) (env : Env), (∀ a, t.head? = some a → kwMatch p a = false) →
    runP p (g ++ t) env = .ret true t (U env)

/-- the inner loop: everything before `p` does not fire, `p` fires -/
theorem tryAll_fire_at (A : List P) (p : P) (B : List P) (k : Nat) (args : List Bytes) (env : Env)
    (rest : List Bytes) (env' : Env) (hA : ∀ q ∈ A, runP q args env = .ret false args env)
    (hp : runP p args env = .ret true rest env') :
    tryAll (A ++ p :: B) k args env = .fired (k + A.length) rest env' := by
  induction A generalizing k with
  | nil => rw [List.nil_append, tryAll_cons, hp]; rfl
  | cons q A ih =>
    rw [List.cons_append, tryAll_unfired_cons _ _ (hA q (by simp)),
      ih (k + 1) (fun q' hq' => hA q' (by simp [hq']))]
    simp only [List.length_cons]
    congr 1; omega

theorem eraseIdx_mid (A : List P) (p : P) (B : List P) : (A ++ p :: B).eraseIdx (0 + A.length) = A ++ B := by
  induction A with
  | nil => simp
  | cons q A ih => simpa using ih

theorem runLoop_succ_nonempty (fuel : Nat) (ps : List P) (a : Bytes) (r : List Bytes) (env : Env)
    (hps : ps ≠ []) :
    runLoop (fuel + 1) ps (a :: r) env =
      match tryAll ps 0 (a :: r) env with
      | .fired i rest env' => runLoop fuel (ps.eraseIdx i) rest env'
      | .noneFired => finish (a :: r) env
      | .stop o => o := by
  have : ps.isEmpty = false := by cases ps <;> simp_all
  rw [runLoop, if_neg (by simp [this])]
  rfl

/-- one round of the loop on a group consumed by the parser in the middle of `A ++ p :: B` -/
theorem runLoop_group (fuel : Nat) (A : List P) (p : P) (B : List P) (a : Bytes) (v : List Bytes)
    (U : Env → Env) (hc : Consumes p (a :: v) U) (hkA : kwGuardedL A = true)
    (hA : ∀ q ∈ A, kwMatch q a = false) (t : List Bytes)
    (ht : ∀ x, t.head? = some x → kwMatch p x = false) (env : Env) :
    runLoop (fuel + 1) (A ++ p :: B) (a :: v ++ t) env = runLoop fuel (A ++ B) t (U env) := by
  rw [List.cons_append, runLoop_succ_nonempty _ _ _ _ _ (by simp)]
  rw [← List.cons_append, tryAll_fire_at A p B 0 (a :: v ++ t) env t (U env) ?_ (hc t env ht)]
  · simp only []
    rw [eraseIdx_mid]
  · intro q hq
    exact noMatch_unfired q (kwGuardedL_mem hkA hq) a (hA q hq) _ env

/-- **Options in any order.** Let the remaining parsers be `A ++ p₁ :: B ++ p₂ :: C`, all
keyword-guarded; let `p₁` consume the group `a₁ :: v₁` and `p₂` the group `a₂ :: v₂`; let no other
remaining parser know the keywords `a₁`, `a₂`, and let what follows the two groups not start with
another keyword of `p₁` or `p₂`. If the two groups write different slots (`hcomm`), the loop of
`Pipeline.Run` ends the same way — same slot values on success, same error otherwise — whichever
group comes first. -/
theorem swap_adjacent_groups (A B C : List P) (p1 p2 : P)
    (hk : kwGuardedL (A ++ p1 :: B ++ p2 :: C) = true)
    (a1 : Bytes) (v1 : List Bytes) (a2 : Bytes) (v2 : List Bytes) (U1 U2 : Env → Env)
    (h1 : Consumes p1 (a1 :: v1) U1) (h2 : Consumes p2 (a2 :: v2) U2)
    (hd1 : ∀ q ∈ A ++ B ++ p2 :: C, kwMatch q a1 = false)
    (hd2 : ∀ q ∈ A ++ p1 :: B ++ C, kwMatch q a2 = false)
    (rest : List Bytes)
    (hrest : ∀ x, rest.head? = some x → kwMatch p1 x = false ∧ kwMatch p2 x = false)
    (hcomm : ∀ e, EnvEq (U2 (U1 e)) (U1 (U2 e))) (fuel : Nat) (env : Env) :
    OutcomeEq (runLoop (fuel + 2) (A ++ p1 :: B ++ p2 :: C) (a1 :: v1 ++ (a2 :: v2 ++ rest)) env)
      (runLoop (fuel + 2) (A ++ p1 :: B ++ p2 :: C) (a2 :: v2 ++ (a1 :: v1 ++ rest)) env) := by
  have hkm : ∀ q ∈ A ++ p1 :: B ++ p2 :: C, kwGuarded q = true := fun q hq => kwGuardedL_mem hk hq
  have hkA : kwGuardedL A = true := kwGuardedL_of_mem (fun q hq => hkm q (by simp [hq]))
  have hkAB : kwGuardedL (A ++ B) = true :=
    kwGuardedL_of_mem (fun q hq => hkm q (by
      rcases List.mem_append.mp hq with h | h <;> simp [h]))
  have hkApB : kwGuardedL (A ++ p1 :: B) = true :=
    kwGuardedL_of_mem (fun q hq => hkm q (by
      simp only [List.mem_append, List.mem_cons] at hq ⊢
      rcases hq with h | h | h <;> simp [h]))
  -- order 1: group 1, then group 2
  have o1 : runLoop (fuel + 2) (A ++ p1 :: B ++ p2 :: C) (a1 :: v1 ++ (a2 :: v2 ++ rest)) env
      = runLoop fuel (A ++ B ++ C) rest (U2 (U1 env)) := by
    have e1 := runLoop_group (fuel + 1) A p1 (B ++ p2 :: C) a1 v1 U1 h1 hkA
      (fun q hq => hd1 q (by simp [hq])) (a2 :: v2 ++ rest)
      (fun x hx => by
        simp only [List.cons_append, List.head?_cons, Option.some.injEq] at hx
        subst hx
        exact hd2 p1 (by simp)) env
    rw [show A ++ p1 :: B ++ p2 :: C = A ++ p1 :: (B ++ p2 :: C) by simp, e1]
    have e2 := runLoop_group fuel (A ++ B) p2 C a2 v2 U2 h2 hkAB
      (fun q hq => hd2 q (by
        rcases List.mem_append.mp hq with h | h <;> simp [h])) rest
      (fun x hx => (hrest x hx).2) (U1 env)
    rw [show A ++ (B ++ p2 :: C) = (A ++ B) ++ p2 :: C by simp, e2]
  -- order 2: group 2, then group 1
  have o2 : runLoop (fuel + 2) (A ++ p1 :: B ++ p2 :: C) (a2 :: v2 ++ (a1 :: v1 ++ rest)) env
      = runLoop fuel (A ++ B ++ C) rest (U1 (U2 env)) := by
    have e1 := runLoop_group (fuel + 1) (A ++ p1 :: B) p2 C a2 v2 U2 h2 hkApB
      (fun q hq => hd2 q (by
        simp only [List.mem_append, List.mem_cons] at hq ⊢
        rcases hq with h | h | h <;> simp [h])) (a1 :: v1 ++ rest)
      (fun x hx => by
        simp only [List.cons_append, List.head?_cons, Option.some.injEq] at hx
        subst hx
        exact hd1 p2 (by simp)) env
    rw [e1]
    have e2 := runLoop_group fuel A p1 (B ++ C) a1 v1 U1 h1 hkA
      (fun q hq => hd1 q (by simp [hq])) rest (fun x hx => (hrest x hx).1) (U2 env)
    rw [show A ++ p1 :: B ++ C = A ++ p1 :: (B ++ C) by simp, e2]
    simp
  rw [o1, o2]
  exact runLoop_congr _ _ _ _ _ (hcomm env)

/-! ### which combinators consume which groups -/

/-- `Flag` consumes its keyword, in any ASCII case -/
theorem consumes_flag (name slot : String) (kw : Bytes) (hkw : equalFold kw (asciiBytes name) = true) :
    Consumes (.flag name slot) [kw] (fun e => setSlot e slot (.bool true)) := by
  intro t env _
  rw [List.singleton_append, flag_step, if_pos hkw]

/-- the loop of `Named` over a body of positional parsers, given as many values -/
theorem runNamed_positional (body : List P) (hpos : ∀ q ∈ body, isPositional q = true)
    (vals : List Bytes) (hlen : vals.length = body.length) (t : List Bytes) (env env' : Env)
    (hb : bindPos body vals env = .ok env') (n : Nat) :
    runNamed body (vals ++ t) env n (n + body.length) = .ret true t env' := by
  induction body generalizing vals env n with
  | nil =>
    cases vals with
    | nil =>
      simp only [bindPos] at hb
      cases hb
      rw [runNamed_nil]
      simp
    | cons _ _ => simp at hlen
  | cons q qs ih =>
    cases vals with
    | nil => simp at hlen
    | cons v vs =>
      simp only [bindPos] at hb
      cases hv : posVal q v with
      | error o => rw [hv] at hb; cases hb
      | ok sx =>
        obtain ⟨s, x⟩ := sx
        rw [hv] at hb
        simp only [] at hb
        rw [runNamed_cons, List.cons_append, positional_step q (hpos q (by simp)) v (vs ++ t) env, hv]
        simp only [if_true]
        have hl : vs.length = qs.length := by simpa using hlen
        by_cases he : (vs ++ t).isEmpty = true
        · rw [if_pos he]
          have hvs : vs = [] := by cases vs <;> simp_all
          have ht : t = [] := by cases t <;> simp_all
          subst hvs ht
          have hqs : qs = [] := by cases qs <;> simp_all
          subst hqs
          simp only [bindPos] at hb
          cases hb
          simp
        · rw [if_neg he]
          have := ih (fun q' hq' => hpos q' (by simp [hq'])) vs hl _ hb (n + 1)
          rw [show n + (q :: qs).length = n + 1 + qs.length by simp; omega]
          exact this

/-- `Named` with a body of positional parsers consumes its keyword and one value per parser;
the values may spell anything -/
theorem consumes_named (name : String) (body : List P) (hpos : ∀ q ∈ body, isPositional q = true)
    (kw : Bytes) (hkw : equalFold kw (asciiBytes name) = true) (vals : List Bytes)
    (hlen : vals.length = body.length) (U : Env → Env)
    (hb : ∀ env, bindPos body vals env = .ok (U env)) :
    Consumes (.named name body) (kw :: vals) U := by
  intro t env _
  rw [List.cons_append, named_step, if_pos hkw]
  have := runNamed_positional body hpos vals hlen t env (U env) (hb env) 0
  simpa using this

/-- `Named` with an `Enum` body consumes its keyword and one of the allowed values in any letter case; the
LOWERED value is what the slot receives -/
theorem consumes_named_enum (name slot : String) (allowed : List String) (kw v l : Bytes)
    (hkw : equalFold kw (asciiBytes name) = true)
    (hl : enumLower allowed v = some l)
    (hv : allowed.any (fun s => asciiBytes s == l) = true) :
    Consumes (.named name [.enum slot allowed]) [kw, v] (fun e => setSlot e slot (.bytes l)) := by
  intro t env _
  show runP _ (kw :: v :: t) env = _
  rw [named_step, if_pos hkw, runNamed_cons]
  simp only [runP, hl, hv, if_true]
  cases t with
  | nil => simp
  | cons x xs => simp [runNamed_nil]

theorem runOneOf_skip (A ps : List P) (args : List Bytes) (env : Env) (n : Nat)
    (hA : ∀ q ∈ A, runP q args env = .ret false args env) :
    runOneOf (A ++ ps) args env n = runOneOf ps args env n := by
  induction A with
  | nil => rfl
  | cons q A ih =>
    rw [List.cons_append, runOneOf_cons, hA q (by simp)]
    exact ih (fun q' hq' => hA q' (by simp [hq']))

theorem kwMatchL_append (A B : List P) (a : Bytes) : kwMatchL (A ++ B) a = (kwMatchL A a || kwMatchL B a) := by
  induction A with
  | nil => simp [kwMatchL]
  | cons q A ih => simp [kwMatchL, ih, Bool.or_assoc]

theorem kwMatchL_false_iff (ps : List P) (a : Bytes) : kwMatchL ps a = false ↔ ∀ q ∈ ps, kwMatch q a = false := by
  induction ps with
  | nil => simp [kwMatchL]
  | cons q qs ih => simp [kwMatchL, ih]

/-- `OneOf` consumes what one of its alternatives consumes, provided the group's keyword is not also
a keyword of another alternative -/
theorem consumes_oneOf (A : List P) (p : P) (B : List P) (hk : kwGuardedL (A ++ B) = true)
    (a : Bytes) (v : List Bytes) (U : Env → Env) (hc : Consumes p (a :: v) U)
    (hd : ∀ q ∈ A ++ B, kwMatch q a = false) :
    Consumes (.oneOf (A ++ p :: B)) (a :: v) U := by
  intro t env ht
  have ht' : ∀ x, t.head? = some x → ∀ q ∈ A ++ p :: B, kwMatch q x = false := by
    intro x hx
    have := ht x hx
    simp only [kwMatch] at this
    exact (kwMatchL_false_iff _ _).mp this
  rw [runP_oneOf, runOneOf_skip A _ _ _ _ ?_, runOneOf_cons,
    hc t env (fun x hx => ht' x hx p (by simp))]
  · simp only [if_true]
    have hB : ∀ q ∈ B, runP q t (U env) = .ret false t (U env) := by
      intro q hq
      exact noMatch_unfired' q (kwGuardedL_mem hk (by simp [hq])) t
        (fun x hx => ht' x hx q (by simp [hq])) _
    have := runOneOf_skip B [] t (U env) (0 + 1) hB
    rw [List.append_nil] at this
    rw [this, runOneOf_nil]
    simp
  · intro q hq
    exact noMatch_unfired q (kwGuardedL_mem hk (by simp [hq])) a (hd q (by simp [hq])) _ env

/-! ### whole grammars -/

/-- **Options in any order**, for a grammar `positional values ++ options`. -/
theorem runGrammar_swap (g : Grammar) (A B C : List P) (p1 p2 : P)
    (ht : optTail g = A ++ p1 :: B ++ p2 :: C) (hk : kwGuardedL (optTail g) = true)
    (a1 : Bytes) (v1 : List Bytes) (a2 : Bytes) (v2 : List Bytes) (U1 U2 : Env → Env)
    (h1 : Consumes p1 (a1 :: v1) U1) (h2 : Consumes p2 (a2 :: v2) U2)
    (hd1 : ∀ q ∈ A ++ B ++ p2 :: C, kwMatch q a1 = false)
    (hd2 : ∀ q ∈ A ++ p1 :: B ++ C, kwMatch q a2 = false)
    (rest : List Bytes)
    (hrest : ∀ x, rest.head? = some x → kwMatch p1 x = false ∧ kwMatch p2 x = false)
    (hcomm : ∀ e, EnvEq (U2 (U1 e)) (U1 (U2 e)))
    (vals : List Bytes) (hv : vals.length = positionalPrefix g) :
    OutcomeEq (runGrammar g (vals ++ (a1 :: v1 ++ (a2 :: v2 ++ rest))))
      (runGrammar g (vals ++ (a2 :: v2 ++ (a1 :: v1 ++ rest)))) := by
  have hlen : (vals ++ (a2 :: v2 ++ (a1 :: v1 ++ rest))).length
      = (vals ++ (a1 :: v1 ++ (a2 :: v2 ++ rest))).length := by
    simp only [List.length_append, List.length_cons]; omega
  by_cases hreq : g.required ≤ (vals ++ (a1 :: v1 ++ (a2 :: v2 ++ rest))).length
  · rw [runGrammar_positional g _ (by simp [hv]) hreq,
      runGrammar_positional g _ (by simp [hv]) (by rw [hlen]; exact hreq)]
    simp only [← hv, List.take_left', List.drop_left']
    cases bindPos (posParsers g) vals [] with
    | error o => exact OutcomeEq.rfl' o
    | ok env =>
      simp only []
      rw [ht] at hk ⊢
      have hf : (A ++ p1 :: B ++ p2 :: C).length = (A.length + B.length + C.length) + 2 := by
        simp only [List.length_append, List.length_cons]; omega
      rw [hf]
      exact swap_adjacent_groups A B C p1 p2 hk a1 v1 a2 v2 U1 U2 h1 h2 hd1 hd2 rest hrest hcomm _ env
  · unfold runGrammar
    rw [if_pos (by omega), if_pos (by omega)]
    exact OutcomeEq.rfl' _

end Redka.WireProofs
