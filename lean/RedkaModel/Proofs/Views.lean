/-
  The documented SQL views against the abstract keyspace (C11, last clause): under the structural
  invariant each view shows, as a bag of rows, exactly what the API shows for the live keys.
-/
import RedkaModel.Spec.Views
import RedkaModel.Proofs.KeyRef

namespace Redka.Model.View

open Redka Redka.Spec Redka.DB Redka.Model

/-! ### generic list facts -/

theorem flatMap_filter_of_nil {α β : Type} (p : α → Bool) (f : α → List β) : ∀ (l : List α),
    (∀ x ∈ l, p x = false → f x = []) → l.flatMap f = (l.filter p).flatMap f
  | [], _ => rfl
  | x :: l, h => by
    have ih := flatMap_filter_of_nil p f l (fun y hy => h y (List.mem_cons_of_mem _ hy))
    rw [List.flatMap_cons, List.filter_cons]
    cases hp : p x with
    | true => simp only [if_true]; rw [List.flatMap_cons, ih]
    | false =>
      simp only [Bool.false_eq_true, if_false]
      rw [h x (by simp) hp, List.nil_append, ih]

theorem flatMap_congr' {α β : Type} {f g : α → List β} : ∀ (l : List α),
    (∀ x ∈ l, f x = g x) → l.flatMap f = l.flatMap g
  | [], _ => rfl
  | x :: l, h => by
    rw [List.flatMap_cons, List.flatMap_cons, h x (by simp),
      flatMap_congr' l (fun y hy => h y (List.mem_cons_of_mem _ hy))]

theorem numbered_map {α β : Type} (f : α → β) (l : List α) :
    numbered (l.map f) = (numbered l).map (fun q => (q.1, f q.2)) := by
  unfold numbered
  rw [List.length_map, List.zip_map_right]
  apply List.map_congr_left
  intro a _
  rfl

theorem liveOfType_eq (now : Int) (db : DB) (ty : Int) :
    liveOfType now db ty = (liveRows db now).filter (fun r => r.ty == ty) := by
  unfold liveOfType liveRows
  rw [List.filter_filter]
  congr 1
  funext r
  exact Bool.and_comm _ _

/-- The bag of rows a per-entry enumeration of the abstract keyspace yields is the bag obtained by
enumerating the live key rows. -/
theorem abs_flatMap_perm {γ : Type} {db : DB} (hw : db.WF) (now : Int) (g : Bytes × Entry → List γ) :
    ((abs now db).flatMap g).Perm ((liveRows db now).flatMap (fun r => g (entryOf db r))) := by
  have := List.Perm.flatMap_right g (abs_perm hw now)
  rwa [List.flatMap_map] at this

/-- the shape shared by the five child views: one type, one enumeration per key row -/
theorem child_view_perm {γ : Type} {db : DB} (hw : db.WF) (now : Int) (ty : Int)
    (g : Bytes × Entry → List γ) (h : KeyRow → List γ)
    (hoff : ∀ r ∈ db.keys, r.ty ≠ ty → g (entryOf db r) = [])
    (hon : ∀ r ∈ db.keys, r.ty = ty → g (entryOf db r) = h r) :
    ((liveOfType now db ty).flatMap h).Perm ((abs now db).flatMap g) := by
  refine List.Perm.trans ?_ (abs_flatMap_perm hw now g).symm
  rw [liveOfType_eq]
  rw [flatMap_filter_of_nil (fun r => r.ty == ty) (fun r => g (entryOf db r)) (liveRows db now)]
  · rw [flatMap_congr' (f := fun r => g (entryOf db r)) (g := h)]
    intro r hr
    obtain ⟨hr1, hr2⟩ := List.mem_filter.1 hr
    exact hon r (List.mem_filter.1 hr1).1 (by simpa using hr2)
  · intro r hr hp
    exact hoff r (List.mem_filter.1 hr).1 (by simpa using hp)

/-! ### the value of a key row by type -/

theorem entryOf_list {db : DB} {r : KeyRow} (h : r.ty = TList) :
    entryOf db r = (r.key, ⟨.list ((listRows db r.id).map (·.elem)), r.etime⟩) := by
  simp [entryOf, absVal, h, TString, TList]

theorem entryOf_set {db : DB} {r : KeyRow} (h : r.ty = TSet) :
    entryOf db r = (r.key, ⟨.set ((setRows db r.id).map (·.elem)), r.etime⟩) := by
  simp [entryOf, absVal, h, TString, TList, TSet]

theorem entryOf_hash {db : DB} {r : KeyRow} (h : r.ty = THash) :
    entryOf db r = (r.key, ⟨.hash ((hashRows db r.id).map (fun x => (x.field, x.value))), r.etime⟩) := by
  simp [entryOf, absVal, h, TString, TList, TSet, THash]

theorem entryOf_zset {db : DB} {r : KeyRow} (h : r.ty = TZSet) :
    entryOf db r = (r.key, ⟨.zset ((sortBy (fun (a b : ZRow) => bytesLt a.elem b.elem)
      (db.zsets.filter (fun z => z.kid == r.id))).map (fun z => (z.elem, z.score))), r.etime⟩) := by
  simp [entryOf, absVal, h, TString, TList, TSet, THash, TZSet]

/-- the typed value of a stored row has the row's type (under `WF` it always has one) -/
theorem entryOf_ty {db : DB} (hw : db.WF) {r : KeyRow} (hr : r ∈ db.keys) :
    (entryOf db r).2.val.ty = r.ty := by
  obtain ⟨v, hv⟩ := absVal_some hw hr
  rw [entryOf_eq hv]
  exact absVal_ty hv

end Redka.Model.View

namespace Redka.Model.View

open Redka Redka.Spec Redka.DB Redka.Model

theorem length_sortBy' {β : Type} (lt : β → β → Bool) (l : List β) : (sortBy lt l).length = l.length :=
  (Clean.perm_sortBy lt l).length_eq

/-- under the C11 audit the cached `rkey.len` is the size of the value the API shows -/
theorem size_eq_len {db : DB} (hi : db.Inv) {r : KeyRow} (hr : r ∈ db.keys) :
    (entryOf db r).2.val.size = r.len := by
  have hw := Inv.wf hi
  have hty := hw.tyOk r hr
  unfold DB.Inv invB at hi
  simp only [Bool.and_eq_true] at hi
  have hk := hi.1.1
  unfold keysOk at hk
  rw [List.all_eq_true] at hk
  have hkr := hk r hr
  simp only [Bool.and_eq_true, decide_eq_true_eq] at hkr
  have hlen := hkr.2
  have : r.ty = 1 ∨ r.ty = 2 ∨ r.ty = 3 ∨ r.ty = 4 ∨ r.ty = 5 := by omega
  rcases this with h | h | h | h | h
  · have hs : r.ty = TString := h
    obtain ⟨v, hv⟩ := absVal_some hw hr
    have hvt := absVal_ty hv
    rw [entryOf_eq hv]
    simp only [hs, beq_self_eq_true, if_true, Bool.and_eq_true, Option.isNone_iff_eq_none] at hlen
    rw [hlen.1]
    cases v <;> simp_all [SVal.ty, SVal.size, TString]
  · have hs : r.ty = TList := h
    rw [entryOf_list hs]
    simp only [hs, TList, TString] at hlen
    simp only [show ((2:Int) == 1) = false from rfl, Bool.false_eq_true, if_false] at hlen
    have hl : r.len = some (db.childCount r) := by simpa using hlen
    rw [hl]
    simp [SVal.size, childCount, hs, TList, TString, listRows, length_sortBy']
  · have hs : r.ty = TSet := h
    rw [entryOf_set hs]
    simp only [hs, TSet, TString] at hlen
    simp only [show ((3:Int) == 1) = false from rfl, Bool.false_eq_true, if_false] at hlen
    have hl : r.len = some (db.childCount r) := by simpa using hlen
    rw [hl]
    simp [SVal.size, childCount, hs, TList, TSet, TString, setRows, length_sortBy']
  · have hs : r.ty = THash := h
    rw [entryOf_hash hs]
    simp only [hs, THash, TString] at hlen
    simp only [show ((4:Int) == 1) = false from rfl, Bool.false_eq_true, if_false] at hlen
    have hl : r.len = some (db.childCount r) := by simpa using hlen
    rw [hl]
    simp [SVal.size, childCount, hs, TList, TSet, THash, TString, hashRows, length_sortBy']
  · have hs : r.ty = TZSet := h
    rw [entryOf_zset hs]
    simp only [hs, TZSet, TString] at hlen
    simp only [show ((5:Int) == 1) = false from rfl, Bool.false_eq_true, if_false] at hlen
    have hl : r.len = some (db.childCount r) := by simpa using hlen
    rw [hl]
    simp [SVal.size, childCount, hs, TList, TSet, THash, TZSet, TString, length_sortBy']

end Redka.Model.View
