/-
  C11 — the string repository (`internal/rstring`) preserves the invariant, partial effects of a
  failing `Tx` method included.
-/
import RedkaModel.Proofs.InvPrim

namespace Redka.InvP

open Redka Redka.Model

variable {db : DB}

theorem findKey_of_mem {δ : Int → Int} {db : DB} (h : WFd δ db) {r : KeyRow} (hr : r ∈ db.keys) :
    db.findKey r.key = some r := by
  cases hf : db.findKey r.key with
  | none => exact absurd rfl (findKey_none hf r hr)
  | some r' =>
    obtain ⟨hm, hk⟩ := findKey_some hf
    rw [eq_of_key_eq h.uKey hm hr hk]

/-- `sqlSet2`: the value row of a string key that has none yet (excess 1) or one (excess 0) -/
theorem strSet2_wf {δ : Int → Int} {db : DB} (h : WFd δ db) {r : KeyRow} (hr : r ∈ db.keys)
    (hty : r.ty = TString) (hd : δ r.id = 0 ∨ δ r.id = 1) (v : Bytes) :
    ∃ db2, strSet2 db r.key v = .ok db2 ∧ WFd (fun i => if i = r.id then 0 else δ i) db2 := by
  have hm := (meas_eq db h.uId h.oS h.oL h.oT h.oH h.oZ hr (h.ty r hr)).1 hty
  have hc := ((h.cnt r hr).1 hty).2
  rw [hm] at hc
  unfold strSet2
  rw [findKey_of_mem h hr]
  simp only
  rcases hd with hd | hd
  · -- the value row exists: update in place
    have hany : db.strs.any (fun s => s.kid == r.id) = true := by
      rw [List.any_eq_true]
      have : 0 < (db.strs.filter (fun s => s.kid == r.id)).length := by omega
      exact List.length_filter_pos_iff.1 this
    rw [if_pos hany]
    refine ⟨_, rfl, ?_⟩
    refine WFd.setStrs h _ ?_ ?_ ?_
    · intro x hx
      obtain ⟨y, hy, rfl⟩ := List.mem_map.1 hx
      have := h.oS y hy
      split
      · exact this
      · exact this
    · rw [List.pairwise_map]
      refine h.uS.imp ?_
      intro a b hab
      split <;> split <;> exact hab
    · intro o ho
      have : ((db.strs.map (fun s : StrRow => if s.kid == r.id then { s with value := v } else s)).filter
          (fun x => x.kid == o.id)).length = (db.strs.filter (fun x => x.kid == o.id)).length :=
        length_filter_map_kid (·.kid) _
          (fun x => by show (if x.kid == r.id then _ else x).kid = x.kid; split <;> rfl) db.strs o.id
      rw [this]
      simp only [cS]
      by_cases e : o.id = r.id
      · simp [e, hd]
      · simp [e]
  · have hany : db.strs.any (fun s => s.kid == r.id) = false := by
      rw [List.any_eq_false]
      have : (db.strs.filter (fun s => s.kid == r.id)).length = 0 := by omega
      have := List.length_eq_zero_iff.1 this
      rw [List.filter_eq_nil_iff] at this
      exact this
    rw [hany]
    refine ⟨_, rfl, ?_⟩
    have hno : ∀ y ∈ db.strs, y.kid ≠ r.id := by
      intro y hy
      have := List.any_eq_false.1 hany y hy
      simpa using this
    refine WFd.setStrs h _ ?_ ?_ ?_
    · intro x hx
      rcases List.mem_append.1 hx with hx | hx
      · exact h.oS x hx
      · rw [List.mem_singleton] at hx; subst hx
        exact ⟨r, hr, rfl, hty⟩
    · exact pairwise_append_one h.uS _ hno
    · intro o ho
      rw [length_filter_append_one]
      simp only [cS]
      by_cases e : o.id = r.id
      · simp [e, hd]
      · have : (r.id == o.id) = false := by simpa using fun e' => e e'.symm
        simp [e, this]

/-- `set(tx, key, value, at)` / `update(tx, key, value)`: the key upsert followed by the value
upsert; on a type conflict nothing is written -/
theorem strUpsertSet_wf (h : WF db) (k v : Bytes) (onNew : Int → KeyRow) (onOld : KeyRow → KeyRow)
    (hnew : ∀ id, (onNew id).id = id ∧ (onNew id).key = k ∧ (onNew id).ty = TString ∧
      (onNew id).len = none)
    (hold : ∀ o, (onOld o).id = o.id ∧ (onOld o).key = o.key ∧ (onOld o).ty = o.ty ∧
      (onOld o).len = o.len) :
    WF (match keyUpsert db k TString onNew onOld with
      | .error e => ((.error e : Except Err DB), db)
      | .ok (db1, _) =>
        match strSet2 db1 k v with
        | .error e => (.error e, db1)
        | .ok db2 => (.ok db2, db2)).2 := by
  cases he : keyUpsert db k TString onNew onOld with
  | error e => exact h
  | ok p =>
    obtain ⟨db1, r⟩ := p
    obtain ⟨d, hd, h1, _, hr, hk, hty, _⟩ := h.keyUpsert (ty := TString) 1 0 none (by decide)
      ⟨fun _ => ⟨rfl, rfl⟩, fun h => absurd rfl h⟩ (fun _ => rfl) he hnew
      (fun o => by
        obtain ⟨a, b, c, e⟩ := hold o
        refine ⟨a, b, c, ?_⟩
        rw [e]; cases o.len <;> simp)
    have hd' : (fun i => if i = r.id then d else 0) r.id = 0 ∨
        (fun i => if i = r.id then d else 0) r.id = 1 := by
      rcases hd with rfl | rfl <;> simp
    obtain ⟨db2, h2, hw⟩ := strSet2_wf h1 hr hty hd' v
    rw [hk] at h2
    simp only [h2]
    refine hw.congr (fun o _ => ?_)
    show (0 : Int) = if o.id = r.id then 0 else (if o.id = r.id then d else 0)
    split <;> rfl

theorem strSetTx_wf (h : WF db) (k v : Bytes) (et : Option Int) (now : Int) :
    WF (strSetTx db k v et now).2 :=
  strUpsertSet_wf h k v _ _ (fun _ => ⟨rfl, rfl, rfl, rfl⟩) (fun _ => ⟨rfl, rfl, rfl, rfl⟩)

theorem strUpdateTx_wf (h : WF db) (k v : Bytes) (now : Int) :
    WF (strUpdateTx db k v now).2 :=
  strUpsertSet_wf h k v _ _ (fun _ => ⟨rfl, rfl, rfl, rfl⟩) (fun _ => ⟨rfl, rfl, rfl, rfl⟩)

theorem strSet_wf (h : WF db) (k v : Bytes) (et : Option Int) (now : Int) :
    WF (strSet db k v et now).db := by
  unfold strSet
  have := strSetTx_wf h k v et now
  split <;> (rename_i he; rw [he] at this; exact this)

theorem strSetExpires_wf (h : WF db) (k v : Bytes) (ttl now : Int) :
    WF (strSetExpires db k v ttl now).db := strSet_wf h k v _ now

theorem strIncr_wf (h : WF db) (k : Bytes) (d now : Int) : WF (strIncr db k d now).db := by
  unfold strIncr
  simp only
  split
  · exact h
  · rename_i n _
    have := strUpdateTx_wf h k (itoa (wrap64 (n + d))) now
    split <;> (rename_i he; rw [he] at this; exact this)

theorem strIncrFloat_wf (h : WF db) (k : Bytes) (d : Dyadic) (now : Int) : WF (strIncrFloat db k d now).db := by
  unfold strIncrFloat
  simp only
  split
  · exact h
  · exact h
  · split
    · split <;> exact h
    · rename_i txt _
      have := strUpdateTx_wf h k txt now
      split <;> (rename_i he; rw [he] at this; exact this)

theorem strSetMany_wf (items : List (Bytes × Bytes)) (now : Int) :
    ∀ {db : DB}, WF db → WF (strSetMany db items now).db := by
  induction items with
  | nil => intro db h; exact h
  | cons p rest ih =>
    intro db h
    obtain ⟨k, v⟩ := p
    unfold strSetMany
    have := strSetTx_wf h k v none now
    split
    · rename_i he; rw [he] at this; exact this
    · rename_i he; rw [he] at this; exact ih this

theorem strSetWith_wf (h : WF db) (k v : Bytes) (o : SetOpts) (now : Int) :
    WF (strSetWith db k v o now).db := by
  unfold strSetWith
  simp only
  split
  · exact h
  · split
    · exact h
    · have h1 := strUpdateTx_wf h k v now
      have h2 := strSetTx_wf h k v (if o.ttl > 0 then some (now + o.ttl) else o.atMs) now
      split <;> rename_i he <;> split at he <;> first
        | (rw [he] at h1; exact h1)
        | (rw [he] at h2; exact h2)

end Redka.InvP
