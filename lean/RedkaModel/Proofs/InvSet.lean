/-
  C11 — the set repository (`internal/rset`) preserves the invariant.
-/
import RedkaModel.Proofs.InvPrim

namespace Redka.InvP

open Redka Redka.Model

variable {db : DB}

/-- `insert into rset` + trigger `rset_on_insert` -/
theorem setInsertRow_wf (h : WF db) {kid : Int} (ho : Owner db kid TSet) {e : Bytes} {db' : DB}
    (he : setInsertRow db kid e = some db') : WF db' ∧ Owner db' kid TSet := by
  unfold setInsertRow at he
  split at he
  · cases he
  · rename_i hany
    have hany : ∀ y ∈ db.sets, ¬(y.kid = kid ∧ y.elem = e) := by
      intro y hy
      have hf : (db.sets.any fun r => r.kid == kid && r.elem == e) = false := by simpa using hany
      have := List.any_eq_false.1 hf y hy
      simpa using this
    simp only [Option.some.injEq] at he
    subst he
    have h1 : WFd (fun i => if i = kid then -1 else 0)
        { db with sets := db.sets ++ [({ rowid := db.nextSetRowid, kid := kid, elem := e } : SetRow)] } := by
      refine WFd.setSets h _ ?_ ?_ ?_ ?_
      · intro x hx
        rcases List.mem_append.1 hx with hx | hx
        · exact h.oT x hx
        · rw [List.mem_singleton] at hx; subst hx; exact ho
      · refine pairwise_append_one h.uT _ (fun y hy heq => hany y hy ?_)
        simpa using heq
      · refine pairwise_append_one h.rT _ (fun y hy => ?_)
        have := rowid_lt_nextSetRowid db y hy
        show y.rowid ≠ db.nextSetRowid
        omega
      · intro o _
        have := count_append (fun y : SetRow => y.kid) db.sets
          { rowid := db.nextSetRowid, kid := kid, elem := e } o.id
        simp only [cT] at this ⊢
        by_cases e : o.id = kid <;> simp only [e, if_true, if_false] at this ⊢ <;> omega
    have ho1 : Owner { db with sets := db.sets ++ [({ rowid := db.nextSetRowid, kid := kid, elem := e } : SetRow)] } kid TSet := ho
    refine ⟨?_, ho1.updKey _ _ (fun _ => ⟨rfl, rfl⟩)⟩
    have := WFd.updKey h1 kid (fun o => { o with len := o.len.map (· + 1) }) 1
      (fun r _ _ => ⟨rfl, rfl, rfl, rfl⟩)
      (fun r hr e hs => absurd hs (ho1.not_string h1 (by decide) r hr e))
    exact this.congr (fun o _ => by
      show (0 : Int) = if o.id = kid then (if o.id = kid then -1 else 0) + 1 else (if o.id = kid then -1 else 0)
      split <;> simp [*])

/-- delete some rows of one set, then `len = len - n` on its key -/
theorem setRemove_wf (h : WF db) {kid : Int} (ho : Owner db kid TSet) (q : SetRow → Bool)
    (f : KeyRow → KeyRow)
    (hf : ∀ r ∈ db.keys, r.id = kid → (f r).id = r.id ∧ (f r).key = r.key ∧ (f r).ty = r.ty ∧
      (f r).len = r.len.map (· - ((db.sets.filter (fun x => x.kid == kid && q x)).length : Int))) :
    WF (DB.updKey { db with sets := db.sets.filter (fun x => !(x.kid == kid && q x)) } kid f) := by
  have h1 : WFd (fun i => if i = kid then ((db.sets.filter (fun x => x.kid == kid && q x)).length : Int) else 0)
      { db with sets := db.sets.filter (fun x => !(x.kid == kid && q x)) } := by
    refine WFd.setSets h _ (fun x hx => h.oT x (List.mem_filter.1 hx).1) (h.uT.filter _) (h.rT.filter _) ?_
    intro o _
    have := count_remove (·.kid) q db.sets kid o.id
    simp only [cT]
    omega
  have ho1 : Owner { db with sets := db.sets.filter (fun x => !(x.kid == kid && q x)) } kid TSet := ho
  have := WFd.updKey h1 kid f (-((db.sets.filter (fun x => x.kid == kid && q x)).length : Int))
    (fun r hr e => by
      obtain ⟨a, b, c, d⟩ := hf r hr e
      exact ⟨a, b, c, d⟩)
    (fun r hr e hs => absurd hs (ho1.not_string h1 (by decide) r hr e))
  exact this.congr (fun o _ => by
    show (0 : Int) = if o.id = kid then (if o.id = kid then _ else 0) + -_ else (if o.id = kid then _ else 0)
    split <;> omega)

theorem setAddKey_wf (h : WF db) {k : Bytes} {now : Int} {db1 : DB} {r : KeyRow}
    (he : setAddKey db k now = .ok (db1, r)) : WF db1 ∧ Owner db1 r.id TSet := by
  unfold setAddKey at he
  obtain ⟨d, hd, h1, ho, _⟩ := h.keyUpsert (ty := TSet) 0 0 (some 0) (by decide)
    ⟨fun h => absurd h (by decide), fun _ => rfl⟩ (fun h => absurd h (by decide)) he
    (fun _ => ⟨rfl, rfl, rfl, rfl⟩)
    (fun o => ⟨rfl, rfl, rfl, by cases o.len <;> simp⟩)
  exact ⟨h1.congr (fun o _ => by rcases hd with rfl | rfl <;> simp), ho⟩

theorem setAddElems_wf {kid : Int} (es : List Bytes) :
    ∀ {db : DB} (n : Int), WF db → Owner db kid TSet →
      WF (setAddElems db kid es n).1 ∧ Owner (setAddElems db kid es n).1 kid TSet := by
  induction es with
  | nil => intro db n h ho; exact ⟨h, ho⟩
  | cons e es ih =>
    intro db n h ho
    unfold setAddElems
    split
    · exact ih n h ho
    · rename_i db' he
      obtain ⟨h', ho'⟩ := setInsertRow_wf h ho he
      exact ih (n + 1) h' ho'

theorem setAdd_wf (h : WF db) (k : Bytes) (es : List Bytes) (now : Int) :
    WF (setAdd db k es now).db := by
  unfold setAdd
  split
  · exact h
  · rename_i db1 r he
    obtain ⟨h1, ho1⟩ := setAddKey_wf h he
    exact (setAddElems_wf es 0 h1 ho1).1

theorem setRemoveLive_wf (h : WF db) {k : Bytes} {now : Int} {r : KeyRow}
    (hl : db.liveKeyT k TSet now = some r) (q : SetRow → Bool) :
    WF (setUpdKeyAfterDelete { db with sets := db.sets.filter (fun x => !(x.kid == r.id && q x)) } k
      ((db.sets.filter (fun x => x.kid == r.id && q x)).length : Int) now) := by
  unfold setUpdKeyAfterDelete
  have : DB.liveKeyT { db with sets := db.sets.filter (fun x => !(x.kid == r.id && q x)) } k TSet now
      = some r := hl
  rw [this]
  exact setRemove_wf h (liveKeyT_owner hl) q _ (fun _ _ _ => ⟨rfl, rfl, rfl, rfl⟩)

theorem setDelete_wf (h : WF db) (k : Bytes) (es : List Bytes) (now : Int) :
    WF (setDelete db k es now).db := by
  unfold setDelete
  split
  · exact h
  · rename_i r hl
    simp only
    split
    · exact h
    · exact setRemoveLive_wf h hl (fun x => es.contains x.elem)

theorem setPop_wf (h : WF db) (k : Bytes) (oracle : Option Bytes) (now : Int) :
    WF (setPop db k oracle now).db := by
  unfold setPop
  split
  · split <;> exact h
  · rename_i r hl
    simp only
    split
    · split <;> exact h
    · rename_i e
      split
      · rename_i hany
        have hone : ((db.sets.filter (fun x => x.kid == r.id && x.elem == e)).length : Int) = 1 := by
          have hle := length_filter_le_one h.uT (fun x => x.kid == r.id && x.elem == e)
            (fun a b ha hb hR => by
              simp only [Bool.and_eq_true, beq_iff_eq] at ha hb
              exact hR (by rw [ha.1, ha.2, hb.1, hb.2]))
          have hpos : 0 < (db.sets.filter (fun x => x.kid == r.id && x.elem == e)).length := by
            rw [List.length_filter_pos_iff]
            obtain ⟨x, hx, hxe⟩ := List.any_eq_true.1 hany
            unfold setRows at hx
            rw [mem_sortBy, List.mem_filter] at hx
            exact ⟨x, hx.1, by rw [hx.2, hxe]; rfl⟩
          omega
        have := setRemoveLive_wf h hl (fun x => x.elem == e)
        rw [hone] at this
        exact this
      · exact h


/-- `deleteKey`: all rows of the destination set go, its key row is reset -/
theorem setDeleteKey_wf (h : WF db) (k : Bytes) (now : Int) : WF (setDeleteKey db k now) := by
  unfold setDeleteKey
  split
  · exact h
  · rename_i r hl
    have ho := liveKeyT_owner hl
    have hfil : db.sets.filter (fun x => x.kid != r.id)
        = db.sets.filter (fun x => !(x.kid == r.id && (fun _ => true) x)) := by
      apply List.filter_congr; intro x _; simp [bne]
    simp only [hfil]
    refine setRemove_wf h ho (fun _ => true) _ ?_
    intro o ho' e
    refine ⟨rfl, rfl, rfl, ?_⟩
    have hty : o.ty = TSet := ho.ty_eq h.uId ho' e
    have hlen := (h.cnt o ho').2 (by rw [hty]; decide)
    have hm := (meas_eq db h.uId h.oS h.oL h.oT h.oH h.oZ ho' (h.ty o ho')).2 (by rw [hty]; decide)
    have hcc : db.childCount o = ((db.sets.filter (fun x => x.kid == o.id)).length : Int) := by
      simp [DB.childCount, hty, TSet, TList]
    rw [hlen, hm, hcc, e]
    simp

theorem setInsertAll_wf {kid : Int} (es : List Bytes) :
    ∀ {db : DB} (n : Int) {db3 : DB} {m : Int}, WF db → Owner db kid TSet →
      setInsertAll db kid es n = .ok (db3, m) → WF db3 := by
  induction es with
  | nil =>
    intro db n db3 m h _ he
    simp only [setInsertAll, Except.ok.injEq, Prod.mk.injEq] at he
    exact he.1 ▸ h
  | cons e es ih =>
    intro db n db3 m h ho he
    unfold setInsertAll at he
    split at he
    · cases he
    · rename_i db' hi
      obtain ⟨h', ho'⟩ := setInsertRow_wf h ho hi
      exact ih (n + 1) h' ho' he

theorem setStore_wf (h : WF db) (d : Bytes) (ks : List Bytes) (now : Int)
    (compute : DB → List Bytes) : WF (setStore db d ks now compute).db := by
  unfold setStore
  split
  · exact h
  · have h1 := setDeleteKey_wf h d now
    simp only
    split
    · exact h1
    · rename_i db2 r he
      obtain ⟨h2, ho2⟩ := setAddKey_wf h1 he
      split
      · exact h2
      · rename_i db3 n hi
        exact setInsertAll_wf _ 0 h2 ho2 hi

theorem setDiffStore_wf (h : WF db) (d : Bytes) (ks : List Bytes) (now : Int) :
    WF (setDiffStore db d ks now).db := setStore_wf h d ks now _
theorem setInterStore_wf (h : WF db) (d : Bytes) (ks : List Bytes) (now : Int) :
    WF (setInterStore db d ks now).db := setStore_wf h d ks now _
theorem setUnionStore_wf (h : WF db) (d : Bytes) (ks : List Bytes) (now : Int) :
    WF (setUnionStore db d ks now).db := setStore_wf h d ks now _

theorem setMove_wf (h : WF db) (s d e : Bytes) (now : Int) : WF (setMove db s d e now).db := by
  unfold setMove
  have h1 := setDelete_wf h s [e] now
  have h2 := setAdd_wf h1 d [e] now
  simp only
  split
  · exact h1
  · split
    · exact h1
    · split <;> exact h2
  · exact h1

end Redka.InvP
