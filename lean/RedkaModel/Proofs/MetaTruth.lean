/-
  C19, last clause — "type and expiry as reported by the key lookup match what the operations last
  established": a consequence of refinement (`abs now post = purge now (step …).st`).
-/
import RedkaModel.Spec.Meta
import RedkaModel.Proofs.KeyRef

namespace Redka.MetaProofs

open Redka Redka.Spec

/-- the (name, type, expiry) projection of the abstract keyspace: what `Key().Get` reports -/
def tyEt (s : State) : List (Bytes × Int × Option Int) :=
  s.map (fun e => (e.1, e.2.val.ty, e.2.etime))

/-- if the tables after the step stand for the specification's new state, the driver's judgement
`typeEtimeTruthful` never fails, and the projections agree -/
theorem truthful_of_abs {inTx : Bool} {op : Op} {now : Int} {pre post : DB} {res : Out}
    (h : abs now post = purge now (step op now (abs now pre)).st) :
    typeEtimeTruthful inTx op now pre post res ≠ some false ∧
    tyEt (abs now post) = tyEt (purge now (step op now (abs now pre)).st) := by
  refine ⟨?_, by rw [h]⟩
  unfold typeEtimeTruthful
  simp only
  split
  · simp
  · split
    · simp
    · split <;> simp [h]

/-- What refinement gives: the driver's judgement `typeEtimeTruthful` never fails, the
(name, type, expiry) projection of the tables after the step is that of the specification's new
state, and `Key().Get` on the post-state reports exactly what the specification's `Get` reports
on its new state. -/
def Truthful (op : Op) (now : Int) (db : DB) : Prop :=
  let r := Model.dbRun op now db
  let s' := Spec.purge now (Spec.step op now (Spec.abs now db)).st
  Spec.typeEtimeTruthful false op now db r.db r.out ≠ some false ∧
  tyEt (Spec.abs now r.db) = tyEt s' ∧
  ∀ k, (Model.dbRun (.keyGet k) now r.db).out.map Model.projV = (Spec.step (.keyGet k) now s').out


end Redka.MetaProofs
