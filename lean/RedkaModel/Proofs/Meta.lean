/-
  C19 — key metadata: the Prop-level form of the judgement `Spec.metaOK`, and the small relational
  calculus (`ChildEq`, `Touch`, `Eff`) in which the effect of every repository method on the key
  table is summarised.
-/
import RedkaModel.Spec.Meta
import RedkaModel.Proofs.InvPrim
import RedkaModel.Proofs.InvEquiv

namespace Redka.MetaProofs

open Redka Redka.Spec Redka.InvP

/-- the clock of the call is not behind any stored modification time -/
def MonoClock (now : Int) (db : DB) : Prop := ∀ r ∈ db.keys, r.mtime ≤ now

instance (now : Int) (db : DB) : Decidable (MonoClock now db) :=
  inferInstanceAs (Decidable (∀ r ∈ db.keys, r.mtime ≤ now))

/-! ### `metaOK` as a proposition -/

/-- the row of the pre-state with the same id and the same name -/
def rowAt (db : DB) (i : Int) (k : Bytes) : Option KeyRow :=
  db.keys.find? (fun r => r.id == i && r.key == k)

/-- the requirement on a row that starts a history -/
def FreshRow (now : Int) (r' : KeyRow) : Prop := 1 ≤ r'.version ∧ r'.mtime = now

/-- the requirement on a row that continues the history of `r` (same id, same name) -/
def ContRow (now : Int) (pre post : DB) (r r' : KeyRow) : Prop :=
  r.version ≤ r'.version ∧ r.mtime ≤ r'.mtime ∧ r.ty = r'.ty ∧
  ((absVal pre r ≠ absVal post r' ∨ r.etime ≠ r'.etime) → r.version < r'.version) ∧
  (absVal pre r ≠ absVal post r' → r'.mtime = now)

/-- the requirement on a row that is not the destination of a successful store -/
def PlainRow (now : Int) (pre post : DB) (r' : KeyRow) : Prop :=
  match rowAt pre r'.id r'.key with
  | some r => ContRow now pre post r r'
  | none =>
    match pre.findId r'.id with
    | some r => r.version < r'.version ∧ r'.mtime = now ∧ r.ty = r'.ty
    | none => FreshRow now r'

/-- `ContRow` with the clock assumption made explicit: only the clause "the modification time
does not run backwards" depends on it -/
def ContRowM (now : Int) (pre post : DB) (r r' : KeyRow) : Prop :=
  r.version ≤ r'.version ∧ (MonoClock now pre → r.mtime ≤ r'.mtime) ∧ r.ty = r'.ty ∧
  ((absVal pre r ≠ absVal post r' ∨ r.etime ≠ r'.etime) → r.version < r'.version) ∧
  (absVal pre r ≠ absVal post r' → r'.mtime = now)

/-- `PlainRow` with the clock assumption made explicit -/
def PlainRowM (now : Int) (pre post : DB) (r' : KeyRow) : Prop :=
  match rowAt pre r'.id r'.key with
  | some r => ContRowM now pre post r r'
  | none =>
    match pre.findId r'.id with
    | some r => r.version < r'.version ∧ r'.mtime = now ∧ r.ty = r'.ty
    | none => FreshRow now r'

theorem PlainRowM.plain {now : Int} {pre post : DB} {r' : KeyRow} (h : PlainRowM now pre post r')
    (hm : MonoClock now pre) : PlainRow now pre post r' := by
  unfold PlainRowM at h
  unfold PlainRow
  split
  · rename_i r hr
    rw [hr] at h
    exact ⟨h.1, h.2.1 hm, h.2.2⟩
  · rename_i hr
    rw [hr] at h
    exact h

/-- what `metaOK` asks of one row of the post-state -/
def RowOK (op : Op) (now : Int) (pre post : DB) (res : Out) (r' : KeyRow) : Prop :=
  if isErr res = false ∧ storeDest op = some r'.key then FreshRow now r'
  else PlainRow now pre post r'

theorem metaOK_iff (op : Op) (now : Int) (pre post : DB) (res : Out) :
    metaOK op now pre post res = true ↔ ∀ r' ∈ post.keys, RowOK op now pre post res r' := by
  unfold metaOK
  rw [List.all_eq_true]
  apply forall_congr'; intro r'
  apply imp_congr_right; intro _
  unfold RowOK PlainRow rowAt DB.findId FreshRow ContRow
  by_cases hs : isErr res = false ∧ storeDest op = some r'.key
  · rw [if_pos hs]
    have : (!isErr res && storeDest op == some r'.key) = true := by
      simp [hs.1, hs.2]
    simp only [this, if_true, Bool.and_eq_true, decide_eq_true_eq, beq_iff_eq, ge_iff_le]
  · rw [if_neg hs]
    have : (!isErr res && storeDest op == some r'.key) = false := by
      cases he : isErr res
      · have : storeDest op ≠ some r'.key := fun e => hs ⟨he, e⟩
        simp [this]
      · simp
    simp only [this, Bool.false_eq_true, if_false]
    cases h1 : List.find? (fun r => r.id == r'.id && r.key == r'.key) pre.keys with
    | some r =>
      by_cases hv : absVal pre r = absVal post r' <;> by_cases he : r.etime = r'.etime <;>
        simp [hv, he] <;> omega
    | none =>
      cases h2 : List.find? (fun r => r.id == r'.id) pre.keys with
      | some r => simp [and_assoc]
      | none => simp

/-! ### uniqueness of ids and names (from `Inv`) -/

theorem find_id_key {l : List KeyRow} (hu : l.Pairwise (fun a b => a.id ≠ b.id)) {r : KeyRow}
    (hr : r ∈ l) : l.find? (fun x => x.id == r.id && x.key == r.key) = some r := by
  cases h : l.find? (fun x => x.id == r.id && x.key == r.key) with
  | none =>
    have := List.find?_eq_none.1 h r hr
    simp at this
  | some x =>
    have hx := List.find?_some h
    simp only [Bool.and_eq_true, beq_iff_eq] at hx
    rw [eq_of_id_eq hu (List.mem_of_find?_eq_some h) hr hx.1]

theorem find_id {l : List KeyRow} (hu : l.Pairwise (fun a b => a.id ≠ b.id)) {r : KeyRow}
    (hr : r ∈ l) : l.find? (fun x => x.id == r.id) = some r := by
  cases h : l.find? (fun x => x.id == r.id) with
  | none =>
    have := List.find?_eq_none.1 h r hr
    simp at this
  | some x =>
    have hx := List.find?_some h
    simp only [beq_iff_eq] at hx
    rw [eq_of_id_eq hu (List.mem_of_find?_eq_some h) hr hx]

theorem rowAt_some {db : DB} {i : Int} {k : Bytes} {r : KeyRow} (h : rowAt db i k = some r) :
    r ∈ db.keys ∧ r.id = i ∧ r.key = k := by
  unfold rowAt at h
  have hx := List.find?_some h
  simp only [Bool.and_eq_true, beq_iff_eq] at hx
  exact ⟨List.mem_of_find?_eq_some h, hx.1, hx.2⟩

theorem rowAt_none {db : DB} {i : Int} {k : Bytes} (h : rowAt db i k = none) :
    ∀ r ∈ db.keys, ¬ (r.id = i ∧ r.key = k) := by
  unfold rowAt at h
  intro r hr
  simpa using List.find?_eq_none.1 h r hr

theorem rowAt_of_mem {db : DB} (hu : db.keys.Pairwise (fun a b => a.id ≠ b.id)) {r : KeyRow}
    (hr : r ∈ db.keys) : rowAt db r.id r.key = some r := find_id_key hu hr

theorem findId_some {db : DB} {i : Int} {r : KeyRow} (h : db.findId i = some r) :
    r ∈ db.keys ∧ r.id = i := by
  unfold DB.findId at h
  have hx := List.find?_some h
  simp only [beq_iff_eq] at hx
  exact ⟨List.mem_of_find?_eq_some h, hx⟩

theorem findId_none {db : DB} {i : Int} (h : db.findId i = none) : ∀ r ∈ db.keys, r.id ≠ i := by
  unfold DB.findId at h
  intro r hr
  simpa using List.find?_eq_none.1 h r hr

theorem findId_of_mem {db : DB} (hu : db.keys.Pairwise (fun a b => a.id ≠ b.id)) {r : KeyRow}
    (hr : r ∈ db.keys) : db.findId r.id = some r := find_id hu hr

/-! ### equality of the child rows of one key id -/

/-- the five child tables hold the same rows for key id `i` (in the same order) -/
structure ChildEq (a b : DB) (i : Int) : Prop where
  s : a.strs.filter (fun x => x.kid == i) = b.strs.filter (fun x => x.kid == i)
  l : a.lists.filter (fun x => x.kid == i) = b.lists.filter (fun x => x.kid == i)
  t : a.sets.filter (fun x => x.kid == i) = b.sets.filter (fun x => x.kid == i)
  h : a.hashes.filter (fun x => x.kid == i) = b.hashes.filter (fun x => x.kid == i)
  z : a.zsets.filter (fun x => x.kid == i) = b.zsets.filter (fun x => x.kid == i)

theorem ChildEq.refl (a : DB) (i : Int) : ChildEq a a i := ⟨rfl, rfl, rfl, rfl, rfl⟩

theorem ChildEq.trans {a b c : DB} {i : Int} (h1 : ChildEq a b i) (h2 : ChildEq b c i) :
    ChildEq a c i :=
  ⟨h1.s.trans h2.s, h1.l.trans h2.l, h1.t.trans h2.t, h1.h.trans h2.h, h1.z.trans h2.z⟩

theorem ChildEq.of_tables {a b : DB} {i : Int} (hs : a.strs = b.strs) (hl : a.lists = b.lists)
    (ht : a.sets = b.sets) (hh : a.hashes = b.hashes) (hz : a.zsets = b.zsets) : ChildEq a b i := by
  refine ⟨?_, ?_, ?_, ?_, ?_⟩ <;> simp [*]

theorem find_eq_head_filter {α} (p : α → Bool) : ∀ l : List α, l.find? p = (l.filter p).head?
  | [] => rfl
  | x :: xs => by
    by_cases h : p x
    · simp only [List.find?, List.filter, h, List.head?_cons]
    · simp only [List.find?, List.filter, h]
      exact find_eq_head_filter p xs

/-- the abstract value of a key row only depends on the child rows that carry its id -/
theorem absVal_congr {a b : DB} {r : KeyRow} (h : ChildEq a b r.id) : absVal a r = absVal b r := by
  unfold absVal Model.listRows Model.setRows Model.hashRows
  rw [find_eq_head_filter _ a.strs, find_eq_head_filter _ b.strs, h.s, h.l, h.t, h.h, h.z]

/-- … nor on the `len`, `version`, `mtime`, `etime`, `key` of the row -/
theorem absVal_row {a : DB} {r r' : KeyRow} (hi : r'.id = r.id) (ht : r'.ty = r.ty) :
    absVal a r' = absVal a r := by
  unfold absVal; rw [hi, ht]

/-! ### generic facts about filtering one key's child rows -/

theorem filter_kid_append_other {α} (kidf : α → Int) (l : List α) (x : α) {i : Int}
    (h : kidf x ≠ i) : (l ++ [x]).filter (fun y => kidf y == i) = l.filter (fun y => kidf y == i) := by
  simp [List.filter_append, h]

theorem filter_kid_map_other {α} (kidf : α → Int) (g : α → α) (l : List α) (i : Int)
    (hk : ∀ x ∈ l, kidf x = i → g x = x) (hg : ∀ x ∈ l, kidf (g x) = kidf x) :
    (l.map g).filter (fun y => kidf y == i) = l.filter (fun y => kidf y == i) := by
  induction l with
  | nil => rfl
  | cons x xs ih =>
    have ih := ih (fun y hy => hk y (List.mem_cons_of_mem _ hy)) (fun y hy => hg y (List.mem_cons_of_mem _ hy))
    simp only [List.map_cons, List.filter_cons, hg x List.mem_cons_self, ih]
    by_cases hx : kidf x = i
    · simp [hx, hk x List.mem_cons_self hx]
    · simp [hx]

theorem filter_kid_filter_other {α} (kidf : α → Int) (q : α → Bool) (l : List α) (i : Int)
    (hq : ∀ x ∈ l, kidf x = i → q x = true) :
    (l.filter q).filter (fun y => kidf y == i) = l.filter (fun y => kidf y == i) := by
  rw [List.filter_filter]
  apply List.filter_congr
  intro x hx
  by_cases hi : kidf x = i
  · simp [hi, hq x hx hi]
  · simp [hi]

end Redka.MetaProofs
