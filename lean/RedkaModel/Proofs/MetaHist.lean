/-
  C19 — histories of `DB`-level calls: along any history in which the key row `(i, k)` survives
  (and no call stores into `k`), its version never decreases and strictly grows when its value or
  expiry changed at some step; with non-decreasing clocks its modification time never decreases.
-/
import RedkaModel.Proofs.MetaStep
import RedkaModel.Proofs.InvStep

namespace Redka.MetaProofs

open Redka Redka.Model Redka.Spec Redka.InvP
open Redka.Props.C11 (run dbRun_wf dbRun_fk)

/-- the row with id `i` and name `k` is there before every call and after the last one, and no
call is a store into `k` (a store starts a new history) -/
def Survives (i : Int) (k : Bytes) : List (Op × Int) → DB → Prop
  | [], db => (rowAt db i k).isSome = true
  | p :: ps, db => (rowAt db i k).isSome = true ∧ storeDest p.1 ≠ some k ∧
      Survives i k ps (Model.dbRun p.1 p.2 db).db

/-- at some call of the history the abstract value or the expiry of the row `(i, k)` changed -/
def ChangedIn (i : Int) (k : Bytes) : List (Op × Int) → DB → Prop
  | [], _ => False
  | p :: ps, db =>
    (∃ r r', rowAt db i k = some r ∧ rowAt (Model.dbRun p.1 p.2 db).db i k = some r' ∧
      (absVal db r ≠ absVal (Model.dbRun p.1 p.2 db).db r' ∨ r.etime ≠ r'.etime)) ∨
    ChangedIn i k ps (Model.dbRun p.1 p.2 db).db

/-- every clock of the history is at or after every stored modification time, and the clocks do
not run backwards -/
def Clocked (ops : List (Op × Int)) (db : DB) : Prop :=
  (∀ p ∈ ops, MonoClock p.2 db) ∧ ops.Pairwise (fun p q => p.2 ≤ q.2)

theorem Survives.head {i : Int} {k : Bytes} {ops : List (Op × Int)} {db : DB}
    (h : Survives i k ops db) : (rowAt db i k).isSome = true := by
  cases ops with
  | nil => exact h
  | cons p ps => exact h.1

theorem MonoClock.le {now now' : Int} {db : DB} (h : MonoClock now db) (hle : now ≤ now') :
    MonoClock now' db := fun r hr => by have := h r hr; omega

theorem version_history (i : Int) (k : Bytes) (ops : List (Op × Int)) :
    ∀ (db : DB), db.Inv → db.fk = true → Survives i k ops db →
    ∀ r r', rowAt db i k = some r → rowAt (run ops db) i k = some r' →
      r.version ≤ r'.version ∧ r.ty = r'.ty ∧ (ChangedIn i k ops db → r.version < r'.version) := by
  induction ops with
  | nil =>
    intro db _ _ _ r r' hr hr'
    have : r = r' := by
      have : run [] db = db := rfl
      rw [this, hr] at hr'; exact Option.some.inj hr'
    subst this
    exact ⟨Int.le_refl _, rfl, fun h => h.elim⟩
  | cons p ps ih =>
    intro db hinv hfk hsv r r' hr hr'
    obtain ⟨_, hst, hsv'⟩ := hsv
    have hw := dbRun_wf p.1 p.2 db (WF.of_inv hinv) hfk
    have hfk' := (dbRun_fk p.1 p.2 db).trans hfk
    obtain ⟨r1, hr1⟩ := Option.isSome_iff_exists.1 hsv'.head
    have hstep := step_cont hinv hst hr hr1
    have hrun : run (p :: ps) db = run ps (Model.dbRun p.1 p.2 db).db := rfl
    rw [hrun] at hr'
    obtain ⟨h1, h2, h3⟩ := ih _ hw.inv hfk' hsv' r1 r' hr1 hr'
    refine ⟨Int.le_trans hstep.1 h1, hstep.2.2.1.trans h2, fun hch => ?_⟩
    rcases hch with ⟨x, x', hx, hx', hd⟩ | hch
    · rw [hr] at hx; rw [hr1] at hx'
      have e1 : r = x := Option.some.inj hx
      have e2 : r1 = x' := Option.some.inj hx'
      subst e1; subst e2
      have := hstep.2.2.2.1 hd
      omega
    · have := h3 hch
      have := hstep.1
      omega

theorem mtime_history (i : Int) (k : Bytes) (ops : List (Op × Int)) :
    ∀ (db : DB), db.Inv → db.fk = true → Clocked ops db → Survives i k ops db →
    ∀ r r', rowAt db i k = some r → rowAt (run ops db) i k = some r' → r.mtime ≤ r'.mtime := by
  induction ops with
  | nil =>
    intro db _ _ _ _ r r' hr hr'
    have : run [] db = db := rfl
    rw [this, hr] at hr'
    rw [Option.some.inj hr']
    exact Int.le_refl _
  | cons p ps ih =>
    intro db hinv hfk hck hsv r r' hr hr'
    obtain ⟨_, hst, hsv'⟩ := hsv
    obtain ⟨hmono, hpw⟩ := hck
    rw [List.pairwise_cons] at hpw
    have hw := dbRun_wf p.1 p.2 db (WF.of_inv hinv) hfk
    have hfk' := (dbRun_fk p.1 p.2 db).trans hfk
    have hm0 : MonoClock p.2 db := hmono p List.mem_cons_self
    obtain ⟨r1, hr1⟩ := Option.isSome_iff_exists.1 hsv'.head
    have hstep := step_cont hinv hst hr hr1
    have hm1 := db_mono p.1 p.2 db hinv hm0
    have hck' : Clocked ps (Model.dbRun p.1 p.2 db).db :=
      ⟨fun q hq => hm1.le (hpw.1 q hq), hpw.2⟩
    have hrun : run (p :: ps) db = run ps (Model.dbRun p.1 p.2 db).db := rfl
    rw [hrun] at hr'
    have := ih _ hw.inv hfk' hck' hsv' r1 r' hr1 hr'
    have := hstep.2.1 hm0
    omega

end Redka.MetaProofs
