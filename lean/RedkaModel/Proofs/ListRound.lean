/-
  Rounding to 53 bits never crosses a double.

  `round53 y` is one of the two neighbours of `y` on the 53-bit grid of its binade, and no
  representable number lies strictly between those neighbours (`no_repr_between`). Hence for every
  representable `z`: `z ≤ y → z ≤ round53 y` and `y ≤ z → round53 y ≤ z`
  (`round53_ge_of_repr_le`, `round53_le_of_repr_ge`). Together with exact halving this gives the
  order facts behind `Spacious`, for positions that are doubles:

    * `m < round53 (m + 1)` unless the sum rounds back to `m` (`push_back_order`);
    * `round53 (m - 1) < m` unless it rounds back to `m` (`push_front_order`);
    * `a < mid53 a b < b` unless the midpoint rounds to `a` or to `b` (`mid_order`);

  i.e. the only way the position arithmetic of `rlist` can go wrong is the collision that the
  unique index on `(kid, pos)` detects. New positions are doubles again (`repr53_round53`,
  `repr53_mid53`).
-/
import RedkaModel.Proofs.ListPos

namespace Redka.ListRound

open Redka Redka.Model Redka.ListOrd Redka.ListPos

/-- a double, exponent range aside: zero, or an odd numerator of at most 53 bits -/
def repr53 : Dyadic → Bool
  | .zero => true
  | .ofOdd n _ _ => decide (natBits n.natAbs ≤ 53)

theorem round53_of_repr {x : Dyadic} (h : repr53 x = true) : round53 x = x := by
  cases x with
  | zero => rfl
  | ofOdd n k hn => exact round53_of_bits n k hn (by simpa [repr53] using h)

theorem repr53_neg (x : Dyadic) : repr53 (-x) = repr53 x := by
  cases x with
  | zero => rfl
  | ofOdd n k hn => rw [Dyadic.neg_ofOdd]; simp [repr53, Int.natAbs_neg]

theorem repr53_zero : repr53 0 = true := rfl

theorem repr53_dyHalf (x : Dyadic) : repr53 (dyHalf x) = repr53 x := by
  cases x <;> rfl

/-- `2 * x`, by decrementing the exponent -/
def dyDouble (x : Dyadic) : Dyadic := x <<< (1 : Int)

theorem repr53_dyDouble (x : Dyadic) : repr53 (dyDouble x) = repr53 x := by
  cases x <;> rfl

theorem dyHalf_dyDouble (x : Dyadic) : dyHalf (dyDouble x) = x := by
  cases x with
  | zero => rfl
  | ofOdd n k hn =>
    show Dyadic.ofOdd n (k - 1 + 1) hn = Dyadic.ofOdd n k hn
    congr 1; omega

theorem dyDouble_eq (x : Dyadic) : dyDouble x = x + x := by
  have := dyHalf_add_self (dyDouble x)
  rw [dyHalf_dyDouble] at this
  exact this.symm

/-! ### powers of two in `Rat` -/

/-- `2 ^ e` for an integer exponent -/
def pw (e : Int) : Rat := (2 : Rat) ^ e

theorem pw_pos (e : Int) : 0 < pw e := Rat.zpow_pos (by decide)
theorem pw_add (a b : Int) : pw (a + b) = pw a * pw b := Rat.zpow_add (by decide) a b
theorem pw_nat (n : Nat) : pw (n : Int) = (((2 : Int) ^ n : Int) : Rat) := by
  unfold pw
  rw [Rat.zpow_natCast, Rat.intCast_pow]
  rfl

theorem int_mul_pw_lt {x y : Int} (e : Int) : (x : Rat) * pw e < (y : Rat) * pw e ↔ x < y := by
  rw [Rat.mul_lt_mul_right (pw_pos e), Rat.intCast_lt_intCast]

theorem int_mul_pw_le {x y : Int} (e : Int) : (x : Rat) * pw e ≤ (y : Rat) * pw e ↔ x ≤ y := by
  rw [← Rat.not_lt, int_mul_pw_lt, Int.not_lt]

/-- a value `m * 2^e` seen on the finer grid `2^(e - d)` -/
theorem mul_pw_shift (m e : Int) (d : Nat) :
    (m : Rat) * pw e = ((m * 2 ^ d : Int) : Rat) * pw (e - d) := by
  have : e = (d : Int) + (e - d) := by omega
  conv => lhs; rw [this, pw_add, pw_nat]
  rw [Rat.intCast_mul, Rat.mul_assoc]

theorem toRat_grid (m p : Int) : (Dyadic.ofIntWithPrec m p).toRat = m * pw (-p) :=
  Dyadic.toRat_ofIntWithPrec_eq_mul_two_pow

theorem toRat_odd (n k : Int) (hn : n % 2 = 1) : (Dyadic.ofOdd n k hn).toRat = n * pw (-k) :=
  Dyadic.toRat_ofOdd_eq_mul_two_pow

/-- grid points are ordered like their numerators -/
theorem grid_le_grid {m₁ m₂ : Int} (p : Int) (h : m₁ ≤ m₂) :
    Dyadic.ofIntWithPrec m₁ p ≤ Dyadic.ofIntWithPrec m₂ p := by
  rw [← Dyadic.toRat_le_toRat_iff, toRat_grid, toRat_grid, int_mul_pw_le]
  exact h

theorem two_le_pow {d : Nat} (hd : 1 ≤ d) : (2 : Int) ≤ 2 ^ d := by
  have := Nat.pow_le_pow_right (by decide : 2 > 0) hd
  have h2 : ((2 ^ 1 : Nat) : Int) ≤ ((2 ^ d : Nat) : Int) := Int.ofNat_le.2 this
  simpa using h2

/-! ### no double between two neighbours of the 53-bit grid -/

theorem no_repr_between (q : Nat) (hq : 2 ^ 52 ≤ q) (p : Int) (z : Dyadic) (hz : repr53 z = true) :
    ¬ (Dyadic.ofIntWithPrec q p < z ∧ z < Dyadic.ofIntWithPrec (q + 1 : Nat) p) := by
  rintro ⟨h1, h2⟩
  rw [← Dyadic.toRat_lt_toRat_iff, toRat_grid] at h1 h2
  cases z with
  | zero =>
    have h0 : (Dyadic.zero).toRat = ((0 : Int) : Rat) * pw (-p) := by
      show (0 : Dyadic).toRat = _
      rw [Dyadic.toRat_zero]; simp
    rw [h0, int_mul_pw_lt] at h1
    omega
  | ofOdd c f hc =>
    have hbits : natBits c.natAbs ≤ 53 := by simpa [repr53] using hz
    have hc53 : c.natAbs < 2 ^ 53 := (natBits_le_iff _ _).1 hbits
    rw [toRat_odd] at h1 h2
    by_cases hfp : f ≤ p
    · obtain ⟨d, hd⟩ : ∃ d : Nat, (d : Int) = p - f := ⟨(p - f).toNat, by omega⟩
      have hz' := mul_pw_shift c (-f) d
      have he : -f - (d : Int) = -p := by omega
      rw [he] at hz'
      rw [hz', int_mul_pw_lt] at h1 h2
      omega
    · obtain ⟨d, hd⟩ : ∃ d : Nat, (d : Int) = f - p := ⟨(f - p).toNat, by omega⟩
      have hlo := mul_pw_shift (q : Int) (-p) d
      have he : -p - (d : Int) = -f := by omega
      rw [he] at hlo
      rw [hlo, int_mul_pw_lt] at h1
      have hd1 : 1 ≤ d := by omega
      have ht := two_le_pow hd1
      have hq' : ((2 : Int) ^ 52) ≤ (q : Int) := by
        have : ((2 ^ 52 : Nat) : Int) ≤ (q : Int) := Int.ofNat_le.2 hq
        simpa using this
      have hprod : (2 : Int) ^ 52 * 2 ≤ (q : Int) * 2 ^ d :=
        Int.mul_le_mul hq' ht (by decide) (by omega)
      omega

/-! ### the shape of `round53` on a number that is not a double -/

/-- the quotient `a >>> sh` of an odd `a` with `53 + sh` bits, `sh ≥ 1` -/
theorem quot_facts (a : Nat) (hodd : a % 2 = 1) (hb : 53 < natBits a) :
    2 ^ 52 ≤ a >>> (natBits a - 53) ∧
    (a >>> (natBits a - 53)) * 2 ^ (natBits a - 53) < a ∧
    a < (a >>> (natBits a - 53) + 1) * 2 ^ (natBits a - 53) := by
  have ha : a ≠ 0 := by intro h; rw [h] at hodd; cases hodd
  have hB : natBits a = a.log2 + 1 := by simp [natBits, ha]
  generalize hsh : natBits a - 53 = sh at *
  have hlog : a.log2 = 52 + sh := by omega
  have hlo := Nat.log2_self_le ha
  rw [hlog] at hlo
  have hpos : 0 < 2 ^ sh := Nat.two_pow_pos sh
  rw [Nat.shiftRight_eq_div_pow]
  have hdm := Nat.div_add_mod a (2 ^ sh)
  have hml := Nat.mod_lt a hpos
  have hsh1 : 1 ≤ sh := by omega
  have hdvd : 2 ∣ 2 ^ sh := by
    obtain ⟨t, ht⟩ : ∃ t, sh = t + 1 := ⟨sh - 1, by omega⟩
    rw [ht, Nat.pow_succ]; exact Nat.dvd_mul_left 2 _
  have hr : a % 2 ^ sh % 2 = a % 2 := Nat.mod_mod_of_dvd a hdvd
  refine ⟨?_, ?_, ?_⟩
  · rw [Nat.le_div_iff_mul_le hpos, ← Nat.pow_add]; exact hlo
  · have : a / 2 ^ sh * 2 ^ sh = 2 ^ sh * (a / 2 ^ sh) := Nat.mul_comm _ _
    omega
  · have : (a / 2 ^ sh + 1) * 2 ^ sh = 2 ^ sh * (a / 2 ^ sh) + 2 ^ sh := by
      rw [Nat.add_mul, Nat.one_mul, Nat.mul_comm]
    omega

theorem round53_pos_form (n k : Int) (hn : n % 2 = 1) (hpos : 0 < n) (hb : 53 < natBits n.natAbs) :
    round53 (.ofOdd n k hn)
        = Dyadic.ofIntWithPrec ((n.natAbs >>> (natBits n.natAbs - 53) : Nat) : Int)
            (k - ((natBits n.natAbs - 53 : Nat) : Int)) ∨
    round53 (.ofOdd n k hn)
        = Dyadic.ofIntWithPrec ((n.natAbs >>> (natBits n.natAbs - 53) + 1 : Nat) : Int)
            (k - ((natBits n.natAbs - 53 : Nat) : Int)) := by
  have hnb : ¬ natBits n.natAbs ≤ 53 := by omega
  have hnn : ¬ n < 0 := by omega
  simp only [round53, hnb, if_false, hnn]
  split
  · exact Or.inr rfl
  · exact Or.inl rfl

theorem round53_neg (x : Dyadic) : round53 (-x) = -round53 x := by
  cases x with
  | zero => rfl
  | ofOdd n k hn =>
    rw [Dyadic.neg_ofOdd]
    by_cases hb : natBits n.natAbs ≤ 53
    · rw [round53_of_bits _ _ _ (by rw [Int.natAbs_neg]; exact hb), round53_of_bits _ _ _ hb,
        Dyadic.neg_ofOdd]
    · simp only [round53, Int.natAbs_neg, hb, if_false]
      rw [Dyadic.neg_ofIntWithPrec]
      congr 1
      by_cases hlt : n < 0
      · have : ¬ -n < 0 := by omega
        simp only [hlt, this, if_true, if_false, Int.neg_neg]
      · have : -n < 0 := by omega
        simp only [hlt, this, if_true, if_false]

/-- a positive number that is not a double lies strictly between its two neighbours on the
53-bit grid, and `round53` picks one of them -/
theorem bracket (n k : Int) (hn : n % 2 = 1) (hpos : 0 < n) (hb : 53 < natBits n.natAbs) :
    ∃ (q : Nat) (p : Int), 2 ^ 52 ≤ q ∧
      Dyadic.ofIntWithPrec q p < .ofOdd n k hn ∧
      Dyadic.ofOdd n k hn < Dyadic.ofIntWithPrec (q + 1 : Nat) p ∧
      (round53 (.ofOdd n k hn) = Dyadic.ofIntWithPrec q p ∨
        round53 (.ofOdd n k hn) = Dyadic.ofIntWithPrec (q + 1 : Nat) p) := by
  have hodd : n.natAbs % 2 = 1 := by omega
  obtain ⟨hq, hlo, hhi⟩ := quot_facts n.natAbs hodd hb
  refine ⟨n.natAbs >>> (natBits n.natAbs - 53), k - ((natBits n.natAbs - 53 : Nat) : Int), hq, ?_, ?_,
    round53_pos_form n k hn hpos hb⟩
  · rw [← Dyadic.toRat_lt_toRat_iff, toRat_grid, toRat_odd,
      mul_pw_shift _ _ (natBits n.natAbs - 53)]
    have he : -(k - ((natBits n.natAbs - 53 : Nat) : Int)) - ((natBits n.natAbs - 53 : Nat) : Int) = -k := by
      omega
    rw [he, int_mul_pw_lt]
    have : ((n.natAbs >>> (natBits n.natAbs - 53) * 2 ^ (natBits n.natAbs - 53) : Nat) : Int)
        < (n.natAbs : Int) := Int.ofNat_lt.2 hlo
    have hn' : (n.natAbs : Int) = n := by omega
    rw [hn'] at this
    simpa using this
  · rw [← Dyadic.toRat_lt_toRat_iff, toRat_grid, toRat_odd,
      mul_pw_shift _ (-(k - _)) (natBits n.natAbs - 53)]
    have he : -(k - ((natBits n.natAbs - 53 : Nat) : Int)) - ((natBits n.natAbs - 53 : Nat) : Int) = -k := by
      omega
    rw [he, int_mul_pw_lt]
    have : (n.natAbs : Int)
        < (((n.natAbs >>> (natBits n.natAbs - 53) + 1) * 2 ^ (natBits n.natAbs - 53) : Nat) : Int) :=
      Int.ofNat_lt.2 hhi
    have hn' : (n.natAbs : Int) = n := by omega
    rw [hn'] at this
    simpa using this

/-! ### rounding never crosses a double -/

theorem round53_ge_of_repr_le_pos (n k : Int) (hn : n % 2 = 1) (hpos : 0 < n)
    (hb : 53 < natBits n.natAbs) {z : Dyadic} (hz : repr53 z = true) (h : z ≤ .ofOdd n k hn) :
    z ≤ round53 (.ofOdd n k hn) := by
  obtain ⟨q, p, hq, hlo, hhi, hr⟩ := bracket n k hn hpos hb
  have hge : Dyadic.ofIntWithPrec q p ≤ round53 (.ofOdd n k hn) := by
    rcases hr with hr | hr <;> rw [hr]
    · exact Dyadic.le_refl _
    · exact grid_le_grid p (by omega)
  by_cases hzl : z ≤ Dyadic.ofIntWithPrec q p
  · exact Dyadic.le_trans hzl hge
  · exact absurd ⟨Dyadic.not_lt.1 hzl, dy_lt_of_le_of_lt h hhi⟩ (no_repr_between q hq p z hz)

theorem round53_le_of_repr_ge_pos (n k : Int) (hn : n % 2 = 1) (hpos : 0 < n)
    (hb : 53 < natBits n.natAbs) {z : Dyadic} (hz : repr53 z = true) (h : Dyadic.ofOdd n k hn ≤ z) :
    round53 (.ofOdd n k hn) ≤ z := by
  obtain ⟨q, p, hq, hlo, hhi, hr⟩ := bracket n k hn hpos hb
  have hle : round53 (.ofOdd n k hn) ≤ Dyadic.ofIntWithPrec (q + 1 : Nat) p := by
    rcases hr with hr | hr <;> rw [hr]
    · exact grid_le_grid p (by omega)
    · exact Dyadic.le_refl _
  by_cases hzh : Dyadic.ofIntWithPrec (q + 1 : Nat) p ≤ z
  · exact Dyadic.le_trans hle hzh
  · exact absurd ⟨dy_lt_of_lt_of_le hlo h, Dyadic.not_lt.1 hzh⟩ (no_repr_between q hq p z hz)

theorem neg_le_neg_iff' {a b : Dyadic} : -a ≤ -b ↔ b ≤ a := by
  constructor <;> intro h <;> grind

/-- rounding does not go below a double that the exact value does not go below -/
theorem round53_ge_of_repr_le {z y : Dyadic} (hz : repr53 z = true) (h : z ≤ y) : z ≤ round53 y := by
  cases y with
  | zero => exact h
  | ofOdd n k hn =>
    by_cases hb : natBits n.natAbs ≤ 53
    · rw [round53_of_bits n k hn hb]; exact h
    · by_cases hpos : 0 < n
      · exact round53_ge_of_repr_le_pos n k hn hpos (by omega) hz h
      · have hneg : 0 < -n := by omega
        have hn' : -n % 2 = 1 := by omega
        have hneq : Dyadic.ofOdd (-n) k hn' = -Dyadic.ofOdd n k hn := rfl
        have h' : Dyadic.ofOdd (-n) k hn' ≤ -z := by
          rw [hneq]; exact neg_le_neg_iff'.2 h
        have := round53_le_of_repr_ge_pos (-n) k hn' hneg
          (by rw [Int.natAbs_neg]; omega) (by rw [repr53_neg]; exact hz) h'
        rw [hneq, round53_neg] at this
        exact neg_le_neg_iff'.1 this

/-- rounding does not go above a double that the exact value does not go above -/
theorem round53_le_of_repr_ge {z y : Dyadic} (hz : repr53 z = true) (h : y ≤ z) : round53 y ≤ z := by
  have h' : -z ≤ -y := neg_le_neg_iff'.2 h
  have := round53_ge_of_repr_le (by rw [repr53_neg]; exact hz) h'
  rw [round53_neg] at this
  exact neg_le_neg_iff'.1 this

/-! ### the result of rounding is a double -/

theorem repr53_grid (m p : Int) (h : m.natAbs ≤ 2 ^ 53) : repr53 (Dyadic.ofIntWithPrec m p) = true := by
  unfold Dyadic.ofIntWithPrec
  split
  · rfl
  · rename_i hm
    have hodd := Int.shiftRight_trailingZeros_mod_two hm
    simp only [repr53, decide_eq_true_eq, natBits_le_iff]
    have hle : (m >>> m.trailingZeros).natAbs ≤ m.natAbs := by
      rw [Int.shiftRight_eq_div_pow]; exact Int.natAbs_ediv_le_natAbs _ _
    have hne : (m >>> m.trailingZeros).natAbs ≠ 2 ^ 53 := by
      intro he
      have : (m >>> m.trailingZeros).natAbs % 2 = 1 := by omega
      rw [he] at this
      cases this
    omega

theorem repr53_round53 (x : Dyadic) : repr53 (round53 x) = true := by
  cases x with
  | zero => rfl
  | ofOdd n k hn =>
    by_cases hb : natBits n.natAbs ≤ 53
    · rw [round53_of_bits n k hn hb]; simpa [repr53] using hb
    · have hodd : n.natAbs % 2 = 1 := by omega
      obtain ⟨_, hlo, _⟩ := quot_facts n.natAbs hodd (by omega)
      have hlt : n.natAbs < 2 ^ natBits n.natAbs := by
        have hne : n.natAbs ≠ 0 := by omega
        simp only [natBits, hne, if_false]
        exact Nat.lt_log2_self
      have hq53 : n.natAbs >>> (natBits n.natAbs - 53) < 2 ^ 53 := by
        rw [Nat.shiftRight_eq_div_pow, Nat.div_lt_iff_lt_mul (Nat.two_pow_pos _), ← Nat.pow_add]
        have : 53 + (natBits n.natAbs - 53) = natBits n.natAbs := by omega
        rw [this]; exact hlt
      simp only [round53, hb, if_false]
      apply repr53_grid
      have hq' : ∀ c : Bool, (if c = true then n.natAbs >>> (natBits n.natAbs - 53) + 1
          else n.natAbs >>> (natBits n.natAbs - 53)) ≤ 2 ^ 53 := by
        intro c; split <;> omega
      split <;> simp only [Int.natAbs_neg, Int.natAbs_natCast] <;> exact hq' _

theorem repr53_mid53 (a b : Dyadic) : repr53 (mid53 a b) = true := by
  unfold mid53
  rw [repr53_dyHalf]; exact repr53_round53 _

/-! ### the order facts -/

/-- `max + 1`: beyond `max`, unless it rounds back to `max` -/
theorem push_back_order {m : Dyadic} (hm : repr53 m = true) (hne : round53 (m + 1) ≠ m) :
    m < round53 (m + 1) :=
  dy_lt_of_le_of_ne (round53_ge_of_repr_le hm (dy_le_of_lt (dy_lt_add_one m))) (Ne.symm hne)

/-- `min - 1`: below `min`, unless it rounds back to `min` -/
theorem push_front_order {m : Dyadic} (hm : repr53 m = true) (hne : round53 (m - 1) ≠ m) :
    round53 (m - 1) < m :=
  dy_lt_of_le_of_ne (round53_le_of_repr_ge hm (dy_le_of_lt (dy_sub_one_lt m))) hne

theorem dyHalf_le_dyHalf {x y : Dyadic} (h : x ≤ y) : dyHalf x ≤ dyHalf y := by
  have h1 := dyHalf_add_self x
  have h2 := dyHalf_add_self y
  grind

/-- `(a + b) / 2`: strictly between, unless it rounds to one of the two -/
theorem mid_order {a b : Dyadic} (ha : repr53 a = true) (hb : repr53 b = true) (hab : a < b)
    (hna : mid53 a b ≠ a) (hnb : mid53 a b ≠ b) : a < mid53 a b ∧ mid53 a b < b := by
  have h1 : dyDouble a ≤ a + b := by rw [dyDouble_eq]; grind
  have h2 : a + b ≤ dyDouble b := by rw [dyDouble_eq]; grind
  have h3 := round53_ge_of_repr_le (by rw [repr53_dyDouble]; exact ha) h1
  have h4 := round53_le_of_repr_ge (by rw [repr53_dyDouble]; exact hb) h2
  have h5 := dyHalf_le_dyHalf h3
  have h6 := dyHalf_le_dyHalf h4
  rw [dyHalf_dyDouble] at h5 h6
  exact ⟨dy_lt_of_le_of_ne h5 (Ne.symm hna), dy_lt_of_le_of_ne h6 hnb⟩

/-! ### `Spacious` for tables whose positions are doubles -/

/-- every stored position is a double -/
def PosRepr (L : List ListRow) : Prop := ∀ x ∈ L, repr53 x.pos = true

theorem pushRoom_of_repr (L : List ListRow) (kid : Int) (front : Bool) (hr : PosRepr L)
    (hnc : ((L.filter (fun x => x.kid == kid)).map (·.pos)).contains (pushPos L kid front) = false) :
    pushRoom L kid front = true := by
  unfold pushRoom
  rw [List.all_eq_true]
  intro x hx
  have hxp : x.pos ∈ (L.filter (fun x => x.kid == kid)).map (·.pos) := List.mem_map.2 ⟨x, hx, rfl⟩
  have hrepr : ∀ m ∈ (L.filter (fun x => x.kid == kid)).map (·.pos), repr53 m = true := by
    intro m hm
    obtain ⟨y, hy, rfl⟩ := List.mem_map.1 hm
    exact hr y (List.mem_filter.1 hy).1
  have hnot : pushPos L kid front ∉ (L.filter (fun x => x.kid == kid)).map (·.pos) := by
    intro hmem
    rw [List.contains_eq_mem, decide_eq_false_iff_not] at hnc
    exact hnc hmem
  unfold pushPos at hnot ⊢
  cases front with
  | true =>
    simp only [if_true] at hnot ⊢
    cases hm : dyMin ((L.filter (fun x => x.kid == kid)).map (·.pos)) with
    | none => rw [dyMin_eq_none.1 hm] at hxp; cases hxp
    | some m =>
      rw [hm] at hnot
      have hnot : round53 (m - 1) ∉ (L.filter (fun x => x.kid == kid)).map (·.pos) := hnot
      obtain ⟨hmem, hle⟩ := dyMin_spec hm
      have hne : round53 (m - 1) ≠ m := fun he => hnot (by rw [he]; exact hmem)
      simp only [decide_eq_true_eq]
      exact dy_lt_of_lt_of_le (push_front_order (hrepr m hmem) hne) (hle _ hxp)
  | false =>
    simp only [Bool.false_eq_true, if_false] at hnot ⊢
    cases hm : dyMax ((L.filter (fun x => x.kid == kid)).map (·.pos)) with
    | none => rw [dyMax_eq_none.1 hm] at hxp; cases hxp
    | some m =>
      rw [hm] at hnot
      have hnot : round53 (m + 1) ∉ (L.filter (fun x => x.kid == kid)).map (·.pos) := hnot
      obtain ⟨hmem, hle⟩ := dyMax_spec hm
      have hne : round53 (m + 1) ≠ m := fun he => hnot (by rw [he]; exact hmem)
      simp only [decide_eq_true_eq]
      exact dy_lt_of_le_of_lt (hle _ hxp) (push_back_order (hrepr m hmem) hne)

theorem insertRoom_of_repr (rows : List ListRow) (p : Bytes) (after : Bool) (hr : PosRepr rows)
    (hnc : ∀ np, insertPos rows p after = some np → np ∉ rows.map (·.pos)) :
    insertRoom rows p after = true := by
  unfold insertRoom
  cases hpv : pivotPos rows p with
  | none => rfl
  | some pv =>
    cases hnp : insertPos rows p after with
    | none => rfl
    | some np =>
      have hfresh := hnc np hnp
      unfold insertPos at hnp
      rw [hpv] at hnp
      simp only [Option.some.injEq] at hnp
      have hsub : ∀ (q : ListRow → Bool) pos, pos ∈ (rows.filter q).map (·.pos) →
          pos ∈ rows.map (·.pos) := by
        intro q pos hpos
        obtain ⟨x, hx, rfl⟩ := List.mem_map.1 hpos
        exact List.mem_map.2 ⟨x, (List.mem_filter.1 hx).1, rfl⟩
      have hrepr : ∀ pos ∈ rows.map (·.pos), repr53 pos = true := by
        intro pos hpos
        obtain ⟨x, hx, rfl⟩ := List.mem_map.1 hpos
        exact hr x hx
      have hpvmem : pv ∈ rows.map (·.pos) := hsub _ pv (dyMin_spec hpv).1
      simp only [List.all_eq_true]
      intro x hx
      cases after with
      | true =>
        simp only [if_true] at hnp ⊢
        cases hm : dyMin ((rows.filter (fun x => decide (pv < x.pos))).map (·.pos)) with
        | none =>
          rw [hm] at hnp
          have hnp : round53 (pv + 1) = np := hnp
          subst hnp
          have hne : round53 (pv + 1) ≠ pv := fun he => hfresh (by rw [he]; exact hpvmem)
          have hlt := push_back_order (hrepr pv hpvmem) hne
          have hnil := dyMin_eq_none.1 hm
          have hnlt : ¬ pv < x.pos := by
            intro hlt'
            have : x.pos ∈ (rows.filter (fun x => decide (pv < x.pos))).map (·.pos) :=
              List.mem_map.2 ⟨x, List.mem_filter.2 ⟨hx, decide_eq_true hlt'⟩, rfl⟩
            rw [hnil] at this; cases this
          simp only [hnlt, decide_false, Bool.false_eq_true, if_false, decide_eq_true_eq]
          exact dy_lt_of_le_of_lt (Dyadic.not_le.1 hnlt) hlt
        | some nx =>
          rw [hm] at hnp
          have hnp : mid53 pv nx = np := hnp
          subst hnp
          obtain ⟨hmem, hle⟩ := dyMin_spec hm
          obtain ⟨y, hy, hyp⟩ := List.mem_map.1 hmem
          have hlt : pv < nx := by
            rw [← hyp]; exact of_decide_eq_true (List.mem_filter.1 hy).2
          have hnxmem : nx ∈ rows.map (·.pos) := hsub _ nx hmem
          have hb := mid_order (hrepr pv hpvmem) (hrepr nx hnxmem) hlt
            (fun he => hfresh (by rw [he]; exact hpvmem)) (fun he => hfresh (by rw [he]; exact hnxmem))
          by_cases hc : pv < x.pos
          · have : nx ≤ x.pos :=
              hle _ (List.mem_map.2 ⟨x, List.mem_filter.2 ⟨hx, decide_eq_true hc⟩, rfl⟩)
            simp only [hc, decide_true, if_true, decide_eq_true_eq]
            exact dy_lt_of_lt_of_le hb.2 this
          · simp only [hc, decide_false, Bool.false_eq_true, if_false, decide_eq_true_eq]
            exact dy_lt_of_le_of_lt (Dyadic.not_le.1 hc) hb.1
      | false =>
        simp only [Bool.false_eq_true, if_false] at hnp ⊢
        cases hm : dyMax ((rows.filter (fun x => decide (x.pos < pv))).map (·.pos)) with
        | none =>
          rw [hm] at hnp
          have hnp : round53 (pv - 1) = np := hnp
          subst hnp
          have hne : round53 (pv - 1) ≠ pv := fun he => hfresh (by rw [he]; exact hpvmem)
          have hlt := push_front_order (hrepr pv hpvmem) hne
          have hnil := dyMax_eq_none.1 hm
          have hnlt : ¬ x.pos < pv := by
            intro hlt'
            have : x.pos ∈ (rows.filter (fun x => decide (x.pos < pv))).map (·.pos) :=
              List.mem_map.2 ⟨x, List.mem_filter.2 ⟨hx, decide_eq_true hlt'⟩, rfl⟩
            rw [hnil] at this; cases this
          simp only [hnlt, decide_false, Bool.false_eq_true, if_false, decide_eq_true_eq]
          exact dy_lt_of_lt_of_le hlt (Dyadic.not_le.1 hnlt)
        | some pr =>
          rw [hm] at hnp
          have hnp : mid53 pr pv = np := hnp
          subst hnp
          obtain ⟨hmem, hle⟩ := dyMax_spec hm
          obtain ⟨y, hy, hyp⟩ := List.mem_map.1 hmem
          have hlt : pr < pv := by
            rw [← hyp]; exact of_decide_eq_true (List.mem_filter.1 hy).2
          have hprmem : pr ∈ rows.map (·.pos) := hsub _ pr hmem
          have hb := mid_order (hrepr pr hprmem) (hrepr pv hpvmem) hlt
            (fun he => hfresh (by rw [he]; exact hprmem)) (fun he => hfresh (by rw [he]; exact hpvmem))
          by_cases hc : x.pos < pv
          · have : x.pos ≤ pr :=
              hle _ (List.mem_map.2 ⟨x, List.mem_filter.2 ⟨hx, decide_eq_true hc⟩, rfl⟩)
            simp only [hc, decide_true, if_true, decide_eq_true_eq]
            exact dy_lt_of_le_of_lt this hb.1
          · simp only [hc, decide_false, Bool.false_eq_true, if_false, decide_eq_true_eq]
            exact dy_lt_of_lt_of_le hb.2 (Dyadic.not_le.1 hc)

/-- the position a push computes is a double -/
theorem repr53_pushPos (L : List ListRow) (kid : Int) (front : Bool) :
    repr53 (pushPos L kid front) = true := by
  unfold pushPos
  simp only []
  cases front with
  | true =>
    simp only [if_true]
    split
    · rfl
    · exact repr53_round53 _
  | false =>
    simp only [Bool.false_eq_true, if_false]
    split
    · rfl
    · exact repr53_round53 _

/-- the position an insert computes is a double -/
theorem repr53_insertPos {rows : List ListRow} {p : Bytes} {after : Bool} {np : Dyadic}
    (h : insertPos rows p after = some np) : repr53 np = true := by
  unfold insertPos at h
  split at h
  · cases h
  · simp only [Option.some.injEq] at h
    subst h
    cases after with
    | true =>
      simp only [if_true]
      split
      · exact repr53_round53 _
      · exact repr53_mid53 _ _
    | false =>
      simp only [Bool.false_eq_true, if_false]
      split
      · exact repr53_round53 _
      · exact repr53_mid53 _ _

/-! ### every list operation keeps the stored positions doubles -/

/-- every position stored in `rlist` is a double (what the `real` column can hold) -/
def Representable (db : DB) : Prop := PosRepr db.lists

theorem listDeleteRows_repr {db : DB} (h : Representable db) (kid : Int) (V : List Dyadic) (now : Int) :
    Representable (listDeleteRows db kid V now) := by
  rw [listDeleteRows_eq]
  intro x hx
  exact h x (List.mem_filter.1 hx).1

theorem listPop_repr {db : DB} (h : Representable db) (k : Bytes) (front : Bool) (now : Int) :
    Representable (listPop db k front now).db := by
  unfold listPop
  split
  · exact h
  · simp only []
    split
    · exact h
    · exact listDeleteRows_repr h _ _ _

theorem listDelete_repr {db : DB} (h : Representable db) (k e : Bytes) (now : Int) :
    Representable (listDelete db k e now).db := by
  unfold listDelete
  split
  · exact h
  · exact listDeleteRows_repr h _ _ _

theorem listDeleteN_repr {db : DB} (h : Representable db) (k e : Bytes) (n : Int) (back : Bool)
    (now : Int) : Representable (listDeleteN db k e n back now).db := by
  unfold listDeleteN
  split
  · exact h
  · split
    · exact h
    · exact listDeleteRows_repr h _ _ _

theorem listTrim_repr {db : DB} (h : Representable db) (k : Bytes) (a b : Int) (now : Int) :
    Representable (listTrim db k a b now).db := by
  unfold listTrim
  split
  · exact h
  · simp only []
    split
    · exact h
    · split
      · exact h
      · exact listDeleteRows_repr h _ _ _

theorem listSet_repr {db : DB} (h : Representable db) (k : Bytes) (i : Int) (e : Bytes) (now : Int) :
    Representable (listSet db k i e now).db := by
  unfold listSet
  split
  · exact h
  · simp only []
    split
    · exact h
    · intro x hx
      simp only [Res.ok] at hx
      obtain ⟨y, hy, rfl⟩ := List.mem_map.1 hx
      have hy' : y ∈ db.lists := hy
      split
      · exact h y hy'
      · exact h y hy'

theorem listPushKey_lists {db db1 : DB} {k : Bytes} {now : Int} {r : KeyRow}
    (h : listPushKey db k now = .ok (db1, r)) : db1.lists = db.lists := by
  unfold listPushKey keyUpsert at h
  split at h
  · cases h; rfl
  · split at h
    · cases h; rfl
    · cases h

theorem listPush_repr {db : DB} (h : Representable db) (k e : Bytes) (front : Bool) (now : Int) :
    Representable (listPush db k e front now).db := by
  rw [listPush_eq]
  cases hk : listPushKey db k now with
  | error er => exact h
  | ok p =>
    obtain ⟨db1, r⟩ := p
    have hl := listPushKey_lists hk
    simp only []
    split
    · intro x hx
      have hx' : x ∈ db1.lists := hx
      rw [hl] at hx'; exact h x hx'
    · intro x hx
      simp only [Res.ok] at hx
      rcases List.mem_append.1 hx with hx | hx
      · rw [hl] at hx; exact h x hx
      · have : x = { kid := r.id, pos := pushPos db1.lists r.id front, elem := e } := by simpa using hx
        rw [this]; exact repr53_pushPos _ _ _

theorem listInsert_repr {db : DB} (h : Representable db) (k p e : Bytes) (after : Bool) (now : Int) :
    Representable (listInsert db k p e after now).db := by
  rw [listInsert_eq]
  split
  · exact h
  · rename_i r0 _
    cases hnp : insertPos (listRows db r0.id) p after with
    | none => exact h
    | some np =>
      simp only []
      split
      · exact h
      · intro x hx
        simp only [Res.ok] at hx
        have hx' : x ∈ db.lists ++ [{ kid := r0.id, pos := np, elem := e }] := hx
        rcases List.mem_append.1 hx' with hx' | hx'
        · exact h x hx'
        · have : x = { kid := r0.id, pos := np, elem := e } := by simpa using hx'
          rw [this]; exact repr53_insertPos hnp

theorem listPopBackPushFront_repr {db : DB} (h : Representable db) (s d : Bytes) (now : Int) :
    Representable (listPopBackPushFront db s d now).db := by
  have h1 := listPop_repr h s false now
  unfold listPopBackPushFront
  simp only []
  split
  · exact h1
  · rename_i el _
    have h2 := listPush_repr h1 d el true now
    split
    · exact h2
    · exact h2
  · exact h1

theorem update_repr {f : DB → Res} {db : DB} (h : Representable db) (hf : Representable (f db).db) :
    Representable (update f db).db := by
  unfold update
  simp only []
  split
  · exact hf
  · exact h

end Redka.ListRound
