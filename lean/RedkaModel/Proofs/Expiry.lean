/-
  Lemmas for C10 ("an expired key does not exist, for any operation"): the database after the
  unlimited cleaner ran at `now` (`cleaned now db`), and what it shares with the database it was
  made from — the abstract keyspace, the structural invariant, every guarded lookup
  (`liveKey`, `liveKeyT`), the child rows of every live key and therefore every raw read the
  deviation classifiers of the families consult (`strGetRaw`, `hashGetRaw`, `liveListLen`).
  It holds no expired row, so the class D05 (`Spec.staleKey`) and the class D06
  (`keys.any (!live)`) are empty on it.

  Property theorems are in `Props/C10.lean`.
-/
import RedkaModel.Proofs.Clean
import RedkaModel.Proofs.Abs
import RedkaModel.Proofs.ListRef

namespace Redka.ExpiryProofs

open Redka Redka.Model Redka.Clean

/-- the database after the background cleaner ran (without a limit) at `now`:
`delete from rkey where etime <= now`, children by `ON DELETE CASCADE` -/
def cleaned (now : Int) (db : DB) : DB := (Model.keyDeleteExpired db 0 now).db

/-! ### what `cleaned` is -/

theorem cleaned_keys {db : DB} (hu : KeyIdsUnique db) (now : Int) :
    (cleaned now db).keys = db.keys.filter (fun r => r.live now) := by
  unfold cleaned
  rw [keyDeleteExpired_keys]
  apply List.filter_congr
  intro x hx
  rw [sel_eq_expired hu (Int.le_refl 0) hx, live_eq_not_expired]

theorem cleaned_fk (now : Int) (db : DB) : (cleaned now db).fk = db.fk :=
  keyDeleteExpired_fk db 0 now

theorem abs_cleaned {db : DB} (hu : KeyIdsUnique db) (now : Int) :
    Spec.abs now (cleaned now db) = Spec.abs now db :=
  abs_keyDeleteExpired hu 0 (Int.le_refl now)

theorem abs_cleaned_from {db : DB} (hu : KeyIdsUnique db) {now now' : Int} (hle : now ≤ now') :
    Spec.abs now' (cleaned now db) = Spec.abs now' db :=
  abs_keyDeleteExpired hu 0 hle

theorem inv_cleaned {db : DB} (hinv : db.Inv) (hfk : db.fk = true) (now : Int) :
    (cleaned now db).Inv := by
  unfold cleaned
  rw [keyDeleteExpired_db]
  exact inv_dkw hinv hfk _

theorem keyIdsUnique_cleaned {db : DB} (hu : KeyIdsUnique db) (now : Int) :
    KeyIdsUnique (cleaned now db) := by
  unfold cleaned
  rw [keyDeleteExpired_db]
  exact keyIdsUnique_dkw hu _

/-- no hypothesis at all: every row the unlimited cleaner leaves is live -/
theorem cleaned_all_live (now : Int) (db : DB) : ∀ r ∈ (cleaned now db).keys, r.live now = true :=
  fun _ hr => live_of_mem_keyDeleteExpired (Int.le_refl 0) hr

/-- the live rows, in order, are what they were -/
theorem liveRows_cleaned {db : DB} (hu : KeyIdsUnique db) (now : Int) :
    (cleaned now db).keys.filter (fun r => r.live now) = db.keys.filter (fun r => r.live now) :=
  liveRows_keyDeleteExpired hu 0 (Int.le_refl now)

/-! ### the staleness classes are empty on `cleaned` -/

/-- D05 cannot arise: no name is held by a stored-but-expired row -/
theorem staleKey_cleaned (now : Int) (db : DB) (k : Bytes) :
    Spec.staleKey (cleaned now db) now k = false := by
  unfold Spec.staleKey
  cases h : (cleaned now db).findKey k with
  | none => rfl
  | some r =>
    have hl := cleaned_all_live now db r (DB.findKey_mem h).1
    simp [hl]

theorem stale_any_cleaned (now : Int) (db : DB) (ks : List Bytes) :
    ks.any (Spec.staleKey (cleaned now db) now) = false := by
  rw [List.any_eq_false]
  intro k _
  rw [staleKey_cleaned]
  exact Bool.false_ne_true

/-- D06 cannot arise: no stored row is expired -/
theorem no_expired_cleaned (now : Int) (db : DB) :
    (cleaned now db).keys.any (fun r => !r.live now) = false := by
  rw [List.any_eq_false]
  intro r hr
  rw [cleaned_all_live now db r hr]
  exact Bool.false_ne_true

/-! ### guarded lookups are unchanged -/

theorem liveKeyT_live (db : DB) (k : Bytes) (ty now : Int) :
    db.liveKeyT k ty now
      = (db.keys.filter (fun r => r.live now)).find? (fun r => r.key == k && r.ty == ty) := by
  unfold DB.liveKeyT
  rw [find?_filter_and]

theorem liveKey_cleaned {db : DB} (hu : KeyIdsUnique db) (now : Int) (k : Bytes) :
    (cleaned now db).liveKey k now = db.liveKey k now := by
  rw [liveKey_live, liveKey_live, liveRows_cleaned hu]

theorem liveKeyT_cleaned {db : DB} (hu : KeyIdsUnique db) (now : Int) (k : Bytes) (ty : Int) :
    (cleaned now db).liveKeyT k ty now = db.liveKeyT k ty now := by
  rw [liveKeyT_live, liveKeyT_live, liveRows_cleaned hu]

theorem liveKeyT_mem {db : DB} {k : Bytes} {ty now : Int} {r : KeyRow}
    (h : db.liveKeyT k ty now = some r) : r ∈ db.keys ∧ r.live now = true := by
  unfold DB.liveKeyT at h
  have hp := List.find?_some h
  simp only [Bool.and_eq_true] at hp
  exact ⟨List.mem_of_find?_eq_some h, hp.2⟩

/-! ### the child rows of a live key are unchanged -/

theorem live_id_not_gone {db : DB} (hu : KeyIdsUnique db) {now : Int} {r : KeyRow}
    (hr : r ∈ db.keys) (hl : r.live now = true) :
    (goneIds db (sel db 0 now)).contains r.id = false :=
  survivor_id_not_gone hu _ hr (sel_live_false hu (Int.le_refl now) hr hl)

theorem strs_find_cleaned {db : DB} (hu : KeyIdsUnique db) {now : Int} {r : KeyRow}
    (hr : r ∈ db.keys) (hl : r.live now = true) :
    (cleaned now db).strs.find? (fun s => s.kid == r.id) = db.strs.find? (fun s => s.kid == r.id) := by
  unfold cleaned
  rw [keyDeleteExpired_db]
  exact dkw_strs_find_of (live_id_not_gone hu hr hl)

theorem lists_filter_cleaned {db : DB} (hu : KeyIdsUnique db) {now : Int} {r : KeyRow}
    (hr : r ∈ db.keys) (hl : r.live now = true) :
    (cleaned now db).lists.filter (fun x => x.kid == r.id) = db.lists.filter (fun x => x.kid == r.id) := by
  unfold cleaned
  rw [keyDeleteExpired_db]
  exact dkw_lists_of (live_id_not_gone hu hr hl)

theorem hashes_filter_cleaned {db : DB} (hu : KeyIdsUnique db) {now : Int} {r : KeyRow}
    (hr : r ∈ db.keys) (hl : r.live now = true) :
    (cleaned now db).hashes.filter (fun x => x.kid == r.id)
      = db.hashes.filter (fun x => x.kid == r.id) := by
  unfold cleaned
  rw [keyDeleteExpired_db]
  exact dkw_hashes_of (live_id_not_gone hu hr hl)

theorem listRows_cleaned {db : DB} (hu : KeyIdsUnique db) {now : Int} {r : KeyRow}
    (hr : r ∈ db.keys) (hl : r.live now = true) :
    Model.listRows (cleaned now db) r.id = Model.listRows db r.id := by
  unfold Model.listRows
  rw [lists_filter_cleaned hu hr hl]

/-! ### the raw reads the classifiers consult are unchanged -/

/-- what D17 (strings) looks at -/
theorem strGetRaw_cleaned {db : DB} (hu : KeyIdsUnique db) (now : Int) (k : Bytes) :
    Model.strGetRaw (cleaned now db) k now = Model.strGetRaw db k now := by
  unfold Model.strGetRaw
  rw [liveKeyT_cleaned hu]
  cases h : db.liveKeyT k TString now with
  | none => rfl
  | some r =>
    obtain ⟨hr, hl⟩ := liveKeyT_mem h
    simp only []
    rw [strs_find_cleaned hu hr hl]

/-- what D17 (hashes) looks at -/
theorem hashGetRaw_cleaned {db : DB} (hu : KeyIdsUnique db) (now : Int) (k f : Bytes) :
    Model.hashGetRaw (cleaned now db) k f now = Model.hashGetRaw db k f now := by
  unfold Model.hashGetRaw
  rw [liveKeyT_cleaned hu]
  cases h : db.liveKeyT k THash now with
  | none => rfl
  | some r =>
    obtain ⟨hr, hl⟩ := liveKeyT_mem h
    simp only []
    have e : ∀ L : List HashRow, L.find? (fun x => x.kid == r.id && x.field == f)
        = (L.filter (fun x => x.kid == r.id)).find? (fun x => x.field == f) := by
      intro L
      rw [find?_filter_and]
      congr 1
      funext x
      exact Bool.and_comm _ _
    rw [e, e, hashes_filter_cleaned hu hr hl]

/-- what D01 / D02 look at -/
theorem liveListLen_cleaned {db : DB} (hu : KeyIdsUnique db) (now : Int) (k : Bytes) :
    Spec.liveListLen (cleaned now db) now k = Spec.liveListLen db now k := by
  unfold Spec.liveListLen
  rw [liveKeyT_cleaned hu]
  cases h : db.liveKeyT k TList now with
  | none => rfl
  | some r =>
    obtain ⟨hr, hl⟩ := liveKeyT_mem h
    simp only [Option.map_some]
    rw [listRows_cleaned hu hr hl]

/-! ### room for a pushed list position (`C02.Spacious`) is the same with and without the expired rows

`pushSpacious` is judged on the tables `sqlPush` leaves: the key row found BY NAME WITHOUT GUARD
(so a stale row would matter — excluded by `staleKey = false`) or a fresh id, and the `rlist` rows
of that id. -/

/-- `B` is `A` without the key rows that are expired at `now`, as far as a push can tell -/
structure Pruned (now : Int) (A B : DB) : Prop where
  names : (A.keys.map (·.key)).Nodup
  keys : B.keys = A.keys.filter (fun r => r.live now)
  lists : ∀ r ∈ A.keys, r.live now = true →
    B.lists.filter (fun x => x.kid == r.id) = A.lists.filter (fun x => x.kid == r.id)
  freshA : A.lists.filter (fun x => x.kid == A.nextKeyId) = []
  freshB : B.lists.filter (fun x => x.kid == B.nextKeyId) = []

theorem pruned_cleaned {db : DB} (hinv : db.Inv) (hfk : db.fk = true) (now : Int) :
    Pruned now db (cleaned now db) where
  names := (DB.Inv.wf hinv).names
  keys := cleaned_keys (keyIdsUnique_of_inv hinv) now
  lists := fun _ hr hl => lists_filter_cleaned (keyIdsUnique_of_inv hinv) hr hl
  freshA := (DB.Inv.lwf hinv).no_rows_fresh
  freshB := (DB.Inv.lwf (inv_cleaned hinv hfk now)).no_rows_fresh

theorem pushSpacious_eq (X : DB) (k : Bytes) (front : Bool) (now : Int) :
    pushSpacious X k front now = (match X.findKey k with
      | none => pushRoom X.lists X.nextKeyId front
      | some old => if old.ty == TList then pushRoom X.lists old.id front else true) := by
  unfold pushSpacious listPushKey keyUpsert
  cases h : X.findKey k with
  | none => rfl
  | some old =>
    cases ht : (old.ty == TList) with
    | true => simp only [ht, if_true]; rfl
    | false => simp only [ht, Bool.false_eq_true, if_false]

theorem pushRoom_congr {L L' : List ListRow} {i i' : Int} (front : Bool)
    (h : L.filter (fun x => x.kid == i) = L'.filter (fun x => x.kid == i')) :
    pushRoom L i front = pushRoom L' i' front := by
  unfold pushRoom pushPos
  simp only []
  rw [h]

theorem Pruned.findKey_eq {now : Int} {A B : DB} (h : Pruned now A B) (k : Bytes) :
    B.findKey k = (A.findKey k).filter (fun r => r.live now) := by
  rw [← DB.liveKey_eq h.names]
  unfold DB.findKey DB.liveKey
  rw [h.keys, find?_filter_and]

theorem Pruned.pushSpacious {now : Int} {A B : DB} (h : Pruned now A B) {d : Bytes}
    (hns : Spec.staleKey A now d = false) (front : Bool) :
    pushSpacious B d front now = pushSpacious A d front now := by
  rw [pushSpacious_eq, pushSpacious_eq, h.findKey_eq]
  cases hf : A.findKey d with
  | none =>
    simp only [Option.filter_none]
    exact pushRoom_congr front (h.freshB.trans h.freshA.symm)
  | some old =>
    have hl : old.live now = true := by simpa [Spec.staleKey, hf] using hns
    simp only [Option.filter_some, hl, if_true]
    split
    · exact pushRoom_congr front (h.lists old (DB.findKey_mem hf).1 hl)
    · rfl

/-- update some key rows in place (name, id, expiry kept) and delete some `rlist` rows -/
def touch (X : DB) (g : KeyRow → KeyRow) (q : ListRow → Bool) : DB :=
  { X with keys := X.keys.map g, lists := X.lists.filter q }

theorem filter_comm {α : Type} (a q : α → Bool) (l : List α) :
    (l.filter q).filter a = (l.filter a).filter q := by
  rw [List.filter_filter, List.filter_filter]
  apply List.filter_congr
  intro x _
  exact Bool.and_comm _ _

theorem touch_nextKeyId (X : DB) (g : KeyRow → KeyRow) (q : ListRow → Bool)
    (hi : ∀ r, (g r).id = r.id) : (touch X g q).nextKeyId = X.nextKeyId := by
  unfold DB.nextKeyId touch
  simp only [List.map_map]
  have : ((fun r : KeyRow => r.id) ∘ g) = (fun r : KeyRow => r.id) := funext hi
  rw [this]

theorem Pruned.touch {now : Int} {A B : DB} (h : Pruned now A B) (g : KeyRow → KeyRow)
    (q : ListRow → Bool) (hk : ∀ r, (g r).key = r.key) (hi : ∀ r, (g r).id = r.id)
    (he : ∀ r, (g r).etime = r.etime) : Pruned now (touch A g q) (touch B g q) := by
  have hlive : ∀ r : KeyRow, (g r).live now = r.live now := by
    intro r; unfold KeyRow.live; rw [he]
  refine ⟨?_, ?_, ?_, ?_, ?_⟩
  · show ((A.keys.map g).map (·.key)).Nodup
    rw [List.map_map]
    have : ((fun r : KeyRow => r.key) ∘ g) = (fun r : KeyRow => r.key) := funext hk
    rw [this]; exact h.names
  · show B.keys.map g = (A.keys.map g).filter (fun r => r.live now)
    rw [h.keys, List.filter_map]
    congr 1
    apply List.filter_congr
    intro x _
    exact (hlive x).symm
  · intro r' hr' hl'
    obtain ⟨r, hr, rfl⟩ := List.mem_map.1 (show r' ∈ A.keys.map g from hr')
    rw [hlive] at hl'
    show (B.lists.filter q).filter (fun x => x.kid == (g r).id)
      = (A.lists.filter q).filter (fun x => x.kid == (g r).id)
    rw [hi, filter_comm, filter_comm _ q A.lists, h.lists r hr hl']
  · rw [touch_nextKeyId A g q hi]
    show (A.lists.filter q).filter (fun x => x.kid == A.nextKeyId) = []
    rw [filter_comm, h.freshA]; rfl
  · rw [touch_nextKeyId B g q hi]
    show (B.lists.filter q).filter (fun x => x.kid == B.nextKeyId) = []
    rw [filter_comm, h.freshB]; rfl

theorem staleKey_touch (X : DB) (g : KeyRow → KeyRow) (q : ListRow → Bool)
    (hk : ∀ r, (g r).key = r.key) (he : ∀ r, (g r).etime = r.etime) (now : Int) (d : Bytes) :
    Spec.staleKey (touch X g q) now d = Spec.staleKey X now d := by
  unfold Spec.staleKey DB.findKey touch
  simp only [List.find?_map]
  have : ((fun r : KeyRow => r.key == d) ∘ g) = (fun r : KeyRow => r.key == d) := by
    funext r; simp only [Function.comp, hk]
  rw [this]
  cases X.keys.find? (fun r => r.key == d) with
  | none => rfl
  | some r => simp only [Option.map_some, KeyRow.live, he]

theorem listDeleteRows_touch (X : DB) (kid : Int) (V : List Dyadic) (now : Int) :
    listDeleteRows X kid V now
      = touch X (fun r => if r.id == kid then delN now V.length r else r)
          (fun r => !(r.kid == kid && V.contains r.pos)) := by
  rw [listDeleteRows_eq]; rfl

theorem Pruned.deleteRows {now : Int} {A B : DB} (h : Pruned now A B) (kid : Int) (V : List Dyadic) :
    Pruned now (listDeleteRows A kid V now) (listDeleteRows B kid V now) := by
  rw [listDeleteRows_touch, listDeleteRows_touch]
  apply h.touch
  · intro r; split
    · exact delN_key _ _ _
    · rfl
  · intro r; split
    · exact delN_id _ _ _
    · rfl
  · intro r; split
    · exact delN_etime _ _ _
    · rfl

theorem staleKey_deleteRows (X : DB) (kid : Int) (V : List Dyadic) (now : Int) (d : Bytes) :
    Spec.staleKey (listDeleteRows X kid V now) now d = Spec.staleKey X now d := by
  rw [listDeleteRows_touch]
  apply staleKey_touch
  · intro r; split
    · exact delN_key _ _ _
    · rfl
  · intro r; split
    · exact delN_etime _ _ _
    · rfl

/-- `Spacious` of a push -/
theorem pushSpacious_cleaned {db : DB} (hinv : db.Inv) (hfk : db.fk = true) {now : Int} {k : Bytes}
    (hns : Spec.staleKey db now k = false) (front : Bool) :
    pushSpacious (cleaned now db) k front now = pushSpacious db k front now :=
  (pruned_cleaned hinv hfk now).pushSpacious hns front

/-- `Spacious` of an insert -/
theorem insertRoom_cleaned {db : DB} (hu : KeyIdsUnique db) (now : Int) (k p : Bytes) (after : Bool) :
    (match (cleaned now db).liveKeyT k TList now with
      | some r => insertRoom (listRows (cleaned now db) r.id) p after
      | none => true)
    = (match db.liveKeyT k TList now with
      | some r => insertRoom (listRows db r.id) p after
      | none => true) := by
  rw [liveKeyT_cleaned hu]
  cases h : db.liveKeyT k TList now with
  | none => rfl
  | some r =>
    obtain ⟨hr, hl⟩ := liveKeyT_mem h
    simp only []
    rw [listRows_cleaned hu hr hl]

/-- `Spacious` of pop-and-push: the pop answers the same and leaves tables that are again
"with / without the expired rows" of each other -/
theorem popPushSpacious_cleaned {db : DB} (hinv : db.Inv) (hfk : db.fk = true) {now : Int}
    (s : Bytes) {d : Bytes} (hns : Spec.staleKey db now d = false) :
    (match (listPop (cleaned now db) s false now).out with
      | .ok _ => pushSpacious (listPop (cleaned now db) s false now).db d true now
      | .error _ => true)
    = (match (listPop db s false now).out with
      | .ok _ => pushSpacious (listPop db s false now).db d true now
      | .error _ => true) := by
  have hu := keyIdsUnique_of_inv hinv
  unfold listPop
  rw [liveKeyT_cleaned hu]
  cases h : db.liveKeyT s TList now with
  | none => rfl
  | some r =>
    obtain ⟨hr, hl⟩ := liveKeyT_mem h
    simp only [Bool.false_eq_true, if_false]
    rw [listRows_cleaned hu hr hl]
    cases hg : (listRows db r.id).getLast? with
    | none => rfl
    | some row =>
      simp only [Res.ok]
      exact ((pruned_cleaned hinv hfk now).deleteRows r.id [row.pos]).pushSpacious
        (by rw [staleKey_deleteRows]; exact hns) true

/-! ### the boundary: a row is visible strictly before its expiry and never from it on -/

/-- under the invariant every live stored row has a typed value -/
theorem absVal_isSome {db : DB} (hw : db.WF) {r : KeyRow} (hr : r ∈ db.keys) :
    ∃ v, Spec.absVal db r = some v := by
  by_cases hty : r.ty = TString
  · obtain ⟨s, hs, hk⟩ := hw.strRow r hr hty
    rw [Spec.absVal_str hty]
    cases hf : db.strs.find? (fun s => s.kid == r.id) with
    | some s' => exact ⟨_, rfl⟩
    | none =>
      rw [List.find?_eq_none] at hf
      exact absurd (by simp [hk]) (hf s hs)
  · obtain ⟨v, hv, _⟩ := Spec.absVal_nonstr (db := db) hty (hw.tyOk r hr)
    exact ⟨v, hv⟩

/-- the entry a stored row stands for, pointwise -/
theorem get_abs_of_mem {db : DB} (hw : db.WF) (now : Int) {r : KeyRow} (hr : r ∈ db.keys) :
    Spec.get (Spec.abs now db) r.key = Spec.rowEntry now db r := by
  rw [Spec.get_abs hw.names, DB.findKey_of_mem hw.names hr]
  rfl

end Redka.ExpiryProofs
