/-
  C19 — the classifiers are exact: on every step they classify, `Spec.metaOK` is false.
-/
import RedkaModel.Proofs.MetaStep

namespace Redka.MetaProofs

open Redka Redka.Model Redka.Spec Redka.InvP

variable {db : DB}

theorem store_sum_tx (h : WF db) {op : Op} {d : Bytes} (now : Int) (hd : storeDest op = some d) :
    StoreSum now d (storeTy op) db (Model.tx true op now db) (emptyStore op = true) := by
  cases op <;> first | (cases hd; done) | skip
  case setDiffStore d' ks =>
    cases hd
    exact (setStore_sum h d ks now _).congr (by cases ks <;> simp [emptyStore])
  case setInterStore d' ks =>
    cases hd
    exact (setStore_sum h d ks now _).congr (by cases ks <;> simp [emptyStore])
  case setUnionStore d' ks =>
    cases hd
    exact (setStore_sum h d ks now _).congr (by cases ks <;> simp [emptyStore])
  case zInterStore d' ks agg =>
    cases hd
    exact (zCombineStore_sum h d ks agg true now).congr (by simp [emptyStore])
  case zUnionStore d' ks agg =>
    cases hd
    exact (zCombineStore_sum h d ks agg false now).congr (by simp [emptyStore])

theorem emptyStore_ok {op : Op} {now : Int} (h : emptyStore op = true) :
    isErr (Model.tx true op now db).out = false := by
  cases op <;> first | (cases h; done) | skip
  case setDiffStore d ks => cases ks <;> first | rfl | (cases h; done)
  case setInterStore d ks => cases ks <;> first | rfl | (cases h; done)
  case setUnionStore d ks => cases ks <;> first | rfl | (cases h; done)

theorem storeTy_cases (op : Op) : storeTy op = TSet ∨ storeTy op = TZSet := by
  cases op <;> first | exact .inl rfl | exact .inr rfl

/-- a live row found by the guarded lookup is live -/
theorem liveKeyT_live {db : DB} {k : Bytes} {ty now : Int} {r : KeyRow}
    (h : db.liveKeyT k ty now = some r) : r.live now = true := by
  unfold DB.liveKeyT at h
  have := List.find?_some h
  simp only [Bool.and_eq_true] at this
  exact this.2

/-- the row of the post-state named like the destination, found through its id -/
theorem store_dest_exists {now : Int} {d : Bytes} {ty : Int} {res : Res} {E : Prop} (h : WF db)
    {r : KeyRow} (hr : r ∈ db.keys) (hk : r.key = d)
    (hkeep : Keep db res.db)
    (hall : ∀ r' ∈ res.db.keys, (r'.key ≠ d → r' ∈ db.keys ∧ ChildEq db res.db r'.id) ∧
      (r'.key = d → r'.mtime = now ∧ DestCase now d ty db res.db (isErr res.out) r')) (_hE : ¬ E) :
    ∃ r' ∈ res.db.keys, r'.id = r.id ∧ r'.key = d := by
  obtain ⟨r', hr', hid⟩ := hkeep r hr
  refine ⟨r', hr', hid, ?_⟩
  by_cases hk' : r'.key = d
  · exact hk'
  · have := ((hall r' hr').1 hk').1
    have : r' = r := eq_of_id_eq h.uId this hr hid
    rw [this]; exact hk

/-- the abstract value of a key of the storing family changes when its child rows go from some
to none -/
theorem absVal_ne_of_emptied {a b : DB} {ty : Int} {r r' : KeyRow} (hty : ty = TSet ∨ ty = TZSet)
    (hr : r.ty = ty) (hr' : r'.ty = ty) (hid : r'.id = r.id)
    (h1 : destHasChildren a ty r.id = true) (h2 : destHasChildren b ty r.id = false) :
    absVal a r ≠ absVal b r' := by
  have len_sort : ∀ {α} (lt : α → α → Bool) (l : List α), (sortBy lt l).length = l.length :=
    fun lt l => (sortBy_perm lt l).length_eq
  rcases hty with rfl | rfl
  · have e1 : (TSet == TString) = false := by decide
    have e2 : (TSet == TList) = false := by decide
    unfold absVal
    simp only [hr, hr', hid, e1, e2, beq_self_eq_true, Bool.false_eq_true, if_false, if_true]
    unfold destHasChildren at h1 h2
    simp only [beq_self_eq_true, if_true] at h1 h2
    intro he
    have he : (Model.setRows a r.id).map (·.elem) = (Model.setRows b r.id).map (·.elem) := by
      simpa using he
    have hl := congrArg List.length he
    have hb : b.sets.filter (fun x => x.kid == r.id) = [] := by
      rw [List.filter_eq_nil_iff]
      intro x hx
      have := List.any_eq_false.1 h2 x hx
      simpa using this
    unfold Model.setRows at hl
    rw [List.length_map, List.length_map, len_sort, len_sort, hb, List.length_nil] at hl
    obtain ⟨x, hx, hxk⟩ := List.any_eq_true.1 h1
    have : x ∈ a.sets.filter (fun x => x.kid == r.id) := List.mem_filter.2 ⟨hx, hxk⟩
    have := List.length_pos_of_mem this
    omega
  · have e1 : (TZSet == TString) = false := by decide
    have e2 : (TZSet == TList) = false := by decide
    have e3 : (TZSet == TSet) = false := by decide
    have e4 : (TZSet == THash) = false := by decide
    unfold absVal
    simp only [hr, hr', hid, e1, e2, e3, e4, beq_self_eq_true, Bool.false_eq_true, if_false, if_true]
    unfold destHasChildren at h1 h2
    simp only [e3, Bool.false_eq_true, if_false] at h1 h2
    intro he
    have he : (sortBy (fun (x y : ZRow) => bytesLt x.elem y.elem)
          (a.zsets.filter (fun z => z.kid == r.id))).map (fun z => (z.elem, z.score)) =
        (sortBy (fun (x y : ZRow) => bytesLt x.elem y.elem)
          (b.zsets.filter (fun z => z.kid == r.id))).map (fun z => (z.elem, z.score)) := by
      simpa using he
    have hl := congrArg List.length he
    have hb : b.zsets.filter (fun x => x.kid == r.id) = [] := by
      rw [List.filter_eq_nil_iff]
      intro x hx
      have := List.any_eq_false.1 h2 x hx
      simpa using this
    rw [List.length_map, List.length_map, len_sort, len_sort, hb, List.length_nil] at hl
    obtain ⟨x, hx, hxk⟩ := List.any_eq_true.1 h1
    have : x ∈ a.zsets.filter (fun x => x.kid == r.id) := List.mem_filter.2 ⟨hx, hxk⟩
    have := List.length_pos_of_mem this
    omega

/-- K1 and K2: a classified successful store leaves a destination row that is not fresh -/
theorem k12_breaks (h : WF db) {op : Op} {now : Int} {res : Res}
    (hsum : ∀ d, storeDest op = some d → StoreSum now d (storeTy op) db res (emptyStore op = true))
    (ho : ∀ d, storeDest op = some d → res.out = (Model.dbRun op now db).out)
    (hk : KnownMeta op now db = true) :
    ¬ ∀ r' ∈ res.db.keys, RowOK op now db res.db res.out r' := by
  intro hall
  unfold KnownMeta at hk
  cases hd : storeDest op with
  | none => rw [hd] at hk; cases hk
  | some d =>
    rw [hd] at hk
    simp only [← ho d hd, Bool.and_eq_true, Bool.not_eq_true'] at hk
    obtain ⟨hE, hk⟩ := hk
    cases hf : db.findKey d with
    | none => rw [hf] at hk; cases hk
    | some r =>
      rw [hf] at hk
      simp only at hk
      obtain ⟨hrm, hrk⟩ := findKey_some hf
      have hfresh : ∀ r' ∈ res.db.keys, r'.key = d → FreshRow now r' := by
        intro r' hr' hk'
        have := hall r' hr'
        unfold RowOK at this
        rw [if_pos ⟨hE, by rw [hd, hk']⟩] at this
        exact this
      rcases hsum d hd with ⟨hdb, hor⟩ | ⟨hnE, hkeep, hrows⟩
      · rcases hor with hor | hor
        · rw [hor.1] at hE; cases hE
        · -- K1
          rw [hor] at hk
          simp only [if_true, Bool.not_eq_true', Bool.and_eq_false_iff, decide_eq_false_iff_not,
            beq_eq_false_iff_ne] at hk
          have := hfresh r (hdb ▸ hrm) hrk
          rcases hk with hk | hk
          · exact hk this.1
          · exact hk this.2
      · -- K2
        have hne : emptyStore op = false := by
          cases he : emptyStore op
          · rfl
          · exact absurd he hnE
        rw [hne] at hk
        simp only [Bool.false_eq_true, if_false, Bool.and_eq_true, Bool.not_eq_true',
          decide_eq_true_eq] at hk
        obtain ⟨hdead, hneg⟩ := hk
        obtain ⟨r', hr', hid, hk'⟩ := store_dest_exists h hrm hrk hkeep hrows hnE
        have hf' := hfresh r' hr' hk'
        obtain ⟨_, hcase⟩ := (hrows r' hr').2 hk'
        cases hcase with
        | new hfree _ => exact (hfree r hrm).1 hrk
        | stale r2 hr2 hk2 _ _ hv _ =>
          have : r2 = r := eq_of_key_eq h.uKey hr2 hrm (hk2.trans hrk.symm)
          subst this
          have := hf'.1
          omega
        | live r0 hl _ _ _ =>
          obtain ⟨hr0, hk0, _⟩ := liveKeyT_some hl
          have : r0 = r := eq_of_key_eq h.uKey hr0 hrm (hk0.trans hrk.symm)
          subst this
          rw [liveKeyT_live hl] at hdead
          cases hdead

/-- K3: a store that fails after the reset, inside a transaction -/
theorem k3_breaks_tx (h : WF db) {op : Op} {now : Int} (hk : KnownStoreErr op now db = true) :
    ¬ ∀ r' ∈ (Model.tx true op now db).db.keys,
      RowOK op now db (Model.tx true op now db).db (Model.tx true op now db).out r' := by
  intro hall
  unfold KnownStoreErr at hk
  cases hd : storeDest op with
  | none => rw [hd] at hk; cases hk
  | some d =>
    rw [hd] at hk
    simp only [Bool.and_eq_true] at hk
    obtain ⟨hE, hk⟩ := hk
    cases hl : db.liveKeyT d (storeTy op) now with
    | none => rw [hl] at hk; cases hk
    | some r =>
      rw [hl] at hk
      simp only [Bool.or_eq_true, decide_eq_true_eq, Bool.and_eq_true] at hk
      obtain ⟨hrm, hrk, hrty⟩ := liveKeyT_some hl
      rcases store_sum_tx h now hd with ⟨_, hor⟩ | ⟨hnE, hkeep, hrows⟩
      · rcases hor with hor | hor
        · rw [hl] at hor; cases hor.2
        · -- an empty set store succeeds
          rw [emptyStore_ok hor] at hE; cases hE
      · obtain ⟨r', hr', hid, hk'⟩ := store_dest_exists h hrm hrk hkeep hrows hnE
        have hrow := hall r' hr'
        unfold RowOK at hrow
        have hcond : ¬ (isErr (Model.tx true op now db).out = false ∧ storeDest op = some r'.key) := by
          rintro ⟨hc, _⟩; rw [hE] at hc; cases hc
        rw [if_neg hcond] at hrow
        unfold PlainRow at hrow
        rw [hid, hk', ← hrk, rowAt_of_mem h.uId hrm] at hrow
        obtain ⟨_, hcase⟩ := (hrows r' hr').2 hk'
        rw [hE] at hcase
        cases hcase with
        | new hfree _ => exact (hfree r hrm).1 hrk
        | stale r2 hr2 hk2 _ _ _ hdead =>
          have : r2 = r := eq_of_key_eq h.uKey hr2 hrm (hk2.trans hrk.symm)
          subst this
          rw [liveKeyT_live hl] at hdead
          cases hdead
        | live r0 hl0 hsm _ hemp =>
          have : r0 = r := by rw [hl] at hl0; exact (Option.some.inj hl0).symm
          subst this
          have hv : r'.version = 1 := hsm.version
          rcases hk with hk | ⟨hk1, hk2⟩
          · have := hrow.1; omega
          · have hne := absVal_ne_of_emptied (storeTy_cases op) hrty (hsm.ty.trans hrty) hsm.id
              hk2 (hemp rfl)
            have := hrow.2.2.2.1 (.inl hne)
            omega


theorem dbRun_eq_tx_of_ok {op : Op} {now : Int} (hu : wrapOf op = .update)
    (hE : isErr (Model.dbRun op now db).out = false) :
    Model.dbRun op now db = Model.tx true op now db := by
  have hrun : Model.dbRun op now db = update (Model.tx true op now) db := by
    unfold Model.dbRun; rw [hu]
  rw [hrun] at hE ⊢
  rw [update_out] at hE
  unfold update
  cases ho : (Model.tx true op now db).out with
  | ok v => simp only [ho]
  | error e => rw [ho] at hE; cases hE

theorem known_parts {op : Op} {now : Int} (hk : KnownMeta op now db = true) :
    ∃ d, storeDest op = some d ∧ isErr (Model.dbRun op now db).out = false := by
  unfold KnownMeta at hk
  cases hd : storeDest op with
  | none => rw [hd] at hk; cases hk
  | some d =>
    rw [hd] at hk
    simp only [Bool.and_eq_true, Bool.not_eq_true'] at hk
    exact ⟨d, rfl, hk.1⟩

/-- on the handle: a classified step fails the judgement -/
theorem known_db_false {op : Op} {now : Int} (h : db.Inv) (hk : KnownMeta op now db = true) :
    metaOK op now db (Model.dbRun op now db).db (Model.dbRun op now db).out = false := by
  cases hm : metaOK op now db (Model.dbRun op now db).db (Model.dbRun op now db).out with
  | false => rfl
  | true =>
    exfalso
    obtain ⟨d, hd, hE⟩ := known_parts hk
    have heq := dbRun_eq_tx_of_ok (store_is_update hd) hE
    refine k12_breaks (WF.of_inv h) (res := Model.dbRun op now db) (fun d' hd' => ?_) (fun _ _ => rfl) hk
      ((metaOK_iff _ _ _ _ _).1 hm)
    rw [heq]; exact store_sum_tx (WF.of_inv h) now hd'

/-- inside a transaction: a classified step fails the judgement -/
theorem known_tx_false {op : Op} {now : Int} (h : db.Inv) (hk : KnownMetaTx op now db = true) :
    metaOK op now db (Model.tx true op now db).db (Model.tx true op now db).out = false := by
  cases hm : metaOK op now db (Model.tx true op now db).db (Model.tx true op now db).out with
  | false => rfl
  | true =>
    exfalso
    have hall := (metaOK_iff _ _ _ _ _).1 hm
    unfold KnownMetaTx at hk
    rw [Bool.or_eq_true] at hk
    rcases hk with hk | hk
    · exact k12_breaks (WF.of_inv h) (fun d hd => store_sum_tx (WF.of_inv h) now hd)
        (fun d hd => (dbRun_out_store hd now db).symm) hk hall
    · exact k3_breaks_tx (WF.of_inv h) hk hall

end Redka.MetaProofs
