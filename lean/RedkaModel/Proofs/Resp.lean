import RedkaModel.Model.Wire.Resp
import RedkaModel.Proofs.Num

namespace Redka.Resp

open Redka

/-! ### lines -/

theorem stripNewlines_of_clean {s : Bytes} (h13 : s.contains 13 = false) (h10 : s.contains 10 = false) :
    stripNewlines s = s := by
  induction s with
  | nil => rfl
  | cons c cs ih =>
    simp only [List.contains_cons, Bool.or_eq_false_iff, beq_eq_false_iff_ne, ne_eq] at h13 h10
    have h1 : c ≠ 13 := fun h => h13.1 h.symm
    have h2 : c ≠ 10 := fun h => h10.1 h.symm
    have := ih h13.2 h10.2
    simp only [stripNewlines] at this ⊢
    simp [h1, h2, this]

theorem readLine_append {s : Bytes} (h13 : s.contains 13 = false) (h10 : s.contains 10 = false)
    (rest : Bytes) : readLine (s ++ 13 :: 10 :: rest) = some (s, rest) := by
  induction s with
  | nil => simp [readLine]
  | cons c cs ih =>
    simp only [List.contains_cons, Bool.or_eq_false_iff, beq_eq_false_iff_ne, ne_eq] at h13 h10
    have h1 : c ≠ 13 := fun h => h13.1 h.symm
    have h2 : c ≠ 10 := fun h => h10.1 h.symm
    simp [readLine, h1, h2, ih h13.2 h10.2]

theorem contains_false_of_digits {ds : Bytes} {c : UInt8} (hall : ds.all isDigit = true)
    (hc : isDigit c = false) : ds.contains c = false := by
  apply Bool.eq_false_iff.mpr
  intro h
  have := List.all_eq_true.mp hall c (by simpa using h)
  simp [hc] at this

theorem itoa_contains_false (i : Int) {c : UInt8} (hc : isDigit c = false) (h45 : c ≠ 45) :
    (itoa i).contains c = false := by
  have hd := contains_false_of_digits (natDigits_all_digit i.natAbs) hc
  unfold itoa
  split
  · simp only [List.contains_cons, hd, Bool.or_false, beq_eq_false_iff_ne, ne_eq]
    exact h45
  · exact hd

theorem readLine_itoa (i : Int) (rest : Bytes) :
    readLine (itoa i ++ 13 :: 10 :: rest) = some (itoa i, rest) :=
  readLine_append (itoa_contains_false i (by decide) (by decide))
    (itoa_contains_false i (by decide) (by decide)) rest

theorem readLine_natDigits (n : Nat) (rest : Bytes) :
    readLine (natDigits n ++ 13 :: 10 :: rest) = some (natDigits n, rest) := by
  have := readLine_itoa (n : Int) rest
  rwa [itoa_natCast] at this

/-! ### numbers -/

theorem parseNat_natDigits (n : Nat) : parseNat (natDigits n) = some n := by
  have hemp : (natDigits n).isEmpty = false := by
    have := natDigits_ne_nil n
    cases h : natDigits n with
    | nil => exact absurd h this
    | cons _ _ => rfl
  simp [parseNat, hemp, natDigits_all_digit, digitsVal_natDigits]

theorem parseInt_itoa (i : Int) : parseInt (itoa i) = some i := by
  by_cases hi : i < 0
  · rw [itoa_neg hi]
    simp only [parseInt, if_true, parseNat_natDigits]
    congr 2; omega
  · rw [itoa_nonneg (by omega)]
    cases h : natDigits i.natAbs with
    | nil => exact absurd h (natDigits_ne_nil _)
    | cons c ds =>
      have hc : c ≠ 45 := by
        intro hc; subst hc
        exact natDigits_head_ne (by decide) h
      simp only [parseInt, if_neg hc]
      rw [← h, parseNat_natDigits]
      simp only []
      congr 2; omega

/-! ### bulk payloads -/

theorem readBulk_append (b rest : Bytes) :
    readBulk b.length (b ++ 13 :: 10 :: rest) = some (b, rest) := by
  simp [readBulk]

/-! ### arrays -/

theorem encodeList_eq_flatMap (l : List Reply) : encodeList l = l.flatMap encode := by
  induction l with
  | nil => simp [encodeList]
  | cons r rs ih => simp [encodeList, ih]

theorem isCleanList_iff (l : List Reply) : isCleanList l = true ↔ ∀ r ∈ l, Clean r := by
  induction l with
  | nil => simp [isCleanList]
  | cons r rs ih => simp [isCleanList, ih]

mutual
/-- array nesting depth, counting a leaf as 1: the fuel `decodeF` needs -/
def depth : Reply → Nat
  | .array l => depthList l + 1
  | _ => 1
def depthList : List Reply → Nat
  | [] => 0
  | r :: rs => max (depth r) (depthList rs)
end

theorem depth_pos (r : Reply) : 1 ≤ depth r := by
  cases r <;> simp [depth]

mutual
theorem decodeF_encode (r : Reply) (hc : Clean r) (f : Nat) (hf : depth r ≤ f) (rest : Bytes) :
    decodeF f (encode r ++ rest) = some (r, rest) := by
  obtain ⟨f, rfl⟩ : ∃ g, f = g + 1 := ⟨f - 1, by have := depth_pos r; omega⟩
  cases r with
  | simple s =>
    simp only [Clean, isClean, Bool.and_eq_true, Bool.not_eq_true'] at hc
    simp [encode, crlf, decodeF, stripNewlines_of_clean hc.1 hc.2, readLine_append hc.1 hc.2]
  | err s =>
    simp only [Clean, isClean, Bool.and_eq_true, Bool.not_eq_true'] at hc
    simp [encode, crlf, decodeF, stripNewlines_of_clean hc.1 hc.2, readLine_append hc.1 hc.2]
  | int i =>
    simp [encode, appendPrefix, crlf, decodeF, readLine_itoa, parseInt_itoa]
  | bulk b =>
    have hne : natDigits b.length ≠ [45, 49] := natDigits_head_ne (by decide)
    simp [encode, appendPrefix, crlf, decodeF, readLine_natDigits, itoa_natCast, hne,
      parseNat_natDigits, readBulk_append]
  | null =>
    simp [encode, decodeF, readLine]
  | array l =>
    have hne : natDigits l.length ≠ [45, 49] := natDigits_head_ne (by decide)
    have hl : isCleanList l = true := by simpa [Clean, isClean] using hc
    have hd : depthList l ≤ f := by simp [depth] at hf; exact hf
    simp [encode, appendPrefix, crlf, decodeF, readLine_natDigits, itoa_natCast,
      parseNat_natDigits, decodeMany_encodeList l hl f hd rest]
theorem decodeMany_encodeList (l : List Reply) (hc : isCleanList l = true) (f : Nat)
    (hf : depthList l ≤ f) (rest : Bytes) :
    decodeMany (decodeF f) l.length (encodeList l ++ rest) = some (l, rest) := by
  cases l with
  | nil => simp [decodeMany, encodeList]
  | cons r rs =>
    simp only [isCleanList, Bool.and_eq_true] at hc
    simp only [depthList] at hf
    have h1 := decodeF_encode r hc.1 f (by omega) (encodeList rs ++ rest)
    have h2 := decodeMany_encodeList rs hc.2 f (by omega) rest
    simp [decodeMany, encodeList, h1, h2]
end

/-! ### enough fuel -/

mutual
theorem depth_le_length (r : Reply) : depth r ≤ (encode r).length := by
  cases r with
  | array l =>
    have := depthList_le_length l
    simp [depth, encode, appendPrefix]
    omega
  | simple s => simp [depth, encode]
  | err s => simp [depth, encode]
  | int i => simp [depth, encode, appendPrefix]
  | bulk b => simp [depth, encode, appendPrefix]
  | null => simp [depth, encode]
theorem depthList_le_length (l : List Reply) : depthList l ≤ (encodeList l).length := by
  cases l with
  | nil => simp [depthList]
  | cons r rs =>
    have h1 := depth_le_length r
    have h2 := depthList_le_length rs
    simp [depthList, encodeList]
    omega
end

theorem decode_encode_append (r : Reply) (hc : Clean r) (rest : Bytes) :
    decode (encode r ++ rest) = some (r, rest) := by
  unfold decode
  apply decodeF_encode r hc
  have := depth_le_length r
  simp only [List.length_append]
  omega

theorem encode_ne_nil (r : Reply) : encode r ≠ [] := by
  intro h
  have h1 := depth_le_length r
  have h2 := depth_pos r
  simp [h] at h1
  omega

/-! ### streams -/

theorem decodeAllF_succ (f : Nat) (input : Bytes) (h : input ≠ []) :
    decodeAllF (f + 1) input =
      match decode input with
      | none => none
      | some (r, rest) =>
        match decodeAllF f rest with
        | none => none
        | some rs => some (r :: rs) := by
  cases input with
  | nil => exact absurd rfl h
  | cons c cs => rfl

theorem decodeAllF_flatMap (rs : List Reply) (hc : ∀ r ∈ rs, Clean r) (f : Nat)
    (hf : rs.length ≤ f) : decodeAllF f (rs.flatMap encode) = some rs := by
  induction rs generalizing f with
  | nil => cases f <;> simp [decodeAllF]
  | cons r rs ih =>
    obtain ⟨f, rfl⟩ : ∃ g, f = g + 1 := ⟨f - 1, by simp at hf; omega⟩
    have hne : (r :: rs).flatMap encode ≠ [] := by
      simp only [List.flatMap_cons, ne_eq, List.append_eq_nil_iff, not_and]
      intro h; exact absurd h (encode_ne_nil r)
    rw [decodeAllF_succ _ _ hne, List.flatMap_cons,
      decode_encode_append r (hc r (by simp))]
    simp only
    rw [ih (fun x hx => hc x (by simp [hx])) f (by simp at hf; omega)]

theorem length_le_flatMap_encode (rs : List Reply) : rs.length ≤ (rs.flatMap encode).length := by
  induction rs with
  | nil => simp
  | cons r rs ih =>
    have h1 := depth_le_length r
    have h2 := depth_pos r
    simp only [List.length_cons, List.flatMap_cons, List.length_append]
    omega

theorem decodeAll_flatMap (rs : List Reply) (hc : ∀ r ∈ rs, Clean r) :
    decodeAll (rs.flatMap encode) = some rs :=
  decodeAllF_flatMap rs hc _ (length_le_flatMap_encode rs)

end Redka.Resp
