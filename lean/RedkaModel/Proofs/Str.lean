/-
  `internal/rstring` against the abstract keyspace: what the two-statement write (`set` / `update`
  of set.go) does to the abstraction, and the refinement of each string operation.
-/
import RedkaModel.Proofs.Abs
import RedkaModel.Proofs.Num

namespace Redka.Model

open Redka Redka.Spec Redka.DB

/-! ### the value row upsert (`sqlSet2`) -/

/-- `insert into rstring … on conflict (kid) do update set value = excluded.value` -/
def strPutRow (strs : List StrRow) (id : Int) (v : Bytes) : List StrRow :=
  if strs.any (fun s => s.kid == id) then
    strs.map (fun s => if s.kid == id then { s with value := v } else s)
  else strs ++ [{ kid := id, value := v }]

theorem strSet2_eq {db : DB} {k v : Bytes} {r : KeyRow} (h : db.findKey k = some r) :
    strSet2 db k v = .ok { db with strs := strPutRow db.strs r.id v } := by
  simp only [strSet2, h, strPutRow]
  split <;> rfl

private theorem find?_map_put (id : Int) (v : Bytes) (id' : Int) : ∀ (l : List StrRow),
    (l.map (fun s => if s.kid == id then { s with value := v } else s)).find? (fun s => s.kid == id')
      = (l.find? (fun s => s.kid == id')).map (fun s => if s.kid == id then { s with value := v } else s)
  | [] => rfl
  | s :: l => by
    rw [List.map_cons, List.find?_cons, List.find?_cons]
    have hk : (if s.kid == id then { s with value := v } else s).kid = s.kid := by split <;> rfl
    rw [hk]
    cases h : s.kid == id' with
    | true => rfl
    | false => exact find?_map_put id v id' l

theorem find?_strPutRow (strs : List StrRow) (id : Int) (v : Bytes) (id' : Int) :
    (strPutRow strs id v).find? (fun s => s.kid == id')
      = if id = id' then some ⟨id, v⟩ else strs.find? (fun s => s.kid == id') := by
  unfold strPutRow
  split
  · rename_i hany
    rw [find?_map_put]
    by_cases hid : id = id'
    · subst hid
      rw [if_pos rfl]
      obtain ⟨s, hs, hsk⟩ := List.any_eq_true.1 hany
      cases hf : strs.find? (fun s => s.kid == id) with
      | none =>
        rw [List.find?_eq_none] at hf
        exact absurd hsk (hf s hs)
      | some s' =>
        have := List.find?_some hf
        have hk : s'.kid = id := by simpa using this
        simp only [Option.map_some, this, if_true]
        cases s'; simp_all
    · rw [if_neg hid]
      cases hf : strs.find? (fun s => s.kid == id') with
      | none => rfl
      | some s' =>
        have := List.find?_some hf
        have hk : s'.kid = id' := by simpa using this
        have : ¬ s'.kid = id := fun h => hid (h ▸ hk)
        simp [this]
  · rename_i hany
    rw [List.find?_append]
    by_cases hid : id = id'
    · subst hid
      have : strs.find? (fun s => s.kid == id) = none := by
        rw [List.find?_eq_none]
        intro s hs hsk
        exact hany (List.any_eq_true.2 ⟨s, hs, hsk⟩)
      simp [this]
    · simp [hid]

theorem kids_strPutRow {strs : List StrRow} (h : (strs.map (·.kid)).Nodup) (id : Int) (v : Bytes) :
    ((strPutRow strs id v).map (·.kid)).Nodup := by
  unfold strPutRow
  split
  · rw [List.map_map]
    have : (fun s : StrRow => s.kid) ∘ (fun s => if s.kid == id then { s with value := v } else s)
        = (fun s : StrRow => s.kid) := by
      funext s; simp only [Function.comp]; split <;> rfl
    rw [this]; exact h
  · rename_i hany
    rw [List.map_append, List.nodup_append]
    refine ⟨h, by simp, ?_⟩
    intro a ha b hb
    simp only [List.map_cons, List.map_nil, List.mem_singleton] at hb
    obtain ⟨s, hs, rfl⟩ := List.mem_map.1 ha
    intro he
    exact hany (List.any_eq_true.2 ⟨s, hs, by simp [he, hb]⟩)

theorem exists_kid_strPutRow {strs : List StrRow} {id' : Int} (id : Int) (v : Bytes)
    (h : ∃ s ∈ strs, s.kid = id') : ∃ s ∈ strPutRow strs id v, s.kid = id' := by
  obtain ⟨s, hs, hk⟩ := h
  unfold strPutRow
  split
  · refine ⟨_, List.mem_map.2 ⟨s, hs, rfl⟩, ?_⟩
    split <;> exact hk
  · exact ⟨s, List.mem_append_left _ hs, hk⟩

theorem self_kid_strPutRow (strs : List StrRow) (id : Int) (v : Bytes) :
    ∃ s ∈ strPutRow strs id v, s.kid = id := by
  have := find?_strPutRow strs id v id
  rw [if_pos rfl] at this
  exact ⟨_, List.mem_of_find?_eq_some this, rfl⟩

/-! ### the two-statement write -/

/-- `set(tx, …)` and `update(tx, …)` of set.go differ only in the assignment lists of the first
statement -/
def strWrite (db : DB) (k v : Bytes) (onNew : Int → KeyRow) (onOld : KeyRow → KeyRow) :
    Except Err DB × DB :=
  match keyUpsert db k TString onNew onOld with
  | .error e => (.error e, db)
  | .ok (db1, _) =>
    match strSet2 db1 k v with
    | .error e => (.error e, db1)
    | .ok db2 => (.ok db2, db2)

def setNew (k : Bytes) (etime : Option Int) (now : Int) (id : Int) : KeyRow :=
  { id := id, key := k, ty := TString, version := 1, etime := etime, mtime := now, len := none }

def setOld (etime : Option Int) (now : Int) (o : KeyRow) : KeyRow :=
  { o with version := o.version + 1, etime := etime, mtime := now }

def updOld (now : Int) (o : KeyRow) : KeyRow :=
  { o with version := o.version + 1, mtime := now }

theorem strSetTx_eq (db : DB) (k v : Bytes) (etime : Option Int) (now : Int) :
    strSetTx db k v etime now = strWrite db k v (setNew k etime now) (setOld etime now) := rfl

theorem strUpdateTx_eq (db : DB) (k v : Bytes) (now : Int) :
    strUpdateTx db k v now = strWrite db k v (setNew k none now) (updOld now) := rfl

/-- `db2` is `db` with the name `k` now stored as row `r` holding the string `v`; nothing else
is different as far as the abstraction can see -/
structure Written (db db2 : DB) (k : Bytes) (r : KeyRow) (v : Bytes) : Prop where
  find : ∀ k', db2.findKey k' = if k == k' then some r else db.findKey k'
  ty : r.ty = TString
  val : absVal db2 r = some (.str v)
  frame : ∀ r' ∈ db.keys, r'.key ≠ k → absVal db2 r' = absVal db r'

/-- well-behaved assignment lists: a fresh row gets the given id, the name and the string tag;
an update keeps id, name and type -/
structure GoodUpsert (k : Bytes) (onNew : Int → KeyRow) (onOld : KeyRow → KeyRow) : Prop where
  newId : ∀ id, (onNew id).id = id
  newKey : ∀ id, (onNew id).key = k
  newTy : ∀ id, (onNew id).ty = TString
  oldId : ∀ o, (onOld o).id = o.id
  oldKey : ∀ o, (onOld o).key = o.key
  oldTy : ∀ o, (onOld o).ty = o.ty

theorem good_set (k : Bytes) (et : Option Int) (now : Int) : GoodUpsert k (setNew k et now) (setOld et now) :=
  ⟨fun _ => rfl, fun _ => rfl, fun _ => rfl, fun _ => rfl, fun _ => rfl, fun _ => rfl⟩

theorem good_upd (k : Bytes) (now : Int) : GoodUpsert k (setNew k none now) (updOld now) :=
  ⟨fun _ => rfl, fun _ => rfl, fun _ => rfl, fun _ => rfl, fun _ => rfl, fun _ => rfl⟩

theorem strWrite_other {db : DB} {k v : Bytes} {onNew : Int → KeyRow} {onOld : KeyRow → KeyRow}
    {old : KeyRow} (h : db.findKey k = some old) (ht : old.ty ≠ TString) :
    strWrite db k v onNew onOld = (.error .keyType, db) := by
  simp [strWrite, keyUpsert_other h ht]

theorem strWrite_new {db : DB} {k v : Bytes} {onNew : Int → KeyRow} {onOld : KeyRow → KeyRow}
    (hw : db.WF) (hg : GoodUpsert k onNew onOld) (h : db.findKey k = none) :
    ∃ db2, strWrite db k v onNew onOld = (.ok db2, db2) ∧ db2.WF ∧
      Written db db2 k (onNew db.nextKeyId) v := by
  let r := onNew db.nextKeyId
  have hrk : r.key = k := hg.newKey _
  have hrid : r.id = db.nextKeyId := hg.newId _
  have hnone : db.findKey r.key = none := by rw [hrk]; exact h
  let db1 : DB := { db with keys := db.keys ++ [r] }
  have hf1 : ∀ k', db1.findKey k' = if k == k' then some r else db.findKey k' := by
    intro k'; rw [← hrk]; exact findKey_append hnone k'
  have hfk : db1.findKey k = some r := by rw [hf1]; simp
  refine ⟨{ db1 with strs := strPutRow db.strs r.id v }, ?_, ?_, ?_⟩
  · simp only [strWrite, keyUpsert_new h]
    rw [strSet2_eq hfk]
  · refine ⟨names_append hw.names hnone, ids_append hw.ids hrid, ?_, ?_, kids_strPutRow hw.strKids _ _⟩
    · intro x hx
      rcases List.mem_append.1 hx with hx | hx
      · exact hw.tyOk x hx
      · have : x = r := by simpa using hx
        rw [this, show r.ty = TString from hg.newTy _]; decide
    · intro x hx hty
      rcases List.mem_append.1 hx with hx | hx
      · exact exists_kid_strPutRow _ _ (hw.strRow x hx hty)
      · have : x = r := by simpa using hx
        rw [this]; exact self_kid_strPutRow _ _ _
  · refine ⟨hf1, hg.newTy _, ?_, ?_⟩
    · rw [absVal_str (hg.newTy _)]
      show ((strPutRow db.strs r.id v).find? _).map _ = _
      rw [find?_strPutRow, if_pos rfl]; rfl
    · intro r' hr' _
      have hne : ¬ r.id = r'.id := by
        rw [hrid]; exact fun he => nextKeyId_fresh db r' hr' he.symm
      apply absVal_congr <;> try rfl
      show (strPutRow db.strs r.id v).find? _ = _
      rw [find?_strPutRow, if_neg hne]

theorem strWrite_old {db : DB} {k v : Bytes} {onNew : Int → KeyRow} {onOld : KeyRow → KeyRow}
    (hw : db.WF) (hg : GoodUpsert k onNew onOld) {old : KeyRow} (h : db.findKey k = some old)
    (ht : old.ty = TString) :
    ∃ db2, strWrite db k v onNew onOld = (.ok db2, db2) ∧ db2.WF ∧ Written db db2 k (onOld old) v := by
  let r := onOld old
  obtain ⟨ho, hok⟩ := findKey_mem h
  have hrk : r.key = old.key := hg.oldKey _
  have hrid : r.id = old.id := hg.oldId _
  have hrty : r.ty = TString := by rw [show r.ty = old.ty from hg.oldTy _, ht]
  let db1 : DB := db.updKey old.id (fun _ => r)
  have hf1 : ∀ k', db1.findKey k' = if k == k' then some r else db.findKey k' := by
    intro k'; rw [← hok]; exact findKey_updKey hw.names hw.ids ho hrk k'
  have hfk : db1.findKey k = some r := by rw [hf1]; simp
  have hstrs : db1.strs = db.strs := rfl
  refine ⟨{ db1 with strs := strPutRow db.strs r.id v }, ?_, ?_, ?_⟩
  · simp only [strWrite, keyUpsert_old h ht]
    rw [strSet2_eq hfk]
    rfl
  · refine ⟨?_, ?_, ?_, ?_, kids_strPutRow hw.strKids _ _⟩
    · show (db1.keys.map (·.key)).Nodup
      rw [updKey_names hw.ids ho hrk]; exact hw.names
    · show (db1.keys.map (·.id)).Nodup
      rw [updKey_ids hw.ids ho hrid]; exact hw.ids
    · intro x hx
      rcases mem_updKey hw.ids ho hx with hx | ⟨hx, _⟩
      · rw [hx, hrty]; decide
      · exact hw.tyOk x hx
    · intro x hx hty
      rcases mem_updKey hw.ids ho hx with hx | ⟨hx, _⟩
      · rw [hx]; exact self_kid_strPutRow _ _ _
      · exact exists_kid_strPutRow _ _ (hw.strRow x hx hty)
  · refine ⟨hf1, hrty, ?_, ?_⟩
    · rw [absVal_str hrty]
      show ((strPutRow db.strs r.id v).find? _).map _ = _
      rw [find?_strPutRow, if_pos rfl]; rfl
    · intro r' hr' hne'
      have hne : ¬ r.id = r'.id := by
        rw [hrid]
        intro he
        exact hne' (by rw [← id_inj hw.ids ho hr' he, hok])
      apply absVal_congr <;> try rfl
      show (strPutRow db.strs r.id v).find? _ = _
      rw [find?_strPutRow, if_neg hne]

/-- What a successful write does to the abstract keyspace: the name `k` now maps to the string
`v` with the expiry of the written row — unless that expiry has already passed, in which case the
key is gone (`purge`). All other keys are untouched. -/
theorem Written.abs {db db2 : DB} {k : Bytes} {r : KeyRow} {v : Bytes} (hw : db.WF) (hw2 : db2.WF)
    (h : Written db db2 k r v) (now : Int) :
    abs now db2 = purge now (put (abs now db) k ⟨.str v, r.etime⟩) := by
  have hs := ((sorted_abs hw.names now).put k ⟨.str v, r.etime⟩).purge now
  apply abs_ext hw2.names hs
  intro k'
  rw [get_purge ((sorted_abs hw.names now).put k _), get_put, h.find]
  by_cases hk : k = k'
  · subst hk
    simp only [beq_self_eq_true, if_true, Option.bind_some, rowEntry, h.val, Option.map_some]
    rfl
  · have : (k == k') = false := by simpa using hk
    simp only [this, Bool.false_eq_true, if_false]
    rw [← get_purge (sorted_abs hw.names now), purge_abs hw.names, get_abs hw.names]
    cases hf : db.findKey k' with
    | none => rfl
    | some r' =>
      obtain ⟨hm, hmk⟩ := findKey_mem hf
      simp only [Option.bind_some, rowEntry]
      rw [h.frame r' hm (by rw [hmk]; exact fun he => hk he.symm)]

theorem strWrite_absent {db : DB} {k v : Bytes} {onNew : Int → KeyRow} {onOld : KeyRow → KeyRow}
    (hw : db.WF) (hg : GoodUpsert k onNew onOld) (h : db.findKey k = none) (now : Int) :
    ∃ db2, strWrite db k v onNew onOld = (.ok db2, db2) ∧ db2.WF ∧
      abs now db2 = purge now (put (abs now db) k ⟨.str v, (onNew db.nextKeyId).etime⟩) := by
  obtain ⟨db2, he, hw2, hwr⟩ := strWrite_new (v := v) hw hg h
  exact ⟨db2, he, hw2, hwr.abs hw hw2 now⟩

theorem strWrite_present {db : DB} {k v : Bytes} {onNew : Int → KeyRow} {onOld : KeyRow → KeyRow}
    (hw : db.WF) (hg : GoodUpsert k onNew onOld) {old : KeyRow} (h : db.findKey k = some old)
    (ht : old.ty = TString) (now : Int) :
    ∃ db2, strWrite db k v onNew onOld = (.ok db2, db2) ∧ db2.WF ∧
      abs now db2 = purge now (put (abs now db) k ⟨.str v, (onOld old).etime⟩) := by
  obtain ⟨db2, he, hw2, hwr⟩ := strWrite_old (v := v) hw hg h ht
  exact ⟨db2, he, hw2, hwr.abs hw hw2 now⟩

/-! ### what is stored under a name -/

/-- The four things a name can be at `now`, each with what the model's read (`sqlGet`) and the
abstraction make of it. -/
inductive Holder (now : Int) (db : DB) (k : Bytes) : Prop
  | absent (h : db.findKey k = none) (hg : get (abs now db) k = none)
      (hr : strGetRaw db k now = none)
  | stale (r : KeyRow) (h : db.findKey k = some r) (hl : r.live now = false)
      (hg : get (abs now db) k = none) (hr : strGetRaw db k now = none)
  | str (r : KeyRow) (b : Bytes) (h : db.findKey k = some r) (hl : r.live now = true)
      (ht : r.ty = TString) (hg : get (abs now db) k = some ⟨.str b, r.etime⟩)
      (hr : strGetRaw db k now = some b)
  | other (r : KeyRow) (v : SVal) (h : db.findKey k = some r) (hl : r.live now = true)
      (ht : r.ty ≠ TString) (hg : get (abs now db) k = some ⟨v, r.etime⟩) (hv : ∀ b, v ≠ .str b)
      (hr : strGetRaw db k now = none)

theorem holder {db : DB} (hw : db.WF) (now : Int) (k : Bytes) : Holder now db k := by
  have hga := get_abs hw.names now k
  have hra : strGetRaw db k now
      = match (db.findKey k).filter (fun r => r.ty == TString && r.live now) with
        | none => none
        | some r => (db.strs.find? (fun s => s.kid == r.id)).map (·.value) := by
    unfold strGetRaw; rw [liveKeyT_eq hw.names]; rfl
  cases hf : db.findKey k with
  | none =>
    rw [hf] at hga hra
    exact .absent hf hga hra
  | some r =>
    rw [hf] at hga hra
    obtain ⟨hm, _⟩ := findKey_mem hf
    cases hl : r.live now with
    | false =>
      refine .stale r hf hl ?_ ?_
      · rw [hga]; simp [rowEntry, hl]
      · rw [hra]; simp [Option.filter, hl]
    | true =>
      by_cases ht : r.ty = TString
      · obtain ⟨s, hs, hk⟩ := hw.strRow r hm ht
        cases hfs : db.strs.find? (fun s => s.kid == r.id) with
        | none =>
          rw [List.find?_eq_none] at hfs
          exact absurd (by simp [hk]) (hfs s hs)
        | some s' =>
          refine .str r s'.value hf hl ht ?_ ?_
          · rw [hga]; simp [rowEntry, hl, absVal_str ht, hfs]
          · rw [hra]; simp [Option.filter, hl, ht, hfs]
      · obtain ⟨v, hv, hns⟩ := absVal_nonstr (db := db) ht (hw.tyOk r hm)
        refine .other r v hf hl ht ?_ hns ?_
        · rw [hga]; simp [rowEntry, hl, hv]
        · rw [hra]; simp [Option.filter, ht]

theorem Holder.not_stale {now : Int} {db : DB} {k : Bytes} {r : KeyRow}
    (hns : staleKey db now k = false) (h : db.findKey k = some r) (hl : r.live now = false) : False := by
  simp [staleKey, h, hl] at hns

/-! ### one step against the specification -/

/-- the verdict on one step: same result, and the tables afterwards abstract to the
specification's keyspace (minus what has expired by `now`) -/
def Refines (now : Int) (m : Res) (s : SRes) : Prop :=
  m.out = s.out ∧ abs now m.db = purge now s.st

theorem wrap64_of_inInt64 {i : Int} (h : inInt64 i = true) : wrap64 i = i := by
  simp only [inInt64, minInt64, maxInt64, Bool.and_eq_true] at h
  have h1 := of_decide_eq_true h.1
  have h2 := of_decide_eq_true h.2
  simp only [wrap64, minInt64]
  omega

theorem strGet_refines {db : DB} (hw : db.WF) (now : Int) (k : Bytes) :
    Refines now (strGet db k now) (Spec.strGet (abs now db) k) := by
  unfold Refines
  rcases holder hw now k with ⟨_, hg, hr⟩ | ⟨_, _, _, hg, hr⟩ | ⟨_, _, _, _, _, hg, hr⟩ |
    ⟨_, v, _, _, _, hg, hv, hr⟩
  · simp [strGet, Spec.strGet, hg, hr, Res.err, Spec.er, purge_abs hw.names]
  · simp [strGet, Spec.strGet, hg, hr, Res.err, Spec.er, purge_abs hw.names]
  · simp [strGet, Spec.strGet, hg, hr, Res.ok, Spec.ok, purge_abs hw.names]
  · cases v <;> first | exact absurd rfl (hv _) |
      simp [strGet, Spec.strGet, hg, hr, Res.err, Spec.er, purge_abs hw.names]

theorem strSet_refines {db : DB} (hw : db.WF) {now : Int} {k : Bytes}
    (hns : staleKey db now k = false) (v : Bytes) (et : Option Int) :
    Refines now (update (fun d => strSet d k v et now) db) (Spec.strSet (abs now db) k v et) := by
  unfold Refines
  rcases holder hw now k with ⟨h, hg, hr⟩ | ⟨_, h, hl, _, _⟩ | ⟨r, b, h, _, ht, hg, hr⟩ |
    ⟨r, w, h, _, ht, hg, hv, hr⟩
  · obtain ⟨db2, he, _, ha⟩ := strWrite_absent (v := v) hw (good_set k et now) h now
    simp [update, strSet, strSetTx_eq, he, Res.ok, Spec.strSet, Spec.strPut, hg, Spec.ok, ha, setNew]
  · exact (Holder.not_stale hns h hl).elim
  · obtain ⟨db2, he, _, ha⟩ := strWrite_present (v := v) hw (good_set k et now) h ht now
    simp [update, strSet, strSetTx_eq, he, Res.ok, Spec.strSet, Spec.strPut, hg, Spec.ok, ha, setOld]
  · have he := strWrite_other (v := v) (onNew := setNew k et now) (onOld := setOld et now) h ht
    cases w <;> first | exact absurd rfl (hv _) |
      simp [update, strSet, strSetTx_eq, he, Res.err, Spec.strSet, Spec.strPut, hg, Spec.er,
        purge_abs hw.names]

theorem strIncr_refines {db : DB} (hw : db.WF) {now : Int} {k : Bytes}
    (hns : staleKey db now k = false) (d : Int) (hd : inInt64 d = true)
    (hov : ∀ b n, strGetRaw db k now = some b → valueInt b = some n → inInt64 (n + d) = true) :
    Refines now (update (fun x => strIncr x k d now) db) (Spec.strIncr (abs now db) k d) := by
  unfold Refines
  have hv0 : valueInt [] = some 0 := rfl
  rcases holder hw now k with ⟨h, hg, hr⟩ | ⟨_, h, hl, _, _⟩ | ⟨r, b, h, _, ht, hg, hr⟩ |
    ⟨r, w, h, _, ht, hg, hv, hr⟩
  · obtain ⟨db2, he, _, ha⟩ := strWrite_absent (v := itoa d) hw (good_upd k now) h now
    simp [update, strIncr, hr, hv0, wrap64_of_inInt64 hd, strUpdateTx_eq, he, Res.ok,
      Spec.strIncr, hg, Spec.ok, ha, setNew]
  · exact (Holder.not_stale hns h hl).elim
  · cases hvi : valueInt b with
    | none =>
      simp [update, strIncr, hr, hvi, Res.err, Spec.strIncr, hg, Spec.er, purge_abs hw.names]
    | some n =>
      have hw64 := wrap64_of_inInt64 (hov b n hr hvi)
      obtain ⟨db2, he, _, ha⟩ := strWrite_present (v := itoa (n + d)) hw (good_upd k now) h ht now
      simp [update, strIncr, hr, hvi, hw64, strUpdateTx_eq, he, Res.ok, Spec.strIncr, hg, Spec.ok,
        ha, updOld]
  · have he := fun v => strWrite_other (v := v) (onNew := setNew k none now) (onOld := updOld now) h ht
    cases w <;> first | exact absurd rfl (hv _) |
      simp [update, strIncr, hr, hv0, strUpdateTx_eq, he, Res.err, Spec.strIncr, hg, Spec.er,
        purge_abs hw.names]

/-- whether `sqlUpdate1` fails depends only on what holds the name -/
theorem strUpdate1_ok_of_absent {db : DB} {k : Bytes} (now : Int) (h : db.findKey k = none) :
    ∃ x, strUpdate1 db k now = .ok x := by
  unfold strUpdate1; rw [keyUpsert_new h]; exact ⟨_, rfl⟩

theorem strUpdate1_ok_of_str {db : DB} {k : Bytes} (now : Int) {r : KeyRow} (h : db.findKey k = some r)
    (ht : r.ty = TString) : ∃ x, strUpdate1 db k now = .ok x := by
  unfold strUpdate1; rw [keyUpsert_old h ht]; exact ⟨_, rfl⟩

theorem strUpdate1_err_of_other {db : DB} {k : Bytes} (now : Int) {r : KeyRow} (h : db.findKey k = some r)
    (ht : r.ty ≠ TString) : strUpdate1 db k now = .error .keyType := by
  unfold strUpdate1; exact keyUpsert_other h ht

/-- Float increment (`Tx.IncrFloat`) against the specification: wherever the numeric domain of the
model decides the step (`valueFloat`, `formatFloatDec`), the stored text is read as a number, the
canonical text of the exact sum is stored, the expiry is kept; a text that is not a number is
refused without effect; outside the domain both sides say "not decided" and nothing changes. -/
theorem strIncrFloat_refines {db : DB} (hw : db.WF) {now : Int} {k : Bytes}
    (hns : staleKey db now k = false) (d : Dyadic) :
    Refines now (update (fun x => strIncrFloat x k d now) db) (Spec.strIncrFloat (abs now db) k d) := by
  unfold Refines
  have hv0 : valueFloat [] = .val .zero := rfl
  have hz : Dyadic.zero + d = d := rfl
  rcases holder hw now k with ⟨h, hg, hr⟩ | ⟨_, h, hl, _, _⟩ | ⟨r, b, h, _, ht, hg, hr⟩ |
    ⟨r, w, h, _, ht, hg, hv, hr⟩
  · cases hf : formatFloatDec (f64add 0 d) with
    | none =>
      obtain ⟨x, hx⟩ := strUpdate1_ok_of_absent now h
      simp [update, strIncrFloat, hr, hv0, hz, hf, hx, Res.err, Spec.strIncrFloat, hg, Spec.skip,
        purge_abs hw.names]
    | some txt =>
      obtain ⟨db2, he, _, ha⟩ := strWrite_absent (v := txt) hw (good_upd k now) h now
      simp [update, strIncrFloat, hr, hv0, hz, hf, strUpdateTx_eq, he, Res.ok, Spec.strIncrFloat, hg,
        Spec.ok, ha, setNew]
  · exact (Holder.not_stale hns h hl).elim
  · cases hvf : valueFloat b with
    | invalid =>
      simp [update, strIncrFloat, hr, hvf, Res.err, Spec.strIncrFloat, hg, Spec.er, purge_abs hw.names]
    | unknown =>
      simp [update, strIncrFloat, hr, hvf, Res.err, Spec.strIncrFloat, hg, Spec.skip, purge_abs hw.names]
    | val x =>
      cases hf : formatFloatDec (f64add x d) with
      | none =>
        obtain ⟨y, hy⟩ := strUpdate1_ok_of_str now h ht
        simp [update, strIncrFloat, hr, hvf, hf, hy, Res.err, Spec.strIncrFloat, hg, Spec.skip,
          purge_abs hw.names]
      | some txt =>
        obtain ⟨db2, he, _, ha⟩ := strWrite_present (v := txt) hw (good_upd k now) h ht now
        simp [update, strIncrFloat, hr, hvf, hf, strUpdateTx_eq, he, Res.ok, Spec.strIncrFloat, hg,
          Spec.ok, ha, updOld]
  · have he := fun v => strWrite_other (v := v) (onNew := setNew k none now) (onOld := updOld now) h ht
    have hu := strUpdate1_err_of_other now h ht
    cases hf : formatFloatDec (f64add 0 d) <;> cases w <;> first | exact absurd rfl (hv _) |
      simp [update, strIncrFloat, hr, hv0, hz, hf, hu, strUpdateTx_eq, he, Res.err, Spec.strIncrFloat, hg,
        Spec.er, purge_abs hw.names]

theorem strSetWith_refines {db : DB} (hw : db.WF) {now : Int} {k : Bytes}
    (hns : staleKey db now k = false) (v : Bytes) (o : SetOpts) :
    Refines now (update (fun x => strSetWith x k v o now) db)
      (Spec.strSetWith (abs now db) k v o now) := by
  unfold Refines
  simp only [update, strSetWith, Spec.strSetWith]
  generalize (if o.ttl > 0 then some (now + o.ttl) else o.atMs) = at_
  rcases holder hw now k with ⟨h, hg, hr⟩ | ⟨_, h, hl, _, _⟩ | ⟨r, b, h, _, ht, hg, hr⟩ |
    ⟨r, w, h, _, ht, hg, hv, hr⟩
  · obtain ⟨db2, he, _, ha⟩ := strWrite_absent (v := v) hw (good_set k at_ now) h now
    obtain ⟨db3, he', _, ha'⟩ := strWrite_absent (v := v) hw (good_upd k now) h now
    cases h1 : o.ifExists <;> cases h2 : o.ifNotExists <;> cases h3 : o.keepTTL <;>
      simp [hr, hg, strSetTx_eq, strUpdateTx_eq, he, he', ha, ha', Res.ok, Spec.ok, Spec.strPut,
        setNew, purge_abs hw.names]
  · exact (Holder.not_stale hns h hl).elim
  · obtain ⟨db2, he, _, ha⟩ := strWrite_present (v := v) hw (good_set k at_ now) h ht now
    obtain ⟨db3, he', _, ha'⟩ := strWrite_present (v := v) hw (good_upd k now) h ht now
    cases h1 : o.ifExists <;> cases h2 : o.ifNotExists <;> cases h3 : o.keepTTL <;>
      simp [hr, hg, strSetTx_eq, strUpdateTx_eq, he, he', ha, ha', Res.ok, Spec.ok, Spec.strPut,
        setOld, updOld, purge_abs hw.names]
  · have he := strWrite_other (v := v) (onNew := setNew k at_ now) (onOld := setOld at_ now) h ht
    have he' := strWrite_other (v := v) (onNew := setNew k none now) (onOld := updOld now) h ht
    cases w <;> first | exact absurd rfl (hv _) |
      (cases h1 : o.ifExists <;> cases h2 : o.ifNotExists <;> cases h3 : o.keepTTL <;>
        simp [hr, hg, strSetTx_eq, strUpdateTx_eq, he, he', Res.ok, Res.err, Spec.ok, Spec.er,
          Spec.strPut, purge_abs hw.names])

/-! ### multi-set -/

/-- the name is held by a live key of another type -/
def badKey (s : State) (k : Bytes) : Bool :=
  match get s k with
  | some ⟨.str _, _⟩ => false
  | some _ => true
  | none => false

theorem specSetMany_eq (s : State) (items : List (Bytes × Bytes)) :
    Spec.strSetMany s items
      = if items.any (fun p => badKey s p.1) then er .keyType s
        else Spec.ok .nil (items.foldl (fun acc p => put acc p.1 ⟨.str p.2, none⟩) s) := rfl

theorem badKey_put {s : State} {k : Bytes} (hb : badKey s k = false) (v : Bytes) (k' : Bytes) :
    badKey (put s k ⟨.str v, none⟩) k' = badKey s k' := by
  unfold badKey
  rw [get_put]
  by_cases hk : k = k'
  · subst hk
    simp only [beq_self_eq_true, if_true]
    exact hb.symm
  · have : (k == k') = false := by simpa using hk
    simp only [this, Bool.false_eq_true, if_false]

theorem setTx_step {db : DB} (hw : db.WF) {now : Int} {k : Bytes}
    (hns : staleKey db now k = false) (hb : badKey (abs now db) k = false) (v : Bytes) :
    ∃ db2, strSetTx db k v none now = (.ok db2, db2) ∧ db2.WF ∧
      abs now db2 = put (abs now db) k ⟨.str v, none⟩ ∧
      (∀ k', staleKey db now k' = false → staleKey db2 now k' = false) := by
  have hlive : liveAt now (none : Option Int) = true := rfl
  have hput := purge_put_live (sorted_abs hw.names now) (purge_abs hw.names now) k
    (e := ⟨.str v, none⟩) hlive
  have hst : ∀ {db2 : DB} {r : KeyRow}, Written db db2 k r v → r.etime = none →
      ∀ k', staleKey db now k' = false → staleKey db2 now k' = false := by
    intro db2 r hwr het k' hk'
    unfold staleKey at hk' ⊢
    rw [hwr.find]
    by_cases hk : k = k'
    · simp [hk, KeyRow.live, het, liveAt]
    · have : (k == k') = false := by simpa using hk
      simpa [this] using hk'
  rcases holder hw now k with ⟨h, hg, hr⟩ | ⟨_, h, hl, _, _⟩ | ⟨r, b, h, _, ht, hg, hr⟩ |
    ⟨r, w, h, _, ht, hg, hv, hr⟩
  · obtain ⟨db2, he, hw2, hwr⟩ := strWrite_new (v := v) hw (good_set k none now) h
    refine ⟨db2, he, hw2, ?_, hst hwr rfl⟩
    rw [hwr.abs hw hw2 now]; exact hput
  · exact (Holder.not_stale hns h hl).elim
  · obtain ⟨db2, he, hw2, hwr⟩ := strWrite_old (v := v) hw (good_set k none now) h ht
    refine ⟨db2, he, hw2, ?_, hst hwr rfl⟩
    rw [hwr.abs hw hw2 now]; exact hput
  · exfalso
    cases w <;> first | exact absurd rfl (hv _) | simp [badKey, hg] at hb

theorem setTx_bad {db : DB} (hw : db.WF) {now : Int} {k : Bytes}
    (hb : badKey (abs now db) k = true) (v : Bytes) :
    strSetTx db k v none now = (.error .keyType, db) := by
  rcases holder hw now k with ⟨h, hg, hr⟩ | ⟨_, h, hl, hg, _⟩ | ⟨r, b, h, _, ht, hg, hr⟩ |
    ⟨r, w, h, _, ht, hg, hv, hr⟩
  · simp [badKey, hg] at hb
  · simp [badKey, hg] at hb
  · simp [badKey, hg] at hb
  · exact strWrite_other h ht

theorem strSetMany_raw (now : Int) : ∀ (items : List (Bytes × Bytes)) (db : DB), db.WF →
    (∀ p ∈ items, staleKey db now p.1 = false) →
    (items.any (fun p => badKey (abs now db) p.1) = true ∧
        ∃ d, strSetMany db items now = .err .keyType d) ∨
    (items.any (fun p => badKey (abs now db) p.1) = false ∧
        ∃ db', strSetMany db items now = .ok .nil db' ∧ db'.WF ∧
          abs now db' = items.foldl (fun acc p => put acc p.1 ⟨.str p.2, none⟩) (abs now db))
  | [], db, hw, _ => Or.inr ⟨rfl, db, rfl, hw, rfl⟩
  | (k, v) :: rest, db, hw, hns => by
    have hnsk := hns (k, v) (by simp)
    cases hb : badKey (abs now db) k with
    | true =>
      refine Or.inl ⟨by simp [hb], db, ?_⟩
      simp [strSetMany, setTx_bad hw hb v]
    | false =>
      obtain ⟨db2, he, hw2, ha, hst⟩ := setTx_step hw hnsk hb v
      have hns2 : ∀ p ∈ rest, staleKey db2 now p.1 = false :=
        fun p hp => hst p.1 (hns p (List.mem_cons_of_mem _ hp))
      have hbad : (fun p : Bytes × Bytes => badKey (abs now db2) p.1)
          = (fun p => badKey (abs now db) p.1) := by
        funext p; rw [ha, badKey_put hb]
      have hstep : strSetMany db ((k, v) :: rest) now = strSetMany db2 rest now := by
        simp [strSetMany, he]
      rcases strSetMany_raw now rest db2 hw2 hns2 with ⟨hany, d, hd⟩ | ⟨hany, db', hd, hw', ha'⟩
      · rw [hbad] at hany
        exact Or.inl ⟨by simp [hb, hany], d, by rw [hstep, hd]⟩
      · rw [hbad] at hany
        refine Or.inr ⟨by simp [hb, hany], db', by rw [hstep, hd], hw', ?_⟩
        rw [ha', ha]; rfl

theorem strSetMany_refines {db : DB} (hw : db.WF) {now : Int} {items : List (Bytes × Bytes)}
    (hns : ∀ p ∈ items, staleKey db now p.1 = false) :
    Refines now (update (fun x => strSetMany x items now) db)
      (Spec.strSetMany (abs now db) items) := by
  unfold Refines
  rw [specSetMany_eq]
  rcases strSetMany_raw now items db hw hns with ⟨hany, d, hd⟩ | ⟨hany, db', hd, hw', ha'⟩
  · simp [update, hd, Res.err, hany, Spec.er, purge_abs hw.names]
  · simp only [update, hd, Res.ok, hany, Spec.ok, Bool.false_eq_true, if_false, true_and]
    rw [← ha', purge_abs hw'.names]

/-! ### multi-get -/

/-- the string stored in an entry, when the entry is a string and its name was asked for -/
def strSel (ks : List Bytes) (p : Bytes × Entry) : Option Bytes :=
  match p.2.val with
  | .str b => if ks.contains p.1 then some b else none
  | _ => none

theorem getMany_items {db : DB} (hw : db.WF) (now : Int) (ks : List Bytes) :
    sortBy (fun a b => bytesLt a.1 b.1)
        ((db.keys.filter (fun r => ks.contains r.key && r.ty == TString && r.live now)).filterMap
          (fun r => (db.strs.find? (fun s => s.kid == r.id)).map (fun s => (r.key, s.value))))
      = (abs now db).filterMap (fun p => (strSel ks p).map (fun b => (p.1, b))) := by
  let cond : KeyRow → Bool := fun r => ks.contains r.key && r.ty == TString && r.live now
  let gm : KeyRow → Option Bytes := fun r => (db.strs.find? (fun s => s.kid == r.id)).map (·.value)
  have hF : (fun r : KeyRow => (db.strs.find? (fun s => s.kid == r.id)).map (fun s => (r.key, s.value)))
      = (fun r => (gm r).map (fun v => (r.key, v))) := by
    funext r; simp [gm, Option.map_map, Function.comp_def]
  rw [hF]
  have hrows : ((db.keys.filter cond).map (·.key)).Nodup :=
    List.Nodup.sublist (List.Sublist.map _ List.filter_sublist) hw.names
  have hkeys : (((db.keys.filter cond).filterMap (fun r => (gm r).map (fun v => (r.key, v)))).map
      (·.1)).Nodup :=
    List.Nodup.sublist (keys_filterMap_sublist (·.key) gm _) hrows
  have hsa := sorted_abs hw.names now
  apply sorted_ext (sorted_sortBy hkeys)
    (hsa.filterMap _ (by
      intro p q h
      cases hs : strSel ks p with
      | none => simp [hs] at h
      | some b => simp [hs] at h; rw [← h]))
  intro k
  rw [aget_sortBy hkeys, aget_filterMap_key (·.key) gm _ hrows k,
    aget_filterMap_key (·.1) (strSel ks) (abs now db) hsa.nodup_keys k, find?_filter',
    find?_key_and db.keys hw.names k cond, find?_key_eq_aget]
  have hga := get_abs hw.names now k
  unfold Spec.get findKey at hga
  rw [hga]
  cases hf : db.keys.find? (fun r => r.key == k) with
  | none => rfl
  | some r =>
    have hrk : r.key = k := by simpa using List.find?_some hf
    simp only [Option.filter, Option.bind_some, rowEntry, cond, hrk]
    cases hl : r.live now with
    | false => simp
    | true =>
      by_cases ht : r.ty = TString
      · rw [absVal_str ht]
        have hgm : gm r = (db.strs.find? (fun s => s.kid == r.id)).map (·.value) := rfl
        by_cases hc : k ∈ ks
        · cases hfs : db.strs.find? (fun s => s.kid == r.id) with
          | none => simp [hc, ht, hgm, hfs]
          | some s => simp [hc, ht, hgm, hfs, strSel]
        · cases hfs : db.strs.find? (fun s => s.kid == r.id) with
          | none => simp [hc]
          | some s => simp [hc, strSel]
      · have htb : (r.ty == TString) = false := by simpa using ht
        simp only [htb, Bool.and_false, Bool.false_and, Bool.false_eq_true, if_false, if_true,
          Option.bind_none]
        cases hv : absVal db r with
        | none => rfl
        | some v =>
          cases v with
          | str b => exact absurd (absVal_eq_str_ty hv) ht
          | _ => rfl

theorem strGetMany_refines {db : DB} (hw : db.WF) (now : Int) (ks : List Bytes) :
    Refines now (strGetMany db ks now) (Spec.strGetMany (abs now db) ks) := by
  unfold Refines
  refine ⟨?_, by simp [strGetMany, Spec.strGetMany, Res.ok, Spec.ok, purge_abs hw.names]⟩
  simp only [strGetMany, Spec.strGetMany, Res.ok, Spec.ok]
  rw [getMany_items hw now ks, List.map_filterMap]
  congr 3
  funext p
  unfold strSel Spec.pairVal
  cases p.2.val with
  | str b => cases ks.contains p.1 <;> simp
  | _ => rfl

/-! ### readable consequences -/

theorem get_abs_live {db : DB} (hw : db.WF) {now : Int} {k : Bytes} {e : Entry}
    (h : get (abs now db) k = some e) : liveAt now e.etime = true ∧ staleKey db now k = false := by
  rw [get_abs hw.names] at h
  cases hf : db.findKey k with
  | none => simp [hf] at h
  | some r =>
    rw [hf] at h
    have := rowEntry_live h
    refine ⟨this.1, ?_⟩
    simp only [staleKey, hf, KeyRow.live]
    rw [← this.2.1, this.1]; rfl

/-- a visible string is what the model's read returns -/
theorem strGetRaw_of_get {db : DB} (hw : db.WF) {now : Int} {k b : Bytes} {et : Option Int}
    (h : get (abs now db) k = some ⟨.str b, et⟩) : strGetRaw db k now = some b := by
  rcases holder hw now k with ⟨_, hg, _⟩ | ⟨_, _, _, hg, _⟩ | ⟨_, _, _, _, _, hg, hr⟩ |
    ⟨_, w, _, _, _, hg, hv, _⟩
  · rw [hg] at h; cases h
  · rw [hg] at h; cases h
  · rw [hg] at h; cases h; exact hr
  · rw [hg] at h; cases h; exact absurd rfl (hv _)

theorem update_error_db {f : DB → Res} {db : DB} {e : Err} (h : (update f db).out = .error e) :
    (update f db).db = db := by
  cases hr : (f db).out <;> simp [update, hr] at h ⊢

theorem update_ok {f : DB → Res} {db : DB} {v : Val} {d : DB} (h : f db = ⟨.ok v, d⟩) :
    update f db = ⟨.ok v, d⟩ := by
  simp [update, h]

theorem wrap64_inInt64 (i : Int) : inInt64 (wrap64 i) = true := by
  simp only [inInt64, wrap64, minInt64, maxInt64, Bool.and_eq_true]
  refine ⟨decide_eq_true ?_, decide_eq_true ?_⟩ <;> omega

/-- after a successful plain `set(tx, key, value, et)` on a name not held by another type -/
theorem set_result {db : DB} (hw : db.WF) {k : Bytes} (hno : ∀ r, db.findKey k = some r → r.ty = TString)
    (v : Bytes) (et : Option Int) (now : Int) :
    ∃ db2, update (fun d => strSet d k v et now) db = ⟨.ok .nil, db2⟩ ∧ db2.WF ∧
      abs now db2 = purge now (put (abs now db) k ⟨.str v, et⟩) := by
  cases hf : db.findKey k with
  | none =>
    obtain ⟨db2, he, hw2, ha⟩ := strWrite_absent (v := v) hw (good_set k et now) hf now
    exact ⟨db2, update_ok (by simp [strSet, strSetTx_eq, he, Res.ok]), hw2, ha⟩
  | some r =>
    obtain ⟨db2, he, hw2, ha⟩ := strWrite_present (v := v) hw (good_set k et now) hf (hno r hf) now
    exact ⟨db2, update_ok (by simp [strSet, strSetTx_eq, he, Res.ok]), hw2, ha⟩

/-- a successful increment stores the canonical text of what it returns, readably -/
theorem strIncr_ok {db : DB} (hw : db.WF) {now : Int} {k : Bytes} (hns : staleKey db now k = false)
    {d m : Int} (h : (update (fun x => strIncr x k d now) db).out = .ok (.int m)) :
    strGetRaw (update (fun x => strIncr x k d now) db).db k now = some (itoa m) ∧
      inInt64 m = true := by
  have hv0 : valueInt [] = some 0 := rfl
  have hlive : liveAt now (none : Option Int) = true := rfl
  rcases holder hw now k with ⟨hf, hg, hr⟩ | ⟨_, hf, hl, _, _⟩ | ⟨r, b, hf, hl, ht, hg, hr⟩ |
    ⟨r, w, hf, _, ht, hg, hv, hr⟩
  · obtain ⟨db2, he, hw2, ha⟩ :=
      strWrite_absent (v := itoa (wrap64 d)) hw (good_upd k now) hf now
    have hu : update (fun x => strIncr x k d now) db = ⟨.ok (.int (wrap64 d)), db2⟩ :=
      update_ok (by simp [strIncr, hr, hv0, strUpdateTx_eq, he, Res.ok])
    rw [hu] at h ⊢
    simp only [Except.ok.injEq, Val.int.injEq] at h
    subst h
    refine ⟨strGetRaw_of_get hw2 (et := none) ?_, wrap64_inInt64 _⟩
    rw [ha, get_purge ((sorted_abs hw.names now).put k _), get_put]
    simp [setNew, hlive]
  · exact (Holder.not_stale hns hf hl).elim
  · cases hvi : valueInt b with
    | none => simp [update, strIncr, hr, hvi, Res.err] at h
    | some n =>
      obtain ⟨db2, he, hw2, ha⟩ :=
        strWrite_present (v := itoa (wrap64 (n + d))) hw (good_upd k now) hf ht now
      have hu : update (fun x => strIncr x k d now) db = ⟨.ok (.int (wrap64 (n + d))), db2⟩ :=
        update_ok (by simp [strIncr, hr, hvi, strUpdateTx_eq, he, Res.ok])
      rw [hu] at h ⊢
      simp only [Except.ok.injEq, Val.int.injEq] at h
      subst h
      refine ⟨strGetRaw_of_get hw2 (et := r.etime) ?_, wrap64_inInt64 _⟩
      have hl' : liveAt now r.etime = true := hl
      rw [ha, get_purge ((sorted_abs hw.names now).put k _), get_put]
      simp [updOld, hl']
  · have he := fun v => strWrite_other (v := v) (onNew := setNew k none now) (onOld := updOld now) hf ht
    simp [update, strIncr, hr, hv0, strUpdateTx_eq, he, Res.err] at h

/-- The decision table of `SetCmd.run`, on the model. -/
theorem strSetWith_table {db : DB} (hw : db.WF) {now : Int} {k : Bytes}
    (hns : staleKey db now k = false) (v : Bytes) (o : SetOpts) :
    let r := update (fun x => strSetWith x k v o now) db
    let newExpiry : Option Int := if o.ttl > 0 then some (now + o.ttl) else o.atMs
    let s := abs now db
    match get s k with
    | none =>
      if o.ifExists then r.out = .ok (.list [.nil, .bool false, .bool false]) ∧ r.db = db
      else r.out = .ok (.list [.nil, .bool true, .bool false]) ∧
        abs now r.db = purge now (put s k ⟨.str v, if o.keepTTL then none else newExpiry⟩)
    | some ⟨.str prev, oldExpiry⟩ =>
      if o.ifNotExists then r.out = .ok (.list [.bytes prev, .bool false, .bool false]) ∧ r.db = db
      else r.out = .ok (.list [.bytes prev, .bool false, .bool true]) ∧
        abs now r.db = purge now (put s k ⟨.str v, if o.keepTTL then oldExpiry else newExpiry⟩)
    | some _ =>
      if o.ifExists then r.out = .ok (.list [.nil, .bool false, .bool false]) ∧ r.db = db
      else r.out = .error .keyType ∧ r.db = db := by
  simp only [update, strSetWith]
  generalize (if o.ttl > 0 then some (now + o.ttl) else o.atMs) = at_
  rcases holder hw now k with ⟨h, hg, hr⟩ | ⟨_, h, hl, _, _⟩ | ⟨r, b, h, _, ht, hg, hr⟩ |
    ⟨r, w, h, _, ht, hg, hv, hr⟩
  · obtain ⟨db2, he, _, ha⟩ := strWrite_absent (v := v) hw (good_set k at_ now) h now
    obtain ⟨db3, he', _, ha'⟩ := strWrite_absent (v := v) hw (good_upd k now) h now
    cases h1 : o.ifExists <;> cases h2 : o.ifNotExists <;> cases h3 : o.keepTTL <;>
      simp [hr, hg, strSetTx_eq, strUpdateTx_eq, he, he', ha, ha', Res.ok, setNew]
  · exact (Holder.not_stale hns h hl).elim
  · obtain ⟨db2, he, _, ha⟩ := strWrite_present (v := v) hw (good_set k at_ now) h ht now
    obtain ⟨db3, he', _, ha'⟩ := strWrite_present (v := v) hw (good_upd k now) h ht now
    cases h1 : o.ifExists <;> cases h2 : o.ifNotExists <;> cases h3 : o.keepTTL <;>
      simp [hr, hg, strSetTx_eq, strUpdateTx_eq, he, he', ha, ha', Res.ok, setOld, updOld]
  · have he := strWrite_other (v := v) (onNew := setNew k at_ now) (onOld := setOld at_ now) h ht
    have he' := strWrite_other (v := v) (onNew := setNew k none now) (onOld := updOld now) h ht
    cases w <;> first | exact absurd rfl (hv _) |
      (cases h1 : o.ifExists <;> cases h2 : o.ifNotExists <;> cases h3 : o.keepTTL <;>
        simp [hr, hg, strSetTx_eq, strUpdateTx_eq, he, he', Res.ok, Res.err])

/-! ### the string operations keep the invariant part `DB.WF` -/

theorem strWrite_wf {db : DB} {k v : Bytes} {onNew : Int → KeyRow} {onOld : KeyRow → KeyRow}
    (hw : db.WF) (hg : GoodUpsert k onNew onOld) : (strWrite db k v onNew onOld).2.WF := by
  cases hf : db.findKey k with
  | none =>
    obtain ⟨db2, he, hw2, _⟩ := strWrite_new (v := v) hw hg hf
    rw [he]; exact hw2
  | some old =>
    by_cases ht : old.ty = TString
    · obtain ⟨db2, he, hw2, _⟩ := strWrite_old (v := v) hw hg hf ht
      rw [he]; exact hw2
    · rw [strWrite_other hf ht]; exact hw

theorem update_wf {f : DB → Res} {db : DB} (hw : db.WF) (h : (f db).db.WF) : (update f db).db.WF := by
  unfold update
  simp only
  split
  · exact h
  · exact hw

theorem strSet_wf {db : DB} (hw : db.WF) (k v : Bytes) (et : Option Int) (now : Int) :
    (strSet db k v et now).db.WF := by
  have := strWrite_wf (v := v) hw (good_set k et now)
  rw [← strSetTx_eq] at this
  unfold strSet
  rcases h : strSetTx db k v et now with ⟨o, d⟩
  rw [h] at this
  cases o <;> exact this

theorem strIncr_wf {db : DB} (hw : db.WF) (k : Bytes) (d now : Int) : (strIncr db k d now).db.WF := by
  unfold strIncr
  simp only
  split
  · exact hw
  · rename_i n _
    have := strWrite_wf (v := itoa (wrap64 (n + d))) hw (good_upd k now)
    rw [← strUpdateTx_eq] at this
    rcases h : strUpdateTx db k (itoa (wrap64 (n + d))) now with ⟨o, d'⟩
    rw [h] at this
    cases o <;> exact this

theorem strIncrFloat_wf {db : DB} (hw : db.WF) (k : Bytes) (d : Dyadic) (now : Int) :
    (strIncrFloat db k d now).db.WF := by
  unfold strIncrFloat
  simp only
  split
  · exact hw
  · exact hw
  · split
    · split <;> exact hw
    · rename_i txt _
      have := strWrite_wf (v := txt) hw (good_upd k now)
      rw [← strUpdateTx_eq] at this
      rcases h : strUpdateTx db k txt now with ⟨o, d'⟩
      rw [h] at this
      cases o <;> exact this

theorem strSetWith_wf {db : DB} (hw : db.WF) (k v : Bytes) (o : SetOpts) (now : Int) :
    (strSetWith db k v o now).db.WF := by
  have h1 := strWrite_wf (v := v) hw (good_upd k now)
  rw [← strUpdateTx_eq] at h1
  have h2 : ∀ at_, (strSetTx db k v at_ now).2.WF := fun at_ => by
    rw [strSetTx_eq]; exact strWrite_wf hw (good_set k at_ now)
  unfold strSetWith
  simp only
  split
  · exact hw
  · split
    · exact hw
    · cases o.keepTTL
      · simp only [Bool.false_eq_true, if_false]
        have := h2 (if o.ttl > 0 then some (now + o.ttl) else o.atMs)
        generalize strSetTx db k v (if o.ttl > 0 then some (now + o.ttl) else o.atMs) now = p at this ⊢
        rcases p with ⟨o', d'⟩
        cases o' <;> exact this
      · simp only [if_true]
        generalize strUpdateTx db k v now = p at h1 ⊢
        rcases p with ⟨o', d'⟩
        cases o' <;> exact h1

theorem strSetMany_wf (now : Int) : ∀ (items : List (Bytes × Bytes)) (db : DB), db.WF →
    (strSetMany db items now).db.WF
  | [], _, hw => hw
  | (k, v) :: rest, db, hw => by
    have := strWrite_wf (v := v) hw (good_set k none now)
    rw [← strSetTx_eq] at this
    unfold strSetMany
    rcases h : strSetTx db k v none now with ⟨o, d⟩
    rw [h] at this
    cases o with
    | error e => exact this
    | ok _ => exact strSetMany_wf now rest d this

end Redka.Model
