/-
  C19 — the set repository (non-storing methods): every `Tx` method is an `Eff` step.
-/
import RedkaModel.Proofs.MetaEff
import RedkaModel.Proofs.InvSet

namespace Redka.MetaProofs

open Redka Redka.Model Redka.InvP

variable {db : DB}

theorem setInsertRow_touch {kid : Int} {e : Bytes} {db' : DB} (h : setInsertRow db kid e = some db') :
    Touch kid db db' := by
  unfold setInsertRow at h
  split at h
  · cases h
  · simp only [Option.some.injEq] at h
    subst h
    refine (Touch.setSets kid db _ (fun i hi => ?_)).trans (Touch.updLen kid _ _ (fun _ => rfl))
    exact (filter_kid_append_other (·.kid) db.sets
      ({ rowid := db.nextSetRowid, kid := kid, elem := e } : SetRow) (i := i)
      (fun (e : kid = i) => hi e.symm)).symm

theorem setAddElems_touch {kid : Int} (es : List Bytes) :
    ∀ {db : DB} (n : Int), Touch kid db (setAddElems db kid es n).1 := by
  induction es with
  | nil => intro db n; exact Touch.refl _ _
  | cons e es ih =>
    intro db n
    unfold setAddElems
    split
    · exact ih n
    · rename_i db' he
      exact (setInsertRow_touch he).trans (ih (n + 1))

theorem setAdd_eff (k : Bytes) (es : List Bytes) (now : Int) :
    Eff now db (setAdd db k es now).db ∧ Keep db (setAdd db k es now).db := by
  unfold setAdd
  cases he : setAddKey db k now with
  | error e => exact ⟨Eff.refl _ _, Keep.refl _⟩
  | ok p =>
    obtain ⟨db1, r⟩ := p
    exact eff_upsert_touch he (fun _ => ⟨rfl, rfl, rfl⟩)
      (fun o => ⟨rfl, rfl, by show o.version < o.version + 1; omega, rfl⟩)
      (setAddElems_touch es 0)

/-- `sqlDelete1` + `sqlDelete2`: remove rows of the live set `k`, then update its key row -/
theorem setRemoveLive_eff {k : Bytes} {now : Int} {r : KeyRow} (hl : db.liveKeyT k TSet now = some r)
    (q : SetRow → Bool) (n : Int) :
    let db1 : DB := { db with sets := db.sets.filter (fun x => !(x.kid == r.id && q x)) }
    Eff now db (setUpdKeyAfterDelete db1 k n now) ∧ Keep db (setUpdKeyAfterDelete db1 k n now) := by
  intro db1
  have hl1 : db1.liveKeyT k TSet now = some r := hl
  unfold setUpdKeyAfterDelete
  rw [hl1]
  refine eff_touch_updKey (Touch.setSets r.id db _ (fun i hi => ?_))
    (fun o => ⟨rfl, rfl, by show o.version < o.version + 1; omega, rfl⟩)
  refine (filter_kid_filter_other (·.kid) _ db.sets i (fun x _ hx => ?_)).symm
  have : (x.kid == r.id) = false := by simpa [hx] using hi
  simp [this]

theorem setDelete_eff (k : Bytes) (es : List Bytes) (now : Int) :
    Eff now db (setDelete db k es now).db ∧ Keep db (setDelete db k es now).db := by
  unfold setDelete
  split
  · exact ⟨Eff.refl _ _, Keep.refl _⟩
  · rename_i r hl
    simp only
    split
    · exact ⟨Eff.refl _ _, Keep.refl _⟩
    · exact setRemoveLive_eff hl (fun x => es.contains x.elem) _

theorem setPop_eff (k : Bytes) (oracle : Option Bytes) (now : Int) :
    Eff now db (setPop db k oracle now).db := by
  unfold setPop
  split
  · split <;> exact Eff.refl _ _
  · rename_i r hl
    simp only
    split
    · split <;> exact Eff.refl _ _
    · rename_i e
      split
      · exact (setRemoveLive_eff hl (fun x => x.elem == e) 1).1
      · exact Eff.refl _ _

theorem setMove_eff (h : WF db) (s d e : Bytes) (now : Int) : Eff now db (setMove db s d e now).db := by
  unfold setMove
  have h1 := setDelete_eff (db := db) s [e] now
  have hw := setDelete_wf h s [e] now
  generalize setDelete db s [e] now = r at h1 hw
  simp only
  split
  · exact h1.1
  · split
    · exact h1.1
    · have h2 := setAdd_eff (db := r.db) d [e] now
      split <;> exact h1.1.trans h1.2 h2.1
  · exact h1.1

end Redka.MetaProofs
