/-
  C19 — the string repository: every `Tx` method is an `Eff` step.
-/
import RedkaModel.Proofs.MetaEff
import RedkaModel.Proofs.InvStr

namespace Redka.MetaProofs

open Redka Redka.Model Redka.InvP

variable {db : DB}

/-- `sqlSet2` on a key row that is there: a child-level edit of that key -/
theorem strSet2_touch {δ : Int → Int} {db : DB} (h : WFd δ db) {r : KeyRow} (hr : r ∈ db.keys)
    (v : Bytes) : ∃ db2, strSet2 db r.key v = .ok db2 ∧ Touch r.id db db2 := by
  unfold strSet2
  rw [findKey_of_mem h hr]
  simp only
  split
  · refine ⟨_, rfl, Touch.setStrs _ _ _ (fun i hi => ?_)⟩
    refine (filter_kid_map_other (·.kid) _ db.strs i (fun x _ hx => ?_) (fun x _ => ?_)).symm
    · have : (x.kid == r.id) = false := by simpa [hx] using hi
      simp [this]
    · show (if x.kid == r.id then _ else x).kid = x.kid
      split <;> rfl
  · refine ⟨_, rfl, Touch.setStrs _ _ _ (fun i hi => ?_)⟩
    exact (filter_kid_append_other (·.kid) db.strs ({ kid := r.id, value := v } : StrRow) (i := i)
      (fun (e : r.id = i) => hi e.symm)).symm

theorem strUpsertSet_eff {now : Int} (h : WF db) (k v : Bytes) (onNew : Int → KeyRow)
    (onOld : KeyRow → KeyRow)
    (hnew : ∀ id, (onNew id).id = id ∧ (onNew id).key = k ∧ (onNew id).ty = TString ∧
      (onNew id).len = none ∧ (onNew id).version = 1 ∧ (onNew id).mtime = now)
    (hold : ∀ o, (onOld o).id = o.id ∧ (onOld o).key = o.key ∧ (onOld o).ty = o.ty ∧
      (onOld o).len = o.len ∧ o.version < (onOld o).version ∧ (onOld o).mtime = now) :
    let p := (match keyUpsert db k TString onNew onOld with
      | .error e => ((.error e : Except Err DB), db)
      | .ok (db1, _) =>
        match strSet2 db1 k v with
        | .error e => (.error e, db1)
        | .ok db2 => (.ok db2, db2))
    Eff now db p.2 ∧ Keep db p.2 := by
  cases he : keyUpsert db k TString onNew onOld with
  | error e => exact ⟨Eff.refl _ _, Keep.refl _⟩
  | ok p =>
    obtain ⟨db1, r⟩ := p
    obtain ⟨d, _, h1, _, hr, hk, _, _⟩ := h.keyUpsert (ty := TString) 1 0 none (by decide)
      ⟨fun _ => ⟨rfl, rfl⟩, fun h => absurd rfl h⟩ (fun _ => rfl) he
      (fun id => ⟨(hnew id).1, (hnew id).2.1, (hnew id).2.2.1, (hnew id).2.2.2.1⟩)
      (fun o => by
        obtain ⟨a, b, c, e, _⟩ := hold o
        refine ⟨a, b, c, ?_⟩
        rw [e]; cases o.len <;> simp)
    obtain ⟨db2, h2, ht⟩ := strSet2_touch h1 hr v
    rw [hk] at h2
    simp only [h2]
    exact eff_upsert_touch he (fun id => ⟨(hnew id).1, (hnew id).2.2.2.2.1, (hnew id).2.2.2.2.2⟩)
      (fun o => ⟨(hold o).1, (hold o).2.2.1, (hold o).2.2.2.2.1, (hold o).2.2.2.2.2⟩) ht

theorem strSetTx_eff (h : WF db) (k v : Bytes) (et : Option Int) (now : Int) :
    Eff now db (strSetTx db k v et now).2 ∧ Keep db (strSetTx db k v et now).2 :=
  strUpsertSet_eff h k v _ _ (fun _ => ⟨rfl, rfl, rfl, rfl, rfl, rfl⟩)
    (fun o => ⟨rfl, rfl, rfl, rfl, by show o.version < o.version + 1; omega, rfl⟩)

theorem strUpdateTx_eff (h : WF db) (k v : Bytes) (now : Int) :
    Eff now db (strUpdateTx db k v now).2 ∧ Keep db (strUpdateTx db k v now).2 :=
  strUpsertSet_eff h k v _ _ (fun _ => ⟨rfl, rfl, rfl, rfl, rfl, rfl⟩)
    (fun o => ⟨rfl, rfl, rfl, rfl, by show o.version < o.version + 1; omega, rfl⟩)

theorem strSet_eff (h : WF db) (k v : Bytes) (et : Option Int) (now : Int) :
    Eff now db (strSet db k v et now).db := by
  unfold strSet
  have := (strSetTx_eff h k v et now).1
  split <;> (rename_i he; rw [he] at this; exact this)

theorem strIncr_eff (h : WF db) (k : Bytes) (d now : Int) : Eff now db (strIncr db k d now).db := by
  unfold strIncr
  simp only
  split
  · exact Eff.refl _ _
  · rename_i n _
    have := (strUpdateTx_eff h k (itoa (wrap64 (n + d))) now).1
    split <;> (rename_i he; rw [he] at this; exact this)

theorem strIncrFloat_eff (h : WF db) (k : Bytes) (d : Dyadic) (now : Int) :
    Eff now db (strIncrFloat db k d now).db := by
  unfold strIncrFloat
  simp only
  split
  · exact Eff.refl _ _
  · exact Eff.refl _ _
  · split
    · split <;> exact Eff.refl _ _
    · rename_i txt _
      have := (strUpdateTx_eff h k txt now).1
      split <;> (rename_i he; rw [he] at this; exact this)

theorem strSetMany_eff (items : List (Bytes × Bytes)) (now : Int) :
    ∀ {db : DB}, WF db → Eff now db (strSetMany db items now).db := by
  induction items with
  | nil => intro db _; exact Eff.refl _ _
  | cons p rest ih =>
    intro db h
    obtain ⟨k, v⟩ := p
    unfold strSetMany
    have hw := strSetTx_wf h k v none now
    have he := strSetTx_eff h k v none now
    split
    · rename_i heq; rw [heq] at he; exact he.1
    · rename_i heq; rw [heq] at he hw; exact he.1.trans he.2 (ih hw)

theorem strSetWith_eff (h : WF db) (k v : Bytes) (o : SetOpts) (now : Int) :
    Eff now db (strSetWith db k v o now).db := by
  unfold strSetWith
  simp only
  split
  · exact Eff.refl _ _
  · split
    · exact Eff.refl _ _
    · have h1 := (strUpdateTx_eff h k v now).1
      have h2 := (strSetTx_eff h k v (if o.ttl > 0 then some (now + o.ttl) else o.atMs) now).1
      split <;> rename_i he <;> split at he <;> first
        | (rw [he] at h1; exact h1)
        | (rw [he] at h2; exact h2)

end Redka.MetaProofs
