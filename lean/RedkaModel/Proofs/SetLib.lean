/-
  Library for the refinement of `internal/rset` (C03).

  * strictly sorted lists of byte strings — the specification's sets (`sinsert`, `sunion`, `sdiff`,
    `sinter`) — with extensionality: two strictly sorted lists with the same members are equal;
  * the members of a stored set (`setElems`) under the uniqueness of `(kid, elem)`;
  * `SetWF`: the part of the C11 invariant the set proofs need, on top of `DB.WF`;
  * `Frame db db' k`: nothing but what is stored under the name `k` differs between two table
    states, as far as the abstraction can see, and what that means for `Spec.abs`;
  * the statements of `internal/rset/tx.go` one by one (`setAddKey`, `setInsertRow`, the two loops
    over it, the row deletions) as `SetWF`-preserving, framed steps.
-/
import RedkaModel.Proofs.Abs
import RedkaModel.Proofs.Str

namespace Redka.Model.SetRef

open Redka Redka.Spec Redka.DB Redka.Scan

/-! ### strictly sorted lists of byte strings -/

/-- strictly increasing in `memcmp` order -/
def SSorted (l : List Bytes) : Prop := l.Pairwise (fun a b => bytesLt a b = true)

theorem SSorted.nil : SSorted [] := List.Pairwise.nil

theorem SSorted.tail {x : Bytes} {l : List Bytes} (h : SSorted (x :: l)) : SSorted l :=
  (List.pairwise_cons.1 h).2

theorem SSorted.head_lt {x : Bytes} {l : List Bytes} (h : SSorted (x :: l)) :
    ∀ y ∈ l, bytesLt x y = true := (List.pairwise_cons.1 h).1

theorem SSorted.head_not_mem {x : Bytes} {l : List Bytes} (h : SSorted (x :: l)) : x ∉ l := by
  intro hx
  have := h.head_lt x hx
  rw [bytesLt_irrefl] at this
  cases this

theorem SSorted.nodup {l : List Bytes} (h : SSorted l) : l.Nodup := by
  refine List.Pairwise.imp ?_ h
  intro a b hab heq
  rw [heq, bytesLt_irrefl] at hab
  cases hab

theorem SSorted.filter {l : List Bytes} (h : SSorted l) (p : Bytes → Bool) : SSorted (l.filter p) :=
  List.Pairwise.filter _ h

/-- Two strictly sorted lists with the same members are the same list. -/
theorem ssorted_ext : ∀ {a b : List Bytes}, SSorted a → SSorted b → (∀ x, x ∈ a ↔ x ∈ b) → a = b
  | [], [], _, _, _ => rfl
  | [], y :: b, _, _, h => by have := (h y).2 (by simp); simp at this
  | x :: a, [], _, _, h => by have := (h x).1 (by simp); simp at this
  | x :: a, y :: b, ha, hb, h => by
    by_cases hxy : x = y
    · subst hxy
      have htl : ∀ z, z ∈ a ↔ z ∈ b := by
        intro z
        constructor
        · intro hz
          rcases List.mem_cons.1 ((h z).1 (List.mem_cons_of_mem _ hz)) with rfl | h'
          · exact absurd hz ha.head_not_mem
          · exact h'
        · intro hz
          rcases List.mem_cons.1 ((h z).2 (List.mem_cons_of_mem _ hz)) with rfl | h'
          · exact absurd hz hb.head_not_mem
          · exact h'
      rw [ssorted_ext ha.tail hb.tail htl]
    · exfalso
      have h1 : x ∈ b := by
        rcases List.mem_cons.1 ((h x).1 (by simp)) with h' | h'
        · exact absurd h' hxy
        · exact h'
      have h2 : y ∈ a := by
        rcases List.mem_cons.1 ((h y).2 (by simp)) with h' | h'
        · exact absurd h'.symm hxy
        · exact h'
      have := bytesLt_trans _ _ _ (ha.head_lt y h2) (hb.head_lt x h1)
      rw [bytesLt_irrefl] at this
      cases this

theorem mem_sinsert (x y : Bytes) : ∀ s : List Bytes, y ∈ sinsert s x ↔ y = x ∨ y ∈ s
  | [] => by simp [sinsert]
  | z :: s => by
    simp only [sinsert]
    split
    · rename_i hxz
      have hxz : x = z := by simpa using hxz
      subst hxz
      simp
    · split
      · simp
      · simp only [List.mem_cons, mem_sinsert x y s]
        constructor
        · rintro (h | h | h)
          · exact Or.inr (Or.inl h)
          · exact Or.inl h
          · exact Or.inr (Or.inr h)
        · rintro (h | h | h)
          · exact Or.inr (Or.inl h)
          · exact Or.inl h
          · exact Or.inr (Or.inr h)

theorem SSorted.sinsert {s : List Bytes} (h : SSorted s) (x : Bytes) : SSorted (sinsert s x) := by
  induction s with
  | nil => simp [Spec.sinsert, SSorted]
  | cons z s ih =>
    simp only [Spec.sinsert]
    split
    · exact h
    · rename_i hxz
      split
      · rename_i hlt
        refine List.Pairwise.cons ?_ h
        intro q hq
        rcases List.mem_cons.1 hq with rfl | hq
        · exact hlt
        · exact bytesLt_trans _ _ _ hlt (h.head_lt q hq)
      · rename_i hlt
        have hgt : bytesLt z x = true := by
          cases hc : bytesLt z x with
          | true => rfl
          | false =>
            have := bytesLt_connected x z (by simpa using hlt) hc
            simp [this] at hxz
        refine List.Pairwise.cons ?_ (ih h.tail)
        intro q hq
        rcases (mem_sinsert x q s).1 hq with rfl | hq
        · exact hgt
        · exact h.head_lt q hq

/-- inserting a member changes nothing -/
theorem sinsert_of_mem {s : List Bytes} (h : SSorted s) {x : Bytes} (hx : x ∈ s) : sinsert s x = s :=
  ssorted_ext (h.sinsert x) h (fun y => by
    rw [mem_sinsert]
    constructor
    · rintro (rfl | h') <;> assumption
    · exact Or.inr)

theorem length_sinsert_of_not_mem (x : Bytes) : ∀ s : List Bytes, x ∉ s →
    (sinsert s x).length = s.length + 1
  | [], _ => rfl
  | z :: s, hx => by
    have hxz : ¬ x = z := fun h => hx (by simp [h])
    have hxs : x ∉ s := fun h => hx (List.mem_cons_of_mem _ h)
    simp only [sinsert]
    have : (x == z) = false := by simpa using hxz
    rw [this]
    simp only [Bool.false_eq_true, if_false]
    split
    · rfl
    · simp [length_sinsert_of_not_mem x s hxs]

theorem sunion_nil (a : List Bytes) : sunion a [] = a := rfl

theorem sunion_cons (a : List Bytes) (x : Bytes) (b : List Bytes) :
    sunion a (x :: b) = sunion (sinsert a x) b := rfl

theorem mem_sunion (y : Bytes) : ∀ (b a : List Bytes), y ∈ sunion a b ↔ y ∈ a ∨ y ∈ b
  | [], a => by simp [sunion]
  | x :: b, a => by
    rw [sunion_cons, mem_sunion y b, mem_sinsert]
    simp only [List.mem_cons]
    constructor
    · rintro ((h | h) | h)
      · exact Or.inr (Or.inl h)
      · exact Or.inl h
      · exact Or.inr (Or.inr h)
    · rintro (h | h | h)
      · exact Or.inl (Or.inr h)
      · exact Or.inl (Or.inl h)
      · exact Or.inr h

theorem SSorted.sunion : ∀ (b : List Bytes) {a : List Bytes}, SSorted a → SSorted (sunion a b)
  | [], _, h => h
  | x :: b, _, h => by rw [sunion_cons]; exact SSorted.sunion b (h.sinsert x)

theorem sfromList_eq (l : List Bytes) : sfromList l = sunion [] l := rfl

theorem SSorted.sdiff {a : List Bytes} (h : SSorted a) (b : List Bytes) : SSorted (sdiff a b) :=
  h.filter _

theorem SSorted.sinter {a : List Bytes} (h : SSorted a) (b : List Bytes) : SSorted (sinter a b) :=
  h.filter _

theorem mem_sdiff (a b : List Bytes) (x : Bytes) : x ∈ sdiff a b ↔ x ∈ a ∧ x ∉ b := by
  simp [sdiff]

theorem mem_sinter (a b : List Bytes) (x : Bytes) : x ∈ sinter a b ↔ x ∈ a ∧ x ∈ b := by
  simp [sinter]

/-- a strictly sorted list is what inserting its members one by one builds -/
theorem sunion_nil_of_ssorted {l : List Bytes} (h : SSorted l) : sunion [] l = l :=
  ssorted_ext (SSorted.sunion l SSorted.nil) h (fun x => by simp [mem_sunion])

/-- strict sorting of a duplicate-free list -/
theorem ssorted_sortBy {l : List Bytes} (h : l.Nodup) : SSorted (sortBy bytesLt l) :=
  pairwise_sortBy (fun x : Bytes => x) strictTotal_bytes l (by simpa using h)

theorem mem_dedup {α} [DecidableEq α] (x : α) : ∀ l : List α, x ∈ dedup l ↔ x ∈ l
  | [] => by simp [dedup]
  | y :: l => by
    simp only [dedup]
    split
    · rename_i hy
      rw [mem_dedup x l]
      constructor
      · exact List.mem_cons_of_mem _
      · intro h
        rcases List.mem_cons.1 h with rfl | h
        · exact hy
        · exact h
    · simp [mem_dedup x l]

theorem nodup_dedup {α} [DecidableEq α] : ∀ l : List α, (dedup l).Nodup
  | [] => by simp [dedup]
  | y :: l => by
    simp only [dedup]
    split
    · exact nodup_dedup l
    · rename_i hy
      exact List.nodup_cons.2 ⟨fun h => hy ((mem_dedup y l).1 h), nodup_dedup l⟩

/-! ### folds over lists of keys -/

theorem foldl_congr_mem {α β : Type} {f g : α → β → α} : ∀ (l : List β) (a : α),
    (∀ x ∈ l, ∀ a, f a x = g a x) → l.foldl f a = l.foldl g a
  | [], _, _ => rfl
  | x :: l, a, h => by
    simp only [List.foldl_cons]
    rw [h x (by simp) a]
    exact foldl_congr_mem l _ (fun y hy => h y (List.mem_cons_of_mem _ hy))

theorem foldl_sdiff (g : Bytes → List Bytes) : ∀ (rest : List Bytes) (m : List Bytes),
    rest.foldl (fun acc x => sdiff acc (g x)) m
      = m.filter (fun e => rest.all (fun x => !(g x).contains e))
  | [], m => (List.filter_eq_self.2 (by simp)).symm
  | x :: rest, m => by
    simp only [List.foldl_cons]
    rw [foldl_sdiff g rest, sdiff, List.filter_filter]
    apply List.filter_congr
    intro e _
    simp [Bool.and_comm]

theorem foldl_sinter (g : Bytes → List Bytes) : ∀ (rest : List Bytes) (m : List Bytes),
    rest.foldl (fun acc x => sinter acc (g x)) m
      = m.filter (fun e => rest.all (fun x => (g x).contains e))
  | [], m => (List.filter_eq_self.2 (by simp)).symm
  | x :: rest, m => by
    simp only [List.foldl_cons]
    rw [foldl_sinter g rest, sinter, List.filter_filter]
    apply List.filter_congr
    intro e _
    simp [Bool.and_comm]

theorem mem_foldl_sunion (g : Bytes → List Bytes) (e : Bytes) : ∀ (ks : List Bytes) (a : List Bytes),
    e ∈ ks.foldl (fun acc x => sunion acc (g x)) a ↔ e ∈ a ∨ ∃ k ∈ ks, e ∈ g k
  | [], a => by simp
  | k :: ks, a => by
    simp only [List.foldl_cons]
    rw [mem_foldl_sunion g e ks, mem_sunion]
    simp only [List.mem_cons, exists_eq_or_imp]
    exact or_assoc

theorem ssorted_foldl_sunion (g : Bytes → List Bytes) : ∀ (ks : List Bytes) {a : List Bytes},
    SSorted a → SSorted (ks.foldl (fun acc x => sunion acc (g x)) a)
  | [], _, h => h
  | k :: ks, _, h => by
    simp only [List.foldl_cons]
    exact ssorted_foldl_sunion g ks (SSorted.sunion _ h)


/-! ### small list facts -/

theorem nodup_map_of_nodup_map {α β γ : Type} (f : α → β) (g : α → γ) (l : List α)
    (h : (l.map f).Nodup) (hfg : ∀ a ∈ l, ∀ b ∈ l, g a = g b → f a = f b) : (l.map g).Nodup := by
  unfold List.Nodup at h ⊢
  rw [List.pairwise_map] at h ⊢
  exact List.Pairwise.imp_of_mem (fun ha hb hne heq => hne (hfg _ ha _ hb heq)) h

theorem length_filter_split {α : Type} (p q : α → Bool) : ∀ l : List α,
    (l.filter p).length = (l.filter (fun x => p x && q x)).length + (l.filter (fun x => p x && !q x)).length
  | [] => rfl
  | x :: l => by
    have ih := length_filter_split p q l
    simp only [List.filter_cons]
    cases hp : p x <;> cases hq : q x <;> simp [ih] <;> omega

theorem length_filter_or {α : Type} (p q : α → Bool) : ∀ l : List α,
    (∀ x ∈ l, p x = true → q x = true → False) →
    (l.filter (fun x => p x || q x)).length = (l.filter p).length + (l.filter q).length
  | [], _ => rfl
  | x :: l, h => by
    have ih := length_filter_or p q l (fun y hy => h y (List.mem_cons_of_mem _ hy))
    have hx := h x (by simp)
    simp only [List.filter_cons]
    cases hp : p x <;> cases hq : q x <;> simp [ih] <;> first | omega | exact (hx hp hq).elim

/-- under a unique key, at most one row matches it -/
theorem length_filter_key {α β : Type} [DecidableEq β] (f : α → β) (v : β) : ∀ l : List α,
    (l.map f).Nodup → (l.filter (fun x => f x == v)).length = if v ∈ l.map f then 1 else 0
  | [], _ => rfl
  | x :: l, h => by
    have h' : f x ∉ l.map f ∧ (l.map f).Nodup := by
      rw [List.map_cons] at h; exact List.nodup_cons.1 h
    have ih := length_filter_key f v l h'.2
    simp only [List.filter_cons, List.map_cons, List.mem_cons]
    by_cases hx : f x = v
    · subst hx
      have : ¬ f x ∈ l.map f := h'.1
      simp [ih, this]
    · have hx' : ¬ v = f x := fun h => hx h.symm
      simp [hx, hx', ih]

/-! ### the members of a stored set -/

/-- the members of the set with key id `id`, in the order of the `(kid, elem)` index -/
def setElems (db : DB) (id : Int) : List Bytes := (setRows db id).map (·.elem)

theorem mem_setElems {db : DB} {id : Int} {e : Bytes} :
    e ∈ setElems db id ↔ ∃ x ∈ db.sets, x.kid = id ∧ x.elem = e := by
  simp only [setElems, setRows, List.mem_map, mem_sortBy, List.mem_filter, beq_iff_eq]
  constructor
  · rintro ⟨x, ⟨hx, hk⟩, he⟩; exact ⟨x, hx, hk, he⟩
  · rintro ⟨x, hx, hk, he⟩; exact ⟨x, ⟨hx, hk⟩, he⟩

theorem length_setElems (db : DB) (id : Int) :
    (setElems db id).length = (db.sets.filter (fun x => x.kid == id)).length := by
  simp [setElems, setRows, length_sortBy]

theorem setElems_congr {db db' : DB} {id : Int}
    (h : db'.sets.filter (fun x => x.kid == id) = db.sets.filter (fun x => x.kid == id)) :
    setElems db' id = setElems db id := by
  unfold setElems setRows; rw [h]

/-- `(kid, elem)` is unique, so the members of one set are pairwise different -/
theorem ssorted_setElems {db : DB} (hu : (db.sets.map (fun r => (r.kid, r.elem))).Nodup) (id : Int) :
    SSorted (setElems db id) := by
  unfold setElems setRows SSorted
  rw [List.pairwise_map]
  apply pairwise_sortBy (fun x : SetRow => x.elem) strictTotal_bytes
  have h1 : ((db.sets.filter (fun x => x.kid == id)).map (fun r => (r.kid, r.elem))).Nodup :=
    List.Nodup.sublist (List.Sublist.map _ List.filter_sublist) hu
  refine nodup_map_of_nodup_map _ _ _ h1 ?_
  intro a ha b hb hab
  have ha := (List.mem_filter.1 ha).2
  have hb := (List.mem_filter.1 hb).2
  simp only [beq_iff_eq] at ha hb
  simp [ha, hb, hab]

theorem any_eq_mem_setElems (db : DB) (id : Int) (e : Bytes) :
    db.sets.any (fun x => x.kid == id && x.elem == e) = (setElems db id).contains e := by
  rw [Bool.eq_iff_iff, List.any_eq_true, List.contains_iff_mem, mem_setElems]
  simp only [Bool.and_eq_true, beq_iff_eq]

/-! ### the part of the invariant the set proofs use -/

/-- `DB.WF` plus: `(kid, elem)` is unique in `rset`, every `rset` row belongs to a stored key, and
the cached length of every set key is the number of its rows -/
structure SetWF (db : DB) : Prop extends DB.WF db where
  setUniq : (db.sets.map (fun r => (r.kid, r.elem))).Nodup
  setOwner : ∀ x ∈ db.sets, x.kid ∈ db.keys.map (·.id)
  setLen : ∀ r ∈ db.keys, r.ty = TSet →
    r.len = some ((db.sets.filter (fun x => x.kid == r.id)).length : Int)

theorem SetWF.wf {db : DB} (h : SetWF db) : db.WF := h.toWF

theorem SetWF.of_inv {db : DB} (h : db.Inv) : SetWF db := by
  refine { toWF := DB.Inv.wf h, setUniq := ?_, setOwner := ?_, setLen := ?_ }
  all_goals
    unfold DB.Inv DB.invB at h
    simp only [Bool.and_eq_true] at h
    obtain ⟨⟨hk, ho⟩, hu⟩ := h
  · unfold uniqueOk at hu
    simp only [Bool.and_eq_true, nodupB_iff] at hu
    exact hu.1.1.1.1.1.2
  · unfold ownersOk at ho
    simp only [Bool.and_eq_true] at ho
    have hs := ho.1.1.2
    rw [List.all_eq_true] at hs
    intro x hx
    have := hs x hx
    unfold ownerOk at this
    obtain ⟨r, hr, hrx⟩ := List.any_eq_true.1 this
    simp only [Bool.and_eq_true, beq_iff_eq] at hrx
    exact List.mem_map.2 ⟨r, hr, hrx.1⟩
  · unfold keysOk at hk
    rw [List.all_eq_true] at hk
    intro r hr hty
    have := hk r hr
    simp only [Bool.and_eq_true, decide_eq_true_eq] at this
    have h2 := this.2
    rw [if_neg (by simp [hty, TSet, TString])] at h2
    have h2 : r.len = some (db.childCount r) := by simpa using h2
    rw [h2]
    simp [childCount, hty, TSet, TList]

theorem SetWF.elems_sorted {db : DB} (h : SetWF db) (id : Int) : SSorted (setElems db id) :=
  ssorted_setElems h.setUniq id

/-! ### what the abstraction sees of a key row -/

/-- a key row without the columns the abstraction ignores -/
def core (r : KeyRow) : KeyRow := { r with version := 0, mtime := 0, len := none }

theorem core_id {a b : KeyRow} (h : core a = core b) : a.id = b.id :=
  show (core a).id = (core b).id from congrArg KeyRow.id h
theorem core_key {a b : KeyRow} (h : core a = core b) : a.key = b.key :=
  show (core a).key = (core b).key from congrArg KeyRow.key h
theorem core_ty {a b : KeyRow} (h : core a = core b) : a.ty = b.ty :=
  show (core a).ty = (core b).ty from congrArg KeyRow.ty h
theorem core_etime {a b : KeyRow} (h : core a = core b) : a.etime = b.etime :=
  show (core a).etime = (core b).etime from congrArg KeyRow.etime h

/-- the entry stored under a name at `now`, read from the tables -/
def view (now : Int) (db : DB) (k : Bytes) : Option Entry := (db.findKey k).bind (rowEntry now db)

theorem get_abs_view {db : DB} (hn : (db.keys.map (·.key)).Nodup) (now : Int) (k : Bytes) :
    get (abs now db) k = view now db k := get_abs hn now k

theorem absVal_core {db db' : DB} {r r' : KeyRow} (hid : r'.id = r.id) (hty : r'.ty = r.ty)
    (hs : db'.strs = db.strs) (hl : db'.lists = db.lists) (hh : db'.hashes = db.hashes)
    (hz : db'.zsets = db.zsets)
    (hse : db'.sets.filter (fun x => x.kid == r.id) = db.sets.filter (fun x => x.kid == r.id)) :
    absVal db' r' = absVal db r := by
  unfold absVal listRows setRows hashRows
  rw [hid, hty, hs, hl, hh, hz, hse]

theorem absVal_set {db : DB} {r : KeyRow} (h : r.ty = TSet) :
    absVal db r = some (.set (setElems db r.id)) := by
  simp [absVal, h, TSet, TString, TList, setElems]

/-- a row of another type never reads as a set -/
theorem absVal_ne_set {db : DB} {r : KeyRow} {m : List Bytes} (h : absVal db r = some (.set m)) :
    r.ty = TSet := by
  unfold absVal at h
  split at h
  · cases hf : db.strs.find? (fun s => s.kid == r.id) <;> simp [hf] at h
  · split at h
    · simp at h
    · split at h
      · rename_i ht; simpa using ht
      · split at h
        · simp at h
        · split at h <;> simp at h

/-- Nothing but what is stored under the name `k` differs between `db` and `db'`, as far as the
abstraction can see: every other name leads to a row with the same id, type and expiry, with the
same child rows. (The set operations never touch the other four child tables.) -/
structure Frame (db db' : DB) (k : Bytes) : Prop where
  find : ∀ k', k' ≠ k → (db'.findKey k').map core = (db.findKey k').map core
  sets : ∀ k' r, k' ≠ k → db.findKey k' = some r →
    db'.sets.filter (fun x => x.kid == r.id) = db.sets.filter (fun x => x.kid == r.id)
  strs : db'.strs = db.strs
  lists : db'.lists = db.lists
  hashes : db'.hashes = db.hashes
  zsets : db'.zsets = db.zsets

theorem Frame.refl (db : DB) (k : Bytes) : Frame db db k :=
  ⟨fun _ _ => rfl, fun _ _ _ _ => rfl, rfl, rfl, rfl, rfl⟩

theorem Frame.trans {a b c : DB} {k : Bytes} (h1 : Frame a b k) (h2 : Frame b c k) : Frame a c k := by
  refine ⟨fun k' hk => (h2.find k' hk).trans (h1.find k' hk), ?_, h2.strs.trans h1.strs,
    h2.lists.trans h1.lists, h2.hashes.trans h1.hashes, h2.zsets.trans h1.zsets⟩
  intro k' r hk hf
  have hfind := h1.find k' hk
  rw [hf] at hfind
  cases hb : b.findKey k' with
  | none => simp [hb] at hfind
  | some rb =>
    rw [hb] at hfind
    simp only [Option.map_some, Option.some.injEq] at hfind
    have := h2.sets k' rb hk hb
    rw [core_id hfind] at this
    rw [this, h1.sets k' r hk hf]

/-- what a frame means for one other name -/
theorem Frame.find_some {db db' : DB} {k k' : Bytes} (h : Frame db db' k) (hk : k' ≠ k) {r : KeyRow}
    (hf : db.findKey k' = some r) : ∃ r', db'.findKey k' = some r' ∧ core r' = core r := by
  have := h.find k' hk
  rw [hf] at this
  cases hb : db'.findKey k' with
  | none => simp [hb] at this
  | some rb =>
    rw [hb] at this
    exact ⟨rb, rfl, by simpa using this⟩

theorem Frame.find_none {db db' : DB} {k k' : Bytes} (h : Frame db db' k) (hk : k' ≠ k)
    (hf : db.findKey k' = none) : db'.findKey k' = none := by
  have := h.find k' hk
  rw [hf] at this
  cases hb : db'.findKey k' with
  | none => rfl
  | some rb => simp [hb] at this

theorem Frame.view {db db' : DB} {k k' : Bytes} (h : Frame db db' k) (hk : k' ≠ k) (now : Int) :
    view now db' k' = view now db k' := by
  unfold SetRef.view
  cases hf : db.findKey k' with
  | none => rw [h.find_none hk hf]; rfl
  | some r =>
    obtain ⟨r', hf', hc⟩ := h.find_some hk hf
    rw [hf']
    simp only [Option.bind_some, rowEntry, KeyRow.live, core_etime hc,
      absVal_core (core_id hc) (core_ty hc) h.strs h.lists h.hashes h.zsets (h.sets k' r hk hf)]
    rfl

theorem Frame.stale {db db' : DB} {k k' : Bytes} (h : Frame db db' k) (hk : k' ≠ k) (now : Int) :
    staleKey db' now k' = staleKey db now k' := by
  unfold staleKey
  cases hf : db.findKey k' with
  | none => rw [h.find_none hk hf]
  | some r =>
    obtain ⟨r', hf', hc⟩ := h.find_some hk hf
    rw [hf']
    simp only [KeyRow.live, core_etime hc]

/-- the tables after a framed step stand for the old keyspace with one entry replaced -/
theorem abs_frame_put {db db' : DB} {k : Bytes} (hn : (db.keys.map (·.key)).Nodup)
    (hn' : (db'.keys.map (·.key)).Nodup) (hf : Frame db db' k) {now : Int} {e : Entry}
    (hk : view now db' k = some e) : abs now db' = put (abs now db) k e := by
  apply abs_ext hn' ((sorted_abs hn now).put k e)
  intro k'
  rw [get_put]
  by_cases hkk : k = k'
  · subst hkk
    simp only [beq_self_eq_true, if_true]
    exact hk
  · have : (k == k') = false := by simpa using hkk
    simp only [this, Bool.false_eq_true, if_false]
    rw [get_abs_view hn]
    exact hf.view (fun h => hkk h.symm) now

/-- … or for the very same keyspace when the entry under `k` reads the same -/
theorem abs_frame_same {db db' : DB} {k : Bytes} (hn : (db.keys.map (·.key)).Nodup)
    (hn' : (db'.keys.map (·.key)).Nodup) (hf : Frame db db' k) {now : Int}
    (hk : view now db' k = view now db k) : abs now db' = abs now db := by
  apply abs_ext hn' (sorted_abs hn now)
  intro k'
  rw [get_abs_view hn]
  by_cases hkk : k' = k
  · subst hkk; exact hk
  · exact hf.view hkk now

/-! ### one key row and its `rset` rows replaced -/

theorem updKey_const {db : DB} (hi : (db.keys.map (·.id)).Nodup) {r : KeyRow} (hr : r ∈ db.keys)
    (f : KeyRow → KeyRow) : db.updKey r.id f = db.updKey r.id (fun _ => f r) := by
  have : db.keys.map (fun x => if x.id == r.id then f x else x)
      = db.keys.map (fun x => if x.id == r.id then f r else x) := by
    apply List.map_congr_left
    intro x hx
    by_cases h : x.id = r.id
    · rw [id_inj hi hx hr h]
    · simp [h]
  simp only [updKey, this]

/-- `db` with the key row of id `id` replaced by `r'` and `rset` replaced by `sets'` -/
def modDb (db : DB) (id : Int) (r' : KeyRow) (sets' : List SetRow) : DB :=
  { db.updKey id (fun _ => r') with sets := sets' }

/-- the name `k` is held by a set key row with this id and expiry -/
def IsSetRow (db : DB) (k : Bytes) (id : Int) (et : Option Int) : Prop :=
  ∃ r, db.findKey k = some r ∧ r.id = id ∧ r.ty = TSet ∧ r.etime = et

theorem IsSetRow.view {db : DB} {k : Bytes} {id : Int} {et : Option Int} (h : IsSetRow db k id et)
    (now : Int) :
    view now db k = if liveAt now et then some ⟨.set (setElems db id), et⟩ else none := by
  obtain ⟨r, hf, hid, hty, het⟩ := h
  simp only [SetRef.view, hf, Option.bind_some, rowEntry, KeyRow.live, absVal_set hty, het, hid,
    Option.map_some]

theorem IsSetRow.stale {db : DB} {k : Bytes} {id : Int} {et : Option Int} (h : IsSetRow db k id et)
    (now : Int) : staleKey db now k = !liveAt now et := by
  obtain ⟨r, hf, _, _, het⟩ := h
  simp [staleKey, hf, KeyRow.live, het]

section mod
variable {db : DB} {r r' : KeyRow} {sets' : List SetRow}

theorem mod_findKey (hw : db.WF) (hr : r ∈ db.keys) (hc : core r' = core r) (k' : Bytes) :
    (modDb db r.id r' sets').findKey k' = if r.key == k' then some r' else db.findKey k' :=
  findKey_updKey hw.names hw.ids hr (core_key hc) k'

theorem mod_frame (hw : db.WF) (hr : r ∈ db.keys) (hc : core r' = core r)
    (hs : ∀ j, j ≠ r.id → sets'.filter (fun x => x.kid == j) = db.sets.filter (fun x => x.kid == j)) :
    Frame db (modDb db r.id r' sets') r.key := by
  refine ⟨?_, ?_, rfl, rfl, rfl, rfl⟩
  · intro k' hk
    rw [mod_findKey hw hr hc]
    have : (r.key == k') = false := by simpa using fun h : r.key = k' => hk h.symm
    simp [this]
  · intro k' r2 hk hf
    obtain ⟨hm, hmk⟩ := findKey_mem hf
    apply hs
    intro he
    exact hk (by rw [← hmk, id_inj hw.ids hm hr he])

theorem mod_isSetRow (hw : db.WF) (hr : r ∈ db.keys) (hc : core r' = core r) (ht : r.ty = TSet) :
    IsSetRow (modDb db r.id r' sets') r.key r.id r.etime := by
  refine ⟨r', ?_, core_id hc, (core_ty hc).trans ht, core_etime hc⟩
  rw [mod_findKey hw hr hc]; simp

theorem mod_setwf (hw : SetWF db) (hr : r ∈ db.keys) (hc : core r' = core r)
    (hs : ∀ j, j ≠ r.id → sets'.filter (fun x => x.kid == j) = db.sets.filter (fun x => x.kid == j))
    (hu : (sets'.map (fun x => (x.kid, x.elem))).Nodup)
    (ho : ∀ x ∈ sets', x.kid ∈ db.keys.map (·.id))
    (hl : r.ty = TSet → r'.len = some ((sets'.filter (fun x => x.kid == r.id)).length : Int)) :
    SetWF (modDb db r.id r' sets') := by
  have hkeys : (modDb db r.id r' sets').keys = (db.updKey r.id (fun _ => r')).keys := rfl
  have hids : (modDb db r.id r' sets').keys.map (·.id) = db.keys.map (·.id) := by
    rw [hkeys]; exact updKey_ids hw.ids hr (core_id hc)
  refine { names := ?_, ids := ?_, tyOk := ?_, strRow := ?_, strKids := hw.strKids, setUniq := hu,
           setOwner := ?_, setLen := ?_ }
  · rw [hkeys, updKey_names hw.ids hr (core_key hc)]; exact hw.names
  · rw [hids]; exact hw.ids
  · intro x hx
    rcases mem_updKey hw.ids hr hx with hx | ⟨hx, _⟩
    · rw [hx, core_ty hc]; exact hw.tyOk r hr
    · exact hw.tyOk x hx
  · intro x hx hty
    rcases mem_updKey hw.ids hr hx with hx | ⟨hx, _⟩
    · rw [hx, core_id hc]
      exact hw.strRow r hr (by rw [← core_ty hc, ← hx]; exact hty)
    · exact hw.strRow x hx hty
  · intro x hx
    rw [hids]; exact ho x hx
  · intro x hx hty
    rcases mem_updKey hw.ids hr hx with hx | ⟨hx, hne⟩
    · rw [hx, core_id hc]
      exact hl (by rw [← core_ty hc, ← hx]; exact hty)
    · have : x.id ≠ r.id := fun he => hne (id_inj hw.ids hx hr he)
      show x.len = some ((sets'.filter (fun y => y.kid == x.id)).length : Int)
      rw [hs x.id this]
      exact hw.setLen x hx hty

end mod

/-! ### the statements of `internal/rset/tx.go` -/

/-- the row `sqlAdd1` inserts for a new set key -/
def setNewRow (k : Bytes) (now : Int) (id : Int) : KeyRow :=
  { id := id, key := k, ty := TSet, version := 1, etime := none, mtime := now, len := some 0 }

/-- `sqlAdd1` on a name that is not stored: a fresh, empty set key is appended -/
theorem setAddKey_new {db : DB} (hw : SetWF db) {k : Bytes} (h : db.findKey k = none) (now : Int) :
    ∃ db1 r, setAddKey db k now = .ok (db1, r) ∧ SetWF db1 ∧ Frame db db1 k ∧
      IsSetRow db1 k r.id none ∧ setElems db1 r.id = [] := by
  let r := setNewRow k now db.nextKeyId
  have hnone : db.findKey r.key = none := h
  have hf1 : ∀ k', ({ db with keys := db.keys ++ [r] } : DB).findKey k'
      = if k == k' then some r else db.findKey k' := fun k' => findKey_append hnone k'
  have hfresh : ∀ x ∈ db.sets, x.kid ≠ r.id := by
    intro x hx he
    obtain ⟨q, hq, hqx⟩ := List.mem_map.1 (hw.setOwner x hx)
    exact nextKeyId_fresh db q hq (hqx.trans he)
  have hnoRows : db.sets.filter (fun x => x.kid == r.id) = [] := by
    rw [List.filter_eq_nil_iff]
    intro x hx
    simpa using hfresh x hx
  refine ⟨{ db with keys := db.keys ++ [r] }, r, by simp only [setAddKey, keyUpsert_new h]; rfl, ?_, ?_,
    ⟨r, by rw [hf1]; simp, rfl, rfl, rfl⟩, ?_⟩
  · refine { names := names_append hw.names hnone, ids := ids_append hw.ids rfl, tyOk := ?_,
             strRow := ?_, strKids := hw.strKids, setUniq := hw.setUniq, setOwner := ?_, setLen := ?_ }
    · intro x hx
      rcases List.mem_append.1 hx with hx | hx
      · exact hw.tyOk x hx
      · have : x = r := by simpa using hx
        rw [this]
        show 1 ≤ TSet ∧ TSet ≤ 5
        decide
    · intro x hx hty
      rcases List.mem_append.1 hx with hx | hx
      · exact hw.strRow x hx hty
      · have : x = r := by simpa using hx
        rw [this] at hty; cases hty
    · intro x hx
      show x.kid ∈ (db.keys ++ [r]).map (·.id)
      rw [List.map_append]
      exact List.mem_append_left _ (hw.setOwner x hx)
    · intro x hx hty
      rcases List.mem_append.1 hx with hx | hx
      · exact hw.setLen x hx hty
      · have : x = r := by simpa using hx
        rw [this]
        show some (0 : Int) = some ((db.sets.filter (fun x => x.kid == r.id)).length : Int)
        rw [hnoRows]; rfl
  · refine ⟨?_, fun _ _ _ _ => rfl, rfl, rfl, rfl, rfl⟩
    intro k' hk
    rw [hf1]
    have : (k == k') = false := by simpa using fun h : k = k' => hk h.symm
    simp [this]
  · show setElems db r.id = []
    unfold setElems setRows
    rw [hnoRows]; rfl

/-- `sqlAdd1` on a stored set key (live or not): version and mtime are bumped, nothing else -/
theorem setAddKey_old {db : DB} (hw : SetWF db) {k : Bytes} {old : KeyRow}
    (h : db.findKey k = some old) (ht : old.ty = TSet) (now : Int) :
    ∃ db1 r, setAddKey db k now = .ok (db1, r) ∧ SetWF db1 ∧ Frame db db1 k ∧ r.id = old.id ∧
      IsSetRow db1 k old.id old.etime ∧ setElems db1 old.id = setElems db old.id := by
  obtain ⟨ho, hok⟩ := findKey_mem h
  let r : KeyRow := { old with version := old.version + 1, mtime := now }
  have hc : core r = core old := rfl
  have hs : ∀ j, j ≠ old.id →
      db.sets.filter (fun x => x.kid == j) = db.sets.filter (fun x => x.kid == j) := fun _ _ => rfl
  refine ⟨modDb db old.id r db.sets, r, by simp only [setAddKey, keyUpsert_old h ht]; rfl, ?_, ?_, rfl,
    ?_, rfl⟩
  · exact mod_setwf hw ho hc hs hw.setUniq hw.setOwner (hw.setLen old ho)
  · rw [← hok]; exact mod_frame hw.wf ho hc hs
  · rw [← hok]; exact mod_isSetRow hw.wf ho hc ht

theorem setAddKey_other {db : DB} {k : Bytes} {old : KeyRow} (h : db.findKey k = some old)
    (ht : old.ty ≠ TSet) (now : Int) : setAddKey db k now = .error .keyType := by
  simp only [setAddKey, keyUpsert_other h ht]

/-- `sqlAdd2` on a member: `on conflict do nothing` -/
theorem setInsertRow_mem {db : DB} {id : Int} {e : Bytes} (h : e ∈ setElems db id) :
    setInsertRow db id e = none := by
  have : db.sets.any (fun r => r.kid == id && r.elem == e) = true := by
    rw [any_eq_mem_setElems, List.contains_iff_mem]; exact h
  simp [setInsertRow, this]

/-- `sqlAdd2` on a new element: one row more, the trigger adds one to the cached length -/
theorem setInsertRow_new {db : DB} (hw : SetWF db) {k : Bytes} {id : Int} {et : Option Int}
    (hrow : IsSetRow db k id et) {e : Bytes} (h : e ∉ setElems db id) :
    ∃ db', setInsertRow db id e = some db' ∧ SetWF db' ∧ Frame db db' k ∧ IsSetRow db' k id et ∧
      setElems db' id = sinsert (setElems db id) e := by
  obtain ⟨r, hf, hid, hty, het⟩ := hrow
  obtain ⟨hr, hrk⟩ := findKey_mem hf
  subst hid
  let row : SetRow := { rowid := db.nextSetRowid, kid := r.id, elem := e }
  let r' : KeyRow := { r with len := r.len.map (· + 1) }
  have hc : core r' = core r := rfl
  have hany : db.sets.any (fun x => x.kid == r.id && x.elem == e) = false := by
    rw [any_eq_mem_setElems]
    simpa using h
  have heq : setInsertRow db r.id e = some (modDb db r.id r' (db.sets ++ [row])) := by
    simp only [setInsertRow, hany, Bool.false_eq_true, if_false]
    congr 1
    exact updKey_const (db := { db with sets := db.sets ++ [row] }) hw.ids hr _
  have hs : ∀ j, j ≠ r.id → (db.sets ++ [row]).filter (fun x => x.kid == j)
      = db.sets.filter (fun x => x.kid == j) := by
    intro j hj
    have : (r.id == j) = false := by simpa using fun h : r.id = j => hj h.symm
    simp [List.filter_append, row, this]
  have hw' : SetWF (modDb db r.id r' (db.sets ++ [row])) := by
    refine mod_setwf hw hr hc hs ?_ ?_ ?_
    · rw [List.map_append, List.nodup_append]
      refine ⟨hw.setUniq, by simp, ?_⟩
      intro a ha b hb
      simp only [List.map_cons, List.map_nil, List.mem_singleton] at hb
      obtain ⟨x, hx, rfl⟩ := List.mem_map.1 ha
      intro he
      rw [hb] at he
      simp only [row, Prod.mk.injEq] at he
      exact h (mem_setElems.2 ⟨x, hx, he.1, he.2⟩)
    · intro x hx
      rcases List.mem_append.1 hx with hx | hx
      · exact hw.setOwner x hx
      · have : x = row := by simpa using hx
        rw [this]; exact List.mem_map.2 ⟨r, hr, rfl⟩
    · intro _
      have := hw.setLen r hr hty
      show r.len.map (· + 1) = _
      rw [this]
      simp [List.filter_append, row]
  refine ⟨_, heq, hw', ?_, ?_, ?_⟩
  · rw [← hrk]; exact mod_frame hw.wf hr hc hs
  · rw [← hrk, ← het]; exact mod_isSetRow hw.wf hr hc hty
  · apply ssorted_ext (hw'.elems_sorted _) ((hw.elems_sorted _).sinsert e)
    intro y
    rw [mem_sinsert, mem_setElems, mem_setElems]
    show (∃ x ∈ db.sets ++ [row], _) ↔ _
    constructor
    · rintro ⟨x, hx, hk, he⟩
      rcases List.mem_append.1 hx with hx | hx
      · exact Or.inr ⟨x, hx, hk, he⟩
      · have : x = row := by simpa using hx
        rw [this] at he
        exact Or.inl he.symm
    · rintro (rfl | ⟨x, hx, hk, he⟩)
      · exact ⟨row, by simp, rfl, rfl⟩
      · exact ⟨x, List.mem_append_left _ hx, hk, he⟩

/-- the loop over `sqlAdd2`: the set becomes the union, the count is the number of new members -/
theorem setAddElems_spec {k : Bytes} {id : Int} {et : Option Int} : ∀ (es : List Bytes) (db : DB)
    (n0 : Int), SetWF db → IsSetRow db k id et →
    ∃ db', setAddElems db id es n0
        = (db', n0 + (((sunion (setElems db id) es).length : Int) - (setElems db id).length)) ∧
      SetWF db' ∧ Frame db db' k ∧ IsSetRow db' k id et ∧
      setElems db' id = sunion (setElems db id) es
  | [], db, n0, hw, hrow => ⟨db, by simp [setAddElems, sunion_nil], hw, Frame.refl _ _, hrow, rfl⟩
  | e :: es, db, n0, hw, hrow => by
    by_cases he : e ∈ setElems db id
    · obtain ⟨db', h1, h2, h3, h4, h5⟩ := setAddElems_spec es db n0 hw hrow
      refine ⟨db', ?_, h2, h3, h4, ?_⟩
      · simp only [setAddElems, setInsertRow_mem he]
        rw [h1, sunion_cons, sinsert_of_mem (hw.elems_sorted id) he]
      · rw [h5, sunion_cons, sinsert_of_mem (hw.elems_sorted id) he]
    · obtain ⟨db1, g1, g2, g3, g4, g5⟩ := setInsertRow_new hw hrow he
      obtain ⟨db', h1, h2, h3, h4, h5⟩ := setAddElems_spec es db1 (n0 + 1) g2 g4
      refine ⟨db', ?_, h2, g3.trans h3, h4, ?_⟩
      · simp only [setAddElems, g1]
        rw [h1, sunion_cons, g5]
        have := length_sinsert_of_not_mem e _ he
        congr 1
        omega
      · rw [h5, g5, sunion_cons]

/-- the `insert … select` of the storing variants: without a conflict clause, it succeeds when the
rows are new and pairwise different -/
theorem setInsertAll_spec {k : Bytes} {id : Int} {et : Option Int} : ∀ (es : List Bytes) (db : DB)
    (n0 : Int), SetWF db → IsSetRow db k id et → es.Nodup → (∀ e ∈ es, e ∉ setElems db id) →
    ∃ db', setInsertAll db id es n0 = .ok (db', n0 + es.length) ∧
      SetWF db' ∧ Frame db db' k ∧ IsSetRow db' k id et ∧
      setElems db' id = sunion (setElems db id) es
  | [], db, n0, hw, hrow, _, _ => ⟨db, by simp [setInsertAll], hw, Frame.refl _ _, hrow, rfl⟩
  | e :: es, db, n0, hw, hrow, hnd, hnew => by
    have hnd' := List.nodup_cons.1 hnd
    have he : e ∉ setElems db id := hnew e (by simp)
    obtain ⟨db1, g1, g2, g3, g4, g5⟩ := setInsertRow_new hw hrow he
    have hnew1 : ∀ x ∈ es, x ∉ setElems db1 id := by
      intro x hx
      rw [g5, mem_sinsert]
      rintro (rfl | h)
      · exact hnd'.1 hx
      · exact hnew x (List.mem_cons_of_mem _ hx) h
    obtain ⟨db', h1, h2, h3, h4, h5⟩ := setInsertAll_spec es db1 (n0 + 1) g2 g4 hnd'.2 hnew1
    refine ⟨db', ?_, h2, g3.trans h3, h4, ?_⟩
    · simp only [setInsertAll, g1]
      rw [h1]
      simp only [List.length_cons]
      congr 2
      omega
    · rw [h5, g5, sunion_cons]

/-- whatever it meets, a successful `insert … select` leaves well-formed tables -/
theorem setInsertAll_wf {k : Bytes} {id : Int} {et : Option Int} : ∀ (es : List Bytes) (db : DB)
    (n0 : Int), SetWF db → IsSetRow db k id et →
    ∀ db' n, setInsertAll db id es n0 = .ok (db', n) → SetWF db'
  | [], db, n0, hw, _, db', n, h => by
    simp only [setInsertAll, Except.ok.injEq, Prod.mk.injEq] at h
    rw [← h.1]; exact hw
  | e :: es, db, n0, hw, hrow, db', n, h => by
    by_cases he : e ∈ setElems db id
    · simp [setInsertAll, setInsertRow_mem he] at h
    · obtain ⟨db1, g1, g2, _, g4, _⟩ := setInsertRow_new hw hrow he
      simp only [setInsertAll, g1] at h
      exact setInsertAll_wf es db1 (n0 + 1) g2 g4 db' n h

/-- `delete from rset where kid = ? and <p elem>` followed by an update of the key row that keeps
id, name, type and expiry and sets the cached length to the number of rows left -/
theorem delRows_spec {db : DB} (hw : SetWF db) {k : Bytes} {r r' : KeyRow} (hf : db.findKey k = some r)
    (ht : r.ty = TSet) (p : Bytes → Bool) (hc : core r' = core r)
    (hl : r'.len = some (((db.sets.filter (fun x => !(x.kid == r.id && p x.elem))).filter
      (fun x => x.kid == r.id)).length : Int)) :
    let db' := modDb db r.id r' (db.sets.filter (fun x => !(x.kid == r.id && p x.elem)))
    SetWF db' ∧ Frame db db' k ∧ IsSetRow db' k r.id r.etime ∧
      setElems db' r.id = (setElems db r.id).filter (fun e => !p e) := by
  obtain ⟨hr, hrk⟩ := findKey_mem hf
  have hs : ∀ j, j ≠ r.id →
      (db.sets.filter (fun x => !(x.kid == r.id && p x.elem))).filter (fun x => x.kid == j)
        = db.sets.filter (fun x => x.kid == j) := by
    intro j hj
    rw [List.filter_filter]
    apply List.filter_congr
    intro x _
    by_cases hx : x.kid = j
    · have : ¬ x.kid = r.id := fun h => hj (hx ▸ h)
      simp [this]
    · simp [hx]
  have hw' : SetWF (modDb db r.id r' (db.sets.filter (fun x => !(x.kid == r.id && p x.elem)))) :=
    mod_setwf hw hr hc hs
      (List.Nodup.sublist (List.Sublist.map _ List.filter_sublist) hw.setUniq)
      (fun x hx => hw.setOwner x (List.mem_filter.1 hx).1) (fun _ => hl)
  refine ⟨hw', ?_, ?_, ?_⟩
  · rw [← hrk]; exact mod_frame hw.wf hr hc hs
  · rw [← hrk]; exact mod_isSetRow hw.wf hr hc ht
  · apply ssorted_ext (hw'.elems_sorted _) ((hw.elems_sorted _).filter _)
    intro y
    rw [List.mem_filter, mem_setElems, mem_setElems]
    show (∃ x ∈ db.sets.filter _, _) ↔ _
    constructor
    · rintro ⟨x, hx, hk, he⟩
      obtain ⟨hx1, hx2⟩ := List.mem_filter.1 hx
      refine ⟨⟨x, hx1, hk, he⟩, ?_⟩
      simpa [hk, he] using hx2
    · rintro ⟨⟨x, hx, hk, he⟩, hp⟩
      refine ⟨x, List.mem_filter.2 ⟨hx, ?_⟩, hk, he⟩
      simpa [hk, he] using hp

end Redka.Model.SetRef
