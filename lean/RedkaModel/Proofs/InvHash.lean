/-
  C11 — the hash repository (`internal/rhash`) preserves the invariant.
-/
import RedkaModel.Proofs.InvPrim

namespace Redka.InvP

open Redka Redka.Model

variable {db : DB}

/-- `sqlSet2` + trigger `rhash_on_insert` -/
theorem hashSetRow_wf (h : WF db) {kid : Int} (ho : Owner db kid THash) (f v : Bytes) :
    WF (hashSetRow db kid f v) ∧ Owner (hashSetRow db kid f v) kid THash := by
  unfold hashSetRow
  split
  · -- the field exists: only its value changes
    refine ⟨?_, ho⟩
    refine (WFd.setHashes h _ ?_ ?_ ?_ ?_)
    · intro x hx
      obtain ⟨y, hy, rfl⟩ := List.mem_map.1 hx
      have := h.oH y hy
      split <;> exact this
    · rw [List.pairwise_map]
      refine h.uH.imp ?_
      intro a b hab
      split <;> split <;> exact hab
    · rw [List.pairwise_map]
      refine h.rH.imp ?_
      intro a b hab
      split <;> split <;> exact hab
    · intro o _
      have : ((db.hashes.map (fun r : HashRow => if r.kid == kid && r.field == f then { r with value := v } else r)).filter
          (fun x => x.kid == o.id)).length = (db.hashes.filter (fun x => x.kid == o.id)).length :=
        length_filter_map_kid (·.kid) _
          (fun x => by show (if x.kid == kid && x.field == f then _ else x).kid = x.kid; split <;> rfl)
          db.hashes o.id
      rw [this]; rfl
  · rename_i hany
    have hany : ∀ y ∈ db.hashes, ¬(y.kid = kid ∧ y.field = f) := by
      intro y hy
      have hf : (db.hashes.any fun r => r.kid == kid && r.field == f) = false := by simpa using hany
      have := List.any_eq_false.1 hf y hy
      simpa using this
    have h1 : WFd (fun i => if i = kid then -1 else 0)
        { db with hashes := db.hashes ++
          [({ rowid := db.nextHashRowid, kid := kid, field := f, value := v } : HashRow)] } := by
      refine WFd.setHashes h _ ?_ ?_ ?_ ?_
      · intro x hx
        rcases List.mem_append.1 hx with hx | hx
        · exact h.oH x hx
        · rw [List.mem_singleton] at hx; subst hx; exact ho
      · refine pairwise_append_one h.uH _ (fun y hy heq => hany y hy ?_)
        simpa using heq
      · refine pairwise_append_one h.rH _ (fun y hy => ?_)
        have := rowid_lt_nextHashRowid db y hy
        show y.rowid ≠ db.nextHashRowid
        omega
      · intro o _
        have := count_append (fun y : HashRow => y.kid) db.hashes
          { rowid := db.nextHashRowid, kid := kid, field := f, value := v } o.id
        simp only [cH] at this ⊢
        by_cases e : o.id = kid <;> simp only [e, if_true, if_false] at this ⊢ <;> omega
    have ho1 : Owner { db with hashes := db.hashes ++
        [({ rowid := db.nextHashRowid, kid := kid, field := f, value := v } : HashRow)] } kid THash := ho
    refine ⟨?_, ho1.updKey _ _ (fun _ => ⟨rfl, rfl⟩)⟩
    have := WFd.updKey h1 kid (fun o => { o with len := o.len.map (· + 1) }) 1
      (fun r _ _ => ⟨rfl, rfl, rfl, rfl⟩)
      (fun r hr e hs => absurd hs (ho1.not_string h1 (by decide) r hr e))
    exact this.congr (fun o _ => by
      show (0 : Int) = if o.id = kid then (if o.id = kid then -1 else 0) + 1 else (if o.id = kid then -1 else 0)
      split <;> omega)

theorem hashSetKey_wf (h : WF db) {k : Bytes} {now : Int} {db1 : DB} {r : KeyRow}
    (he : hashSetKey db k now = .ok (db1, r)) : WF db1 ∧ Owner db1 r.id THash := by
  unfold hashSetKey at he
  obtain ⟨d, hd, h1, ho, _⟩ := h.keyUpsert (ty := THash) 0 0 (some 0) (by decide)
    ⟨fun h => absurd h (by decide), fun _ => rfl⟩ (fun h => absurd h (by decide)) he
    (fun _ => ⟨rfl, rfl, rfl, rfl⟩)
    (fun o => ⟨rfl, rfl, rfl, by cases o.len <;> simp⟩)
  exact ⟨h1.congr (fun o _ => by rcases hd with rfl | rfl <;> simp), ho⟩

theorem hashSetTx_wf (h : WF db) {k f v : Bytes} {now : Int} {d : DB}
    (he : hashSetTx db k f v now = .ok d) : WF d := by
  unfold hashSetTx at he
  split at he
  · cases he
  · rename_i db1 r hk
    obtain ⟨h1, ho1⟩ := hashSetKey_wf h hk
    simp only [Except.ok.injEq] at he
    exact he ▸ (hashSetRow_wf h1 ho1 f v).1

theorem hashSet_wf (h : WF db) (k f v : Bytes) (now : Int) : WF (hashSet db k f v now).db := by
  unfold hashSet
  simp only
  split
  · exact h
  · rename_i d he; exact hashSetTx_wf h he

theorem hashSetManyLoop_wf (k : Bytes) (now : Int) (items : List (Bytes × Bytes)) :
    ∀ {db : DB}, WF db → WF (hashSetManyLoop db k now items).2 := by
  induction items with
  | nil => intro db h; exact h
  | cons p rest ih =>
    intro db h
    obtain ⟨f, v⟩ := p
    unfold hashSetManyLoop
    split
    · exact h
    · rename_i d he; exact ih (hashSetTx_wf h he)

theorem hashSetMany_wf (h : WF db) (k : Bytes) (items : List (Bytes × Bytes)) (now : Int) :
    WF (hashSetMany db k items now).db := by
  unfold hashSetMany
  have := hashSetManyLoop_wf k now items h
  simp only
  split <;> (rename_i he; rw [he] at this; exact this)

theorem hashSetNotExists_wf (h : WF db) (k f v : Bytes) (now : Int) :
    WF (hashSetNotExists db k f v now).db := by
  unfold hashSetNotExists
  split
  · exact h
  · split
    · exact h
    · rename_i d he; exact hashSetTx_wf h he

theorem hashIncr_wf (h : WF db) (k f : Bytes) (d now : Int) : WF (hashIncr db k f d now).db := by
  unfold hashIncr
  simp only
  split
  · exact h
  · split
    · exact h
    · rename_i dd he; exact hashSetTx_wf h he

theorem hashIncrFloat_wf (h : WF db) (k f : Bytes) (d : Dyadic) (now : Int) : WF (hashIncrFloat db k f d now).db := by
  unfold hashIncrFloat
  simp only
  split
  · exact h
  · exact h
  · split
    · split <;> exact h
    · split
      · exact h
      · rename_i dd he; exact hashSetTx_wf h he

/-- delete some fields of one hash, then `len = len - n` on its key -/
theorem hashRemove_wf (h : WF db) {kid : Int} (ho : Owner db kid THash) (q : HashRow → Bool)
    (f : KeyRow → KeyRow)
    (hf : ∀ r ∈ db.keys, r.id = kid → (f r).id = r.id ∧ (f r).key = r.key ∧ (f r).ty = r.ty ∧
      (f r).len = r.len.map (· - ((db.hashes.filter (fun x => x.kid == kid && q x)).length : Int))) :
    WF (DB.updKey { db with hashes := db.hashes.filter (fun x => !(x.kid == kid && q x)) } kid f) := by
  have h1 : WFd (fun i => if i = kid then ((db.hashes.filter (fun x => x.kid == kid && q x)).length : Int) else 0)
      { db with hashes := db.hashes.filter (fun x => !(x.kid == kid && q x)) } := by
    refine WFd.setHashes h _ (fun x hx => h.oH x (List.mem_filter.1 hx).1) (h.uH.filter _) (h.rH.filter _) ?_
    intro o _
    have := count_remove (·.kid) q db.hashes kid o.id
    simp only [cH]
    omega
  have ho1 : Owner { db with hashes := db.hashes.filter (fun x => !(x.kid == kid && q x)) } kid THash := ho
  have := WFd.updKey h1 kid f (-((db.hashes.filter (fun x => x.kid == kid && q x)).length : Int))
    (fun r hr e => by
      obtain ⟨a, b, c, d⟩ := hf r hr e
      exact ⟨a, b, c, d⟩)
    (fun r hr e hs => absurd hs (ho1.not_string h1 (by decide) r hr e))
  exact this.congr (fun o _ => by
    show (0 : Int) = if o.id = kid then (if o.id = kid then _ else 0) + -_ else (if o.id = kid then _ else 0)
    split <;> omega)

theorem hashDelete_wf (h : WF db) (k : Bytes) (fs : List Bytes) (now : Int) :
    WF (hashDelete db k fs now).db := by
  unfold hashDelete
  split
  · exact h
  · rename_i r hl
    simp only
    split
    · exact h
    · exact hashRemove_wf h (liveKeyT_owner hl) (fun x => fs.contains x.field) _
        (fun _ _ _ => ⟨rfl, rfl, rfl, rfl⟩)

end Redka.InvP
