/-
  `internal/rkey` against the abstract keyspace: the refinement of each type-agnostic key
  operation (count, delete, flush, exists, expire, get, keys, len, persist, random, rename,
  renameNX) and the lemmas about `delete from rkey where …`, `update rkey … where id = ?` and
  `update or replace rkey set key = ?` that they rest on.

  Reusable parts: `abs_eq_map` (under `DB.WF` the abstraction is the sorted image of the live key
  rows), `KHolder` (the three things a name can be for a type-agnostic operation), `abs_retime`
  (an `update rkey` that keeps id, name and type), `get_abs_dkw` / `dkw_wf` (any
  `delete from rkey where p`, with or without `foreign_keys`), `abs_rename` (the rename statement).
-/
import RedkaModel.Proofs.Str
import RedkaModel.Proofs.Clean
import RedkaModel.Props.C18
import RedkaModel.Proofs.NoTrace

namespace Redka.Model

open Redka Redka.Spec Redka.DB Redka.Scan

/-! ### generic list facts -/

theorem filterMap_eq_map_of {α β : Type} (f : α → Option β) (g : α → β) : ∀ (l : List α),
    (∀ a ∈ l, f a = some (g a)) → l.filterMap f = l.map g
  | [], _ => rfl
  | a :: l, h => by
    rw [List.filterMap_cons, h a (by simp), List.map_cons,
      filterMap_eq_map_of f g l (fun b hb => h b (List.mem_cons_of_mem _ hb))]

theorem insertSortedBy_map {α β : Type} (lt : α → α → Bool) (lt' : β → β → Bool) (f : α → β)
    (h : ∀ a b, lt' (f a) (f b) = lt a b) (x : α) : ∀ (l : List α),
    insertSortedBy lt' (f x) (l.map f) = (insertSortedBy lt x l).map f
  | [] => rfl
  | y :: ys => by
    simp only [List.map_cons, insertSortedBy, h]
    split
    · rfl
    · rw [List.map_cons, insertSortedBy_map lt lt' f h x ys]

/-- sorting commutes with a map that carries the order along -/
theorem sortBy_map {α β : Type} (lt : α → α → Bool) (lt' : β → β → Bool) (f : α → β)
    (h : ∀ a b, lt' (f a) (f b) = lt a b) : ∀ (l : List α),
    sortBy lt' (l.map f) = (sortBy lt l).map f
  | [] => rfl
  | y :: ys => by
    have ih := sortBy_map lt lt' f h ys
    simp only [sortBy, List.map_cons, List.foldr_cons] at ih ⊢
    rw [ih, insertSortedBy_map lt lt' f h]

/-- two strictly sorted association lists with the same members are the same list -/
theorem sorted_mem_ext {β : Type} {a b : List (Bytes × β)} (ha : Sorted a) (hb : Sorted b)
    (h : ∀ x, x ∈ a ↔ x ∈ b) : a = b := by
  apply sorted_ext ha hb
  intro k
  apply Option.ext
  intro v
  rw [aget_eq_some_iff ha.nodup_keys, aget_eq_some_iff hb.nodup_keys, h]

theorem length_filter_perm {α : Type} {l l' : List α} (h : l.Perm l') (q : α → Bool) :
    (l.filter q).length = (l'.filter q).length := (h.filter q).length_eq

/-! ### the abstraction as the sorted image of the live rows -/

/-- the keyspace entry a stored key row stands for (the default value is never used under `DB.WF`) -/
def entryOf (db : DB) (r : KeyRow) : Bytes × Entry :=
  (r.key, ⟨(absVal db r).getD (.str []), r.etime⟩)

/-- `select … from rkey where etime is null or etime > ?` -/
def liveRows (db : DB) (now : Int) : List KeyRow := db.keys.filter (fun r => r.live now)

/-- the typed value of a row has the type the row says -/
theorem absVal_ty {db : DB} {r : KeyRow} {v : SVal} (h : absVal db r = some v) : v.ty = r.ty := by
  unfold absVal at h
  split at h
  · rename_i ht
    have ht : r.ty = TString := by simpa using ht
    cases hf : db.strs.find? (fun s => s.kid == r.id) with
    | none => simp [hf] at h
    | some s => simp [hf] at h; subst h; rw [ht]; rfl
  · split at h
    · rename_i ht; have ht : r.ty = TList := by simpa using ht
      cases h; rw [ht]; rfl
    · split at h
      · rename_i ht; have ht : r.ty = TSet := by simpa using ht
        cases h; rw [ht]; rfl
      · split at h
        · rename_i ht; have ht : r.ty = THash := by simpa using ht
          cases h; rw [ht]; rfl
        · split at h
          · rename_i ht; have ht : r.ty = TZSet := by simpa using ht
            cases h; rw [ht]; rfl
          · cases h

/-- under `DB.WF` every stored key row has a typed value -/
theorem absVal_some {db : DB} (hw : db.WF) {r : KeyRow} (hr : r ∈ db.keys) :
    ∃ v, absVal db r = some v := by
  by_cases ht : r.ty = TString
  · obtain ⟨s, hs, hk⟩ := hw.strRow r hr ht
    rw [absVal_str ht]
    cases hfs : db.strs.find? (fun s => s.kid == r.id) with
    | none =>
      rw [List.find?_eq_none] at hfs
      exact absurd (by simp [hk]) (hfs s hs)
    | some s' => exact ⟨_, rfl⟩
  · obtain ⟨v, hv, _⟩ := absVal_nonstr (db := db) ht (hw.tyOk r hr)
    exact ⟨v, hv⟩

/-- the value depends on the row only through its id and type -/
theorem absVal_id_ty {db : DB} {r r' : KeyRow} (hid : r'.id = r.id) (hty : r'.ty = r.ty) :
    absVal db r' = absVal db r := by
  unfold absVal Model.listRows Model.setRows Model.hashRows
  rw [hid, hty]

theorem entryOf_eq {db : DB} {r : KeyRow} {v : SVal} (h : absVal db r = some v) :
    entryOf db r = (r.key, ⟨v, r.etime⟩) := by
  simp [entryOf, h]

/-- **Under `DB.WF` the abstraction at `now` is the live rows of `rkey`, each with its typed value,
sorted by name.** -/
theorem abs_eq_map {db : DB} (hw : db.WF) (now : Int) :
    abs now db = sortBy (fun a b => bytesLt a.1 b.1) ((liveRows db now).map (entryOf db)) := by
  unfold abs liveRows
  simp only
  congr 1
  apply filterMap_eq_map_of
  intro r hr
  obtain ⟨v, hv⟩ := absVal_some hw (List.mem_filter.1 hr).1
  rw [entryOf_eq hv, hv]; rfl

theorem liveRows_names_nodup {db : DB} (hw : db.WF) (now : Int) :
    (((liveRows db now).map (entryOf db)).map (·.1)).Nodup := by
  rw [List.map_map]
  exact List.Nodup.sublist (List.Sublist.map _ List.filter_sublist) hw.names

theorem mem_abs {db : DB} (hw : db.WF) (now : Int) (x : Bytes × Entry) :
    x ∈ abs now db ↔ ∃ r ∈ db.keys, r.live now = true ∧ entryOf db r = x := by
  rw [abs_eq_map hw, mem_sortBy, List.mem_map]
  simp only [liveRows, List.mem_filter, and_assoc]

theorem abs_perm {db : DB} (hw : db.WF) (now : Int) :
    (abs now db).Perm ((liveRows db now).map (entryOf db)) := by
  rw [abs_eq_map hw]; exact Clean.perm_sortBy _ _

/-- counting the visible keys whose name satisfies `q` is counting the live rows of `rkey` -/
theorem count_abs {db : DB} (hw : db.WF) (now : Int) (q : Bytes → Bool) :
    ((abs now db).filter (fun p => q p.1)).length
      = (db.keys.filter (fun r => q r.key && r.live now)).length := by
  rw [length_filter_perm (abs_perm hw now), List.filter_map, List.length_map]
  unfold liveRows
  rw [List.filter_filter]
  rfl

theorem length_abs {db : DB} (hw : db.WF) (now : Int) :
    (abs now db).length = (liveRows db now).length := by
  rw [(abs_perm hw now).length_eq, List.length_map]

/-! ### what a name is, for a type-agnostic operation -/

/-- The three things a name can be at `now`, each with what the guarded lookup (`sqlGet` of
rkey) and the abstraction make of it. -/
inductive KHolder (now : Int) (db : DB) (k : Bytes) : Prop
  | absent (h : db.findKey k = none) (hg : get (abs now db) k = none)
      (hlk : db.liveKey k now = none)
  | stale (r : KeyRow) (h : db.findKey k = some r) (hl : r.live now = false)
      (hg : get (abs now db) k = none) (hlk : db.liveKey k now = none)
  | live (r : KeyRow) (v : SVal) (h : db.findKey k = some r) (hl : r.live now = true)
      (hv : absVal db r = some v) (hty : v.ty = r.ty)
      (hg : get (abs now db) k = some ⟨v, r.etime⟩) (hlk : db.liveKey k now = some r)

theorem kholder {db : DB} (hw : db.WF) (now : Int) (k : Bytes) : KHolder now db k := by
  have hga := get_abs hw.names now k
  have hla := liveKey_eq hw.names k now
  cases hf : db.findKey k with
  | none =>
    rw [hf] at hga hla
    exact .absent hf hga hla
  | some r =>
    rw [hf] at hga hla
    obtain ⟨hm, _⟩ := findKey_mem hf
    cases hl : r.live now with
    | false =>
      refine .stale r hf hl ?_ ?_
      · rw [hga]; simp [rowEntry, hl]
      · rw [hla]; simp [Option.filter, hl]
    | true =>
      obtain ⟨v, hv⟩ := absVal_some hw hm
      refine .live r v hf hl hv (absVal_ty hv) ?_ ?_
      · rw [hga]; simp [rowEntry, hl, hv]
      · rw [hla]; simp [Option.filter, hl]

/-- `select count(id) from rkey where key in (…) and <live>` for one name -/
theorem keyCountRaw_one (db : DB) (k : Bytes) (now : Int) :
    decide (keyCountRaw db [k] now > 0) = (db.liveKey k now).isSome := by
  unfold keyCountRaw liveKey
  have hq : (fun r : KeyRow => [k].contains r.key && r.live now)
      = (fun r => r.key == k && r.live now) := by
    funext r; by_cases h : r.key = k <;> simp [h]
  rw [hq]
  cases hf : db.keys.find? (fun r => r.key == k && r.live now) with
  | none =>
    rw [List.find?_eq_none] at hf
    have : db.keys.filter (fun r => r.key == k && r.live now) = [] := by
      rw [List.filter_eq_nil_iff]; exact hf
    simp [this]
  | some r =>
    have hm := List.mem_of_find?_eq_some hf
    have hp := List.find?_some hf
    have : r ∈ db.keys.filter (fun r => r.key == k && r.live now) := List.mem_filter.2 ⟨hm, hp⟩
    have hpos := List.length_pos_of_mem this
    simp only [Option.isSome_some, decide_eq_true_eq]
    omega

theorem isSome_get_abs {db : DB} (hw : db.WF) (now : Int) (k : Bytes) :
    (get (abs now db) k).isSome = (db.liveKey k now).isSome := by
  rcases kholder hw now k with ⟨_, hg, hlk⟩ | ⟨_, _, _, hg, hlk⟩ | ⟨_, _, _, _, _, _, hg, hlk⟩ <;>
    simp [hg, hlk]

/-! ### results that carry key rows

`Spec.projVal` is a `partial def`, opaque to the kernel; this is the same function by structural
recursion. -/

/-- forget what the abstract keyspace does not track in a key row (id, version, mtime, len) -/
def projKey (r : KeyRow) : KeyRow := { r with id := 0, version := 0, mtime := 0, len := none }

mutual
  def projV : Val → Val
    | .key r => .key (projKey r)
    | .list l => .list (projL l)
    | .nil => .nil
    | .int i => .int i
    | .bool b => .bool b
    | .bytes b => .bytes b
    | .score s => .score s
  def projL : List Val → List Val
    | [] => []
    | v :: vs => projV v :: projL vs
end

theorem projL_eq_map : ∀ (l : List Val), projL l = l.map projV
  | [] => by simp [projL]
  | v :: vs => by simp [projL, projL_eq_map vs]

/-- the model's key row, projected, is the key row the specification reports -/
theorem projV_keyVal {db : DB} {r : KeyRow} {v : SVal} (hv : absVal db r = some v) :
    projV (keyVal r) = Spec.keyVal r.key ⟨v, r.etime⟩ := by
  simp [projV, keyVal, projKey, Spec.keyVal, absVal_ty hv]

theorem projV_keyVal_entryOf {db : DB} (hw : db.WF) {r : KeyRow} (hr : r ∈ db.keys) :
    projV (keyVal r) = Spec.keyVal (entryOf db r).1 (entryOf db r).2 := by
  obtain ⟨v, hv⟩ := absVal_some hw hr
  rw [entryOf_eq hv]; exact projV_keyVal hv

/-- the verdict on one step whose result is read through `f` -/
def RefinesVia (f : Val → Val) (now : Int) (m : Res) (s : SRes) : Prop :=
  m.out.map f = s.out ∧ abs now m.db = purge now s.st

/-! ### reads -/

theorem keyCount_refines {db : DB} (hw : db.WF) (now : Int) (ks : List Bytes) :
    Refines now (keyCount db ks now) (Spec.keyCount (abs now db) ks) := by
  unfold Refines
  simp only [keyCount, Spec.keyCount, Res.ok, Spec.ok, keyCountRaw, purge_abs hw.names, and_true]
  rw [count_abs hw now (fun k => ks.contains k)]

theorem keyExists_refines {db : DB} (hw : db.WF) (now : Int) (k : Bytes) :
    Refines now (keyExists db k now) (Spec.ok (.bool (get (abs now db) k).isSome) (abs now db)) := by
  unfold Refines
  simp only [keyExists, Res.ok, Spec.ok, purge_abs hw.names, and_true]
  rw [keyCountRaw_one, isSome_get_abs hw]

theorem keyGet_refines {db : DB} (hw : db.WF) (now : Int) (k : Bytes) :
    RefinesVia projV now (keyGet db k now) (Spec.keyGet (abs now db) k) := by
  unfold RefinesVia
  rcases kholder hw now k with ⟨_, hg, hlk⟩ | ⟨_, _, _, hg, hlk⟩ | ⟨r, v, h, _, hv, _, hg, hlk⟩
  · simp [keyGet, Spec.keyGet, hg, hlk, Res.err, Spec.er, purge_abs hw.names, Except.map]
  · simp [keyGet, Spec.keyGet, hg, hlk, Res.err, Spec.er, purge_abs hw.names, Except.map]
  · have hk := (findKey_mem h).2
    simp only [keyGet, Spec.keyGet, hg, hlk, Res.ok, Spec.ok, purge_abs hw.names, Except.map,
      and_true]
    rw [projV_keyVal hv, hk]

/-- D06 classifier: some stored row has expired -/
def anyStale (db : DB) (now : Int) : Bool := db.keys.any (fun r => !r.live now)

theorem keyLen_refines {db : DB} (hw : db.WF) {now : Int} (hns : anyStale db now = false) :
    Refines now (keyLen db) (Spec.ok (.int (abs now db).length) (abs now db)) := by
  unfold Refines
  simp only [keyLen, Res.ok, Spec.ok, purge_abs hw.names, and_true]
  rw [length_abs hw]
  have : liveRows db now = db.keys := by
    unfold liveRows
    rw [List.filter_eq_self]
    intro r hr
    simp only [anyStale, List.any_eq_false] at hns
    simpa using hns r hr
  rw [this]

/-- without the classifier: `Len` counts the stored rows, live or not -/
theorem keyLen_counts_rows (db : DB) : (keyLen db).out = .ok (.int db.keys.length) := rfl

theorem keyRandom_refines {db : DB} (hw : db.WF) (now : Int) (o : Option Bytes) :
    RefinesVia projV now (keyRandom db o now)
      (match o with
       | none => if (abs now db).isEmpty then er .notFound (abs now db) else skip (abs now db)
       | some k => match get (abs now db) k with
         | some e => Spec.ok (Spec.keyVal k e) (abs now db)
         | none => skip (abs now db)) := by
  unfold RefinesVia
  cases o with
  | none =>
    have hemp : (db.keys.filter (fun r => r.live now)).isEmpty = (abs now db).isEmpty := by
      have := length_abs hw now
      unfold liveRows at this
      cases h1 : db.keys.filter (fun r => r.live now) <;> cases h2 : abs now db <;>
        simp [h1, h2] at this ⊢
    simp only [keyRandom, hemp]
    cases (abs now db).isEmpty <;>
      simp [Res.err, Spec.er, Spec.skip, purge_abs hw.names, Except.map]
  | some k =>
    have hfind : (db.keys.filter (fun r => r.live now)).find? (fun r => r.key == k)
        = db.liveKey k now := by
      rw [find?_filter']; rfl
    simp only [keyRandom, hfind]
    rcases kholder hw now k with ⟨_, hg, hlk⟩ | ⟨_, _, _, hg, hlk⟩ | ⟨r, v, h, _, hv, _, hg, hlk⟩
    · simp [hg, hlk, Res.err, Spec.skip, purge_abs hw.names, Except.map]
    · simp [hg, hlk, Res.err, Spec.skip, purge_abs hw.names, Except.map]
    · have hk := (findKey_mem h).2
      simp only [hg, hlk, Res.ok, Spec.ok, purge_abs hw.names, Except.map, and_true]
      rw [projV_keyVal hv, hk]

/-! ### pattern listing -/

/-- the order `Spec.sortKeyVals` sorts by -/
def keyValLt (a b : Val) : Bool :=
  match a, b with
  | .key x, .key y => bytesLt x.key y.key
  | _, _ => false

theorem sortKeyVals_list (l : List Val) : sortKeyVals (.list l) = .list (sortBy keyValLt l) := rfl

/-- the guard under which `Spec.check` judges a pattern listing (C18 fixes no meaning outside) -/
def globJudged (p : Bytes) (now : Int) (db : DB) : Bool :=
  wellFormed p && decide (Ascii p) && (abs now db).all (fun e => decide (Ascii e.1))

theorem keyKeys_refines {db : DB} (hw : db.WF) {now : Int} {p : Bytes}
    (hj : globJudged p now db = true) (hb : noBangClass p = true) :
    RefinesVia (fun v => sortKeyVals (projV v)) now (keyKeys db p now)
      (Spec.ok (.list (((abs now db).filter (fun e => globSpec p e.1)).map
        (fun e => Spec.keyVal e.1 e.2))) (abs now db)) := by
  unfold RefinesVia
  simp only [globJudged, Bool.and_eq_true, decide_eq_true_eq, List.all_eq_true] at hj
  obtain ⟨⟨hwf, hap⟩, hnames⟩ := hj
  simp only [keyKeys, Res.ok, Spec.ok, purge_abs hw.names, Except.map, and_true, projV,
    projL_eq_map, sortKeyVals_list, List.map_map]
  congr 2
  -- the rows the model lists, as keyspace entries
  let KV : Bytes × Entry → Val := fun e => Spec.keyVal e.1 e.2
  have hrows : (db.keys.filter (fun r => Glob.sqliteGlob p r.key && r.live now)).map (projV ∘ keyVal)
      = (((liveRows db now).map (entryOf db)).filter (fun e => Glob.sqliteGlob p e.1)).map KV := by
    rw [List.filter_map, List.map_map]
    unfold liveRows
    rw [List.filter_filter]
    have hq : (fun r : KeyRow => ((fun e : Bytes × Entry => Glob.sqliteGlob p e.1) ∘ entryOf db) r
        && r.live now) = (fun r => Glob.sqliteGlob p r.key && r.live now) := by
      funext r; rfl
    rw [hq]
    apply List.map_congr_left
    intro r hr
    exact projV_keyVal_entryOf hw (List.mem_filter.1 hr).1
  rw [hrows, sortBy_map (fun a b => bytesLt a.1 b.1) keyValLt KV (fun _ _ => rfl)]
  congr 1
  have hnd := liveRows_names_nodup hw now
  have hnd' : ((((liveRows db now).map (entryOf db)).filter
      (fun e => Glob.sqliteGlob p e.1)).map (·.1)).Nodup :=
    List.Nodup.sublist (List.Sublist.map _ List.filter_sublist) hnd
  apply sorted_mem_ext (sorted_sortBy hnd') ((sorted_abs hw.names now).filter _)
  intro x
  rw [mem_sortBy, List.mem_filter, List.mem_filter, abs_eq_map hw, mem_sortBy]
  constructor
  · rintro ⟨hx, hg⟩
    have hax : Ascii x.1 := by
      have := hnames x (by rw [abs_eq_map hw, mem_sortBy]; exact hx)
      simpa using this
    rw [← Redka.Props.C18.glob_agree_partial p x.1 hap hax hwf hb]
    exact ⟨hx, hg⟩
  · rintro ⟨hx, hg⟩
    have hax : Ascii x.1 := by
      have := hnames x (by rw [abs_eq_map hw, mem_sortBy]; exact hx)
      simpa using this
    rw [Redka.Props.C18.glob_agree_partial p x.1 hap hax hwf hb]
    exact ⟨hx, hg⟩

/-! ### `update rkey set … where id = ?` -/

/-- with unique ids the statement touches exactly one row -/
theorem updKey_const {db : DB} (hi : (db.keys.map (·.id)).Nodup) {r : KeyRow} (hr : r ∈ db.keys)
    (f : KeyRow → KeyRow) : db.updKey r.id f = db.updKey r.id (fun _ => f r) := by
  unfold updKey
  congr 1
  apply List.map_congr_left
  intro x hx
  by_cases h : x.id = r.id
  · rw [id_inj hi hx hr h]
  · simp [h]

/-- replacing a stored row by one of the same id and type keeps `DB.WF`, provided the names stay
pairwise different -/
theorem updRow_wf {db : DB} (hw : db.WF) {r r' : KeyRow} (hr : r ∈ db.keys) (hid : r'.id = r.id)
    (hty : r'.ty = r.ty) (hnames : ((db.updKey r.id (fun _ => r')).keys.map (·.key)).Nodup) :
    (db.updKey r.id (fun _ => r')).WF := by
  refine ⟨hnames, ?_, ?_, ?_, hw.strKids⟩
  · rw [updKey_ids hw.ids hr hid]; exact hw.ids
  · intro x hx
    rcases mem_updKey hw.ids hr hx with hx | ⟨hx, _⟩
    · rw [hx, hty]; exact hw.tyOk r hr
    · exact hw.tyOk x hx
  · intro x hx hxt
    rcases mem_updKey hw.ids hr hx with hx | ⟨hx, _⟩
    · rw [hx] at hxt ⊢
      rw [hid]; exact hw.strRow r hr (by rw [← hty]; exact hxt)
    · exact hw.strRow x hx hxt

theorem retime_wf {db : DB} (hw : db.WF) {r r' : KeyRow} (hr : r ∈ db.keys) (hid : r'.id = r.id)
    (hk : r'.key = r.key) (hty : r'.ty = r.ty) : (db.updKey r.id (fun _ => r')).WF :=
  updRow_wf hw hr hid hty (by rw [updKey_names hw.ids hr hk]; exact hw.names)

/-- What an `update rkey` that keeps id, name and type of the row stored under `k` does to the
abstract keyspace: the value stays, the expiry becomes that of the new row (and the key is gone
at once when that expiry has passed). -/
theorem abs_retime {db : DB} (hw : db.WF) {k : Bytes} {r r' : KeyRow} {v : SVal}
    (hf : db.findKey k = some r) (hv : absVal db r = some v) (hid : r'.id = r.id)
    (hk : r'.key = r.key) (hty : r'.ty = r.ty) (now : Int) :
    abs now (db.updKey r.id (fun _ => r')) = purge now (put (abs now db) k ⟨v, r'.etime⟩) := by
  obtain ⟨hr, hrk⟩ := findKey_mem hf
  have hw2 := retime_wf hw hr hid hk hty
  have hs := ((sorted_abs hw.names now).put k ⟨v, r'.etime⟩).purge now
  apply abs_ext hw2.names hs
  intro k'
  rw [get_purge ((sorted_abs hw.names now).put k _), get_put,
    findKey_updKey hw.names hw.ids hr hk k', hrk]
  by_cases hkk : k = k'
  · subst hkk
    have hv' : absVal (db.updKey r.id fun _ => r') r' = some v := by
      rw [← hv]; exact absVal_id_ty hid hty
    simp only [beq_self_eq_true, if_true, Option.bind_some, rowEntry, hv', Option.map_some]
    rfl
  · have : (k == k') = false := by simpa using hkk
    simp only [this, Bool.false_eq_true, if_false]
    rw [← get_purge (sorted_abs hw.names now), purge_abs hw.names, get_abs hw.names]
    cases db.findKey k' <;> rfl

theorem keyExpireAt_refines {db : DB} (hw : db.WF) (now : Int) (k : Bytes) (t : Int) :
    Refines now (keyExpireAt db k t now) (Spec.keyExpireAt (abs now db) k t) := by
  unfold Refines
  rcases kholder hw now k with ⟨_, hg, hlk⟩ | ⟨_, _, _, hg, hlk⟩ | ⟨r, v, h, _, hv, _, hg, hlk⟩
  · simp [keyExpireAt, Spec.keyExpireAt, hg, hlk, Res.err, Spec.er, purge_abs hw.names]
  · simp [keyExpireAt, Spec.keyExpireAt, hg, hlk, Res.err, Spec.er, purge_abs hw.names]
  · simp only [keyExpireAt, Spec.keyExpireAt, hg, hlk, Res.ok, Spec.ok, true_and]
    rw [updKey_const hw.ids (findKey_mem h).1]
    exact abs_retime (r' := { r with version := r.version + 1, etime := some t }) hw h hv rfl rfl rfl now

theorem keyPersist_refines {db : DB} (hw : db.WF) (now : Int) (k : Bytes) :
    Refines now (keyPersist db k now) (Spec.keyPersist (abs now db) k) := by
  unfold Refines
  rcases kholder hw now k with ⟨_, hg, hlk⟩ | ⟨_, _, _, hg, hlk⟩ | ⟨r, v, h, _, hv, _, hg, hlk⟩
  · simp [keyPersist, Spec.keyPersist, hg, hlk, Res.err, Spec.er, purge_abs hw.names]
  · simp [keyPersist, Spec.keyPersist, hg, hlk, Res.err, Spec.er, purge_abs hw.names]
  · simp only [keyPersist, Spec.keyPersist, hg, hlk, Res.ok, Spec.ok, true_and]
    rw [updKey_const hw.ids (findKey_mem h).1]
    exact abs_retime (r' := { r with version := r.version + 1, etime := none }) hw h hv rfl rfl rfl now

theorem keyExpireAt_wf {db : DB} (hw : db.WF) (k : Bytes) (t now : Int) :
    (keyExpireAt db k t now).db.WF := by
  unfold keyExpireAt
  split
  · exact hw
  · rename_i r hlk
    have hr : r ∈ db.keys := List.mem_of_find?_eq_some hlk
    show (db.updKey r.id _).WF
    rw [updKey_const hw.ids hr]
    exact retime_wf hw hr rfl rfl rfl

theorem keyPersist_wf {db : DB} (hw : db.WF) (k : Bytes) (now : Int) :
    (keyPersist db k now).db.WF := by
  unfold keyPersist
  split
  · exact hw
  · rename_i r hlk
    have hr : r ∈ db.keys := List.mem_of_find?_eq_some hlk
    show (db.updKey r.id _).WF
    rw [updKey_const hw.ids hr]
    exact retime_wf hw hr rfl rfl rfl

/-! ### `delete from rkey where …` -/

/-- Any `delete from rkey where p` keeps `DB.WF`, with `foreign_keys` on or off. -/
theorem dkw_wf {db : DB} (hw : db.WF) (p : KeyRow → Bool) : (db.deleteKeysWhere p).1.WF := by
  refine ⟨?_, ?_, ?_, ?_, ?_⟩
  · rw [Clean.deleteKeysWhere_keys]
    exact List.Nodup.sublist (List.Sublist.map _ List.filter_sublist) hw.names
  · rw [Clean.deleteKeysWhere_keys]
    exact List.Nodup.sublist (List.Sublist.map _ List.filter_sublist) hw.ids
  · intro r hr
    rw [Clean.deleteKeysWhere_keys] at hr
    exact hw.tyOk r (List.mem_filter.1 hr).1
  · intro r hr hty
    rw [Clean.deleteKeysWhere_keys] at hr
    obtain ⟨hr, hp⟩ := List.mem_filter.1 hr
    have hp : p r = false := by simpa using hp
    obtain ⟨s, hs, hk⟩ := hw.strRow r hr hty
    have hng := Clean.survivor_id_not_gone hw.ids p hr hp
    have : s ∈ (db.deleteKeysWhere p).1.strs.filter (fun x => x.kid == r.id) := by
      rw [Clean.dkw_strs_of hng]; exact List.mem_filter.2 ⟨hs, by simp [hk]⟩
    exact ⟨s, (List.mem_filter.1 this).1, hk⟩
  · cases hfk : db.fk with
    | false => rw [Clean.dkw_off db p hfk]; exact hw.strKids
    | true =>
      rw [Clean.dkw_strs_on db p hfk]
      exact List.Nodup.sublist (List.Sublist.map _ List.filter_sublist) hw.strKids

theorem findKey_dkw {db : DB} (hn : (db.keys.map (·.key)).Nodup) (p : KeyRow → Bool) (k : Bytes) :
    (db.deleteKeysWhere p).1.findKey k = (db.findKey k).filter (fun r => !p r) := by
  unfold findKey
  rw [Clean.deleteKeysWhere_keys, find?_filter', find?_key_and db.keys hn]

/-- a surviving row reads as before (its children are untouched whatever `foreign_keys` is) -/
theorem rowEntry_dkw {db : DB} (hw : db.WF) (p : KeyRow → Bool) (now : Int) {r : KeyRow}
    (hr : r ∈ db.keys) (hp : p r = false) :
    rowEntry now (db.deleteKeysWhere p).1 r = rowEntry now db r := by
  unfold rowEntry
  rw [Clean.absVal_dkw (Clean.survivor_id_not_gone hw.ids p hr hp)]

/-- **The abstraction after any `delete from rkey where p`, pointwise**: a name whose row is
selected is gone, every other name reads as before. Needs unique names and ids only — not
`foreign_keys`: the abstraction reads child rows only through stored key rows. -/
theorem get_abs_dkw {db : DB} (hw : db.WF) (p : KeyRow → Bool) (now : Int) (k : Bytes) :
    get (abs now (db.deleteKeysWhere p).1) k
      = (db.findKey k).bind (fun r => if p r then none else rowEntry now db r) := by
  rw [get_abs (dkw_wf hw p).names, findKey_dkw hw.names]
  cases hf : db.findKey k with
  | none => rfl
  | some r =>
    cases hp : p r with
    | true => simp [Option.filter, hp]
    | false =>
      simp only [Option.filter, hp, Bool.not_false, if_true, Option.bind_some, Bool.false_eq_true,
        if_false]
      exact rowEntry_dkw hw p now (findKey_mem hf).1 hp

theorem purge_filter {s : State} {now : Int} (hp : purge now s = s) (q : Bytes × Entry → Bool) :
    purge now (s.filter q) = s.filter q := by
  have h1 : purge now (s.filter q) = (purge now s).filter q := by
    unfold purge
    rw [List.filter_filter, List.filter_filter]
    congr 1
    funext x
    exact Bool.and_comm _ _
  rw [h1, hp]

theorem keyDelete_refines {db : DB} (hw : db.WF) (now : Int) (ks : List Bytes) :
    Refines now (keyDelete db ks now) (Spec.keyDelete (abs now db) ks) := by
  unfold Refines
  have hsa := sorted_abs hw.names now
  refine ⟨?_, ?_⟩
  · simp only [keyDelete, Spec.keyDelete, Res.ok, Spec.ok, Clean.deleteKeysWhere_snd]
    rw [count_abs hw now (fun k => ks.contains k)]
  · simp only [keyDelete, Spec.keyDelete, Res.ok, Spec.ok]
    rw [purge_filter (purge_abs hw.names now)]
    apply sorted_ext (sorted_abs (dkw_wf hw _).names now) (hsa.filter _)
    intro k
    have h1 := get_abs_dkw hw (fun r => ks.contains r.key && r.live now) now k
    have h2 := get_abs hw.names now k
    unfold Spec.get at h1 h2
    rw [h1, aget_filter hsa, h2]
    cases hf : db.findKey k with
    | none => rfl
    | some r =>
      have hrk := (findKey_mem hf).2
      simp only [Option.bind_some, hrk]
      by_cases hc : ks.contains k = true
      · cases hl : r.live now with
        | false => simp [rowEntry, hl]
        | true => cases rowEntry now db r <;> simp
      · have hc' : k ∉ ks := by simpa using hc
        cases rowEntry now db r <;> simp [hc']

theorem keyDeleteAll_refines (db : DB) (now : Int) :
    Refines now (keyDeleteAll db false) (Spec.ok .nil []) := by
  unfold Refines
  refine ⟨rfl, ?_⟩
  have : (keyDeleteAll db false).db.keys = [] := by
    show (db.deleteKeysWhere (fun _ => true)).1.keys = []
    rw [Clean.deleteKeysWhere_keys]; simp
  unfold abs
  rw [this]
  rfl

/-! ### `update or replace rkey set key = ?, … where key = ?` -/

theorem liveKey_some {db : DB} {k : Bytes} {now : Int} {r : KeyRow} (h : db.liveKey k now = some r) :
    r ∈ db.keys ∧ r.key = k ∧ r.live now = true := by
  unfold liveKey at h
  have := List.find?_some h
  simp only [Bool.and_eq_true, beq_iff_eq] at this
  exact ⟨List.mem_of_find?_eq_some h, this.1, this.2⟩

/-- moving a stored row to a name that is not stored keeps the names pairwise different -/
theorem move_names {db : DB} (hn : (db.keys.map (·.key)).Nodup) (hi : (db.keys.map (·.id)).Nodup)
    {r r' : KeyRow} (hr : r ∈ db.keys) (hfree : db.findKey r'.key = none) :
    ((db.updKey r.id (fun _ => r')).keys.map (·.key)).Nodup := by
  rw [updKey_keys hi hr, List.map_map]
  unfold List.Nodup at hn ⊢
  rw [List.pairwise_map] at hn ⊢
  refine List.Pairwise.imp_of_mem ?_ hn
  intro a b ha hb hab
  have hfa := findKey_eq_none.1 hfree a ha
  have hfb := findKey_eq_none.1 hfree b hb
  simp only [Function.comp]
  by_cases h1 : a = r <;> by_cases h2 : b = r
  · subst h1; subst h2; exact absurd rfl hab
  · simp only [h1, h2, if_true, if_false]; exact fun h => hfb h.symm
  · simp only [h1, h2, if_true, if_false]; exact hfa
  · simp only [h1, h2, if_false]; exact hab

/-- lookup by name after moving the row `r` to the free name of `r'` -/
theorem findKey_move {db : DB} (hn : (db.keys.map (·.key)).Nodup) (hi : (db.keys.map (·.id)).Nodup)
    {r r' : KeyRow} (hr : r ∈ db.keys) (hfree : db.findKey r'.key = none) (k' : Bytes) :
    (db.updKey r.id (fun _ => r')).findKey k'
      = if r'.key == k' then some r' else if r.key == k' then none else db.findKey k' := by
  have hn' := move_names hn hi hr hfree
  have hr'mem : r' ∈ (db.updKey r.id (fun _ => r')).keys := by
    rw [updKey_keys hi hr]; exact List.mem_map.2 ⟨r, hr, by simp⟩
  apply Option.ext
  intro x
  rw [findKey_eq_some_iff hn']
  by_cases h1 : r'.key = k'
  · simp only [h1, beq_self_eq_true, if_true, Option.some.injEq]
    constructor
    · rintro ⟨hx, hxk⟩
      rcases mem_updKey hi hr hx with h | ⟨h, _⟩
      · exact h.symm
      · exact absurd (hxk.trans h1.symm) (findKey_eq_none.1 hfree x h)
    · rintro rfl; exact ⟨hr'mem, h1⟩
  · have h1' : (r'.key == k') = false := by simpa using h1
    simp only [h1', Bool.false_eq_true, if_false]
    by_cases h2 : r.key = k'
    · simp only [h2, beq_self_eq_true, if_true]
      constructor
      · rintro ⟨hx, hxk⟩
        rcases mem_updKey hi hr hx with h | ⟨h, hne⟩
        · exact absurd (h ▸ hxk) h1
        · exact absurd (key_inj hn h hr (hxk.trans h2.symm)) hne
      · intro h; cases h
    · have h2' : (r.key == k') = false := by simpa using h2
      simp only [h2', Bool.false_eq_true, if_false]
      rw [findKey_eq_some_iff hn]
      constructor
      · rintro ⟨hx, hxk⟩
        rcases mem_updKey hi hr hx with h | ⟨h, _⟩
        · exact absurd (h ▸ hxk) h1
        · exact ⟨h, hxk⟩
      · rintro ⟨hx, hxk⟩
        refine ⟨?_, hxk⟩
        rw [updKey_keys hi hr]
        refine List.mem_map.2 ⟨x, hx, ?_⟩
        have : x ≠ r := fun h => h2 (h ▸ hxk)
        simp [this]

/-- The rename statement, row level. `r` is the row stored under `k`; the row stored under `nk`
(live or expired, of any type), if there is one, is deleted — with its children when
`foreign_keys` is on — and `r` is replaced by `r'` (same id and type) under the name `nk`. -/
theorem rename_core {db : DB} (hw : db.WF) {k nk : Bytes} (hne : k ≠ nk) {r : KeyRow}
    (hr : r ∈ db.keys) (hrk : r.key = k) (r' : KeyRow) (hid : r'.id = r.id) (hty : r'.ty = r.ty)
    (hk : r'.key = nk) :
    let db2 := ((db.deleteKeysWhere (fun x => x.key == nk && x.id != r.id)).1).updKey r.id
      (fun _ => r')
    db2.WF ∧
    (∀ k', db2.findKey k' = if nk == k' then some r' else if k == k' then none else db.findKey k') ∧
    (∀ x ∈ db.keys, x.key ≠ nk → absVal db2 x = absVal db x) ∧
    absVal db2 r' = absVal db r := by
  intro db2
  let p : KeyRow → Bool := fun x => x.key == nk && x.id != r.id
  let db1 := (db.deleteKeysWhere p).1
  have hw1 : db1.WF := dkw_wf hw p
  have hpr : p r = false := by
    have : (r.key == nk) = false := by rw [hrk]; simpa using hne
    simp [p, this]
  have hpx : ∀ x ∈ db.keys, x.key ≠ nk → p x = false := by
    intro x _ hx
    have : (x.key == nk) = false := by simpa using hx
    simp [p, this]
  have hr1 : r ∈ db1.keys := by
    show r ∈ (db.deleteKeysWhere p).1.keys
    rw [Clean.deleteKeysWhere_keys]; exact List.mem_filter.2 ⟨hr, by simp [hpr]⟩
  have hf1 : ∀ k', db1.findKey k' = if nk == k' then none else db.findKey k' := by
    intro k'
    show (db.deleteKeysWhere p).1.findKey k' = _
    rw [findKey_dkw hw.names]
    cases hf : db.findKey k' with
    | none => simp
    | some x =>
      obtain ⟨hx, hxk⟩ := findKey_mem hf
      by_cases hkk : nk = k'
      · have hxid : x.id ≠ r.id := by
          intro he
          have := id_inj hw.ids hx hr he
          exact hne (by rw [← hrk, ← this, hxk, hkk])
        have : p x = true := by simp [p, hxk, hkk, hxid]
        simp [Option.filter, this, hkk]
      · have : p x = false := hpx x hx (by rw [hxk]; exact fun h => hkk h.symm)
        have hkk' : (nk == k') = false := by simpa using hkk
        simp [Option.filter, this, hkk']
  have hfree : db1.findKey r'.key = none := by rw [hf1, hk]; simp
  have hw2 : db2.WF := updRow_wf hw1 hr1 hid hty (move_names hw1.names hw1.ids hr1 hfree)
  refine ⟨hw2, ?_, ?_, ?_⟩
  · intro k'
    show (db1.updKey r.id (fun _ => r')).findKey k' = _
    rw [findKey_move hw1.names hw1.ids hr1 hfree, hk, hrk, hf1]
    by_cases h1 : nk = k'
    · simp [h1]
    · have : (nk == k') = false := by simpa using h1
      simp [this]
  · intro x hx hxk
    show absVal db1 x = absVal db x
    exact Clean.absVal_dkw (Clean.survivor_id_not_gone hw.ids p hx (hpx x hx hxk))
  · show absVal db1 r' = absVal db r
    rw [absVal_id_ty hid hty]
    exact Clean.absVal_dkw (Clean.survivor_id_not_gone hw.ids p hr hpr)

theorem get_put_del (s : State) (k nk : Bytes) (e : Entry) (k' : Bytes) :
    get (put (del s k) nk e) k'
      = if nk == k' then some e else if k == k' then none else get s k' := by
  rw [get_put, get_del]

theorem purge_del {s : State} {now : Int} (hp : purge now s = s) (k : Bytes) :
    purge now (del s k) = del s k := purge_filter hp _

/-- **What the rename statement does to the abstract keyspace**: the whole value and the expiry
move from `k` to `nk`; whatever was stored under `nk` — visible or an expired leftover, of any
type — is replaced. Unique names and ids suffice (no `foreign_keys`, no staleness condition). -/
theorem abs_rename {db : DB} (hw : db.WF) {k nk : Bytes} (hne : k ≠ nk) {r : KeyRow} {v : SVal}
    {now : Int} (hf : db.findKey k = some r) (hl : r.live now = true) (hv : absVal db r = some v)
    (r' : KeyRow) (hid : r'.id = r.id) (hty : r'.ty = r.ty) (hk : r'.key = nk)
    (het : r'.etime = r.etime) :
    let db2 := ((db.deleteKeysWhere (fun x => x.key == nk && x.id != r.id)).1).updKey r.id
      (fun _ => r')
    db2.WF ∧ abs now db2 = put (del (abs now db) k) nk ⟨v, r.etime⟩ := by
  intro db2
  obtain ⟨hr, hrk⟩ := findKey_mem hf
  obtain ⟨hw2, hfind, hframe, hself⟩ := rename_core hw hne hr hrk r' hid hty hk
  refine ⟨hw2, ?_⟩
  have hsa := sorted_abs hw.names now
  apply abs_ext hw2.names ((hsa.del k).put nk _)
  intro k'
  rw [get_put_del, hfind]
  by_cases h1 : nk = k'
  · subst h1
    have hl' : r'.live now = true := by unfold KeyRow.live at hl ⊢; rw [het]; exact hl
    simp only [beq_self_eq_true, if_true, Option.bind_some, rowEntry, hl']
    rw [show absVal db2 r' = some v from hself.trans hv, het]; rfl
  · have h1' : (nk == k') = false := by simpa using h1
    simp only [h1', Bool.false_eq_true, if_false]
    by_cases h2 : k = k'
    · simp [h2]
    · have h2' : (k == k') = false := by simpa using h2
      simp only [h2', Bool.false_eq_true, if_false]
      rw [get_abs hw.names]
      cases hfk : db.findKey k' with
      | none => rfl
      | some x =>
        obtain ⟨hx, hxk⟩ := findKey_mem hfk
        simp only [Option.bind_some, rowEntry]
        rw [hframe x hx (by rw [hxk]; exact fun h => h1 h.symm)]

/-- the row the statement writes -/
def renamedRow (r : KeyRow) (nk : Bytes) (now : Int) : KeyRow :=
  { r with key := nk, version := r.version + 1, mtime := now }

theorem renameStmt_eq {db : DB} (hw : db.WF) {k nk : Bytes} {now : Int} {r : KeyRow}
    (hlk : db.liveKey k now = some r) (hne : k ≠ nk) :
    renameStmt db k nk now
      = ((db.deleteKeysWhere (fun x => x.key == nk && x.id != r.id)).1).updKey r.id
          (fun _ => renamedRow r nk now) := by
  obtain ⟨hr, hrk, _⟩ := liveKey_some hlk
  have hkn : (r.key == nk) = false := by rw [hrk]; simpa using hne
  have hr1 : r ∈ (db.deleteKeysWhere (fun x => x.key == nk && x.id != r.id)).1.keys := by
    rw [Clean.deleteKeysWhere_keys]; exact List.mem_filter.2 ⟨hr, by simp [hkn]⟩
  simp only [renameStmt, hlk]
  exact updKey_const (dkw_wf hw _).ids hr1 _

theorem renameStmt_abs {db : DB} (hw : db.WF) {k nk : Bytes} {now : Int} {r : KeyRow} {v : SVal}
    (hf : db.findKey k = some r) (hl : r.live now = true) (hv : absVal db r = some v)
    (hlk : db.liveKey k now = some r) (hne : k ≠ nk) :
    (renameStmt db k nk now).WF ∧
      abs now (renameStmt db k nk now) = put (del (abs now db) k) nk ⟨v, r.etime⟩ := by
  rw [renameStmt_eq hw hlk hne]
  exact abs_rename hw hne hf hl hv (renamedRow r nk now) rfl rfl rfl rfl

theorem renameStmt_wf {db : DB} (hw : db.WF) (k nk : Bytes) (now : Int) (hne : k ≠ nk) :
    (renameStmt db k nk now).WF := by
  cases hlk : db.liveKey k now with
  | none => simp only [renameStmt, hlk]; exact hw
  | some r =>
    obtain ⟨hr, hrk, _⟩ := liveKey_some hlk
    rw [renameStmt_eq hw hlk hne]
    exact (rename_core hw hne hr hrk (renamedRow r nk now) rfl rfl rfl).1

/-- D18 classifier: the source name is the empty byte string and is visible -/
def emptyLive (db : DB) (k : Bytes) (now : Int) : Bool := k.isEmpty && (db.liveKey k now).isSome

/-- what the specification's state becomes after a rename, purged -/
theorem purge_moved {db : DB} (hw : db.WF) (now : Int) (k nk : Bytes) {e : Entry}
    (he : liveAt now e.etime = true) :
    purge now (put (del (abs now db) k) nk e) = put (del (abs now db) k) nk e :=
  purge_put_live ((sorted_abs hw.names now).del k) (purge_del (purge_abs hw.names now) k) nk he

theorem keyRename_refines {db : DB} (hw : db.WF) {now : Int} {k : Bytes}
    (hd18 : emptyLive db k now = false) (nk : Bytes) :
    Refines now (keyRename db k nk now) (Spec.keyRename (abs now db) k nk) := by
  unfold Refines
  rcases kholder hw now k with ⟨_, hg, hlk⟩ | ⟨_, _, _, hg, hlk⟩ | ⟨r, v, h, hl, hv, hty, hg, hlk⟩
  · simp [keyRename, Spec.keyRename, hg, hlk, Res.err, Spec.er, purge_abs hw.names]
  · simp [keyRename, Spec.keyRename, hg, hlk, Res.err, Spec.er, purge_abs hw.names]
  · have hrk := (findKey_mem h).2
    have hke : r.key.isEmpty = false := by
      rw [hrk]; simpa [emptyLive, hlk] using hd18
    have hlive : liveAt now r.etime = true := hl
    by_cases hkk : k = nk
    · subst hkk
      simp [keyRename, Spec.keyRename, hg, hlk, hke, Res.ok, Spec.ok, purge_abs hw.names]
    · have hkk' : (k == nk) = false := by simpa using hkk
      obtain ⟨_, hren⟩ := renameStmt_abs hw h hl hv hlk hkk
      rcases kholder hw now nk with ⟨_, hg2, hlk2⟩ | ⟨_, _, _, hg2, hlk2⟩ |
        ⟨r2, v2, _, _, _, hty2, hg2, hlk2⟩
      · simp only [keyRename, Spec.keyRename, hg, hlk, hke, hkk', hg2, hlk2, Res.ok, Spec.ok,
          Bool.false_eq_true, if_false, true_and]
        rw [hren, purge_moved hw now k nk hlive]
      · simp only [keyRename, Spec.keyRename, hg, hlk, hke, hkk', hg2, hlk2, Res.ok, Spec.ok,
          Bool.false_eq_true, if_false, true_and]
        rw [hren, purge_moved hw now k nk hlive]
      · by_cases hty12 : r.ty = r2.ty
        · have h1 : (r.ty != r2.ty) = false := by simp [hty12]
          have h2 : (v2.ty != v.ty) = false := by simp [hty, hty2, hty12]
          simp only [keyRename, Spec.keyRename, hg, hlk, hke, hkk', hg2, hlk2, h1, h2, Res.ok,
            Spec.ok, Bool.false_eq_true, if_false, true_and]
          rw [hren, purge_moved hw now k nk hlive]
        · have h1 : (r.ty != r2.ty) = true := by simp [hty12]
          have h2 : (v2.ty != v.ty) = true := by
            simp only [hty, hty2, bne_iff_ne, ne_eq]; exact fun h => hty12 h.symm
          simp [keyRename, Spec.keyRename, hg, hlk, hke, hkk', hg2, hlk2, h1, h2, Res.err,
            Spec.er, purge_abs hw.names]

theorem keyRenameNX_refines {db : DB} (hw : db.WF) {now : Int} {k : Bytes}
    (hd18 : emptyLive db k now = false) (nk : Bytes) :
    Refines now (keyRenameNX db k nk now) (Spec.keyRenameNX (abs now db) k nk) := by
  unfold Refines
  rcases kholder hw now k with ⟨_, hg, hlk⟩ | ⟨_, _, _, hg, hlk⟩ | ⟨r, v, h, hl, hv, hty, hg, hlk⟩
  · simp [keyRenameNX, Spec.keyRenameNX, hg, hlk, Res.err, Spec.er, purge_abs hw.names]
  · simp [keyRenameNX, Spec.keyRenameNX, hg, hlk, Res.err, Spec.er, purge_abs hw.names]
  · have hrk := (findKey_mem h).2
    have hke : r.key.isEmpty = false := by
      rw [hrk]; simpa [emptyLive, hlk] using hd18
    have hlive : liveAt now r.etime = true := hl
    by_cases hkk : k = nk
    · subst hkk
      simp [keyRenameNX, Spec.keyRenameNX, hg, hlk, hke, Res.ok, Spec.ok, purge_abs hw.names]
    · have hkk' : (k == nk) = false := by simpa using hkk
      obtain ⟨_, hren⟩ := renameStmt_abs hw h hl hv hlk hkk
      have hcnt := keyCountRaw_one db nk now
      rcases kholder hw now nk with ⟨_, hg2, hlk2⟩ | ⟨_, _, _, hg2, hlk2⟩ |
        ⟨r2, v2, _, _, _, hty2, hg2, hlk2⟩
      · rw [hlk2] at hcnt
        have hcnt : ¬ keyCountRaw db [nk] now > 0 := by simpa using hcnt
        simp only [keyRenameNX, Spec.keyRenameNX, hg, hlk, hke, hkk', hg2, hcnt, Res.ok, Spec.ok,
          Bool.false_eq_true, if_false, true_and]
        rw [hren, purge_moved hw now k nk hlive]
      · rw [hlk2] at hcnt
        have hcnt : ¬ keyCountRaw db [nk] now > 0 := by simpa using hcnt
        simp only [keyRenameNX, Spec.keyRenameNX, hg, hlk, hke, hkk', hg2, hcnt, Res.ok, Spec.ok,
          Bool.false_eq_true, if_false, true_and]
        rw [hren, purge_moved hw now k nk hlive]
      · rw [hlk2] at hcnt
        have hcnt : keyCountRaw db [nk] now > 0 := by simpa using hcnt
        simp [keyRenameNX, Spec.keyRenameNX, hg, hlk, hke, hkk', hg2, hcnt, Res.ok, Spec.ok,
          purge_abs hw.names]

theorem keyRename_wf {db : DB} (hw : db.WF) (k nk : Bytes) (now : Int) :
    (keyRename db k nk now).db.WF := by
  unfold keyRename
  split
  · exact hw
  · split
    · exact hw
    · split
      · exact hw
      · rename_i hkk
        have hne : k ≠ nk := by simpa using hkk
        split
        · split
          · exact hw
          · exact renameStmt_wf hw k nk now hne
        · exact renameStmt_wf hw k nk now hne

theorem keyRenameNX_wf {db : DB} (hw : db.WF) (k nk : Bytes) (now : Int) :
    (keyRenameNX db k nk now).db.WF := by
  unfold keyRenameNX
  split
  · exact hw
  · split
    · exact hw
    · split
      · exact hw
      · rename_i hkk
        have hne : k ≠ nk := by simpa using hkk
        split
        · exact hw
        · exact renameStmt_wf hw k nk now hne

/-! ### the `Update` wrapper -/

/-- a callback that reports errors only on paths that have not written is not changed by the
rollback of `DB.Update` -/
theorem update_eq_of_err {f : DB → Res} {db : DB}
    (h : ∀ e, (f db).out = .error e → (f db).db = db) : update f db = f db := by
  unfold update
  cases hfd : f db with
  | mk o d =>
    cases o with
    | ok v => rfl
    | error e =>
      have := h e (by rw [hfd])
      rw [hfd] at this
      simp only at this
      simp only [this]

theorem update_keyRename (db : DB) (k nk : Bytes) (now : Int) :
    update (fun d => keyRename d k nk now) db = keyRename db k nk now :=
  update_eq_of_err (fun _ h => Redka.Proofs.NoTrace.keyRename_err h)

theorem update_keyRenameNX (db : DB) (k nk : Bytes) (now : Int) :
    update (fun d => keyRenameNX d k nk now) db = keyRenameNX db k nk now :=
  update_eq_of_err (fun _ h => Redka.Proofs.NoTrace.keyRenameNX_err h)

/-! ### a fresh key starts empty -/

/-- under the C11 audit no child row carries the id the next key will get -/
theorem no_children_of_next_id {db : DB} (h : db.Inv) :
    (∀ c ∈ db.strs, c.kid ≠ db.nextKeyId) ∧ (∀ c ∈ db.lists, c.kid ≠ db.nextKeyId) ∧
    (∀ c ∈ db.sets, c.kid ≠ db.nextKeyId) ∧ (∀ c ∈ db.hashes, c.kid ≠ db.nextKeyId) ∧
    (∀ c ∈ db.zsets, c.kid ≠ db.nextKeyId) := by
  obtain ⟨h1, h2, h3, h4, h5⟩ := Clean.owners_of_inv h
  refine ⟨?_, ?_, ?_, ?_, ?_⟩
  · intro c hc; obtain ⟨k, hk, hkk⟩ := h1 c hc; rw [← hkk]; exact nextKeyId_fresh db k hk
  · intro c hc; obtain ⟨k, hk, hkk⟩ := h2 c hc; rw [← hkk]; exact nextKeyId_fresh db k hk
  · intro c hc; obtain ⟨k, hk, hkk⟩ := h3 c hc; rw [← hkk]; exact nextKeyId_fresh db k hk
  · intro c hc; obtain ⟨k, hk, hkk⟩ := h4 c hc; rw [← hkk]; exact nextKeyId_fresh db k hk
  · intro c hc; obtain ⟨k, hk, hkk⟩ := h5 c hc; rw [← hkk]; exact nextKeyId_fresh db k hk

/-- under the C11 audit a database without key rows has no rows at all -/
theorem empty_of_no_keys {db : DB} (h : db.Inv) (hk : db.keys = []) :
    db.strs = [] ∧ db.lists = [] ∧ db.sets = [] ∧ db.hashes = [] ∧ db.zsets = [] := by
  obtain ⟨h1, h2, h3, h4, h5⟩ := Clean.owners_of_inv h
  rw [hk] at h1 h2 h3 h4 h5
  refine ⟨?_, ?_, ?_, ?_, ?_⟩
  · cases hs : db.strs with
    | nil => rfl
    | cons c _ => obtain ⟨_, hx, _⟩ := h1 c (by rw [hs]; simp); cases hx
  · cases hs : db.lists with
    | nil => rfl
    | cons c _ => obtain ⟨_, hx, _⟩ := h2 c (by rw [hs]; simp); cases hx
  · cases hs : db.sets with
    | nil => rfl
    | cons c _ => obtain ⟨_, hx, _⟩ := h3 c (by rw [hs]; simp); cases hx
  · cases hs : db.hashes with
    | nil => rfl
    | cons c _ => obtain ⟨_, hx, _⟩ := h4 c (by rw [hs]; simp); cases hx
  · cases hs : db.zsets with
    | nil => rfl
    | cons c _ => obtain ⟨_, hx, _⟩ := h5 c (by rw [hs]; simp); cases hx

end Redka.Model
