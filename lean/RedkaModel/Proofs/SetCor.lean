/-
  `internal/rset`: the `DB`-level methods (`Model.dbRun`) against the specification, one lemma per
  method in the strong form `RefS`, and what the specification's operations do to the set stored
  under a name (used by the clause-by-clause corollaries of C03).
-/
import RedkaModel.Proofs.SetAlg

namespace Redka.Model.SetRef

open Redka Redka.Spec Redka.DB Redka.Scan

/-! ### `DB.Update`: all or nothing -/

theorem RefS.upd {now : Int} {f : DB → Res} {db : DB} {s : SRes} (h : RefS now (f db) s)
    (herr : ∀ e, (f db).out = .error e → (f db).db = db) : RefS now (update f db) s := by
  unfold update
  simp only
  split
  · exact h
  · rename_i e he
    refine ⟨by rw [← h.1, he], ?_⟩
    have := herr e he
    rw [← h.2, this]

theorem setAdd_err_db (db : DB) (k : Bytes) (es : List Bytes) (now : Int) (e : Err)
    (h : (setAdd db k es now).out = .error e) : (setAdd db k es now).db = db := by
  unfold setAdd at h ⊢
  cases hk : setAddKey db k now with
  | error e' => rfl
  | ok p => rw [hk] at h; simp [Res.ok] at h

theorem setDelete_err_db {db : DB} (hw : SetWF db) (k : Bytes) (es : List Bytes) (now : Int)
    (e : Err) (h : (setDelete db k es now).out = .error e) : (setDelete db k es now).db = db := by
  rcases setDelete_cases hw k es now with ⟨_, h'⟩ | ⟨_, _, _, h'⟩ | ⟨_, _, _, _, h', _⟩ <;>
    (rw [h'] at h; simp [Res.ok] at h)

theorem setRandom_db (db : DB) (k : Bytes) (o : Option Bytes) (now : Int) :
    (setRandom db k o now).db = db := by
  unfold setRandom
  cases db.liveKeyT k TSet now with
  | none => cases o <;> rfl
  | some r =>
    cases o with
    | none => simp only; split <;> rfl
    | some e => simp only; split <;> rfl

theorem not_mem_of_contains {ks : List Bytes} {d : Bytes} (h : ks.contains d = false) :
    ∀ k ∈ ks, k ≠ d := by
  intro k hk hkd
  rw [hkd] at hk
  have := List.contains_iff_mem.2 hk
  rw [h] at this
  cases this

/-! ### the `DB`-level methods, one by one -/

section run
variable {db : DB} (hw : SetWF db) (now : Int)
include hw

theorem run_setAdd {k : Bytes} (hns : staleKey db now k = false) (es : List Bytes) :
    RefS now (dbRun (.setAdd k es) now db) (Spec.setAdd (abs now db) k es) :=
  (setAdd_refS hw hns es).upd (setAdd_err_db db k es now)

theorem run_setDelete (k : Bytes) (es : List Bytes) :
    RefS now (dbRun (.setDelete k es) now db) (Spec.setDelete (abs now db) k es) :=
  (setDelete_refS hw now k es).upd (setDelete_err_db hw k es now)

theorem run_setDiff (ks : List Bytes) :
    RefS now (dbRun (.setDiff ks) now db)
      (Spec.ok (Spec.bytesList (setDiffOf (abs now db) ks)) (abs now db)) := by
  refine ⟨?_, rfl⟩
  show Except.ok (Model.bytesList (setDiffRaw db ks now)) = _
  rw [setDiffRaw_eq hw.wf]; rfl

theorem run_setUnion (ks : List Bytes) :
    RefS now (dbRun (.setUnion ks) now db)
      (Spec.ok (Spec.bytesList (setUnionOf (abs now db) ks)) (abs now db)) := by
  show RefS now (setUnion db ks now) _
  unfold setUnion
  cases ks with
  | nil => exact ⟨rfl, rfl⟩
  | cons k rest =>
    refine ⟨?_, rfl⟩
    show Except.ok (Model.bytesList (setUnionRaw db (k :: rest) now)) = _
    rw [setUnionRaw_eq hw.wf]; rfl

theorem run_setInter (ks : List Bytes) :
    RefS now (dbRun (.setInter ks) now db)
      (Spec.ok (Spec.bytesList (setInterOf (abs now db) ks)) (abs now db)) := by
  show RefS now (setInter db ks now) _
  unfold setInter
  cases ks with
  | nil => exact ⟨rfl, rfl⟩
  | cons k rest =>
    refine ⟨?_, rfl⟩
    show Except.ok (Model.bytesList (setInterRaw db (k :: rest) now)) = _
    rw [setInterRaw_eq hw (by simp)]; rfl

theorem run_setExists (k e : Bytes) :
    RefS now (dbRun (.setExists k e) now db)
      (Spec.ok (.bool (smem (setAt (abs now db) k) e)) (abs now db)) :=
  setExists_refS hw.wf now k e

theorem run_setItems (k : Bytes) :
    RefS now (dbRun (.setItems k) now db)
      (Spec.ok (Spec.bytesList (setAt (abs now db) k)) (abs now db)) :=
  setItems_refS hw.wf now k

theorem run_setLen (k : Bytes) :
    RefS now (dbRun (.setLen k) now db)
      (Spec.ok (.int (setAt (abs now db) k).length) (abs now db)) :=
  setLen_refS hw now k

theorem run_setRandom (k : Bytes) (o : Option Bytes) :
    RefS now (dbRun (.setRandom k o) now db) (Spec.setRandom (abs now db) k o) :=
  setRandom_refS hw.wf now k o

theorem run_setPop (k : Bytes) (o : Option Bytes) :
    RefS now (dbRun (.setPop k o) now db) (Spec.setPop (abs now db) k o) :=
  setPop_refS hw now k o

theorem run_setMove {d : Bytes} (hns : staleKey db now d = false) (s e : Bytes) :
    RefS now (dbRun (.setMove s d e) now db) (Spec.setMove (abs now db) s d e) :=
  setMove_refS hw hns s e

theorem run_setDiffStore {d : Bytes} (hns : staleKey db now d = false) {ks : List Bytes}
    (hds : ks.contains d = false) :
    RefS now (dbRun (.setDiffStore d ks) now db)
      (Spec.setStore (abs now db) d ks (setDiffOf (abs now db) ks)) := by
  have hnd := not_mem_of_contains hds
  refine setStore_refS hw hns ks _ (ssorted_setDiffOf hw now ks) ?_
  intro _ db2 hw2 hfr
  show setDiffRaw db2 ks now = _
  rw [setDiffRaw_eq hw2.wf]
  exact setDiffOf_congr (fun k hk => setAt_frame hw.names hw2.names hfr now (hnd k hk))

theorem run_setUnionStore {d : Bytes} (hns : staleKey db now d = false) {ks : List Bytes}
    (hds : ks.contains d = false) :
    RefS now (dbRun (.setUnionStore d ks) now db)
      (Spec.setStore (abs now db) d ks (setUnionOf (abs now db) ks)) := by
  have hnd := not_mem_of_contains hds
  refine setStore_refS hw hns ks _ (ssorted_setUnionOf _ ks) ?_
  intro _ db2 hw2 hfr
  show setUnionRaw db2 ks now = _
  rw [setUnionRaw_eq hw2.wf]
  exact setUnionOf_congr (fun k hk => setAt_frame hw.names hw2.names hfr now (hnd k hk))

theorem run_setInterStore {d : Bytes} (hns : staleKey db now d = false) {ks : List Bytes}
    (hds : ks.contains d = false) :
    RefS now (dbRun (.setInterStore d ks) now db)
      (Spec.setStore (abs now db) d ks (setInterOf (abs now db) ks)) := by
  have hnd := not_mem_of_contains hds
  refine setStore_refS hw hns ks _ (ssorted_setInterOf hw now ks) ?_
  intro hne db2 hw2 hfr
  show setInterRaw db2 ks now = _
  rw [setInterRaw_eq hw2 (by intro h; rw [h] at hne; cases hne)]
  exact setInterOf_congr (fun k hk => setAt_frame hw.names hw2.names hfr now (hnd k hk))

end run

/-! ### what the specification's operations do to the set under a name -/

/-- the name is free or holds a set -/
def FreeOrSet (s : State) (k : Bytes) : Prop := ∀ v et, get s k = some ⟨v, et⟩ → ∃ m, v = .set m

theorem setAt_of_get {s : State} {k : Bytes} {m : List Bytes} {et : Option Int}
    (h : get s k = some ⟨.set m, et⟩) : setAt s k = m := by
  simp [setAt, h]

theorem setAt_of_none {s : State} {k : Bytes} (h : get s k = none) : setAt s k = [] := by
  simp [setAt, h]

theorem setAt_put_self (s : State) (k : Bytes) (m : List Bytes) (et : Option Int) :
    setAt (put s k ⟨.set m, et⟩) k = m := by
  simp [setAt, get_put]

theorem setAt_put_other (s : State) {k k' : Bytes} (h : k ≠ k') (e : Entry) :
    setAt (put s k e) k' = setAt s k' := by
  have : (k == k') = false := by simpa using h
  simp [setAt, get_put, this]

/-- a set with a member is stored as a set -/
theorem get_of_mem_setAt {s : State} {k e : Bytes} (h : e ∈ setAt s k) :
    ∃ et, get s k = some ⟨.set (setAt s k), et⟩ := by
  unfold setAt at h ⊢
  cases hg : get s k with
  | none => rw [hg] at h; cases h
  | some en =>
    obtain ⟨v, et⟩ := en
    rw [hg] at h
    cases v <;> first | exact ⟨et, rfl⟩ | cases h

theorem ssorted_setAt_abs {db : DB} (hw : SetWF db) (now : Int) (k : Bytes) :
    SSorted (setAt (abs now db) k) := by
  rw [setAt_abs hw.wf]; exact ssorted_mset hw k now

theorem spec_setAdd {s : State} {k : Bytes} (hno : FreeOrSet s k) (es : List Bytes) :
    (Spec.setAdd s k es).out
        = .ok (.int (((sunion (setAt s k) es).length : Int) - (setAt s k).length)) ∧
      setAt (Spec.setAdd s k es).st k = sunion (setAt s k) es := by
  cases hg : get s k with
  | none => simp [Spec.setAdd, hg, Spec.ok, setAt_of_none hg, setAt_put_self, sfromList_eq]
  | some en =>
    obtain ⟨v, et⟩ := en
    obtain ⟨m, rfl⟩ := hno v et hg
    simp [Spec.setAdd, hg, Spec.ok, setAt_of_get hg, setAt_put_self]

theorem spec_setDelete (s : State) (k : Bytes) (es : List Bytes) :
    (Spec.setDelete s k es).out
        = .ok (.int (((setAt s k).length : Int) - (sdiff (setAt s k) es).length)) ∧
      setAt (Spec.setDelete s k es).st k = sdiff (setAt s k) es := by
  cases hg : get s k with
  | none => simp [Spec.setDelete, hg, Spec.ok, setAt_of_none hg, sdiff]
  | some en =>
    obtain ⟨v, et⟩ := en
    cases v with
    | set m =>
      simp only [Spec.setDelete, hg, Spec.ok, setAt_of_get hg]
      refine ⟨trivial, ?_⟩
      by_cases hl : (sdiff m es).length = m.length
      · have : sdiff m es = m := List.filter_eq_self.2 (List.length_filter_eq_length_iff.1 hl)
        simp [setAt_of_get hg, this]
      · have : ((sdiff m es).length == m.length) = false := by simpa using hl
        simp [this, setAt_put_self]
    | _ => simp [Spec.setDelete, hg, Spec.ok, setAt, sdiff]

theorem spec_setStore {s : State} {d : Bytes} {ks : List Bytes} (hne : ks.isEmpty = false)
    (hno : FreeOrSet s d) (result : List Bytes) :
    (Spec.setStore s d ks result).out = .ok (.int result.length) ∧
      setAt (Spec.setStore s d ks result).st d = result := by
  cases hg : get s d with
  | none => simp [Spec.setStore, hne, hg, Spec.ok, setAt_put_self]
  | some en =>
    obtain ⟨v, et⟩ := en
    obtain ⟨m, rfl⟩ := hno v et hg
    simp [Spec.setStore, hne, hg, Spec.ok, setAt_put_self]

/-- removing one member of a duplicate-free list makes it one shorter -/
theorem length_filter_ne {e : Bytes} : ∀ {l : List Bytes}, l.Nodup → e ∈ l →
    (l.filter (fun x => !([e] : List Bytes).contains x)).length + 1 = l.length
  | [], _, h => by cases h
  | y :: l, hnd, h => by
    have hnd' := List.nodup_cons.1 hnd
    by_cases hy : y = e
    · subst hy
      have : l.filter (fun x => !([y] : List Bytes).contains x) = l := by
        apply List.filter_eq_self.2
        intro x hx
        have : x ≠ y := fun hxy => hnd'.1 (hxy ▸ hx)
        simp [this]
      rw [List.filter_cons, if_neg (by simp), this, List.length_cons]
    · have he : e ∈ l := by
        rcases List.mem_cons.1 h with h | h
        · exact absurd h.symm hy
        · exact h
      have ih := length_filter_ne hnd'.2 he
      rw [List.filter_cons, if_pos (by simp [hy]), List.length_cons, List.length_cons]
      omega

theorem setAt_congr {s s' : State} {k : Bytes} (h : get s' k = get s k) : setAt s' k = setAt s k := by
  unfold setAt; rw [h]

/-- the specification's delete touches one name only -/
theorem spec_setDelete_other (s : State) {k k' : Bytes} (h : k ≠ k') (es : List Bytes) :
    get (Spec.setDelete s k es).st k' = get s k' := by
  have hb : (k == k') = false := by simpa using h
  unfold Spec.setDelete
  cases hg : get s k with
  | none => rfl
  | some en =>
    obtain ⟨v, et⟩ := en
    cases v with
    | set m =>
      simp only [Spec.ok]
      split
      · rfl
      · rw [get_put]; simp [hb]
    | _ => rfl

/-- the specification's add touches one name only -/
theorem spec_setAdd_other (s : State) {k k' : Bytes} (h : k ≠ k') (es : List Bytes) :
    get (Spec.setAdd s k es).st k' = get s k' := by
  have hb : (k == k') = false := by simpa using h
  unfold Spec.setAdd
  cases hg : get s k with
  | none => simp only [Spec.ok]; rw [get_put]; simp [hb]
  | some en =>
    obtain ⟨v, et⟩ := en
    cases v with
    | set m => simp only [Spec.ok]; rw [get_put]; simp [hb]
    | _ => rfl

theorem isEmpty_false_of_ne_nil {α : Type} {l : List α} (h : l ≠ []) : l.isEmpty = false := by
  cases l with
  | nil => exact absurd rfl h
  | cons _ _ => rfl

end Redka.Model.SetRef
