/-
  C06, first sentence: a type-specific operation on a name that is held — visibly — by a key of
  another type. Every model method reaches the key row either through the type-guarded lookup
  (`DB.liveKeyT`, which then finds nothing) or through the type-guarded upsert (`keyUpsert`, which
  then fails with `ErrKeyType`); the theorem below goes through the 54 one-key operations.
-/
import RedkaModel.Proofs.KeyRef
import RedkaModel.Spec.Meta

set_option linter.unusedSimpArgs false

namespace Redka.Model

open Redka Redka.Spec Redka.DB

/-- the key of a type-specific operation that names exactly one key (the float increments, which
are outside the model's numeric domain, excluded) -/
def singleKey : Op → Option Bytes
  | .strGet k | .strIncr k _ | .strSet k _ | .strSetExpires k _ _ | .strSetWith k _ _ => some k
  | .listDelete k _ | .listDeleteBack k _ _ | .listDeleteFront k _ _ | .listGet k _
  | .listInsertAfter k _ _ | .listInsertBefore k _ _ | .listLen k | .listPopBack k | .listPopFront k
  | .listPushBack k _ | .listPushFront k _ | .listRange k _ _ | .listSet k _ _ | .listTrim k _ _ => some k
  | .setAdd k _ | .setDelete k _ | .setExists k _ | .setItems k | .setLen k | .setPop k _
  | .setRandom k _ | .setScan k _ _ _ => some k
  | .hashDelete k _ | .hashExists k _ | .hashFields k | .hashGet k _ | .hashGetMany k _
  | .hashIncr k _ _ | .hashItems k | .hashLen k | .hashScan k _ _ _ | .hashSet k _ _
  | .hashSetMany k _ | .hashSetNotExists k _ _ | .hashValues k => some k
  | .zAdd k _ _ | .zAddMany k _ | .zCount k _ _ | .zDelete k _ | .zDeleteRank k _ _
  | .zDeleteScore k _ _ | .zGetRank k _ | .zGetRankRev k _ | .zGetScore k _ | .zIncr k _ _ | .zLen k
  | .zRangeRank k _ _ _ | .zRangeScore k _ _ _ _ _ | .zScan k _ _ _ => some k
  | _ => none

/-- the operation would create the key if the name were free (so it must be refused when the name
is taken by another type). A conditional string set with `IfExists` creates nothing; a multi-set
of nothing creates nothing. -/
def creates : Op → Bool
  | .strIncr .. | .strSet .. | .strSetExpires .. => true
  | .strSetWith _ _ o => !o.ifExists
  | .listPushBack .. | .listPushFront .. => true
  | .setAdd .. => true
  | .hashIncr .. | .hashSet .. | .hashSetNotExists .. => true
  | .hashSetMany _ items => !items.isEmpty
  | .zAdd .. | .zIncr .. => true
  | .zAddMany _ items => !items.isEmpty
  | _ => false

theorem liveKeyT_empty (k : Bytes) (t now : Int) : ({} : DB).liveKeyT k t now = none := rfl

theorem liveKeyT_other {db : DB} (hn : (db.keys.map (·.key)).Nodup) {k : Bytes} {t now : Int}
    {r : KeyRow} (hl : db.liveKey k now = some r) (ht : r.ty ≠ t) : db.liveKeyT k t now = none := by
  obtain ⟨hr, hrk, _⟩ := liveKey_some hl
  have hf : db.findKey k = some r := (findKey_eq_some_iff hn).2 ⟨hr, hrk⟩
  rw [liveKeyT_eq hn, hf]
  simp [Option.filter, ht]

theorem findKey_of_liveKey {db : DB} (hn : (db.keys.map (·.key)).Nodup) {k : Bytes} {now : Int}
    {r : KeyRow} (hl : db.liveKey k now = some r) : db.findKey k = some r := by
  obtain ⟨hr, hrk, _⟩ := liveKey_some hl
  exact (findKey_eq_some_iff hn).2 ⟨hr, hrk⟩

section cross
variable {db : DB} {k : Bytes} {t now : Int}

/-- the two facts about the tables that the case analysis uses -/
structure Blocked (db : DB) (k : Bytes) (t now : Int) : Prop where
  look : db.liveKeyT k t now = none
  upsert : ∀ onNew onOld, keyUpsert db k t onNew onOld = .error .keyType

theorem blocked_of_live {db : DB} (hn : (db.keys.map (·.key)).Nodup) {k : Bytes} {t now : Int}
    {r : KeyRow} (hl : db.liveKey k now = some r) (ht : r.ty ≠ t) : Blocked db k t now :=
  ⟨liveKeyT_other hn hl ht, fun _ _ => keyUpsert_other (findKey_of_liveKey hn hl) ht⟩

/-- the shape of the conclusion: nothing changes; a creating write is refused with `ErrKeyType`,
everything else answers what it answers on an empty database -/
def CrossOK (op : Op) (now : Int) (db : DB) : Prop :=
  (dbRun op now db).db = db ∧
    (dbRun op now db).out = if creates op then .error .keyType else (dbRun op now {}).out

theorem cross_list (hb : Blocked db k TList now) : ∀ op, singleKey op = some k →
    opType op = some TList → CrossOK op now db := by
  intro op hsk hty
  have h1 := hb.look
  have h2 := hb.upsert
  unfold CrossOK
  cases op <;> first | (simp [singleKey] at hsk; done) |
    (simp [opType, TString, TList, TSet, THash, TZSet] at hty; done) | skip
  all_goals (simp only [singleKey, Option.some.injEq] at hsk; subst hsk)
  all_goals simp [dbRun, wrapOf, tx, update, creates, listDelete, listDeleteN, listGet, listInsert,
    listLen, listPop, listPush, listPushKey, listRange, listSet, listTrim, h1, h2, liveKeyT_empty,
    Res.ok, Res.err]
  all_goals (repeat' split)
  all_goals simp

theorem cross_str (hb : Blocked db k TString now) : ∀ op, singleKey op = some k →
    opType op = some TString → CrossOK op now db := by
  intro op hsk hty
  have h1 := hb.look
  have h2 := hb.upsert
  unfold CrossOK
  cases op <;> first | (simp [singleKey] at hsk; done) |
    (simp [opType, TString, TList, TSet, THash, TZSet] at hty; done) | skip
  all_goals (simp only [singleKey, Option.some.injEq] at hsk; subst hsk)
  case strSetWith v o =>
    cases hie : o.ifExists <;> cases hik : o.keepTTL <;>
      simp [dbRun, wrapOf, tx, update, creates, strGetRaw, strSetWith, strSetTx, strUpdateTx, strSet1,
        strUpdate1, h1, h2, liveKeyT_empty, Res.ok, Res.err, hie, hik]
  all_goals simp [dbRun, wrapOf, tx, update, creates, strGet, strGetRaw, strIncr, strSet, strSetExpires,
    strSetTx, strUpdateTx, strSet1, strUpdate1, valueInt, h1, h2, liveKeyT_empty, Res.ok, Res.err]
  all_goals (repeat' split)
  all_goals simp

theorem cross_set (hb : Blocked db k TSet now) : ∀ op, singleKey op = some k →
    opType op = some TSet → CrossOK op now db := by
  intro op hsk hty
  have h1 := hb.look
  have h2 := hb.upsert
  unfold CrossOK
  cases op <;> first | (simp [singleKey] at hsk; done) |
    (simp [opType, TString, TList, TSet, THash, TZSet] at hty; done) | skip
  all_goals (simp only [singleKey, Option.some.injEq] at hsk; subst hsk)
  all_goals simp [dbRun, wrapOf, tx, update, creates, setAdd, setAddKey, setDelete, setExists, setItems, setLen, setPop, setRandom, setScan, bytesList, h1, h2, liveKeyT_empty,
    Res.ok, Res.err]
  all_goals (repeat' split)
  all_goals simp

theorem cross_hash (hb : Blocked db k THash now) : ∀ op, singleKey op = some k →
    opType op = some THash → CrossOK op now db := by
  intro op hsk hty
  have h1 := hb.look
  have h2 := hb.upsert
  unfold CrossOK
  cases op <;> first | (simp [singleKey] at hsk; done) |
    (simp [opType, TString, TList, TSet, THash, TZSet] at hty; done) | skip
  all_goals (simp only [singleKey, Option.some.injEq] at hsk; subst hsk)
  case hashSetMany items =>
    cases items with
    | nil => simp [dbRun, wrapOf, tx, update, creates, hashSetMany, hashSetManyLoop, hashCountRaw, h1,
        liveKeyT_empty, Res.ok]
    | cons p rest =>
      simp [dbRun, wrapOf, tx, update, creates, hashSetMany, hashSetManyLoop, hashCountRaw, hashSetTx,
        hashSetKey, h1, h2, liveKeyT_empty, Res.ok, Res.err]
  all_goals simp [dbRun, wrapOf, tx, update, creates, hashDelete, hashExists, hashFields, hashGet, hashGetMany, hashIncr, hashItems, hashLen, hashScan, hashSet, hashSetMany, hashSetNotExists, hashValues, hashCountRaw, hashSetTx, hashSetKey, hashGetRaw, hashLiveRows, hashSetManyLoop, valueInt, sqlLimit, sortBy, maxD, h1, h2, liveKeyT_empty,
    Res.ok, Res.err]
  all_goals (repeat' split)
  all_goals simp

theorem cross_zset (hb : Blocked db k TZSet now) : ∀ op, singleKey op = some k →
    opType op = some TZSet → CrossOK op now db := by
  intro op hsk hty
  have h1 := hb.look
  have h2 := hb.upsert
  unfold CrossOK
  cases op <;> first | (simp [singleKey] at hsk; done) |
    (simp [opType, TString, TList, TSet, THash, TZSet] at hty; done) | skip
  all_goals (simp only [singleKey, Option.some.injEq] at hsk; subst hsk)
  case zAddMany items =>
    cases items with
    | nil => simp [dbRun, wrapOf, tx, update, creates, zAddMany, zAddManyLoop, zCountElems, zLiveRows, h1,
        liveKeyT_empty, Res.ok]
    | cons p rest =>
      simp [dbRun, wrapOf, tx, update, creates, zAddMany, zAddManyLoop, zCountElems, zLiveRows, zAddTx,
        zAddKey, h1, h2, liveKeyT_empty, Res.ok, Res.err]
  all_goals simp [dbRun, wrapOf, tx, update, creates, zAdd, zAddMany, zCount, zDelete, zDeleteRank, zDeleteScore, zGetRank, zGetScore, zIncr, zLen, zRangeRank, zRangeScore, zScan, zLiveRows, zCountElems, zAddTx, zAddKey, zAddManyLoop, zDeleteWhere, indexOf?, sqlLimit, sortBy, maxD, h1, h2, liveKeyT_empty,
    Res.ok, Res.err]
  all_goals (repeat' split)
  all_goals simp

end cross

theorem opType_cases {op : Op} {t : Int} (h : opType op = some t) :
    t = TString ∨ t = TList ∨ t = TSet ∨ t = THash ∨ t = TZSet := by
  cases op <;> simp [opType] at h <;> simp [← h]

/-- **A type-specific one-key operation on a name held visibly by a key of another type**: no
table row changes; an operation that would create the key is refused with `ErrKeyType`; every
other operation (reads, and the writes that only touch existing elements) answers exactly what it
answers on an empty database. Needs unique key names only. -/
theorem cross_type_single {db : DB} (hn : (db.keys.map (·.key)).Nodup) {op : Op} {k : Bytes}
    {t now : Int} {r : KeyRow} (hsk : singleKey op = some k) (hty : opType op = some t)
    (hl : db.liveKey k now = some r) (hne : r.ty ≠ t) : CrossOK op now db := by
  have hb := blocked_of_live hn hl hne
  rcases opType_cases hty with h | h | h | h | h <;> subst h
  · exact cross_str hb op hsk hty
  · exact cross_list hb op hsk hty
  · exact cross_set hb op hsk hty
  · exact cross_hash hb op hsk hty
  · exact cross_zset hb op hsk hty

theorem opKeys_single {op : Op} {k : Bytes} (h : singleKey op = some k) :
    opKeys op = [k] ∧ ∃ t, opType op = some t := by
  cases op <;> simp [singleKey] at h <;> subst h <;> simp [opKeys, opType]

/-- for a one-key operation `Spec.crossType` says: the name is visible and of another type -/
theorem crossType_single {op : Op} {k : Bytes} {t now : Int} {db : DB} (hsk : singleKey op = some k)
    (hty : opType op = some t) (hc : crossType op now db = true) :
    ∃ r, db.liveKey k now = some r ∧ r.ty ≠ t := by
  unfold crossType at hc
  rw [hty, (opKeys_single hsk).1] at hc
  simp only [List.any_cons, List.any_nil, Bool.or_false] at hc
  cases hl : db.liveKey k now with
  | none => simp [hl] at hc
  | some r => exact ⟨r, rfl, by simpa [hl] using hc⟩

end Redka.Model
